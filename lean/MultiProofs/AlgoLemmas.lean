/-
  MultiProofs.AlgoLemmas — what the interface programs of AlgoProgs.lean compute on a list of independent values
  (pure list reasoning; no memory, no views).
-/
import MultiProofs.AlgoProgs
import MultiProofs.SeqLemmas

namespace Multi

variable {ρ : Type}

theorem fillProg_list (x : ρ) (pre mid post : List ρ) :
    (fillProg x mid.length pre.length).runList (pre ++ mid ++ post)
      = some (pre ++ List.replicate mid.length x ++ post, ((pre.length + mid.length : Nat) : Int)) := by
  sorry

theorem storeProg_list (vals pre mid post : List ρ) (h : mid.length = vals.length) :
    (storeProg vals pre.length).runList (pre ++ mid ++ post)
      = some (pre ++ vals ++ post, ((pre.length + vals.length : Nat) : Int)) := by
  sorry

/-- forward copy inside one sequence: safe when the destination starts at or before the source, or behind its end -/
theorem copyProg_list (xs : List ρ) (n s d : Nat) (hs : s + n ≤ xs.length) (hd : d + n ≤ xs.length)
    (hsafe : d ≤ s ∨ s + n ≤ d) :
    ∃ ys, (copyProg n s d).runList xs = some (ys, ((d + n : Nat) : Int)) ∧ ys.length = xs.length ∧
      (∀ i, i < n → ys[d + i]? = xs[s + i]?) ∧ (∀ j, (j < d ∨ d + n ≤ j) → ys[j]? = xs[j]?) := by
  sorry

/-- backward copy inside one sequence (`sEnd`, `dEnd` are the END positions): safe when the destination ends at or after
    the source's end, or before the source's start -/
theorem copyBackwardProg_list (xs : List ρ) (n sEnd dEnd : Nat) (hs1 : n ≤ sEnd) (hs2 : sEnd ≤ xs.length)
    (hd1 : n ≤ dEnd) (hd2 : dEnd ≤ xs.length) (hsafe : sEnd ≤ dEnd ∨ dEnd + n ≤ sEnd) :
    ∃ ys, (copyBackwardProg n sEnd dEnd).runList xs = some (ys, ((dEnd - n : Nat) : Int)) ∧ ys.length = xs.length ∧
      (∀ i, i < n → ys[dEnd - n + i]? = xs[sEnd - n + i]?) ∧ (∀ j, (j < dEnd - n ∨ dEnd ≤ j) → ys[j]? = xs[j]?) := by
  sorry

theorem swapRangesProg_list (xs : List ρ) (n a b : Nat) (ha : a + n ≤ xs.length) (hb : b + n ≤ xs.length)
    (hdis : a + n ≤ b ∨ b + n ≤ a) :
    ∃ ys, (swapRangesProg n a b).runList xs = some (ys, ((b + n : Nat) : Int)) ∧ ys.length = xs.length ∧
      (∀ i, i < n → ys[a + i]? = xs[b + i]? ∧ ys[b + i]? = xs[a + i]?) ∧
      (∀ j, (j < a ∨ a + n ≤ j) → (j < b ∨ b + n ≤ j) → ys[j]? = xs[j]?) := by
  sorry

theorem transformProg_list (f : ρ → ρ) (xs : List ρ) (n s d : Nat) (hs : s + n ≤ xs.length) (hd : d + n ≤ xs.length)
    (hsafe : d ≤ s ∨ s + n ≤ d) :
    ∃ ys, (transformProg f n s d).runList xs = some (ys, ((d + n : Nat) : Int)) ∧ ys.length = xs.length ∧
      (∀ i, i < n → ys[d + i]? = (xs[s + i]?).map f) ∧ (∀ j, (j < d ∨ d + n ≤ j) → ys[j]? = xs[j]?) := by
  sorry

/-- in place over the whole sequence: `std::transform(first, last, first, f)` is `map f` -/
theorem transformProg_map (f : ρ → ρ) (xs : List ρ) :
    (transformProg f xs.length 0 0).runList xs = some (xs.map f, (xs.length : Int)) := by
  sorry

theorem findProg_list (p : ρ → Bool) (xs : List ρ) :
    (findProg p xs.length 0).runList xs = some (xs, ((xs.findIdx p : Nat) : Int)) := by
  sorry

theorem equalProg_list (eq : ρ → ρ → Bool) (xs : List ρ) (n a b : Nat) (ha : a + n ≤ xs.length) (hb : b + n ≤ xs.length) :
    (equalProg eq n a b).runList xs
      = some (xs, if ((seg xs a n).zip (seg xs b n)).all (fun q => eq q.1 q.2) then 1 else 0) := by
  sorry

theorem accumulateProg_list (op : Int → ρ → Int) (xs : List ρ) (init : Int) :
    (accumulateProg op xs.length 0 init).runList xs = some (xs, xs.foldl op init) := by
  sorry

theorem isSortedProg_list (lt : ρ → ρ → Bool) (xs : List ρ) :
    (isSortedProg lt xs.length).runList xs = some (xs, if adjSorted lt xs then 1 else 0) := by
  sorry

theorem lexCompareProg_list (lt : ρ → ρ → Bool) (xs : List ρ) (n1 n2 a b : Nat) (ha : a + n1 ≤ xs.length) (hb : b + n2 ≤ xs.length) :
    (lexCompareProg lt n1 n2 a b).runList xs
      = some (xs, if listLex lt (seg xs a n1) (seg xs b n2) then 1 else 0) := by
  sorry

/-- `remove_if`: the kept elements, in order, form the prefix of the result up to the returned position (what lies
    behind is unspecified by the standard — here: old values) -/
theorem removeProg_list (p : ρ → Bool) (xs : List ρ) :
    ∃ ys, (removeProg p xs.length).runList xs = some (ys, (((xs.filter fun x => !p x).length : Nat) : Int)) ∧
      ys.length = xs.length ∧ ys.take (xs.filter fun x => !p x).length = xs.filter fun x => !p x := by
  sorry

end Multi
