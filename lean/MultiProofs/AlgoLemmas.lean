/-
  MultiProofs.AlgoLemmas — what the interface programs of AlgoProgs.lean compute on a list of independent values
  (pure list reasoning; no memory, no views).
-/
import MultiProofs.AlgoProgs
import MultiProofs.SeqLemmas

namespace Multi

variable {ρ : Type}

/-! ### single steps of `runList` at `Nat` positions -/

theorem Prog.nth_nat (xs : List ρ) (i : Nat) : Prog.nth xs (i : Int) = xs[i]? := by
  simp [Prog.nth]

theorem Prog.setNth_nat (xs : List ρ) (i : Nat) (x : ρ) : Prog.setNth xs (i : Int) x = xs.set i x := by
  simp [Prog.setNth]

theorem Prog.runList_read {xs : List ρ} {i : Nat} {x : ρ} (k : ρ → Prog ρ) (h : xs[i]? = some x) :
    (Prog.read (i : Int) k).runList xs = (k x).runList xs := by
  simp [Prog.runList, Prog.nth_nat, h]

theorem Prog.runList_write {xs : List ρ} {i : Nat} (x : ρ) (k : Prog ρ) (h : i < xs.length) :
    (Prog.write (i : Int) x k).runList xs = k.runList (xs.set i x) := by
  simp [Prog.runList, Prog.nth_nat, Prog.setNth_nat, List.getElem?_eq_getElem h]

theorem Prog.runList_assign {xs : List ρ} {i j : Nat} {y : ρ} (k : Prog ρ) (hi : i < xs.length) (hj : xs[j]? = some y) :
    (Prog.assign (i : Int) (j : Int) k).runList xs = k.runList (xs.set i y) := by
  simp [Prog.runList, Prog.nth_nat, Prog.setNth_nat, List.getElem?_eq_getElem hi, hj]

theorem Prog.runList_swap {xs : List ρ} {i j : Nat} {x y : ρ} (k : Prog ρ) (hi : xs[i]? = some x) (hj : xs[j]? = some y) :
    (Prog.swap (i : Int) (j : Int) k).runList xs = k.runList ((xs.set i y).set j x) := by
  simp [Prog.runList, Prog.nth_nat, Prog.setNth_nat, hi, hj]

theorem natCast_succ' (i : Nat) : ((i : Nat) : Int) + 1 = ((i + 1 : Nat) : Int) := by omega

/-! ### the programs -/

theorem fillProg_list (x : ρ) (pre mid post : List ρ) :
    (fillProg x mid.length pre.length).runList (pre ++ mid ++ post)
      = some (pre ++ List.replicate mid.length x ++ post, ((pre.length + mid.length : Nat) : Int)) := by
  induction mid generalizing pre with
  | nil => simp [fillProg, Prog.runList]
  | cons a mid ih =>
    have e1 : pre ++ a :: mid ++ post = pre ++ a :: (mid ++ post) := by simp
    have hlen : pre.length < (pre ++ a :: (mid ++ post)).length := by simp
    rw [List.length_cons, fillProg, e1, Prog.runList_write x _ hlen]
    have e2 : (pre ++ a :: (mid ++ post)).set pre.length x = (pre ++ [x]) ++ mid ++ post := by simp
    have e3 : ((pre.length : Nat) : Int) + 1 = (((pre ++ [x]).length : Nat) : Int) := by simp
    rw [e2, e3, ih (pre ++ [x])]
    simp [List.replicate_succ]; omega

theorem storeProg_list (vals pre mid post : List ρ) (h : mid.length = vals.length) :
    (storeProg vals pre.length).runList (pre ++ mid ++ post)
      = some (pre ++ vals ++ post, ((pre.length + vals.length : Nat) : Int)) := by
  induction vals generalizing pre mid with
  | nil =>
    have : mid = [] := List.eq_nil_of_length_eq_zero (by simpa using h)
    subst this; simp [storeProg, Prog.runList]
  | cons v vals ih =>
    cases mid with
    | nil => simp at h
    | cons a mid =>
      have e1 : pre ++ a :: mid ++ post = pre ++ a :: (mid ++ post) := by simp
      have hlen : pre.length < (pre ++ a :: (mid ++ post)).length := by simp
      rw [storeProg, e1, Prog.runList_write v _ hlen]
      have e2 : (pre ++ a :: (mid ++ post)).set pre.length v = (pre ++ [v]) ++ mid ++ post := by simp
      have e3 : ((pre.length : Nat) : Int) + 1 = (((pre ++ [v]).length : Nat) : Int) := by simp
      rw [e2, e3, ih (pre ++ [v]) mid (by simpa using h)]
      simp; omega

/-- forward copy inside one sequence: safe when the destination starts at or before the source, or behind its end -/
theorem copyProg_list (xs : List ρ) (n s d : Nat) (hs : s + n ≤ xs.length) (hd : d + n ≤ xs.length)
    (hsafe : d ≤ s ∨ s + n ≤ d) :
    ∃ ys, (copyProg n s d).runList xs = some (ys, ((d + n : Nat) : Int)) ∧ ys.length = xs.length ∧
      (∀ i, i < n → ys[d + i]? = xs[s + i]?) ∧ (∀ j, (j < d ∨ d + n ≤ j) → ys[j]? = xs[j]?) := by
  induction n generalizing xs s d with
  | zero => exact ⟨xs, by simp [copyProg, Prog.runList], rfl, by intro i hi; omega, by intro j _; rfl⟩
  | succ n ih =>
    have hs' : s < xs.length := by omega
    have hd' : d < xs.length := by omega
    rw [copyProg, Prog.runList_assign _ hd' (List.getElem?_eq_getElem hs'), natCast_succ', natCast_succ']
    obtain ⟨ys, hrun, hlen, hcp, hout⟩ := ih (xs.set d xs[s]) (s + 1) (d + 1) (by simp; omega) (by simp; omega) (by omega)
    refine ⟨ys, ?_, by simpa using hlen, ?_, ?_⟩
    · rw [hrun]; congr 2; congr 1; omega
    · intro i hi
      cases i with
      | zero =>
        rw [Nat.add_zero, Nat.add_zero, hout d (by omega), List.getElem?_set_self hd', List.getElem?_eq_getElem hs']
      | succ i =>
        have e1 : d + (i + 1) = d + 1 + i := by omega
        have e2 : s + (i + 1) = s + 1 + i := by omega
        rw [e1, e2, hcp i (by omega), List.getElem?_set_ne (by omega)]
    · intro j hj
      rw [hout j (by omega), List.getElem?_set_ne (by omega)]

/-- backward copy inside one sequence (`sEnd`, `dEnd` are the END positions): safe when the destination ends at or after
    the source's end, or before the source's start -/
theorem copyBackwardProg_list (xs : List ρ) (n sEnd dEnd : Nat) (hs1 : n ≤ sEnd) (hs2 : sEnd ≤ xs.length)
    (hd1 : n ≤ dEnd) (hd2 : dEnd ≤ xs.length) (hsafe : sEnd ≤ dEnd ∨ dEnd + n ≤ sEnd) :
    ∃ ys, (copyBackwardProg n sEnd dEnd).runList xs = some (ys, ((dEnd - n : Nat) : Int)) ∧ ys.length = xs.length ∧
      (∀ i, i < n → ys[dEnd - n + i]? = xs[sEnd - n + i]?) ∧ (∀ j, (j < dEnd - n ∨ dEnd ≤ j) → ys[j]? = xs[j]?) := by
  induction n generalizing xs sEnd dEnd with
  | zero => exact ⟨xs, by simp [copyBackwardProg, Prog.runList], rfl, by intro i hi; omega, by intro j _; rfl⟩
  | succ n ih =>
    have hs' : sEnd - 1 < xs.length := by omega
    have hd' : dEnd - 1 < xs.length := by omega
    have c1 : ((sEnd : Nat) : Int) - 1 = ((sEnd - 1 : Nat) : Int) := by omega
    have c2 : ((dEnd : Nat) : Int) - 1 = ((dEnd - 1 : Nat) : Int) := by omega
    rw [copyBackwardProg, c1, c2, Prog.runList_assign _ hd' (List.getElem?_eq_getElem hs')]
    obtain ⟨ys, hrun, hlen, hcp, hout⟩ := ih (xs.set (dEnd - 1) xs[sEnd - 1]) (sEnd - 1) (dEnd - 1)
      (by omega) (by simp; omega) (by omega) (by simp; omega) (by omega)
    refine ⟨ys, ?_, by simpa using hlen, ?_, ?_⟩
    · rw [hrun]; congr 2; congr 1; omega
    · intro i hi
      by_cases hin : i < n
      · have e1 : dEnd - (n + 1) + i = dEnd - 1 - n + i := by omega
        have e2 : sEnd - (n + 1) + i = sEnd - 1 - n + i := by omega
        rw [e1, e2, hcp i hin, List.getElem?_set_ne (by omega)]
      · have e1 : dEnd - (n + 1) + i = dEnd - 1 := by omega
        have e2 : sEnd - (n + 1) + i = sEnd - 1 := by omega
        rw [e1, e2, hout (dEnd - 1) (by omega), List.getElem?_set_self hd', List.getElem?_eq_getElem hs']
    · intro j hj
      rw [hout j (by omega), List.getElem?_set_ne (by omega)]

theorem swapRangesProg_list (xs : List ρ) (n a b : Nat) (ha : a + n ≤ xs.length) (hb : b + n ≤ xs.length)
    (hdis : a + n ≤ b ∨ b + n ≤ a) :
    ∃ ys, (swapRangesProg n a b).runList xs = some (ys, ((b + n : Nat) : Int)) ∧ ys.length = xs.length ∧
      (∀ i, i < n → ys[a + i]? = xs[b + i]? ∧ ys[b + i]? = xs[a + i]?) ∧
      (∀ j, (j < a ∨ a + n ≤ j) → (j < b ∨ b + n ≤ j) → ys[j]? = xs[j]?) := by
  induction n generalizing xs a b with
  | zero => exact ⟨xs, by simp [swapRangesProg, Prog.runList], rfl, by intro i hi; omega, by intro j _ _; rfl⟩
  | succ n ih =>
    have ha' : a < xs.length := by omega
    have hb' : b < xs.length := by omega
    have hab : a ≠ b := by omega
    rw [swapRangesProg, Prog.runList_swap _ (List.getElem?_eq_getElem ha') (List.getElem?_eq_getElem hb'),
      natCast_succ', natCast_succ']
    obtain ⟨ys, hrun, hlen, hsw, hout⟩ := ih ((xs.set a xs[b]).set b xs[a]) (a + 1) (b + 1)
      (by simp; omega) (by simp; omega) (by omega)
    refine ⟨ys, ?_, by simpa using hlen, ?_, ?_⟩
    · rw [hrun]; congr 2; congr 1; omega
    · intro i hi
      cases i with
      | zero =>
        simp only [Nat.add_zero]
        rw [hout a (by omega) (by omega), hout b (by omega) (by omega)]
        constructor
        · rw [List.getElem?_set_ne (by omega), List.getElem?_set_self ha', List.getElem?_eq_getElem hb']
        · rw [List.getElem?_set_self (by simpa using hb'), List.getElem?_eq_getElem ha']
      | succ i =>
        have e1 : a + (i + 1) = a + 1 + i := by omega
        have e2 : b + (i + 1) = b + 1 + i := by omega
        rw [e1, e2, (hsw i (by omega)).1, (hsw i (by omega)).2]
        constructor
        · rw [List.getElem?_set_ne (by omega), List.getElem?_set_ne (by omega)]
        · rw [List.getElem?_set_ne (by omega), List.getElem?_set_ne (by omega)]
    · intro j hj1 hj2
      rw [hout j (by omega) (by omega), List.getElem?_set_ne (by omega), List.getElem?_set_ne (by omega)]

theorem transformProg_list (f : ρ → ρ) (xs : List ρ) (n s d : Nat) (hs : s + n ≤ xs.length) (hd : d + n ≤ xs.length)
    (hsafe : d ≤ s ∨ s + n ≤ d) :
    ∃ ys, (transformProg f n s d).runList xs = some (ys, ((d + n : Nat) : Int)) ∧ ys.length = xs.length ∧
      (∀ i, i < n → ys[d + i]? = (xs[s + i]?).map f) ∧ (∀ j, (j < d ∨ d + n ≤ j) → ys[j]? = xs[j]?) := by
  induction n generalizing xs s d with
  | zero => exact ⟨xs, by simp [transformProg, Prog.runList], rfl, by intro i hi; omega, by intro j _; rfl⟩
  | succ n ih =>
    have hs' : s < xs.length := by omega
    have hd' : d < xs.length := by omega
    rw [transformProg, Prog.runList_read _ (List.getElem?_eq_getElem hs'), Prog.runList_write _ _ hd',
      natCast_succ', natCast_succ']
    obtain ⟨ys, hrun, hlen, hcp, hout⟩ := ih (xs.set d (f xs[s])) (s + 1) (d + 1) (by simp; omega) (by simp; omega) (by omega)
    refine ⟨ys, ?_, by simpa using hlen, ?_, ?_⟩
    · rw [hrun]; congr 2; congr 1; omega
    · intro i hi
      cases i with
      | zero =>
        rw [Nat.add_zero, Nat.add_zero, hout d (by omega), List.getElem?_set_self hd', List.getElem?_eq_getElem hs']; rfl
      | succ i =>
        have e1 : d + (i + 1) = d + 1 + i := by omega
        have e2 : s + (i + 1) = s + 1 + i := by omega
        rw [e1, e2, hcp i (by omega), List.getElem?_set_ne (by omega)]
    · intro j hj
      rw [hout j (by omega), List.getElem?_set_ne (by omega)]

/-- in place over the whole sequence: `std::transform(first, last, first, f)` is `map f` -/
theorem transformProg_map (f : ρ → ρ) (xs : List ρ) :
    (transformProg f xs.length 0 0).runList xs = some (xs.map f, (xs.length : Int)) := by
  obtain ⟨ys, hrun, hlen, hcp, _⟩ := transformProg_list f xs xs.length 0 0 (by omega) (by omega) (by omega)
  have : ys = xs.map f := by
    apply List.ext_getElem?
    intro i
    by_cases hi : i < xs.length
    · have := hcp i hi
      simp only [Nat.zero_add] at this
      rw [this, List.getElem?_map]
    · rw [List.getElem?_eq_none (by omega), List.getElem?_eq_none (by simp; omega)]
  have hc : (((0 : Nat) : Int)) = 0 := rfl
  rw [← hc, hrun, this]; simp

theorem getElem?_append_length (pre : List ρ) (a : ρ) (rest : List ρ) : (pre ++ a :: rest)[pre.length]? = some a := by
  simp

theorem findProg_aux (p : ρ → Bool) (pre rest : List ρ) :
    (findProg p rest.length pre.length).runList (pre ++ rest)
      = some (pre ++ rest, ((pre.length + rest.findIdx p : Nat) : Int)) := by
  induction rest generalizing pre with
  | nil => simp [findProg, Prog.runList]
  | cons a rest ih =>
    rw [List.length_cons, findProg, Prog.runList_read _ (getElem?_append_length pre a rest), List.findIdx_cons]
    cases hp : p a with
    | true => simp [Prog.runList]
    | false =>
      have e : pre ++ a :: rest = (pre ++ [a]) ++ rest := by simp
      have e3 : ((pre.length : Nat) : Int) + 1 = (((pre ++ [a]).length : Nat) : Int) := by simp
      simp only [Bool.false_eq_true, if_false, cond_false]
      rw [e3, e, ih (pre ++ [a])]
      simp; omega

theorem findProg_list (p : ρ → Bool) (xs : List ρ) :
    (findProg p xs.length 0).runList xs = some (xs, ((xs.findIdx p : Nat) : Int)) := by
  have := findProg_aux p [] xs
  simp at this; exact this

theorem seg_zero (xs : List ρ) (a : Nat) : seg xs a 0 = [] := by simp [seg]

theorem seg_succ (xs : List ρ) (a n : Nat) (h : a < xs.length) : seg xs a (n + 1) = xs[a] :: seg xs (a + 1) n := by
  unfold seg
  rw [List.drop_eq_getElem_cons h, List.take_succ_cons]

theorem equalProg_list (eq : ρ → ρ → Bool) (xs : List ρ) (n a b : Nat) (ha : a + n ≤ xs.length) (hb : b + n ≤ xs.length) :
    (equalProg eq n a b).runList xs
      = some (xs, if ((seg xs a n).zip (seg xs b n)).all (fun q => eq q.1 q.2) then 1 else 0) := by
  induction n generalizing a b with
  | zero => simp [equalProg, Prog.runList, seg_zero]
  | succ n ih =>
    have ha' : a < xs.length := by omega
    have hb' : b < xs.length := by omega
    rw [equalProg, Prog.runList_read _ (List.getElem?_eq_getElem ha'), Prog.runList_read _ (List.getElem?_eq_getElem hb'),
      seg_succ xs a n ha', seg_succ xs b n hb']
    simp only [List.zip_cons_cons, List.all_cons]
    by_cases he : eq xs[a] xs[b] = true
    · simp only [he, if_true, Bool.true_and]
      rw [natCast_succ', natCast_succ', ih (a + 1) (b + 1) (by omega) (by omega)]
    · simp [he, Prog.runList]

theorem accumulateProg_aux (op : Int → ρ → Int) (pre rest : List ρ) (acc : Int) :
    (accumulateProg op rest.length pre.length acc).runList (pre ++ rest) = some (pre ++ rest, rest.foldl op acc) := by
  induction rest generalizing pre acc with
  | nil => simp [accumulateProg, Prog.runList]
  | cons a rest ih =>
    rw [List.length_cons, accumulateProg, Prog.runList_read _ (getElem?_append_length pre a rest)]
    have e : pre ++ a :: rest = (pre ++ [a]) ++ rest := by simp
    have e3 : ((pre.length : Nat) : Int) + 1 = (((pre ++ [a]).length : Nat) : Int) := by simp
    rw [e3, e, ih (pre ++ [a])]
    simp

theorem accumulateProg_list (op : Int → ρ → Int) (xs : List ρ) (init : Int) :
    (accumulateProg op xs.length 0 init).runList xs = some (xs, xs.foldl op init) := by
  have := accumulateProg_aux op [] xs init
  simpa using this

theorem isSortedLoop_aux (lt : ρ → ρ → Bool) (pre : List ρ) (a : ρ) (rest : List ρ) :
    (isSortedLoop lt rest.length pre.length).runList (pre ++ a :: rest)
      = some (pre ++ a :: rest, if adjSorted lt (a :: rest) then 1 else 0) := by
  induction rest generalizing pre a with
  | nil => simp [isSortedLoop, Prog.runList, adjSorted]
  | cons b rest ih =>
    have hb : (pre ++ a :: b :: rest)[pre.length + 1]? = some b := by
      have e : pre ++ a :: b :: rest = (pre ++ [a]) ++ b :: rest := by simp
      have := getElem?_append_length (pre ++ [a]) b rest
      rw [e]; simp
    rw [List.length_cons, isSortedLoop, natCast_succ', Prog.runList_read _ hb,
      Prog.runList_read _ (getElem?_append_length pre a (b :: rest))]
    simp only [adjSorted]
    by_cases hlt : lt b a = true
    · simp [hlt, Prog.runList]
    · have e : pre ++ a :: b :: rest = (pre ++ [a]) ++ b :: rest := by simp
      have e3 : ((pre.length + 1 : Nat) : Int) = (((pre ++ [a]).length : Nat) : Int) := by simp
      have hlt' : lt b a = false := by simpa using hlt
      simp only [hlt', Bool.false_eq_true, if_false, Bool.not_false, Bool.true_and]
      rw [e3, e, ih (pre ++ [a]) b]

theorem isSortedProg_list (lt : ρ → ρ → Bool) (xs : List ρ) :
    (isSortedProg lt xs.length).runList xs = some (xs, if adjSorted lt xs then 1 else 0) := by
  cases xs with
  | nil => simp [isSortedProg, Prog.runList, adjSorted]
  | cons a rest =>
    have := isSortedLoop_aux lt [] a rest
    simp only [List.length_nil, List.nil_append] at this
    simp only [isSortedProg, List.length_cons, Nat.add_one_ne_zero, if_false, Nat.add_sub_cancel]
    exact this

theorem lexCompareProg_list (lt : ρ → ρ → Bool) (xs : List ρ) (n1 n2 a b : Nat) (ha : a + n1 ≤ xs.length) (hb : b + n2 ≤ xs.length) :
    (lexCompareProg lt n1 n2 a b).runList xs
      = some (xs, if listLex lt (seg xs a n1) (seg xs b n2) then 1 else 0) := by
  induction n1 generalizing n2 a b with
  | zero =>
    cases n2 with
    | zero => simp [lexCompareProg, Prog.runList, seg_zero, listLex]
    | succ n2 =>
      have hb' : b < xs.length := by omega
      simp [lexCompareProg, Prog.runList, seg_zero, seg_succ xs b n2 hb', listLex]
  | succ n1 ih =>
    have ha' : a < xs.length := by omega
    cases n2 with
    | zero => simp [lexCompareProg, Prog.runList, seg_zero, seg_succ xs a n1 ha', listLex]
    | succ n2 =>
      have hb' : b < xs.length := by omega
      rw [lexCompareProg, Prog.runList_read _ (List.getElem?_eq_getElem ha'), Prog.runList_read _ (List.getElem?_eq_getElem hb'),
        seg_succ xs a n1 ha', seg_succ xs b n2 hb']
      simp only [listLex]
      by_cases h1 : lt xs[a] xs[b] = true
      · simp [h1, Prog.runList]
      · by_cases h2 : lt xs[b] xs[a] = true
        · simp [h1, h2, Prog.runList]
        · simp only [h1, h2, Bool.false_eq_true, if_false]
          rw [natCast_succ', natCast_succ', ih n2 (a + 1) (b + 1) (by omega) (by omega)]

/-- second phase of `remove_if` at `(i, r)`, `r < i`: the list is `kept ++ junk ++ rest`, the kept elements of `rest` are
    appended to `kept` -/
theorem removeLoop_aux (p : ρ → Bool) (kept : List ρ) (j0 : ρ) (junk rest : List ρ) :
    ∃ ys, (removeLoop p rest.length ((kept ++ j0 :: junk).length : Nat) (kept.length : Nat)).runList (kept ++ j0 :: junk ++ rest)
        = some (ys, ((kept.length + (rest.filter fun x => !p x).length : Nat) : Int)) ∧
      ys.length = (kept ++ j0 :: junk ++ rest).length ∧
      ys.take (kept.length + (rest.filter fun x => !p x).length) = kept ++ rest.filter fun x => !p x := by
  induction rest generalizing kept j0 junk with
  | nil => exact ⟨_, by simp [removeLoop, Prog.runList], rfl, by simp⟩
  | cons x rest ih =>
    have hx : (kept ++ j0 :: junk ++ x :: rest)[(kept ++ j0 :: junk).length]? = some x := by simp
    rw [List.length_cons, removeLoop, Prog.runList_read _ hx, natCast_succ']
    by_cases hp : p x = true
    · simp only [hp, if_true]
      have e : kept ++ j0 :: junk ++ x :: rest = kept ++ j0 :: (junk ++ [x]) ++ rest := by simp
      have el : (kept ++ j0 :: junk).length + 1 = (kept ++ j0 :: (junk ++ [x])).length := by simp; omega
      rw [e, el]
      obtain ⟨ys, h1, h2, h3⟩ := ih kept j0 (junk ++ [x])
      refine ⟨ys, ?_, h2, ?_⟩
      · rw [h1]; simp [hp]
      · simpa [hp] using h3
    · have hp' : p x = false := by simpa using hp
      simp only [hp', Bool.false_eq_true, if_false]
      have hr : kept.length < (kept ++ j0 :: junk ++ x :: rest).length := by simp
      rw [Prog.runList_assign _ hr hx, natCast_succ']
      have e : (kept ++ j0 :: junk ++ x :: rest).set kept.length x = (kept ++ [x]) ++ (junk ++ [x]) ++ rest := by simp
      rw [e]
      have el : (kept ++ j0 :: junk).length + 1 = ((kept ++ [x]) ++ (junk ++ [x])).length := by simp; omega
      have ek : kept.length + 1 = (kept ++ [x]).length := by simp
      rw [el, ek]
      cases hj : junk ++ [x] with
      | nil => simp at hj
      | cons j1 junk' =>
        obtain ⟨ys, h1, h2, h3⟩ := ih (kept ++ [x]) j1 junk'
        refine ⟨ys, ?_, ?_, ?_⟩
        · rw [h1]; simp [hp']; omega
        · rw [h2, ← hj]; simp
        · have : kept.length + (List.filter (fun x => !p x) (x :: rest)).length
              = (kept ++ [x]).length + (List.filter (fun x => !p x) rest).length := by simp [hp']; omega
          rw [this, h3]; simp [hp']

theorem removeFind_aux (p : ρ → Bool) (pre rest : List ρ) :
    ∃ ys, (removeFind p rest.length (pre.length : Nat)).runList (pre ++ rest)
        = some (ys, ((pre.length + (rest.filter fun x => !p x).length : Nat) : Int)) ∧
      ys.length = (pre ++ rest).length ∧
      ys.take (pre.length + (rest.filter fun x => !p x).length) = pre ++ rest.filter fun x => !p x := by
  induction rest generalizing pre with
  | nil => exact ⟨_, by simp [removeFind, Prog.runList], rfl, by simp⟩
  | cons x rest ih =>
    have hx : (pre ++ x :: rest)[pre.length]? = some x := by simp
    rw [List.length_cons, removeFind, Prog.runList_read _ hx, natCast_succ']
    by_cases hp : p x = true
    · simp only [hp, if_true]
      obtain ⟨ys, h1, h2, h3⟩ := removeLoop_aux p pre x [] rest
      have el : pre.length + 1 = (pre ++ [x]).length := by simp
      have e : pre ++ x :: rest = pre ++ [x] ++ rest := by simp
      rw [el, e]
      refine ⟨ys, ?_, ?_, ?_⟩
      · rw [h1]; simp [hp]
      · rw [h2]
      · simpa [hp] using h3
    · have hp' : p x = false := by simpa using hp
      simp only [hp', Bool.false_eq_true, if_false]
      obtain ⟨ys, h1, h2, h3⟩ := ih (pre ++ [x])
      have el : pre.length + 1 = (pre ++ [x]).length := by simp
      have e : pre ++ x :: rest = pre ++ [x] ++ rest := by simp
      rw [el, e]
      refine ⟨ys, ?_, h2, ?_⟩
      · rw [h1]; simp [hp']; omega
      · have : pre.length + (List.filter (fun x => !p x) (x :: rest)).length
            = (pre ++ [x]).length + (List.filter (fun x => !p x) rest).length := by simp [hp']; omega
        rw [this, h3]; simp [hp']

/-- `remove_if`: the kept elements, in order, form the prefix of the result up to the returned position (what lies
    behind is unspecified by the standard — here: old values) -/
theorem removeProg_list (p : ρ → Bool) (xs : List ρ) :
    ∃ ys, (removeProg p xs.length).runList xs = some (ys, (((xs.filter fun x => !p x).length : Nat) : Int)) ∧
      ys.length = xs.length ∧ ys.take (xs.filter fun x => !p x).length = xs.filter fun x => !p x := by
  obtain ⟨ys, h1, h2, h3⟩ := removeFind_aux p [] xs
  refine ⟨ys, ?_, by simpa using h2, by simpa using h3⟩
  unfold removeProg
  simpa using h1

/-! ### partition -/

def PartPost (p : ρ → Bool) (xs : List ρ) (r : Option (List ρ × Int)) : Prop :=
  ∃ A' B', r = some (A' ++ B', ((A'.length : Nat) : Int)) ∧ (∀ a ∈ A', p a = true) ∧ (∀ b ∈ B', p b = false) ∧
    (A' ++ B').Perm xs

theorem list_set_two (A M' B : List ρ) (x y : ρ) :
    ((A ++ x :: (M' ++ [y]) ++ B).set A.length y).set (A.length + (M' ++ [y]).length) x
      = (A ++ [y]) ++ M' ++ (x :: B) := by
  apply List.ext_getElem?
  intro i
  simp only [List.getElem?_set, List.getElem?_append, List.getElem?_cons, List.length_append, List.length_cons,
    List.length_nil, List.length_set]
  grind

theorem perm_two (A M' B : List ρ) (x y : ρ) :
    ((A ++ [y]) ++ M' ++ (x :: B)).Perm (A ++ x :: (M' ++ [y]) ++ B) := by
  simp only [List.append_assoc, List.cons_append, List.nil_append]
  apply List.Perm.append_left
  have h1 : (y :: (M' ++ x :: B)).Perm (y :: x :: (M' ++ B)) := List.Perm.cons _ List.perm_middle
  have h2 : (x :: (M' ++ y :: B)).Perm (x :: y :: (M' ++ B)) := List.Perm.cons _ List.perm_middle
  exact h1.trans ((List.Perm.swap _ _ _).trans h2.symm)

theorem part_aux (p : ρ → Bool) (n : Nat) :
    (∀ (A M B : List ρ) (f : Nat), M.length = n → n < f → (∀ a ∈ A, p a = true) → (∀ b ∈ B, p b = false) →
      PartPost p (A ++ M ++ B)
        ((partFwd p f ((A.length : Nat) : Int) ((A.length + M.length : Nat) : Int)).runList (A ++ M ++ B))) ∧
    (∀ (A M B : List ρ) (x : ρ) (f : Nat), M.length = n → n < f → (∀ a ∈ A, p a = true) → (∀ b ∈ B, p b = false) →
      p x = false →
      PartPost p (A ++ x :: M ++ B)
        ((partBwd p f ((A.length : Nat) : Int) ((A.length + M.length : Nat) : Int)).runList (A ++ x :: M ++ B))) := by
  induction n with
  | zero =>
    constructor
    · intro A M B f hM hf hA hB
      have : M = [] := List.eq_nil_of_length_eq_zero hM
      subst this
      obtain ⟨f, rfl⟩ : ∃ g, f = g + 1 := ⟨f - 1, by omega⟩
      refine ⟨A, B, ?_, hA, hB, by simp⟩
      simp [partFwd, Prog.runList]
    · intro A M B x f hM hf hA hB hx
      have : M = [] := List.eq_nil_of_length_eq_zero hM
      subst this
      obtain ⟨f, rfl⟩ : ∃ g, f = g + 1 := ⟨f - 1, by omega⟩
      refine ⟨A, x :: B, ?_, hA, ?_, by simp⟩
      · simp [partBwd, Prog.runList]
      · intro b hb; rcases List.mem_cons.1 hb with rfl | hb
        · exact hx
        · exact hB b hb
  | succ n ih =>
    obtain ⟨ihF, ihB⟩ := ih
    constructor
    · intro A M B f hM hf hA hB
      obtain ⟨f, rfl⟩ : ∃ g, f = g + 1 := ⟨f - 1, by omega⟩
      cases M with
      | nil => simp at hM
      | cons x M =>
        have hne : ((A.length : Nat) : Int) ≠ ((A.length + (x :: M).length : Nat) : Int) := by simp; omega
        have hx : (A ++ x :: M ++ B)[A.length]? = some x := by simp
        rw [partFwd, if_neg hne, Prog.runList_read _ hx]
        have e : A ++ x :: M ++ B = (A ++ [x]) ++ M ++ B := by simp
        by_cases hp : p x = true
        · simp only [hp, if_true]
          have := ihF (A ++ [x]) M B f (by simpa using hM) (by omega)
            (by intro a ha; rcases List.mem_append.1 ha with h | h; exact hA a h; simp at h; subst h; exact hp) hB
          rw [e]
          have c1 : ((A.length : Nat) : Int) + 1 = (((A ++ [x]).length : Nat) : Int) := by simp
          have c2 : ((A.length + (x :: M).length : Nat) : Int) = (((A ++ [x]).length + M.length : Nat) : Int) := by
            simp; omega
          rw [c1, c2]; exact this
        · have hp' : p x = false := by simpa using hp
          simp only [hp', Bool.false_eq_true, if_false]
          have := ihB A M B x f (by simpa using hM) (by omega) hA hB hp'
          have c2 : ((A.length + (x :: M).length : Nat) : Int) - 1 = ((A.length + M.length : Nat) : Int) := by
            simp; omega
          rw [c2]; exact this
    · intro A M B x f hM hf hA hB hx
      obtain ⟨f, rfl⟩ : ∃ g, f = g + 1 := ⟨f - 1, by omega⟩
      rcases List.eq_nil_or_concat M with rfl | ⟨M', y, rfl⟩
      · simp at hM
      · rw [List.concat_eq_append] at hM ⊢
        have hM' : M'.length = n := by simpa using hM
        have hne : ((A.length : Nat) : Int) ≠ ((A.length + (M' ++ [y]).length : Nat) : Int) := by simp; omega
        have hy : (A ++ x :: (M' ++ [y]) ++ B)[A.length + (M' ++ [y]).length]? = some y := by
          simp [List.getElem?_cons]
        have hx' : (A ++ x :: (M' ++ [y]) ++ B)[A.length]? = some x := by simp
        rw [partBwd, if_neg hne, Prog.runList_read _ hy]
        by_cases hp : p y = true
        · simp only [hp, if_true]
          rw [Prog.runList_swap _ hx' hy]
          have e : ((A ++ x :: (M' ++ [y]) ++ B).set A.length y).set (A.length + (M' ++ [y]).length) x
              = (A ++ [y]) ++ M' ++ (x :: B) := by
            exact list_set_two A M' B x y
          have := ihF (A ++ [y]) M' (x :: B) f hM' (by omega)
            (by intro a ha; rcases List.mem_append.1 ha with h | h; exact hA a h; simp at h; subst h; exact hp)
            (by intro b hb; rcases List.mem_cons.1 hb with rfl | hb; exact hx; exact hB b hb)
          have c1 : ((A.length : Nat) : Int) + 1 = (((A ++ [y]).length : Nat) : Int) := by simp
          have c2 : ((A.length + (M' ++ [y]).length : Nat) : Int) = (((A ++ [y]).length + M'.length : Nat) : Int) := by
            simp; omega
          rw [e, c1, c2]
          obtain ⟨A', B', h1, h2, h3, h4⟩ := this
          exact ⟨A', B', h1, h2, h3, h4.trans (perm_two A M' B x y)⟩
        · have hp' : p y = false := by simpa using hp
          simp only [hp', Bool.false_eq_true, if_false]
          have := ihB A M' (y :: B) x f hM' (by omega) hA
            (by intro b hb; rcases List.mem_cons.1 hb with rfl | hb; exact hp'; exact hB b hb) hx
          have c2 : ((A.length + (M' ++ [y]).length : Nat) : Int) - 1 = ((A.length + M'.length : Nat) : Int) := by
            simp; omega
          have e : A ++ x :: (M' ++ [y]) ++ B = A ++ x :: M' ++ y :: B := by simp
          rw [c2, e]; exact this

/-- `std::partition(first, first + n, p)`: the result is a permutation of the input, the returned position is the number
    of elements satisfying `p`, everything before it satisfies `p`, nothing from it on does -/
theorem partitionProg_list (p : ρ → Bool) (xs : List ρ) :
    ∃ ys, (partitionProg p xs.length).runList xs = some (ys, (((xs.filter p).length : Nat) : Int)) ∧
      ys.Perm xs ∧ (∀ a ∈ ys.take (xs.filter p).length, p a = true) ∧ (∀ b ∈ ys.drop (xs.filter p).length, p b = false) := by
  obtain ⟨A', B', h1, h2, h3, h4⟩ := (part_aux p xs.length).1 [] xs [] (xs.length + 1) rfl (by omega)
    (by simp) (by simp)
  have hA : A'.filter p = A' := List.filter_eq_self.2 h2
  have hB : B'.filter p = [] := List.filter_eq_nil_iff.2 (by intro b hb; simp [h3 b hb])
  have hk : (xs.filter p).length = A'.length := by
    have := (h4.filter p).length_eq
    simp only [List.filter_append, hA, hB, List.append_nil, List.nil_append] at this
    exact this.symm
  refine ⟨A' ++ B', ?_, by simpa using h4, ?_, ?_⟩
  · unfold partitionProg
    simp only [List.nil_append, List.append_nil, List.length_nil, Nat.zero_add] at h1
    rw [hk]; simpa using h1
  · rw [hk]; simpa using h2
  · rw [hk]; simpa using h3

/-! ### unique -/

theorem uniqueLoop_aux (eq : ρ → ρ → Bool) (K : List ρ) (a : ρ) (J rest : List ρ) (hJ : J ≠ []) :
    ∃ ys, (uniqueLoop eq rest.length ((K.length : Nat) : Int) ((K.length + J.length : Nat) : Int)).runList
          (K ++ a :: J ++ rest)
        = some (ys, ((K.length + 1 + (uniqAfter eq a rest).length : Nat) : Int)) ∧
      ys.length = (K ++ a :: J ++ rest).length ∧
      ys.take (K.length + 1 + (uniqAfter eq a rest).length) = K ++ a :: uniqAfter eq a rest := by
  induction rest generalizing K a J with
  | nil =>
    refine ⟨_, by simp [uniqueLoop, Prog.runList, uniqAfter], rfl, ?_⟩
    have : K ++ a :: J ++ [] = (K ++ [a]) ++ J := by simp
    have hl : K.length + 1 + (uniqAfter eq a []).length = (K ++ [a]).length := by simp [uniqAfter]
    rw [this, hl, List.take_left]; simp [uniqAfter]
  | cons b rest ih =>
    have ha : (K ++ a :: J ++ b :: rest)[K.length]? = some a := by simp
    have hb : (K ++ a :: J ++ b :: rest)[K.length + J.length + 1]? = some b := by
      have : K ++ a :: J ++ b :: rest = (K ++ a :: J) ++ b :: rest := by simp
      rw [this, List.getElem?_append_right (by simp; omega)]
      have : K.length + J.length + 1 - (K ++ a :: J).length = 0 := by simp; omega
      rw [this]; rfl
    rw [List.length_cons, uniqueLoop, Prog.runList_read _ ha, natCast_succ', Prog.runList_read _ hb]
    by_cases he : eq a b = true
    · simp only [he, if_true]
      obtain ⟨ys, h1, h2, h3⟩ := ih K a (J ++ [b]) (by simp)
      have e : K ++ a :: J ++ b :: rest = K ++ a :: (J ++ [b]) ++ rest := by simp
      have c : K.length + J.length + 1 = K.length + (J ++ [b]).length := by simp; omega
      rw [e, c]
      refine ⟨ys, ?_, h2, ?_⟩
      · rw [h1]; simp [uniqAfter, he]
      · simpa [uniqAfter, he] using h3
    · have he' : eq a b = false := by simpa using he
      simp only [he', Bool.false_eq_true, if_false]
      cases J with
      | nil => exact absurd rfl hJ
      | cons j0 J =>
      have hd : K.length + 1 < (K ++ a :: (j0 :: J) ++ b :: rest).length := by simp
      rw [natCast_succ', Prog.runList_assign _ hd hb]
      have e : (K ++ a :: (j0 :: J) ++ b :: rest).set (K.length + 1) b = (K ++ [a]) ++ b :: (J ++ [b]) ++ rest := by
        apply List.ext_getElem?
        intro i
        simp only [List.getElem?_set, List.getElem?_append, List.getElem?_cons, List.length_append, List.length_cons,
          List.length_nil]
        grind
      have c1 : ((K.length + 1 : Nat) : Int) = (((K ++ [a]).length : Nat) : Int) := by simp
      have c2 : ((K.length + (j0 :: J).length + 1 : Nat) : Int) = (((K ++ [a]).length + (J ++ [b]).length : Nat) : Int) := by
        simp only [List.length_append, List.length_cons, List.length_nil]; omega
      obtain ⟨ys, h1, h2, h3⟩ := ih (K ++ [a]) b (J ++ [b]) (by simp)
      rw [e, c2, c1]
      refine ⟨ys, ?_, ?_, ?_⟩
      · rw [h1]; simp [uniqAfter, he']; omega
      · rw [h2]; simp
      · have : K.length + 1 + (uniqAfter eq a (b :: rest)).length = (K ++ [a]).length + 1 + (uniqAfter eq b rest).length := by
          simp [uniqAfter, he']; omega
        rw [this, h3]; simp [uniqAfter, he']

theorem uniqueFind_aux (eq : ρ → ρ → Bool) (P : List ρ) (a : ρ) (rest : List ρ) :
    ∃ ys, (uniqueFind eq rest.length ((P.length : Nat) : Int)).runList (P ++ a :: rest)
        = some (ys, ((P.length + 1 + (uniqAfter eq a rest).length : Nat) : Int)) ∧
      ys.length = (P ++ a :: rest).length ∧
      ys.take (P.length + 1 + (uniqAfter eq a rest).length) = P ++ a :: uniqAfter eq a rest := by
  induction rest generalizing P a with
  | nil =>
    refine ⟨_, by simp [uniqueFind, Prog.runList, uniqAfter], rfl, ?_⟩
    have hl : P.length + 1 + (uniqAfter eq a []).length = (P ++ [a]).length := by simp [uniqAfter]
    rw [hl, List.take_length]; simp [uniqAfter]
  | cons b rest ih =>
    have ha : (P ++ a :: b :: rest)[P.length]? = some a := by simp
    have hb : (P ++ a :: b :: rest)[P.length + 1]? = some b := by
      have : P ++ a :: b :: rest = (P ++ [a]) ++ b :: rest := by simp
      rw [this, List.getElem?_append_right (by simp)]; simp
    rw [List.length_cons, uniqueFind, Prog.runList_read _ ha, natCast_succ', Prog.runList_read _ hb]
    by_cases he : eq a b = true
    · simp only [he, if_true]
      obtain ⟨ys, h1, h2, h3⟩ := uniqueLoop_aux eq P a [b] rest (by simp)
      have e : P ++ a :: b :: rest = P ++ a :: [b] ++ rest := by simp
      have c : P.length + 1 = P.length + [b].length := by simp
      rw [e, c]
      refine ⟨ys, ?_, h2, ?_⟩
      · rw [h1]; simp [uniqAfter, he]
      · simpa [uniqAfter, he] using h3
    · have he' : eq a b = false := by simpa using he
      simp only [he', Bool.false_eq_true, if_false]
      obtain ⟨ys, h1, h2, h3⟩ := ih (P ++ [a]) b
      have e : P ++ a :: b :: rest = (P ++ [a]) ++ b :: rest := by simp
      have c : ((P.length + 1 : Nat) : Int) = (((P ++ [a]).length : Nat) : Int) := by simp
      rw [e, c]
      refine ⟨ys, ?_, h2, ?_⟩
      · rw [h1]; simp [uniqAfter, he']; omega
      · have t : P.length + 1 + (uniqAfter eq a (b :: rest)).length = (P ++ [a]).length + 1 + (uniqAfter eq b rest).length := by
          simp [uniqAfter, he']; omega
        rw [t, h3]; simp [uniqAfter, he']

/-- `std::unique(first, first + n, eq)`: the prefix up to the returned position is the input with every element equal
    (under `eq`) to the last kept one dropped; what lies behind is unspecified (here: old values) -/
theorem uniqueProg_list (eq : ρ → ρ → Bool) (xs : List ρ) :
    ∃ ys, (uniqueProg eq xs.length).runList xs = some (ys, (((uniq eq xs).length : Nat) : Int)) ∧
      ys.length = xs.length ∧ ys.take (uniq eq xs).length = uniq eq xs := by
  cases xs with
  | nil => exact ⟨[], by simp [uniqueProg, Prog.runList, uniq], rfl, by simp [uniq]⟩
  | cons a rest =>
    obtain ⟨ys, h1, h2, h3⟩ := uniqueFind_aux eq [] a rest
    refine ⟨ys, ?_, by simpa using h2, ?_⟩
    · simp only [uniqueProg, List.length_cons, Nat.add_one_ne_zero, if_false, Nat.add_sub_cancel, uniq]
      simpa [Nat.add_comm] using h1
    · simpa [uniq, Nat.add_comm] using h3

/-! ### sort (insertion sort: at most 16 elements) -/

theorem Prog.runList_andThen (p k : Prog ρ) (xs : List ρ) :
    (p.andThen k).runList xs = (p.runList xs).bind fun r => k.runList r.1 := by
  induction p generalizing xs with
  | ret pos => simp [Prog.andThen, Prog.runList]
  | read i f ih =>
    simp only [Prog.andThen, Prog.runList]
    cases Prog.nth xs i with
    | none => simp
    | some x => simp [ih]
  | write i x p ih =>
    simp only [Prog.andThen, Prog.runList]
    cases Prog.nth xs i with
    | none => simp
    | some x => simp [ih]
  | assign i j p ih =>
    simp only [Prog.andThen, Prog.runList]
    cases Prog.nth xs i <;> cases Prog.nth xs j <;> simp [ih]
  | swap i j p ih =>
    simp only [Prog.andThen, Prog.runList]
    cases Prog.nth xs i <;> cases Prog.nth xs j <;> simp [ih]

/-- `__unguarded_linear_insert` at hole position `|A|`: `A` starts with an element not above `val` (the guard), everything in
    `G` is above `val`; `val` ends up behind the last element of `A` that is not above it -/
theorem linInsert_aux (lt : ρ → ρ → Bool) (val : ρ) (k : Prog ρ) (n : Nat) :
    ∀ (A : List ρ) (h : ρ) (G R : List ρ) (a0 : ρ) (A' : List ρ), A.length = n → A = a0 :: A' → lt val a0 = false →
      ∃ A1 A2, A = A1 ++ A2 ∧ A1 ≠ [] ∧ (∀ y ∈ A2, lt val y = true) ∧ (∀ y, A1.getLast? = some y → lt val y = false) ∧
        (linInsert lt val k A.length ((A.length : Nat) : Int)).runList (A ++ h :: G ++ R)
          = k.runList (A1 ++ val :: A2 ++ G ++ R) := by
  induction n with
  | zero => intro A h G R a0 A' hn hA; subst hA; simp at hn
  | succ n ih =>
    intro A h G R a0 A' hn hA ha0
    rcases List.eq_nil_or_concat A with rfl | ⟨B, y, rfl⟩
    · simp at hn
    rw [List.concat_eq_append] at hn hA ⊢
    have hB : B.length = n := by simpa using hn
    have hy : (B ++ [y] ++ h :: G ++ R)[B.length]? = some y := by simp
    have c : (((B ++ [y]).length : Nat) : Int) - 1 = ((B.length : Nat) : Int) := by simp
    have hl : (B ++ [y]).length = B.length + 1 := by simp
    rw [hl, linInsert, ← hl, c, Prog.runList_read _ hy]
    by_cases hlt : lt val y = true
    · simp only [hlt, if_true]
      have hj : (B ++ [y]).length < (B ++ [y] ++ h :: G ++ R).length := by simp
      rw [Prog.runList_assign _ hj hy]
      -- B is non-empty: its head is a0
      cases B with
      | nil => simp at hA; rw [← hA.1, hlt] at ha0; exact absurd ha0 (by simp)
      | cons b0 B' =>
        have hb0 : b0 = a0 := by simp at hA; exact hA.1
        obtain ⟨A1, A2, e, hne, h2, h3, hrun⟩ := ih (b0 :: B') y (y :: G) R b0 B' hB rfl (hb0 ▸ ha0)
        refine ⟨A1, A2 ++ [y], by rw [← List.append_assoc, ← e], hne, ?_, h3, ?_⟩
        · intro z hz; rcases List.mem_append.1 hz with hz | hz
          · exact h2 z hz
          · simp at hz; subst hz; exact hlt
        · have e2 : ((b0 :: B') ++ [y] ++ h :: G ++ R).set ((b0 :: B') ++ [y]).length y = (b0 :: B') ++ y :: (y :: G) ++ R := by
            apply List.ext_getElem?
            intro i
            simp only [List.getElem?_set, List.getElem?_append, List.getElem?_cons, List.length_append, List.length_cons,
              List.length_nil]
            grind
          rw [e2, hrun]; simp
    · have hlt' : lt val y = false := by simpa using hlt
      simp only [hlt', Bool.false_eq_true, if_false]
      have hj : (B ++ [y]).length < (B ++ [y] ++ h :: G ++ R).length := by simp
      rw [Prog.runList_write _ _ hj]
      refine ⟨B ++ [y], [], by simp, by simp, by simp, ?_, ?_⟩
      · intro z hz; simp at hz; subst hz; exact hlt'
      · congr 1
        apply List.ext_getElem?
        intro i
        simp only [List.getElem?_set, List.getElem?_append, List.getElem?_cons, List.length_append, List.length_cons,
          List.length_nil]
        grind

theorem shift_right_set (S R ys : List ρ) (x : ρ) (hlen : ys.length = (S ++ x :: R).length)
    (hcp : ∀ i, i < S.length → ys[i + 1]? = (S ++ x :: R)[i]?)
    (hout : ∀ j, S.length + 1 ≤ j → ys[j]? = (S ++ x :: R)[j]?) :
    ys.set 0 x = x :: S ++ R := by
  apply List.ext_getElem?
  intro i
  cases i with
  | zero =>
    have : 0 < ys.length := by rw [hlen]; simp; omega
    simp [this]
  | succ j =>
    rw [List.getElem?_set_ne (by omega)]
    simp only [List.cons_append, List.getElem?_cons_succ]
    rcases Nat.lt_or_ge j S.length with h | h
    · rw [hcp j h, List.getElem?_append_left h, List.getElem?_append_left h]
    · rw [hout (j + 1) (by omega), List.getElem?_append_right (by omega), List.getElem?_append_right h]
      obtain ⟨m, rfl⟩ : ∃ m, j = S.length + m := ⟨j - S.length, by omega⟩
      have : S.length + m + 1 - S.length = m + 1 := by omega
      rw [this]; simp

/-- inserting `x` between the part of a sorted list not above it and the part above it keeps the list sorted -/
theorem pairwise_insert (lt : ρ → ρ → Bool) (hasym : ∀ a b, lt a b = true → lt b a = false)
    (htr : ∀ a b c, lt b a = false → lt c b = false → lt c a = false) (A1 A2 : List ρ) (x : ρ)
    (hs : (A1 ++ A2).Pairwise fun a b => lt b a = false) (h2 : ∀ y ∈ A2, lt x y = true)
    (h3 : ∀ y, A1.getLast? = some y → lt x y = false) :
    (A1 ++ x :: A2).Pairwise fun a b => lt b a = false := by
  rw [List.pairwise_append] at hs ⊢
  obtain ⟨p1, p2, p12⟩ := hs
  refine ⟨p1, List.pairwise_cons.2 ⟨fun b hb => hasym _ _ (h2 b hb), p2⟩, ?_⟩
  intro a ha b hb
  rcases List.mem_cons.1 hb with rfl | hb
  · rcases List.eq_nil_or_concat A1 with rfl | ⟨B, l, rfl⟩
    · simp at ha
    · rw [List.concat_eq_append] at ha p1 h3
      have hl : lt b l = false := h3 l (by simp)
      rcases List.mem_append.1 ha with ha | ha
      · have : lt l a = false := (List.pairwise_append.1 p1).2.2 a ha l (by simp)
        exact htr a l b this hl
      · simp at ha; subst ha; exact hl
  · exact p12 a ha b hb

theorem insSortLoop_aux (lt : ρ → ρ → Bool) (hasym : ∀ a b, lt a b = true → lt b a = false)
    (htr : ∀ a b c, lt b a = false → lt c b = false → lt c a = false) (R : List ρ) :
    ∀ S : List ρ, S ≠ [] → (S.Pairwise fun a b => lt b a = false) →
      ∃ ys, (insSortLoop lt R.length ((S.length : Nat) : Int)).runList (S ++ R) = some (ys, 0) ∧ ys.Perm (S ++ R) ∧
        ys.Pairwise fun a b => lt b a = false := by
  induction R with
  | nil => intro S _ hs; exact ⟨S, by simp [insSortLoop, Prog.runList], by simp, hs⟩
  | cons x R ih =>
    intro S hne hs
    cases S with
    | nil => exact absurd rfl hne
    | cons s0 S' =>
    have hx : ((s0 :: S') ++ x :: R)[(s0 :: S').length]? = some x := by simp
    have h0 : ((s0 :: S') ++ x :: R)[0]? = some s0 := by simp
    have z : (0 : Int) = ((0 : Nat) : Int) := rfl
    have hR : (x :: R).length = R.length + 1 := rfl
    rw [hR, insSortLoop, Prog.runList_read _ hx, z, Prog.runList_read _ h0, natCast_succ', Int.toNat_natCast]
    by_cases hlt : lt x s0 = true
    · simp only [hlt, if_true]
      obtain ⟨ys, hrun, hlen, hcp, hout⟩ := copyBackwardProg_list ((s0 :: S') ++ x :: R) (s0 :: S').length (s0 :: S').length
        ((s0 :: S').length + 1) (Nat.le_refl _) (by simp) (by omega) (by simp) (Or.inl (by omega))
      rw [Prog.runList_andThen, hrun]
      simp only [Option.bind_some]
      have hys0 : 0 < ys.length := by rw [hlen]; simp
      rw [Prog.runList_write x _ hys0, ← z]
      have e : ys.set 0 x = (x :: s0 :: S') ++ R := by
        refine shift_right_set (s0 :: S') R ys x hlen ?_ ?_
        · intro i hi
          have := hcp i hi
          rwa [Nat.add_sub_cancel_left, Nat.sub_self, Nat.zero_add, Nat.add_comm 1 i] at this
        · intro j hj
          exact hout j (Or.inr hj)
      have hs' : (x :: s0 :: S').Pairwise fun a b => lt b a = false := by
        refine List.pairwise_cons.2 ⟨?_, hs⟩
        intro b hb
        rcases List.mem_cons.1 hb with rfl | hb
        · exact hasym _ _ hlt
        · exact htr x s0 b (hasym _ _ hlt) ((List.pairwise_cons.1 hs).1 b hb)
      obtain ⟨zs, h1, h2, h3⟩ := ih (x :: s0 :: S') (by simp) hs'
      have c : (((s0 :: S').length + 1 : Nat) : Int) = (((x :: s0 :: S').length : Nat) : Int) := by simp
      rw [e, c, h1]
      exact ⟨zs, rfl, h2.trans (by simpa using (List.perm_middle (a := x) (l₁ := s0 :: S') (l₂ := R)).symm), h3⟩
    · have hlt' : lt x s0 = false := by simpa using hlt
      simp only [hlt', Bool.false_eq_true, if_false]
      obtain ⟨A1, A2, e, hne1, h2, h3, hrun⟩ := linInsert_aux lt x (insSortLoop lt R.length (((s0 :: S').length + 1 : Nat) : Int))
        (s0 :: S').length (s0 :: S') x [] R s0 S' rfl rfl hlt'
      have eL : (s0 :: S') ++ x :: R = (s0 :: S') ++ x :: [] ++ R := by simp
      rw [eL, hrun]
      have hs' : (A1 ++ x :: A2).Pairwise fun a b => lt b a = false :=
        pairwise_insert lt hasym htr A1 A2 x (e ▸ hs) h2 h3
      obtain ⟨zs, h1, h2', h3'⟩ := ih (A1 ++ x :: A2) (by simp) hs'
      have c : (((s0 :: S').length + 1 : Nat) : Int) = (((A1 ++ x :: A2).length : Nat) : Int) := by
        rw [e]; simp; omega
      have eL2 : A1 ++ x :: A2 ++ [] ++ R = (A1 ++ x :: A2) ++ R := by simp
      rw [eL2, c, h1]
      refine ⟨zs, rfl, h2'.trans ?_, h3'⟩
      rw [e]
      simp only [List.append_assoc, List.cons_append]
      exact List.Perm.append_left _ List.perm_middle.symm

/-- `std::sort` on at most 16 values (`__insertion_sort`), `lt` a strict weak order (asymmetric, `¬ lt` transitive): the result
    is a sorted permutation of the input -/
theorem insertionSortProg_list (lt : ρ → ρ → Bool) (hasym : ∀ a b, lt a b = true → lt b a = false)
    (htr : ∀ a b c, lt b a = false → lt c b = false → lt c a = false) (xs : List ρ) :
    ∃ ys, (insertionSortProg lt xs.length).runList xs = some (ys, 0) ∧ ys.Perm xs ∧
      ys.Pairwise fun a b => lt b a = false := by
  cases xs with
  | nil => exact ⟨[], by simp [insertionSortProg, Prog.runList], by simp, by simp⟩
  | cons a R =>
    obtain ⟨ys, h1, h2, h3⟩ := insSortLoop_aux lt hasym htr R [a] (by simp) (by simp)
    refine ⟨ys, ?_, by simpa using h2, h3⟩
    simp only [insertionSortProg, List.length_cons, Nat.add_one_ne_zero, if_false, Nat.add_sub_cancel]
    simpa using h1

end Multi
