/-
  Symmetry lemmas used by the tie proofs: the translators emit commutative comparisons in ONE canonical operand order
  (tools/gen_layout.py `canon2`), which may be the opposite of the order the hand model happens to use.
-/
import MultiModel.Layout
import MultiProofs.TieTactic

namespace Multi

theorem int_beq_comm (x y : Int) : (x == y) = (y == x) := by
  cases h : (x == y) <;> cases h' : (y == x) <;> simp_all

theorem Ext.eqv_comm (a b : Ext) : a.eqv b = b.eqv a := by
  unfold Ext.eqv
  rw [int_beq_comm a.first b.first, int_beq_comm a.last b.last, Bool.and_comm a.isEmpty b.isEmpty]

theorem Exts.eqv_comm (a b : List Ext) : Exts.eqv a b = Exts.eqv b a := by
  induction a generalizing b with
  | nil => cases b <;> simp [Exts.eqv]
  | cons x xs ih =>
    cases b with
    | nil => simp [Exts.eqv]
    | cons y ys => simp [Exts.eqv, ih ys, Ext.eqv_comm x y]

end Multi
