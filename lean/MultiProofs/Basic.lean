/-
  MultiProofs.Basic — addresses, well-formed levels, boxes.
-/
import MultiProofs.Lemmas

namespace Multi

theorem bracket_base (v : View) (idx : List Int) : (v.bracket idx).base = v.base + v.lay.off idx := by
  unfold View.bracket
  induction idx generalizing v with
  | nil => cases h : v.lay <;> simp [Layout.off]
  | cons i is ih =>
    simp only [List.foldl_cons]
    rw [ih]
    cases h : v.lay with
    | nil => simp [View.index, h, Layout.off]
    | cons d sub => simp [View.index, h, Layout.off]; omega

theorem addr_eq (v : View) (idx : List Int) : v.addr idx = v.base + v.lay.off idx := by
  unfold View.addr; exact bracket_base v idx

/-- a non-empty well-formed level is `(stride, first·stride, size·stride)` -/
theorem Dim.WF.cases {d : Dim} (h : d.WF) :
    d.nelems = 0 ∨ ∃ f n : Int, 0 < n ∧ 0 < d.stride ∧ d.offset = f * d.stride ∧ d.nelems = n * d.stride
      ∧ d.ext = ⟨f, f + n⟩ ∧ d.size = n := by
  rcases h with h | ⟨hs, hn, ⟨n, hn'⟩, ⟨f, hf⟩⟩
  · exact Or.inl h
  · right
    have hne : d.nelems ≠ 0 := by omega
    have hs0 : d.stride ≠ 0 := by omega
    refine ⟨f, n, ?_, hs, ?_, ?_, ?_, ?_⟩
    · rcases Int.lt_trichotomy n 0 with h1 | h1 | h1
      · have : d.stride * n < 0 := Int.mul_neg_of_pos_of_neg hs h1
        omega
      · subst h1; simp at hn'; omega
      · exact h1
    · rw [hf, Int.mul_comm]
    · rw [hn', Int.mul_comm]
    · unfold Dim.ext
      rw [if_neg hne]
      have e1 : d.offset.tdiv d.stride = f := by rw [hf, Int.mul_comm]; exact Int.mul_tdiv_cancel f hs0
      have e2 : (d.offset + d.nelems).tdiv d.stride = f + n := by
        have : d.offset + d.nelems = (f + n) * d.stride := by rw [hf, hn', Int.add_mul, Int.mul_comm f, Int.mul_comm n]
        rw [this]; exact Int.mul_tdiv_cancel _ hs0
      rw [e1, e2]
    · unfold Dim.size
      rw [if_neg hne, hn', Int.mul_comm]; exact Int.mul_tdiv_cancel n hs0

theorem Dim.ext_of_nelems_zero {d : Dim} (h : d.nelems = 0) : d.ext = ⟨0, 0⟩ := by simp [Dim.ext, h]
theorem Dim.size_of_nelems_zero {d : Dim} (h : d.nelems = 0) : d.size = 0 := by simp [Dim.size, h]

/-- constructor of a well-formed level from (stride, first, size) -/
theorem Dim.wf_mk {s f n : Int} (hs : 0 < s) (hn : 0 < n) : (⟨s, f * s, n * s⟩ : Dim).WF := by
  right
  refine ⟨hs, Int.mul_pos hn hs, ⟨n, Int.mul_comm _ _⟩, ⟨f, Int.mul_comm _ _⟩⟩

theorem Dim.ext_mk {s f n : Int} (hs : 0 < s) (hn : 0 < n) : (⟨s, f * s, n * s⟩ : Dim).ext = ⟨f, f + n⟩ := by
  have hs0 : s ≠ 0 := by omega
  have hne : n * s ≠ 0 := Int.ne_of_gt (Int.mul_pos hn hs)
  unfold Dim.ext
  simp only [hne, if_false]
  have : f * s + n * s = (f + n) * s := by rw [Int.add_mul]
  rw [this, Int.mul_tdiv_cancel _ hs0, Int.mul_tdiv_cancel _ hs0]

theorem Dim.size_mk {s f n : Int} (hs : 0 < s) (hn : 0 < n) : (⟨s, f * s, n * s⟩ : Dim).size = n := by
  have hs0 : s ≠ 0 := by omega
  have hne : n * s ≠ 0 := Int.ne_of_gt (Int.mul_pos hn hs)
  unfold Dim.size
  simp only [hne, if_false]
  exact Int.mul_tdiv_cancel _ hs0

theorem Dim.wf_zero {s o : Int} : (⟨s, o, 0⟩ : Dim).WF := Or.inl rfl

/-- the extension of a well-formed level is normalised: empty extensions are `[0,0)` -/
theorem Dim.WF.ext_norm {d : Dim} (h : d.WF) : d.ext.norm = d.ext := by
  rcases h.cases with h0 | ⟨f, n, hn, _, _, _, he, _⟩
  · rw [Dim.ext_of_nelems_zero h0]; rfl
  · rw [he]; unfold Ext.norm; simp; omega

theorem Dim.WF.size_eq {d : Dim} (h : d.WF) : d.size = d.ext.size := by
  rcases h.cases with h0 | ⟨f, n, hn, _, _, _, he, hsz⟩
  · rw [Dim.ext_of_nelems_zero h0, Dim.size_of_nelems_zero h0]; rfl
  · rw [he, hsz]; simp [Ext.size]; omega

theorem Layout.WF.tail {d : Dim} {l : Layout} (h : Layout.WF (d :: l)) : Layout.WF l :=
  fun x hx => h x (List.mem_cons_of_mem _ hx)
theorem Layout.WF.head {d : Dim} {l : Layout} (h : Layout.WF (d :: l)) : d.WF :=
  h d (List.mem_cons_self)
theorem Layout.WF.cons {d : Dim} {l : Layout} (hd : d.WF) (hl : Layout.WF l) : Layout.WF (d :: l) := by
  intro x hx
  rcases List.mem_cons.mp hx with h | h
  · subst h; exact hd
  · exact hl x h

end Multi
