/-
  MultiProofs.OwnBasic — facts about `collapse`, `Valid` arrays and frames (helper lemmas for C04 / C06).
-/
import MultiProofs.OwnSpec

namespace Multi
namespace Own
variable {α : Type}

/-! ### extensions -/

theorem numElements_eq_nElems (es : List Ext) : Exts.numElements es = nElems es := by
  induction es with
  | nil => rfl
  | cons e es ih => simp [Exts.numElements, nElems, ih]

theorem ExtsOK.tail {e : Ext} {es : List Ext} (h : ExtsOK (e :: es)) : ExtsOK es := fun x hx => h x (List.mem_cons_of_mem _ hx)
theorem ExtsOK.head {e : Ext} {es : List Ext} (h : ExtsOK (e :: es)) : e.first ≤ e.last := h e (List.mem_cons_self)

theorem nElems_nonneg {es : List Ext} (h : ExtsOK es) : 0 ≤ nElems es := C01.nElems_nonneg es h

theorem nElems_collapse (es : List Ext) : nElems (collapse es) = nElems es := by
  induction es with
  | nil => rfl
  | cons e es ih =>
    simp only [collapse, nElems]
    by_cases hz : e.size * nElems es = 0
    · simp only [hz, if_true, ih]
      simp [Ext.size]
    · simp only [hz, if_false, ih]

theorem collapse_ok {es : List Ext} (h : ExtsOK es) : ExtsOK (collapse es) := by
  induction es with
  | nil => intro e he; simp [collapse] at he
  | cons e es ih =>
    intro x hx
    simp only [collapse, List.mem_cons] at hx
    rcases hx with hx | hx
    · subst hx
      by_cases hz : e.size * nElems es = 0
      · simp [hz]
      · simp only [hz, if_false]; exact h.head
    · exact ih h.tail x hx

theorem collapse_idem (es : List Ext) : collapse (collapse es) = collapse es := by
  induction es with
  | nil => rfl
  | cons e es ih =>
    simp only [collapse, nElems_collapse, ih]
    by_cases hz : e.size * nElems es = 0
    · rw [if_pos hz]; simp [Ext.size]
    · rw [if_neg hz, if_neg hz]

/-- every extension of `collapse es` is `[0,0)` or non-empty -/
theorem collapse_normal (es : List Ext) : ∀ e ∈ collapse es, e = ⟨0, 0⟩ ∨ e.size ≠ 0 := by
  induction es with
  | nil => intro e he; simp [collapse] at he
  | cons e es ih =>
    intro x hx
    simp only [collapse, List.mem_cons] at hx
    rcases hx with hx | hx
    · subst hx
      by_cases hz : e.size * nElems es = 0
      · left; simp [hz]
      · right; simp only [hz, if_false]; intro h0; apply hz; simp [h0]
    · exact ih x hx

/-- on normal extension lists, the library's `==` (all empty ranges are equal) is equality -/
theorem eqv_normal : ∀ (xs ys : List Ext), (∀ e ∈ xs, e = ⟨0, 0⟩ ∨ e.size ≠ 0) → (∀ e ∈ ys, e = ⟨0, 0⟩ ∨ e.size ≠ 0) →
    Exts.eqv xs ys = true → xs = ys := by
  intro xs
  induction xs with
  | nil => intro ys _ _ h; cases ys with | nil => rfl | cons _ _ => simp [Exts.eqv] at h
  | cons x xs ih =>
    intro ys hx hy h
    cases ys with
    | nil => simp [Exts.eqv] at h
    | cons y ys =>
      simp only [Exts.eqv, Bool.and_eq_true] at h
      obtain ⟨h1, h2⟩ := h
      have t := ih ys (fun e he => hx e (List.mem_cons_of_mem _ he)) (fun e he => hy e (List.mem_cons_of_mem _ he)) h2
      have hx0 := hx x (List.mem_cons_self)
      have hy0 := hy y (List.mem_cons_self)
      have : x = y := by
        simp only [Ext.eqv, Ext.isEmpty, Bool.or_eq_true, Bool.and_eq_true, beq_iff_eq] at h1
        rcases h1 with ⟨e1, e2⟩ | ⟨e1, e2⟩
        · rcases hx0 with hx0 | hx0
          · rcases hy0 with hy0 | hy0
            · rw [hx0, hy0]
            · exfalso; apply hy0; simp [Ext.size]; omega
          · exfalso; apply hx0; simp [Ext.size]; omega
        · cases x; cases y; simp_all
      rw [this, t]

/-- the library's `==` against a list in normal form (a fixpoint of `collapse`, as every array reports) decides equality
    with the collapsed requested extensions -/
theorem eqv_collapse : ∀ (xs es : List Ext), collapse xs = xs → Exts.eqv xs es = true → collapse es = xs := by
  intro xs
  induction xs with
  | nil => intro es _ h; cases es with | nil => rfl | cons _ _ => simp [Exts.eqv] at h
  | cons x xs ih =>
    intro es hfix h
    cases es with
    | nil => simp [Exts.eqv] at h
    | cons e es =>
      simp only [Exts.eqv, Bool.and_eq_true] at h
      obtain ⟨h1, h2⟩ := h
      simp only [collapse, List.cons.injEq] at hfix
      obtain ⟨hfh, hft⟩ := hfix
      have t := ih es hft h2
      have hn : nElems es = nElems xs := by rw [← t, nElems_collapse]
      simp only [collapse, List.cons.injEq]
      refine ⟨?_, t⟩
      simp only [Ext.eqv, Ext.isEmpty, Bool.or_eq_true, Bool.and_eq_true, beq_iff_eq] at h1
      rcases h1 with ⟨e1, e2⟩ | ⟨e1, e2⟩
      · have hx0 : x.size = 0 := by simp [Ext.size]; omega
        have he0 : e.size = 0 := by simp [Ext.size]; omega
        rw [hx0] at hfh; simp at hfh
        rw [he0]; simp; exact hfh
      · have : x = e := by cases x; cases e; simp_all
        subst this
        rw [hn]; exact hfh

theorem Valid_exts_fix {es : List Ext} : collapse (collapse es) = collapse es := collapse_idem es

theorem Ext.eqv_comm (p q : Ext) : p.eqv q = q.eqv p := by
  simp only [Ext.eqv, Ext.isEmpty]
  rw [Bool.and_comm, @BEq.comm _ _ _ p.first q.first, @BEq.comm _ _ _ p.last q.last]

theorem eqv_comm : ∀ (xs ys : List Ext), Exts.eqv xs ys = Exts.eqv ys xs := by
  intro xs
  induction xs with
  | nil => intro ys; cases ys <;> rfl
  | cons p ps ih =>
    intro ys
    cases ys with
    | nil => rfl
    | cons q qs => simp only [Exts.eqv, ih qs, Ext.eqv_comm p q]

theorem eqv_refl (xs : List Ext) : Exts.eqv xs xs = true := by
  induction xs with
  | nil => rfl
  | cons x xs ih => simp [Exts.eqv, ih, Ext.eqv]

/-! ### valid arrays -/

theorem ofExts_exts {es : List Ext} (h : ExtsOK es) : (Layout.ofExts es).exts = collapse es := (C01.root_denotes es h).2.1
theorem ofExts_numElements {es : List Ext} (h : ExtsOK es) : (Layout.ofExts es).numElements = nElems es := (C01.root_denotes es h).2.2.1
theorem ofExts_length (es : List Ext) : (Layout.ofExts es).length = es.length := by
  induction es with
  | nil => rfl
  | cons e es ih => simp [Layout.ofExts, ih]

theorem Valid.nonneg {h : Heap α} {a : Arr} (hv : Valid h a) : 0 ≤ a.numElements := by
  obtain ⟨es, hes, hl⟩ := hv.shape
  unfold Arr.numElements; rw [hl, ofExts_numElements hes]; exact nElems_nonneg hes

theorem Valid.exts_normal {h : Heap α} {a : Arr} (hv : Valid h a) : ∀ e ∈ a.exts, e = ⟨0, 0⟩ ∨ e.size ≠ 0 := by
  obtain ⟨es, hes, hl⟩ := hv.shape
  unfold Arr.exts; rw [hl, ofExts_exts hes]; exact collapse_normal es

theorem Valid.exts_ok {h : Heap α} {a : Arr} (hv : Valid h a) : ExtsOK a.exts := by
  obtain ⟨es, hes, hl⟩ := hv.shape
  unfold Arr.exts; rw [hl, ofExts_exts hes]; exact collapse_ok hes

theorem Valid.exts_fix {h : Heap α} {a : Arr} (hv : Valid h a) : collapse a.exts = a.exts := by
  obtain ⟨es, hes, hl⟩ := hv.shape
  unfold Arr.exts; rw [hl, ofExts_exts hes]; exact collapse_idem es

theorem Valid.nElems_exts {h : Heap α} {a : Arr} (hv : Valid h a) : nElems a.exts = a.numElements := by
  obtain ⟨es, hes, hl⟩ := hv.shape
  unfold Arr.exts Arr.numElements; rw [hl, ofExts_exts hes, ofExts_numElements hes, nElems_collapse]

/-- the layout rebuilt from the reported extensions has the same extensions and number of elements -/
theorem Valid.rebuild {h : Heap α} {a : Arr} (hv : Valid h a) :
    (Layout.ofExts a.exts).exts = a.exts ∧ (Layout.ofExts a.exts).numElements = a.numElements := by
  obtain ⟨es, hes, hl⟩ := hv.shape
  have h1 : a.exts = collapse es := by unfold Arr.exts; rw [hl, ofExts_exts hes]
  have h2 : a.numElements = nElems es := by unfold Arr.numElements; rw [hl, ofExts_numElements hes]
  rw [h1, ofExts_exts (collapse_ok hes), ofExts_numElements (collapse_ok hes), collapse_idem, nElems_collapse, h2]
  exact ⟨rfl, rfl⟩

theorem cellsOf_live {h : Heap α} {a : Arr} {b : Nat} {cs : List (Cell α)} (hb : a.base = some b) (hl : Live h b cs) :
    cellsOf h a = cs.take a.numElements.toNat := by
  unfold cellsOf Heap.block?
  rw [hb]
  simp only
  rw [show h.blocks[b]? = some (some cs) from hl]
  rfl

theorem cellsOf_zero {h : Heap α} {a : Arr} (hz : a.numElements = 0) : cellsOf h a = [] := by
  unfold cellsOf
  cases h.block? a.base <;> simp [hz]

theorem Valid.cells_length {h : Heap α} {a : Arr} (hv : Valid h a) : (cellsOf h a).length = a.numElements.toNat := by
  rcases hv.store with hz | ⟨b, cs, hb, hl, hlen⟩
  · rw [cellsOf_zero hz, hz]; rfl
  · rw [cellsOf_live hb hl]; simp [hlen]

/-! ### frames: a heap change that leaves some blocks alone -/

/-- every live block of `h` other than those in `M` is unchanged in `h'` -/
def Frame (h h' : Heap α) (M : Nat → Prop) : Prop := ∀ b cs, Live h b cs → ¬ M b → Live h' b cs

theorem Frame.refl (h : Heap α) (M : Nat → Prop) : Frame h h M := fun _ _ hl _ => hl

theorem Frame.trans {h1 h2 h3 : Heap α} {M : Nat → Prop} (f1 : Frame h1 h2 M) (f2 : Frame h2 h3 M) : Frame h1 h3 M :=
  fun b cs hl hm => f2 b cs (f1 b cs hl hm) hm

theorem Frame.mono {h h' : Heap α} {M M' : Nat → Prop} (f : Frame h h' M) (hm : ∀ b, M b → M' b) : Frame h h' M' :=
  fun b cs hl hn => f b cs hl (fun x => hn (hm b x))

theorem frame_alloc (h : Heap α) (n : Int) (M : Nat → Prop) : Frame h (h.alloc n).1 M := fun _ _ hl _ => alloc_keeps h n hl

theorem frame_setBlock (h : Heap α) (d : Nat) (x) : Frame h (h.setBlock d x) (fun b => b = d) :=
  fun _ _ hl hne => hl.setBlock_other (fun e => hne e.symm) x

/-- an array whose block is outside the modified set keeps validity and value -/
theorem Valid.frame {h h' : Heap α} {M : Nat → Prop} {a : Arr} (hv : Valid h a) (f : Frame h h' M)
    (hout : a.numElements ≠ 0 → ∀ b, a.base = some b → ¬ M b) : Valid h' a ∧ cellsOf h' a = cellsOf h a := by
  rcases hv.store with hz | ⟨b, cs, hb, hl, hlen⟩
  · exact ⟨⟨hv.shape, Or.inl hz⟩, by rw [cellsOf_zero hz, cellsOf_zero hz]⟩
  · by_cases hz : a.numElements = 0
    · exact ⟨⟨hv.shape, Or.inl hz⟩, by rw [cellsOf_zero hz, cellsOf_zero hz]⟩
    · have hl' := f b cs hl (hout hz b hb)
      exact ⟨⟨hv.shape, Or.inr ⟨b, cs, hb, hl', hlen⟩⟩, by rw [cellsOf_live hb hl', cellsOf_live hb hl]⟩

end Own
end Multi
