/-
  MultiProofs.LedgerOps — every operation of MultiModel.Ledger, run from a state that satisfies the invariants, with or
  without an armed fault: it never runs into undefined behaviour, on normal return the invariants hold again, and when an
  exception propagates they hold as well (for the repaired code; the code as it stood is covered by the negation witnesses
  of MultiProofs.C09).
-/
import MultiProofs.LedgerArr

namespace Multi
namespace Ledger

/-! ### extensions: what the resource discipline needs of them -/

theorem extSize_eqv {a b : Ext} (h : a.eqv b = true) : extSize a = extSize b := by
  unfold Ext.eqv Ext.isEmpty at h
  unfold extSize
  simp only [Bool.or_eq_true, Bool.and_eq_true, beq_iff_eq] at h
  rcases h with ⟨h1, h2⟩ | ⟨h1, h2⟩
  · rw [h1, h2]; simp
  · rw [h1, h2]

theorem nElems_extsEq : ∀ {a b : List Ext}, extsEq a b = true → nElems a = nElems b
  | [], [], _ => rfl
  | x :: xs, y :: ys, h => by
    simp only [extsEq, Bool.and_eq_true] at h
    simp only [nElems, extSize_eqv h.1, nElems_extsEq h.2]
  | [], _ :: _, h => by simp [extsEq] at h
  | _ :: _, [], h => by simp [extsEq] at h

theorem nElems_reported : ∀ (es : List Ext), nElems (reported es) = nElems es
  | [] => rfl
  | e :: es => by
    simp only [reported, nElems]
    rw [nElems_reported es]
    split
    · rename_i h
      rw [h]
      have : extSize (⟨0, 0⟩ : Ext) = 0 := by simp [extSize]
      rw [this]; simp
    · rfl

theorem nElems_emptyExts {d : Nat} (h : 1 ≤ d) : nElems (emptyExts d) = 0 := by
  unfold emptyExts
  cases d with
  | zero => omega
  | succ k => simp [List.replicate, nElems, extSize]

/-- a slice of the leading dimension has no more elements than the array -/
theorem nElems_viewExts_le (x : Arr) (sl : Option (Int × Int)) (h : sliceOk x sl = true) :
    nElems (viewExts x sl) ≤ nElems x.ext := by
  unfold viewExts
  cases sl with
  | none => exact Nat.le_refl _
  | some p =>
    obtain ⟨lo, hi⟩ := p
    cases hx : x.ext with
    | nil => exact Nat.le_refl _
    | cons e rest =>
      simp only [sliceOk, hx, Bool.and_eq_true, decide_eq_true_eq] at h
      simp only [nElems]
      apply Nat.mul_le_mul_right
      split
      · simp [extSize]
      · unfold extSize
        simp only
        omega

/-! ### configuration and the pool -/

/-- `num_elements()` is the product of the extents `extensions()` reports (C01 proves this of the layouts; here it is
    carried along as part of the state invariant) -/
def Wn (A : List (Option Arr)) : Prop := ∀ (i : Nat) (a : Arr), A[i]? = some (some a) → a.n = nElems a.ext

theorem Wn.set {A : List (Option Arr)} (h : Wn A) {i : Nat} {o : Option Arr} (ho : ∀ a, o = some a → a.n = nElems a.ext) :
    Wn (A.set i o) := by
  intro k a hk
  rw [List.getElem?_set] at hk
  split at hk
  · split at hk
    · exact ho a (by simpa using hk)
    · simp at hk
  · exact h k a hk

/-- assumptions on the configuration: D ≥ 1, and trivially default-constructible ⇒ trivially destructible -/
structure Cfg.OK (c : Cfg) : Prop where
  wf : c.WF
  dim : 1 ≤ c.dim

/-- the full state invariant of C08 -/
def Good (c : Cfg) (s : St) : Prop := InvS c s ∧ Wn s.arrs

/-- the repair of the operation's finding class is in the code -/
def Op.fixedIn (c : Cfg) : Op → Bool
  | .ctorExt .. | .ctorFill .. | .ctorCopy .. | .ctorCopyA .. | .ctorView .. | .ctorRange .. => c.fx6
  | .assignView .. | .assignRange .. | .saMove .. => c.fx6
  | .assignCopy .. | .assignFill .. | .reextentRv .. => c.fx7
  | .reextent .. | .reextentFill .. => c.fx8
  | _ => true

def Op.isSaMove : Op → Bool
  | .saMove .. => true
  | _ => false

/-- C10 finding classes: operations that may hand a block to an unequal allocator -/
def Op.affectedA (c : Cfg) : Op → Bool
  | .assignMove .. => !(c.pocma || c.iae || c.fx9a)
  | .ctorMoveA .. => !(c.iae || c.fx9a)
  | .assignCopy .. => c.pocca && !c.iae && !c.fx9c
  | .assignView .. | .assignRange .. => !(c.fx9 || c.pocma || c.iae)
  | _ => false

/-- allocator stored in slot `i` -/
def allocOf (s : St) (i : Nat) : Option AllocId := (getArr s i).map (·.alloc)

/-- what the operation prescribes for the allocator of its target -/
def Op.allocPost (c : Cfg) (s s' : St) : Op → Prop
  | .ctorDefault i a | .ctorExt i a _ | .ctorFill i a _ | .ctorCopyA i _ a | .ctorView i _ a _ | .ctorRange i _ a
  | .ctorMoveA i _ a => allocOf s' i = some a
  | .ctorCopy i j => allocOf s' i = (allocOf s j).map c.select
  | .ctorMove i j => allocOf s' i = allocOf s j
  | .assignCopy i j => allocOf s' i = if c.pocca then allocOf s j else allocOf s i
  | .assignMove i j => allocOf s' i = if c.pocma then allocOf s j else allocOf s i
  | .swap i j => allocOf s' i = (if c.pocs then allocOf s j else allocOf s i) ∧
                 allocOf s' j = (if c.pocs then allocOf s i else allocOf s j)
  | .reextent i _ | .reextentFill i _ | .reextentRv i _ | .reshape i _ | .clear i | .assignFill i _ | .viewAssign i _ =>
    allocOf s' i = allocOf s i
  | _ => True

/-- specification of one operation run from a good state -/
def OpSpec (c : Cfg) (op : Op) (s : St) : Prop :=
  Out (op.run c s)
    (fun _ s' => Good c s' ∧ NF s s' ∧ s'.arrs.length = s.arrs.length ∧
      (op.affectedA c = false → InvAS c s → InvAS c s') ∧ op.allocPost c s s')
    (fun s' => s.fuel ≠ none ∧ s'.arrs.length = s.arrs.length ∧ Good c s')
    (s.fuel ≠ none ∧ op.isSaMove = true)

/-! ### reading the pool -/

theorem eqv_refl (c : Cfg) (a : AllocId) : c.eqv a a = true := by simp [Cfg.eqv]

theorem eqv_trans {c : Cfg} {a b d : AllocId} (h1 : c.eqv a b = true) (h2 : c.eqv b d = true) : c.eqv a d = true := by
  unfold Cfg.eqv at *
  cases hi : c.iae with
  | true => simp
  | false =>
    rw [hi] at h1 h2
    simp only [Bool.false_or, beq_iff_eq] at h1 h2 ⊢
    exact h1.trans h2

theorem eqv_symm {c : Cfg} {a b : AllocId} (h : c.eqv a b = true) : c.eqv b a = true := by
  unfold Cfg.eqv at *
  cases hi : c.iae with
  | true => simp
  | false =>
    rw [hi] at h
    simp only [Bool.false_or, beq_iff_eq] at h ⊢
    exact h.symm

theorem alive_iff {s : St} {i : Nat} : alive s i = true ↔ ∃ x, getArr s i = some x := by
  unfold alive
  cases getArr s i <;> simp

theorem vacant_iff {s : St} {i : Nat} : vacant s i = true ↔ i < s.arrs.length ∧ s.arrs[i]? = some none := by
  unfold vacant alive
  constructor
  · intro h
    simp only [Bool.and_eq_true, decide_eq_true_eq, Bool.not_eq_eq_eq_not, Bool.not_true, Option.isSome_eq_false_iff,
      Option.isNone_iff_eq_none] at h
    exact ⟨h.1, getArr_none h.1 h.2⟩
  · intro ⟨h1, h2⟩
    simp only [Bool.and_eq_true, decide_eq_true_eq, Bool.not_eq_eq_eq_not, Bool.not_true, Option.isSome_eq_false_iff,
      Option.isNone_iff_eq_none]
    refine ⟨h1, ?_⟩
    unfold getArr
    rw [h2]; rfl

theorem ownsB_none (b : Nat) : ownsB b none = false := rfl

theorem getArr_of_arrs {s' : St} {i : Nat} {o : Option Arr} (h : s'.arrs[i]? = some o) : getArr s' i = o := by
  simp [getArr, h]

theorem allocOf_set_self {s' : St} {A : List (Option Arr)} {i : Nat} {x : Arr} (h : s'.arrs = A.set i (some x))
    (hi : i < A.length) : allocOf s' i = some x.alloc := by
  unfold allocOf
  rw [getArr_of_arrs (o := some x)]
  · rfl
  · rw [h]; exact List.getElem?_set_self hi

theorem allocOf_eq {s : St} {i : Nat} {x : Arr} (h : getArr s i = some x) : allocOf s i = some x.alloc := by
  simp [allocOf, h]

/-! ### installing a built block -/

/-- a slot that owns nothing receives the block `build` has produced -/
theorem Built.install {c : Cfg} {a : AllocId} {n : Nat} {s s1 : St} {p : Option Nat} {i : Nat} {old : Option Arr} {x' : Arr}
    (hb : Built c a n s s1 p) (hI : InvS c s) (hi : s.arrs[i]? = some old) (hold : ∀ b, ownsB b old = false)
    (hxb : x'.base = p) (hxn : x'.n = n) : Inv c s1.blocks (s.arrs.set i (some x')) := by
  obtain ⟨_, _, h⟩ := hb
  rcases h with ⟨hn, hp, hbl⟩ | ⟨blk, hn, hp, hbl, hfr, hsz, hc, _⟩
  · rw [hbl]
    exact Inv.set_nonowning hI hi hold (fun y hy => by cases hy; omega)
  · rw [hbl]
    exact Inv.install hI hi hold (by omega) (by rw [hxb, hp]) hfr (by omega) hc

theorem Built.installA {c : Cfg} {a : AllocId} {n : Nat} {s s1 : St} {p : Option Nat} {i : Nat} {x' : Arr}
    (hb : Built c a n s s1 p) (hI : InvS c s) (hA : InvAS c s)
    (hxb : x'.base = p) (hxn : x'.n = n) (hal : c.eqv a x'.alloc = true) : InvA c s1.blocks (s.arrs.set i (some x')) := by
  obtain ⟨_, _, h⟩ := hb
  rcases h with ⟨hn, hp, hbl⟩ | ⟨blk, hn, hp, hbl, hfr, hsz, hc, hba⟩
  · rw [hbl]
    exact InvA.set_nonowning hA (fun y hy => by cases hy; omega)
  · rw [hbl]
    exact InvA.install hA hI (by rw [hxb, hp]) hfr (by rw [hba]; exact hal)

/-! ### constructors -/

theorem opCtorDefault_spec (c : Cfg) (hok : c.OK) (i : Nat) (a : AllocId) (s : St) (hG : Good c s)
    (happ : (Op.ctorDefault i a).applicable c s = true) : OpSpec c (.ctorDefault i a) s := by
  obtain ⟨hI, hW⟩ := hG
  obtain ⟨hlt, hi⟩ := vacant_iff.mp happ
  unfold OpSpec
  show Out (opCtorDefault c i a s) _ _ _
  unfold opCtorDefault
  apply Out.mono (setSlot_out i _ s) _ (fun _ h => h) id
  intro _ s1 h1
  refine ⟨⟨?_, ?_⟩, h1.fuel, by rw [h1.arrs, List.length_set], ?_, ?_⟩
  · show Inv c s1.blocks s1.arrs
    rw [h1.blocks, h1.arrs]
    exact Inv.set_nonowning hI hi ownsB_none (fun y hy => by cases hy; rfl)
  · rw [h1.arrs]
    exact hW.set (fun y hy => by cases hy; show 0 = nElems (emptyExts c.dim); rw [nElems_emptyExts hok.dim])
  · intro _ hA
    show InvA c s1.blocks s1.arrs
    rw [h1.blocks, h1.arrs]
    exact InvA.set_nonowning hA (fun y hy => by cases hy; rfl)
  · exact allocOf_set_self h1.arrs hlt

/-- the constructors of the form "allocate in the mem-initialiser, construct in the body" -/
theorem ctorWith_spec (c : Cfg) (i : Nat) (a : AllocId) (es : List Ext) (construct : Bool) (rowLen : Nat) (s s0 : St)
    {T : Prop} (hI : InvS c s) (hW : Wn s.arrs) (hvac : vacant s i = true) (hfx : c.fx6 = true)
    (hct : construct = false → c.trivCtor = true) (h0 : Fr s0 s s.blocks s.arrs) :
    Out (ctorWith c i a es construct rowLen s)
      (fun _ s' => Good c s' ∧ NF s0 s' ∧ s'.arrs.length = s.arrs.length ∧ (InvAS c s → InvAS c s') ∧ allocOf s' i = some a)
      (fun s' => s0.fuel ≠ none ∧ s'.arrs.length = s.arrs.length ∧ Good c s') T := by
  obtain ⟨hlt, hi⟩ := vacant_iff.mp hvac
  unfold ctorWith
  apply Out.bind (build_out (T := T) c a (nElems es) construct rowLen s hfx hct)
  · intro p s1 hb
    apply Out.mono (setSlot_out i _ s1) _ (fun _ h => h) id
    intro _ s2 h2
    have harrs : s2.arrs = s.arrs.set i (some ⟨a, p, reported es, nElems es⟩) := by rw [h2.arrs, hb.2.1]
    refine ⟨⟨?_, ?_⟩, fun h => h2.fuel (hb.1 (h0.fuel h)), by rw [harrs, List.length_set], ?_, allocOf_set_self harrs hlt⟩
    · show Inv c s2.blocks s2.arrs
      rw [h2.blocks, harrs]
      exact hb.install hI hi ownsB_none rfl rfl
    · rw [harrs]
      exact hW.set (fun y hy => by cases hy; show nElems es = nElems (reported es); rw [nElems_reported])
    · intro hA
      show InvA c s2.blocks s2.arrs
      rw [h2.blocks, harrs]
      exact hb.installA hI hA rfl rfl (eqv_refl c a)
  · intro s1 ⟨hfu, hcl'⟩
    exact ⟨h0.armed hfu, by rw [hcl'.1], hcl'.inv hI, by rw [hcl'.1]; exact hW⟩

theorem get_bind {α : Type} (f : St → M α) (s : St) : (get >>= f) s = f s s := rfl

/-- reading (a prefix of) the elements of a live array of the pool -/
theorem readSrc_out (c : Cfg) (j count : Nat) (y : Arr) (s : St) {Q : St → Prop} {T : Prop}
    (hI : InvS c s) (hj : s.arrs[j]? = some (some y)) (hle : count ≤ y.n) :
    Out (readCells c y.base count s) (fun _ s' => s' = s) Q T := by
  by_cases h0 : count = 0
  · subst h0; exact readCells_zero c y.base s
  · obtain ⟨b, blk, hb, hB, hf, hsz, hc⟩ := hI.valid j y hj (by omega)
    rw [hb]
    exact readCells_out c b count s hB hf (by omega) hc

theorem ctorExt_spec (c : Cfg) (hok : c.OK) (i : Nat) (a : AllocId) (es : List Ext) (s : St) (hG : Good c s)
    (happ : (Op.ctorExt i a es).applicable c s = true) (hfx : (Op.ctorExt i a es).fixedIn c = true) :
    OpSpec c (.ctorExt i a es) s := by
  unfold OpSpec
  show Out (ctorWith c i a es (!c.trivCtor) 0 s) _ _ _
  apply Out.mono (ctorWith_spec (T := s.fuel ≠ none ∧ (Op.ctorExt i a es).isSaMove = true) c i a es (!c.trivCtor) 0 s s hG.1 hG.2 happ hfx
    (by intro h; simpa using h) (Fr.refl s)) _ (fun _ h => h) id
  intro _ s' ⟨h1, h2, h3, h4, h5⟩
  exact ⟨h1, h2, h3, fun _ => h4, h5⟩

theorem ctorFill_spec (c : Cfg) (hok : c.OK) (i : Nat) (a : AllocId) (es : List Ext) (s : St) (hG : Good c s)
    (happ : (Op.ctorFill i a es).applicable c s = true) (hfx : (Op.ctorFill i a es).fixedIn c = true) :
    OpSpec c (.ctorFill i a es) s := by
  unfold OpSpec
  show Out (ctorWith c i a es true 0 s) _ _ _
  apply Out.mono (ctorWith_spec (T := s.fuel ≠ none ∧ (Op.ctorFill i a es).isSaMove = true) c i a es true 0 s s hG.1 hG.2 happ hfx
    (by intro h; cases h) (Fr.refl s)) _ (fun _ h => h) id
  intro _ s' ⟨h1, h2, h3, h4, h5⟩
  exact ⟨h1, h2, h3, fun _ => h4, h5⟩

/-- copy constructor (`a = none`: select_on_container_copy_construction) and allocator-extended copy constructor -/
theorem opCtorCopy_out (c : Cfg) (hok : c.OK) (i j : Nat) (a : Option AllocId) (s : St) {T : Prop} (hG : Good c s)
    (hvac : vacant s i = true) (y : Arr) (hy : getArr s j = some y) (hfx : c.fx6 = true) :
    Out (opCtorCopy c i j a s)
      (fun _ s' => Good c s' ∧ NF s s' ∧ s'.arrs.length = s.arrs.length ∧ (InvAS c s → InvAS c s') ∧
        allocOf s' i = some (pickAlloc a (c.select y.alloc)))
      (fun s' => s.fuel ≠ none ∧ s'.arrs.length = s.arrs.length ∧ Good c s') T := by
  obtain ⟨hI, hW⟩ := hG
  obtain ⟨hlt, hi⟩ := vacant_iff.mp hvac
  have hj := getArr_eq hy
  unfold opCtorCopy
  rw [get_bind]
  simp only [hy]
  generalize pickAlloc a (c.select y.alloc) = al
  apply Out.bind (readSrc_out (Q := fun _ => False) c j y.n y s hI hj (Nat.le_refl _)) _ (fun _ h => h.elim)
  intro _ s1 h1; subst h1
  apply Out.bind (build_out (T := T) c al y.n true 0 s1 hfx (by intro h; cases h))
  · intro p s2 hb
    apply Out.mono (setSlot_out i _ s2) _ (fun _ h => h) id
    intro _ s3 h3
    have harrs : s3.arrs = s1.arrs.set i (some ⟨al, p, reported y.ext, y.n⟩) := by rw [h3.arrs, hb.2.1]
    refine ⟨⟨?_, ?_⟩, fun h => h3.fuel (hb.1 h), by rw [harrs, List.length_set], ?_, allocOf_set_self harrs hlt⟩
    · show Inv c s3.blocks s3.arrs
      rw [h3.blocks, harrs]
      exact hb.install hI hi ownsB_none rfl rfl
    · rw [harrs]
      exact hW.set (fun z hz => by cases hz; show y.n = nElems (reported y.ext); rw [nElems_reported]; exact hW j y hj)
    · intro hA
      show InvA c s3.blocks s3.arrs
      rw [h3.blocks, harrs]
      exact hb.installA hI hA rfl rfl (eqv_refl c al)
  · intro s2 ⟨hfu, hcl'⟩
    exact ⟨hfu, by rw [hcl'.1], hcl'.inv hI, by rw [hcl'.1]; exact hW⟩

theorem ctorCopy_spec (c : Cfg) (hok : c.OK) (i j : Nat) (s : St) (hG : Good c s)
    (happ : (Op.ctorCopy i j).applicable c s = true) (hfx : (Op.ctorCopy i j).fixedIn c = true) :
    OpSpec c (.ctorCopy i j) s := by
  simp only [Op.applicable, Bool.and_eq_true] at happ
  obtain ⟨y, hy⟩ := alive_iff.mp happ.2
  unfold OpSpec
  show Out (opCtorCopy c i j none s) _ _ _
  apply Out.mono (opCtorCopy_out (T := s.fuel ≠ none ∧ (Op.ctorCopy i j).isSaMove = true) c hok i j none s hG happ.1 y hy hfx) _
    (fun _ h => h) id
  intro _ s' ⟨h1, h2, h3, h4, h5⟩
  refine ⟨h1, h2, h3, fun _ => h4, ?_⟩
  show allocOf s' i = (allocOf s j).map c.select
  rw [h5, allocOf_eq hy]; rfl

theorem ctorCopyA_spec (c : Cfg) (hok : c.OK) (i j : Nat) (a : AllocId) (s : St) (hG : Good c s)
    (happ : (Op.ctorCopyA i j a).applicable c s = true) (hfx : (Op.ctorCopyA i j a).fixedIn c = true) :
    OpSpec c (.ctorCopyA i j a) s := by
  simp only [Op.applicable, Bool.and_eq_true] at happ
  obtain ⟨y, hy⟩ := alive_iff.mp happ.2
  unfold OpSpec
  show Out (opCtorCopy c i j (some a) s) _ _ _
  apply Out.mono (opCtorCopy_out (T := s.fuel ≠ none ∧ (Op.ctorCopyA i j a).isSaMove = true) c hok i j (some a) s hG happ.1 y hy hfx) _
    (fun _ h => h) id
  intro _ s' ⟨h1, h2, h3, h4, h5⟩
  exact ⟨h1, h2, h3, fun _ => h4, h5⟩

theorem ctorView_spec (c : Cfg) (hok : c.OK) (i j : Nat) (a : AllocId) (sl : Option (Int × Int)) (s : St) (hG : Good c s)
    (happ : (Op.ctorView i j a sl).applicable c s = true) (hfx : (Op.ctorView i j a sl).fixedIn c = true) :
    OpSpec c (.ctorView i j a sl) s := by
  simp only [Op.applicable, Bool.and_eq_true] at happ
  obtain ⟨hvac, hsl⟩ := happ
  cases hy : getArr s j with
  | none => rw [hy] at hsl; cases hsl
  | some y =>
    rw [hy] at hsl
    have hj := getArr_eq hy
    unfold OpSpec
    show Out (opCtorView c i j a sl s) _ _ _
    unfold opCtorView
    rw [get_bind]
    simp only [hy]
    have hle : nElems (viewExts y sl) ≤ y.n := by rw [hG.2 j y hj]; exact nElems_viewExts_le y sl hsl
    apply Out.bind (readSrc_out (Q := fun _ => False) c j _ y s hG.1 hj hle) _ (fun _ h => h.elim)
    intro _ s1 h1; subst h1
    apply Out.mono (ctorWith_spec (T := s1.fuel ≠ none ∧ (Op.ctorView i j a sl).isSaMove = true) c i a _ true 0 s1 s1 hG.1 hG.2 hvac hfx
      (by intro h; cases h) (Fr.refl s1)) _ (fun _ h => h) id
    intro _ s' ⟨h1, h2, h3, h4, h5⟩
    exact ⟨h1, h2, h3, fun _ => h4, h5⟩

theorem ctorRange_spec (c : Cfg) (hok : c.OK) (i j : Nat) (a : AllocId) (s : St) (hG : Good c s)
    (happ : (Op.ctorRange i j a).applicable c s = true) (hfx : (Op.ctorRange i j a).fixedIn c = true) :
    OpSpec c (.ctorRange i j a) s := by
  simp only [Op.applicable, Bool.and_eq_true] at happ
  obtain ⟨hvac, hal⟩ := happ
  obtain ⟨y, hy⟩ := alive_iff.mp hal
  have hj := getArr_eq hy
  unfold OpSpec
  show Out (opCtorRange c i j a s) _ _ _
  unfold opCtorRange
  rw [get_bind]
  simp only [hy]
  apply Out.bind (readSrc_out (Q := fun _ => False) c j _ y s hG.1 hj (Nat.le_refl _)) _ (fun _ h => h.elim)
  intro _ s1 h1; subst h1
  apply Out.mono (ctorWith_spec (T := s1.fuel ≠ none ∧ (Op.ctorRange i j a).isSaMove = true) c i a _ true _ s1 s1 hG.1 hG.2 hvac hfx
    (by intro h; cases h) (Fr.refl s1)) _ (fun _ h => h) id
  intro _ s' ⟨h1, h2, h3, h4, h5⟩
  exact ⟨h1, h2, h3, fun _ => h4, h5⟩

/-- move construction: the block changes hands, nothing is allocated, constructed or destroyed -/
theorem opCtorMove_adopt (c : Cfg) (hok : c.OK) (i j : Nat) (a : Option AllocId) (s : St) {Q : St → Prop} {T : Prop} (hG : Good c s)
    (hvac : vacant s i = true) (y : Arr) (hy : getArr s j = some y)
    (hcond : (c.fx9a && !c.eqv (pickAlloc a y.alloc) y.alloc) = false) :
    Out (opCtorMove c i j a s)
      (fun _ s' => Good c s' ∧ NF s s' ∧ s'.arrs.length = s.arrs.length ∧
        (c.eqv (pickAlloc a y.alloc) y.alloc = true → InvAS c s → InvAS c s') ∧
        allocOf s' i = some (pickAlloc a y.alloc)) Q T := by
  obtain ⟨hI, hW⟩ := hG
  obtain ⟨hlt, hi⟩ := vacant_iff.mp hvac
  have hj := getArr_eq hy
  have hij : i ≠ j := by
    intro e; subst e; rw [hi] at hj; cases hj
  unfold opCtorMove
  rw [get_bind]
  simp only [hy, hcond, Bool.false_eq_true, if_false]
  generalize pickAlloc a y.alloc = al
  apply Out.bind (setSlot_out i _ s) _ (fun _ h => h)
  intro _ s1 h1
  apply Out.mono (setSlot_out j _ s1) _ (fun _ h => h) id
  intro _ s2 h2
  have harrs : s2.arrs = (s.arrs.set i (some ⟨al, y.base, y.ext, y.n⟩)).set j
      (some { y with base := none, ext := emptyExts c.dim, n := 0 }) := by rw [h2.arrs, h1.arrs]
  refine ⟨⟨?_, ?_⟩, fun h => h2.fuel (h1.fuel h), by rw [harrs]; simp, ?_, ?_⟩
  · show Inv c s2.blocks s2.arrs
    rw [h2.blocks, h1.blocks, harrs]
    exact Inv.transfer hI hij hi ownsB_none hj rfl rfl rfl
  · rw [harrs]
    apply Wn.set (Wn.set hW _) _
    · intro z hz; cases hz; exact hW j y hj
    · intro z hz; cases hz; show 0 = nElems (emptyExts c.dim); rw [nElems_emptyExts hok.dim]
  · intro heq hA
    show InvA c s2.blocks s2.arrs
    rw [h2.blocks, h1.blocks, harrs]
    refine InvA.transfer (x' := ⟨al, y.base, y.ext, y.n⟩) (y' := { y with base := none, ext := emptyExts c.dim, n := 0 })
      hA hij hj rfl rfl rfl ?_
    intro b blk hn hb hB hf
    exact eqv_trans (hA.ownerEq j y b blk hj hn hb hB hf) (eqv_symm heq)
  · unfold allocOf
    rw [getArr_of_arrs (o := some ⟨al, y.base, y.ext, y.n⟩)]
    · rfl
    · rw [harrs, List.getElem?_set_ne (Ne.symm hij)]
      exact List.getElem?_set_self hlt

/-! ### destructor, clear, reshape, swap, move assignment -/

theorem dtor_spec (c : Cfg) (hok : c.OK) (i : Nat) (s : St) (hG : Good c s)
    (happ : (Op.dtor i).applicable c s = true) : OpSpec c (.dtor i) s := by
  obtain ⟨x, hx⟩ := alive_iff.mp happ
  have hi := getArr_eq hx
  unfold OpSpec
  show Out (opDtor c i s) _ _ _
  unfold opDtor
  rw [get_bind]
  simp only [hx]
  apply Out.mono (dtorArr_out c hok.wf i x s hG.1 hi) _ (fun _ h => h) id
  intro _ s' ⟨h1, h2, h3, h4⟩
  refine ⟨⟨h1, ?_⟩, h2, by rw [h3, List.length_set], fun _ => h4, trivial⟩
  rw [h3]; exact hG.2.set (fun y hy => by cases hy)

theorem clear_spec (c : Cfg) (hok : c.OK) (i : Nat) (s : St) (hG : Good c s)
    (happ : (Op.clear i).applicable c s = true) : OpSpec c (.clear i) s := by
  obtain ⟨x, hx⟩ := alive_iff.mp happ
  have hi := getArr_eq hx
  have hlt : i < s.arrs.length := (List.getElem?_eq_some_iff.mp hi).1
  unfold OpSpec
  show Out (opClear c i s) _ _ _
  unfold opClear
  rw [get_bind]
  simp only [hx]
  refine Out.noexcept' (Q := fun _ => False) (T := False) ?_ (fun _ h => False.elim h) (fun h => False.elim h)
  apply Out.bind (clearArr_out (T := False) c hok.wf i x s hG.1 hi) _ (fun _ h => h)
  intro x' s' ⟨hx', h1, h2, h3, h4⟩
  apply Out.pure'
  refine ⟨⟨h1, ?_⟩, h2, by rw [h3, List.length_set], fun _ => h4, ?_⟩
  · rw [h3]; exact hG.2.set (fun y hy => by cases hy; rw [hx']; show 0 = nElems (emptyExts c.dim); rw [nElems_emptyExts hok.dim])
  · show allocOf s' i = allocOf s i
    rw [allocOf_set_self h3 hlt, allocOf_eq hx, hx']

theorem reshape_spec (c : Cfg) (hok : c.OK) (i : Nat) (es : List Ext) (s : St) (hG : Good c s)
    (happ : (Op.reshape i es).applicable c s = true) : OpSpec c (.reshape i es) s := by
  simp only [Op.applicable] at happ
  cases hx : getArr s i with
  | none => rw [hx] at happ; cases happ
  | some x =>
    rw [hx] at happ
    have hn : nElems es = x.n := by simpa using happ
    have hi := getArr_eq hx
    have hlt : i < s.arrs.length := (List.getElem?_eq_some_iff.mp hi).1
    unfold OpSpec
    show Out (opReshape i es s) _ _ _
    unfold opReshape
    rw [get_bind]
    simp only [hx, hn, if_true]
    apply Out.mono (setSlot_out i _ s) _ (fun _ h => h) id
    intro _ s1 h1
    refine ⟨⟨?_, ?_⟩, h1.fuel, by rw [h1.arrs, List.length_set], ?_, ?_⟩
    · show Inv c s1.blocks s1.arrs
      rw [h1.blocks, h1.arrs]
      exact Inv.relabel hG.1 hi rfl rfl
    · rw [h1.arrs]
      exact hG.2.set (fun y hy => by cases hy; show x.n = nElems (reported es); rw [nElems_reported, hn])
    · intro _ hA
      show InvA c s1.blocks s1.arrs
      rw [h1.blocks, h1.arrs]
      exact InvA.relabel hA hi rfl rfl (fun b blk hn' hb hB hf => hA.ownerEq i x b blk hi hn' hb hB hf)
    · show allocOf s1 i = allocOf s i
      rw [allocOf_set_self h1.arrs hlt, allocOf_eq hx]

theorem swap_spec (c : Cfg) (hok : c.OK) (i j : Nat) (s : St) (hG : Good c s)
    (happ : (Op.swap i j).applicable c s = true) : OpSpec c (.swap i j) s := by
  simp only [Op.applicable] at happ
  cases hx : getArr s i with
  | none => rw [hx] at happ; cases happ
  | some x =>
    cases hy : getArr s j with
    | none => rw [hx, hy] at happ; cases happ
    | some y =>
      rw [hx, hy] at happ
      have hi := getArr_eq hx
      have hj := getArr_eq hy
      have hlti : i < s.arrs.length := (List.getElem?_eq_some_iff.mp hi).1
      have hltj : j < s.arrs.length := (List.getElem?_eq_some_iff.mp hj).1
      unfold OpSpec
      show Out (opSwap c i j s) _ _ _
      unfold opSwap
      rw [get_bind]
      simp only [hx, hy]
      by_cases hij : i = j
      · subst hij
        simp only [if_true]
        apply Out.pure'
        have : x = y := by rw [hx] at hy; exact Option.some.inj hy
        subst this
        refine ⟨hG, NF.refl s, rfl, fun _ h => h, ?_⟩
        show allocOf s i = _ ∧ allocOf s i = _
        constructor <;> (cases c.pocs <;> rfl)
      · simp only [hij, if_false]
        apply Out.bind (setSlot_out i _ s) _ (fun _ h => h)
        intro _ s1 h1
        apply Out.mono (setSlot_out j _ s1) _ (fun _ h => h) id
        intro _ s2 h2
        have harrs : s2.arrs = (s.arrs.set i (some ⟨if c.pocs then y.alloc else x.alloc, y.base, y.ext, y.n⟩)).set j
            (some ⟨if c.pocs then x.alloc else y.alloc, x.base, x.ext, x.n⟩) := by rw [h2.arrs, h1.arrs]
        refine ⟨⟨?_, ?_⟩, fun h => h2.fuel (h1.fuel h), by rw [harrs]; simp, ?_, ?_, ?_⟩
        · show Inv c s2.blocks s2.arrs
          rw [h2.blocks, h1.blocks, harrs]
          exact Inv.exchange hG.1 hij hi hj rfl rfl rfl rfl
        · rw [harrs]
          apply Wn.set (Wn.set hG.2 _) _
          · intro z hz; cases hz; exact hG.2 j y hj
          · intro z hz; cases hz; exact hG.2 i x hi
        · intro _ hA
          show InvA c s2.blocks s2.arrs
          rw [h2.blocks, h1.blocks, harrs]
          have hcase : c.pocs = true ∨ c.eqv x.alloc y.alloc = true := by
            simpa [Bool.or_eq_true] using happ
          refine InvA.exchange (x' := ⟨if c.pocs then y.alloc else x.alloc, y.base, y.ext, y.n⟩)
            (y' := ⟨if c.pocs then x.alloc else y.alloc, x.base, x.ext, x.n⟩) hA hij hi hj rfl rfl rfl rfl ?_ ?_
          · intro b blk hn hb hB hf
            have h0 := hA.ownerEq j y b blk hj hn hb hB hf
            show c.eqv blk.alloc (if c.pocs then y.alloc else x.alloc) = true
            rcases hcase with hp | he
            · simp [hp, h0]
            · cases hp : c.pocs with
              | true => simp [h0]
              | false => simp; exact eqv_trans h0 (eqv_symm he)
          · intro b blk hn hb hB hf
            have h0 := hA.ownerEq i x b blk hi hn hb hB hf
            show c.eqv blk.alloc (if c.pocs then x.alloc else y.alloc) = true
            rcases hcase with hp | he
            · simp [hp, h0]
            · cases hp : c.pocs with
              | true => simp [h0]
              | false => simp; exact eqv_trans h0 he
        · show allocOf s2 i = _
          unfold allocOf
          rw [getArr_of_arrs (o := some ⟨if c.pocs then y.alloc else x.alloc, y.base, y.ext, y.n⟩)]
          · rw [hx, hy]; cases c.pocs <;> rfl
          · rw [harrs, List.getElem?_set_ne (Ne.symm hij)]; exact List.getElem?_set_self hlti
        · show allocOf s2 j = _
          unfold allocOf
          rw [getArr_of_arrs (o := some ⟨if c.pocs then x.alloc else y.alloc, x.base, x.ext, x.n⟩)]
          · rw [hx, hy]; cases c.pocs <;> rfl
          · rw [harrs]; exact List.getElem?_set_self (by simp; exact hltj)

/-- `clear(); base_ = p; if(POCMA) alloc = srcAlloc; layout = …` onto a slot, from a heap in which block `p` belongs to slot `j` -/
theorem assignMove_adopt (c : Cfg) (hok : c.OK) (i j : Nat) (s : St) {T : Prop} (hG : Good c s) (x y : Arr)
    (hx : getArr s i = some x) (hy : getArr s j = some y)
    (hcond : (c.fx9a && !c.pocma && !c.eqv x.alloc y.alloc) = false) :
    Out (opAssignMove c i j s)
      (fun _ s' => Good c s' ∧ NF s s' ∧ s'.arrs.length = s.arrs.length ∧
        ((c.pocma = true ∨ c.eqv x.alloc y.alloc = true) → InvAS c s → InvAS c s') ∧
        allocOf s' i = if c.pocma then allocOf s j else allocOf s i)
      (fun _ => False) T := by
  have hi := getArr_eq hx
  have hj := getArr_eq hy
  have hlti : i < s.arrs.length := (List.getElem?_eq_some_iff.mp hi).1
  unfold opAssignMove
  rw [get_bind]
  simp only [hx, hy]
  by_cases hij : i = j
  · subst hij
    simp only [if_true]
    apply Out.pure'
    refine ⟨hG, NF.refl s, rfl, fun _ h => h, ?_⟩
    show allocOf s i = if c.pocma then allocOf s i else allocOf s i
    cases c.pocma <;> rfl
  · simp only [hij, if_false, hcond, Bool.false_eq_true]
    refine Out.noexcept' (Q := fun _ => False) (T := False) ?_ (fun _ h => False.elim h) (fun h => False.elim h)
    unfold moveAssignFrom
    show Out (((clearArr c i x >>= fun x' => setSlot i (some { x' with base := y.base, alloc := if c.pocma then y.alloc else x'.alloc, ext := y.ext, n := y.n }))
      >>= fun _ => setSlot j (some { y with ext := emptyExts c.dim, n := 0 })) s) _ _ _
    apply Out.bind (P := fun _ s2 => ∃ s1 x', x' = { x with ext := emptyExts c.dim, n := 0 } ∧ InvS c s1 ∧ NF s s1 ∧
        s1.arrs = s.arrs.set i (some x') ∧ (InvAS c s → InvAS c s1) ∧
        Fr s1 s2 s1.blocks (s1.arrs.set i (some { x' with base := y.base, alloc := if c.pocma then y.alloc else x'.alloc, ext := y.ext, n := y.n })))
      (Q := fun _ => False) _ _ (fun _ h => h.elim)
    · apply Out.bind (clearArr_out (T := False) c hok.wf i x s hG.1 hi) _ (fun _ h => h)
      intro x' s1 ⟨hx', h1, h2, h3, h4⟩
      apply Out.mono (setSlot_out i _ s1) _ (fun _ h => h) id
      intro _ s2 h5
      exact ⟨s1, x', hx', h1, h2, h3, h4, h5⟩
    · intro _ s2 ⟨s1, x', hx', h1, h2, h3, h4, h5⟩
      apply Out.mono (setSlot_out j _ s2) _ (fun _ h => h) id
      intro _ s3 h6
      have hi1 : s1.arrs[i]? = some (some x') := by rw [h3]; exact List.getElem?_set_self hlti
      have hj1 : s1.arrs[j]? = some (some y) := by rw [h3, List.getElem?_set_ne hij]; exact hj
      have harrs : s3.arrs = (s1.arrs.set i (some { x' with base := y.base, alloc := if c.pocma then y.alloc else x'.alloc, ext := y.ext, n := y.n })).set j
          (some { y with ext := emptyExts c.dim, n := 0 }) := by rw [h6.arrs, h5.arrs]
      have hW1 : Wn s1.arrs := by
        rw [h3]; exact hG.2.set (fun z hz => by cases hz; rw [hx']; show 0 = nElems (emptyExts c.dim); rw [nElems_emptyExts hok.dim])
      refine ⟨⟨?_, ?_⟩, fun h => h6.fuel (h5.fuel (h2 h)), by rw [harrs, h3]; simp, ?_, ?_⟩
      · show Inv c s3.blocks s3.arrs
        rw [h6.blocks, h5.blocks, harrs]
        exact Inv.transfer h1 hij hi1 (fun b => ownsB_empty b (by rw [hx'])) hj1 rfl rfl rfl
      · rw [harrs]
        apply Wn.set (Wn.set hW1 _) _
        · intro z hz; cases hz; exact hG.2 j y hj
        · intro z hz; cases hz; show 0 = nElems (emptyExts c.dim); rw [nElems_emptyExts hok.dim]
      · intro haff hA
        show InvA c s3.blocks s3.arrs
        rw [h6.blocks, h5.blocks, harrs]
        refine InvA.transfer (x' := { x' with base := y.base, alloc := if c.pocma then y.alloc else x'.alloc, ext := y.ext, n := y.n })
          (y' := { y with ext := emptyExts c.dim, n := 0 }) (h4 hA) hij hj1 rfl rfl rfl ?_
        intro b blk hn hb hB hf
        show c.eqv blk.alloc (if c.pocma then y.alloc else x'.alloc) = true
        have h0 := (h4 hA).ownerEq j y b blk hj1 hn hb hB hf
        rcases haff with hp | he
        · rw [hp]; exact h0
        · cases hp : c.pocma with
          | true => exact h0
          | false => simp only [Bool.false_eq_true, if_false]; rw [hx']; exact eqv_trans h0 (eqv_symm he)
      · show allocOf s3 i = if c.pocma then allocOf s j else allocOf s i
        unfold allocOf
        rw [getArr_of_arrs (o := some { x' with base := y.base, alloc := if c.pocma then y.alloc else x'.alloc, ext := y.ext, n := y.n })]
        · rw [hx, hy, hx']; cases c.pocma <;> rfl
        · rw [harrs, List.getElem?_set_ne (Ne.symm hij)]
          exact List.getElem?_set_self (by rw [h3]; simp; exact hlti)

/-! ### element-wise assignment, copy assignment, assign, reextent&& -/

theorem eqv_ext_refl (e : Ext) : e.eqv e = true := by simp [Ext.eqv]

theorem extsEq_refl : ∀ (es : List Ext), extsEq es es = true
  | [] => rfl
  | e :: es => by simp [extsEq, eqv_ext_refl, extsEq_refl es]

/-- element-wise assignment into (a prefix of) the block of a live array of the pool: whether it completes or an element
    assignment throws, no cell changes its status -/
theorem assignOwn_out (c : Cfg) (i k : Nat) (x : Arr) (s : St) {T : Prop} (hI : InvS c s)
    (hi : s.arrs[i]? = some (some x)) (hk : k ≤ x.n) :
    Out (assignAll c x.base (List.range k) s)
      (fun _ s' => InvS c s' ∧ NF s s' ∧ s'.arrs = s.arrs ∧ (InvAS c s → InvAS c s'))
      (fun s' => s.fuel ≠ none ∧ InvS c s' ∧ s'.arrs = s.arrs) T := by
  by_cases h0 : k = 0
  · subst h0
    apply Out.mono (assignAll_nil (Q := fun s' => s.fuel ≠ none ∧ InvS c s' ∧ s'.arrs = s.arrs) c x.base s) _ (fun _ h => h) id
    intro _ s' h; subst h
    exact ⟨hI, NF.refl _, rfl, fun h => h⟩
  · obtain ⟨b, blk, hb, hB, hf, hsz, hc⟩ := hI.valid i x hi (by omega)
    rw [hb]
    have hoff : ∀ off ∈ List.range k, off < blk.size := by
      intro off ho; rw [List.mem_range] at ho; omega
    apply Out.mono (assignAll_out (T := T) c b (List.range k) s hB hf hoff hc) _ _ id
    · intro _ s' ⟨cs', hfr, hcs⟩
      refine ⟨?_, hfr.fuel, hfr.arrs, ?_⟩
      · show Inv c s'.blocks s'.arrs
        rw [hfr.blocks, hfr.arrs]
        exact Inv.set_cells hI hB (fun _ => hcs) (fun h => by rw [hf] at h; cases h)
      · intro hA
        show InvA c s'.blocks s'.arrs
        rw [hfr.blocks, hfr.arrs]
        exact InvA.set_cells hA hB
    · intro s' ⟨hfu, cs', hfr, hcs⟩
      refine ⟨hfu, ?_, hfr.arrs⟩
      show Inv c s'.blocks s'.arrs
      rw [hfr.blocks, hfr.arrs]
      exact Inv.set_cells hI hB (fun _ => hcs) (fun h => by rw [hf] at h; cases h)

theorem viewAssign_spec (c : Cfg) (hok : c.OK) (i j : Nat) (s : St) (hG : Good c s)
    (happ : (Op.viewAssign i j).applicable c s = true) : OpSpec c (.viewAssign i j) s := by
  simp only [Op.applicable, Bool.and_eq_true] at happ
  cases hx : getArr s i with
  | none => rw [hx] at happ; simp at happ
  | some x =>
    cases hy : getArr s j with
    | none => rw [hx, hy] at happ; simp at happ
    | some y =>
      have hi := getArr_eq hx
      have hj := getArr_eq hy
      unfold OpSpec
      show Out (opViewAssign c i j s) _ _ _
      unfold opViewAssign
      rw [get_bind]
      simp only [hx, hy]
      apply Out.bind (readSrc_out (Q := fun _ => False) c j _ y s hG.1 hj (Nat.le_refl _)) _ (fun _ h => h.elim)
      intro _ s1 h1; subst h1
      apply Out.mono (assignOwn_out (T := s1.fuel ≠ none ∧ (Op.viewAssign i j).isSaMove = true) c i x.n x s1 hG.1 hi (Nat.le_refl _)) _ _ id
      · intro _ s' ⟨h1, h2, h3, h4⟩
        refine ⟨⟨h1, by rw [h3]; exact hG.2⟩, h2, by rw [h3], fun _ => h4, ?_⟩
        show allocOf s' i = allocOf s1 i
        unfold allocOf getArr; rw [h3]
      · intro s' ⟨h1, h2, h3⟩
        exact ⟨h1, by rw [h3], h2, by rw [h3]; exact hG.2⟩

/-- the tail of every "clear, then rebuild" operation of the repaired code: slot `i` holds an empty array; `buildSafe` and
    adoption of the new block.  `mk p` is the array stored at the end. -/
theorem rebuild_out (c : Cfg) (i : Nat) (x1 : Arr) (al : AllocId) (n : Nat) (construct : Bool) (mk : Option Nat → Arr) (s : St)
    {T : Prop} (hI : InvS c s) (hW : Wn s.arrs) (hi : s.arrs[i]? = some (some x1)) (hx1 : x1.n = 0)
    (hct : construct = false → c.trivCtor = true)
    (hmb : ∀ p, (mk p).base = p) (hmn : ∀ p, (mk p).n = n) (hme : ∀ p, (mk p).n = nElems (mk p).ext)
    (hma : ∀ p, c.eqv al (mk p).alloc = true) :
    Out ((buildSafe c al n construct >>= fun p => setSlot i (some (mk p))) s)
      (fun _ s' => Good c s' ∧ NF s s' ∧ (∃ p, s'.arrs = s.arrs.set i (some (mk p))) ∧ (InvAS c s → InvAS c s'))
      (fun s' => s.fuel ≠ none ∧ Good c s' ∧ s'.arrs = s.arrs) T := by
  apply Out.bind (buildSafe_out (T := T) c al n construct s hct)
  · intro p s1 hb
    apply Out.mono (setSlot_out i _ s1) _ (fun _ h => h) id
    intro _ s2 h2
    have harrs : s2.arrs = s.arrs.set i (some (mk p)) := by rw [h2.arrs, hb.2.1]
    refine ⟨⟨?_, ?_⟩, fun h => h2.fuel (hb.1 h), ⟨p, harrs⟩, ?_⟩
    · show Inv c s2.blocks s2.arrs
      rw [h2.blocks, harrs]
      exact hb.install hI hi (fun b => ownsB_empty b hx1) (hmb p) (hmn p)
    · rw [harrs]
      exact hW.set (fun z hz => by cases hz; exact hme p)
    · intro hA
      show InvA c s2.blocks s2.arrs
      rw [h2.blocks, harrs]
      exact hb.installA hI hA (hmb p) (hmn p) (hma p)
  · intro s1 ⟨hfu, hcl⟩
    exact ⟨hfu, ⟨hcl.inv hI, by rw [hcl.1]; exact hW⟩, hcl.1⟩

theorem assignCopy_spec (c : Cfg) (hok : c.OK) (i j : Nat) (s : St) (hG : Good c s)
    (happ : (Op.assignCopy i j).applicable c s = true) (hfx : (Op.assignCopy i j).fixedIn c = true) :
    OpSpec c (.assignCopy i j) s := by
  simp only [Op.applicable, Bool.and_eq_true] at happ
  obtain ⟨x, hx⟩ := alive_iff.mp happ.1
  obtain ⟨y, hy⟩ := alive_iff.mp happ.2
  have hi := getArr_eq hx
  have hj := getArr_eq hy
  have hlti : i < s.arrs.length := (List.getElem?_eq_some_iff.mp hi).1
  have hfx7 : c.fx7 = true := hfx
  unfold OpSpec
  show Out (opAssignCopy c i j s) _ _ _
  unfold opAssignCopy
  rw [get_bind]
  simp only [hx, hy]
  by_cases hkeep : (extsEq x.ext y.ext && !(c.fx9c && c.pocca && !c.eqv x.alloc y.alloc)) = true
  · have hsame : extsEq x.ext y.ext = true := by
      simp only [Bool.and_eq_true] at hkeep; exact hkeep.1
    have hkeepA : (c.fx9c && c.pocca && !c.eqv x.alloc y.alloc) = false := by
      simp only [Bool.and_eq_true, Bool.not_eq_true'] at hkeep; exact hkeep.2
    simp only [hkeep, if_true]
    by_cases hij : i = j
    · subst hij
      simp only [if_true]
      apply Out.pure'
      refine ⟨hG, NF.refl s, rfl, fun _ h => h, ?_⟩
      show allocOf s i = if c.pocca then allocOf s i else allocOf s i
      cases c.pocca <;> rfl
    · simp only [hij, if_false]
      -- the allocator may be replaced first; then element-wise assignment
      generalize hx1 : (if c.pocca = true then { x with alloc := y.alloc } else x) = x1
      have hx1b : x1.base = x.base := by rw [← hx1]; split <;> rfl
      have hx1n : x1.n = x.n := by rw [← hx1]; split <;> rfl
      have hx1e : x1.ext = x.ext := by rw [← hx1]; split <;> rfl
      apply Out.bind (setSlot_out i (some x1) s) _ (fun _ h => h)
      intro _ s1 h1
      have hI1 : InvS c s1 := by
        show Inv c s1.blocks s1.arrs
        rw [h1.blocks, h1.arrs]; exact Inv.relabel hG.1 hi hx1b hx1n
      have hW1 : Wn s1.arrs := by
        rw [h1.arrs]; exact hG.2.set (fun z hz => by cases hz; rw [hx1n, hx1e]; exact hG.2 i x hi)
      have hi1 : s1.arrs[i]? = some (some x1) := by rw [h1.arrs]; exact List.getElem?_set_self hlti
      have hj1 : s1.arrs[j]? = some (some y) := by rw [h1.arrs, List.getElem?_set_ne hij]; exact hj
      apply Out.bind (readSrc_out (Q := fun _ => False) c j _ y s1 hI1 hj1 (Nat.le_refl _)) _ (fun _ h => h.elim)
      intro _ s2 h2; subst h2
      have hle : y.n ≤ x1.n := by
        rw [hx1n, hG.2 i x hi, hG.2 j y hj, nElems_extsEq hsame]; exact Nat.le_refl _
      apply Out.mono (assignOwn_out (T := s.fuel ≠ none ∧ (Op.assignCopy i j).isSaMove = true) c i y.n x1 s2 hI1 hi1 hle) _ _ id
      · intro _ s' ⟨h3, h4, h5, h6⟩
        refine ⟨⟨h3, by rw [h5]; exact hW1⟩, fun h => h4 (h1.fuel h), by rw [h5, h1.arrs, List.length_set], ?_, ?_⟩
        · intro haff hA
          apply h6
          show InvA c s2.blocks s2.arrs
          rw [h1.blocks, h1.arrs]
          -- outside the finding class: no POCCA, or all allocators equal, or (repaired) the two allocators are equal
          have hx1a : c.eqv x.alloc x1.alloc = true := by
            cases hp : c.pocca with
            | false => rw [← hx1, hp]; exact eqv_refl c _
            | true =>
              have hx1y : x1.alloc = y.alloc := by rw [← hx1, hp]; rfl
              rw [hx1y]
              cases hi' : c.iae with
              | true => simp [Cfg.eqv, hi']
              | false =>
                have hf9 : c.fx9c = true := by
                  simp only [Op.affectedA, hp, hi', Bool.not_false, Bool.and_true, Bool.true_and, Bool.not_eq_false'] at haff
                  exact haff
                rw [hf9, hp] at hkeepA
                simpa using hkeepA
          exact InvA.relabel hA hi hx1b hx1n (fun b blk hn hb hB hf => eqv_trans (hA.ownerEq i x b blk hi hn hb hB hf) hx1a)
        · show allocOf s' i = if c.pocca then allocOf s j else allocOf s i
          have : allocOf s' i = some x1.alloc := by
            unfold allocOf; rw [getArr_of_arrs (o := some x1)]; rfl
            rw [h5]; exact hi1
          rw [this, allocOf_eq hx, allocOf_eq hy, ← hx1]
          cases c.pocca <;> rfl
      · intro s' ⟨h3, h4, h5⟩
        exact ⟨h1.armed h3, by rw [h5, h1.arrs, List.length_set], h4, by rw [h5]; exact hW1⟩
  · simp only [hkeep, Bool.false_eq_true, if_false, hfx7, if_true]
    have hij : i ≠ j := by
      intro e; subst e
      have : x = y := by rw [hx] at hy; exact Option.some.inj hy
      subst this
      apply hkeep
      simp [extsEq_refl, eqv_refl]
    apply Out.bind (clearArr_out (T := s.fuel ≠ none ∧ (Op.assignCopy i j).isSaMove = true) c hok.wf i x s hG.1 hi) _ (fun _ h => h)
    intro x1 s1 ⟨hx1, hI1, hnf1, harr1, hA1⟩
    generalize hx2 : (if c.pocca = true then { x1 with alloc := y.alloc } else x1) = x2
    have hx2n : x2.n = 0 := by rw [← hx2, hx1]; split <;> rfl
    apply Out.bind (setSlot_out i (some x2) s1) _ (fun _ h => h)
    intro _ s2 h2
    have hi1 : s1.arrs[i]? = some (some x1) := by rw [harr1]; exact List.getElem?_set_self hlti
    have harr2 : s2.arrs = s.arrs.set i (some x2) := by rw [h2.arrs, harr1, List.set_set]
    have hI2 : InvS c s2 := by
      show Inv c s2.blocks s2.arrs
      rw [h2.blocks, h2.arrs]
      exact Inv.set_nonowning hI1 hi1 (fun b => ownsB_empty b (by rw [hx1])) (fun z hz => by cases hz; exact hx2n)
    have hW2 : Wn s2.arrs := by
      rw [harr2]
      exact hG.2.set (fun z hz => by
        cases hz
        have he : x2.ext = emptyExts c.dim := by rw [← hx2, hx1]; split <;> rfl
        rw [hx2n, he, nElems_emptyExts hok.dim])
    have hi2 : s2.arrs[i]? = some (some x2) := by rw [harr2]; exact List.getElem?_set_self hlti
    have hj2 : s2.arrs[j]? = some (some y) := by rw [harr2, List.getElem?_set_ne hij]; exact hj
    apply Out.bind (readSrc_out (Q := fun _ => False) c j _ y s2 hI2 hj2 (Nat.le_refl _)) _ (fun _ h => h.elim)
    intro _ s3 h3; subst h3
    apply Out.mono (rebuild_out (T := s.fuel ≠ none ∧ (Op.assignCopy i j).isSaMove = true) c i x2 x2.alloc y.n true
      (fun p => { x2 with base := p, ext := y.ext, n := y.n }) s3 hI2 hW2 hi2 hx2n (by intro h; cases h)
      (fun _ => rfl) (fun _ => rfl) (fun _ => hG.2 j y hj) (fun _ => eqv_refl c _)) _ _ id
    · intro _ s' ⟨h4, h5, ⟨p, h6⟩, h7⟩
      refine ⟨h4, fun h => h5 (h2.fuel (hnf1 h)), by rw [h6, harr2]; simp, ?_, ?_⟩
      · intro haff hA
        apply h7
        show InvA c s3.blocks s3.arrs
        rw [h2.blocks, h2.arrs]
        exact InvA.set_nonowning (hA1 hA) (fun z hz => by cases hz; exact hx2n)
      · show allocOf s' i = if c.pocca then allocOf s j else allocOf s i
        have : allocOf s' i = some x2.alloc := by
          rw [allocOf_set_self h6 (by rw [harr2]; simp; exact hlti)]
        rw [this, allocOf_eq hx, allocOf_eq hy, ← hx2, hx1]
        cases c.pocca <;> rfl
    · intro s' ⟨h4, h5, h6⟩
      exact ⟨fun h => h4 (h2.fuel (hnf1 h)), by rw [h6, harr2]; simp, h5⟩

/-! ### release the old block, adopt a new one (any order of the two on the heap) -/

/-- the heap after `x`'s block has been returned -/
def RelB (c : Cfg) (B B1 : List Block) (x : Arr) : Prop :=
  (x.n = 0 ∧ B1 = B) ∨
  (∃ b blk blk', 0 < x.n ∧ x.base = some b ∧ B[b]? = some blk ∧ blk.freed = false ∧
      B1 = B.set b blk' ∧ blk'.freed = true ∧ FreedOK c blk' ∧ blk'.freedBy = x.alloc ∧ blk'.alloc = blk.alloc)

theorem Released.relB {c : Cfg} {s s' : St} {x : Arr} (h : Released c s s' x) : RelB c s.blocks s'.blocks x := h.2.2

theorem RelB.length {c : Cfg} {B B1 : List Block} {x : Arr} (h : RelB c B B1 x) : B1.length = B.length := by
  rcases h with ⟨_, hb⟩ | ⟨b, blk, blk', _, _, _, _, hB', _⟩
  · rw [hb]
  · rw [hB', List.length_set]

/-- releasing on a heap with one more block at the end is releasing underneath it -/
theorem RelB.of_append {c : Cfg} {B B1 : List Block} {nb : Block} {x : Arr} (hx : HasBlock c B x)
    (h : RelB c (B ++ [nb]) B1 x) : ∃ B0, RelB c B B0 x ∧ B1 = B0 ++ [nb] := by
  rcases h with ⟨hn, hb⟩ | ⟨b, blk, blk', hpos, hb, hB, hf, hB', r⟩
  · exact ⟨B, Or.inl ⟨hn, rfl⟩, hb⟩
  · obtain ⟨b2, blk2, hb2, hB2, _⟩ := hx hpos
    have hbb : b = b2 := by rw [hb] at hb2; simpa using hb2
    subst hbb
    have hlt : b < B.length := (List.getElem?_eq_some_iff.mp hB2).1
    rw [List.getElem?_append_left hlt] at hB
    exact ⟨B.set b blk', Or.inr ⟨b, blk, blk', hpos, hb, hB, hf, rfl, r⟩, by rw [hB', List.set_append_left _ _ hlt]⟩

/-- what adoption of a newly built block (or of nothing) does to a heap `B1` obtained from `B` -/
def NewB (c : Cfg) (a : AllocId) (B B1 B2 : List Block) (x' : Arr) : Prop :=
  (x'.n = 0 ∧ B2 = B1) ∨
  (∃ nb, 0 < x'.n ∧ x'.base = some B.length ∧ B2 = B1 ++ [nb] ∧ nb.freed = false ∧ nb.size = x'.n ∧ CellsOK c nb ∧
      nb.alloc = a)

theorem Inv.replace {c : Cfg} {a : AllocId} {B B1 B2 : List Block} {A : List (Option Arr)} {i : Nat} {x x' : Arr}
    (h : Inv c B A) (hi : A[i]? = some (some x)) (hr : RelB c B B1 x) (hnew : NewB c a B B1 B2 x') :
    Inv c B2 (A.set i (some x')) := by
  have hlt : i < A.length := (List.getElem?_eq_some_iff.mp hi).1
  have hlen := hr.length
  have h1 : Inv c B1 (A.set i (some { x with n := 0 })) := by
    rcases hr with ⟨hn, hb⟩ | ⟨b, blk, blk', hpos, hb, hB, hf, hB', hfr, hok, _, _⟩
    · rw [hb]; exact Inv.set_nonowning h hi (fun b => ownsB_empty b hn) (fun y hy => by cases hy; rfl)
    · rw [hB']; exact Inv.release h hi hpos hb hB hf hfr hok (fun y hy => by cases hy; rfl)
  have hi1 : (A.set i (some { x with n := 0 }))[i]? = some (some { x with n := 0 }) := List.getElem?_set_self hlt
  rcases hnew with ⟨hn, hb⟩ | ⟨nb, hpos, hbase, hb, hfr, hsz, hc, _⟩
  · rw [hb]
    have := Inv.set_nonowning h1 hi1 (fun b => ownsB_empty b rfl) (new := some x') (fun y hy => by cases hy; exact hn)
    rwa [List.set_set] at this
  · rw [hb]
    have := Inv.install h1 hi1 (fun b => ownsB_empty b rfl) hpos (by rw [hbase, hlen]) hfr hsz hc
    rwa [List.set_set] at this

theorem InvA.replace {c : Cfg} {a : AllocId} {B B1 B2 : List Block} {A : List (Option Arr)} {i : Nat} {x x' : Arr}
    (hA : InvA c B A) (h : Inv c B A) (hi : A[i]? = some (some x)) (hr : RelB c B B1 x) (hnew : NewB c a B B1 B2 x')
    (hal : c.eqv a x'.alloc = true) :
    InvA c B2 (A.set i (some x')) := by
  have hlt : i < A.length := (List.getElem?_eq_some_iff.mp hi).1
  have hlen := hr.length
  have hI1 : Inv c B1 (A.set i (some { x with n := 0 })) := by
    rcases hr with ⟨hn, hb⟩ | ⟨b, blk, blk', hpos, hb, hB, hf, hB', hfr, hok, _, _⟩
    · rw [hb]; exact Inv.set_nonowning h hi (fun b => ownsB_empty b hn) (fun y hy => by cases hy; rfl)
    · rw [hB']; exact Inv.release h hi hpos hb hB hf hfr hok (fun y hy => by cases hy; rfl)
  have h1 : InvA c B1 (A.set i (some { x with n := 0 })) := by
    rcases hr with ⟨hn, hb⟩ | ⟨b, blk, blk', hpos, hb, hB, hf, hB', hfr, hok, hby, hal⟩
    · rw [hb]; exact InvA.set_nonowning hA (fun y hy => by cases hy; rfl)
    · rw [hB']
      have heq : c.eqv blk'.freedBy blk'.alloc = true := by
        rw [hby, hal]; exact eqv_symm (hA.ownerEq i x b blk hi hpos hb hB hf)
      exact InvA.release hA h hi hpos hb hB hf hfr heq (fun y hy => by cases hy; rfl)
  rcases hnew with ⟨hn, hb⟩ | ⟨nb, hpos, hbase, hb, hfr, hsz, hc, hna⟩
  · rw [hb]
    have := InvA.set_nonowning h1 (i := i) (new := some x') (fun y hy => by cases hy; exact hn)
    rwa [List.set_set] at this
  · rw [hb]
    have := InvA.install h1 hI1 (i := i) (a := x') (by rw [hbase, hlen]) hfr (by rw [hna]; exact hal)
    rwa [List.set_set] at this

/-- `Built` seen as `NewB` -/
theorem Built.newB {c : Cfg} {a : AllocId} {n : Nat} {s s1 : St} {p : Option Nat} (hb : Built c a n s s1 p)
    {B1 : List Block} {x' : Arr} (hxb : x'.base = p) (hxn : x'.n = n) :
    (n = 0 ∧ s1.blocks = s.blocks ∧ NewB c a s.blocks B1 B1 x') ∨
    (∃ nb, s1.blocks = s.blocks ++ [nb] ∧ NewB c a s.blocks B1 (B1 ++ [nb]) x') := by
  obtain ⟨_, _, h⟩ := hb
  rcases h with ⟨hn, hp, hbl⟩ | ⟨blk, hn, hp, hbl, hfr, hsz, hc, hba⟩
  · exact Or.inl ⟨hn, hbl, Or.inl ⟨by omega, rfl⟩⟩
  · exact Or.inr ⟨blk, hbl, Or.inr ⟨blk, by omega, by rw [hxb, hp], rfl, hfr, by omega, hc, hba⟩⟩

theorem assignFill_spec (c : Cfg) (hok : c.OK) (i : Nat) (es : List Ext) (s : St) (hG : Good c s)
    (happ : (Op.assignFill i es).applicable c s = true) (hfx : (Op.assignFill i es).fixedIn c = true) :
    OpSpec c (.assignFill i es) s := by
  obtain ⟨x, hx⟩ := alive_iff.mp happ
  have hi := getArr_eq hx
  have hlti : i < s.arrs.length := (List.getElem?_eq_some_iff.mp hi).1
  have hfx7 : c.fx7 = true := hfx
  unfold OpSpec
  show Out (opAssignFill c i es s) _ _ _
  unfold opAssignFill
  rw [get_bind]
  simp only [hx]
  by_cases hsame : extsEq x.ext es = true
  · simp only [hsame, if_true]
    apply Out.mono (assignOwn_out (T := s.fuel ≠ none ∧ (Op.assignFill i es).isSaMove = true) c i x.n x s hG.1 hi (Nat.le_refl _)) _ _ id
    · intro _ s' ⟨h1, h2, h3, h4⟩
      refine ⟨⟨h1, by rw [h3]; exact hG.2⟩, h2, by rw [h3], fun _ => h4, ?_⟩
      show allocOf s' i = allocOf s i
      unfold allocOf getArr; rw [h3]
    · intro s' ⟨h1, h2, h3⟩
      exact ⟨h1, by rw [h3], h2, by rw [h3]; exact hG.2⟩
  · simp only [hsame, Bool.false_eq_true, if_false, hfx7, if_true]
    apply Out.bind (clearArr_out (T := s.fuel ≠ none ∧ (Op.assignFill i es).isSaMove = true) c hok.wf i x s hG.1 hi) _ (fun _ h => h)
    intro x1 s1 ⟨hx1, hI1, hnf1, harr1, hA1⟩
    have hi1 : s1.arrs[i]? = some (some x1) := by rw [harr1]; exact List.getElem?_set_self hlti
    have hW1 : Wn s1.arrs := by
      rw [harr1]; exact hG.2.set (fun z hz => by cases hz; rw [hx1]; show 0 = nElems (emptyExts c.dim); rw [nElems_emptyExts hok.dim])
    apply Out.mono (rebuild_out (T := s.fuel ≠ none ∧ (Op.assignFill i es).isSaMove = true) c i x1 x1.alloc (nElems es) true
      (fun p => { x1 with base := p, ext := reported es, n := nElems es }) s1 hI1 hW1 hi1 (by rw [hx1]) (by intro h; cases h)
      (fun _ => rfl) (fun _ => rfl) (fun _ => by show nElems es = nElems (reported es); rw [nElems_reported]) (fun _ => eqv_refl c _)) _ _ id
    · intro _ s' ⟨h4, h5, ⟨p, h6⟩, h7⟩
      refine ⟨h4, fun h => h5 (hnf1 h), by rw [h6, harr1]; simp, fun _ hA => h7 (hA1 hA), ?_⟩
      show allocOf s' i = allocOf s i
      rw [allocOf_set_self h6 (by rw [harr1]; simp; exact hlti), allocOf_eq hx, hx1]
    · intro s' ⟨h4, h5, h6⟩
      exact ⟨fun h => h4 (hnf1 h), by rw [h6, harr1]; simp, h5⟩

theorem reextentRv_spec (c : Cfg) (hok : c.OK) (i : Nat) (es : List Ext) (s : St) (hG : Good c s)
    (happ : (Op.reextentRv i es).applicable c s = true) (hfx : (Op.reextentRv i es).fixedIn c = true) :
    OpSpec c (.reextentRv i es) s := by
  obtain ⟨x, hx⟩ := alive_iff.mp happ
  have hi := getArr_eq hx
  have hlti : i < s.arrs.length := (List.getElem?_eq_some_iff.mp hi).1
  have hfx7 : c.fx7 = true := hfx
  unfold OpSpec
  show Out (opReextentRv c i es s) _ _ _
  unfold opReextentRv
  rw [get_bind]
  simp only [hx]
  by_cases hsame : extsEq x.ext es = true
  · simp only [hsame, if_true]
    apply Out.pure'
    exact ⟨hG, NF.refl s, rfl, fun _ h => h, rfl⟩
  · simp only [hsame, Bool.false_eq_true, if_false, hfx7, if_true]
    apply Out.bind (clearArr_out (T := s.fuel ≠ none ∧ (Op.reextentRv i es).isSaMove = true) c hok.wf i x s hG.1 hi) _ (fun _ h => h)
    intro x1 s1 ⟨hx1, hI1, hnf1, harr1, hA1⟩
    have hi1 : s1.arrs[i]? = some (some x1) := by rw [harr1]; exact List.getElem?_set_self hlti
    have hW1 : Wn s1.arrs := by
      rw [harr1]; exact hG.2.set (fun z hz => by cases hz; rw [hx1]; show 0 = nElems (emptyExts c.dim); rw [nElems_emptyExts hok.dim])
    apply Out.mono (rebuild_out (T := s.fuel ≠ none ∧ (Op.reextentRv i es).isSaMove = true) c i x1 x1.alloc (nElems es) (!c.trivCtor)
      (fun p => { x1 with base := p, ext := reported es, n := nElems es }) s1 hI1 hW1 hi1 (by rw [hx1]) (by intro h; simpa using h)
      (fun _ => rfl) (fun _ => rfl) (fun _ => by show nElems es = nElems (reported es); rw [nElems_reported]) (fun _ => eqv_refl c _)) _ _ id
    · intro _ s' ⟨h4, h5, ⟨p, h6⟩, h7⟩
      refine ⟨h4, fun h => h5 (hnf1 h), by rw [h6, harr1]; simp, fun _ hA => h7 (hA1 hA), ?_⟩
      show allocOf s' i = allocOf s i
      rw [allocOf_set_self h6 (by rw [harr1]; simp; exact hlti), allocOf_eq hx, hx1]
    · intro s' ⟨h4, h5, h6⟩
      exact ⟨fun h => h4 (hnf1 h), by rw [h6, harr1]; simp, h5⟩

/-- `operator=(array{…, allocator})`: a temporary is built, then move-assigned (its destructor finds it empty) -/
theorem assignFromTemp_out (c : Cfg) (hok : c.OK) (i : Nat) (x : Arr) (es : List Ext) (rowLen : Nat) (s : St) {T : Prop}
    (hG : Good c s) (hi : s.arrs[i]? = some (some x)) (hfx : c.fx6 = true) :
    Out (assignFromTemp c i x es rowLen s)
      (fun _ s' => Good c s' ∧ NF s s' ∧ s'.arrs.length = s.arrs.length ∧
        ((c.fx9 || c.pocma || c.iae) = true → InvAS c s → InvAS c s'))
      (fun s' => s.fuel ≠ none ∧ s'.arrs.length = s.arrs.length ∧ Good c s') T := by
  obtain ⟨hI, hW⟩ := hG
  have hlti : i < s.arrs.length := (List.getElem?_eq_some_iff.mp hi).1
  unfold assignFromTemp
  generalize hta : (if c.fx9 = true then x.alloc else defaultAlloc) = ta
  apply Out.bind (build_out (T := T) c ta (nElems es) true rowLen s hfx (by intro h; cases h))
  · intro p s1 hb
    refine Out.noexcept' (Q := fun _ => False) (T := False) ?_ (fun _ h => False.elim h) (fun h => False.elim h)
    unfold moveAssignFrom
    have hblk1 : HasBlock c s1.blocks x := by
      have h0 := HasBlock.of_inv hI hi
      obtain ⟨_, _, h⟩ := hb
      rcases h with ⟨_, _, hbl⟩ | ⟨blk, _, _, hbl, _⟩
      · rw [hbl]; exact h0
      · rw [hbl]; exact h0.append blk
    apply Out.bind (clearArr_raw (T := False) c hok.wf i x s1 hblk1) _ (fun _ h => h)
    intro x1 s2 ⟨hx1, hnf2, harr2, sr, hr, hbl2⟩
    apply Out.mono (setSlot_out i _ s2) _ (fun _ h => h) id
    intro _ s3 h3
    generalize hxf : ({ x1 with base := p, alloc := if c.pocma then ta else x1.alloc, ext := reported es, n := nElems es } : Arr) = xf
    have hxfb : xf.base = p := by rw [← hxf]
    have hxfn : xf.n = nElems es := by rw [← hxf]
    have harr3 : s3.arrs = s.arrs.set i (some xf) := by
      rw [h3.arrs, harr2, hb.2.1, List.set_set, hxf]
    have hbl3 : s3.blocks = sr.blocks := by rw [h3.blocks, hbl2]
    have hrel := hr.relB
    -- the heap: release underneath the new block, then adopt it
    have hfinal : ∃ B1, RelB c s.blocks B1 x ∧ NewB c ta s.blocks B1 s3.blocks xf := by
      rcases hb.newB (B1 := sr.blocks) hxfb hxfn with ⟨_, hs1, hnew⟩ | ⟨nb, hs1, _⟩
      · rw [hs1] at hrel
        exact ⟨sr.blocks, hrel, by rw [hbl3]; exact hnew⟩
      · rw [hs1] at hrel
        obtain ⟨B0, hr0, hB0⟩ := RelB.of_append (HasBlock.of_inv hI hi) hrel
        rcases hb.newB (B1 := B0) hxfb hxfn with ⟨hn0, hs1', _⟩ | ⟨nb', hs1', hnew⟩
        · rw [hs1'] at hs1
          have := congrArg List.length hs1
          simp at this
        · have : nb' = nb := by
            rw [hs1'] at hs1
            have := List.append_cancel_left hs1
            simpa using this
          subst this
          exact ⟨B0, hr0, by rw [hbl3, hB0]; exact hnew⟩
    obtain ⟨B1, hr0, hnew⟩ := hfinal
    refine ⟨⟨?_, ?_⟩, fun h => h3.fuel (hnf2 (hb.1 h)), by rw [harr3, List.length_set], ?_⟩
    · show Inv c s3.blocks s3.arrs
      rw [harr3]; exact Inv.replace hI hi hr0 hnew
    · rw [harr3]
      exact hW.set (fun z hz => by cases hz; rw [← hxf]; show nElems es = nElems (reported es); rw [nElems_reported])
    · intro hcase hA
      show InvA c s3.blocks s3.arrs
      by_cases hiae : c.iae = true
      · exact InvA.of_iae hiae _ _
      rw [harr3]
      apply InvA.replace hA hI hi hr0 hnew
      rw [← hxf]
      show c.eqv ta (if c.pocma then ta else x1.alloc) = true
      cases hp : c.pocma with
      | true => exact eqv_refl c ta
      | false =>
        have hf9 : c.fx9 = true := by
          simp only [Bool.or_eq_true] at hcase
          rcases hcase with (h | h) | h
          · exact h
          · rw [hp] at h; cases h
          · exact absurd h hiae
        simp only [Bool.false_eq_true, if_false]
        rw [← hta, hf9, hx1]; exact eqv_refl c _
  · intro s1 ⟨hfu, hcl⟩
    exact ⟨hfu, by rw [hcl.1], hcl.inv hI, by rw [hcl.1]; exact hW⟩

theorem assignView_spec (c : Cfg) (hok : c.OK) (i j : Nat) (sl : Option (Int × Int)) (lv : Bool) (s : St) (hG : Good c s)
    (happ : (Op.assignView i j sl lv).applicable c s = true) (hfx : (Op.assignView i j sl lv).fixedIn c = true) :
    OpSpec c (.assignView i j sl lv) s := by
  simp only [Op.applicable, Bool.and_eq_true, bne_iff_ne, ne_eq] at happ
  obtain ⟨⟨hij, hali⟩, hsl⟩ := happ
  obtain ⟨x, hx⟩ := alive_iff.mp hali
  cases hy : getArr s j with
  | none => rw [hy] at hsl; cases hsl
  | some y =>
    rw [hy] at hsl
    have hi := getArr_eq hx
    have hj := getArr_eq hy
    have hlti : i < s.arrs.length := (List.getElem?_eq_some_iff.mp hi).1
    have hle : nElems (viewExts y sl) ≤ y.n := by rw [hG.2 j y hj]; exact nElems_viewExts_le y sl hsl
    unfold OpSpec
    show Out (opAssignView c i j sl lv s) _ _ _
    unfold opAssignView
    rw [get_bind]
    simp only [hx, hy]
    by_cases hsame : extsEq x.ext (viewExts y sl) = true
    · simp only [hsame, if_true]
      apply Out.bind (readSrc_out (Q := fun _ => False) c j _ y s hG.1 hj hle) _ (fun _ h => h.elim)
      intro _ s1 h1; subst h1
      apply Out.mono (assignOwn_out (T := s1.fuel ≠ none ∧ (Op.assignView i j sl lv).isSaMove = true) c i x.n x s1 hG.1 hi (Nat.le_refl _)) _ _ id
      · intro _ s' ⟨h1, h2, h3, h4⟩
        exact ⟨⟨h1, by rw [h3]; exact hG.2⟩, h2, by rw [h3], fun _ => h4, trivial⟩
      · intro s' ⟨h1, h2, h3⟩
        exact ⟨h1, by rw [h3], h2, by rw [h3]; exact hG.2⟩
    · simp only [hsame, Bool.false_eq_true, if_false]
      by_cases hresh : (!lv && decide (x.n = nElems (viewExts y sl))) = true
      · simp only [hresh, if_true]
        have hxn : x.n = nElems (viewExts y sl) := by
          simp only [Bool.and_eq_true, decide_eq_true_eq] at hresh; exact hresh.2
        apply Out.bind (setSlot_out i (some { x with ext := reported (viewExts y sl) }) s) _ (fun _ h => h)
        intro _ s1 h1
        have hI1 : InvS c s1 := by
          show Inv c s1.blocks s1.arrs
          rw [h1.blocks, h1.arrs]; exact Inv.relabel hG.1 hi rfl rfl
        have hW1 : Wn s1.arrs := by
          rw [h1.arrs]
          exact hG.2.set (fun z hz => by cases hz; show x.n = nElems (reported (viewExts y sl)); rw [nElems_reported, hxn])
        have hi1 : s1.arrs[i]? = some (some { x with ext := reported (viewExts y sl) }) := by
          rw [h1.arrs]; exact List.getElem?_set_self hlti
        have hj1 : s1.arrs[j]? = some (some y) := by rw [h1.arrs, List.getElem?_set_ne hij]; exact hj
        apply Out.bind (readSrc_out (Q := fun _ => False) c j _ y s1 hI1 hj1 hle) _ (fun _ h => h.elim)
        intro _ s2 h2; subst h2
        apply Out.mono (assignOwn_out (T := s.fuel ≠ none ∧ (Op.assignView i j sl lv).isSaMove = true) c i x.n
          { x with ext := reported (viewExts y sl) } s2 hI1 hi1 (Nat.le_refl _)) _ _ id
        · intro _ s' ⟨h3, h4, h5, h6⟩
          refine ⟨⟨h3, by rw [h5]; exact hW1⟩, fun h => h4 (h1.fuel h), by rw [h5, h1.arrs, List.length_set], ?_, trivial⟩
          intro _ hA
          apply h6
          show InvA c s2.blocks s2.arrs
          rw [h1.blocks, h1.arrs]
          exact InvA.relabel hA hi rfl rfl (fun b blk hn hb hB hf => hA.ownerEq i x b blk hi hn hb hB hf)
        · intro s' ⟨h3, h4, h5⟩
          exact ⟨h1.armed h3, by rw [h5, h1.arrs, List.length_set], h4, by rw [h5]; exact hW1⟩
      · simp only [hresh, Bool.false_eq_true, if_false]
        apply Out.bind (readSrc_out (Q := fun _ => False) c j _ y s hG.1 hj hle) _ (fun _ h => h.elim)
        intro _ s1 h1; subst h1
        apply Out.mono (assignFromTemp_out (T := s1.fuel ≠ none ∧ (Op.assignView i j sl lv).isSaMove = true) c hok i x _ 0 s1 hG hi hfx) _
          (fun _ h => h) id
        intro _ s' ⟨h1, h2, h3, h4⟩
        refine ⟨h1, h2, h3, ?_, trivial⟩
        intro haff
        apply h4
        simp only [Op.affectedA, Bool.not_eq_false'] at haff
        exact haff

theorem assignRange_spec (c : Cfg) (hok : c.OK) (i j : Nat) (s : St) (hG : Good c s)
    (happ : (Op.assignRange i j).applicable c s = true) (hfx : (Op.assignRange i j).fixedIn c = true) :
    OpSpec c (.assignRange i j) s := by
  simp only [Op.applicable, Bool.and_eq_true, bne_iff_ne, ne_eq] at happ
  obtain ⟨⟨hij, hali⟩, halj⟩ := happ
  obtain ⟨x, hx⟩ := alive_iff.mp hali
  obtain ⟨y, hy⟩ := alive_iff.mp halj
  have hi := getArr_eq hx
  have hj := getArr_eq hy
  unfold OpSpec
  show Out (opAssignRange c i j s) _ _ _
  unfold opAssignRange
  rw [get_bind]
  simp only [hx, hy]
  by_cases hsame : rangeInPlace x y = true
  · simp only [hsame, if_true]
    apply Out.bind (readSrc_out (Q := fun _ => False) c j _ y s hG.1 hj (Nat.le_refl _)) _ (fun _ h => h.elim)
    intro _ s1 h1; subst h1
    apply Out.mono (assignOwn_out (T := s1.fuel ≠ none ∧ (Op.assignRange i j).isSaMove = true) c i x.n x s1 hG.1 hi (Nat.le_refl _)) _ _ id
    · intro _ s' ⟨h1, h2, h3, h4⟩
      exact ⟨⟨h1, by rw [h3]; exact hG.2⟩, h2, by rw [h3], fun _ => h4, trivial⟩
    · intro s' ⟨h1, h2, h3⟩
      exact ⟨h1, by rw [h3], h2, by rw [h3]; exact hG.2⟩
  · simp only [hsame, Bool.false_eq_true, if_false]
    apply Out.bind (readSrc_out (Q := fun _ => False) c j _ y s hG.1 hj (Nat.le_refl _)) _ (fun _ h => h.elim)
    intro _ s1 h1; subst h1
    apply Out.mono (assignFromTemp_out (T := s1.fuel ≠ none ∧ (Op.assignRange i j).isSaMove = true) c hok i x _ _ s1 hG hi hfx) _
      (fun _ h => h) id
    intro _ s' ⟨h1, h2, h3, h4⟩
    refine ⟨h1, h2, h3, ?_, trivial⟩
    intro haff
    apply h4
    simp only [Op.affectedA, Bool.not_eq_false'] at haff
    exact haff

/-! ### reextent -/

/-- reading the elements of an array that has its block (on a heap that need not satisfy the invariant) -/
theorem readHas_out (c : Cfg) (count : Nat) (x : Arr) (s : St) {Q : St → Prop} {T : Prop}
    (hblk : HasBlock c s.blocks x) (hle : count ≤ x.n) :
    Out (readCells c x.base count s) (fun _ s' => s' = s) Q T := by
  by_cases h0 : count = 0
  · subst h0; exact readCells_zero c x.base s
  · obtain ⟨b, blk, hb, hB, hf, hsz, hc⟩ := hblk (by omega)
    rw [hb]
    exact readCells_out c b count s hB hf (by omega) hc

theorem HasBlock.of_built {c : Cfg} {a : AllocId} {n : Nat} {s s1 : St} {p : Option Nat} {x : Arr}
    (h0 : HasBlock c s.blocks x) (hb : Built c a n s s1 p) : HasBlock c s1.blocks x := by
  obtain ⟨_, _, h⟩ := hb
  rcases h with ⟨_, _, hbl⟩ | ⟨blk, _, _, hbl, _⟩
  · rw [hbl]; exact h0
  · rw [hbl]; exact h0.append blk

/-- a block was built at the end of the heap, then the old block of `x` was returned underneath it: seen from the
    original heap this is a release followed by an adoption -/
theorem Built.then_released {c : Cfg} {a : AllocId} {n : Nat} {s s1 : St} {p : Option Nat} {x xf : Arr} {B3 : List Block}
    (hb : Built c a n s s1 p) (hx : HasBlock c s.blocks x) (hrel : RelB c s1.blocks B3 x)
    (hxfb : xf.base = p) (hxfn : xf.n = n) : ∃ B1, RelB c s.blocks B1 x ∧ NewB c a s.blocks B1 B3 xf := by
  rcases hb.newB (B1 := B3) hxfb hxfn with ⟨_, hs1, hnew⟩ | ⟨nb, hs1, _⟩
  · rw [hs1] at hrel
    exact ⟨B3, hrel, hnew⟩
  · rw [hs1] at hrel
    obtain ⟨B0, hr0, hB0⟩ := RelB.of_append hx hrel
    rcases hb.newB (B1 := B0) hxfb hxfn with ⟨hn0, hs1', _⟩ | ⟨nb', hs1', hnew⟩
    · rw [hs1'] at hs1
      have := congrArg List.length hs1
      simp at this
    · have : nb' = nb := by
        rw [hs1'] at hs1
        have := List.append_cancel_left hs1
        simpa using this
      subst this
      exact ⟨B0, hr0, by rw [hB0]; exact hnew⟩

/-- the copy of the preserved elements into the block just built by `buildSafe` (second step of `reextent` in the repaired
    code): on an exception the new block is destroyed and returned -/
theorem copyStage_out (c : Cfg) (hok : c.OK) (x : Arr) (n : Nat) (offs : List Nat) (s s1 : St) (p : Option Nat) {T : Prop}
    (hx : HasBlock c s.blocks x) (hb : Built c x.alloc n s s1 p) (hoffs : ∀ off ∈ offs, off < n) :
    Out (tryCatch (do readCells c x.base (if offs.isEmpty then 0 else x.n); assignAll c p offs)
                 (do destroyAll c p n; deallocate c x.alloc p n; rethrow) s1)
      (fun _ s' => Built c x.alloc n s s' p)
      (fun s' => s.fuel ≠ none ∧ Cleaned c x.alloc s s') T := by
  have hx1 := hx.of_built hb
  have hcount : (if offs.isEmpty then 0 else x.n) ≤ x.n := by split <;> omega
  obtain ⟨hnf1, harr1, hcase⟩ := hb
  rcases hcase with ⟨hn, hp, hbl⟩ | ⟨nb, hn, hp, hbl, hfr, hsz, hc, hba⟩
  · -- nothing was allocated: nothing to copy
    subst hp
    have hnil : offs = [] := by
      cases offs with
      | nil => rfl
      | cons o r => have := hoffs o (by simp); omega
    subst hnil
    apply Out.tryCatch' (P := fun _ s2 => s2 = s1) (Q := fun _ => False) _ (fun _ h => h.elim)
    · intro _ s2 h2; subst h2
      exact ⟨hnf1, harr1, Or.inl ⟨hn, rfl, hbl⟩⟩
    · apply Out.bind (readHas_out (Q := fun _ => False) c _ x s1 hx1 hcount) _ (fun _ h => h.elim)
      intro _ s2 h2; subst h2
      exact assignAll_nil c none s2
  · subst hp
    have hB1 : s1.blocks[s.blocks.length]? = some nb := by rw [hbl]; exact List.getElem?_concat_length
    apply Out.tryCatch' (P := fun _ s2 => ∃ cs', FrB s1 s2 (s.blocks ++ [{ nb with cells := cs' }]) ∧ CellsOK c { nb with cells := cs' })
      (Q := fun s2 => s1.fuel ≠ none ∧ ∃ cs', FrB s1 s2 (s.blocks ++ [{ nb with cells := cs' }]) ∧ CellsOK c { nb with cells := cs' })
    · apply Out.bind (readHas_out (Q := fun _ => False) c _ x s1 hx1 hcount) _ (fun _ h => h.elim)
      intro _ s2 h2; subst h2
      apply Out.mono (assignAll_out (T := T) c s.blocks.length offs s2 hB1 hfr (by intro o ho; rw [hsz]; exact hoffs o ho) hc) _ _ id
      · intro _ s3 ⟨cs', h3, hcs⟩
        refine ⟨cs', ?_, hcs⟩
        have : withCells s2.blocks s.blocks.length nb cs' = s.blocks ++ [{ nb with cells := cs' }] := by
          unfold withCells; rw [hbl]; exact set_last
        rw [← this]; exact h3
      · intro s3 ⟨hfu, cs', h3, hcs⟩
        refine ⟨hfu, cs', ?_, hcs⟩
        have : withCells s2.blocks s.blocks.length nb cs' = s.blocks ++ [{ nb with cells := cs' }] := by
          unfold withCells; rw [hbl]; exact set_last
        rw [← this]; exact h3
    · -- the handler: destroy the new elements, return the new block, rethrow
      intro s2 ⟨hfu, cs', h2, hcs⟩
      have hB2 : s2.blocks[s.blocks.length]? = some { nb with cells := cs' } := by
        rw [h2.blocks]; exact List.getElem?_concat_length
      show Out ((destroyAll c (some s.blocks.length) n >>= fun _ => deallocate c x.alloc (some s.blocks.length) n >>= fun _ => rethrow) s2) _ _ _
      apply Out.bind (destroyAll_out (Q := fun _ => False) c hok.wf s.blocks.length n s2 hn hB2 hfr hsz hcs) _ (fun _ h => h.elim)
      intro _ s3 ⟨cs2, h3, hlen2, hraw2⟩
      have hbl3 : s3.blocks = s.blocks ++ [{ nb with cells := cs2 }] := by
        rw [h3.blocks]; unfold withCells; rw [h2.blocks]; exact set_last
      have hB3 : s3.blocks[s.blocks.length]? = some { nb with cells := cs2 } := by
        rw [hbl3]; exact List.getElem?_concat_length
      apply Out.bind (deallocate_out (Q := fun _ => False) c x.alloc s.blocks.length n s3 hn hB3 hfr hsz hraw2) _ (fun _ h => h.elim)
      intro _ s4 h4
      apply rethrow_out
      refine ⟨fun e => hfu (hnf1 e), by rw [h4.arrs, h3.arrs, h2.arrs, harr1],
        Or.inr ⟨freedBlock { nb with cells := cs2 } x.alloc, ?_, rfl, ⟨by show cs2.length = nb.size; rw [hlen2, hsz], hraw2⟩, rfl, hba⟩⟩
      rw [h4.blocks, hbl3]; exact set_last
    · intro _ s2 ⟨cs', h2, hcs⟩
      exact ⟨fun e => h2.fuel (hnf1 e), by rw [h2.arrs, harr1],
        Or.inr ⟨{ nb with cells := cs' }, hn, rfl, h2.blocks, hfr, hsz, hcs, hba⟩⟩

theorem opReextent_spec (c : Cfg) (hok : c.OK) (i : Nat) (es : List Ext) (fill : Bool) (s : St) {T : Prop} (hG : Good c s)
    (hal : alive s i = true) (hfx8 : c.fx8 = true) :
    Out (opReextent c i es fill s)
      (fun _ s' => Good c s' ∧ NF s s' ∧ s'.arrs.length = s.arrs.length ∧ (InvAS c s → InvAS c s') ∧ allocOf s' i = allocOf s i)
      (fun s' => s.fuel ≠ none ∧ s'.arrs.length = s.arrs.length ∧ Good c s') T := by
  obtain ⟨x, hx⟩ := alive_iff.mp hal
  have hi := getArr_eq hx
  have hlti : i < s.arrs.length := (List.getElem?_eq_some_iff.mp hi).1
  unfold opReextent
  rw [get_bind]
  simp only [hx]
  by_cases hsame : extsEq x.ext es = true
  · simp only [hsame, if_true]
    apply Out.pure'
    exact ⟨hG, NF.refl s, rfl, fun h => h, rfl⟩
  · simp only [hsame, Bool.false_eq_true, if_false, hfx8, if_true]
    have hxb := HasBlock.of_inv hG.1 hi
    have hoffs : ∀ off ∈ (posIn (reported es) x.ext).filter (· < nElems es), off < nElems es := by
      intro off ho
      have := (List.mem_filter.mp ho).2
      simpa using this
    have hcleaned : ∀ (s' : St), s.fuel ≠ none ∧ Cleaned c x.alloc s s' →
        s.fuel ≠ none ∧ s'.arrs.length = s.arrs.length ∧ Good c s' := by
      intro s1 ⟨hfu, hcl⟩
      exact ⟨hfu, by rw [hcl.1], hcl.inv hG.1, by rw [hcl.1]; exact hG.2⟩
    apply Out.bind (buildSafe_out (T := T) c x.alloc (nElems es) (fill || !c.trivCtor) s
      (by intro h; simp only [Bool.or_eq_false_iff, Bool.not_eq_false'] at h; exact h.2)) _ hcleaned
    intro p s0 hb0
    apply Out.bind (copyStage_out (T := T) c hok x (nElems es) _ s s0 p hxb hb0 hoffs) _ hcleaned
    intro _ s1 hb
    have hx1 := hxb.of_built hb
    show Out ((pure p >>= fun p => destroyAll c x.base x.n >>= fun _ => deallocate c x.alloc x.base x.n >>= fun _ =>
      setSlot i (some { x with base := p, ext := reported es, n := nElems es })) s1) _ _ _
    apply Out.bind (P := fun q s2 => q = p ∧ s2 = s1) (Q := fun _ => False) (Out.pure' ⟨rfl, rfl⟩) _ (fun _ h => h.elim)
    intro q s1' ⟨hq, hs1'⟩
    subst hq; subst hs1'
    -- release the old block, adopt the new one
    have hassoc : (destroyAll c x.base x.n >>= fun _ => deallocate c x.alloc x.base x.n >>= fun _ =>
        setSlot i (some { x with base := q, ext := reported es, n := nElems es })) s1'
        = ((do destroyAll c x.base x.n; deallocate c x.alloc x.base x.n : M Unit) >>= fun _ =>
        setSlot i (some { x with base := q, ext := reported es, n := nElems es })) s1' := by
      show M.bind _ _ s1' = M.bind (M.bind _ _) _ s1'
      unfold M.bind
      cases destroyAll c x.base x.n s1' <;> rfl
    rw [hassoc]
    apply Out.bind (release_raw (Q := fun _ => False) c hok.wf x s1' hx1) _ (fun _ h => h.elim)
    intro _ s2 hr
    apply Out.mono (setSlot_out i _ s2) _ (fun _ h => h) id
    intro _ s3 h3
    have harr3 : s3.arrs = s.arrs.set i (some { x with base := q, ext := reported es, n := nElems es }) := by
      rw [h3.arrs, hr.2.1, hb.2.1]
    obtain ⟨B1, hr0, hnew⟩ := hb.then_released (xf := { x with base := q, ext := reported es, n := nElems es }) hxb hr.relB rfl rfl
    refine ⟨⟨?_, ?_⟩, fun h => h3.fuel (hr.1 (hb.1 h)), by rw [harr3, List.length_set], ?_, ?_⟩
    · show Inv c s3.blocks s3.arrs
      rw [h3.blocks, harr3]; exact Inv.replace hG.1 hi hr0 hnew
    · rw [harr3]
      exact hG.2.set (fun z hz => by cases hz; show nElems es = nElems (reported es); rw [nElems_reported])
    · intro hA
      show InvA c s3.blocks s3.arrs
      rw [h3.blocks, harr3]
      exact InvA.replace hA hG.1 hi hr0 hnew (eqv_refl c _)
    · rw [allocOf_set_self harr3 hlti, allocOf_eq hx]

theorem reextent_spec (c : Cfg) (hok : c.OK) (i : Nat) (es : List Ext) (s : St) (hG : Good c s)
    (happ : (Op.reextent i es).applicable c s = true) (hfx : (Op.reextent i es).fixedIn c = true) :
    OpSpec c (.reextent i es) s := by
  unfold OpSpec
  show Out (opReextent c i es false s) _ _ _
  apply Out.mono (opReextent_spec (T := s.fuel ≠ none ∧ (Op.reextent i es).isSaMove = true) c hok i es false s hG happ hfx) _
    (fun _ h => h) id
  intro _ s' ⟨h1, h2, h3, h4, h5⟩
  exact ⟨h1, h2, h3, fun _ => h4, h5⟩

theorem reextentFill_spec (c : Cfg) (hok : c.OK) (i : Nat) (es : List Ext) (s : St) (hG : Good c s)
    (happ : (Op.reextentFill i es).applicable c s = true) (hfx : (Op.reextentFill i es).fixedIn c = true) :
    OpSpec c (.reextentFill i es) s := by
  unfold OpSpec
  show Out (opReextent c i es true s) _ _ _
  apply Out.mono (opReextent_spec (T := s.fuel ≠ none ∧ (Op.reextentFill i es).isSaMove = true) c hok i es true s hG happ hfx) _
    (fun _ h => h) id
  intro _ s' ⟨h1, h2, h3, h4, h5⟩
  exact ⟨h1, h2, h3, fun _ => h4, h5⟩

/-! ### move construction / move assignment between unequal allocators (fixes/F9.patch) -/

theorem Inv.of_relB {c : Cfg} {B B1 : List Block} {A : List (Option Arr)} {j : Nat} {y : Arr} {new : Option Arr}
    (h : Inv c B A) (hj : A[j]? = some (some y)) (hr : RelB c B B1 y) (hnew : ∀ z, new = some z → z.n = 0) :
    Inv c B1 (A.set j new) := by
  rcases hr with ⟨hn, hb⟩ | ⟨b, blk, blk', hpos, hb, hB, hf, hB', hfr, hok, _, _⟩
  · rw [hb]; exact Inv.set_nonowning h hj (fun b => ownsB_empty b hn) hnew
  · rw [hB']; exact Inv.release h hj hpos hb hB hf hfr hok hnew

theorem InvA.of_relB {c : Cfg} {B B1 : List Block} {A : List (Option Arr)} {j : Nat} {y : Arr} {new : Option Arr}
    (hA : InvA c B A) (h : Inv c B A) (hj : A[j]? = some (some y)) (hr : RelB c B B1 y) (hnew : ∀ z, new = some z → z.n = 0) :
    InvA c B1 (A.set j new) := by
  rcases hr with ⟨hn, hb⟩ | ⟨b, blk, blk', hpos, hb, hB, hf, hB', hfr, hok, hby, hal⟩
  · rw [hb]; exact InvA.set_nonowning hA hnew
  · rw [hB']
    have heq : c.eqv blk'.freedBy blk'.alloc = true := by
      rw [hby, hal]; exact eqv_symm (hA.ownerEq j y b blk hj hpos hb hB hf)
    exact InvA.release hA h hj hpos hb hB hf hfr heq hnew

/-- the move-assignment tail `clear(); adopt p` applied to a block that `build` / `buildSafe` has just produced on top of a
    good state (the temporary of `operator=(array{…})`, and of the element-wise move) -/
theorem adoptBuilt_out (c : Cfg) (hok : c.OK) (i : Nat) (x : Arr) (ta : AllocId) (ext : List Ext) (n : Nat) (s s1 : St)
    (p : Option Nat) {Q : St → Prop} {T : Prop} (hG : Good c s) (hi : s.arrs[i]? = some (some x)) (hb : Built c ta n s s1 p)
    (hext : n = nElems ext) :
    Out (noexcept (moveAssignFrom c i x ta p ext n) s1)
      (fun _ s' => Good c s' ∧ NF s s' ∧ s'.arrs.length = s.arrs.length ∧
        (c.eqv ta (if c.pocma then ta else x.alloc) = true → InvAS c s → InvAS c s') ∧
        allocOf s' i = some (if c.pocma then ta else x.alloc)) Q T := by
  obtain ⟨hI, hW⟩ := hG
  have hlti : i < s.arrs.length := (List.getElem?_eq_some_iff.mp hi).1
  refine Out.noexcept' (Q := fun _ => False) (T := False) ?_ (fun _ h => False.elim h) (fun h => False.elim h)
  unfold moveAssignFrom
  have hblk1 : HasBlock c s1.blocks x := (HasBlock.of_inv hI hi).of_built hb
  apply Out.bind (clearArr_raw (T := False) c hok.wf i x s1 hblk1) _ (fun _ h => h)
  intro x1 s2 ⟨hx1, hnf2, harr2, sr, hr, hbl2⟩
  apply Out.mono (setSlot_out i _ s2) _ (fun _ h => h) id
  intro _ s3 h3
  generalize hxf : ({ x1 with base := p, alloc := if c.pocma then ta else x1.alloc, ext := ext, n := n } : Arr) = xf
  have hxfb : xf.base = p := by rw [← hxf]
  have hxfn : xf.n = n := by rw [← hxf]
  have hxfa : xf.alloc = if c.pocma then ta else x.alloc := by rw [← hxf, hx1]
  have harr3 : s3.arrs = s.arrs.set i (some xf) := by
    rw [h3.arrs, harr2, hb.2.1, List.set_set, hxf]
  have hbl3 : s3.blocks = sr.blocks := by rw [h3.blocks, hbl2]
  obtain ⟨B1, hr0, hnew⟩ := hb.then_released (xf := xf) (HasBlock.of_inv hI hi) hr.relB hxfb hxfn
  refine ⟨⟨?_, ?_⟩, fun h => h3.fuel (hnf2 (hb.1 h)), by rw [harr3, List.length_set], ?_, ?_⟩
  · show Inv c s3.blocks s3.arrs
    rw [harr3, hbl3]; exact Inv.replace hI hi hr0 hnew
  · rw [harr3]
    exact hW.set (fun z hz => by cases hz; rw [← hxf]; exact hext)
  · intro heq hA
    show InvA c s3.blocks s3.arrs
    rw [harr3, hbl3]
    exact InvA.replace hA hI hi hr0 hnew (by rw [hxfa]; exact heq)
  · rw [allocOf_set_self harr3 hlti, hxfa]

/-- the element-wise move out of slot `j` into storage of allocator `a`: seen from a state `sm` in which `j` has already been
    cleared, it is a `buildSafe` -/
theorem moveElementwise_out (c : Cfg) (hok : c.OK) (j : Nat) (y : Arr) (a : AllocId) (s : St) {T : Prop} (hG : Good c s)
    (hj : s.arrs[j]? = some (some y)) :
    Out (moveElementwise c j y a s)
      (fun p s' => ∃ sm, Good c sm ∧ sm.fuel = s.fuel ∧ sm.blocks.length = s.blocks.length ∧
        sm.arrs = s.arrs.set j (some { y with ext := emptyExts c.dim, n := 0 }) ∧
        (InvAS c s → InvAS c sm) ∧ Built c a y.n sm s' p)
      (fun s' => s.fuel ≠ none ∧ Cleaned c a s s') T := by
  obtain ⟨hI, hW⟩ := hG
  unfold moveElementwise
  apply Out.bind (readSrc_out (Q := fun _ => False) c j y.n y s hI hj (Nat.le_refl _)) _ (fun _ h => h.elim)
  intro _ s0 h0; subst h0
  apply Out.bind (buildSafe_out (T := T) c a y.n true s0 (by intro h; cases h)) _ (fun _ h => h)
  intro p s1 hb
  have hblk1 : HasBlock c s1.blocks y := (HasBlock.of_inv hI hj).of_built hb
  apply Out.bind (clearArr_raw (Q := fun _ => False) c hok.wf j y s1 hblk1) _ (fun _ h => h.elim)
  intro y1 s2 ⟨hy1, hnf2, harr2, sr, hr, hbl2⟩
  apply Out.pure'
  -- the heap underneath the new block
  have hfinal : ∃ B1, RelB c s0.blocks B1 y ∧
      ((y.n = 0 ∧ p = none ∧ s2.blocks = B1) ∨
       (∃ nb, 0 < y.n ∧ p = some s0.blocks.length ∧ s2.blocks = B1 ++ [nb] ∧ nb.freed = false ∧ nb.size = y.n ∧ CellsOK c nb ∧ nb.alloc = a)) := by
    have hrel := hr.relB
    obtain ⟨_, _, hcase⟩ := hb
    rcases hcase with ⟨hn, hp, hbl⟩ | ⟨nb, hn, hp, hbl, r⟩
    · rw [hbl] at hrel
      exact ⟨sr.blocks, hrel, Or.inl ⟨hn, hp, hbl2⟩⟩
    · rw [hbl] at hrel
      obtain ⟨B0, hr0, hB0⟩ := RelB.of_append (HasBlock.of_inv hI hj) hrel
      exact ⟨B0, hr0, Or.inr ⟨nb, hn, hp, by rw [hbl2, hB0], r⟩⟩
  obtain ⟨B1, hr0, hcase⟩ := hfinal
  have hlen := hr0.length
  refine ⟨{ s0 with blocks := B1, arrs := s0.arrs.set j (some { y with ext := emptyExts c.dim, n := 0 }) }, ⟨?_, ?_⟩, rfl, hlen, rfl, ?_, ?_⟩
  · exact Inv.of_relB hI hj hr0 (fun z hz => by cases hz; rfl)
  · exact hW.set (fun z hz => by cases hz; show 0 = nElems (emptyExts c.dim); rw [nElems_emptyExts hok.dim])
  · intro hA
    exact InvA.of_relB hA hI hj hr0 (fun z hz => by cases hz; rfl)
  · refine ⟨fun h => hnf2 (hb.1 h), by rw [harr2, hb.2.1, hy1], ?_⟩
    rcases hcase with ⟨hn, hp, hbl⟩ | ⟨nb, hn, hp, hbl, r⟩
    · exact Or.inl ⟨hn, hp, hbl⟩
    · exact Or.inr ⟨nb, hn, by rw [hp, hlen], hbl, r⟩

/-- a state reached by `Cleaned` from a good state is good -/
theorem Cleaned.good {c : Cfg} {a : AllocId} {s s' : St} (h : Cleaned c a s s') (hG : Good c s) : Good c s' :=
  ⟨h.inv hG.1, by rw [h.1]; exact hG.2⟩

/-- move construction (plain and allocator-extended), both branches -/
theorem opCtorMove_out (c : Cfg) (hok : c.OK) (i j : Nat) (a : Option AllocId) (s : St) {T : Prop} (hG : Good c s)
    (hvac : vacant s i = true) (y : Arr) (hy : getArr s j = some y) :
    Out (opCtorMove c i j a s)
      (fun _ s' => Good c s' ∧ NF s s' ∧ s'.arrs.length = s.arrs.length ∧
        ((c.fx9a = true ∨ c.eqv (pickAlloc a y.alloc) y.alloc = true) → InvAS c s → InvAS c s') ∧
        allocOf s' i = some (pickAlloc a y.alloc))
      (fun s' => s.fuel ≠ none ∧ s'.arrs.length = s.arrs.length ∧ Good c s') T := by
  by_cases hcond : (c.fx9a && !c.eqv (pickAlloc a y.alloc) y.alloc) = true
  · -- element-wise
    obtain ⟨hlt, hi⟩ := vacant_iff.mp hvac
    have hj := getArr_eq hy
    have hij : i ≠ j := by intro e; subst e; rw [hi] at hj; cases hj
    unfold opCtorMove
    rw [get_bind]
    simp only [hy, hcond, if_true]
    generalize pickAlloc a y.alloc = al
    apply Out.bind (moveElementwise_out (T := T) c hok j y al s hG hj)
    · intro p s1 ⟨sm, hGm, hfm, hlm, harrm, hAm, hb⟩
      apply Out.mono (setSlot_out i _ s1) _ (fun _ h => h) id
      intro _ s2 h2
      have him : sm.arrs[i]? = some none := by rw [harrm, List.getElem?_set_ne (Ne.symm hij)]; exact hi
      have harr2 : s2.arrs = sm.arrs.set i (some ⟨al, p, y.ext, y.n⟩) := by rw [h2.arrs, hb.2.1]
      refine ⟨⟨?_, ?_⟩, fun h => h2.fuel (hb.1 (by rw [hfm]; exact h)), by rw [harr2, harrm]; simp, ?_, ?_⟩
      · show Inv c s2.blocks s2.arrs
        rw [h2.blocks, harr2]
        exact hb.install hGm.1 him ownsB_none rfl rfl
      · rw [harr2]
        exact hGm.2.set (fun z hz => by cases hz; exact hG.2 j y hj)
      · intro _ hA
        show InvA c s2.blocks s2.arrs
        rw [h2.blocks, harr2]
        exact hb.installA hGm.1 (hAm hA) rfl rfl (eqv_refl c al)
      · exact allocOf_set_self harr2 (by rw [harrm]; simp; exact hlt)
    · intro s1 ⟨hfu, hcl⟩
      exact ⟨hfu, by rw [hcl.1], hcl.good hG⟩
  · have hcond' : (c.fx9a && !c.eqv (pickAlloc a y.alloc) y.alloc) = false := by simpa using hcond
    apply Out.mono (opCtorMove_adopt (Q := fun _ => False) (T := T) c hok i j a s hG hvac y hy hcond') _ (fun _ h => h.elim) id
    intro _ s' ⟨h1, h2, h3, h4, h5⟩
    refine ⟨h1, h2, h3, ?_, h5⟩
    intro hcase
    apply h4
    rcases hcase with hf | he
    · rw [hf] at hcond'; simpa using hcond'
    · exact he

theorem ctorMove_spec (c : Cfg) (hok : c.OK) (i j : Nat) (s : St) (hG : Good c s)
    (happ : (Op.ctorMove i j).applicable c s = true) : OpSpec c (.ctorMove i j) s := by
  simp only [Op.applicable, Bool.and_eq_true] at happ
  obtain ⟨y, hy⟩ := alive_iff.mp happ.2
  unfold OpSpec
  show Out (opCtorMove c i j none s) _ _ _
  apply Out.mono (opCtorMove_out (T := s.fuel ≠ none ∧ (Op.ctorMove i j).isSaMove = true) c hok i j none s hG happ.1 y hy) _
    (fun _ h => h) id
  intro _ s' ⟨h1, h2, h3, h4, h5⟩
  refine ⟨h1, h2, h3, fun _ => h4 (Or.inr (eqv_refl c _)), ?_⟩
  show allocOf s' i = allocOf s j
  rw [h5, allocOf_eq hy]; rfl

theorem ctorMoveA_spec (c : Cfg) (hok : c.OK) (i j : Nat) (a : AllocId) (s : St) (hG : Good c s)
    (happ : (Op.ctorMoveA i j a).applicable c s = true) : OpSpec c (.ctorMoveA i j a) s := by
  simp only [Op.applicable, Bool.and_eq_true] at happ
  obtain ⟨y, hy⟩ := alive_iff.mp happ.2
  unfold OpSpec
  show Out (opCtorMove c i j (some a) s) _ _ _
  apply Out.mono (opCtorMove_out (T := s.fuel ≠ none ∧ (Op.ctorMoveA i j a).isSaMove = true) c hok i j (some a) s hG happ.1 y hy) _
    (fun _ h => h) id
  intro _ s' ⟨h1, h2, h3, h4, h5⟩
  refine ⟨h1, h2, h3, ?_, h5⟩
  intro haff
  apply h4
  simp only [Op.affectedA, Bool.not_eq_false', Bool.or_eq_true] at haff
  rcases haff with hiae | hf
  · exact Or.inr (by simp [Cfg.eqv, hiae])
  · exact Or.inl hf

/-- move assignment, both branches -/
theorem assignMove_spec (c : Cfg) (hok : c.OK) (i j : Nat) (s : St) (hG : Good c s)
    (happ : (Op.assignMove i j).applicable c s = true) : OpSpec c (.assignMove i j) s := by
  simp only [Op.applicable, Bool.and_eq_true] at happ
  obtain ⟨x, hx⟩ := alive_iff.mp happ.1
  obtain ⟨y, hy⟩ := alive_iff.mp happ.2
  have hi := getArr_eq hx
  have hj := getArr_eq hy
  unfold OpSpec
  by_cases hcond : (i ≠ j ∧ (c.fx9a && !c.pocma && !c.eqv x.alloc y.alloc) = true)
  · obtain ⟨hij, hc3⟩ := hcond
    have hpocma : c.pocma = false := by
      simp only [Bool.and_eq_true, Bool.not_eq_true'] at hc3; exact hc3.1.2
    show Out (opAssignMove c i j s) _ _ _
    unfold opAssignMove
    rw [get_bind]
    simp only [hx, hy, hij, if_false, hc3, if_true]
    apply Out.bind (moveElementwise_out (T := s.fuel ≠ none ∧ (Op.assignMove i j).isSaMove = true) c hok j y x.alloc s hG hj)
    · intro p s1 ⟨sm, hGm, hfm, hlm, harrm, hAm, hb⟩
      have him : sm.arrs[i]? = some (some x) := by rw [harrm, List.getElem?_set_ne (Ne.symm hij)]; exact hi
      apply Out.mono (adoptBuilt_out (Q := fun _ => False) (T := s.fuel ≠ none ∧ (Op.assignMove i j).isSaMove = true)
        c hok i x x.alloc y.ext y.n sm s1 p hGm him hb (hG.2 j y hj)) _ (fun _ h => h.elim) id
      intro _ s' ⟨h1, h2, h3, h4, h5⟩
      refine ⟨h1, fun h => h2 (by rw [hfm]; exact h), by rw [h3, harrm]; simp, ?_, ?_⟩
      · intro _ hA
        apply h4 _ (hAm hA)
        rw [hpocma]; exact eqv_refl c _
      · show allocOf s' i = if c.pocma then allocOf s j else allocOf s i
        rw [h5, hpocma, allocOf_eq hx]; rfl
    · intro s1 ⟨hfu, hcl⟩
      exact ⟨hfu, by rw [hcl.1], hcl.good hG⟩
  · have hcond' : i = j ∨ (c.fx9a && !c.pocma && !c.eqv x.alloc y.alloc) = false := by
      by_cases hij : i = j
      · exact Or.inl hij
      · right
        cases h : (c.fx9a && !c.pocma && !c.eqv x.alloc y.alloc) with
        | false => rfl
        | true => exact absurd ⟨hij, h⟩ hcond
    show Out (opAssignMove c i j s) _ _ _
    rcases hcond' with hij | hc3
    · subst hij
      unfold opAssignMove
      rw [get_bind]
      simp only [hx, if_true]
      apply Out.pure'
      refine ⟨hG, NF.refl s, rfl, fun _ h => h, ?_⟩
      show allocOf s i = if c.pocma then allocOf s i else allocOf s i
      cases c.pocma <;> rfl
    · apply Out.mono (assignMove_adopt (T := s.fuel ≠ none ∧ (Op.assignMove i j).isSaMove = true) c hok i j s hG x y hx hy hc3) _
        (fun _ h => h.elim) id
      intro _ s' ⟨h1, h2, h3, h4, h5⟩
      refine ⟨h1, h2, h3, ?_, h5⟩
      intro haff
      apply h4
      simp only [Op.affectedA, Bool.not_eq_false', Bool.or_eq_true] at haff
      rcases haff with (hp | hiae) | hf
      · exact Or.inl hp
      · exact Or.inr (by simp [Cfg.eqv, hiae])
      · rw [hf] at hc3
        cases hp : c.pocma with
        | true => exact Or.inl rfl
        | false =>
          rw [hp] at hc3
          right
          simpa using hc3

/-! ### static_array move construction (noexcept, but allocating) -/

theorem set_append_last {B : List Block} {nb nb' q : Block} :
    ((B ++ [nb]) ++ [q]).set B.length nb' = (B ++ [nb']) ++ [q] := by
  rw [List.set_append_left _ _ (by simp), set_last]

theorem allocate_zero (a : AllocId) (s : St) {Q : St → Prop} {T : Prop} :
    Out (allocate a 0 s) (fun p s' => p = none ∧ s' = s) Q T := by
  unfold allocate
  simp only [if_true]
  exact ⟨rfl, rfl⟩

theorem saMove_spec (c : Cfg) (hok : c.OK) (a : AllocId) (es : List Ext) (s : St) (hG : Good c s)
    (hfx : (Op.saMove a es).fixedIn c = true) : OpSpec c (.saMove a es) s := by
  have hfx6 : c.fx6 = true := hfx
  unfold OpSpec
  show Out (opSaMove c a es s) _ _ _
  unfold opSaMove
  generalize nElems es = n
  apply Out.bind (build_out (T := s.fuel ≠ none ∧ (Op.saMove a es).isSaMove = true) c a n true 0 s hfx6 (by intro h; cases h))
  · intro p s1 hb
    obtain ⟨hnf1, harr1, hcase⟩ := hb
    rcases hcase with ⟨hn0, hp, hbl⟩ | ⟨nb, hnpos, hp, hbl, hfr, hsz, hc, hba⟩
    · -- zero elements: nothing is allocated anywhere
      subst hn0; subst hp
      apply Out.bind (P := fun q s2 => q = none ∧ s2 = s1) (Q := fun _ => False) _ _ (fun _ h => h.elim)
      · refine Out.noexcept' (Q := fun _ => False) (T := False) ?_ (fun _ h => False.elim h) (fun h => False.elim h)
        apply Out.bind (allocate_zero (Q := fun _ => False) a s1) _ (fun _ h => h.elim)
        intro q s2 ⟨hq, h2⟩; subst hq; subst h2
        apply Out.bind (readCells_zero (Q := fun _ => False) c none s2) _ (fun _ h => h.elim)
        intro _ s3 h3; subst h3
        apply Out.bind (constructAll_zero (Q := fun _ => False) c none 0 s3) _ (fun _ h => h.elim)
        intro _ s4 h4; subst h4
        exact Out.pure' ⟨rfl, rfl⟩
      · intro q s2 ⟨hq, h2⟩; subst hq; subst h2
        apply Out.bind (destroyAll_zero (Q := fun _ => False) c none s2) _ (fun _ h => h.elim)
        intro _ s3 h3; subst h3
        apply Out.bind (deallocate_zero (Q := fun _ => False) c a none s3) _ (fun _ h => h.elim)
        intro _ s4 h4; subst h4
        apply Out.bind (destroyAll_zero (Q := fun _ => False) c none s4) _ (fun _ h => h.elim)
        intro _ s5 h5; subst h5
        apply Out.mono (deallocate_zero (Q := fun _ => False) c a none s5) _ (fun _ h => h.elim) id
        intro _ s6 h6; subst h6
        refine ⟨⟨?_, by rw [harr1]; exact hG.2⟩, hnf1, by rw [harr1], ?_, trivial⟩
        · show Inv c s6.blocks s6.arrs
          rw [hbl, harr1]; exact hG.1
        · intro _ hA
          show InvA c s6.blocks s6.arrs
          rw [hbl, harr1]; exact hA
    · -- n > 0: s holds block B.length; t allocates block B.length + 1 inside a noexcept function
      subst hp
      have hlen1 : s1.blocks.length = s.blocks.length + 1 := by rw [hbl]; simp
      apply Out.bind
        (P := fun q s3 => q = some s1.blocks.length ∧ NF s1 s3 ∧ s3.arrs = s1.arrs ∧
          ∃ qb, s3.blocks = s1.blocks ++ [qb] ∧ qb.freed = false ∧ qb.size = n ∧ CellsOK c qb ∧ qb.alloc = a)
        (Q := fun _ => False) _ _ (fun _ h => h.elim)
      · refine Out.noexcept' (Q := fun _ => s1.fuel ≠ none) (T := False) ?_
          (fun _ h => ⟨fun e => h (hnf1 e), rfl⟩) (fun h => False.elim h)
        apply Out.bind (allocate_out (T := False) a n s1) _ (fun _ h => h.2)
        intro q s2 hq
        rcases hq with ⟨h0, _, _⟩ | ⟨_, hq, h2⟩
        · omega
        subst hq
        have hB2 : s2.blocks[s.blocks.length]? = some nb := by
          rw [h2.blocks, hbl, List.getElem?_append_left (by simp)]; exact List.getElem?_concat_length
        apply Out.bind (readCells_out (Q := fun _ => s1.fuel ≠ none) c s.blocks.length n s2 hB2 hfr (by omega) hc) _ (fun _ h => h)
        intro _ s3 h3; subst h3
        apply Out.bind (constructAll_fresh (T := False) c a n 0 s3 s3 s1.blocks hnpos h2.blocks) _
          (fun _ h => h2.armed h.1)
        intro _ s4 ⟨cs', h4, hlen, hlive⟩
        apply Out.pure'
        exact ⟨rfl, fun e => h4.fuel (h2.fuel e), by rw [h4.arrs, h2.arrs],
          { freshBlock a n with cells := cs' }, h4.blocks, rfl, rfl, ⟨hlen, Or.inr hlive⟩, rfl⟩
      · intro q s3 ⟨hq, hnf3, harr3, qb, hbl3, hqfr, hqsz, hqc, hqa⟩
        subst hq
        -- ~t
        have hB3 : s3.blocks[s1.blocks.length]? = some qb := by rw [hbl3]; exact List.getElem?_concat_length
        apply Out.bind (destroyAll_out (Q := fun _ => False) c hok.wf s1.blocks.length n s3 hnpos hB3 hqfr hqsz hqc) _ (fun _ h => h.elim)
        intro _ s4 ⟨cs4, h4, hlen4, hraw4⟩
        have hbl4 : s4.blocks = s1.blocks ++ [{ qb with cells := cs4 }] := by
          rw [h4.blocks]; unfold withCells; rw [hbl3]; exact set_last
        have hB4 : s4.blocks[s1.blocks.length]? = some { qb with cells := cs4 } := by rw [hbl4]; exact List.getElem?_concat_length
        apply Out.bind (deallocate_out (Q := fun _ => False) c a s1.blocks.length n s4 hnpos hB4 hqfr hqsz hraw4) _ (fun _ h => h.elim)
        intro _ s5 h5
        have hbl5 : s5.blocks = (s.blocks ++ [nb]) ++ [freedBlock { qb with cells := cs4 } a] := by
          rw [h5.blocks, hbl4, set_last, hbl]
        -- ~s
        have hB5 : s5.blocks[s.blocks.length]? = some nb := by
          rw [hbl5, List.getElem?_append_left (by simp)]; exact List.getElem?_concat_length
        apply Out.bind (destroyAll_out (Q := fun _ => False) c hok.wf s.blocks.length n s5 hnpos hB5 hfr hsz hc) _ (fun _ h => h.elim)
        intro _ s6 ⟨cs6, h6, hlen6, hraw6⟩
        have hbl6 : s6.blocks = (s.blocks ++ [{ nb with cells := cs6 }]) ++ [freedBlock { qb with cells := cs4 } a] := by
          rw [h6.blocks]; unfold withCells; rw [hbl5]; exact set_append_last
        have hB6 : s6.blocks[s.blocks.length]? = some { nb with cells := cs6 } := by
          rw [hbl6, List.getElem?_append_left (by simp)]; exact List.getElem?_concat_length
        apply Out.mono (deallocate_out (Q := fun _ => False) c a s.blocks.length n s6 hnpos hB6 hfr hsz hraw6) _ (fun _ h => h.elim) id
        intro _ s7 h7
        have hbl7 : s7.blocks = (s.blocks ++ [freedBlock { nb with cells := cs6 } a]) ++ [freedBlock { qb with cells := cs4 } a] := by
          rw [h7.blocks, hbl6]; exact set_append_last
        have harr7 : s7.arrs = s.arrs := by rw [h7.arrs, h6.arrs, h5.arrs, h4.arrs, harr3, harr1]
        have hI1 : Inv c (s.blocks ++ [freedBlock { nb with cells := cs6 } a]) s.arrs :=
          Inv.append_freed hG.1 rfl ⟨by show cs6.length = nb.size; rw [hlen6, hsz], hraw6⟩
        refine ⟨⟨?_, by rw [harr7]; exact hG.2⟩, fun e => h7.fuel (h6.fuel (h5.fuel (h4.fuel (hnf3 (hnf1 e))))), by rw [harr7], ?_, trivial⟩
        · show Inv c s7.blocks s7.arrs
          rw [hbl7, harr7]
          exact Inv.append_freed hI1 rfl ⟨by show cs4.length = qb.size; rw [hlen4, hqsz], hraw4⟩
        · intro _ hA
          show InvA c s7.blocks s7.arrs
          rw [hbl7, harr7]
          have hA1 : InvA c (s.blocks ++ [freedBlock { nb with cells := cs6 } a]) s.arrs :=
            InvA.append_block hA hG.1 (fun _ => by show c.eqv a nb.alloc = true; rw [hba]; exact eqv_refl c a)
          exact InvA.append_block hA1 hI1 (fun _ => by show c.eqv a qb.alloc = true; rw [hqa]; exact eqv_refl c a)
  · intro s1 ⟨hfu, hcl⟩
    exact ⟨hfu, by rw [hcl.1], hcl.inv hG.1, by rw [hcl.1]; exact hG.2⟩

/-! ### every operation -/

/-- every operation whose repair is in the code, run from a good state in which it is applicable, with or without an
    armed fault, meets its specification -/
theorem run_spec (c : Cfg) (hok : c.OK) (op : Op) (s : St) (hG : Good c s) (happ : op.applicable c s = true)
    (hfx : op.fixedIn c = true) : OpSpec c op s := by
  cases op with
  | ctorDefault i a => exact opCtorDefault_spec c hok i a s hG happ
  | ctorExt i a es => exact ctorExt_spec c hok i a es s hG happ hfx
  | ctorFill i a es => exact ctorFill_spec c hok i a es s hG happ hfx
  | ctorCopy i j => exact ctorCopy_spec c hok i j s hG happ hfx
  | ctorCopyA i j a => exact ctorCopyA_spec c hok i j a s hG happ hfx
  | ctorView i j a sl => exact ctorView_spec c hok i j a sl s hG happ hfx
  | ctorRange i j a => exact ctorRange_spec c hok i j a s hG happ hfx
  | ctorMove i j => exact ctorMove_spec c hok i j s hG happ
  | ctorMoveA i j a => exact ctorMoveA_spec c hok i j a s hG happ
  | dtor i => exact dtor_spec c hok i s hG happ
  | clear i => exact clear_spec c hok i s hG happ
  | assignCopy i j => exact assignCopy_spec c hok i j s hG happ hfx
  | assignMove i j => exact assignMove_spec c hok i j s hG happ
  | swap i j => exact swap_spec c hok i j s hG happ
  | reextent i es => exact reextent_spec c hok i es s hG happ hfx
  | reextentFill i es => exact reextentFill_spec c hok i es s hG happ hfx
  | reextentRv i es => exact reextentRv_spec c hok i es s hG happ hfx
  | reshape i es => exact reshape_spec c hok i es s hG happ
  | assignFill i es => exact assignFill_spec c hok i es s hG happ hfx
  | assignView i j sl lv => exact assignView_spec c hok i j sl lv s hG happ hfx
  | assignRange i j => exact assignRange_spec c hok i j s hG happ hfx
  | viewAssign i j => exact viewAssign_spec c hok i j s hG happ
  | saMove a es => exact saMove_spec c hok a es s hG hfx

/-! ### histories -/

/-- every repair is in the code (the tree after fixes/F6, F7, F8) -/
def Cfg.Fixed (c : Cfg) : Prop := c.fx6 = true ∧ c.fx7 = true ∧ c.fx8 = true

theorem fixedIn_of_fixed {c : Cfg} (h : c.Fixed) (op : Op) : op.fixedIn c = true := by
  obtain ⟨h6, h7, h8⟩ := h
  cases op <;> simp [Op.fixedIn, h6, h7, h8]

/-- one operation of a history: operations the caller may not perform in the current state are skipped (the harness does
    the same); an exception reaches the caller and the history goes on; std::terminate and undefined behaviour end it -/
def stepSt (c : Cfg) (s : St) (op : Op) : Option St :=
  if op.applicable c s = true then
    match op.run c s with
    | .ok _ s' => some s'
    | .threw s' => some s'
    | .term _ => none
    | .ub _ => none
  else some s

def runHist (c : Cfg) : List Op → St → Option St
  | [], s => some s
  | op :: ops, s =>
    match stepSt c s op with
    | some s' => runHist c ops s'
    | none => none

/-- the empty pool of `p` slots over the empty heap -/
def initSt (p : Nat) (fuel : Option Nat := none) : St := { arrs := List.replicate p none, fuel := fuel }

theorem good_init (c : Cfg) (p : Nat) (fuel : Option Nat) : Good c (initSt p fuel) := by
  refine ⟨Inv.init c p, ?_⟩
  intro i a hi
  simp only [initSt] at hi
  rw [List.getElem?_replicate] at hi
  split at hi <;> simp at hi

end Ledger
end Multi
