/-
  MultiProofs.OwnScatter — the element-wise copy through two address lists (`Heap.copyAddrs`, what `Own.copyElems` /
  `Own.assignElems` execute) as a map on cells: with pairwise distinct destination addresses, every destination cell gets the
  cell of its source address and every other cell of the destination block is unchanged.  Helper lemmas for C04 / C06.
-/
import MultiProofs.OwnView

namespace Multi
namespace Own
variable {α β : Type}

/-- set several positions of a list, in order -/
def setMany (cs : List β) : List (Nat × β) → List β
  | [] => cs
  | pv :: ps => setMany (cs.set pv.1 pv.2) ps

@[simp] theorem length_setMany (ps : List (Nat × β)) : ∀ cs : List β, (setMany cs ps).length = cs.length := by
  induction ps with
  | nil => intro cs; rfl
  | cons pv ps ih => intro cs; simp [setMany, ih]

theorem getElem?_setMany_not_mem (ps : List (Nat × β)) : ∀ (cs : List β) (j : Nat), j ∉ ps.map Prod.fst →
    (setMany cs ps)[j]? = cs[j]? := by
  induction ps with
  | nil => intro cs j _; rfl
  | cons pv ps ih =>
    intro cs j hj
    simp only [List.map_cons, List.mem_cons, not_or] at hj
    simp only [setMany]
    rw [ih _ j hj.2, List.getElem?_set_ne (fun e => hj.1 e.symm)]

theorem getElem?_setMany_mem (ps : List (Nat × β)) : ∀ (cs : List β) (p : Nat) (v : β), (ps.map Prod.fst).Nodup → (p, v) ∈ ps →
    p < cs.length → (setMany cs ps)[p]? = some v := by
  induction ps with
  | nil => intro cs p v _ h; simp at h
  | cons pv ps ih =>
    intro cs p v hnd hmem hp
    simp only [List.map_cons, List.nodup_cons] at hnd
    simp only [setMany]
    rcases List.mem_cons.mp hmem with h | h
    · subst h
      rw [getElem?_setMany_not_mem ps _ _ hnd.1]
      simp [hp]
    · exact ih _ p v hnd.2 h (by simp; exact hp)

/-- `copyAddrs` between two different live blocks with in-range addresses is a `setMany` on the destination block -/
theorem copyAddrs_live : ∀ (ss ds : List Int) (h : Heap α) (s d : Nat) (scs dcs : List (Cell α)),
    Live h s scs → Live h d dcs → s ≠ d → ss.length = ds.length →
    (∀ a ∈ ss, 0 ≤ a ∧ a.toNat < scs.length) → (∀ b ∈ ds, 0 ≤ b ∧ b.toNat < dcs.length) →
    h.copyAddrs (some s) ss (some d) ds
      = h.setBlock d (some (setMany dcs ((ds.zip ss).map fun ba => (ba.1.toNat, scs[ba.2.toNat]?.getD none)))) := by
  intro ss
  induction ss with
  | nil =>
    intro ds h s d scs dcs _ hd _ hlen _ _
    have : ds = [] := List.eq_nil_of_length_eq_zero (by simpa using hlen.symm)
    subst this
    simp [Heap.copyAddrs, setMany, Heap.setBlock_self hd]
  | cons a ss ih =>
    intro ds h s d scs dcs hs hd hne hlen hin hdin
    cases ds with
    | nil => simp at hlen
    | cons b ds =>
      simp only [List.length_cons, Nat.add_right_cancel_iff] at hlen
      obtain ⟨ha0, ha⟩ := hin a (List.mem_cons_self)
      obtain ⟨hb0, hb⟩ := hdin b (List.mem_cons_self)
      unfold Heap.copyAddrs
      simp only [List.zip_cons_cons, List.foldl_cons, List.map_cons, setMany]
      obtain ⟨q, hq⟩ := Int.eq_ofNat_of_zero_le hb0
      have hbq : b = Int.ofNat q := hq
      have hqn : b.toNat = q := by rw [hq]; simp
      rw [hbq, copyCell_live' hs hd ha0 ha (by omega)]
      have hd' := hd.setBlock_same (dcs.set q scs[a.toNat])
      have hs' : Live (h.setBlock d (some (dcs.set q scs[a.toNat]))) s scs := hs.setBlock_other (Ne.symm hne) _
      have := ih ds _ s d scs _ hs' hd' hne hlen (fun x hx => hin x (List.mem_cons_of_mem _ hx))
        (fun x hx => by have := hdin x (List.mem_cons_of_mem _ hx); simpa using this)
      unfold Heap.copyAddrs at this
      rw [this, Heap.setBlock_setBlock]
      congr 3
      simp [ha]

end Own
end Multi
