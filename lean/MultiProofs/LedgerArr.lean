/-
  MultiProofs.LedgerArr — array-level specifications: releasing the storage of an array of the pool (`destroy(); deallocate()`),
  `clear()`, the destructor, and building a new block (`allocate` in the mem-initialiser + construction in the body).
-/
import MultiProofs.LedgerMacro

namespace Multi
namespace Ledger

/-- the invariants on a state -/
def InvS (c : Cfg) (s : St) : Prop := Inv c s.blocks s.arrs
def InvAS (c : Cfg) (s : St) : Prop := InvA c s.blocks s.arrs

/-- without an armed fault the state after stays without one -/
def NF (s s' : St) : Prop := s.fuel = none → s'.fuel = none

theorem NF.refl (s : St) : NF s s := id
theorem NF.trans {s s1 s2 : St} (h1 : NF s s1) (h2 : NF s1 s2) : NF s s2 := fun h => h2 (h1 h)

/-- with `is_always_equal` every two allocators are equal: the allocator invariant is void -/
theorem InvA.of_iae {c : Cfg} (h : c.iae = true) (B : List Block) (A : List (Option Arr)) : InvA c B A where
  ownerEq := by intros; simp [Cfg.eqv, h]
  freedEq := by intros; simp [Cfg.eqv, h]

theorem getArr_eq {s : St} {i : Nat} {x : Arr} (h : getArr s i = some x) : s.arrs[i]? = some (some x) := by
  unfold getArr at h
  cases hs : s.arrs[i]? with
  | none => rw [hs] at h; simp at h
  | some o => rw [hs] at h; simp at h; rw [h]

theorem getArr_none {s : St} {i : Nat} (hlt : i < s.arrs.length) (h : getArr s i = none) : s.arrs[i]? = some none := by
  unfold getArr at h
  cases hs : s.arrs[i]? with
  | none => rw [List.getElem?_eq_none_iff] at hs; omega
  | some o => rw [hs] at h; simp at h; rw [h]

theorem ownsB_empty (b : Nat) {x : Arr} (h : x.n = 0) : ownsB b (some x) = false := by simp [ownsB, h]

/-- what `destroy(); deallocate()` of array `x` does to the heap -/
def Released (c : Cfg) (s s' : St) (x : Arr) : Prop :=
  NF s s' ∧ s'.arrs = s.arrs ∧
  ((x.n = 0 ∧ s'.blocks = s.blocks) ∨
   (∃ b blk blk', 0 < x.n ∧ x.base = some b ∧ s.blocks[b]? = some blk ∧ blk.freed = false ∧
      s'.blocks = s.blocks.set b blk' ∧ blk'.freed = true ∧ FreedOK c blk' ∧ blk'.freedBy = x.alloc ∧ blk'.alloc = blk.alloc))

/-- what the release needs to know: a non-empty array points to an outstanding block of its size whose cells are all alive -/
def HasBlock (c : Cfg) (B : List Block) (x : Arr) : Prop :=
  0 < x.n → ∃ b blk, x.base = some b ∧ B[b]? = some blk ∧ blk.freed = false ∧ blk.size = x.n ∧ CellsOK c blk

theorem HasBlock.of_inv {c : Cfg} {s : St} {i : Nat} {x : Arr} (hI : InvS c s) (hi : s.arrs[i]? = some (some x)) :
    HasBlock c s.blocks x := fun hn => hI.valid i x hi hn

theorem HasBlock.append {c : Cfg} {B : List Block} {x : Arr} (h : HasBlock c B x) (nb : Block) : HasBlock c (B ++ [nb]) x := by
  intro hn
  obtain ⟨b, blk, hb, hB, r⟩ := h hn
  have hlt : b < B.length := (List.getElem?_eq_some_iff.mp hB).1
  exact ⟨b, blk, hb, by rw [List.getElem?_append_left hlt]; exact hB, r⟩

/-- `destroy(); deallocate()` of an array that has its block: never throws, never undefined -/
theorem release_raw (c : Cfg) (hwf : c.WF) (x : Arr) (s : St) {Q : St → Prop} {T : Prop} (hblk : HasBlock c s.blocks x) :
    Out ((do destroyAll c x.base x.n; deallocate c x.alloc x.base x.n : M Unit) s) (fun _ s' => Released c s s' x) Q T := by
  by_cases hn : x.n = 0
  · rw [hn]
    apply Out.bind (destroyAll_zero c x.base s) _ (fun _ h => h)
    intro _ s1 h1; subst h1
    apply Out.mono (deallocate_zero c x.alloc x.base s1) _ (fun _ h => h) id
    intro _ s2 h2; subst h2
    exact ⟨NF.refl _, rfl, Or.inl ⟨hn, rfl⟩⟩
  · have hpos : 0 < x.n := by omega
    obtain ⟨b, blk, hb, hB, hf, hsz, hc⟩ := hblk hpos
    rw [hb]
    apply Out.bind (destroyAll_out c hwf b x.n s hpos hB hf hsz hc) _ (fun _ h => h)
    intro _ s1 ⟨cs', h1, hlen, hraw⟩
    have hB1 : s1.blocks[b]? = some { blk with cells := cs' } := by rw [h1.blocks]; exact withCells_get hB
    apply Out.mono (deallocate_out c x.alloc b x.n s1 hpos hB1 hf hsz hraw) _ (fun _ h => h) id
    intro _ s2 h2
    refine ⟨fun h => h2.fuel (h1.fuel h), by rw [h2.arrs, h1.arrs], Or.inr ⟨b, blk, freedBlock { blk with cells := cs' } x.alloc,
      hpos, hb, hB, hf, ?_, rfl, ⟨by show cs'.length = blk.size; rw [hlen, hsz], hraw⟩, rfl, rfl⟩⟩
    rw [h2.blocks, h1.blocks]
    unfold withCells
    rw [List.set_set]

/-- `destroy(); deallocate()` of a live array of the pool (under the invariant) -/
theorem release_out (c : Cfg) (hwf : c.WF) (i : Nat) (x : Arr) (s : St) {Q : St → Prop} {T : Prop}
    (hI : InvS c s) (hi : s.arrs[i]? = some (some x)) :
    Out ((do destroyAll c x.base x.n; deallocate c x.alloc x.base x.n : M Unit) s) (fun _ s' => Released c s s' x) Q T :=
  release_raw c hwf x s (HasBlock.of_inv hI hi)

/-- after the release the slot may be overwritten by anything that owns nothing -/
theorem Released.inv {c : Cfg} {s s' : St} {i : Nat} {x : Arr} {new : Option Arr} (hr : Released c s s' x) (hI : InvS c s)
    (hi : s.arrs[i]? = some (some x)) (hnew : ∀ y, new = some y → y.n = 0) : Inv c s'.blocks (s.arrs.set i new) := by
  obtain ⟨_, _, h⟩ := hr
  rcases h with ⟨hn, hb⟩ | ⟨b, blk, blk', hpos, hb, hB, hf, hB', hfr, hok, _, _⟩
  · rw [hb]
    exact Inv.set_nonowning hI hi (fun b => ownsB_empty b hn) hnew
  · rw [hB']
    exact Inv.release hI hi hpos hb hB hf hfr hok hnew

theorem Released.invA {c : Cfg} {s s' : St} {i : Nat} {x : Arr} {new : Option Arr} (hr : Released c s s' x) (hI : InvS c s)
    (hA : InvAS c s) (hi : s.arrs[i]? = some (some x)) (hnew : ∀ y, new = some y → y.n = 0) :
    InvA c s'.blocks (s.arrs.set i new) := by
  obtain ⟨_, _, h⟩ := hr
  rcases h with ⟨hn, hb⟩ | ⟨b, blk, blk', hpos, hb, hB, hf, hB', hfr, hok, hby, hal⟩
  · rw [hb]
    exact InvA.set_nonowning hA hnew
  · rw [hB']
    have heq : c.eqv blk'.freedBy blk'.alloc = true := by
      rw [hby, hal]
      have := hA.ownerEq i x b blk hi hpos hb hB hf
      unfold Cfg.eqv at this ⊢
      rcases Bool.or_eq_true _ _ |>.mp this with h | h
      · simp [h]
      · have : blk.alloc = x.alloc := by simpa using h
        simp [this]
    exact InvA.release hA hI hi hpos hb hB hf hfr heq hnew

theorem Released.length {c : Cfg} {s s' : St} {x : Arr} (hr : Released c s s' x) : s'.blocks.length = s.blocks.length := by
  obtain ⟨_, _, h⟩ := hr
  rcases h with ⟨_, hb⟩ | ⟨b, blk, blk', _, _, _, _, hB', _⟩
  · rw [hb]
  · rw [hB', List.length_set]

/-- `clear()` of an array that has its block, on a heap that need not satisfy the invariant (e.g. while a freshly built
    block is still held in a local variable) -/
theorem clearArr_raw (c : Cfg) (hwf : c.WF) (i : Nat) (x : Arr) (s : St) {Q : St → Prop} {T : Prop}
    (hblk : HasBlock c s.blocks x) :
    Out (clearArr c i x s)
      (fun x' s' => x' = { x with ext := emptyExts c.dim, n := 0 } ∧ NF s s' ∧ s'.arrs = s.arrs.set i (some x') ∧
        ∃ sr, Released c s sr x ∧ s'.blocks = sr.blocks) Q T := by
  unfold clearArr
  have hrel := release_raw (Q := Q) (T := T) c hwf x s hblk
  show Out ((destroyAll c x.base x.n >>= fun _ => deallocate c x.alloc x.base x.n >>= fun _ =>
      (setSlot i (some { x with ext := emptyExts c.dim, n := 0 }) >>= fun _ => pure { x with ext := emptyExts c.dim, n := 0 })) s) _ _ _
  have hassoc : (destroyAll c x.base x.n >>= fun _ => deallocate c x.alloc x.base x.n >>= fun _ =>
      (setSlot i (some { x with ext := emptyExts c.dim, n := 0 }) >>= fun _ => (pure { x with ext := emptyExts c.dim, n := 0 } : M Arr))) s
      = ((do destroyAll c x.base x.n; deallocate c x.alloc x.base x.n : M Unit) >>= fun _ =>
      (setSlot i (some { x with ext := emptyExts c.dim, n := 0 }) >>= fun _ => (pure { x with ext := emptyExts c.dim, n := 0 } : M Arr))) s := by
    show M.bind _ _ s = M.bind (M.bind _ _) _ s
    unfold M.bind
    cases destroyAll c x.base x.n s <;> rfl
  rw [hassoc]
  apply Out.bind hrel _ (fun _ h => h)
  intro _ s1 hr
  apply Out.bind (setSlot_out i _ s1) _ (fun _ h => h)
  intro _ s2 h2
  apply Out.pure'
  exact ⟨rfl, fun h => h2.fuel (hr.1 h), by rw [h2.arrs, hr.2.1], s1, hr, h2.blocks⟩

/-- `clear()` -/
theorem clearArr_out (c : Cfg) (hwf : c.WF) (i : Nat) (x : Arr) (s : St) {Q : St → Prop} {T : Prop}
    (hI : InvS c s) (hi : s.arrs[i]? = some (some x)) :
    Out (clearArr c i x s)
      (fun x' s' => x' = { x with ext := emptyExts c.dim, n := 0 } ∧ InvS c s' ∧ NF s s' ∧
        s'.arrs = s.arrs.set i (some x') ∧ (InvAS c s → InvAS c s')) Q T := by
  unfold clearArr
  have hrel := release_out (Q := Q) (T := T) c hwf i x s hI hi
  -- the first two steps are the release
  show Out ((destroyAll c x.base x.n >>= fun _ => deallocate c x.alloc x.base x.n >>= fun _ =>
      (setSlot i (some { x with ext := emptyExts c.dim, n := 0 }) >>= fun _ => pure { x with ext := emptyExts c.dim, n := 0 })) s) _ _ _
  have hassoc : (destroyAll c x.base x.n >>= fun _ => deallocate c x.alloc x.base x.n >>= fun _ =>
      (setSlot i (some { x with ext := emptyExts c.dim, n := 0 }) >>= fun _ => (pure { x with ext := emptyExts c.dim, n := 0 } : M Arr))) s
      = ((do destroyAll c x.base x.n; deallocate c x.alloc x.base x.n : M Unit) >>= fun _ =>
      (setSlot i (some { x with ext := emptyExts c.dim, n := 0 }) >>= fun _ => (pure { x with ext := emptyExts c.dim, n := 0 } : M Arr))) s := by
    show M.bind _ _ s = M.bind (M.bind _ _) _ s
    unfold M.bind
    cases destroyAll c x.base x.n s <;> rfl
  rw [hassoc]
  apply Out.bind hrel _ (fun _ h => h)
  intro _ s1 hr
  apply Out.bind (setSlot_out i _ s1) _ (fun _ h => h)
  intro _ s2 h2
  apply Out.pure'
  have harrs : s2.arrs = s.arrs.set i (some { x with ext := emptyExts c.dim, n := 0 }) := by rw [h2.arrs, hr.2.1]
  refine ⟨rfl, ?_, fun h => h2.fuel (hr.1 h), harrs, ?_⟩
  · show Inv c s2.blocks s2.arrs
    rw [h2.blocks, harrs]
    exact hr.inv hI hi (fun y hy => by cases hy; rfl)
  · intro hA
    show InvA c s2.blocks s2.arrs
    rw [h2.blocks, harrs]
    exact hr.invA hI hA hi (fun y hy => by cases hy; rfl)

/-- `~static_array()` -/
theorem dtorArr_out (c : Cfg) (hwf : c.WF) (i : Nat) (x : Arr) (s : St) {Q : St → Prop} {T : Prop}
    (hI : InvS c s) (hi : s.arrs[i]? = some (some x)) :
    Out (dtorArr c i x s)
      (fun _ s' => InvS c s' ∧ NF s s' ∧ s'.arrs = s.arrs.set i none ∧ (InvAS c s → InvAS c s')) Q T := by
  unfold dtorArr
  have hrel := release_out (Q := Q) (T := T) c hwf i x s hI hi
  show Out ((destroyAll c x.base x.n >>= fun _ => deallocate c x.alloc x.base x.n >>= fun _ => setSlot i none) s) _ _ _
  have hassoc : (destroyAll c x.base x.n >>= fun _ => deallocate c x.alloc x.base x.n >>= fun _ => setSlot i none) s
      = ((do destroyAll c x.base x.n; deallocate c x.alloc x.base x.n : M Unit) >>= fun _ => setSlot i none) s := by
    show M.bind _ _ s = M.bind (M.bind _ _) _ s
    unfold M.bind
    cases destroyAll c x.base x.n s <;> rfl
  rw [hassoc]
  apply Out.bind hrel _ (fun _ h => h)
  intro _ s1 hr
  apply Out.mono (setSlot_out i none s1) _ (fun _ h => h) id
  intro _ s2 h2
  have harrs : s2.arrs = s.arrs.set i none := by rw [h2.arrs, hr.2.1]
  refine ⟨?_, fun h => h2.fuel (hr.1 h), harrs, ?_⟩
  · show Inv c s2.blocks s2.arrs
    rw [h2.blocks, harrs]
    exact hr.inv hI hi (fun y hy => by cases hy)
  · intro hA
    show InvA c s2.blocks s2.arrs
    rw [h2.blocks, harrs]
    exact hr.invA hI hA hi (fun y hy => by cases hy)

/-- what `build` returns on success: nothing for `n = 0`, else a new outstanding block of `n` constructed cells at the end
    of the heap -/
def Built (c : Cfg) (a : AllocId) (n : Nat) (s s' : St) (p : Option Nat) : Prop :=
  NF s s' ∧ s'.arrs = s.arrs ∧
  ((n = 0 ∧ p = none ∧ s'.blocks = s.blocks) ∨
   (∃ blk, 0 < n ∧ p = some s.blocks.length ∧ s'.blocks = s.blocks ++ [blk] ∧ blk.freed = false ∧ blk.size = n ∧
      CellsOK c blk ∧ blk.alloc = a))

/-- what is left when `build` throws and cleans up after itself: the heap as before, possibly with one more returned block -/
def Cleaned (c : Cfg) (a : AllocId) (s s' : St) : Prop :=
  s'.arrs = s.arrs ∧
  (s'.blocks = s.blocks ∨ ∃ blk, s'.blocks = s.blocks ++ [blk] ∧ blk.freed = true ∧ FreedOK c blk ∧ blk.freedBy = a ∧ blk.alloc = a)

theorem Cleaned.inv {c : Cfg} {a : AllocId} {s s' : St} (h : Cleaned c a s s') (hI : InvS c s) : InvS c s' := by
  obtain ⟨ha, hb⟩ := h
  unfold InvS
  rw [ha]
  rcases hb with hb | ⟨blk, hb, hfr, hok, _, _⟩
  · rw [hb]; exact hI
  · rw [hb]; exact Inv.append_freed hI hfr hok

/-- `build`: allocate, then construct the elements.  With `construct = false` (sizing constructor of a trivially
    default-constructible type) the cells stay raw.  A throwing allocation changes nothing.  A throwing element
    construction rolls back the elements and — in the repaired code (`fx6`) — returns the block. -/
theorem buildSafe_zero (c : Cfg) (a : AllocId) (construct : Bool) (s : St) :
    buildSafe c a 0 construct s = .ok none s := by
  unfold buildSafe
  show M.bind (allocate a 0) _ s = _
  unfold M.bind
  have h0 : allocate a 0 s = .ok none s := by simp [allocate]
  rw [h0]
  have hc : ∀ r, constructAll c none 0 r = (pure () : M Unit) := by intro r; simp [constructAll]
  simp only [hc]
  cases construct <;> rfl

theorem set_last {B : List Block} {blk blk' : Block} : (B ++ [blk]).set B.length blk' = B ++ [blk'] := by
  apply List.ext_getElem?
  intro k
  rw [List.getElem?_set]
  by_cases hk : B.length = k
  · subst hk; simp
  · simp only [hk, if_false]
    by_cases hk2 : k < B.length
    · rw [List.getElem?_append_left hk2, List.getElem?_append_left hk2]
    · rw [List.getElem?_append_right (by omega), List.getElem?_append_right (by omega)]
      cases hd : k - B.length with
      | zero => omega
      | succ m => simp

/-- `buildSafe`: allocate, construct, and on a throwing construction return the block.  With `construct = false` (a
    trivially default-constructible element type that is not filled) the cells stay raw. -/
theorem buildSafe_out (c : Cfg) (a : AllocId) (n : Nat) (construct : Bool) (s : St) {T : Prop}
    (hct : construct = false → c.trivCtor = true) :
    Out (buildSafe c a n construct s)
      (fun p s' => Built c a n s s' p)
      (fun s' => s.fuel ≠ none ∧ Cleaned c a s s') T := by
  by_cases hn0 : n = 0
  · subst hn0
    rw [buildSafe_zero]
    exact ⟨NF.refl s, rfl, Or.inl ⟨rfl, rfl, rfl⟩⟩
  have hn : 0 < n := by omega
  unfold buildSafe
  apply Out.bind (allocate_out a n s)
  · intro p s1 hp
    rcases hp with ⟨hn', _, _⟩ | ⟨_, hpn, h1⟩
    · omega
    subst hpn
    cases construct with
    | false =>
      apply Out.pure'
      exact ⟨h1.fuel, h1.arrs, Or.inr ⟨freshBlock a n, hn, rfl, h1.blocks, rfl, rfl, ⟨by simp [freshBlock], Or.inl (hct rfl)⟩, rfl⟩⟩
    | true =>
      simp only [if_true]
      show Out ((tryCatch (constructAll c (some s.blocks.length) n)
        (do deallocate c a (some s.blocks.length) n; rethrow) >>= fun _ => pure (some s.blocks.length)) s1) _ _ _
      apply Out.bind (P := fun _ s2 => ∃ cs', FrB s1 s2 (s.blocks ++ [{ freshBlock a n with cells := cs' }]) ∧ cs'.length = n ∧ ∀ x ∈ cs', x = Cell.live)
        (Q := fun s2 => s.fuel ≠ none ∧ Cleaned c a s s2)
      · apply Out.tryCatch' (constructAll_fresh (T := T) c a n 0 s1 s1 s.blocks hn h1.blocks) _ (fun _ _ h => h)
        intro s2 ⟨hfu, cs', h2, hlen, hraw⟩
        have hB2 : s2.blocks[s.blocks.length]? = some { freshBlock a n with cells := cs' } := by
          rw [h2.blocks]; exact List.getElem?_concat_length
        show Out ((deallocate c a (some s.blocks.length) n >>= fun _ => rethrow) s2) _ _ _
        apply Out.bind (deallocate_out c a s.blocks.length n s2 hn hB2 rfl rfl (Or.inr (hraw rfl))) _ (fun _ h => h)
        intro _ s3 h3
        apply rethrow_out
        refine ⟨h1.armed hfu, by rw [h3.arrs, h2.arrs, h1.arrs], Or.inr ⟨freedBlock { freshBlock a n with cells := cs' } a, ?_, rfl,
          ⟨hlen, Or.inr (hraw rfl)⟩, rfl, rfl⟩⟩
        rw [h3.blocks, h2.blocks]
        exact set_last
      · intro _ s2 ⟨cs', h2, hlen, hlive⟩
        apply Out.pure'
        exact ⟨fun h => h2.fuel (h1.fuel h), by rw [h2.arrs, h1.arrs],
          Or.inr ⟨{ freshBlock a n with cells := cs' }, hn, rfl, h2.blocks, rfl, rfl, ⟨hlen, Or.inr hlive⟩, rfl⟩⟩
      · intro s2 h; exact h
  · intro s1 ⟨h1, hfu⟩
    exact ⟨hfu, h1.arrs, Or.inl h1.blocks⟩

/-- the constructors' `build` in the repaired code -/
theorem build_out (c : Cfg) (a : AllocId) (n : Nat) (construct : Bool) (rowLen : Nat) (s : St) {T : Prop}
    (hfx : c.fx6 = true) (hct : construct = false → c.trivCtor = true) :
    Out (build c a n construct rowLen s)
      (fun p s' => Built c a n s s' p)
      (fun s' => s.fuel ≠ none ∧ Cleaned c a s s') T := by
  unfold build
  rw [if_pos hfx]
  exact buildSafe_out c a n construct s hct

end Ledger
end Multi
