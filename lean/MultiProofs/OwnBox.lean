/-
  MultiProofs.OwnBox — `boxIndices` enumerates a box in row-major order: every tuple is inside the box and the k-th tuple
  has row-major rank k (helper lemmas for C04 / C06).
-/
import MultiProofs.OwnBasic

namespace Multi
namespace Own

theorem range_flatMap_mul (S M : Nat) :
    (List.range S).flatMap (fun k => (List.range M).map (fun j => k * M + j)) = List.range (S * M) := by
  induction S with
  | zero => simp
  | succ S ih =>
    rw [List.range_succ, List.flatMap_append, ih, Nat.succ_mul, List.range_add]
    simp

theorem boxIndices_inBox : ∀ (xs : List Ext), ExtsOK xs → ∀ idx ∈ boxIndices xs, InBox xs idx := by
  intro xs
  induction xs with
  | nil => intro _ idx h; simp [boxIndices] at h; subst h; trivial
  | cons e es ih =>
    intro hok idx h
    simp only [boxIndices, List.mem_flatMap, List.mem_range, List.mem_map] at h
    obtain ⟨k, hk, r, hr, rfl⟩ := h
    have := hok.head
    have hsz : (k : Int) < e.size := by omega
    simp only [Ext.size] at hsz
    have hk0 : (0 : Int) ≤ (k : Int) := Int.natCast_nonneg k
    refine ⟨⟨by simp only [Int.ofNat_eq_natCast]; omega, by simp only [Int.ofNat_eq_natCast]; omega⟩, ih hok.tail r hr⟩

theorem nElems_ne_zero_of_inBox : ∀ (ys : List Ext) (q : List Int), InBox ys q → nElems ys ≠ 0 := by
  intro ys
  induction ys with
  | nil => intro _ _; simp [nElems]
  | cons y ys ih =>
    intro q hq
    cases q with
    | nil => simp [InBox] at hq
    | cons t q' =>
      obtain ⟨⟨u1, u2⟩, u3⟩ := hq
      have := ih q' u3
      simp only [nElems, Ext.size]
      intro hmul
      rcases Int.mul_eq_zero.mp hmul with hm | hm
      · omega
      · exact this hm

/-- a tuple inside `es` means no extension collapses -/
theorem collapse_eq_of_inBox : ∀ (es : List Ext) (r : List Int), InBox es r → collapse es = es := by
  intro es
  induction es with
  | nil => intro _ _; rfl
  | cons e es ih =>
    intro r hr
    cases r with
    | nil => simp [InBox] at hr
    | cons t r' =>
      obtain ⟨⟨u1, u2⟩, u3⟩ := hr
      have h1 : e.size ≠ 0 := by simp [Ext.size]; omega
      have h2 := nElems_ne_zero_of_inBox es r' u3
      simp only [collapse, Int.mul_ne_zero h1 h2, if_false, ih r' u3]

/-- inside the box, the row-major rank is a position of the block -/
theorem rowMajor_bounds {es : List Ext} (hes : ExtsOK es) {r : List Int} (hr : InBox es r) :
    0 ≤ rowMajor es r ∧ rowMajor es r < nElems es := by
  obtain ⟨_, _, _, haddr⟩ := C01.root_denotes es hes
  have hce : InBox (collapse es) r := by rw [collapse_eq_of_inBox es r hr]; exact hr
  obtain ⟨_, b2, b3⟩ := haddr r hce
  exact ⟨b2, b3⟩

/-- rank of the tuples of a box, as natural numbers -/
theorem boxIndices_rank : ∀ (xs : List Ext), ExtsOK xs →
    (boxIndices xs).map (fun idx => (rowMajor xs idx).toNat) = List.range (nElems xs).toNat := by
  intro xs
  induction xs with
  | nil => intro _; simp [boxIndices, rowMajor, nElems]
  | cons e es ih =>
    intro hok
    have ih := ih hok.tail
    have h0 := hok.head
    have hM : 0 ≤ nElems es := nElems_nonneg hok.tail
    have hS : 0 ≤ e.size := by simp [Ext.size]; omega
    simp only [boxIndices, List.map_flatMap, List.map_map, nElems]
    have hprod : (e.size * nElems es).toNat = e.size.toNat * (nElems es).toNat := by
      obtain ⟨sz, hsz⟩ := Int.eq_ofNat_of_zero_le hS
      obtain ⟨m, hm⟩ := Int.eq_ofNat_of_zero_le hM
      rw [hsz, hm, ← Int.natCast_mul, Int.toNat_natCast, Int.toNat_natCast, Int.toNat_natCast]
    rw [hprod, ← range_flatMap_mul]
    congr 1
    funext k
    have : (List.map ((fun idx => (rowMajor (e :: es) idx).toNat) ∘ fun r => (e.first + Int.ofNat k) :: r) (boxIndices es))
        = (List.map (fun idx => (rowMajor es idx).toNat) (boxIndices es)).map (fun j => k * (nElems es).toNat + j) := by
      rw [List.map_map]
      apply List.map_congr_left
      intro r hr
      obtain ⟨b2, b3⟩ := rowMajor_bounds hok.tail (boxIndices_inBox es hok.tail r hr)
      simp only [Function.comp, rowMajor]
      have e1 : e.first + Int.ofNat k - e.first = (k : Int) := by simp only [Int.ofNat_eq_natCast]; omega
      rw [e1]
      obtain ⟨m, hm⟩ := Int.eq_ofNat_of_zero_le hM
      obtain ⟨q, hq⟩ := Int.eq_ofNat_of_zero_le b2
      rw [hm, hq, ← Int.natCast_mul, ← Int.natCast_add, Int.toNat_natCast, Int.toNat_natCast, Int.toNat_natCast]
    rw [this, ih]

end Own
end Multi
