/-
  C11 — All guarantees are independent of the pointer type.

  In the model a pointer is an `Int` offset.  What makes the guarantees independent of the pointer type is that
  every computation uses the pointer only through `p + n`, `p − q`, comparison and dereference — never its absolute
  value.  Formally: every view-forming operation, iterator and element range is *affine in the base*: translating
  the base by `k` translates every computed pointer by `k` and changes nothing else (`op_affine`, `addr_affine`,
  `iter_affine`, `elems_affine`).  Hence for any pointer type `P` with a lawful `add : P → Int → P`
  (`PtrLike`), interpreting offsets as `add p₀ n` commutes with every operation (`interp_commutes`), and by
  `C01.reachable_in_bounds` every dereferenced pointer is `add p₀ n` with `0 ≤ n < N`.

  What the theorem cannot see is whether the C++ templates really use only that algebra (no `reinterpret_cast`,
  `static_cast<T*>`, `to_address`): that is validated by running the same programs through a minimal offset
  pointer with no conversion to or from `T*` and through a bounds-tracking pointer (harness/common/fancy_ptr.hpp);
  all three streams must equal the same model stream.
-/
import MultiProofs.C19

namespace Multi
namespace C11

def shift (k : Int) (v : View) : View := ⟨v.base + k, v.lay⟩

theorem sliced_affine (v : View) (k a b : Int) : (shift k v).sliced a b = shift k (v.sliced a b) := by
  obtain ⟨base, lay⟩ := v
  match lay with
  | [] => rfl
  | [d] => simp [shift, View.sliced]; omega
  | d :: d1 :: l => simp [shift, View.sliced]; omega

theorem range_affine (v : View) (k a b : Int) : (shift k v).range a b = shift k (v.range a b) := by
  simp only [View.range]; exact sliced_affine v k a _

theorem index_affine (v : View) (k i : Int) : (shift k v).index i = shift k (v.index i) := by
  obtain ⟨base, lay⟩ := v
  cases lay with
  | nil => rfl
  | cons d sub => simp [shift, View.index]; omega

theorem paren_affine (args : List Arg) (v : View) (k : Int) : (shift k v).paren args = shift k (v.paren args) := by
  induction args generalizing v with
  | nil => rfl
  | cons a as ih =>
    cases a with
    | idx i => simp only [View.paren]; rw [index_affine, ih]
    | rng a b =>
      simp only [View.paren]
      rw [range_affine]
      have h2 : (shift k (v.range a b)).rotated = shift k (v.range a b).rotated := rfl
      rw [h2, ih]; rfl
    | all =>
      simp only [View.paren]
      have he : (shift k v).ext = v.ext := rfl
      rw [he, range_affine]
      have h2 : ∀ w : View, (shift k w).rotated = shift k w.rotated := fun _ => rfl
      rw [h2, ih]; rfl

/-- every view-forming operation is affine in the base pointer -/
theorem op_affine (op : Op) (v : View) (k : Int) : op.apply (shift k v) = shift k (op.apply v) := by
  cases op with
  | index i => exact index_affine v k i
  | sliced a b => exact sliced_affine v k a b
  | range a b => exact range_affine v k a b
  | strided s => obtain ⟨base, lay⟩ := v; cases lay <;> simp [Op.apply, shift, View.strided]
  | dropped n => obtain ⟨base, lay⟩ := v; cases lay <;> simp [Op.apply, shift, View.dropped]; omega
  | taked n => obtain ⟨base, lay⟩ := v; cases lay <;> simp [Op.apply, shift, View.taked]
  | rotated => rfl
  | unrotated => rfl
  | transposed => rfl
  | reversed => rfl
  | diagonal =>
    obtain ⟨base, lay⟩ := v
    match lay with
    | [] => rfl
    | [d] => rfl
    | d0 :: d1 :: sub =>
      simp only [Op.apply, View.diagonal, shift]
      have := paren_affine [Arg.rng 0 (min d0.size d1.size), Arg.rng 0 (min d0.size d1.size)] ⟨base, d0 :: d1 :: sub⟩ k
      simp only [shift] at this
      rw [this]
      cases hw : (View.paren ⟨base, d0 :: d1 :: sub⟩ [Arg.rng 0 (min d0.size d1.size), Arg.rng 0 (min d0.size d1.size)]).lay with
      | nil => simp
      | cons e0 l2 => cases l2 <;> simp
  | partitioned n => obtain ⟨base, lay⟩ := v; cases lay <;> rfl
  | chunked c => obtain ⟨base, lay⟩ := v; cases lay <;> rfl
  | flatted =>
    obtain ⟨base, lay⟩ := v
    match lay with
    | [] => rfl
    | [d] => rfl
    | d0 :: d1 :: sub => rfl
  | call args => exact paren_affine args v k

/-- element addresses are affine in the base -/
theorem addr_affine (v : View) (k : Int) (idx : List Int) : (shift k v).addr idx = v.addr idx + k := by
  rw [addr_eq, addr_eq]; simp only [shift]; omega

/-- `begin()/end()` iterators are affine in the base -/
theorem iter_affine (v : View) (k : Int) (n : Int) :
    ((shift k v).begin'.add n).ptr = (v.begin'.add n).ptr + k ∧ (shift k v).end'.ptr = v.end'.ptr + k ∧
    (shift k v).end'.diff (shift k v).begin' = v.end'.diff v.begin' := by
  cases hv : v.lay with
  | nil => simp [shift, View.begin', View.end', hv, ArrIt.add, ArrIt.diff]
  | cons d sub =>
    simp only [shift, View.begin', View.end', hv, ArrIt.add, ArrIt.diff]
    refine ⟨by omega, by omega, ?_⟩
    congr 1; omega

/-- the elements range and every position of its iterator are affine in the base -/
theorem elems_affine (v : View) (k : Int) (n : Int) :
    ElemRange.ofView (shift k v) = ⟨(ElemRange.ofView v).base + k, (ElemRange.ofView v).lay⟩ ∧
    (((ElemRange.ofView (shift k v)).mkIt n).map ElemIt.current = ((ElemRange.ofView v).mkIt n).map fun it => it.current + k) := by
  have h1 : ElemRange.ofView (shift k v) = ⟨(ElemRange.ofView v).base + k, (ElemRange.ofView v).lay⟩ := by
    simp [ofView_eq, shift]
  refine ⟨h1, ?_⟩
  rw [h1]
  simp only [ElemRange.mkIt]
  cases ElemRange.fromLinearG (ElemRange.ofView v).lay.exts n with
  | none => rfl
  | some ns => simp [ElemIt.current]; omega

/-- a pointer-like type: the only thing the library may do with a pointer besides dereferencing and comparing -/
class PtrLike (P : Type) where
  add : P → Int → P
  add_zero : ∀ p, add p 0 = p
  add_add : ∀ p a b, add (add p a) b = add p (a + b)

instance : PtrLike Int := ⟨fun p n => p + n, fun p => by omega, fun p a b => by omega⟩

/-- interpreting model offsets in an arbitrary pointer type commutes with every operation: the pointer held by
    `op(view based at p₀ + b)` is `p₀ + (base of op(view based at b))` -/
theorem interp_commutes {P : Type} [PtrLike P] (p0 : P) (op : Op) (v : View) (k : Int) :
    PtrLike.add p0 (op.apply (shift k v)).base = PtrLike.add (PtrLike.add p0 k) (op.apply v).base := by
  rw [op_affine, PtrLike.add_add]; simp only [shift]; congr 1; omega

end C11
end Multi
