/-
  C04 — Owning arrays have value semantics (copy, move, assign, swap, decay).

  Property theorems only.  Vocabulary (MultiProofs/OwnSpec, OwnStep): an array denotes `AbsArr` (extensions + elements in
  canonical order), a pool of named arrays denotes `Name → Option AbsArr` (`absPool`); `step` is the model's execution of one
  operation (MultiModel/Owning.lean, the transcription of array.hpp), `specStep` its documented effect on values; `Inv` is the
  pool invariant (every array valid; arrays with elements own pairwise different blocks; no UB, no failed assertion).

    * `abs_step`, `abs_history`      every operation / every history commutes with abstraction and keeps the invariant
    * `observed_is_abstract`          the abstraction is what the correspondence run prints (`q arr`)
    * `independent`, `copy_independent`  distinct arrays own distinct blocks; mutation of a copy is invisible to the original, and back
    * `move_leaves_empty_valid`       move construction / assignment: value transferred, same block (no element copied), source empty and valid
    * `self_assign_id`, `swap_exchanges`
    * `view_ctor_copies`              `array(view)` / `+view` / `view.decay()`: the view's extents and its elements in canonical order, in a fresh block
    * `abs_step_views`                `array(view)`, `A = view` (both overloads) for views of any layout: the documented value of the view
    * `abs_step_conv_stdswap`         assignment from another element type, `std::swap`
    * `abs_step_lists`                construction / assignment from nested initializer lists and iterator ranges, in place or not
-/
import MultiProofs.OwnStep
import MultiProofs.OwnObs
import MultiProofs.OwnView

namespace Multi
namespace C04
open Own
variable {α : Type}

/-- **refinement, one step.**  For every operation of `VOp` (default / extensions / fill / copy (also from another element type,
    unary `+`) / iterator-range construction / construction from a view, move construction, move and copy assignment over any prior
    state, assignment from a view (both overloads), from another element type, from nested lists / ranges, swap, `std::swap`, clear, reshape,
    assign(extensions, value), the three reextent overloads, element write, destruction) executed in its domain
    on a pool satisfying the invariant: the invariant holds afterwards and the value of the resulting pool is the documented one. -/
theorem abs_step (cfg : Cfg α) (p : Pool α) (hi : Inv p) (op : VOp α) (hd : op.InDom p) :
    Inv (step cfg p op) ∧ absPool (step cfg p op) = specStep cfg (absPool p) op :=
  step_refines cfg p hi op hd

/-- **refinement, histories**: after any sequence of such operations every array equals its reference-model value. -/
theorem abs_history (cfg : Cfg α) (ops : List (VOp α)) (p : Pool α) (hi : Inv p) (hd : InDomAll cfg p ops) :
    Inv (run cfg p ops) ∧ absPool (run cfg p ops) = specRun cfg (absPool p) ops := by
  induction ops generalizing p with
  | nil => exact ⟨hi, rfl⟩
  | cons op ops ih =>
    obtain ⟨h1, h2⟩ := hd
    obtain ⟨i1, a1⟩ := abs_step cfg p hi op h1
    have := ih (step cfg p op) i1 h2
    simp only [run, specRun]
    rw [← a1]
    exact this

/-- in particular from the empty pool -/
theorem abs_history_from_empty (cfg : Cfg α) (ops : List (VOp α)) (hd : InDomAll cfg Pool.empty ops) :
    Inv (run cfg Pool.empty ops) ∧ absPool (run cfg Pool.empty ops) = specRun cfg (fun _ => none) ops :=
  abs_history cfg ops Pool.empty Inv.empty hd

/-- the abstraction is the observation of the correspondence run: reading a valid array through its index tuples in canonical order
    gives the cells of `absArr`, so a history's printed `arr` lines are determined by `specRun` -/
theorem observed_is_abstract {h : Heap α} {a : Arr} (hv : Valid h a) : elems h a = (absArr h a).elems.map some :=
  elems_eq_cells hv

/-- **independence (storage)**: in every reachable pool two different arrays that have elements own different blocks -/
theorem independent (cfg : Cfg α) (ops : List (VOp α)) (hd : InDomAll cfg (Pool.empty : Pool α) ops) (j k : Nat) (a b : Arr)
    (hjk : j ≠ k) (ha : (run cfg Pool.empty ops).arrs j = some a) (hb : (run cfg Pool.empty ops).arrs k = some b)
    (hna : a.numElements ≠ 0) (hnb : b.numElements ≠ 0) : a.base ≠ b.base :=
  (abs_history_from_empty cfg ops hd).1.sep j k a b hjk ha hb hna hnb

/-- **independence (values)**: an element write to one array changes no other array's value -/
theorem write_invisible (cfg : Cfg α) (p : Pool α) (hi : Inv p) (k : Nat) (idx : List Int) (v : α)
    (hd : (VOp.write k idx v).InDom p) (j : Nat) (hjk : j ≠ k) :
    absPool (step cfg p (.write k idx v)) j = absPool p j := by
  rw [(abs_step cfg p hi _ hd).2]
  exact upd_other _ _ hjk

/-- a copy has the source's value and shares nothing with it: writing the copy leaves the original's value alone, and writing the
    original leaves the copy's value alone -/
theorem copy_independent (cfg : Cfg α) (p : Pool α) (hi : Inv p) (k src : Nat) (hd : (VOp.copy k src).InDom p) :
    let p1 := step cfg p (.copy k src)
    absPool p1 k = absPool p src ∧ absPool p1 src = absPool p src ∧
    (∀ idx v, (VOp.write k idx v).InDom p1 → absPool (step cfg p1 (.write k idx v)) src = absPool p src) ∧
    (∀ idx v, (VOp.write src idx v).InDom p1 → absPool (step cfg p1 (.write src idx v)) k = absPool p src) := by
  intro p1
  obtain ⟨i1, a1⟩ := abs_step cfg p hi _ hd
  obtain ⟨hk, b, hb⟩ := hd
  have hks : k ≠ src := fun e => by rw [e, hb] at hk; exact absurd hk (by simp)
  have e1 : absPool p1 k = absPool p src := by rw [a1]; simp [specStep]
  have e2 : absPool p1 src = absPool p src := by rw [a1]; simp [specStep, upd, Ne.symm hks]
  refine ⟨e1, e2, ?_, ?_⟩
  · intro idx v hdw
    rw [write_invisible cfg p1 i1 k idx v hdw src (Ne.symm hks)]; exact e2
  · intro idx v hdw
    rw [write_invisible cfg p1 i1 src idx v hdw k hks]; exact e1

/-- **move construction**: the value goes to the new array, which holds the very block the source held (no element is copied, the heap
    is untouched); the source is left empty and valid -/
theorem move_leaves_empty_valid (cfg : Cfg α) (p : Pool α) (hi : Inv p) (k src : Nat) (b : Arr) (hk : p.arrs k = none)
    (hb : p.arrs src = some b) (hD : b.dim ≠ 0) :
    let p1 := step cfg p (.move k src)
    Inv p1 ∧ p1.heap = p.heap ∧ absPool p1 k = absPool p src ∧ absPool p1 src = some (emptyVal b.dim) ∧
    (∃ a' b', p1.arrs k = some a' ∧ p1.arrs src = some b' ∧ a'.base = b.base ∧ Valid p1.heap b' ∧ IsEmpty b') := by
  intro p1
  have hd : (VOp.move k src).InDom p := ⟨hk, b, hb, hD⟩
  obtain ⟨i1, a1⟩ := abs_step cfg p hi _ hd
  have hks : k ≠ src := fun e => by rw [e, hb] at hk; exact absurd hk (by simp)
  have hp1 : p1 = (p.set src (some (moveCtor b).2)).set k (some (moveCtor b).1) := by
    show step cfg p (.move k src) = _; simp only [step, hb]
  have hsrc : p1.arrs src = some ⟨none, emptyLay b.dim⟩ := by rw [hp1]; simp [Pool.set_arrs, upd, Ne.symm hks, moveCtor]
  have hk1 : p1.arrs k = some (moveCtor b).1 := by rw [hp1]; simp [Pool.set_arrs, upd]
  refine ⟨i1, by rw [hp1]; rfl, ?_, ?_, ⟨_, _, hk1, hsrc, rfl, i1.valid src _ hsrc, ?_⟩⟩
  · rw [a1]; simp [specStep]
  · rw [a1]; simp [specStep, upd, Ne.symm hks, absPool_some hb, absArr, exts_length]
  · exact ⟨emptyLay_numElements hD, by
      intro e he
      have : (⟨none, emptyLay b.dim⟩ : Arr).exts = List.replicate b.dim ⟨0, 0⟩ := emptyLay_exts b.dim
      rw [this] at he; exact (List.mem_replicate.mp he).2⟩

/-- **move assignment** over any prior state of the target: same statement; the only heap effect is the release of the target's old block -/
theorem move_assign_leaves_empty_valid (cfg : Cfg α) (p : Pool α) (hi : Inv p) (k src : Nat) (a b : Arr) (hks : k ≠ src)
    (ha : p.arrs k = some a) (hb : p.arrs src = some b) (hDa : a.dim ≠ 0) (hDb : b.dim ≠ 0) :
    let p1 := step cfg p (.massign k src)
    Inv p1 ∧ p1.heap = deallocate p.heap a ∧ absPool p1 k = absPool p src ∧ absPool p1 src = some (emptyVal b.dim) ∧
    (∃ a' b', p1.arrs k = some a' ∧ p1.arrs src = some b' ∧ a'.base = b.base ∧ Valid p1.heap b' ∧ IsEmpty b') := by
  intro p1
  have hd : (VOp.massign k src).InDom p := ⟨a, b, ha, hb, hDa, hDb⟩
  obtain ⟨i1, a1⟩ := abs_step cfg p hi _ hd
  have hp1 : p1 = ((p.withHeap (deallocate p.heap a)).set src (some ⟨b.base, emptyLay b.dim⟩)).set k (some ⟨b.base, b.lay⟩) := by
    show step cfg p (.massign k src) = _; simp only [step, ha, hb, hks, if_false, moveAssign, clear]
  have hsrc : p1.arrs src = some ⟨b.base, emptyLay b.dim⟩ := by rw [hp1]; simp [Pool.set_arrs, upd, Ne.symm hks]
  have hk1 : p1.arrs k = some ⟨b.base, b.lay⟩ := by rw [hp1]; simp [Pool.set_arrs, upd]
  refine ⟨i1, by rw [hp1]; rfl, ?_, ?_, ⟨_, _, hk1, hsrc, rfl, i1.valid src _ hsrc, ?_⟩⟩
  · rw [a1]; simp [specStep, hks]
  · rw [a1]; simp [specStep, hks, upd, Ne.symm hks, absPool_some hb, absArr, exts_length]
  · exact ⟨emptyLay_numElements hDb, by
      intro e he
      have : (⟨b.base, emptyLay b.dim⟩ : Arr).exts = List.replicate b.dim ⟨0, 0⟩ := emptyLay_exts b.dim
      rw [this] at he; exact (List.mem_replicate.mp he).2⟩

/-- **self-assignment changes nothing**: neither the pool nor the heap -/
theorem self_assign_id (cfg : Cfg α) (p : Pool α) (k : Nat) (a : Arr) (ha : p.arrs k = some a) :
    step cfg p (.cassign k k) = p ∧ step cfg p (.massign k k) = p := by
  constructor <;> simp [step, ha]

/-- **swap exchanges values** (and blocks: nothing is copied, the heap is untouched) -/
theorem swap_exchanges (cfg : Cfg α) (p : Pool α) (hi : Inv p) (j k : Nat) (a b : Arr) (ha : p.arrs j = some a) (hb : p.arrs k = some b)
    (hjk : j ≠ k) :
    let p1 := step cfg p (.swap j k)
    Inv p1 ∧ p1.heap = p.heap ∧ absPool p1 j = absPool p k ∧ absPool p1 k = absPool p j ∧ p1.arrs j = some b ∧ p1.arrs k = some a := by
  intro p1
  have hd : (VOp.swap j k).InDom p := ⟨a, b, ha, hb⟩
  obtain ⟨i1, a1⟩ := abs_step cfg p hi _ hd
  have hp1 : p1 = (p.set j (some b)).set k (some a) := by
    show step cfg p (.swap j k) = _; simp only [step, ha, hb, Own.swap]
  refine ⟨i1, by rw [hp1]; rfl, ?_, ?_, by rw [hp1]; simp [Pool.set_arrs, upd, hjk], by rw [hp1]; simp [Pool.set_arrs, upd]⟩
  · rw [a1]; simp [specStep, upd, hjk]
  · rw [a1]; simp [specStep, upd]

/-- **construction from a view of any layout** (`array(view)`, `+view`, `view.decay()`; `view` any WF view with at least one element
    whose elements lie in the live block `s` — by C01 every view reachable from an array is such): the element-wise copy through
    `elements().begin()`, `++`, … visits the view in canonical order (`Own.elemAddrs_eq`), so the new array has the view's extensions
    and exactly the elements the view designates, in a block that did not exist before; every other block is untouched. -/
theorem view_ctor_copies (h : Heap α) (s : Nat) (scs : List (Cell α)) (hs : Live h s scs) (v : View) (hv : C02.NonEmpty v)
    (hin : ∀ idx ∈ boxIndices v.exts, 0 ≤ v.addr idx ∧ (v.addr idx).toNat < scs.length) :
    let r := viewCtor h (some s) v
    Valid r.1 r.2 ∧ absArr r.1 r.2 = ⟨collapse v.exts, viewCells scs v⟩ ∧ r.1.ub = h.ub ∧ r.1.asrt = h.asrt ∧
    (∀ b cs, Live h b cs → Live r.1 b cs) ∧ (∀ b, r.2.base = some b → h.blocks.length ≤ b) := by
  intro r
  have ho := viewCtor_outcome h s scs hs v hv hin
  have hn : r.2.numElements ≠ 0 := by
    have hN := nElems_eq_prodSizes v.lay hv.wf
    have hp := prodSizes_pos hv.pos
    have hx : r.2.exts = collapse v.exts := congrArg AbsArr.exts ho.abs
    rw [← ho.valid.nElems_exts, hx, nElems_collapse]
    have : nElems v.exts = prodSizes (Layout.sizes v.lay) := hN
    omega
  refine ⟨ho.valid, ho.abs, ho.ub, ho.asrt, fun b cs hl => ho.frame b cs hl (fun hf => hf), ?_⟩
  intro b hb
  rcases ho.own hn b hb with hf | hf
  · exact False.elim hf
  · exact hf

/-- **operations whose source is a view of any layout**: `array(view)` / `+view` / `view.decay()` (`vctor`), `A = view` through
    `operator=(const_subarray const&)` (`vassign`) and through `operator=(Range&&)` with its reshape shortcut (`rassign`), the view being
    any chain `ops` of in-domain view-forming operations of C01 (index, sliced, range, strided, dropped, taked, rotated, unrotated,
    transposed, reversed, diagonal, partitioned, chunked, flatted, call syntax) on the array in slot `src`, over any prior state of the
    target (equal extensions: element-wise in place; equal element count: reshape, then in place; otherwise: temporary + move
    assignment) — README: the view must not alias the target (`k ≠ src`).  The target's value becomes the documented value of the view:
    the composed shape (collapsed) and the source's elements at the composed index map, in canonical order (`viewVal`); the source and
    every other array keep their values; the pool invariant (validity, pairwise distinct blocks) holds. -/
theorem abs_step_views (cfg : Cfg α) (p : Pool α) (hi : Inv p) (k src : Nat) (ops : List Op) :
    ((VOp.vctor k src ops).InDom p → Inv (step cfg p (.vctor k src ops)) ∧
      absPool (step cfg p (.vctor k src ops)) = upd (absPool p) k ((absPool p src).map fun x => viewVal x ops)) ∧
    ((VOp.vassign k src ops).InDom p → Inv (step cfg p (.vassign k src ops)) ∧
      absPool (step cfg p (.vassign k src ops)) = upd (absPool p) k ((absPool p src).map fun x => viewVal x ops)) ∧
    ((VOp.rassign k src ops).InDom p → Inv (step cfg p (.rassign k src ops)) ∧
      absPool (step cfg p (.rassign k src ops)) = upd (absPool p) k ((absPool p src).map fun x => viewVal x ops)) :=
  ⟨fun hd => step_refines cfg p hi _ hd, fun hd => step_refines cfg p hi _ hd, fun hd => step_refines cfg p hi _ hd⟩

/-- **assignment from an array of another element type** (same extensions: in place; same element count: reshape + in place; otherwise
    convert into a temporary and move-assign) and **`std::swap`** (move construction + two move assignments): the documented values -/
theorem abs_step_conv_stdswap (cfg : Cfg α) (p : Pool α) (hi : Inv p) (j k : Nat) :
    ((VOp.convassign k j).InDom p → Inv (step cfg p (.convassign k j)) ∧
      absPool (step cfg p (.convassign k j)) = upd (absPool p) k (absPool p j)) ∧
    ((VOp.stdswap j k).InDom p → Inv (step cfg p (.stdswap j k)) ∧
      absPool (step cfg p (.stdswap j k)) = upd (upd (absPool p) j (absPool p k)) k (absPool p j)) :=
  ⟨fun hd => step_refines cfg p hi _ hd, fun hd => step_refines cfg p hi _ hd⟩

/-- **construction and assignment from nested initializer lists / iterator ranges** (`array A{…}`, `A = {…}`, `A.assign(first, last)`)
    with `count` sub-arrays of extensions `inner` and the values `vals`, over any prior state: exactly the requested contents.  With the
    same number of rows and the same inner extensions the assignment happens in place, row by row (`ref::assign(first)`), and the array
    keeps its block and its extensions (index bases); otherwise the array is rebuilt from the range (temporary + move assignment) and
    gets the zero-based extensions of the range; the empty initializer list clears (`listVal`). -/
theorem abs_step_lists (cfg : Cfg α) (p : Pool α) (hi : Inv p) (k : Nat) (count : Int) (inner : List Ext) (vals : List α) :
    ((VOp.il k count inner vals).InDom p → Inv (step cfg p (.il k count inner vals)) ∧
      absPool (step cfg p (.il k count inner vals)) = upd (absPool p) k (some ⟨collapse (rangeExts count inner), vals.map some⟩)) ∧
    ((VOp.assignr k count inner vals).InDom p → Inv (step cfg p (.assignr k count inner vals)) ∧
      absPool (step cfg p (.assignr k count inner vals)) = upd (absPool p) k ((absPool p k).map fun x => listVal x count inner vals)) ∧
    ((VOp.ilassign k count inner vals).InDom p → Inv (step cfg p (.ilassign k count inner vals)) ∧
      absPool (step cfg p (.ilassign k count inner vals)) =
        upd (absPool p) k ((absPool p k).map fun x => if count = 0 then emptyVal x.exts.length else listVal x count inner vals)) :=
  ⟨fun hd => step_refines cfg p hi _ hd, fun hd => step_refines cfg p hi _ hd, fun hd => step_refines cfg p hi _ hd⟩

/-! ### the hypotheses are satisfiable (non-vacuity) -/

/-- a concrete history: `A(2×3, 7)`; `B = copy of A`; `B[1][2] = 9`; `C = move(B)`; `A.swap(C)` — in domain, and the values are the expected ones -/
example :
    let cfg : Cfg Int := ⟨true, 0⟩
    let ops : List (VOp Int) := [.fill 0 [⟨0, 2⟩, ⟨0, 3⟩] 7, .copy 1 0, .write 1 [1, 2] 9, .move 2 1, .swap 0 2]
    (specRun cfg (fun _ => none) ops 0).map (·.elems) = some [some 7, some 7, some 7, some 7, some 7, some 9] ∧
    (specRun cfg (fun _ => none) ops 2).map (·.elems) = some (List.replicate 6 (some 7)) ∧
    (specRun cfg (fun _ => none) ops 1).map (·.exts) = some [⟨0, 0⟩, ⟨0, 0⟩] := by
  decide

/-- views: `A = [[1,2,3],[4,5,6]]`; `B(A.transposed())`; `C(A(all, {1,3}))`; `B = A.rotated()[1]`-like chains — documented values -/
example :
    let cfg : Cfg Int := ⟨true, 0⟩
    let ops : List (VOp Int) := [.range 0 2 [⟨0, 3⟩] [1, 2, 3, 4, 5, 6], .vctor 1 0 [.transposed], .vctor 2 0 [.call [.all, .rng 1 3]],
      .vctor 3 0 [.index 1], .rassign 3 0 [.transposed, .index 2]]
    (specRun cfg (fun _ => none) ops 1).map (·.exts) = some [⟨0, 3⟩, ⟨0, 2⟩] ∧
    (specRun cfg (fun _ => none) ops 1).map (·.elems) = some [some 1, some 4, some 2, some 5, some 3, some 6] ∧
    (specRun cfg (fun _ => none) ops 2).map (·.elems) = some [some 2, some 3, some 5, some 6] ∧
    (specRun cfg (fun _ => none) ops 3).map (·.exts) = some [⟨0, 2⟩] ∧
    (specRun cfg (fun _ => none) ops 3).map (·.elems) = some [some 3, some 6] := by
  decide

/-- lists: a rebased 2×2 array assigned `{{1,2},{3,4}}` keeps its index bases (in place); assigned `{{1,2,3}}` it becomes 1×3 zero-based -/
example :
    let cfg : Cfg Int := ⟨true, 0⟩
    let r1 := specRun cfg (fun _ => none) [.fill 0 [⟨1, 3⟩, ⟨0, 2⟩] 7, .ilassign 0 2 [⟨0, 2⟩] [1, 2, 3, 4]] 0
    let r2 := specRun cfg (fun _ => none) [.fill 0 [⟨1, 3⟩, ⟨0, 2⟩] 7, .assignr 0 1 [⟨0, 3⟩] [1, 2, 3]] 0
    r1.map (·.exts) = some [⟨1, 3⟩, ⟨0, 2⟩] ∧ r1.map (·.elems) = some [some 1, some 2, some 3, some 4] ∧
    r2.map (·.exts) = some [⟨0, 1⟩, ⟨0, 3⟩] ∧ r2.map (·.elems) = some [some 1, some 2, some 3] := by
  decide

example : InDomAll (⟨true, 0⟩ : Cfg Int) Pool.empty [.fill 0 [⟨0, 2⟩, ⟨0, 3⟩] 7, .copy 1 0] := by
  refine ⟨⟨rfl, ?_⟩, ⟨rfl, ?_⟩, trivial⟩
  · intro e he; simp at he; rcases he with he | he <;> subst he <;> decide
  · exact ⟨_, rfl⟩

end C04
end Multi
