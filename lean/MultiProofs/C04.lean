/-
  C04 — Owning arrays have value semantics (copy, move, assign, swap, decay).
  (first version: the statements that need no heap reasoning; the refinement theorems follow)
-/
import MultiModel.Owning
import MultiProofs.C01

namespace Multi
namespace C04
open Own

/-- `swap` exchanges base and layout, hence values and storage -/
theorem swap_exchanges (a b : Arr) : Own.swap a b = (b, a) := rfl

end C04
end Multi
