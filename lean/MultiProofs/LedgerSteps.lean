/-
  MultiProofs.LedgerSteps — a small Hoare logic for the micro-step monad of MultiModel.Ledger and the specification of
  every micro-step: what it does to the heap when it succeeds, what it leaves behind when it throws, and that it never
  runs into undefined behaviour under its precondition.
-/
import MultiProofs.LedgerInv

namespace Multi
namespace Ledger

/-- outcome predicate: `okP` on normal return, `thP` when an exception propagates, `T` when std::terminate is called;
    undefined behaviour is never allowed -/
def Out {α : Type} (r : Res α) (okP : α → St → Prop) (thP : St → Prop) (T : Prop := False) : Prop :=
  match r with
  | .ok a s' => okP a s'
  | .threw s' => thP s'
  | .term _ => T
  | .ub _ => False

/-- `s'` has blocks `B'` and pool `A'`, and did not gain fuel: without an armed fault no later step throws -/
structure Fr (s s' : St) (B' : List Block) (A' : List (Option Arr)) : Prop where
  blocks : s'.blocks = B'
  arrs : s'.arrs = A'
  fuel : s.fuel = none → s'.fuel = none

theorem Fr.refl (s : St) : Fr s s s.blocks s.arrs := ⟨rfl, rfl, id⟩

theorem Fr.trans {s s1 s2 : St} {B1 B2 : List Block} {A1 A2 : List (Option Arr)}
    (h1 : Fr s s1 B1 A1) (h2 : Fr s1 s2 B2 A2) : Fr s s2 B2 A2 :=
  ⟨h2.blocks, h2.arrs, fun h => h2.fuel (h1.fuel h)⟩

theorem Fr.armed {s s1 : St} {B1 : List Block} {A1 : List (Option Arr)} (h1 : Fr s s1 B1 A1) (h : s1.fuel ≠ none) :
    s.fuel ≠ none := fun e => h (h1.fuel e)

namespace Out

variable {α β : Type}

theorem mono {r : Res α} {P P' : α → St → Prop} {Q Q' : St → Prop} {T T' : Prop}
    (h : Out r P Q T) (hp : ∀ a s, P a s → P' a s) (hq : ∀ s, Q s → Q' s) (ht : T → T') : Out r P' Q' T' := by
  cases r with
  | ok a s => exact hp a s h
  | threw s => exact hq s h
  | term s => exact ht h
  | ub s => exact h

theorem pure' {a : α} {s : St} {P : α → St → Prop} {Q : St → Prop} {T : Prop} (h : P a s) :
    Out ((pure a : M α) s) P Q T := h

theorem bind {m : M α} {f : α → M β} {s : St} {P : α → St → Prop} {Q : St → Prop}
    {P' : β → St → Prop} {Q' : St → Prop} {T : Prop}
    (hm : Out (m s) P Q T) (hf : ∀ a s', P a s' → Out (f a s') P' Q' T) (hq : ∀ s', Q s' → Q' s') :
    Out ((m >>= f) s) P' Q' T := by
  show Out (M.bind m f s) P' Q' T
  unfold M.bind
  cases hr : m s with
  | ok a s' => rw [hr] at hm; exact hf a s' hm
  | threw s' => rw [hr] at hm; exact hq s' hm
  | term s' => rw [hr] at hm; exact hm
  | ub s' => rw [hr] at hm; exact hm.elim

theorem tryCatch' {m h : M α} {s : St} {P : α → St → Prop} {Q : St → Prop}
    {P' : α → St → Prop} {Q' : St → Prop} {T : Prop}
    (hm : Out (m s) P Q T) (hh : ∀ s', Q s' → Out (h s') P' Q' T) (hp : ∀ a s', P a s' → P' a s') :
    Out (tryCatch m h s) P' Q' T := by
  unfold tryCatch
  cases hr : m s with
  | ok a s' => rw [hr] at hm; exact hp a s' hm
  | threw s' => rw [hr] at hm; exact hh s' hm
  | term s' => rw [hr] at hm; exact hm
  | ub s' => rw [hr] at hm; exact hm.elim

theorem noexcept' {m : M α} {s : St} {P : α → St → Prop} {Q Q' : St → Prop} {T T' : Prop}
    (hm : Out (m s) P Q T) (hq : ∀ s', Q s' → T') (ht : T → T') : Out (noexcept m s) P Q' T' := by
  unfold noexcept
  cases hr : m s with
  | ok a s' => rw [hr] at hm; exact hm
  | threw s' => rw [hr] at hm; exact hq s' hm
  | term s' => rw [hr] at hm; exact ht hm
  | ub s' => rw [hr] at hm; exact hm.elim

end Out

/-! ### elementary steps -/

theorem get_out (s : St) {P : St → St → Prop} {Q : St → Prop} {T : Prop} (h : P s s) : Out (get s) P Q T := h

theorem setSlot_out (i : Nat) (o : Option Arr) (s : St) {Q : St → Prop} {T : Prop} :
    Out (setSlot i o s) (fun _ s' => Fr s s' s.blocks (s.arrs.set i o)) Q T := by
  show Fr s { s with arrs := s.arrs.set i o } s.blocks (s.arrs.set i o)
  exact ⟨rfl, rfl, id⟩

theorem rethrow_out {α : Type} (s : St) {P : α → St → Prop} {Q : St → Prop} {T : Prop} (h : Q s) :
    Out ((rethrow : M α) s) P Q T := h

theorem tick_out (k : Step) (s : St) {T : Prop} :
    Out (tick k s) (fun _ s' => Fr s s' s.blocks s.arrs) (fun s' => Fr s s' s.blocks s.arrs ∧ s.fuel ≠ none) T := by
  unfold tick
  cases hf : s.fuel with
  | none => exact ⟨rfl, rfl, fun _ => hf⟩
  | some n =>
    cases n with
    | zero => exact ⟨⟨rfl, rfl, fun _ => rfl⟩, by simp⟩
    | succ m => exact ⟨rfl, rfl, fun h => by rw [hf] at h; cases h⟩

theorem mayTick_out (b : Bool) (k : Step) (s : St) {T : Prop} :
    Out ((if b then tick k s else Res.ok () s)) (fun _ s' => Fr s s' s.blocks s.arrs)
      (fun s' => Fr s s' s.blocks s.arrs ∧ s.fuel ≠ none) T := by
  cases b with
  | true => exact tick_out k s
  | false => exact Fr.refl s

/-- `allocate`: nothing for `n = 0`; otherwise a fresh raw block at the end of the heap, or `bad_alloc` with nothing changed -/
theorem allocate_out (a : AllocId) (n : Nat) (s : St) {T : Prop} :
    Out (allocate a n s)
      (fun p s' => (n = 0 ∧ p = none ∧ Fr s s' s.blocks s.arrs) ∨
                   (0 < n ∧ p = some s.blocks.length ∧ Fr s s' (s.blocks ++ [freshBlock a n]) s.arrs))
      (fun s' => Fr s s' s.blocks s.arrs ∧ s.fuel ≠ none) T := by
  unfold allocate
  by_cases hn : n = 0
  · subst hn
    exact Or.inl ⟨rfl, rfl, Fr.refl s⟩
  · simp only [hn, if_false]
    have ht := tick_out (T := T) Step.alloc s
    cases hr : tick Step.alloc s with
    | ok u s1 =>
      rw [hr] at ht
      refine Or.inr ⟨by omega, ?_, ?_⟩
      · show some s1.blocks.length = some s.blocks.length
        rw [ht.blocks]
      · exact ⟨by show s1.blocks ++ _ = _; rw [ht.blocks], ht.arrs, ht.fuel⟩
    | threw s1 => rw [hr] at ht; exact ht
    | term s1 => rw [hr] at ht; exact ht
    | ub s1 => rw [hr] at ht; exact ht.elim

/-- heap with the cells of block `b` replaced -/
def withCells (B : List Block) (b : Nat) (blk : Block) (cs : List Cell) : List Block :=
  B.set b { blk with cells := cs }

theorem ctorCell_out (c : Cfg) (b off : Nat) (s : St) {blk : Block} {T : Prop}
    (hB : s.blocks[b]? = some blk) (hf : blk.freed = false) (hc : blk.cells[off]? = some Cell.raw) :
    Out (ctorCell c b off s)
      (fun _ s' => Fr s s' (withCells s.blocks b blk (blk.cells.set off Cell.live)) s.arrs)
      (fun s' => Fr s s' s.blocks s.arrs ∧ s.fuel ≠ none) T := by
  unfold ctorCell
  simp only [hB, hf, hc, Bool.false_or, bne_self_eq_false, Bool.false_eq_true, if_false]
  have ht := mayTick_out (T := T) c.elemThrows Step.ctor s
  cases hr : (if c.elemThrows = true then tick Step.ctor s else Res.ok () s) with
  | ok u s1 =>
    rw [hr] at ht
    exact ⟨by show s1.blocks.set b _ = _; rw [ht.blocks]; rfl, ht.arrs, ht.fuel⟩
  | threw s1 => rw [hr] at ht; exact ht
  | term s1 => rw [hr] at ht; exact ht
  | ub s1 => rw [hr] at ht; exact ht.elim

theorem dtorCell_out (b off : Nat) (s : St) {blk : Block} {Q : St → Prop} {T : Prop}
    (hB : s.blocks[b]? = some blk) (hf : blk.freed = false) (hc : blk.cells[off]? = some Cell.live) :
    Out (dtorCell b off s)
      (fun _ s' => Fr s s' (withCells s.blocks b blk (blk.cells.set off Cell.raw)) s.arrs) Q T := by
  unfold dtorCell
  simp only [hB, hf, hc, Bool.false_or, bne_self_eq_false, Bool.false_eq_true, if_false]
  exact ⟨rfl, rfl, id⟩

theorem assignCell_out (c : Cfg) (b off : Nat) (s : St) {blk : Block} {T : Prop}
    (hB : s.blocks[b]? = some blk) (hf : blk.freed = false)
    (hc : blk.cells[off]? = some Cell.live ∨ (c.trivCtor = true ∧ blk.cells[off]? = some Cell.raw)) :
    Out (assignCell c b off s)
      (fun _ s' => Fr s s' (withCells s.blocks b blk (blk.cells.set off Cell.live)) s.arrs)
      (fun s' => Fr s s' s.blocks s.arrs ∧ s.fuel ≠ none) T := by
  unfold assignCell
  have hcond : (blk.freed || !(blk.cells[off]? == some Cell.live || (c.trivCtor && blk.cells[off]? == some Cell.raw))) = false := by
    rcases hc with h | ⟨h1, h2⟩
    · simp [hf, h]
    · simp [hf, h1, h2]
  simp only [hB, hcond, Bool.false_eq_true, if_false]
  have ht := mayTick_out (T := T) c.elemThrows Step.assign s
  cases hr : (if c.elemThrows = true then tick Step.assign s else Res.ok () s) with
  | ok u s1 =>
    rw [hr] at ht
    exact ⟨by show s1.blocks.set b _ = _; rw [ht.blocks]; rfl, ht.arrs, ht.fuel⟩
  | threw s1 => rw [hr] at ht; exact ht
  | term s1 => rw [hr] at ht; exact ht
  | ub s1 => rw [hr] at ht; exact ht.elim

/-! ### facts about `withCells` -/

theorem withCells_get {B : List Block} {b : Nat} {blk : Block} {cs : List Cell} (hB : B[b]? = some blk) :
    (withCells B b blk cs)[b]? = some { blk with cells := cs } := by
  unfold withCells
  exact List.getElem?_set_self (List.getElem?_eq_some_iff.mp hB).1

theorem withCells_withCells {B : List Block} {b : Nat} {blk : Block} {cs cs' : List Cell} :
    withCells (withCells B b blk cs) b { blk with cells := cs } cs' = withCells B b blk cs' := by
  unfold withCells
  simp [List.set_set]

theorem withCells_self {B : List Block} {b : Nat} {blk : Block} (hB : B[b]? = some blk) :
    withCells B b blk blk.cells = B := by
  unfold withCells
  apply List.ext_getElem?
  intro k
  rw [List.getElem?_set]
  split
  · rename_i h; subst h
    have hlt := (List.getElem?_eq_some_iff.mp hB).1
    have hv := (List.getElem?_eq_some_iff.mp hB).2
    simp [hlt, hv]
  · rfl

/-! ### loops -/

/-- handler of the uninitialized algorithms: cells `[f, f+k)` are destroyed, the others are untouched -/
theorem destroyFwd_out (b : Nat) {Q : St → Prop} {T : Prop} :
    ∀ (k f : Nat) (s : St) (blk : Block), s.blocks[b]? = some blk → blk.freed = false →
      (∀ j, f ≤ j → j < f + k → blk.cells[j]? = some Cell.live) →
      Out (destroyFwd b k f s)
        (fun _ s' => ∃ cs', Fr s s' (withCells s.blocks b blk cs') s.arrs ∧ cs'.length = blk.cells.length ∧
          (∀ j, f ≤ j → j < f + k → cs'[j]? = some Cell.raw) ∧ (∀ j, (j < f ∨ f + k ≤ j) → cs'[j]? = blk.cells[j]?)) Q T := by
  intro k
  induction k with
  | zero =>
    intro f s blk hB hf hl
    refine ⟨blk.cells, ?_, rfl, ?_, ?_⟩
    · rw [withCells_self hB]; exact Fr.refl s
    · intro j h1 h2; omega
    · intro j _; rfl
  | succ k ih =>
    intro f s blk hB hf hl
    have hcf : blk.cells[f]? = some Cell.live := hl f (Nat.le_refl _) (by omega)
    have hflt : f < blk.cells.length := (List.getElem?_eq_some_iff.mp hcf).1
    show Out ((dtorCell b f >>= fun _ => destroyFwd b k (f + 1)) s) _ _ _
    apply Out.bind (dtorCell_out b f s hB hf hcf) _ (fun _ h => h)
    intro _ s1 h1
    have hB1 : s1.blocks[b]? = some { blk with cells := blk.cells.set f Cell.raw } := by
      rw [h1.blocks]; exact withCells_get hB
    have hpre : ∀ j, f + 1 ≤ j → j < f + 1 + k → ({ blk with cells := blk.cells.set f Cell.raw } : Block).cells[j]? = some Cell.live := by
      intro j h2 h3
      show (blk.cells.set f Cell.raw)[j]? = _
      rw [List.getElem?_set_ne (by omega)]
      exact hl j (by omega) (by omega)
    apply Out.mono (ih (f + 1) s1 _ hB1 hf hpre) _ (fun _ h => h) id
    intro _ s' ⟨cs', hfr, hlen, hraw, hsame⟩
    refine ⟨cs', ?_, ?_, ?_, ?_⟩
    · have := h1.trans hfr
      rw [h1.blocks, h1.arrs, withCells_withCells] at this
      exact this
    · rw [hlen]; show (blk.cells.set f Cell.raw).length = _; simp
    · intro j h2 h3
      by_cases hj : j = f
      · subst hj
        rw [hsame j (Or.inl (by omega))]
        show (blk.cells.set j Cell.raw)[j]? = _
        exact List.getElem?_set_self hflt
      · exact hraw j (by omega) (by omega)
    · intro j hj
      rw [hsame j (by omega)]
      show (blk.cells.set f Cell.raw)[j]? = _
      exact List.getElem?_set_ne (by omega)

/-- `alloc_destroy_n`: cells `[0, k)` are destroyed (from the back), the others are untouched -/
theorem destroyBack_out (b : Nat) {Q : St → Prop} {T : Prop} :
    ∀ (k : Nat) (s : St) (blk : Block), s.blocks[b]? = some blk → blk.freed = false →
      (∀ j, j < k → blk.cells[j]? = some Cell.live) →
      Out (destroyBack b k s)
        (fun _ s' => ∃ cs', Fr s s' (withCells s.blocks b blk cs') s.arrs ∧ cs'.length = blk.cells.length ∧
          (∀ j, j < k → cs'[j]? = some Cell.raw) ∧ (∀ j, k ≤ j → cs'[j]? = blk.cells[j]?)) Q T := by
  intro k
  induction k with
  | zero =>
    intro s blk hB hf hl
    refine ⟨blk.cells, ?_, rfl, ?_, ?_⟩
    · rw [withCells_self hB]; exact Fr.refl s
    · intro j h1; omega
    · intro j _; rfl
  | succ k ih =>
    intro s blk hB hf hl
    have hck : blk.cells[k]? = some Cell.live := hl k (by omega)
    have hklt : k < blk.cells.length := (List.getElem?_eq_some_iff.mp hck).1
    show Out ((dtorCell b k >>= fun _ => destroyBack b k) s) _ _ _
    apply Out.bind (dtorCell_out b k s hB hf hck) _ (fun _ h => h)
    intro _ s1 h1
    have hB1 : s1.blocks[b]? = some { blk with cells := blk.cells.set k Cell.raw } := by
      rw [h1.blocks]; exact withCells_get hB
    have hpre : ∀ j, j < k → ({ blk with cells := blk.cells.set k Cell.raw } : Block).cells[j]? = some Cell.live := by
      intro j h2
      show (blk.cells.set k Cell.raw)[j]? = _
      rw [List.getElem?_set_ne (by omega)]
      exact hl j (by omega)
    apply Out.mono (ih s1 _ hB1 hf hpre) _ (fun _ h => h) id
    intro _ s' ⟨cs', hfr, hlen, hraw, hsame⟩
    refine ⟨cs', ?_, ?_, ?_, ?_⟩
    · have := h1.trans hfr
      rw [h1.blocks, h1.arrs, withCells_withCells] at this
      exact this
    · rw [hlen]; show (blk.cells.set k Cell.raw).length = _; simp
    · intro j h2
      by_cases hj : j = k
      · subst hj
        rw [hsame j (Nat.le_refl _)]
        show (blk.cells.set j Cell.raw)[j]? = _
        exact List.getElem?_set_self hklt
      · exact hraw j (by omega)
    · intro j hj
      rw [hsame j (by omega)]
      show (blk.cells.set k Cell.raw)[j]? = _
      exact List.getElem?_set_ne (by omega)

theorem constructN_succ (c : Cfg) (b : Nat) (first : Nat → Nat) (k cur : Nat) (s : St) :
    constructN c b first (k + 1) cur s =
      match ctorCell c b cur s with
      | .ok _ s1 => constructN c b first k (cur + 1) s1
      | .threw s1 => (do destroyFwd b (cur - first cur) (first cur); rethrow) s1
      | .term s1 => .term s1
      | .ub s1 => .ub s1 := rfl

/-- the uninitialized algorithms: on success cells `[cur, cur+k)` have become alive; on a throwing construction the
    cells from the rollback start up to the failing one are raw again (flat algorithms: everything that was built) -/
theorem constructN_out (c : Cfg) (b : Nat) (first : Nat → Nat) {T : Prop} :
    ∀ (k cur : Nat) (s : St) (blk : Block), s.blocks[b]? = some blk → blk.freed = false →
      (∀ j, j < cur → blk.cells[j]? = some Cell.live) →
      (∀ j, cur ≤ j → j < cur + k → blk.cells[j]? = some Cell.raw) →
      Out (constructN c b first k cur s)
        (fun _ s' => ∃ cs', Fr s s' (withCells s.blocks b blk cs') s.arrs ∧ cs'.length = blk.cells.length ∧
          (∀ j, j < cur + k → cs'[j]? = some Cell.live) ∧ (∀ j, cur + k ≤ j → cs'[j]? = blk.cells[j]?))
        (fun s' => s.fuel ≠ none ∧ ∃ cs', Fr s s' (withCells s.blocks b blk cs') s.arrs ∧ cs'.length = blk.cells.length ∧
          (∀ j, cur + k ≤ j → cs'[j]? = blk.cells[j]?) ∧
          ((∀ x, first x = 0) → ∀ j, j < cur + k → cs'[j]? = some Cell.raw)) T := by
  intro k
  induction k with
  | zero =>
    intro cur s blk hB hf hl hr
    refine ⟨blk.cells, ?_, rfl, ?_, ?_⟩
    · rw [withCells_self hB]; exact Fr.refl s
    · intro j h1; exact hl j (by omega)
    · intro j _; rfl
  | succ k ih =>
    intro cur s blk hB hf hl hr
    have hcc : blk.cells[cur]? = some Cell.raw := hr cur (Nat.le_refl _) (by omega)
    have hclt : cur < blk.cells.length := (List.getElem?_eq_some_iff.mp hcc).1
    rw [constructN_succ]
    have hstep := ctorCell_out (T := T) c b cur s hB hf hcc
    cases hres : ctorCell c b cur s with
    | ok u s1 =>
      rw [hres] at hstep
      have h1 : Fr s s1 (withCells s.blocks b blk (blk.cells.set cur Cell.live)) s.arrs := hstep
      have hB1 : s1.blocks[b]? = some { blk with cells := blk.cells.set cur Cell.live } := by
        rw [h1.blocks]; exact withCells_get hB
      have hl1 : ∀ j, j < cur + 1 → ({ blk with cells := blk.cells.set cur Cell.live } : Block).cells[j]? = some Cell.live := by
        intro j h2
        show (blk.cells.set cur Cell.live)[j]? = _
        by_cases hj : j = cur
        · subst hj; exact List.getElem?_set_self hclt
        · rw [List.getElem?_set_ne (by omega)]; exact hl j (by omega)
      have hr1 : ∀ j, cur + 1 ≤ j → j < cur + 1 + k → ({ blk with cells := blk.cells.set cur Cell.live } : Block).cells[j]? = some Cell.raw := by
        intro j h2 h3
        show (blk.cells.set cur Cell.live)[j]? = _
        rw [List.getElem?_set_ne (by omega)]; exact hr j (by omega) (by omega)
      show Out (constructN c b first k (cur + 1) s1) _ _ _
      apply Out.mono (ih (cur + 1) s1 _ hB1 hf hl1 hr1) _ _ id
      · intro _ s' ⟨cs', hfr, hlen, hlive, hsame⟩
        refine ⟨cs', ?_, ?_, ?_, ?_⟩
        · have := h1.trans hfr
          rw [h1.blocks, h1.arrs, withCells_withCells] at this
          exact this
        · rw [hlen]; show (blk.cells.set cur Cell.live).length = _; simp
        · intro j h2; exact hlive j (by omega)
        · intro j h2
          rw [hsame j (by omega)]
          show (blk.cells.set cur Cell.live)[j]? = _
          exact List.getElem?_set_ne (by omega)
      · intro s' ⟨hfu, cs', hfr, hlen, hsame, hrb⟩
        refine ⟨h1.armed hfu, cs', ?_, ?_, ?_, ?_⟩
        · have := h1.trans hfr
          rw [h1.blocks, h1.arrs, withCells_withCells] at this
          exact this
        · rw [hlen]; show (blk.cells.set cur Cell.live).length = _; simp
        · intro j h2
          rw [hsame j (by omega)]
          show (blk.cells.set cur Cell.live)[j]? = _
          exact List.getElem?_set_ne (by omega)
        · intro hfirst j h2; exact hrb hfirst j (by omega)
    | threw s1 =>
      rw [hres] at hstep
      obtain ⟨h1, hfu⟩ : Fr s s1 s.blocks s.arrs ∧ s.fuel ≠ none := hstep
      have hB1 : s1.blocks[b]? = some blk := by rw [h1.blocks]; exact hB
      have hpre : ∀ j, first cur ≤ j → j < first cur + (cur - first cur) → blk.cells[j]? = some Cell.live := by
        intro j h2 h3; exact hl j (by omega)
      show Out ((destroyFwd b (cur - first cur) (first cur) >>= fun _ => rethrow) s1) _ _ _
      apply Out.bind (destroyFwd_out b (cur - first cur) (first cur) s1 blk hB1 hf hpre) _ (fun _ h => h)
      intro _ s2 ⟨cs', hfr, hlen, hraw, hsame⟩
      apply rethrow_out
      refine ⟨hfu, cs', ?_, hlen, ?_, ?_⟩
      · have := h1.trans hfr
        rw [h1.blocks, h1.arrs] at this
        exact this
      · intro j h2; exact hsame j (by omega)
      · intro hfirst j h2
        have h0 : first cur = 0 := hfirst cur
        by_cases hj : j < cur
        · exact hraw j (by omega) (by omega)
        · rw [hsame j (by omega)]; exact hr j (by omega) (by omega)
    | term s1 => rw [hres] at hstep; exact hstep
    | ub s1 => rw [hres] at hstep; exact hstep.elim

/-- element-wise assignment over cells that hold objects: no cell changes status (trivial types: raw cells become written) -/
theorem assignCells_out (c : Cfg) (b : Nat) {T : Prop} :
    ∀ (offs : List Nat) (s : St) (blk : Block), s.blocks[b]? = some blk → blk.freed = false →
      (∀ off ∈ offs, off < blk.cells.length) → (c.trivCtor = true ∨ ∀ x ∈ blk.cells, x = Cell.live) →
      Out (assignCells c b offs s)
        (fun _ s' => ∃ cs', Fr s s' (withCells s.blocks b blk cs') s.arrs ∧ cs'.length = blk.cells.length ∧
          (c.trivCtor = true ∨ ∀ x ∈ cs', x = Cell.live))
        (fun s' => s.fuel ≠ none ∧ ∃ cs', Fr s s' (withCells s.blocks b blk cs') s.arrs ∧ cs'.length = blk.cells.length ∧
          (c.trivCtor = true ∨ ∀ x ∈ cs', x = Cell.live)) T := by
  intro offs
  induction offs with
  | nil =>
    intro s blk hB hf hoff hc
    refine ⟨blk.cells, ?_, rfl, hc⟩
    rw [withCells_self hB]; exact Fr.refl s
  | cons off rest ih =>
    intro s blk hB hf hoff hc
    have holt : off < blk.cells.length := hoff off (by simp)
    obtain ⟨x, hx⟩ : ∃ x, blk.cells[off]? = some x := ⟨blk.cells[off], by simp [holt]⟩
    have hpre : blk.cells[off]? = some Cell.live ∨ (c.trivCtor = true ∧ blk.cells[off]? = some Cell.raw) := by
      rcases hc with ht | hall
      · cases x with
        | raw => exact Or.inr ⟨ht, hx⟩
        | live => exact Or.inl hx
      · have : x = Cell.live := hall x (List.mem_iff_getElem?.mpr ⟨off, hx⟩)
        subst this; exact Or.inl hx
    have hc1 : c.trivCtor = true ∨ ∀ y ∈ blk.cells.set off Cell.live, y = Cell.live := by
      rcases hc with ht | hall
      · exact Or.inl ht
      · refine Or.inr (fun y hy => ?_)
        rcases List.mem_or_eq_of_mem_set hy with h | h
        · exact hall y h
        · exact h
    show Out ((assignCell c b off >>= fun _ => assignCells c b rest) s) _ _ _
    apply Out.bind (assignCell_out c b off s hB hf hpre)
    · intro _ s1 h1
      have hB1 : s1.blocks[b]? = some { blk with cells := blk.cells.set off Cell.live } := by
        rw [h1.blocks]; exact withCells_get hB
      have hoff1 : ∀ o ∈ rest, o < ({ blk with cells := blk.cells.set off Cell.live } : Block).cells.length := by
        intro o ho
        show o < (blk.cells.set off Cell.live).length
        rw [List.length_set]; exact hoff o (by simp [ho])
      apply Out.mono (ih s1 _ hB1 hf hoff1 hc1) _ _ id
      · intro _ s' ⟨cs', hfr, hlen, hcs⟩
        refine ⟨cs', ?_, ?_, hcs⟩
        · have := h1.trans hfr
          rw [h1.blocks, h1.arrs, withCells_withCells] at this
          exact this
        · rw [hlen]; show (blk.cells.set off Cell.live).length = _; simp
      · intro s' ⟨hfu, cs', hfr, hlen, hcs⟩
        refine ⟨h1.armed hfu, cs', ?_, ?_, hcs⟩
        · have := h1.trans hfr
          rw [h1.blocks, h1.arrs, withCells_withCells] at this
          exact this
        · rw [hlen]; show (blk.cells.set off Cell.live).length = _; simp
    · intro s' ⟨h1, hfu⟩
      refine ⟨hfu, blk.cells, ?_, rfl, hc⟩
      rw [withCells_self hB]; exact h1

end Ledger
end Multi
