/-
  C07 — Equality and ordering are deep, layout-independent and mutually consistent.

  Property theorems only; helper lemmas live in ElemOrder / StoreLemmas / Lex / LexLemmas.
-/
import MultiProofs.StoreLemmas
import MultiProofs.Lex
import MultiProofs.LexLemmas

namespace Multi
namespace C07

variable {α : Type}

/-- `a == b` holds exactly when the extensions are equal (as the library compares them) and the elements at every
    index tuple are equal — whatever the two layouts -/
theorem eq_iff [DecidableEq α] (a b : View) (m : Mem α) (ha : a.lay.WF) (hb : b.lay.WF) (hne : a.lay ≠ [])
    (hlen : a.lay.length = b.lay.length) :
    ∃ r, a.eq b m = some r ∧
      (r = true ↔ (Exts.eqv a.exts b.exts = true ∧ ∀ idx, InBox a.exts idx → m (a.addr idx) = m (b.addr idx))) := by
  have _ := hlen
  obtain ⟨ab, ae, hab, hae, _, hasz, haddr⟩ := elemit_kth a ha
  obtain ⟨bb, be, hbb, hbe, hbd, hbsz, hbaddr⟩ := elemit_kth b hb
  cases hl : a.lay with
  | nil => exact absurd hl hne
  | cons d sub =>
    simp only [View.eq, hl]
    cases hE : Exts.eqv a.exts b.exts with
    | false => exact ⟨false, by simp, by simp⟩
    | true =>
      have hexts : a.exts = b.exts := (Layout.exts_eqv_iff a.lay b.lay ha hb).1 hE
      have hnum : a.numElements = b.numElements := by
        rw [(C01.shape_functions_agree a ha).2.1, (C01.shape_functions_agree b hb).2.1, hexts]
      have hcount : b.numElements.toNat = (boxIndices a.exts).length := by
        rw [hexts, ← boxIndices_length b hb]; simp
      simp only [if_true, ElemRange.eq, hasz, hbsz, hnum, ne_eq, not_true_eq_false, if_false, hab, hbb, hbe,
        Option.bind_eq_bind, Option.bind_some, hbd, hcount]
      rw [hexts] at haddr
      obtain ⟨r, hr1, hr2⟩ := equalN_map_iff' m b.addr a.addr (boxIndices b.exts) bb ab hbaddr haddr
      refine ⟨r, by rw [hexts]; exact hr1, ?_⟩
      rw [hr2, hexts]
      simp only [true_and]
      constructor
      · intro H idx hidx; exact (H idx ((mem_boxIndices _ _).2 hidx)).symm
      · intro H idx hidx; exact (H idx ((mem_boxIndices _ _).1 hidx)).symm

/-- for well-formed views the library's comparison of extensions is plain equality of the extension lists -/
theorem exts_eqv_iff (a b : View) (ha : a.lay.WF) (hb : b.lay.WF) : Exts.eqv a.exts b.exts = true ↔ a.exts = b.exts :=
  Layout.exts_eqv_iff a.lay b.lay ha hb

/-- 0-D -/
theorem eq0_iff [DecidableEq α] (a b : View) (m : Mem α) (ha : a.lay = []) :
    a.eq b m = some (decide (m a.base = m b.base)) := by
  simp only [View.eq, ha]
  congr 1
  exact decide_eq_decide.mpr eq_comm

/-- `a != b` is always the negation of `a == b` -/
theorem ne_is_not_eq [DecidableEq α] (a b : View) (m : Mem α) :
    a.ne b m = (a.eq b m).map (fun r => !r) := by
  unfold View.ne View.eq
  cases a.lay with
  | nil => simp
  | cons d sub =>
    simp only
    cases Exts.eqv a.exts b.exts with
    | false => simp
    | true =>
      simp only [Bool.not_true, Bool.false_eq_true, if_false, if_true, ElemRange.ne, ElemRange.eq]
      split
      · simp
      · cases (ElemRange.ofView b).begin' <;> cases (ElemRange.ofView b).end' <;>
          cases (ElemRange.ofView a).begin' <;> simp

/-- `array_ref == array_ref` (flat comparison) agrees with the element-wise statement, and `!=` is its negation -/
theorem aref_eq_iff [DecidableEq α] (ba bb : Int) (ea eb : List Ext) (m : Mem α)
    (hea : ∀ e ∈ ea, e.first ≤ e.last) (heb : ∀ e ∈ eb, e.first ≤ e.last) (hlen : ea.length = eb.length) :
    let a : View := ⟨ba, Layout.ofExts ea⟩
    let b : View := ⟨bb, Layout.ofExts eb⟩
    (a.arefEq b m = true ↔ (a.exts = b.exts ∧ ∀ idx, InBox a.exts idx → m (a.addr idx) = m (b.addr idx))) ∧
    a.arefNe b m = !(a.arefEq b m) := by
  intro a b
  have _ := hlen
  obtain ⟨wa, xa, na, da⟩ := C01.root_denotes ea hea
  obtain ⟨wb, xb, nb, db⟩ := C01.root_denotes eb heb
  have hxa : a.exts = collapse ea := xa
  have hxb : b.exts = collapse eb := xb
  have hnb : b.numElements = nElems eb := nb
  constructor
  · unfold View.arefEq
    cases hE : Exts.eqv a.exts b.exts with
    | false =>
      have : ¬ a.exts = b.exts := fun h => by rw [(exts_eqv_iff a b wa wb).2 h] at hE; exact absurd hE (by simp)
      simp [this]
    | true =>
      have hexts : a.exts = b.exts := (exts_eqv_iff a b wa wb).1 hE
      have hcol : collapse ea = collapse eb := by rw [← hxa, ← hxb, hexts]
      have hN : nElems ea = nElems eb := by rw [← nElems_collapse ea, hcol, nElems_collapse]
      have hN0 : 0 ≤ nElems eb := C01.nElems_nonneg eb heb
      simp only [Bool.not_true, Bool.false_eq_true, if_false, hexts, true_and, equalFlat_iff', hnb]
      constructor
      · intro H idx hidx
        have hin : InBox (collapse ea) idx := by rw [← hxa, hexts]; exact hidx
        obtain ⟨o1, r0, r1⟩ := da idx hin
        obtain ⟨o2, _, _⟩ := db idx (by rw [← hcol]; exact hin)
        rw [addr_eq, addr_eq]
        show m (ba + (Layout.ofExts ea).off idx) = m (bb + (Layout.ofExts eb).off idx)
        rw [o1, o2, ← rowMajor_congr ea eb idx hcol hin]
        exact (H _ r0 (by omega)).symm
      · intro H k k0 k1
        obtain ⟨idx, hin, hk⟩ := rowMajor_surj ea hea k k0 (by omega)
        have := H idx (by rw [← hexts, hxa]; exact hin)
        obtain ⟨o1, _, _⟩ := da idx hin
        obtain ⟨o2, _, _⟩ := db idx (by rw [← hcol]; exact hin)
        rw [addr_eq, addr_eq] at this
        have this' : m (ba + (Layout.ofExts ea).off idx) = m (bb + (Layout.ofExts eb).off idx) := this
        rw [o1, o2, ← rowMajor_congr ea eb idx hcol hin, hk] at this'
        exact this'.symm
  · unfold View.arefNe View.arefEq
    cases Exts.eqv a.exts b.exts <;> simp

/-- `a < b` is the lexicographic order, over the leading dimension recursively, of the nested sequences the two
    views denote (zero-based operands of equal dimensionality `n`, any layouts) -/
theorem lt_is_lex (ltE : α → α → Bool) (m : Mem α) (n : Nat) (a b : View)
    (ha : a.lay.WF) (hb : b.lay.WF) (hna : a.lay.length = n) (hnb : b.lay.length = n)
    (hza : a.lay.ZeroBased) (hzb : b.lay.ZeroBased) :
    a.lt ltE b m = lexN ltE n (toNested m n a.lay a.base) (toNested m n b.lay b.base) :=
  lexCompare_eq_lexN ltE m n a.lay b.lay a.base b.base ha hb hna hnb hza hzb

/-- `>` is `<` with the operands exchanged -/
theorem gt_is_lt_swapped (ltE : α → α → Bool) (m : Mem α) (a b : View) : a.gt ltE b m = b.lt ltE a m := rfl

/-- consequences of `lt_is_lex` and the list-level lemmas: `<` on views of dimensionality `n` is irreflexive and
    transitive, and for any two operands exactly one of `a < b`, `value a = value b`, `b < a` holds -/
theorem lt_irrefl (ltE : α → α → Bool) (hlt : StrictTotal ltE) (m : Mem α) (a : View) (ha : a.lay.WF) (hza : a.lay.ZeroBased) :
    a.lt ltE a m = false := by
  rw [lt_is_lex ltE m a.lay.length a a ha ha rfl rfl hza hza]
  exact (lexN_strictTotal hlt _).irrefl _

theorem lt_trans (ltE : α → α → Bool) (hlt : StrictTotal ltE) (m : Mem α) (a b c : View)
    (ha : a.lay.WF) (hb : b.lay.WF) (hc : c.lay.WF) (hab : a.lay.length = b.lay.length) (hbc : b.lay.length = c.lay.length)
    (hza : a.lay.ZeroBased) (hzb : b.lay.ZeroBased) (hzc : c.lay.ZeroBased)
    (h1 : a.lt ltE b m = true) (h2 : b.lt ltE c m = true) : a.lt ltE c m = true := by
  rw [lt_is_lex ltE m a.lay.length a b ha hb rfl hab.symm hza hzb] at h1
  rw [lt_is_lex ltE m a.lay.length b c hb hc hab.symm (hbc.symm.trans hab.symm) hzb hzc] at h2
  rw [lt_is_lex ltE m a.lay.length a c ha hc rfl (hbc.symm.trans hab.symm) hza hzc]
  exact (lexN_strictTotal hlt _).trans _ _ _ h1 h2

theorem lt_trichotomy (ltE : α → α → Bool) (hlt : StrictTotal ltE) (m : Mem α) (a b : View)
    (ha : a.lay.WF) (hb : b.lay.WF) (hab : a.lay.length = b.lay.length)
    (hza : a.lay.ZeroBased) (hzb : b.lay.ZeroBased) :
    let n := a.lay.length
    let va := toNested m n a.lay a.base
    let vb := toNested m n b.lay b.base
    (a.lt ltE b m = true ∧ va ≠ vb ∧ b.lt ltE a m = false) ∨
    (a.lt ltE b m = false ∧ va = vb ∧ b.lt ltE a m = false) ∨
    (a.lt ltE b m = false ∧ va ≠ vb ∧ b.lt ltE a m = true) := by
  intro n va vb
  rw [lt_is_lex ltE m n a b ha hb rfl hab.symm hza hzb, lt_is_lex ltE m n b a hb ha hab.symm rfl hzb hza]
  have := (lexN_strictTotal hlt n).trichotomy va vb
  rcases this with ⟨h1, h2, h3⟩ | ⟨h1, h2, h3⟩ | ⟨h1, h2, h3⟩
  · exact Or.inl ⟨h1, h2, h3⟩
  · exact Or.inr (Or.inl ⟨h1, h2, h3⟩)
  · exact Or.inr (Or.inr ⟨h1, h2, h3⟩)

/-- consistency of the order with `==`: for non-empty operands the two views denote the same nested sequence exactly
    when `a == b` (for empty operands the library collapses to size 0 whatever the inner extents, the nested value
    is the empty sequence, and only `==`/`!=` consistency — `ne_is_not_eq` — is required) -/
theorem eq_iff_same_value [DecidableEq α] (m : Mem α) (a b : View)
    (ha : a.lay.WF) (hb : b.lay.WF) (hne : a.lay ≠ []) (hab : a.lay.length = b.lay.length)
    (hza : a.lay.ZeroBased) (hzb : b.lay.ZeroBased) (hnea : a.numElements ≠ 0) (hneb : b.numElements ≠ 0) :
    a.eq b m = some true ↔ toNested m a.lay.length a.lay a.base = toNested m a.lay.length b.lay b.base := by
  obtain ⟨r, hr, hiff⟩ := eq_iff a b m ha hb hne hab
  rw [toNested_eq_iff m a.lay.length a.lay b.lay a.base b.base ha hb rfl hab.symm hza hzb hnea hneb, hr]
  have e : (some r = some true) ↔ r = true := by simp
  rw [e, hiff, exts_eqv_iff a b ha hb]
  simp only [addr_eq]
  exact Iff.rfl

/-- hence: exactly one of `a < b`, `a == b`, `b < a` for non-empty operands of equal dimensionality -/
theorem exactly_one [DecidableEq α] (ltE : α → α → Bool) (hlt : StrictTotal ltE) (m : Mem α) (a b : View)
    (ha : a.lay.WF) (hb : b.lay.WF) (hne : a.lay ≠ []) (hab : a.lay.length = b.lay.length)
    (hza : a.lay.ZeroBased) (hzb : b.lay.ZeroBased) (hnea : a.numElements ≠ 0) (hneb : b.numElements ≠ 0) :
    (a.lt ltE b m = true ∧ a.eq b m = some false ∧ b.lt ltE a m = false) ∨
    (a.lt ltE b m = false ∧ a.eq b m = some true ∧ b.lt ltE a m = false) ∨
    (a.lt ltE b m = false ∧ a.eq b m = some false ∧ b.lt ltE a m = true) := by
  have hsv := eq_iff_same_value m a b ha hb hne hab hza hzb hnea hneb
  obtain ⟨r, hr, _⟩ := eq_iff a b m ha hb hne hab
  have hfalse : toNested m a.lay.length a.lay a.base ≠ toNested m a.lay.length b.lay b.base → a.eq b m = some false := by
    intro h
    cases r with
    | false => exact hr
    | true => exact absurd (hsv.1 hr) h
  rcases lt_trichotomy ltE hlt m a b ha hb hab hza hzb with ⟨h1, h2, h3⟩ | ⟨h1, h2, h3⟩ | ⟨h1, h2, h3⟩
  · exact Or.inl ⟨h1, hfalse h2, h3⟩
  · exact Or.inr (Or.inl ⟨h1, hsv.2 h2, h3⟩)
  · exact Or.inr (Or.inr ⟨h1, hfalse h2, h3⟩)

/-- `<=` and `>=` as coded are `<` or `==` (resp. `>` or `==`) -/
theorem le_is_lt_or_eq [DecidableEq α] (ltE : α → α → Bool) (m : Mem α) (a b : View) (hne : a.lay ≠ []) :
    a.le ltE b m = (a.eq b m).map (fun e => a.lt ltE b m || e) ∨ (a.lt ltE b m = true ∧ a.le ltE b m = some true) := by
  rcases a with ⟨base, lay⟩
  cases lay with
  | nil => exact absurd rfl hne
  | cons d sub =>
    cases sub with
    | nil =>
      simp only [View.le]
      cases h : View.lt ltE ⟨base, [d]⟩ b m with
      | true => right; simp
      | false => left; simp
    | cons d' sub =>
      left
      simp only [View.le]
      cases View.eq ⟨base, d :: d' :: sub⟩ b m with
      | none => simp
      | some e => simp [Bool.or_comm]
/-! ### non-vacuity -/

/-- the element order used by the harness (`int`, `<`) is a strict total order -/
example : StrictTotal (fun (x y : Int) => decide (x < y)) :=
  ⟨by intro x; simp, by intro x y z h1 h2; simp at h1 h2 ⊢; omega, by intro x y h1 h2; simp at h1 h2; omega⟩

/-- a 2x2 row-major array and the transpose of another one (different layouts, same dimensionality) satisfy every
    hypothesis of `lt_is_lex`, `eq_iff_same_value` and `exactly_one` -/
example (m : Mem Int) :
    let a : View := ⟨0, [⟨2, 0, 4⟩, ⟨1, 0, 2⟩]⟩
    let b : View := ⟨4, [⟨1, 0, 2⟩, ⟨2, 0, 4⟩]⟩
    (a.lay.WF ∧ b.lay.WF ∧ a.lay.length = 2 ∧ b.lay.length = 2 ∧ a.lay.ZeroBased ∧ b.lay.ZeroBased ∧
      a.lay ≠ [] ∧ a.numElements ≠ 0 ∧ b.numElements ≠ 0 ∧ a.exts = [⟨0, 2⟩, ⟨0, 2⟩] ∧ b.exts = [⟨0, 2⟩, ⟨0, 2⟩]) ∧
    toNested m 2 a.lay a.base = [[m 0, m 1], [m 2, m 3]] ∧
    toNested m 2 b.lay b.base = [[m 4, m 6], [m 5, m 7]] := by
  intro a b
  have wa : a.lay.WF := by
    intro d hd
    simp only [a, List.mem_cons, List.not_mem_nil, or_false] at hd
    rcases hd with rfl | rfl <;> exact Or.inr (by decide)
  have wb : b.lay.WF := by
    intro d hd
    simp only [b, List.mem_cons, List.not_mem_nil, or_false] at hd
    rcases hd with rfl | rfl <;> exact Or.inr (by decide)
  have za : a.lay.ZeroBased := by
    intro d hd
    simp only [a, List.mem_cons, List.not_mem_nil, or_false] at hd
    rcases hd with rfl | rfl <;> decide
  have zb : b.lay.ZeroBased := by
    intro d hd
    simp only [b, List.mem_cons, List.not_mem_nil, or_false] at hd
    rcases hd with rfl | rfl <;> decide
  refine ⟨⟨wa, wb, rfl, rfl, za, zb, by simp [a], by decide, by decide, by decide, by decide⟩, ?_, ?_⟩
  · rfl
  · rfl

end C07
end Multi
