/-
  MultiProofs.BlasLevel1 — specifications of the level-1 operations on logical contents and their soundness for the
  reference semantics of xAXPY, xSCAL, xCOPY, xSWAP (positive increments).
-/
import MultiModel.Blas
import MultiProofs.BlasLemmas
import MultiProofs.BlasGemm

namespace Multi.Blas
variable {R : Type} [CRing R]

/-- y := alpha·x + y -/
structure AxpySpec (alpha : R) (x y : Vec) (mem mem' : Mem R) : Prop where
  elems : ∀ i : Int, 0 ≤ i → i < y.n → y.load mem' i = alpha * x.load mem i + y.load mem i
  frame : ∀ addr : Int, (¬ ∃ i : Int, 0 ≤ i ∧ i < y.n ∧ addr = y.addr i) → mem' addr = mem addr

/-- x := alpha·x -/
structure ScalSpec (alpha : R) (x : Vec) (mem mem' : Mem R) : Prop where
  elems : ∀ i : Int, 0 ≤ i → i < x.n → x.load mem' i = alpha * x.load mem i
  frame : ∀ addr : Int, (¬ ∃ i : Int, 0 ≤ i ∧ i < x.n ∧ addr = x.addr i) → mem' addr = mem addr

/-- y := x -/
structure CopySpec (x y : Vec) (mem mem' : Mem R) : Prop where
  elems : ∀ i : Int, 0 ≤ i → i < y.n → y.load mem' i = x.load mem i
  frame : ∀ addr : Int, (¬ ∃ i : Int, 0 ≤ i ∧ i < y.n ∧ addr = y.addr i) → mem' addr = mem addr

/-- x ↔ y (the two views do not overlap) -/
structure SwapSpec (x y : Vec) (mem mem' : Mem R) : Prop where
  ey : ∀ i : Int, 0 ≤ i → i < y.n → y.load mem' i = x.load mem i
  ex : ∀ i : Int, 0 ≤ i → i < x.n → x.load mem' i = y.load mem i
  frame : ∀ addr : Int, (¬ ∃ i : Int, 0 ≤ i ∧ i < y.n ∧ (addr = y.addr i ∨ addr = x.addr i)) → mem' addr = mem addr

/-- the call (n, x, incx, y, incy) addresses exactly the two vector views -/
def L1Is (g : L1Call R) (n : Int) (x y : Vec) : Prop :=
  g.n = n ∧ g.x = x.base ∧ g.incx = x.inc ∧ g.y = y.base ∧ g.incy = y.inc ∧ x.cj = false ∧ y.cj = false ∧ 1 ≤ x.inc ∧ 1 ≤ y.inc

theorem axpy_sound {g : L1Call R} {alpha : R} {x y : Vec} (h : L1Is g y.n x y) (ha : g.alpha = alpha) (mem : Mem R) :
    AxpySpec alpha x y mem (g.execAxpy mem) := by
  obtain ⟨hn, hx, hix, hy, hiy, hxc, hyc, hx1, hy1⟩ := h
  constructor
  · intro i hi0 hi
    unfold Vec.load L1Call.execAxpy
    rw [hxc, hyc, cjIf_false, cjIf_false, cjIf_false, hn, hy, hiy, vecIndex_hit hi0 hi (by omega), ha, hx, hix]
  · intro addr hno
    unfold L1Call.execAxpy
    cases hv : vecIndex g.y g.incy g.n addr with
    | none => rfl
    | some i =>
      exfalso
      obtain ⟨hadr, hi0, hi⟩ := vecIndex_some hv
      exact hno ⟨i, hi0, by omega, by unfold Vec.addr; rw [hadr, hy, hiy]⟩

theorem copy_sound {g : L1Call R} {x y : Vec} (h : L1Is g y.n x y) (mem : Mem R) :
    CopySpec x y mem (g.execCopy mem) := by
  obtain ⟨hn, hx, hix, hy, hiy, hxc, hyc, hx1, hy1⟩ := h
  constructor
  · intro i hi0 hi
    unfold Vec.load L1Call.execCopy
    rw [hxc, hyc, cjIf_false, cjIf_false, hn, hy, hiy, vecIndex_hit hi0 hi (by omega), hx, hix]
  · intro addr hno
    unfold L1Call.execCopy
    cases hv : vecIndex g.y g.incy g.n addr with
    | none => rfl
    | some i =>
      exfalso
      obtain ⟨hadr, hi0, hi⟩ := vecIndex_some hv
      exact hno ⟨i, hi0, by omega, by unfold Vec.addr; rw [hadr, hy, hiy]⟩

theorem scal_sound {g : L1Call R} {alpha : R} {x : Vec} (hn : g.n = x.n) (hx : g.x = x.base) (hix : g.incx = x.inc)
    (hxc : x.cj = false) (hx1 : 1 ≤ x.inc) (ha : g.alpha = alpha) (mem : Mem R) :
    ScalSpec alpha x mem (g.execScal mem) := by
  constructor
  · intro i hi0 hi
    unfold Vec.load L1Call.execScal
    rw [hxc, cjIf_false, cjIf_false, hn, hx, hix, vecIndex_hit hi0 hi (by omega), ha]
  · intro addr hno
    unfold L1Call.execScal
    cases hv : vecIndex g.x g.incx g.n addr with
    | none => rfl
    | some i =>
      exfalso
      obtain ⟨hadr, hi0, hi⟩ := vecIndex_some hv
      exact hno ⟨i, hi0, by omega, by unfold Vec.addr; rw [hadr, hx, hix]⟩

/-- swap needs the two views to be disjoint -/
theorem swap_sound {g : L1Call R} {x y : Vec} (h : L1Is g y.n x y) (hxy : x.n = y.n)
    (hdis : ∀ i j : Int, 0 ≤ i → i < x.n → 0 ≤ j → j < y.n → x.addr i ≠ y.addr j) (mem : Mem R) :
    SwapSpec x y mem (g.execSwap mem) := by
  obtain ⟨hn, hx, hix, hy, hiy, hxc, hyc, hx1, hy1⟩ := h
  constructor
  · intro i hi0 hi
    unfold Vec.load L1Call.execSwap
    rw [hxc, hyc, cjIf_false, cjIf_false, hn, hy, hiy, vecIndex_hit hi0 hi (by omega), hx, hix]
  · intro i hi0 hi
    unfold Vec.load L1Call.execSwap
    rw [hxc, hyc, cjIf_false, cjIf_false, hn, hy, hiy, hx, hix]
    have hny : vecIndex y.base y.inc y.n (x.base + i * x.inc) = none := by
      cases hv : vecIndex y.base y.inc y.n (x.base + i * x.inc) with
      | none => rfl
      | some j =>
        exfalso
        obtain ⟨hadr, hj0, hj⟩ := vecIndex_some hv
        exact hdis i j hi0 hi hj0 hj (by unfold Vec.addr; exact hadr)
    rw [hny]
    simp only
    rw [vecIndex_hit hi0 (by omega) (by omega)]
  · intro addr hno
    unfold L1Call.execSwap
    cases hv : vecIndex g.y g.incy g.n addr with
    | some i =>
      exfalso
      obtain ⟨hadr, hi0, hi⟩ := vecIndex_some hv
      exact hno ⟨i, hi0, by omega, Or.inl (by unfold Vec.addr; rw [hadr, hy, hiy])⟩
    | none =>
      simp only
      cases hw : vecIndex g.x g.incx g.n addr with
      | none => rfl
      | some i =>
        exfalso
        obtain ⟨hadr, hi0, hi⟩ := vecIndex_some hw
        exact hno ⟨i, hi0, by omega, Or.inr (by unfold Vec.addr; rw [hadr, hx, hix])⟩

end Multi.Blas
