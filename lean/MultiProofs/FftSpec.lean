/-
  MultiProofs.FftSpec — what C15 says: the logical DFT of a view along a subset of its dimensions, and the index
  bookkeeping lemmas that relate it to the guru call built by `fftw_plan_dft`.
-/
import MultiProofs.C01
import MultiModel.Fftw

namespace Multi

/-- the elements of `l` at the positions where the mask is `true` -/
def pick {α : Type} : List Bool → List α → List α
  | true :: m, x :: xs => x :: pick m xs
  | false :: m, _ :: xs => pick m xs
  | _, _ => []

/-- ... where it is `false` -/
def pickN {α : Type} : List Bool → List α → List α
  | true :: m, _ :: xs => pickN m xs
  | false :: m, x :: xs => x :: pickN m xs
  | _, _ => []

/-- `r` with its masked positions replaced, in order, by the entries of `n` -/
def subst : List Bool → List Int → List Int → List Int
  | true :: m, _ :: r, n :: ns => n :: subst m r ns
  | false :: m, x :: r, ns => x :: subst m r ns
  | _, _, _ => []

/-- interleave masked entries `j` and unmasked entries `b` -/
def merge : List Bool → List Int → List Int → List Int
  | true :: m, j :: js, bs => j :: merge m js bs
  | false :: m, js, b :: bs => b :: merge m js bs
  | _, _, _ => []

/-- index tuple relative to the first index of each extension, and back -/
def relIdx : List Ext → List Int → List Int
  | e :: es, i :: is => (i - e.first) :: relIdx es is
  | _, _ => []
def absIdx : List Ext → List Int → List Int
  | e :: es, r :: rs => (e.first + r) :: absIdx es rs
  | _, _ => []

section
variable {R : Type} [Add R] [Mul R] [OfNat R 0] [OfNat R 1]

/-- **the logical DFT of a view.**  Element `idx` of the transform of `vin` along the masked dimensions, with sign `s`:
    `Σ_{n ∈ Π_{d masked} [0, N_d)} vin[idx with masked positions := first_d + n_d] · Π_{d masked} ω(N_d, s·(idx_d − first_d)·n_d)`;
    unmasked dimensions are independent batches. -/
def logicalDft (ω : Int → Int → R) (mask : List Bool) (s : Int) (vin : View) (mem : Int → R) (idx : List Int) : R :=
  let es := vin.exts
  let Ns := pick mask (es.map Ext.size)
  let r := relIdx es idx
  sumBox Ns fun n => mem (vin.addr (absIdx es (subst mask r n))) * twiddle ω s Ns (pick mask r) n

omit [Mul R] [OfNat R 1] in
theorem sumTo_congr {f g : Nat → R} (n : Nat) (h : ∀ k, k < n → f k = g k) : sumTo n f = sumTo n g := by
  induction n with
  | zero => rfl
  | succ n ih => simp only [sumTo]; rw [ih (fun k hk => h k (by omega)), h n (by omega)]

omit [Mul R] [OfNat R 1] in
theorem sumBox_congr (Ns : List Int) {f g : List Int → R} (h : ∀ n, n.length = Ns.length → f n = g n) :
    sumBox Ns f = sumBox Ns g := by
  induction Ns generalizing f g with
  | nil => simp only [sumBox]; exact h [] rfl
  | cons N Ns ih =>
    simp only [sumBox]
    apply sumTo_congr
    intro k _
    apply ih
    intro n hn
    exact h _ (by simp [hn])
end

/-! ### bookkeeping -/

theorem planZip_partition (ws : List Bool) (ns is os : List Int) (h1 : ns.length = ws.length) (h2 : is.length = ws.length)
    (h3 : os.length = ws.length) :
    let p := (planZip ws ns is os).partition (·.1)
    p.1.map (·.2.n) = pick ws ns ∧ p.1.map (·.2.is) = pick ws is ∧ p.1.map (·.2.os) = pick ws os ∧
    p.2.map (·.2.n) = pickN ws ns ∧ p.2.map (·.2.is) = pickN ws is ∧ p.2.map (·.2.os) = pickN ws os := by
  induction ws generalizing ns is os with
  | nil => simp [planZip, pick, pickN]
  | cons w ws ih =>
    cases ns with
    | nil => simp at h1
    | cons n ns =>
    cases is with
    | nil => simp at h2
    | cons i is =>
    cases os with
    | nil => simp at h3
    | cons o os =>
      have := ih ns is os (by simpa using h1) (by simpa using h2) (by simpa using h3)
      simp only [List.partition_eq_filter_filter] at this ⊢
      cases w <;> simp [planZip, pick, pickN] <;> simp_all

theorem dot_split (m : List Bool) (s t : List Int) (h1 : s.length = m.length) (h2 : t.length = m.length) :
    dot s t = dot (pick m s) (pick m t) + dot (pickN m s) (pickN m t) := by
  induction m generalizing s t with
  | nil => cases s <;> cases t <;> simp [dot, pick, pickN] at *
  | cons w m ih =>
    cases s with
    | nil => simp at h1
    | cons a s =>
    cases t with
    | nil => simp at h2
    | cons b t =>
      have := ih s t (by simpa using h1) (by simpa using h2)
      cases w <;> simp only [pick, pickN, dot] <;> omega

theorem inRange_length {Ns js : List Int} (h : InRange Ns js) : js.length = Ns.length := by
  induction Ns generalizing js with
  | nil => cases js <;> simp_all [InRange]
  | cons N Ns ih => cases js with
    | nil => simp [InRange] at h
    | cons j js => simp [ih h.2]

theorem inRange_pick (m : List Bool) (Ns r : List Int) (h : InRange Ns r) (hm : m.length = Ns.length) :
    InRange (pick m Ns) (pick m r) ∧ InRange (pickN m Ns) (pickN m r) := by
  induction m generalizing Ns r with
  | nil => simp [pick, pickN, InRange]
  | cons w m ih =>
    cases Ns with
    | nil => simp at hm
    | cons N Ns =>
    cases r with
    | nil => simp [InRange] at h
    | cons x r =>
      obtain ⟨i1, i2⟩ := ih Ns r h.2 (by simpa using hm)
      cases w
      · exact ⟨by simpa [pick] using i1, by simp only [pickN, InRange]; exact ⟨h.1, i2⟩⟩
      · exact ⟨by simp only [pick, InRange]; exact ⟨h.1, i1⟩, by simpa [pickN] using i2⟩

theorem pick_subst (m : List Bool) (r n : List Int) (hr : r.length = m.length) (hn : n.length = (pick m r).length) :
    pick m (subst m r n) = n ∧ pickN m (subst m r n) = pickN m r ∧ (subst m r n).length = m.length := by
  induction m generalizing r n with
  | nil => cases n <;> simp_all [pick, pickN, subst]
  | cons w m ih =>
    cases r with
    | nil => simp at hr
    | cons x r =>
      cases w
      · have := ih r n (by simpa using hr) (by simpa [pick] using hn)
        simp only [subst, pick, pickN, List.length_cons]
        exact ⟨this.1, by rw [this.2.1], by rw [this.2.2]⟩
      · cases n with
        | nil => simp [pick] at hn
        | cons y n =>
          have := ih r n (by simpa using hr) (by simpa [pick] using hn)
          simp only [subst, pick, pickN, List.length_cons]
          exact ⟨by rw [this.1], this.2.1, by rw [this.2.2]⟩

theorem merge_spec (m : List Bool) (Ns j b : List Int) (hm : m.length = Ns.length)
    (hj : InRange (pick m Ns) j) (hb : InRange (pickN m Ns) b) :
    InRange Ns (merge m j b) ∧ pick m (merge m j b) = j ∧ pickN m (merge m j b) = b := by
  induction m generalizing Ns j b with
  | nil =>
    have : Ns = [] := List.eq_nil_of_length_eq_zero (by simpa using hm.symm)
    subst this
    cases j <;> cases b <;> simp_all [pick, pickN, merge, InRange]
  | cons w m ih =>
    cases Ns with
    | nil => simp at hm
    | cons N Ns =>
      cases w
      · cases b with
        | nil => simp [pickN, InRange] at hb
        | cons y b =>
          simp only [pickN, InRange] at hb
          obtain ⟨i1, i2, i3⟩ := ih Ns j b (by simpa using hm) (by simpa [pick] using hj) hb.2
          simp only [merge, InRange, pick, pickN]
          exact ⟨⟨hb.1, i1⟩, i2, by rw [i3]⟩
      · cases j with
        | nil => simp [pick, InRange] at hj
        | cons y j =>
          simp only [pick, InRange] at hj
          obtain ⟨i1, i2, i3⟩ := ih Ns j b (by simpa using hm) hj.2 (by simpa [pickN] using hb)
          simp only [merge, InRange, pick, pickN]
          exact ⟨⟨hj.1, i1⟩, by rw [i2], i3⟩

theorem rel_abs (es : List Ext) (r : List Int) (h : r.length = es.length) : relIdx es (absIdx es r) = r := by
  induction es generalizing r with
  | nil => cases r <;> simp_all [relIdx]
  | cons e es ih => cases r with
    | nil => simp at h
    | cons x r => simp only [absIdx, relIdx]; rw [ih r (by simpa using h)]; congr 1; omega

theorem abs_rel (es : List Ext) (idx : List Int) (h : idx.length = es.length) : absIdx es (relIdx es idx) = idx := by
  induction es generalizing idx with
  | nil => cases idx <;> simp_all [absIdx]
  | cons e es ih => cases idx with
    | nil => simp at h
    | cons x r => simp only [absIdx, relIdx]; rw [ih r (by simpa using h)]; congr 1; omega

theorem relIdx_length (es : List Ext) (idx : List Int) (h : idx.length = es.length) : (relIdx es idx).length = es.length := by
  induction es generalizing idx with
  | nil => cases idx <;> simp_all [relIdx]
  | cons e es ih => cases idx with
    | nil => simp at h
    | cons x r => simp only [relIdx, List.length_cons]; rw [ih r (by simpa using h)]

/-- displacement of a well-formed layout all of whose levels are non-empty, in relative indices: `Σ rₖ·strideₖ` -/
theorem off_abs (l : Layout) (hwf : l.WF) (hne : ∀ d ∈ l, d.nelems ≠ 0) (r : List Int) (h : r.length = l.length) :
    l.off (absIdx l.exts r) = dot l.strides r := by
  induction l generalizing r with
  | nil => cases r <;> simp [Layout.off, Layout.strides, dot]
  | cons d l ih =>
    cases r with
    | nil => simp at h
    | cons x r =>
      have ih' := ih hwf.tail (fun y hy => hne y (List.mem_cons_of_mem _ hy)) r (by simpa using h)
      simp only [Layout.exts, Layout.strides, List.map_cons, absIdx, Layout.off, dot]
      simp only [Layout.exts, Layout.strides] at ih'
      rw [ih']
      rcases hwf.head.cases with h0 | ⟨f, n, _, _, hf, _, he, _⟩
      · exact absurd h0 (hne d (by simp))
      · rw [he, hf]; simp only
        have : (f + x) * d.stride = f * d.stride + x * d.stride := Int.add_mul _ _ _
        have c : d.stride * x = x * d.stride := Int.mul_comm _ _
        omega

/-- a tuple inside a box: relative indices in range, and the box has no empty extension -/
theorem inBox_rel (l : Layout) (hwf : l.WF) (idx : List Int) (h : InBox l.exts idx) :
    InRange l.sizes (relIdx l.exts idx) ∧ (∀ d ∈ l, d.nelems ≠ 0) := by
  induction l generalizing idx with
  | nil => cases idx <;> simp_all [InBox, Layout.exts, Layout.sizes, relIdx, InRange]
  | cons d l ih =>
    simp only [Layout.exts, List.map_cons] at h
    obtain ⟨t, r, rfl, h1, h2, h3⟩ := inBox_cons h
    obtain ⟨i1, i2⟩ := ih hwf.tail r h3
    rcases hwf.head.cases with h0 | ⟨f, n, hn, hs, hf, hnn, he, hsz⟩
    · rw [Dim.ext_of_nelems_zero h0] at h1 h2; simp at h1 h2; omega
    · have hne : d.nelems ≠ 0 := by rw [hnn]; exact Int.ne_of_gt (Int.mul_pos hn hs)
      refine ⟨?_, ?_⟩
      · simp only [Layout.sizes, Layout.exts, List.map_cons, relIdx, InRange]
        rw [he] at h1 h2 ⊢; simp only at h1 h2 ⊢
        exact ⟨⟨by omega, by rw [hsz]; omega⟩, i1⟩
      · intro x hx
        rcases List.mem_cons.mp hx with e | e
        · subst e; exact hne
        · exact i2 x e

/-- conversely, relative indices in range give a tuple inside the box -/
theorem inRange_abs (l : Layout) (hwf : l.WF) (r : List Int) (h : InRange l.sizes r) :
    InBox l.exts (absIdx l.exts r) ∧ (∀ d ∈ l, d.nelems ≠ 0) := by
  induction l generalizing r with
  | nil => cases r <;> simp_all [InBox, Layout.exts, Layout.sizes, absIdx, InRange]
  | cons d l ih =>
    cases r with
    | nil => simp [Layout.sizes, InRange] at h
    | cons x r =>
      simp only [Layout.sizes, List.map_cons, InRange] at h
      obtain ⟨i1, i2⟩ := ih hwf.tail r h.2
      rcases hwf.head.cases with h0 | ⟨f, n, hn, hs, hf, hnn, he, hsz⟩
      · rw [Dim.size_of_nelems_zero h0] at h; omega
      · have hne : d.nelems ≠ 0 := by rw [hnn]; exact Int.ne_of_gt (Int.mul_pos hn hs)
        refine ⟨?_, ?_⟩
        · simp only [Layout.exts, List.map_cons, absIdx, InBox]
          rw [he]; simp only
          rw [hsz] at h
          exact ⟨⟨by omega, by omega⟩, i1⟩
        · intro y hy
          rcases List.mem_cons.mp hy with e | e
          · subst e; exact hne
          · exact i2 y e


theorem subst_inRange (m : List Bool) (Ns r k : List Int) (hm : m.length = Ns.length) (hr : InRange Ns r)
    (hk : InRange (pick m Ns) k) : InRange Ns (subst m r k) := by
  induction m generalizing Ns r k with
  | nil =>
    have : Ns = [] := List.eq_nil_of_length_eq_zero (by simpa using hm.symm)
    subst this; cases r <;> simp_all [subst, InRange]
  | cons w m ih =>
    cases Ns with
    | nil => simp at hm
    | cons N Ns =>
    cases r with
    | nil => simp [InRange] at hr
    | cons x r =>
      cases w
      · simp only [subst, InRange]
        exact ⟨hr.1, ih Ns r k (by simpa using hm) hr.2 (by simpa [pick] using hk)⟩
      · cases k with
        | nil => simp [pick, InRange] at hk
        | cons y k =>
          simp only [pick, InRange] at hk
          simp only [subst, InRange]
          exact ⟨hk.1, ih Ns r k (by simpa using hm) hr.2 hk.2⟩

theorem subst_subst (m : List Bool) (r k n : List Int) (hr : r.length = m.length) (hk : k.length = (pick m r).length) :
    subst m (subst m r k) n = subst m r n := by
  induction m generalizing r k n with
  | nil => simp [subst]
  | cons w m ih =>
    cases r with
    | nil => simp at hr
    | cons x r =>
      cases w
      · simp only [subst]; rw [ih r k n (by simpa using hr) (by simpa [pick] using hk)]
      · cases k with
        | nil => simp [pick] at hk
        | cons y k =>
          cases n with
          | nil => simp [subst]
          | cons z n => simp only [subst]; rw [ih r k n (by simpa using hr) (by simpa [pick] using hk)]

theorem subst_pick (m : List Bool) (r : List Int) (hr : r.length = m.length) : subst m r (pick m r) = r := by
  induction m generalizing r with
  | nil => cases r <;> simp_all [subst]
  | cons w m ih =>
    cases r with
    | nil => simp at hr
    | cons x r => cases w <;> simp only [pick, subst] <;> rw [ih r (by simpa using hr)]

end Multi
