/-
  MultiProofs.AlgoViews — helper lemmas for the `algo_*_on_views` / `algo_*_on_elements` corollaries of C03: every
  program of AlgoProgs.lean is `Typed` (writes only rows of the right length), and the generic transfer of a list-level
  fact about a program to the rows / elements of a well-formed injective view.
-/
import MultiProofs.AlgoProgs
import MultiProofs.SeqLemmas

namespace Multi
variable {α : Type}

/-! ### transfer -/

/-- whatever a `Typed` program does to the list of row values it does to the rows of the view, in place -/
theorem rows_on_views (v : View) (hwf : v.lay.WF) (hne : v.lay ≠ []) (hinj : v.Injective) (m : Mem α)
    (p : Prog (List α)) (hp : p.Typed (boxIndices v.exts.tail).length) (pos : Int) (P : List (List α) → Prop)
    (h : ∃ ys, p.runList (rowsVal v m) = some (ys, pos) ∧ P ys) :
    ∃ m', p.runRows v m = some (m', pos) ∧ P (rowsVal v m') ∧ ∀ a, ¬ v.InImage a → m' a = m a := by
  obtain ⟨ys, h1, h2⟩ := h
  obtain ⟨m', e1, e2, e3⟩ := (rows_refines v hwf hne hinj).run p hp.toP m ys pos h1
  exact ⟨m', by rw [runRows_eq]; exact e1, by rw [e2]; exact h2, e3⟩

/-- the same through `elements()` (no typing condition: elements are single cells) -/
theorem elems_on_views (v : View) (hwf : v.lay.WF) (hne : v.lay ≠ []) (hinj : v.Injective) (m : Mem α)
    (p : Prog α) (pos : Int) (P : List α → Prop)
    (h : ∃ ys, p.runList (elemsVal v m) = some (ys, pos) ∧ P ys) :
    ∃ m', p.runElems v m = some (m', pos) ∧ P (elemsVal v m') ∧ ∀ a, ¬ v.InImage a → m' a = m a := by
  obtain ⟨ys, h1, h2⟩ := h
  obtain ⟨m', e1, e2, e3⟩ := (elems_refines v hwf hne hinj).run p p.typedP_true m ys pos h1
  exact ⟨m', by rw [runElems_eq]; exact e1, by rw [e2]; exact h2, e3⟩

/-! ### typing of the transcribed programs -/

theorem fillProg_typed (L : Nat) (x : List α) (hx : x.length = L) (n : Nat) (i : Int) : (fillProg x n i).Typed L := by
  induction n generalizing i with
  | zero => exact .ret _
  | succ n ih => rw [fillProg]; exact .write _ _ _ hx (ih _)

theorem storeProg_typed (L : Nat) (vals : List (List α)) (h : ∀ r ∈ vals, r.length = L) (i : Int) :
    (storeProg vals i).Typed L := by
  induction vals generalizing i with
  | nil => exact .ret _
  | cons r rs ih =>
    rw [storeProg]
    exact .write _ _ _ (h r (by simp)) (ih (fun x hx => h x (List.mem_cons_of_mem _ hx)) _)

theorem copyProg_typed (L : Nat) (n : Nat) (s d : Int) : (copyProg n s d : Prog (List α)).Typed L := by
  induction n generalizing s d with
  | zero => exact .ret _
  | succ n ih => rw [copyProg]; exact .assign _ _ _ (ih _ _)

theorem copyBackwardProg_typed (L : Nat) (n : Nat) (s d : Int) : (copyBackwardProg n s d : Prog (List α)).Typed L := by
  induction n generalizing s d with
  | zero => exact .ret _
  | succ n ih => rw [copyBackwardProg]; exact .assign _ _ _ (ih _ _)

theorem swapRangesProg_typed (L : Nat) (n : Nat) (a b : Int) : (swapRangesProg n a b : Prog (List α)).Typed L := by
  induction n generalizing a b with
  | zero => exact .ret _
  | succ n ih => rw [swapRangesProg]; exact .swap _ _ _ (ih _ _)

theorem transformProg_typed (L : Nat) (f : List α → List α) (hf : ∀ x, x.length = L → (f x).length = L)
    (n : Nat) (s d : Int) : (transformProg f n s d).Typed L := by
  induction n generalizing s d with
  | zero => exact .ret _
  | succ n ih => rw [transformProg]; exact .read _ _ (fun x hx => .write _ _ _ (hf x hx) (ih _ _))

theorem findProg_typed (L : Nat) (p : List α → Bool) (n : Nat) (i : Int) : (findProg p n i).Typed L := by
  induction n generalizing i with
  | zero => exact .ret _
  | succ n ih =>
    rw [findProg]
    refine .read _ _ (fun x _ => ?_)
    split
    · exact .ret _
    · exact ih _

theorem equalProg_typed (L : Nat) (eq : List α → List α → Bool) (n : Nat) (a b : Int) : (equalProg eq n a b).Typed L := by
  induction n generalizing a b with
  | zero => exact .ret _
  | succ n ih =>
    rw [equalProg]
    refine .read _ _ (fun x _ => .read _ _ (fun y _ => ?_))
    split
    · exact ih _ _
    · exact .ret _

theorem accumulateProg_typed (L : Nat) (op : Int → List α → Int) (n : Nat) (i acc : Int) :
    (accumulateProg op n i acc).Typed L := by
  induction n generalizing i acc with
  | zero => exact .ret _
  | succ n ih => rw [accumulateProg]; exact .read _ _ (fun x _ => ih _ _)

theorem isSortedLoop_typed (L : Nat) (lt : List α → List α → Bool) (n : Nat) (i : Int) : (isSortedLoop lt n i).Typed L := by
  induction n generalizing i with
  | zero => exact .ret _
  | succ n ih =>
    rw [isSortedLoop]
    refine .read _ _ (fun b _ => .read _ _ (fun a _ => ?_))
    split
    · exact .ret _
    · exact ih _

theorem isSortedProg_typed (L : Nat) (lt : List α → List α → Bool) (n : Nat) : (isSortedProg lt n).Typed L := by
  unfold isSortedProg
  split
  · exact .ret _
  · exact isSortedLoop_typed L lt _ _

theorem lexCompareProg_typed (L : Nat) (lt : List α → List α → Bool) (n1 n2 : Nat) (a b : Int) :
    (lexCompareProg lt n1 n2 a b).Typed L := by
  induction n1 generalizing n2 a b with
  | zero => cases n2 <;> exact .ret _
  | succ n1 ih =>
    cases n2 with
    | zero => exact .ret _
    | succ n2 =>
      rw [lexCompareProg]
      refine .read _ _ (fun x _ => .read _ _ (fun y _ => ?_))
      split
      · exact .ret _
      · split
        · exact .ret _
        · exact ih _ _ _

theorem removeLoop_typed (L : Nat) (p : List α → Bool) (n : Nat) (i r : Int) : (removeLoop p n i r).Typed L := by
  induction n generalizing i r with
  | zero => exact .ret _
  | succ n ih =>
    rw [removeLoop]
    refine .read _ _ (fun x _ => ?_)
    split
    · exact ih _ _
    · exact .assign _ _ _ (ih _ _)

theorem removeFind_typed (L : Nat) (p : List α → Bool) (n : Nat) (i : Int) : (removeFind p n i).Typed L := by
  induction n generalizing i with
  | zero => exact .ret _
  | succ n ih =>
    rw [removeFind]
    refine .read _ _ (fun x _ => ?_)
    split
    · exact removeLoop_typed L p _ _ _
    · exact ih _

theorem removeProg_typed (L : Nat) (p : List α → Bool) (n : Nat) : (removeProg p n).Typed L :=
  removeFind_typed L p n 0

theorem part_typed (L : Nat) (p : List α → Bool) (f : Nat) :
    (∀ lo hi : Int, (partFwd p f lo hi).Typed L) ∧ (∀ lo hi : Int, (partBwd p f lo hi).Typed L) := by
  induction f with
  | zero => exact ⟨fun _ _ => by rw [partFwd]; exact .ret _, fun _ _ => by rw [partBwd]; exact .ret _⟩
  | succ f ih =>
    constructor
    · intro lo hi
      rw [partFwd]
      split
      · exact .ret _
      · refine .read _ _ (fun x _ => ?_)
        split
        · exact ih.1 _ _
        · exact ih.2 _ _
    · intro lo hi
      rw [partBwd]
      split
      · exact .ret _
      · refine .read _ _ (fun x _ => ?_)
        split
        · exact .swap _ _ _ (ih.1 _ _)
        · exact ih.2 _ _

theorem partitionProg_typed (L : Nat) (p : List α → Bool) (n : Nat) : (partitionProg p n).Typed L :=
  (part_typed L p (n + 1)).1 _ _

theorem uniqueLoop_typed (L : Nat) (eq : List α → List α → Bool) (n : Nat) (d i : Int) : (uniqueLoop eq n d i).Typed L := by
  induction n generalizing d i with
  | zero => exact .ret _
  | succ n ih =>
    rw [uniqueLoop]
    refine .read _ _ (fun a _ => .read _ _ (fun b _ => ?_))
    split
    · exact ih _ _
    · exact .assign _ _ _ (ih _ _)

theorem uniqueFind_typed (L : Nat) (eq : List α → List α → Bool) (n : Nat) (i : Int) : (uniqueFind eq n i).Typed L := by
  induction n generalizing i with
  | zero => exact .ret _
  | succ n ih =>
    rw [uniqueFind]
    refine .read _ _ (fun a _ => .read _ _ (fun b _ => ?_))
    split
    · exact uniqueLoop_typed L eq _ _ _
    · exact ih _

theorem uniqueProg_typed (L : Nat) (eq : List α → List α → Bool) (n : Nat) : (uniqueProg eq n).Typed L := by
  unfold uniqueProg
  split
  · exact .ret _
  · exact uniqueFind_typed L eq _ _

theorem andThen_typed (L : Nat) (p k : Prog (List α)) (hp : p.Typed L) (hk : k.Typed L) : (p.andThen k).Typed L := by
  induction hp with
  | ret pos => exact hk
  | read i f _ ih => exact .read _ _ (fun x hx => ih x hx)
  | write i x p hx _ ih => exact .write _ _ _ hx ih
  | assign i j p _ ih => exact .assign _ _ _ ih
  | swap i j p _ ih => exact .swap _ _ _ ih

theorem linInsert_typed (L : Nat) (lt : List α → List α → Bool) (val : List α) (hv : val.length = L) (k : Prog (List α))
    (hk : k.Typed L) (f : Nat) (j : Int) : (linInsert lt val k f j).Typed L := by
  induction f generalizing j with
  | zero => exact .read _ _ (fun _ _ => .ret _)
  | succ f ih =>
    rw [linInsert]
    refine .read _ _ (fun nx _ => ?_)
    split
    · exact .assign _ _ _ (ih _)
    · exact .write _ _ _ hv hk

theorem insSortLoop_typed (L : Nat) (lt : List α → List α → Bool) (n : Nat) (i : Int) : (insSortLoop lt n i).Typed L := by
  induction n generalizing i with
  | zero => exact .ret _
  | succ n ih =>
    rw [insSortLoop]
    refine .read _ _ (fun x hx => .read _ _ (fun f0 _ => ?_))
    split
    · exact andThen_typed L _ _ (copyBackwardProg_typed _ _ _ _) (.write _ _ _ hx (ih _))
    · exact linInsert_typed L lt x hx _ (ih _) _ _

theorem insertionSortProg_typed (L : Nat) (lt : List α → List α → Bool) (n : Nat) : (insertionSortProg lt n).Typed L := by
  unfold insertionSortProg
  split
  · exact .ret _
  · exact insSortLoop_typed L lt _ _

end Multi
