/-
  C14 — LAPACK adaptor: orientation and argument logic of potrf / geqrf / gesvd / syev.

  What is proved: the integer/flag/pointer logic of the adaptor — which LAPACK matrix the arguments denote in terms of
  the LOGICAL view, which triangle is selected, which view is returned — for every size and every accepted layout, under
  stated LAPACK contracts (`PotrfPost`, `GesvdPost` in MultiModel/Lapack.lean, over a commutative ring: the real case).
  What cannot be proved: "within rounding error", the order of eigen/singular values, positive-definiteness detection —
  properties of the numerical library in floating point; they are validated by the correspondence run only.

    * `potrf_orientation`   both branches (row-major / `stride(A) == 1`), both triangles, contiguous or padded
    * `geqrf_arguments`     the (m, n, a, lda) passed denote the transpose of the logical view, legally, inside the view
    * `gesvd_arguments`, `gesvd_reconstructs`   A = UU·diag(ss)·VV for the views handed over
    * `syev_arguments`, `syev_result`, `syev_overloads`, `syev_eigenpairs`   both branches of the repaired syev.hpp
-/
import MultiProofs.C01
import MultiModel.Lapack
import MultiProofs.FftRoundtrip   -- sumTo lemmas

namespace Multi
namespace C14
open Lean.Grind

/-- a zero-based `p × q` matrix view: element `[i][j]` is at `base + i·stride₀ + j·stride₁` -/
theorem matrix_view (A : View) (d0 d1 : Dim) (p q : Int) (hp : 0 < p) (hq : 0 < q)
    (hlay : A.lay = [d0, d1]) (hwf : A.lay.WF) (hext : A.exts = [⟨0, p⟩, ⟨0, q⟩]) :
    (∀ i j : Int, A.addr [i, j] = A.base + i * d0.stride + j * d1.stride) ∧
    A.size = p ∧ A.size1 = q ∧ A.stride0 = d0.stride ∧ A.stride1 = d1.stride ∧ 0 < d0.stride ∧ 0 < d1.stride ∧
    A.rotated = ⟨A.base, [d1, d0]⟩ := by
  rw [hlay] at hwf
  have e : d0.ext = ⟨0, p⟩ ∧ d1.ext = ⟨0, q⟩ := by
    simp only [View.exts, hlay, Layout.exts, List.map_cons, List.map_nil, List.cons.injEq, and_true] at hext
    exact hext
  have dim0 : ∀ (d : Dim) (n : Int), 0 < n → d.WF → d.ext = ⟨0, n⟩ → d.offset = 0 ∧ d.size = n ∧ 0 < d.stride := by
    intro d n hn hd he
    rcases hd.cases with h0 | ⟨f, m, hm, hs, hf, _, he', hsz⟩
    · rw [Dim.ext_of_nelems_zero h0] at he; simp at he; omega
    · rw [he'] at he; simp at he
      obtain ⟨rfl, h2⟩ := he
      exact ⟨by rw [hf]; simp, by rw [hsz]; omega, hs⟩
  obtain ⟨o0, s0, t0⟩ := dim0 d0 p hp hwf.head e.1
  obtain ⟨o1, s1, t1⟩ := dim0 d1 q hq hwf.tail.head e.2
  refine ⟨?_, by simp [View.size, hlay, s0], by simp [View.size1, hlay, s1], by simp [View.stride0, hlay],
    by simp [View.stride1, hlay], t0, t1, by simp [View.rotated, hlay, Layout.rotate]⟩
  intro i j
  rw [addr_eq, hlay]
  simp only [Layout.off, o0, o1]; omega

/-- the leading block selected with the call syntax designates the view's own elements -/
theorem leading_block (A : View) (n r : Int) (hwf : A.lay.WF) (hext : A.exts = [⟨0, n⟩, ⟨0, n⟩]) (hr : 0 ≤ r ∧ r ≤ n) :
    ((A.paren [Arg.rng 0 r, Arg.rng 0 r]).exts = [Ext.norm ⟨0, r⟩, Ext.norm ⟨0, r⟩] ∧
      ∀ idx, InBox [Ext.norm ⟨0, r⟩, Ext.norm ⟨0, r⟩] idx → (A.paren [Arg.rng 0 r, Arg.rng 0 r]).addr idx = A.addr idx) ∧
    ((A.paren [Arg.rng 0 r]).exts = [Ext.norm ⟨0, r⟩, ⟨0, n⟩] ∧
      ∀ idx, InBox [Ext.norm ⟨0, r⟩, ⟨0, n⟩] idx → (A.paren [Arg.rng 0 r]).addr idx = A.addr idx) := by
  constructor
  · have dom : (Op.call [Arg.rng 0 r, Arg.rng 0 r]).InDomain A := by
      simp only [Op.InDomain, hext, argsInDomain, Arg.InDomain]; exact ⟨⟨by omega, hr.1, hr.2⟩, ⟨by omega, hr.1, hr.2⟩, trivial⟩
    obtain ⟨_, x2, x3⟩ := C01.op_refines (Op.call [Arg.rng 0 r, Arg.rng 0 r]) A hwf dom
    simp only [Op.apply, Op.specShape, hext, callShape, Op.specMap, Int.sub_zero, Int.zero_add] at x2 x3
    refine ⟨x2, ?_⟩
    intro idx hidx
    obtain ⟨y1, _⟩ := x3 idx hidx
    rw [y1]
    match idx, hidx with
    | [a, b], _ => simp [callMap]
  · have dom : (Op.call [Arg.rng 0 r]).InDomain A := by
      simp only [Op.InDomain, hext, argsInDomain, Arg.InDomain]; exact ⟨⟨by omega, hr.1, hr.2⟩, trivial⟩
    obtain ⟨_, x2, x3⟩ := C01.op_refines (Op.call [Arg.rng 0 r]) A hwf dom
    simp only [Op.apply, Op.specShape, hext, callShape, Op.specMap, Int.sub_zero, Int.zero_add] at x2 x3
    refine ⟨x2, ?_⟩
    intro idx hidx
    obtain ⟨y1, _⟩ := x3 idx hidx
    rw [y1]
    match idx, hidx with
    | [a, b], _ => simp [callMap]

section
variable {R : Type} [CommRing R]

/-- **potrf.**  `A` a zero-based `n×n` view that the adaptor accepts (unit leading stride, or unit inner stride),
    contiguous or padded, `uplo` either triangle; under LAPACK's contract for the call made:
    (1) the returned view is the leading `r×r` block of `A` (its own elements), `r = n` or `info − 1`, in both branches;
    (2) the selected LOGICAL triangle of the leading `r×r` block holds `T` with `TᵀT = A` (`upper`) resp. `TTᵀ = A` (`lower`)
        in the view's own index space, for both storage orientations;
    (3) only elements of that logical triangle of the view are written. -/
theorem potrf_orientation (uplo : Filling) (A : View) (d0 d1 : Dim) (n : Int) (hn : 0 < n)
    (hlay : A.lay = [d0, d1]) (hwf : A.lay.WF) (hext : A.exts = [⟨0, n⟩, ⟨0, n⟩])
    (hassert : potrfAsserts A = true) (info : Int) (mem mem' : Int → R)
    (hpost : PotrfPost (potrfCall uplo A) info mem mem') :
    let r := potrfOrder n info
    let ret := potrfResult A info
    let T := fun (p q : Nat) => mem' (A.addr [p, q])
    let A0 := fun (p q : Nat) => mem (A.addr [p, q])
    (0 ≤ r ∧ r ≤ n) ∧
    (ret.exts = [Ext.norm ⟨0, r⟩, Ext.norm ⟨0, r⟩]) ∧
    (∀ idx, InBox ret.exts idx → ret.addr idx = A.addr idx) ∧
    (uplo = .upper → ∀ i j : Nat, i ≤ j → (j : Int) < r → sumTo (i + 1) (fun k => T k i * T k j) = A0 i j) ∧
    (uplo = .lower → ∀ i j : Nat, j ≤ i → (i : Int) < r → sumTo (j + 1) (fun k => T i k * T j k) = A0 i j) ∧
    (∀ addr, (∀ i j : Nat, (i : Int) < n → (j : Int) < n → (uplo = .upper → i ≤ j) → (uplo = .lower → j ≤ i) → addr ≠ A.addr [i, j]) →
      mem' addr = mem addr) := by
  intro r ret T A0
  obtain ⟨haddr, hsz, hsz1, hs0, hs1, _, _, hrot⟩ := matrix_view A d0 d1 n n hn hn hlay hwf hext
  have hrs : A.rotated.size = n := by
    rw [hrot]; simp only [View.size]; simpa [View.size1, hlay] using hsz1
  by_cases hb : A.stride0 = 1
  · -- `stride(A) == 1`: LAPACK sees A itself, with the flipped filling
    have hd0 : d0.stride = 1 := by rw [← hs0]; exact hb
    have hcall : potrfCall uplo A = ⟨uplo.flip.char, n, A.base, d1.stride⟩ := by
      unfold potrfCall; rw [if_pos hb]; simp only [potrfIter, hrs]
      rw [hrot]; simp [View.stride0]
    rw [hcall] at hpost
    obtain ⟨hi0, hi1, hU, hL, hframe⟩ := hpost
    simp only at hi1 hU hL hframe
    have hr : 0 ≤ r ∧ r ≤ n := by simp only [r, potrfOrder]; split <;> omega
    have hcm : ∀ i j : Nat, colMajor A.base d1.stride i j = A.addr [(i : Int), (j : Int)] := by
      intro i j; rw [haddr, hd0]; simp only [colMajor]; omega
    have hretEq : ret = A.paren [Arg.rng 0 r, Arg.rng 0 r] := by
      simp only [ret, potrfResult]; rw [if_pos hb, hrs]
    obtain ⟨⟨b1, b2⟩, _⟩ := leading_block A n r hwf hext hr
    refine ⟨hr, by rw [hretEq]; exact b1, by rw [hretEq, b1]; exact b2, ?_, ?_, ?_⟩
    · intro hu i j hij hj
      subst hu
      have := hU (by decide) i j hij hj
      simp only [T, A0]
      rw [← hcm i j, ← this]
      apply sumTo_congr; intro k _
      rw [hcm k i, hcm k j]
    · intro hl i j hij hi
      subst hl
      have := hL (by decide) i j hij hi
      simp only [T, A0]
      rw [← hcm i j, ← this]
      apply sumTo_congr; intro k _
      rw [hcm i k, hcm j k]
    · intro addr hne
      apply hframe
      intro i j hi hj c1 c2
      rw [hcm i j]
      apply hne i j hi hj
      · intro hu; subst hu; exact c1 (by decide)
      · intro hl; subst hl; exact c2 (by decide)
  · -- row-major: LAPACK sees the transpose of A; the enum's character already accounts for it
    have hd1 : d1.stride = 1 := by
      have := hassert
      unfold potrfAsserts at this; rw [if_neg hb] at this
      simp only [potrfIterAsserts, beq_iff_eq] at this; rw [← hs1]; exact this
    have hcall : potrfCall uplo A = ⟨uplo.char, n, A.base, d0.stride⟩ := by
      unfold potrfCall; rw [if_neg hb]; simp only [potrfIter, hsz, hs0]
    rw [hcall] at hpost
    obtain ⟨hi0, hi1, hU, hL, hframe⟩ := hpost
    simp only at hi1 hU hL hframe
    have hr : 0 ≤ r ∧ r ≤ n := by simp only [r, potrfOrder]; split <;> omega
    have hcm : ∀ i j : Nat, colMajor A.base d0.stride i j = A.addr [(j : Int), (i : Int)] := by
      intro i j; rw [haddr, hd1]; simp only [colMajor]; omega
    have hretEq : ret = A.paren [Arg.rng 0 r, Arg.rng 0 r] := by
      simp only [ret, potrfResult]; rw [if_neg hb, hsz]
    obtain ⟨⟨b1, b2⟩, _⟩ := leading_block A n r hwf hext hr
    refine ⟨hr, by rw [hretEq]; exact b1, by rw [hretEq, b1]; exact b2, ?_, ?_, ?_⟩
    · intro hu i j hij hj
      subst hu
      have := hL (by decide) j i hij hj
      simp only [T, A0]
      rw [← hcm j i, ← this]
      apply sumTo_congr; intro k _
      rw [hcm j k, hcm i k]; grind
    · intro hl i j hij hi
      subst hl
      have := hU (by decide) j i hij hi
      simp only [T, A0]
      rw [← hcm j i, ← this]
      apply sumTo_congr; intro k _
      rw [hcm k j, hcm k i]; grind
    · intro addr hne
      apply hframe
      intro i j hi hj c1 c2
      rw [hcm i j]
      apply hne j i hj hi
      · intro hu; subst hu; exact c2 (by decide)
      · intro hl; subst hl; exact c1 (by decide)

/-- **gesvd reconstructs.**  Under LAPACK's contract for the call made, the three output views satisfy
    `AA = UU · diag(ss) · VV` elementwise in the views' own index spaces (so `VV` holds the transposed right singular
    vectors, as the header's parameter name `VTArray2D` says; `UU·diag(ss)·VVᵀ` is NOT what is computed). -/
theorem gesvd_reconstructs (AA UU ss VV : View) (a0 a1 u0 u1 v0 v1 sd : Dim) (p q : Int) (hp : 0 < p) (hq : 0 < q)
    (hA : AA.lay = [a0, a1]) (hAwf : AA.lay.WF) (hAe : AA.exts = [⟨0, p⟩, ⟨0, q⟩])
    (hU : UU.lay = [u0, u1]) (hUwf : UU.lay.WF) (hUe : UU.exts = [⟨0, p⟩, ⟨0, p⟩])
    (hV : VV.lay = [v0, v1]) (hVwf : VV.lay.WF) (hVe : VV.exts = [⟨0, q⟩, ⟨0, q⟩])
    (hS : ss.lay = [sd]) (hSwf : ss.lay.WF) (hSe : ss.exts = [⟨0, min p q⟩])
    (hassert : gesvdAsserts AA UU ss VV = true) (mem mem' : Int → R)
    (hpost : GesvdPost (gesvdCall AA UU ss VV) mem mem') :
    let c := gesvdCall AA UU ss VV
    (c.m = q ∧ c.n = p ∧ c.jobu = 'A' ∧ c.jobvt = 'A') ∧
    (∀ i j : Nat, colMajor c.a c.lda i j = AA.addr [(j : Int), (i : Int)]) ∧
    (∀ i k : Nat, colMajor c.u c.ldu i k = VV.addr [(k : Int), (i : Int)]) ∧
    (∀ k j : Nat, colMajor c.vt c.ldvt k j = UU.addr [(j : Int), (k : Int)]) ∧
    (∀ k : Nat, c.s + k = ss.addr [(k : Int)]) ∧
    (∀ i j : Nat, (i : Int) < p → (j : Int) < q →
      sumTo (min p q).toNat (fun k => mem' (UU.addr [(i : Int), (k : Int)]) * mem' (ss.addr [(k : Int)]) * mem' (VV.addr [(k : Int), (j : Int)]))
        = mem (AA.addr [(i : Int), (j : Int)])) := by
  intro c
  obtain ⟨aA, sA, sA1, tA0, tA1, _, _, _⟩ := matrix_view AA a0 a1 p q hp hq hA hAwf hAe
  obtain ⟨aU, sU, _, tU0, tU1, _, _, _⟩ := matrix_view UU u0 u1 p p hp hp hU hUwf hUe
  obtain ⟨aV, sV, _, tV0, tV1, _, _, _⟩ := matrix_view VV v0 v1 q q hq hq hV hVwf hVe
  simp only [gesvdAsserts, Bool.and_eq_true, beq_iff_eq] at hassert
  obtain ⟨⟨⟨⟨⟨⟨_, _⟩, _⟩, hA1⟩, hS1⟩, hU1⟩, hV1⟩ := hassert
  have hm : 0 < min p q := by omega
  -- the 1-D view of singular values
  have hsaddr : ∀ k : Int, ss.addr [k] = ss.base + k := by
    intro k
    rw [addr_eq, hS]
    rw [hS] at hSwf
    have e : sd.ext = ⟨0, min p q⟩ := by
      simp only [View.exts, hS, Layout.exts, List.map_cons, List.map_nil, List.cons.injEq, and_true] at hSe; exact hSe
    have hst : sd.stride = 1 := by simpa [View.stride0, hS] using hS1
    rcases hSwf.head.cases with h0 | ⟨f, m, _, _, hf, _, he, _⟩
    · rw [Dim.ext_of_nelems_zero h0] at e; simp at e; omega
    · rw [he] at e; simp at e
      simp only [Layout.off, hf, hst, e.1]; omega
  have hcm : c = ⟨'A', 'A', q, p, AA.base, a0.stride, ss.base, VV.base, v0.stride, UU.base, u0.stride⟩ := by
    simp only [c, gesvdCall, sV, sU, tA0, tV0, tU0]
  have e1 : a1.stride = 1 := by rw [← tA1]; exact hA1
  have e2 : u1.stride = 1 := by rw [← tU1]; exact hU1
  have e3 : v1.stride = 1 := by rw [← tV1]; exact hV1
  have cA : ∀ i j : Nat, colMajor c.a c.lda i j = AA.addr [(j : Int), (i : Int)] := by
    intro i j; rw [hcm, aA, e1]; simp only [colMajor]; omega
  have cU : ∀ i k : Nat, colMajor c.u c.ldu i k = VV.addr [(k : Int), (i : Int)] := by
    intro i k; rw [hcm, aV, e3]; simp only [colMajor]; omega
  have cV : ∀ k j : Nat, colMajor c.vt c.ldvt k j = UU.addr [(j : Int), (k : Int)] := by
    intro k j; rw [hcm, aU, e2]; simp only [colMajor]; omega
  have cS : ∀ k : Nat, c.s + k = ss.addr [(k : Int)] := by
    intro k; rw [hcm, hsaddr]
  refine ⟨by rw [hcm]; exact ⟨rfl, rfl, rfl, rfl⟩, cA, cU, cV, cS, ?_⟩
  intro i j hi hj
  have := hpost j i (by show (j : Int) < c.m; rw [hcm]; exact hj) (by show (i : Int) < c.n; rw [hcm]; exact hi)
  change sumTo (min c.m c.n).toNat _ = mem (colMajor c.a c.lda j i) at this
  rw [cA j i] at this
  rw [← this]
  have hmn : min c.m c.n = min p q := by rw [hcm]; simp only; omega
  rw [hmn]
  apply sumTo_congr
  intro k _
  rw [cU j k, cV k i, cS k]
  grind

end

/-- **geqrf.**  For a zero-based `p×q` view with unit inner stride (row-major, contiguous or padded; this precondition is
    asserted by geqrf.hpp:40 since the fix commit), the arguments denote the `q×p` column-major matrix `aaᵀ`, element by
    element inside the view; they are legal for LAPACK exactly when the rows of the view do not overlap. -/
theorem geqrf_arguments (aa tau : View) (d0 d1 : Dim) (p q : Int) (hp : 0 < p) (hq : 0 < q)
    (hlay : aa.lay = [d0, d1]) (hwf : aa.lay.WF) (hext : aa.exts = [⟨0, p⟩, ⟨0, q⟩]) (hin : aa.stride1 = 1) :
    let c := geqrfCall aa tau
    c.m = q ∧ c.n = p ∧ c.a = aa.base ∧ c.tau = tau.base ∧
    (∀ i j : Nat, colMajor c.a c.lda i j = aa.addr [(j : Int), (i : Int)]) ∧
    (max 1 c.m ≤ c.lda ↔ q ≤ d0.stride) := by
  intro c
  obtain ⟨ha, s0, s1, t0, t1, _, _, _⟩ := matrix_view aa d0 d1 p q hp hq hlay hwf hext
  have e1 : d1.stride = 1 := by rw [← t1]; exact hin
  have hc : c = ⟨q, p, aa.base, d0.stride, tau.base⟩ := by simp only [c, geqrfCall, s0, s1, t0]
  refine ⟨by rw [hc], by rw [hc], by rw [hc], by rw [hc], ?_, ?_⟩
  · intro i j; rw [hc, ha, e1]; simp only [colMajor]; omega
  · rw [hc]; simp only; omega

/-- without the unit inner stride the same arguments do NOT denote the view: LAPACK's element (1,0) is the cell right
    after the first element, which is not the view's `[0][1]` — which is why geqrf asserts the unit inner stride -/
theorem geqrf_needs_unit_inner_stride (aa tau : View) (d0 d1 : Dim) (p q : Int) (hp : 0 < p) (hq : 0 < q)
    (hlay : aa.lay = [d0, d1]) (hwf : aa.lay.WF) (hext : aa.exts = [⟨0, p⟩, ⟨0, q⟩]) (hin : aa.stride1 ≠ 1) :
    colMajor (geqrfCall aa tau).a (geqrfCall aa tau).lda 1 0 ≠ aa.addr [0, 1] := by
  obtain ⟨ha, _, _, _, t1, _, _, _⟩ := matrix_view aa d0 d1 p q hp hq hlay hwf hext
  rw [ha]; simp only [geqrfCall, colMajor]
  rw [t1] at hin; omega

/-- **syev.**  For a zero-based `n×n` view: with unit inner stride LAPACK sees `aᵀ`, is told the opposite triangle character
    (so that it reads the LOGICAL triangle `uplo`), and its eigenvector `k` (a column of LAPACK's matrix) is ROW `k` of the
    view; with unit leading stride LAPACK sees `a` itself, the same triangle, and eigenvector `k` is COLUMN `k` of the view;
    any other layout hits `assert(0)`.  In both branches `w`, `work` and `lwork = size(work)` are passed as given. -/
theorem syev_arguments (uplo : Filling) (a w work : View) (d0 d1 : Dim) (n : Int) (hn : 0 < n)
    (hlay : a.lay = [d0, d1]) (hwf : a.lay.WF) (hext : a.exts = [⟨0, n⟩, ⟨0, n⟩]) :
    (a.stride1 = 1 → ∃ c, syevCall uplo a w work = some c ∧ c.jobz = 'V' ∧ c.n = n ∧ c.w = w.base ∧
        c.work = work.base ∧ c.lwork = work.size ∧ c.lda = d0.stride ∧
        c.uplo = (match uplo with | .upper => 'L' | .lower => 'U') ∧
        ∀ i j : Nat, colMajor c.a c.lda i j = a.addr [(j : Int), (i : Int)]) ∧
    (a.stride1 ≠ 1 → a.stride0 = 1 → ∃ c, syevCall uplo a w work = some c ∧ c.jobz = 'V' ∧ c.n = n ∧ c.w = w.base ∧
        c.work = work.base ∧ c.lwork = work.size ∧ c.lda = d1.stride ∧
        c.uplo = (match uplo with | .upper => 'U' | .lower => 'L') ∧
        ∀ i j : Nat, colMajor c.a c.lda i j = a.addr [(i : Int), (j : Int)]) ∧
    (a.stride1 ≠ 1 → a.stride0 ≠ 1 → syevCall uplo a w work = none) := by
  obtain ⟨ha, s0, _, t0, t1, _, _, _⟩ := matrix_view a d0 d1 n n hn hn hlay hwf hext
  refine ⟨?_, ?_, ?_⟩
  · intro h1
    refine ⟨_, by unfold syevCall; rw [if_pos h1], rfl, s0, rfl, rfl, rfl, t0, by cases uplo <;> simp, ?_⟩
    intro i j
    have e1 : d1.stride = 1 := by rw [← t1]; exact h1
    simp only [colMajor, t0]; rw [ha, e1]; omega
  · intro h1 h0
    refine ⟨_, by unfold syevCall; rw [if_neg h1, if_pos h0], rfl, s0, rfl, rfl, rfl, t1, by cases uplo <;> simp, ?_⟩
    intro i j
    have e0 : d0.stride = 1 := by rw [← t0]; exact h0
    simp only [colMajor, t1]; rw [ha, e0]; omega
  · intro h1 h0
    unfold syevCall; rw [if_neg h1, if_neg h0]

/-- the view `syev` returns, `a({0, n − info}, {0, n − info})`, is the leading `(n − info)`-block of `a` itself — the whole
    view when LAPACK reports success (`info = 0`) -/
theorem syev_result (a : View) (n info : Int) (hwf : a.lay.WF) (hext : a.exts = [⟨0, n⟩, ⟨0, n⟩]) (hn : 0 < n)
    (d0 d1 : Dim) (hlay : a.lay = [d0, d1]) (hi : 0 ≤ info ∧ info ≤ n) :
    (syevResult a info).exts = [Ext.norm ⟨0, n - info⟩, Ext.norm ⟨0, n - info⟩] ∧
    (∀ idx, InBox [Ext.norm ⟨0, n - info⟩, Ext.norm ⟨0, n - info⟩] idx → (syevResult a info).addr idx = a.addr idx) ∧
    (info = 0 → (syevResult a info).exts = a.exts) := by
  obtain ⟨_, s0, _, _, _, _, _, _⟩ := matrix_view a d0 d1 n n hn hn hlay hwf hext
  obtain ⟨⟨b1, b2⟩, _⟩ := leading_block a n (n - info) hwf hext (by omega)
  have e : syevResult a info = a.paren [Arg.rng 0 (n - info), Arg.rng 0 (n - info)] := by simp only [syevResult, s0]
  refine ⟨by rw [e]; exact b1, by rw [e]; exact b2, ?_⟩
  intro h0
  rw [e, b1, hext, h0]
  have : Ext.norm ⟨0, n - 0⟩ = ⟨0, n⟩ := by unfold Ext.norm; simp; omega
  rw [this]

/-- the convenience overloads: the workspace they allocate satisfies the routine's own assertion, and the `const&`
    overloads run on a fresh ROW-major copy (so they take the first branch and return eigenvectors as rows, whatever the
    storage order of the input) -/
theorem syev_overloads (a w : View) (n : Int) (hn : 0 < n) (hsz : a.size = n) (hexts : a.exts = [⟨0, n⟩, ⟨0, n⟩])
    (hw : w.size = n ∧ w.stride0 = 1) (fb1 fb2 : Int) :
    syevAsserts a w (syevAutoWork a fb1) = true ∧
    (decayView a fb2).stride1 = 1 ∧ (decayView a fb2).stride0 = n ∧ (decayView a fb2).exts = [⟨0, n⟩, ⟨0, n⟩] := by
  have hm : 0 < max 1 (3 * n - 1) := by omega
  have e : syevAutoWork a fb1 = ⟨fb1, Layout.ofExts [⟨0, max 1 (3 * n - 1)⟩]⟩ := by simp only [syevAutoWork, hsz]
  have hws : (syevAutoWork a fb1).size = max 1 (3 * n - 1) ∧ (syevAutoWork a fb1).stride0 = 1 := by
    rw [e]
    simp only [View.size, View.stride0, Layout.ofExts, Layout.numElements, Ext.size]
    constructor
    · have h := Dim.size_mk (s := 1) (f := 0) (n := max 1 (3 * n - 1)) (by omega) hm
      simpa using h
    · simp
  refine ⟨?_, ?_, ?_, ?_⟩
  · simp only [syevAsserts, Bool.and_eq_true, decide_eq_true_eq, beq_iff_eq]
    rw [hws.1, hws.2, hsz, hw.1, hw.2]
    exact ⟨⟨⟨by omega, rfl⟩, rfl⟩, rfl⟩
  · have e2 : decayView a fb2 = ⟨fb2, Layout.ofExts [⟨0, n⟩, ⟨0, n⟩]⟩ := by simp only [decayView, hexts]
    rw [e2]; simp [View.stride1, Layout.ofExts, Layout.numElements]
  · have e2 : decayView a fb2 = ⟨fb2, Layout.ofExts [⟨0, n⟩, ⟨0, n⟩]⟩ := by simp only [decayView, hexts]
    have : n ≠ 0 := by omega
    rw [e2]; simp [View.stride0, Layout.ofExts, Layout.numElements, Dim.size, Ext.size, this]
  · have e2 : decayView a fb2 = ⟨fb2, Layout.ofExts [⟨0, n⟩, ⟨0, n⟩]⟩ := by simp only [decayView, hexts]
    have := (C01.root_denotes [⟨0, n⟩, ⟨0, n⟩] (by intro e he; simp at he; rcases he with rfl | rfl <;> simp <;> omega)).2.1
    rw [e2]; show (Layout.ofExts [⟨0, n⟩, ⟨0, n⟩]).exts = _
    rw [this]
    have hnn : n * n ≠ 0 := Int.ne_of_gt (Int.mul_pos hn hn)
    have hn0 : n ≠ 0 := by omega
    simp [collapse, nElems, Ext.size, hnn, hn0]

section
variable {R : Type} [CommRing R]

/-- the symmetric matrix a view denotes through its selected triangle -/
def symOf (uplo : Filling) (A : Nat → Nat → R) (i j : Nat) : R :=
  match uplo with
  | .upper => if i ≤ j then A i j else A j i
  | .lower => if j ≤ i then A i j else A j i

/-- **syev computes eigenpairs of the LOGICAL symmetric matrix.**  Under LAPACK's contract for the call made, with
    `S = symOf uplo (a before)`: in the unit-inner-stride branch ROW `k` of `a` is an eigenvector,
    `Σ_j S(i,j)·a'[k][j] = w'[k]·a'[k][i]`; in the unit-leading-stride branch COLUMN `k` is,
    `Σ_j S(i,j)·a'[j][k] = w'[k]·a'[i][k]` — for either triangle, contiguous or padded. -/
theorem syev_eigenpairs (uplo : Filling) (a w work : View) (d0 d1 wd : Dim) (n : Int) (hn : 0 < n)
    (hlay : a.lay = [d0, d1]) (hwf : a.lay.WF) (hext : a.exts = [⟨0, n⟩, ⟨0, n⟩])
    (hwl : w.lay = [wd]) (hwwf : w.lay.WF) (hwe : w.exts = [⟨0, n⟩]) (hws : w.stride0 = 1)
    (c : SyevCall) (hc : syevCall uplo a w work = some c) (mem mem' : Int → R) (hpost : SyevPost c mem mem') :
    let A0 := fun (p q : Nat) => mem (a.addr [p, q])
    let A1 := fun (p q : Nat) => mem' (a.addr [p, q])
    let W := fun (k : Nat) => mem' (w.addr [k])
    (a.stride1 = 1 → ∀ i k : Nat, (i : Int) < n → (k : Int) < n →
      sumTo n.toNat (fun j => symOf uplo A0 i j * A1 k j) = W k * A1 k i) ∧
    (a.stride1 ≠ 1 → ∀ i k : Nat, (i : Int) < n → (k : Int) < n →
      sumTo n.toNat (fun j => symOf uplo A0 i j * A1 j k) = W k * A1 i k) := by
  intro A0 A1 W
  obtain ⟨r1, r2, r3⟩ := syev_arguments uplo a w work d0 d1 n hn hlay hwf hext
  -- the eigenvalue vector: w[k] is at w.base + k
  have hwaddr : ∀ k : Int, w.addr [k] = w.base + k := by
    intro k
    rw [addr_eq, hwl]
    rw [hwl] at hwwf
    have e : wd.ext = ⟨0, n⟩ := by
      simp only [View.exts, hwl, Layout.exts, List.map_cons, List.map_nil, List.cons.injEq, and_true] at hwe; exact hwe
    have hst : wd.stride = 1 := by simpa [View.stride0, hwl] using hws
    rcases hwwf.head.cases with h0 | ⟨f, m, _, _, hf, _, he, _⟩
    · rw [Dim.ext_of_nelems_zero h0] at e; simp at e; omega
    · rw [he] at e; simp at e
      simp only [Layout.off, hf, hst, e.1]; omega
  constructor
  · intro h1 i k hi hk
    obtain ⟨c', e1, _, e3, e4, _, _, _, e8, e9⟩ := r1 h1
    rw [hc] at e1; cases e1
    have hp := hpost i k (by rw [e3]; exact hi) (by rw [e3]; exact hk)
    rw [e3] at hp
    simp only [A0, A1, W]
    rw [hwaddr k, ← e4, ← e9 i k]
    rw [← hp]
    apply sumTo_congr
    intro j _
    rw [← e9 j k]
    congr 1
    cases uplo
    · -- lower: character 'U'
      simp only [symOf, e8]
      rw [e9 i j, e9 j i]
      by_cases hji : j ≤ i
      · by_cases hij : i ≤ j
        · have : i = j := by omega
          subst this; simp
        · simp [hji, hij]
      · have hij : i ≤ j := by omega
        simp [hji, hij]
    · -- upper: character 'L'
      simp only [symOf, e8]
      rw [e9 i j, e9 j i]
      by_cases hij : i ≤ j
      · by_cases hji : j ≤ i
        · have : i = j := by omega
          subst this; simp
        · simp [hji, hij]
      · have hji : j ≤ i := by omega
        simp [hji, hij]
  · intro h1 i k hi hk
    by_cases h0 : a.stride0 = 1
    · obtain ⟨c', e1, _, e3, e4, _, _, _, e8, e9⟩ := r2 h1 h0
      rw [hc] at e1; cases e1
      have hp := hpost i k (by rw [e3]; exact hi) (by rw [e3]; exact hk)
      rw [e3] at hp
      simp only [A0, A1, W]
      rw [hwaddr k, ← e4, ← e9 i k]
      rw [← hp]
      apply sumTo_congr
      intro j _
      rw [← e9 j k]
      congr 1
      cases uplo
      · simp only [symOf, e8]
        rw [e9 i j, e9 j i]
        simp
      · simp only [symOf, e8]
        rw [e9 i j, e9 j i]
        simp
    · rw [r3 h1 h0] at hc; cases hc

end

/-! non-vacuity: a padded 3×3 row-major block and its transpose satisfy the hypotheses of `potrf_orientation`, and the two
    calls differ exactly by the flipped character and the same leading dimension -/
example :
    let A : View := ((⟨10, Layout.ofExts [⟨0, 4⟩, ⟨0, 5⟩]⟩ : View).sliced 0 3).paren [Arg.all, Arg.rng 0 3]
    A.exts = [⟨0, 3⟩, ⟨0, 3⟩] ∧ potrfAsserts A = true ∧ potrfAsserts A.rotated = true ∧
    potrfCall .upper A = ⟨'L', 3, 10, 5⟩ ∧ potrfCall .upper A.rotated = ⟨'U', 3, 10, 5⟩ := by
  decide +kernel

end C14
end Multi
