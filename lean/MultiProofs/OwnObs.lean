/-
  MultiProofs.OwnObs — the abstraction is what the correspondence run observes: reading a valid array element by element
  through its index tuples (`Own.elems`, what `q arr` prints) yields exactly the cells of its block in storage order.
-/
import MultiProofs.OwnBox
import MultiProofs.OwnOps

namespace Multi
namespace Own
variable {α : Type}

theorem range_map_getElem? (cs : List (Cell α)) (n : Nat) (hn : n ≤ cs.length) :
    (List.range n).map (fun k => cs[k]?) = (cs.take n).map some := by
  apply List.ext_getElem?
  intro i
  by_cases hi : i < n
  · have h1 : i < cs.length := by omega
    simp [hi, h1, List.getElem?_take]
  · simp [hi, List.getElem?_take]

/-- **observation = abstraction**: the elements read through `A[i][j]…` in canonical order are the cells of the block, in order -/
theorem elems_eq_cells {h : Heap α} {a : Arr} (hv : Valid h a) : elems h a = (cellsOf h a).map some := by
  obtain ⟨es, hes, hlay⟩ := hv.shape
  have hx : a.exts = collapse es := by unfold Arr.exts; rw [hlay, ofExts_exts hes]
  have hok := hv.exts_ok
  have hrank := boxIndices_rank a.exts hok
  rw [hv.nElems_exts] at hrank
  unfold elems
  rcases hv.store with hz | ⟨d, cs, hd, hl, hlen⟩
  · have hnil : boxIndices a.exts = [] := by
      have := congrArg List.length hrank
      simp [hz] at this
      exact this
    rw [hnil, cellsOf_zero hz]; rfl
  · have key : ∀ idx ∈ boxIndices a.exts, readAt h a idx = cs[(rowMajor a.exts idx).toNat]? := by
      intro idx hidx
      have hin := boxIndices_inBox a.exts hok idx hidx
      have hin' : InBox (collapse es) idx := hx ▸ hin
      have hce := collapse_of_inBox es idx hin'
      obtain ⟨_, _, _, haddr⟩ := C01.root_denotes es hes
      obtain ⟨a1, a2, a3⟩ := haddr idx hin'
      have haddr' : a.view.addr idx = rowMajor es idx := by
        rw [addr_eq]; simp only [Arr.view, hlay, a1]; omega
      unfold readAt
      rw [haddr', hd, hx, hce]
      obtain ⟨q, hq⟩ := Int.eq_ofNat_of_zero_le a2
      rw [hq, show ((q : Nat) : Int) = Int.ofNat q from rfl, read_live hl]
      simp
    rw [List.map_congr_left key]
    have : List.map (fun idx => cs[(rowMajor a.exts idx).toNat]?) (boxIndices a.exts)
        = List.map (fun k => cs[k]?) (List.map (fun idx => (rowMajor a.exts idx).toNat) (boxIndices a.exts)) := by
      rw [List.map_map]; rfl
    rw [this, hrank, range_map_getElem? cs _ (by rw [hlen]; exact Nat.le_refl _), cellsOf_live hd hl]

end Own
end Multi
