/-
  MultiProofs.StoreLemmas — helper lemmas for C05 / C07 / C03: the loops of MultiModel.Store expressed over the
  lists of addresses they visit, and list-level facts about sequential copy / swap / fill / compare.
-/
import MultiProofs.ElemOrder

namespace Multi

variable {α : Type}

theorem Mem.write_same (m : Mem α) (a : Int) (x : α) : (m.write a x) a = x := by simp [Mem.write]
theorem Mem.write_other (m : Mem α) {a b : Int} (x : α) (h : b ≠ a) : (m.write a x) b = m b := by simp [Mem.write, h]
theorem Mem.write_self (m : Mem α) (a : Int) : m.write a (m a) = m := by
  funext b; simp only [Mem.write]; split
  · rename_i h; rw [h]
  · rfl

/-! ### sequential copy over a list of (destination, source) address pairs -/

def copyList : List (Int × Int) → Mem α → Mem α
  | [], m => m
  | p :: ps, m => copyList ps (m.write p.1 (m p.2))

theorem copyN_eq (n : Nat) (s d : ElemIt) (m : Mem α) :
    ElemIt.copyN n s d m = copyList ((ElemIt.addrs n d).zip (ElemIt.addrs n s)) m := by
  induction n generalizing s d m with
  | zero => rfl
  | succ n ih => simp only [ElemIt.copyN, ElemIt.addrs, List.zip_cons_cons, copyList, ih]

theorem copyList_not_mem (ps : List (Int × Int)) (m : Mem α) (a : Int) (h : a ∉ ps.map Prod.fst) :
    copyList ps m a = m a := by
  induction ps generalizing m with
  | nil => rfl
  | cons p ps ih =>
    simp only [List.map_cons, List.mem_cons, not_or] at h
    rw [copyList, ih _ h.2, Mem.write_other _ _ h.1]

theorem copyList_self (ps : List (Int × Int)) (m : Mem α) (h : ∀ p ∈ ps, p.1 = p.2) : copyList ps m = m := by
  induction ps generalizing m with
  | nil => rfl
  | cons p ps ih =>
    rw [copyList, h p (by simp), Mem.write_self]
    exact ih m (fun q hq => h q (List.mem_cons_of_mem _ hq))

/-- copying `g i ↦ f i` over an index list: every destination receives the original source value, nothing else changes -/
theorem copyList_spec {ι : Type} (L : List ι) (f g : ι → Int) (m : Mem α) (hnd : L.Nodup)
    (hinj : ∀ i ∈ L, ∀ j ∈ L, f i = f j → i = j) (hdis : ∀ i ∈ L, ∀ j ∈ L, f i ≠ g j) :
    (∀ i ∈ L, copyList ((L.map f).zip (L.map g)) m (f i) = m (g i)) ∧
    (∀ a, a ∉ L.map f → copyList ((L.map f).zip (L.map g)) m a = m a) := by
  constructor
  · induction L generalizing m with
    | nil => intro i hi; simp at hi
    | cons i0 L ih =>
      have hnd' := List.nodup_cons.mp hnd
      have ih' := ih (m.write (f i0) (m (g i0))) hnd'.2
        (fun i hi j hj => hinj i (List.mem_cons_of_mem _ hi) j (List.mem_cons_of_mem _ hj))
        (fun i hi j hj => hdis i (List.mem_cons_of_mem _ hi) j (List.mem_cons_of_mem _ hj))
      intro i hi
      simp only [List.map_cons, List.zip_cons_cons, copyList]
      rcases List.mem_cons.mp hi with rfl | hi'
      · rw [copyList_not_mem, Mem.write_same]
        rw [List.zip_map', List.map_map]
        intro hc
        simp only [List.mem_map, Function.comp] at hc
        obtain ⟨j, hj, hfj⟩ := hc
        have := hinj j (List.mem_cons_of_mem _ hj) i (by simp) hfj
        subst this
        exact hnd'.1 hj
      · rw [ih' i hi', Mem.write_other]
        exact fun hc => hdis i0 (by simp) i hi hc.symm
  · intro a ha
    apply (copyList_not_mem _ _ _ _).trans rfl
    rw [List.zip_map', List.map_map]
    exact ha

/-! ### sequential swap -/

def swapList : List (Int × Int) → Mem α → Mem α
  | [], m => m
  | p :: ps, m => swapList ps ((m.write p.1 (m p.2)).write p.2 (m p.1))

theorem swapN_eq (n : Nat) (a b : ElemIt) (m : Mem α) :
    ElemIt.swapN n a b m = swapList ((ElemIt.addrs n a).zip (ElemIt.addrs n b)) m := by
  induction n generalizing a b m with
  | zero => rfl
  | succ n ih => simp only [ElemIt.swapN, ElemIt.addrs, List.zip_cons_cons, swapList, ih]

theorem swapList_not_mem (ps : List (Int × Int)) (m : Mem α) (a : Int) (h1 : a ∉ ps.map Prod.fst)
    (h2 : a ∉ ps.map Prod.snd) : swapList ps m a = m a := by
  induction ps generalizing m with
  | nil => rfl
  | cons p ps ih =>
    simp only [List.map_cons, List.mem_cons, not_or] at h1 h2
    rw [swapList, ih _ h1.2 h2.2, Mem.write_other _ _ h2.1, Mem.write_other _ _ h1.1]

theorem swapList_spec {ι : Type} (L : List ι) (f g : ι → Int) (m : Mem α) (hnd : L.Nodup)
    (hf : ∀ i ∈ L, ∀ j ∈ L, f i = f j → i = j) (hg : ∀ i ∈ L, ∀ j ∈ L, g i = g j → i = j)
    (hdis : ∀ i ∈ L, ∀ j ∈ L, f i ≠ g j) :
    (∀ i ∈ L, swapList ((L.map f).zip (L.map g)) m (f i) = m (g i) ∧
              swapList ((L.map f).zip (L.map g)) m (g i) = m (f i)) ∧
    (∀ a, a ∉ L.map f → a ∉ L.map g → swapList ((L.map f).zip (L.map g)) m a = m a) := by
  constructor
  · induction L generalizing m with
    | nil => intro i hi; simp at hi
    | cons i0 L ih =>
      have hnd' := List.nodup_cons.mp hnd
      have ih' := ih ((m.write (f i0) (m (g i0))).write (g i0) (m (f i0))) hnd'.2
        (fun i hi j hj => hf i (List.mem_cons_of_mem _ hi) j (List.mem_cons_of_mem _ hj))
        (fun i hi j hj => hg i (List.mem_cons_of_mem _ hi) j (List.mem_cons_of_mem _ hj))
        (fun i hi j hj => hdis i (List.mem_cons_of_mem _ hi) j (List.mem_cons_of_mem _ hj))
      have nf : ∀ j ∈ L, f j ≠ f i0 := fun j hj hc =>
        hnd'.1 ((hf j (List.mem_cons_of_mem _ hj) i0 (by simp) hc) ▸ hj)
      have ng : ∀ j ∈ L, g j ≠ g i0 := fun j hj hc =>
        hnd'.1 ((hg j (List.mem_cons_of_mem _ hj) i0 (by simp) hc) ▸ hj)
      have d0 : f i0 ≠ g i0 := hdis i0 (by simp) i0 (by simp)
      intro i hi
      simp only [List.map_cons, List.zip_cons_cons, swapList]
      rcases List.mem_cons.mp hi with rfl | hi'
      · have m1 : f i ∉ (((L.map f).zip (L.map g)).map Prod.fst) := by
          rw [List.zip_map', List.map_map]; intro hc
          simp only [List.mem_map, Function.comp] at hc
          obtain ⟨j, hj, hfj⟩ := hc; exact nf j hj hfj
        have m2 : f i ∉ (((L.map f).zip (L.map g)).map Prod.snd) := by
          rw [List.zip_map', List.map_map]; intro hc
          simp only [List.mem_map, Function.comp] at hc
          obtain ⟨j, hj, hfj⟩ := hc; exact hdis i (by simp) j (List.mem_cons_of_mem _ hj) hfj.symm
        have m3 : g i ∉ (((L.map f).zip (L.map g)).map Prod.fst) := by
          rw [List.zip_map', List.map_map]; intro hc
          simp only [List.mem_map, Function.comp] at hc
          obtain ⟨j, hj, hfj⟩ := hc; exact hdis j (List.mem_cons_of_mem _ hj) i (by simp) hfj
        have m4 : g i ∉ (((L.map f).zip (L.map g)).map Prod.snd) := by
          rw [List.zip_map', List.map_map]; intro hc
          simp only [List.mem_map, Function.comp] at hc
          obtain ⟨j, hj, hfj⟩ := hc; exact ng j hj hfj
        rw [swapList_not_mem _ _ _ m1 m2, swapList_not_mem _ _ _ m3 m4, Mem.write_other _ _ d0, Mem.write_same,
          Mem.write_same]
        exact ⟨rfl, rfl⟩
      · obtain ⟨e1, e2⟩ := ih' i hi'
        rw [e1, e2, Mem.write_other _ _ (ng i hi'),
          Mem.write_other _ _ (fun hc => hdis i0 (by simp) i hi hc.symm),
          Mem.write_other _ _ (hdis i hi i0 (by simp)), Mem.write_other _ _ (nf i hi')]
        exact ⟨rfl, rfl⟩
  · intro a ha hb
    apply swapList_not_mem
    · rw [List.zip_map', List.map_map]; exact ha
    · rw [List.zip_map', List.map_map]; exact hb

/-! ### sequential move -/

def moveList (moved : α) : List (Int × Int) → Mem α → Mem α
  | [], m => m
  | p :: ps, m => moveList moved ps ((m.write p.1 (m p.2)).write p.2 moved)

theorem moveN_eq (moved : α) (n : Nat) (s d : ElemIt) (m : Mem α) :
    ElemIt.moveN moved n s d m = moveList moved ((ElemIt.addrs n d).zip (ElemIt.addrs n s)) m := by
  induction n generalizing s d m with
  | zero => rfl
  | succ n ih => simp only [ElemIt.moveN, ElemIt.addrs, List.zip_cons_cons, moveList, ih]

theorem moveList_not_mem (moved : α) (ps : List (Int × Int)) (m : Mem α) (a : Int) (h1 : a ∉ ps.map Prod.fst)
    (h2 : a ∉ ps.map Prod.snd) : moveList moved ps m a = m a := by
  induction ps generalizing m with
  | nil => rfl
  | cons p ps ih =>
    simp only [List.map_cons, List.mem_cons, not_or] at h1 h2
    rw [moveList, ih _ h1.2 h2.2, Mem.write_other _ _ h2.1, Mem.write_other _ _ h1.1]

theorem moveList_spec {ι : Type} (moved : α) (L : List ι) (f g : ι → Int) (m : Mem α) (hnd : L.Nodup)
    (hf : ∀ i ∈ L, ∀ j ∈ L, f i = f j → i = j) (hg : ∀ i ∈ L, ∀ j ∈ L, g i = g j → i = j)
    (hdis : ∀ i ∈ L, ∀ j ∈ L, f i ≠ g j) :
    (∀ i ∈ L, moveList moved ((L.map f).zip (L.map g)) m (f i) = m (g i) ∧
              moveList moved ((L.map f).zip (L.map g)) m (g i) = moved) ∧
    (∀ a, a ∉ L.map f → a ∉ L.map g → moveList moved ((L.map f).zip (L.map g)) m a = m a) := by
  constructor
  · induction L generalizing m with
    | nil => intro i hi; simp at hi
    | cons i0 L ih =>
      have hnd' := List.nodup_cons.mp hnd
      have ih' := ih ((m.write (f i0) (m (g i0))).write (g i0) moved) hnd'.2
        (fun i hi j hj => hf i (List.mem_cons_of_mem _ hi) j (List.mem_cons_of_mem _ hj))
        (fun i hi j hj => hg i (List.mem_cons_of_mem _ hi) j (List.mem_cons_of_mem _ hj))
        (fun i hi j hj => hdis i (List.mem_cons_of_mem _ hi) j (List.mem_cons_of_mem _ hj))
      have nf : ∀ j ∈ L, f j ≠ f i0 := fun j hj hc =>
        hnd'.1 ((hf j (List.mem_cons_of_mem _ hj) i0 (by simp) hc) ▸ hj)
      have ng : ∀ j ∈ L, g j ≠ g i0 := fun j hj hc =>
        hnd'.1 ((hg j (List.mem_cons_of_mem _ hj) i0 (by simp) hc) ▸ hj)
      have d0 : f i0 ≠ g i0 := hdis i0 (by simp) i0 (by simp)
      intro i hi
      simp only [List.map_cons, List.zip_cons_cons, moveList]
      rcases List.mem_cons.mp hi with rfl | hi'
      · have m1 : f i ∉ (((L.map f).zip (L.map g)).map Prod.fst) := by
          rw [List.zip_map', List.map_map]; intro hc
          simp only [List.mem_map, Function.comp] at hc
          obtain ⟨j, hj, hfj⟩ := hc; exact nf j hj hfj
        have m2 : f i ∉ (((L.map f).zip (L.map g)).map Prod.snd) := by
          rw [List.zip_map', List.map_map]; intro hc
          simp only [List.mem_map, Function.comp] at hc
          obtain ⟨j, hj, hfj⟩ := hc; exact hdis i (by simp) j (List.mem_cons_of_mem _ hj) hfj.symm
        have m3 : g i ∉ (((L.map f).zip (L.map g)).map Prod.fst) := by
          rw [List.zip_map', List.map_map]; intro hc
          simp only [List.mem_map, Function.comp] at hc
          obtain ⟨j, hj, hfj⟩ := hc; exact hdis j (List.mem_cons_of_mem _ hj) i (by simp) hfj
        have m4 : g i ∉ (((L.map f).zip (L.map g)).map Prod.snd) := by
          rw [List.zip_map', List.map_map]; intro hc
          simp only [List.mem_map, Function.comp] at hc
          obtain ⟨j, hj, hfj⟩ := hc; exact ng j hj hfj
        rw [moveList_not_mem _ _ _ _ m1 m2, moveList_not_mem _ _ _ _ m3 m4, Mem.write_other _ _ d0, Mem.write_same,
          Mem.write_same]
        exact ⟨rfl, rfl⟩
      · obtain ⟨e1, e2⟩ := ih' i hi'
        rw [e1, e2, Mem.write_other _ _ (ng i hi'),
          Mem.write_other _ _ (fun hc => hdis i0 (by simp) i hi hc.symm)]
        exact ⟨rfl, rfl⟩
  · intro a ha hb
    apply moveList_not_mem
    · rw [List.zip_map', List.map_map]; exact ha
    · rw [List.zip_map', List.map_map]; exact hb

/-! ### sequential store of given values -/

def writeList : List (Int × α) → Mem α → Mem α
  | [], m => m
  | p :: ps, m => writeList ps (m.write p.1 p.2)

theorem writeList_not_mem (ps : List (Int × α)) (m : Mem α) (a : Int) (h : a ∉ ps.map Prod.fst) :
    writeList ps m a = m a := by
  induction ps generalizing m with
  | nil => rfl
  | cons p ps ih =>
    simp only [List.map_cons, List.mem_cons, not_or] at h
    rw [writeList, ih _ h.2, Mem.write_other _ _ h.1]

/-- distinct addresses: every cell holds the value stored to it -/
theorem writeList_mem (ps : List (Int × α)) (m : Mem α) (hnd : (ps.map Prod.fst).Nodup) :
    ∀ p ∈ ps, writeList ps m p.1 = p.2 := by
  induction ps generalizing m with
  | nil => intro p hp; simp at hp
  | cons q ps ih =>
    simp only [List.map_cons, List.nodup_cons] at hnd
    intro p hp
    rw [writeList]
    rcases List.mem_cons.mp hp with rfl | hp'
    · rw [writeList_not_mem _ _ _ hnd.1, Mem.write_same]
    · exact ih _ hnd.2 p hp'

/-- one value everywhere (`fill`): no distinctness needed -/
theorem writeList_const (ps : List (Int × α)) (m : Mem α) (x : α) (hx : ∀ p ∈ ps, p.2 = x) :
    ∀ a ∈ ps.map Prod.fst, writeList ps m a = x := by
  induction ps generalizing m with
  | nil => intro a ha; simp at ha
  | cons q ps ih =>
    intro a ha
    rw [writeList]
    by_cases hm : a ∈ ps.map Prod.fst
    · exact ih _ (fun p hp => hx p (List.mem_cons_of_mem _ hp)) a hm
    · rw [writeList_not_mem _ _ _ hm]
      simp only [List.map_cons, List.mem_cons] at ha
      rcases ha with rfl | ha
      · rw [Mem.write_same]; exact hx q (by simp)
      · exact absurd ha hm

theorem ElemIt.storeN_eq (vals : List α) (d : ElemIt) (m : Mem α) :
    ElemIt.storeN vals d m = writeList ((ElemIt.addrs vals.length d).zip vals) m := by
  induction vals generalizing d m with
  | nil => rfl
  | cons x xs ih => simp only [ElemIt.storeN, List.length_cons, ElemIt.addrs, List.zip_cons_cons, writeList, ih]

/-- the addresses an `array_iterator` visits in `n` steps of `++` (1-D: element addresses; D>1: row bases) -/
def ArrIt.addrs : Nat → ArrIt → List Int
  | 0, _ => []
  | n + 1, it => it.deref.base :: ArrIt.addrs n it.inc

theorem ArrIt.addrs_eq (n : Nat) (it : ArrIt) :
    ArrIt.addrs n it = (List.range n).map (fun (k : Nat) => it.ptr + Int.ofNat k * it.stride) := by
  induction n generalizing it with
  | zero => rfl
  | succ n ih =>
    rw [ArrIt.addrs, ih, List.range_succ_eq_map, List.map_cons, List.map_map]
    congr 1
    · simp [ArrIt.deref]
    · apply List.map_congr_left
      intro k _
      simp only [ArrIt.inc, Function.comp, Int.ofNat_eq_natCast, Nat.succ_eq_add_one, Int.natCast_add, Int.add_mul]
      omega

theorem ArrIt.fillN_eq (x : α) (n : Nat) (it : ArrIt) (m : Mem α) :
    ArrIt.fillN x n it m = writeList ((ArrIt.addrs n it).map (fun a => (a, x))) m := by
  induction n generalizing it m with
  | zero => rfl
  | succ n ih => simp only [ArrIt.fillN, ArrIt.addrs, List.map_cons, writeList, ih]

theorem ArrIt.storeN_eq (vals : List α) (it : ArrIt) (m : Mem α) :
    ArrIt.storeN vals it m = writeList ((ArrIt.addrs vals.length it).zip vals) m := by
  induction vals generalizing it m with
  | nil => rfl
  | cons x xs ih => simp only [ArrIt.storeN, List.length_cons, ArrIt.addrs, List.zip_cons_cons, writeList, ih]

/-! ### reading and comparing -/

theorem readN_eq (m : Mem α) (n : Nat) (it : ElemIt) : ElemIt.readN m n it = (ElemIt.addrs n it).map m := by
  induction n generalizing it with
  | zero => rfl
  | succ n ih => simp only [ElemIt.readN, ElemIt.addrs, List.map_cons, ih]

theorem equalN_iff [DecidableEq α] (m : Mem α) (n : Nat) (a b : ElemIt) :
    ElemIt.equalN m n a b = true ↔ ∀ p ∈ (ElemIt.addrs n a).zip (ElemIt.addrs n b), m p.1 = m p.2 := by
  induction n generalizing a b with
  | zero => simp [ElemIt.equalN, ElemIt.addrs]
  | succ n ih =>
    simp only [ElemIt.equalN, ElemIt.addrs, List.zip_cons_cons, List.mem_cons]
    by_cases h : m a.current = m b.current
    · simp only [h, if_true, ih]
      constructor
      · intro hh p hp
        rcases hp with rfl | hp
        · exact h
        · exact hh p hp
      · intro hh p hp; exact hh p (Or.inr hp)
    · simp only [h, if_false, Bool.false_eq_true, false_iff]
      intro hh; exact h (hh (a.current, b.current) (Or.inl rfl))

/-- index-list form of `equalN_iff` -/
theorem equalN_map_iff [DecidableEq α] {ι : Type} (m : Mem α) (n : Nat) (a b : ElemIt) (L : List ι) (f g : ι → Int)
    (ha : ElemIt.addrs n a = L.map f) (hb : ElemIt.addrs n b = L.map g) :
    ElemIt.equalN m n a b = true ↔ ∀ i ∈ L, m (f i) = m (g i) := by
  rw [equalN_iff, ha, hb, List.zip_map']
  simp only [List.mem_map]
  constructor
  · intro h i hi; exact h (f i, g i) ⟨i, hi, rfl⟩
  · rintro h p ⟨i, hi, rfl⟩; exact h i hi

/-! ### flat loops over element pointers -/

theorem copyFlat_spec (n : Nat) (s d : Int) (m : Mem α) (hdis : d + n ≤ s ∨ s + n ≤ d) :
    (∀ k : Int, 0 ≤ k → k < n → copyFlat n s d m (d + k) = m (s + k)) ∧
    (∀ a : Int, a < d ∨ d + n ≤ a → copyFlat n s d m a = m a) := by
  induction n generalizing s d m with
  | zero =>
    constructor
    · intro k h0 h1; omega
    · intro a _; rfl
  | succ n ih =>
    obtain ⟨i1, i2⟩ := ih (s + 1) (d + 1) (m.write d (m s)) (by omega)
    constructor
    · intro k h0 h1
      rw [copyFlat]
      by_cases hk : k = 0
      · subst hk
        rw [i2 _ (by omega)]
        simp [Mem.write_same]
      · have := i1 (k - 1) (by omega) (by omega)
        have e1 : d + 1 + (k - 1) = d + k := by omega
        have e2 : s + 1 + (k - 1) = s + k := by omega
        rw [e1, e2] at this
        rw [this, Mem.write_other]
        omega
    · intro a ha
      rw [copyFlat, i2 a (by omega), Mem.write_other]
      omega

theorem equalFlat_iff [DecidableEq α] (m : Mem α) (n : Nat) (a b : Int) :
    equalFlat m n a b = true ↔ ∀ k : Int, 0 ≤ k → k < n → m (a + k) = m (b + k) := by
  induction n generalizing a b with
  | zero => simp only [equalFlat, true_iff]; intro k h0 h1; omega
  | succ n ih =>
    simp only [equalFlat]
    by_cases h : m a = m b
    · simp only [h, if_true, ih]
      constructor
      · intro hh k h0 h1
        by_cases hk : k = 0
        · subst hk; simpa using h
        · have := hh (k - 1) (by omega) (by omega)
          have e1 : a + 1 + (k - 1) = a + k := by omega
          have e2 : b + 1 + (k - 1) = b + k := by omega
          rwa [e1, e2] at this
      · intro hh k h0 h1
        have := hh (k + 1) (by omega) (by omega)
        have e1 : a + 1 + k = a + (k + 1) := by omega
        have e2 : b + 1 + k = b + (k + 1) := by omega
        rwa [e1, e2]
    · simp only [h, if_false, Bool.false_eq_true, false_iff]
      intro hh; apply h; simpa using hh 0 (by omega) (by omega)


-- VIEWLEVEL

end Multi
