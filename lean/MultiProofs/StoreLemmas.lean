/-
  MultiProofs.StoreLemmas — helper lemmas for C05 / C07 / C03: the loops of MultiModel.Store expressed over the
  lists of addresses they visit, and list-level facts about sequential copy / swap / fill / compare.
-/
import MultiProofs.ElemOrder

namespace Multi

end Multi
