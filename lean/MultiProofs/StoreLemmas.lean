/-
  MultiProofs.StoreLemmas — helper lemmas for C05 / C07 / C03: the loops of MultiModel.Store expressed over the
  lists of addresses they visit, and list-level facts about sequential copy / swap / fill / compare.
-/
import MultiProofs.ElemOrder

namespace Multi

variable {α : Type}

theorem Mem.write_same (m : Mem α) (a : Int) (x : α) : (m.write a x) a = x := by simp [Mem.write]
theorem Mem.write_other (m : Mem α) {a b : Int} (x : α) (h : b ≠ a) : (m.write a x) b = m b := by simp [Mem.write, h]
theorem Mem.write_self (m : Mem α) (a : Int) : m.write a (m a) = m := by
  funext b; simp only [Mem.write]; split
  · rename_i h; rw [h]
  · rfl

theorem ElemIt.addrs_succ_some {n : Nat} {it : ElemIt} {as : List Int} (h : ElemIt.addrs (n + 1) it = some as) :
    ∃ it' rest, it.inc = some it' ∧ ElemIt.addrs n it' = some rest ∧ as = it.current :: rest := by
  rw [ElemIt.addrs] at h
  cases hi : it.inc with
  | none => simp [hi] at h
  | some it' =>
    cases hr : ElemIt.addrs n it' with
    | none => simp [hi, hr] at h
    | some rest =>
      simp [hi, hr] at h
      exact ⟨it', rest, rfl, hr, h.symm⟩

/-! ### sequential copy over a list of (destination, source) address pairs -/

def copyList : List (Int × Int) → Mem α → Mem α
  | [], m => m
  | p :: ps, m => copyList ps (m.write p.1 (m p.2))

theorem copyN_eq (n : Nat) (s d : ElemIt) (m : Mem α) (sA dA : List Int)
    (hs : ElemIt.addrs n s = some sA) (hd : ElemIt.addrs n d = some dA) :
    ElemIt.copyN n s d m = some (copyList (dA.zip sA) m) := by
  induction n generalizing s d m sA dA with
  | zero =>
    simp only [ElemIt.addrs, Option.some.injEq] at hs hd
    subst hs hd; rfl
  | succ n ih =>
    obtain ⟨s', sr, hs1, hs2, rfl⟩ := ElemIt.addrs_succ_some hs
    obtain ⟨d', dr, hd1, hd2, rfl⟩ := ElemIt.addrs_succ_some hd
    simp only [ElemIt.copyN, hs1, hd1, Option.bind_eq_bind, Option.bind_some, List.zip_cons_cons, copyList]
    exact ih s' d' _ sr dr hs2 hd2

theorem copyList_not_mem (ps : List (Int × Int)) (m : Mem α) (a : Int) (h : a ∉ ps.map Prod.fst) :
    copyList ps m a = m a := by
  induction ps generalizing m with
  | nil => rfl
  | cons p ps ih =>
    simp only [List.map_cons, List.mem_cons, not_or] at h
    rw [copyList, ih _ h.2, Mem.write_other _ _ h.1]

theorem copyList_self (ps : List (Int × Int)) (m : Mem α) (h : ∀ p ∈ ps, p.1 = p.2) : copyList ps m = m := by
  induction ps generalizing m with
  | nil => rfl
  | cons p ps ih =>
    rw [copyList, h p (by simp), Mem.write_self]
    exact ih m (fun q hq => h q (List.mem_cons_of_mem _ hq))

/-- copying `g i ↦ f i` over an index list: every destination receives the original source value, nothing else changes -/
theorem copyList_spec {ι : Type} (L : List ι) (f g : ι → Int) (m : Mem α) (hnd : L.Nodup)
    (hinj : ∀ i ∈ L, ∀ j ∈ L, f i = f j → i = j) (hdis : ∀ i ∈ L, ∀ j ∈ L, f i ≠ g j) :
    (∀ i ∈ L, copyList ((L.map f).zip (L.map g)) m (f i) = m (g i)) ∧
    (∀ a, a ∉ L.map f → copyList ((L.map f).zip (L.map g)) m a = m a) := by
  constructor
  · induction L generalizing m with
    | nil => intro i hi; simp at hi
    | cons i0 L ih =>
      have hnd' := List.nodup_cons.mp hnd
      have ih' := ih (m.write (f i0) (m (g i0))) hnd'.2
        (fun i hi j hj => hinj i (List.mem_cons_of_mem _ hi) j (List.mem_cons_of_mem _ hj))
        (fun i hi j hj => hdis i (List.mem_cons_of_mem _ hi) j (List.mem_cons_of_mem _ hj))
      intro i hi
      simp only [List.map_cons, List.zip_cons_cons, copyList]
      rcases List.mem_cons.mp hi with rfl | hi'
      · rw [copyList_not_mem, Mem.write_same]
        rw [List.zip_map', List.map_map]
        intro hc
        simp only [List.mem_map, Function.comp] at hc
        obtain ⟨j, hj, hfj⟩ := hc
        have := hinj j (List.mem_cons_of_mem _ hj) i (by simp) hfj
        subst this
        exact hnd'.1 hj
      · rw [ih' i hi', Mem.write_other]
        exact fun hc => hdis i0 (by simp) i hi hc.symm
  · intro a ha
    apply (copyList_not_mem _ _ _ _).trans rfl
    rw [List.zip_map', List.map_map]
    exact ha

/-! ### sequential swap -/

def swapList : List (Int × Int) → Mem α → Mem α
  | [], m => m
  | p :: ps, m => swapList ps ((m.write p.1 (m p.2)).write p.2 (m p.1))

theorem swapN_eq (n : Nat) (a b : ElemIt) (m : Mem α) (aA bA : List Int)
    (ha : ElemIt.addrs n a = some aA) (hb : ElemIt.addrs n b = some bA) :
    ElemIt.swapN n a b m = some (swapList (aA.zip bA) m) := by
  induction n generalizing a b m aA bA with
  | zero =>
    simp only [ElemIt.addrs, Option.some.injEq] at ha hb
    subst ha hb; rfl
  | succ n ih =>
    obtain ⟨a', ar, ha1, ha2, rfl⟩ := ElemIt.addrs_succ_some ha
    obtain ⟨b', br, hb1, hb2, rfl⟩ := ElemIt.addrs_succ_some hb
    simp only [ElemIt.swapN, ha1, hb1, Option.bind_eq_bind, Option.bind_some, List.zip_cons_cons, swapList]
    exact ih a' b' _ ar br ha2 hb2

theorem swapList_not_mem (ps : List (Int × Int)) (m : Mem α) (a : Int) (h1 : a ∉ ps.map Prod.fst)
    (h2 : a ∉ ps.map Prod.snd) : swapList ps m a = m a := by
  induction ps generalizing m with
  | nil => rfl
  | cons p ps ih =>
    simp only [List.map_cons, List.mem_cons, not_or] at h1 h2
    rw [swapList, ih _ h1.2 h2.2, Mem.write_other _ _ h2.1, Mem.write_other _ _ h1.1]

theorem swapList_spec {ι : Type} (L : List ι) (f g : ι → Int) (m : Mem α) (hnd : L.Nodup)
    (hf : ∀ i ∈ L, ∀ j ∈ L, f i = f j → i = j) (hg : ∀ i ∈ L, ∀ j ∈ L, g i = g j → i = j)
    (hdis : ∀ i ∈ L, ∀ j ∈ L, f i ≠ g j) :
    (∀ i ∈ L, swapList ((L.map f).zip (L.map g)) m (f i) = m (g i) ∧
              swapList ((L.map f).zip (L.map g)) m (g i) = m (f i)) ∧
    (∀ a, a ∉ L.map f → a ∉ L.map g → swapList ((L.map f).zip (L.map g)) m a = m a) := by
  constructor
  · induction L generalizing m with
    | nil => intro i hi; simp at hi
    | cons i0 L ih =>
      have hnd' := List.nodup_cons.mp hnd
      have ih' := ih ((m.write (f i0) (m (g i0))).write (g i0) (m (f i0))) hnd'.2
        (fun i hi j hj => hf i (List.mem_cons_of_mem _ hi) j (List.mem_cons_of_mem _ hj))
        (fun i hi j hj => hg i (List.mem_cons_of_mem _ hi) j (List.mem_cons_of_mem _ hj))
        (fun i hi j hj => hdis i (List.mem_cons_of_mem _ hi) j (List.mem_cons_of_mem _ hj))
      have nf : ∀ j ∈ L, f j ≠ f i0 := fun j hj hc =>
        hnd'.1 ((hf j (List.mem_cons_of_mem _ hj) i0 (by simp) hc) ▸ hj)
      have ng : ∀ j ∈ L, g j ≠ g i0 := fun j hj hc =>
        hnd'.1 ((hg j (List.mem_cons_of_mem _ hj) i0 (by simp) hc) ▸ hj)
      have d0 : f i0 ≠ g i0 := hdis i0 (by simp) i0 (by simp)
      intro i hi
      simp only [List.map_cons, List.zip_cons_cons, swapList]
      rcases List.mem_cons.mp hi with rfl | hi'
      · have m1 : f i ∉ (((L.map f).zip (L.map g)).map Prod.fst) := by
          rw [List.zip_map', List.map_map]; intro hc
          simp only [List.mem_map, Function.comp] at hc
          obtain ⟨j, hj, hfj⟩ := hc; exact nf j hj hfj
        have m2 : f i ∉ (((L.map f).zip (L.map g)).map Prod.snd) := by
          rw [List.zip_map', List.map_map]; intro hc
          simp only [List.mem_map, Function.comp] at hc
          obtain ⟨j, hj, hfj⟩ := hc; exact hdis i (by simp) j (List.mem_cons_of_mem _ hj) hfj.symm
        have m3 : g i ∉ (((L.map f).zip (L.map g)).map Prod.fst) := by
          rw [List.zip_map', List.map_map]; intro hc
          simp only [List.mem_map, Function.comp] at hc
          obtain ⟨j, hj, hfj⟩ := hc; exact hdis j (List.mem_cons_of_mem _ hj) i (by simp) hfj
        have m4 : g i ∉ (((L.map f).zip (L.map g)).map Prod.snd) := by
          rw [List.zip_map', List.map_map]; intro hc
          simp only [List.mem_map, Function.comp] at hc
          obtain ⟨j, hj, hfj⟩ := hc; exact ng j hj hfj
        rw [swapList_not_mem _ _ _ m1 m2, swapList_not_mem _ _ _ m3 m4, Mem.write_other _ _ d0, Mem.write_same,
          Mem.write_same]
        exact ⟨rfl, rfl⟩
      · obtain ⟨e1, e2⟩ := ih' i hi'
        rw [e1, e2, Mem.write_other _ _ (ng i hi'),
          Mem.write_other _ _ (fun hc => hdis i0 (by simp) i hi hc.symm),
          Mem.write_other _ _ (hdis i hi i0 (by simp)), Mem.write_other _ _ (nf i hi')]
        exact ⟨rfl, rfl⟩
  · intro a ha hb
    apply swapList_not_mem
    · rw [List.zip_map', List.map_map]; exact ha
    · rw [List.zip_map', List.map_map]; exact hb

/-! ### sequential move -/

def moveList (moved : α) : List (Int × Int) → Mem α → Mem α
  | [], m => m
  | p :: ps, m => moveList moved ps ((m.write p.1 (m p.2)).write p.2 moved)

theorem moveN_eq (moved : α) (n : Nat) (s d : ElemIt) (m : Mem α) (sA dA : List Int)
    (hs : ElemIt.addrs n s = some sA) (hd : ElemIt.addrs n d = some dA) :
    ElemIt.moveN moved n s d m = some (moveList moved (dA.zip sA) m) := by
  induction n generalizing s d m sA dA with
  | zero =>
    simp only [ElemIt.addrs, Option.some.injEq] at hs hd
    subst hs hd; rfl
  | succ n ih =>
    obtain ⟨s', sr, hs1, hs2, rfl⟩ := ElemIt.addrs_succ_some hs
    obtain ⟨d', dr, hd1, hd2, rfl⟩ := ElemIt.addrs_succ_some hd
    simp only [ElemIt.moveN, hs1, hd1, Option.bind_eq_bind, Option.bind_some, List.zip_cons_cons, moveList]
    exact ih s' d' _ sr dr hs2 hd2

theorem moveList_not_mem (moved : α) (ps : List (Int × Int)) (m : Mem α) (a : Int) (h1 : a ∉ ps.map Prod.fst)
    (h2 : a ∉ ps.map Prod.snd) : moveList moved ps m a = m a := by
  induction ps generalizing m with
  | nil => rfl
  | cons p ps ih =>
    simp only [List.map_cons, List.mem_cons, not_or] at h1 h2
    rw [moveList, ih _ h1.2 h2.2, Mem.write_other _ _ h2.1, Mem.write_other _ _ h1.1]

theorem moveList_spec {ι : Type} (moved : α) (L : List ι) (f g : ι → Int) (m : Mem α) (hnd : L.Nodup)
    (hf : ∀ i ∈ L, ∀ j ∈ L, f i = f j → i = j) (hg : ∀ i ∈ L, ∀ j ∈ L, g i = g j → i = j)
    (hdis : ∀ i ∈ L, ∀ j ∈ L, f i ≠ g j) :
    (∀ i ∈ L, moveList moved ((L.map f).zip (L.map g)) m (f i) = m (g i) ∧
              moveList moved ((L.map f).zip (L.map g)) m (g i) = moved) ∧
    (∀ a, a ∉ L.map f → a ∉ L.map g → moveList moved ((L.map f).zip (L.map g)) m a = m a) := by
  constructor
  · induction L generalizing m with
    | nil => intro i hi; simp at hi
    | cons i0 L ih =>
      have hnd' := List.nodup_cons.mp hnd
      have ih' := ih ((m.write (f i0) (m (g i0))).write (g i0) moved) hnd'.2
        (fun i hi j hj => hf i (List.mem_cons_of_mem _ hi) j (List.mem_cons_of_mem _ hj))
        (fun i hi j hj => hg i (List.mem_cons_of_mem _ hi) j (List.mem_cons_of_mem _ hj))
        (fun i hi j hj => hdis i (List.mem_cons_of_mem _ hi) j (List.mem_cons_of_mem _ hj))
      have nf : ∀ j ∈ L, f j ≠ f i0 := fun j hj hc =>
        hnd'.1 ((hf j (List.mem_cons_of_mem _ hj) i0 (by simp) hc) ▸ hj)
      have ng : ∀ j ∈ L, g j ≠ g i0 := fun j hj hc =>
        hnd'.1 ((hg j (List.mem_cons_of_mem _ hj) i0 (by simp) hc) ▸ hj)
      have d0 : f i0 ≠ g i0 := hdis i0 (by simp) i0 (by simp)
      intro i hi
      simp only [List.map_cons, List.zip_cons_cons, moveList]
      rcases List.mem_cons.mp hi with rfl | hi'
      · have m1 : f i ∉ (((L.map f).zip (L.map g)).map Prod.fst) := by
          rw [List.zip_map', List.map_map]; intro hc
          simp only [List.mem_map, Function.comp] at hc
          obtain ⟨j, hj, hfj⟩ := hc; exact nf j hj hfj
        have m2 : f i ∉ (((L.map f).zip (L.map g)).map Prod.snd) := by
          rw [List.zip_map', List.map_map]; intro hc
          simp only [List.mem_map, Function.comp] at hc
          obtain ⟨j, hj, hfj⟩ := hc; exact hdis i (by simp) j (List.mem_cons_of_mem _ hj) hfj.symm
        have m3 : g i ∉ (((L.map f).zip (L.map g)).map Prod.fst) := by
          rw [List.zip_map', List.map_map]; intro hc
          simp only [List.mem_map, Function.comp] at hc
          obtain ⟨j, hj, hfj⟩ := hc; exact hdis j (List.mem_cons_of_mem _ hj) i (by simp) hfj
        have m4 : g i ∉ (((L.map f).zip (L.map g)).map Prod.snd) := by
          rw [List.zip_map', List.map_map]; intro hc
          simp only [List.mem_map, Function.comp] at hc
          obtain ⟨j, hj, hfj⟩ := hc; exact ng j hj hfj
        rw [moveList_not_mem _ _ _ _ m1 m2, moveList_not_mem _ _ _ _ m3 m4, Mem.write_other _ _ d0, Mem.write_same,
          Mem.write_same]
        exact ⟨rfl, rfl⟩
      · obtain ⟨e1, e2⟩ := ih' i hi'
        rw [e1, e2, Mem.write_other _ _ (ng i hi'),
          Mem.write_other _ _ (fun hc => hdis i0 (by simp) i hi hc.symm)]
        exact ⟨rfl, rfl⟩
  · intro a ha hb
    apply moveList_not_mem
    · rw [List.zip_map', List.map_map]; exact ha
    · rw [List.zip_map', List.map_map]; exact hb

/-! ### sequential store of given values -/

def writeList : List (Int × α) → Mem α → Mem α
  | [], m => m
  | p :: ps, m => writeList ps (m.write p.1 p.2)

theorem writeList_not_mem (ps : List (Int × α)) (m : Mem α) (a : Int) (h : a ∉ ps.map Prod.fst) :
    writeList ps m a = m a := by
  induction ps generalizing m with
  | nil => rfl
  | cons p ps ih =>
    simp only [List.map_cons, List.mem_cons, not_or] at h
    rw [writeList, ih _ h.2, Mem.write_other _ _ h.1]

/-- distinct addresses: every cell holds the value stored to it -/
theorem writeList_mem (ps : List (Int × α)) (m : Mem α) (hnd : (ps.map Prod.fst).Nodup) :
    ∀ p ∈ ps, writeList ps m p.1 = p.2 := by
  induction ps generalizing m with
  | nil => intro p hp; simp at hp
  | cons q ps ih =>
    simp only [List.map_cons, List.nodup_cons] at hnd
    intro p hp
    rw [writeList]
    rcases List.mem_cons.mp hp with rfl | hp'
    · rw [writeList_not_mem _ _ _ hnd.1, Mem.write_same]
    · exact ih _ hnd.2 p hp'

/-- one value everywhere (`fill`): no distinctness needed -/
theorem writeList_const (ps : List (Int × α)) (m : Mem α) (x : α) (hx : ∀ p ∈ ps, p.2 = x) :
    ∀ a ∈ ps.map Prod.fst, writeList ps m a = x := by
  induction ps generalizing m with
  | nil => intro a ha; simp at ha
  | cons q ps ih =>
    intro a ha
    rw [writeList]
    by_cases hm : a ∈ ps.map Prod.fst
    · exact ih _ (fun p hp => hx p (List.mem_cons_of_mem _ hp)) a hm
    · rw [writeList_not_mem _ _ _ hm]
      simp only [List.map_cons, List.mem_cons] at ha
      rcases ha with rfl | ha
      · rw [Mem.write_same]; exact hx q (by simp)
      · exact absurd ha hm

theorem ElemIt.storeN_eq (vals : List α) (d : ElemIt) (m : Mem α) (dA : List Int)
    (hd : ElemIt.addrs vals.length d = some dA) :
    ElemIt.storeN vals d m = some (writeList (dA.zip vals) m) := by
  induction vals generalizing d m dA with
  | nil =>
    simp only [List.length_nil, ElemIt.addrs, Option.some.injEq] at hd
    subst hd; rfl
  | cons x xs ih =>
    obtain ⟨d', dr, hd1, hd2, rfl⟩ := ElemIt.addrs_succ_some hd
    simp only [ElemIt.storeN, hd1, Option.bind_eq_bind, Option.bind_some, List.zip_cons_cons, writeList]
    exact ih d' _ dr hd2

/-- the addresses an `array_iterator` visits in `n` steps of `++` (1-D: element addresses; D>1: row bases) -/
def ArrIt.addrs : Nat → ArrIt → List Int
  | 0, _ => []
  | n + 1, it => it.deref.base :: ArrIt.addrs n it.inc

theorem ArrIt.addrs_eq (n : Nat) (it : ArrIt) :
    ArrIt.addrs n it = (List.range n).map (fun (k : Nat) => it.ptr + Int.ofNat k * it.stride) := by
  induction n generalizing it with
  | zero => rfl
  | succ n ih =>
    rw [ArrIt.addrs, ih, List.range_succ_eq_map, List.map_cons, List.map_map]
    congr 1
    · simp [ArrIt.deref]
    · apply List.map_congr_left
      intro k _
      simp only [ArrIt.inc, Function.comp, Int.ofNat_eq_natCast, Nat.succ_eq_add_one, Int.natCast_add, Int.add_mul]
      omega

theorem ArrIt.fillN_eq (x : α) (n : Nat) (it : ArrIt) (m : Mem α) :
    ArrIt.fillN x n it m = writeList ((ArrIt.addrs n it).map (fun a => (a, x))) m := by
  induction n generalizing it m with
  | zero => rfl
  | succ n ih => simp only [ArrIt.fillN, ArrIt.addrs, List.map_cons, writeList, ih]

theorem ArrIt.storeN_eq (vals : List α) (it : ArrIt) (m : Mem α) :
    ArrIt.storeN vals it m = writeList ((ArrIt.addrs vals.length it).zip vals) m := by
  induction vals generalizing it m with
  | nil => rfl
  | cons x xs ih => simp only [ArrIt.storeN, List.length_cons, ArrIt.addrs, List.zip_cons_cons, writeList, ih]

/-! ### reading and comparing -/

theorem readN_eq (m : Mem α) (n : Nat) (it : ElemIt) (as : List Int) (h : ElemIt.addrs n it = some as) :
    ElemIt.readN m n it = some (as.map m) := by
  induction n generalizing it as with
  | zero => simp only [ElemIt.addrs, Option.some.injEq] at h; subst h; rfl
  | succ n ih =>
    obtain ⟨it', r, h1, h2, rfl⟩ := ElemIt.addrs_succ_some h
    simp only [ElemIt.readN, h1, Option.bind_eq_bind, Option.bind_some, ih it' r h2, Option.pure_def, List.map_cons]

theorem equalN_eq [DecidableEq α] (m : Mem α) (n : Nat) (a b : ElemIt) (aA bA : List Int)
    (ha : ElemIt.addrs n a = some aA) (hb : ElemIt.addrs n b = some bA) :
    ElemIt.equalN m n a b = some (decide (∀ p ∈ aA.zip bA, m p.1 = m p.2)) := by
  induction n generalizing a b aA bA with
  | zero =>
    simp only [ElemIt.addrs, Option.some.injEq] at ha hb
    subst ha hb; simp [ElemIt.equalN]
  | succ n ih =>
    obtain ⟨a', ar, ha1, ha2, rfl⟩ := ElemIt.addrs_succ_some ha
    obtain ⟨b', br, hb1, hb2, rfl⟩ := ElemIt.addrs_succ_some hb
    simp only [ElemIt.equalN, List.zip_cons_cons]
    by_cases h : m a.current = m b.current
    · simp only [h, if_true, ha1, hb1, Option.bind_eq_bind, Option.bind_some, ih a' b' ar br ha2 hb2,
        Option.some.injEq]
      apply decide_eq_decide.mpr
      constructor
      · intro hh p hp
        rcases List.mem_cons.mp hp with rfl | hp
        · exact h
        · exact hh p hp
      · intro hh p hp; exact hh p (List.mem_cons_of_mem _ hp)
    · simp only [h, if_false, Option.some.injEq]
      symm
      apply decide_eq_false
      intro hh; exact h (hh (a.current, b.current) (by simp))

theorem equalN_map_iff [DecidableEq α] {ι : Type} (m : Mem α) (f g : ι → Int) (L : List ι) (x y : ElemIt)
    (hx : ElemIt.addrs L.length x = some (L.map f)) (hy : ElemIt.addrs L.length y = some (L.map g)) :
    ElemIt.equalN m L.length x y = some (decide (∀ i ∈ L, m (f i) = m (g i))) := by
  rw [equalN_eq m _ x y _ _ hx hy, List.zip_map']
  simp only [Option.some.injEq]
  apply decide_eq_decide.mpr
  simp only [List.mem_map]
  constructor
  · intro h i hi; exact h (f i, g i) ⟨i, hi, rfl⟩
  · rintro h p ⟨i, hi, rfl⟩; exact h i hi

/-! ### flat loops over element pointers -/

theorem copyFlat_spec (n : Nat) (s d : Int) (m : Mem α) (hdis : d + n ≤ s ∨ s + n ≤ d) :
    (∀ k : Int, 0 ≤ k → k < n → copyFlat n s d m (d + k) = m (s + k)) ∧
    (∀ a : Int, a < d ∨ d + n ≤ a → copyFlat n s d m a = m a) := by
  induction n generalizing s d m with
  | zero =>
    constructor
    · intro k h0 h1; omega
    · intro a _; rfl
  | succ n ih =>
    obtain ⟨i1, i2⟩ := ih (s + 1) (d + 1) (m.write d (m s)) (by omega)
    constructor
    · intro k h0 h1
      rw [copyFlat]
      by_cases hk : k = 0
      · subst hk
        rw [i2 _ (by omega)]
        simp [Mem.write_same]
      · have := i1 (k - 1) (by omega) (by omega)
        have e1 : d + 1 + (k - 1) = d + k := by omega
        have e2 : s + 1 + (k - 1) = s + k := by omega
        rw [e1, e2] at this
        rw [this, Mem.write_other]
        omega
    · intro a ha
      rw [copyFlat, i2 a (by omega), Mem.write_other]
      omega

theorem equalFlat_iff [DecidableEq α] (m : Mem α) (n : Nat) (a b : Int) :
    equalFlat m n a b = true ↔ ∀ k : Int, 0 ≤ k → k < n → m (a + k) = m (b + k) := by
  induction n generalizing a b with
  | zero => simp only [equalFlat, true_iff]; intro k h0 h1; omega
  | succ n ih =>
    simp only [equalFlat]
    by_cases h : m a = m b
    · simp only [h, if_true, ih]
      constructor
      · intro hh k h0 h1
        by_cases hk : k = 0
        · subst hk; simpa using h
        · have := hh (k - 1) (by omega) (by omega)
          have e1 : a + 1 + (k - 1) = a + k := by omega
          have e2 : b + 1 + (k - 1) = b + k := by omega
          rwa [e1, e2] at this
      · intro hh k h0 h1
        have := hh (k + 1) (by omega) (by omega)
        have e1 : a + 1 + k = a + (k + 1) := by omega
        have e2 : b + 1 + k = b + (k + 1) := by omega
        rwa [e1, e2]
    · simp only [h, if_false, Bool.false_eq_true, false_iff]
      intro hh; apply h; simpa using hh 0 (by omega) (by omega)


/-! ### view level: the loops of `elements()` over `boxIndices` -/

theorem Ext.eqv_refl (e : Ext) : e.eqv e = true := by simp [Ext.eqv]

theorem Exts.eqv_refl (es : List Ext) : Exts.eqv es es = true := by
  induction es with
  | nil => rfl
  | cons e es ih => simp [Exts.eqv, Ext.eqv_refl, ih]

theorem View.ext_eqv_of_exts_eq {a b : View} (h : a.exts = b.exts) (hne : a.lay ≠ []) : a.ext.eqv b.ext = true := by
  cases ha : a.lay with
  | nil => exact absurd ha hne
  | cons d l =>
    cases hb : b.lay with
    | nil => simp [View.exts, Layout.exts, ha, hb] at h
    | cons d' l' =>
      simp only [View.exts, Layout.exts, ha, hb, List.map_cons, List.cons.injEq] at h
      simp only [View.ext, ha, hb, h.1, Ext.eqv_refl]

theorem View.mem_addrs_iff (v : View) (a : Int) : a ∈ (boxIndices v.exts).map v.addr ↔ v.InImage a := by
  simp only [List.mem_map, View.InImage, mem_boxIndices]

theorem View.numElements_eq_of_exts_eq {a b : View} (ha : a.lay.WF) (hb : b.lay.WF) (h : a.exts = b.exts) :
    a.numElements = b.numElements := by
  simp only [View.numElements, numElements_eq_nElems ha, numElements_eq_nElems hb]
  exact congrArg nElems h

theorem View.boxIndices_nil_of_isEmpty {v : View} (h : v.lay.isEmpty = true) : boxIndices v.exts = [] := by
  cases hv : v.lay with
  | nil => simp [hv, Layout.isEmpty] at h
  | cons d l =>
    simp only [hv, Layout.isEmpty, beq_iff_eq] at h
    simp [View.exts, Layout.exts, hv, Dim.ext_of_nelems_zero h, boxIndices, Ext.size]

theorem ElemRange.isEmpty_ofView (v : View) : (ElemRange.ofView v).isEmpty = v.lay.isEmpty := by
  rw [ofView_eq]; simp [ElemRange.isEmpty, zeroBased_eq_map_zeroed, isEmpty_zeroed]

/-- `dst.elements() = src.elements()` is the sequential copy over the common index list -/
theorem ElemRange.assign_ofView (dst src : View) (m : Mem α) (hd : dst.lay.WF) (hs : src.lay.WF)
    (hext : dst.exts = src.exts) :
    (ElemRange.ofView dst).assign (ElemRange.ofView src) m =
      some (copyList (((boxIndices dst.exts).map dst.addr).zip ((boxIndices dst.exts).map src.addr)) m) := by
  obtain ⟨sb, se, hsb, hse, hsdiff, hssize, hsaddrs⟩ := elemit_kth src hs
  obtain ⟨db, de, hdb, hde, hddiff, hdsize, hdaddrs⟩ := elemit_kth dst hd
  have hnum := View.numElements_eq_of_exts_eq hd hs hext
  unfold ElemRange.assign
  rw [hdsize, hssize]
  simp only [hnum, ne_eq, not_true_eq_false, if_false]
  by_cases hemp : (ElemRange.ofView dst).isEmpty = true
  · rw [if_pos hemp]
    rw [ElemRange.isEmpty_ofView] at hemp
    rw [View.boxIndices_nil_of_isEmpty hemp]; rfl
  · rw [if_neg hemp, hsb, hse, hdb]
    simp only [Option.bind_eq_bind, Option.bind_some]
    have hlen : (se.diff sb).toNat = (boxIndices dst.exts).length := by
      rw [hsdiff, hext, ← boxIndices_length src hs]; simp
    rw [hlen]
    exact copyN_eq _ sb db m _ _ (by rw [hext]; exact hsaddrs) hdaddrs

theorem ElemRange.assignMoved_ofView (moved : α) (dst src : View) (m : Mem α) (hd : dst.lay.WF) (hs : src.lay.WF)
    (hext : dst.exts = src.exts) :
    (ElemRange.ofView dst).assignMoved moved (ElemRange.ofView src) m =
      some (moveList moved (((boxIndices dst.exts).map dst.addr).zip ((boxIndices dst.exts).map src.addr)) m) := by
  obtain ⟨sb, se, hsb, hse, hsdiff, hssize, hsaddrs⟩ := elemit_kth src hs
  obtain ⟨db, de, hdb, hde, hddiff, hdsize, hdaddrs⟩ := elemit_kth dst hd
  have hnum := View.numElements_eq_of_exts_eq hd hs hext
  unfold ElemRange.assignMoved
  rw [hdsize, hssize]
  simp only [hnum, ne_eq, not_true_eq_false, if_false]
  by_cases hemp : (ElemRange.ofView dst).isEmpty = true
  · rw [if_pos hemp]
    rw [ElemRange.isEmpty_ofView] at hemp
    rw [View.boxIndices_nil_of_isEmpty hemp]; rfl
  · rw [if_neg hemp, hsb, hse, hdb]
    simp only [Option.bind_eq_bind, Option.bind_some]
    have hlen : (se.diff sb).toNat = (boxIndices dst.exts).length := by
      rw [hsdiff, hext, ← boxIndices_length src hs]; simp
    rw [hlen]
    exact moveN_eq moved _ sb db m _ _ (by rw [hext]; exact hsaddrs) hdaddrs

/-- `swap(a, b)` on views is the sequential swap over the common index list -/
theorem View.swap_eq (a b : View) (m : Mem α) (ha : a.lay.WF) (hb : b.lay.WF) (hne : a.lay ≠ [])
    (hext : a.exts = b.exts) :
    a.swap b m =
      some (swapList (((boxIndices a.exts).map a.addr).zip ((boxIndices a.exts).map b.addr)) m) := by
  obtain ⟨ab, ae, hab, hae, hadiff, hasize, haaddrs⟩ := elemit_kth a ha
  obtain ⟨bb, be, hbb, hbe, hbdiff, hbsize, hbaddrs⟩ := elemit_kth b hb
  unfold View.swap
  cases hl : a.lay with
  | nil => exact absurd hl hne
  | cons d l =>
    have heqv : Exts.eqv a.exts b.exts = true := by rw [hext]; exact Exts.eqv_refl _
    simp only [heqv, if_true, hab, hae, hbb, Option.bind_eq_bind, Option.bind_some]
    have hlen : (ae.diff ab).toNat = (boxIndices a.exts).length := by
      rw [hadiff, ← boxIndices_length a ha]; simp
    rw [hlen]
    exact swapN_eq _ ab bb m _ _ haaddrs (by rw [hext]; exact hbaddrs)

/-- `a.elements() == b.elements()` on views of equal extensions is element-wise equality over the index list -/
theorem ElemRange.eq_ofView [DecidableEq α] (a b : View) (m : Mem α) (ha : a.lay.WF) (hb : b.lay.WF)
    (hext : a.exts = b.exts) :
    (ElemRange.ofView a).eq (ElemRange.ofView b) m =
      some (decide (∀ idx ∈ boxIndices a.exts, m (b.addr idx) = m (a.addr idx))) := by
  obtain ⟨ab, ae, hab, hae, hadiff, hasize, haaddrs⟩ := elemit_kth a ha
  obtain ⟨bb, be, hbb, hbe, hbdiff, hbsize, hbaddrs⟩ := elemit_kth b hb
  have hnum := View.numElements_eq_of_exts_eq ha hb hext
  unfold ElemRange.eq
  rw [hasize, hbsize]
  simp only [hnum, ne_eq, not_true_eq_false, if_false, hbb, hbe, hab, Option.bind_eq_bind, Option.bind_some]
  have hlen : (be.diff bb).toNat = (boxIndices a.exts).length := by
    rw [hbdiff, hext, ← boxIndices_length b hb]; simp
  rw [hlen]
  rw [← hext] at hbaddrs
  exact equalN_map_iff m b.addr a.addr (boxIndices a.exts) bb ab hbaddrs haaddrs

theorem nodup_map_of_inj_on {ι β : Type} (L : List ι) (f : ι → β) (hnd : L.Nodup)
    (hinj : ∀ i ∈ L, ∀ j ∈ L, f i = f j → i = j) : (L.map f).Nodup := by
  induction L with
  | nil => simp
  | cons a L ih =>
    have hnd' := List.nodup_cons.mp hnd
    rw [List.map_cons, List.nodup_cons]
    refine ⟨?_, ih hnd'.2 (fun i hi j hj => hinj i (List.mem_cons_of_mem _ hi) j (List.mem_cons_of_mem _ hj))⟩
    intro hc
    obtain ⟨j, hj, hfj⟩ := List.mem_map.mp hc
    have := hinj j (List.mem_cons_of_mem _ hj) a (by simp) hfj
    subst this
    exact hnd'.1 hj

/-- index tuples of a 1-D box -/
theorem boxIndices_one (e : Ext) :
    boxIndices [e] = (List.range e.size.toNat).map (fun (k : Nat) => [e.first + Int.ofNat k]) := by
  simp only [boxIndices, List.map_cons, List.map_nil]
  generalize e.size.toNat = n
  induction n with
  | zero => rfl
  | succ n ih => rw [List.range_succ, List.flatMap_append, List.map_append, ih]; simp

/-- D = 1: `begin()`, `++` visits the elements in index order -/
theorem View.arr_addrs_one (v : View) (d : Dim) (hv : v.lay = [d]) (hd : d.WF) :
    ArrIt.addrs v.size.toNat v.begin' = (boxIndices v.exts).map v.addr := by
  have hsz : v.size = d.ext.size := by simp only [View.size, hv]; exact hd.size_eq
  rw [ArrIt.addrs_eq, hsz]
  simp only [View.exts, Layout.exts, hv, List.map_cons, List.map_nil, boxIndices_one, List.map_map, View.begin']
  apply List.map_congr_left
  intro k hk
  simp only [Function.comp, addr_eq, hv, Layout.off]
  rcases hd.cases with h0 | ⟨f, n, hn, hs, hf, hnn, he, _⟩
  · rw [Dim.ext_of_nelems_zero h0] at hk; simp [Ext.size] at hk
  · rw [he, hf]; simp only [Int.add_mul]; omega


/-- the value of a view: its elements in canonical order -/
theorem View.read_eq (v : View) (m : Mem α) (hv : v.lay.WF) (hne : v.lay ≠ []) :
    v.read m = some ((boxIndices v.exts).map (fun idx => m (v.addr idx))) := by
  obtain ⟨b, e, hb, he, hdiff, _, haddrs⟩ := elemit_kth v hv
  unfold View.read
  cases hl : v.lay with
  | nil => exact absurd hl hne
  | cons d l =>
    simp only [ElemRange.read, hb, he, Option.bind_eq_bind, Option.bind_some]
    have hlen : (e.diff b).toNat = (boxIndices v.exts).length := by
      rw [hdiff, ← boxIndices_length v hv]; simp
    rw [hlen, readN_eq m _ b _ haddrs, List.map_map]
    rfl


/-! ### C05: the view-level operations as list loops, and what the list loops do under the property's quantifier -/

theorem View.assignElements_eq (dst src : View) (m : Mem α) (hd : dst.lay.WF) (hs : src.lay.WF) (hne : dst.lay ≠ [])
    (hext : dst.exts = src.exts) :
    dst.assignElements src m =
      some (copyList (((boxIndices dst.exts).map dst.addr).zip ((boxIndices dst.exts).map src.addr)) m) := by
  unfold View.assignElements
  cases hl : dst.lay with
  | nil => exact absurd hl hne
  | cons d l => exact ElemRange.assign_ofView dst src m hd hs hext

theorem View.assign_eq (dst src : View) (m : Mem α) (hd : dst.lay.WF) (hs : src.lay.WF) (hne : dst.lay ≠ [])
    (hext : dst.exts = src.exts) :
    dst.assign src m =
      some (copyList (((boxIndices dst.exts).map dst.addr).zip ((boxIndices dst.exts).map src.addr)) m) := by
  unfold View.assign
  cases hl : dst.lay with
  | nil => exact absurd hl hne
  | cons d l =>
    have heqv : Exts.eqv dst.exts src.exts = true := by rw [hext]; exact Exts.eqv_refl _
    simp only [heqv, if_true]
    exact ElemRange.assign_ofView dst src m hd hs hext

theorem View.assignT_eq (dst src : View) (m : Mem α) (hd : dst.lay.WF) (hs : src.lay.WF) (hne : dst.lay ≠ [])
    (hext : dst.exts = src.exts) :
    dst.assignT src m =
      some (copyList (((boxIndices dst.exts).map dst.addr).zip ((boxIndices dst.exts).map src.addr)) m) := by
  unfold View.assignT
  cases hl : dst.lay with
  | nil => exact absurd hl hne
  | cons d l =>
    simp only [hext, Exts.eqv_refl, if_true]
    rw [← hext]
    exact ElemRange.assign_ofView dst src m hd hs hext

theorem View.assignMoved_eq (moved : α) (dst src : View) (m : Mem α) (hd : dst.lay.WF) (hs : src.lay.WF)
    (hne : dst.lay ≠ []) (hext : dst.exts = src.exts) :
    dst.assignMoved moved src m =
      some (moveList moved (((boxIndices dst.exts).map dst.addr).zip ((boxIndices dst.exts).map src.addr)) m) := by
  unfold View.assignMoved
  cases hl : dst.lay with
  | nil => exact absurd hl hne
  | cons d l =>
    simp only [hext, Exts.eqv_refl, if_true]
    rw [← hext]
    exact ElemRange.assignMoved_ofView moved dst src m hd hs hext

theorem View.copy_spec (dst src : View) (m : Mem α) (hext : dst.exts = src.exts) (hinj : dst.Injective)
    (hdis : dst.Disjoint src) :
    (∀ idx, InBox dst.exts idx →
      copyList (((boxIndices dst.exts).map dst.addr).zip ((boxIndices dst.exts).map src.addr)) m (dst.addr idx)
        = m (src.addr idx)) ∧
    (∀ a, ¬ dst.InImage a →
      copyList (((boxIndices dst.exts).map dst.addr).zip ((boxIndices dst.exts).map src.addr)) m a = m a) := by
  have mb := fun i => (mem_boxIndices dst.exts i)
  obtain ⟨c1, c2⟩ := copyList_spec (boxIndices dst.exts) dst.addr src.addr m (boxIndices_nodup _)
    (fun i hi j hj h => hinj i j ((mb i).mp hi) ((mb j).mp hj) h)
    (fun i hi j hj => hdis i j ((mb i).mp hi) (hext ▸ (mb j).mp hj))
  exact ⟨fun idx hidx => c1 idx ((mb idx).mpr hidx), fun a ha => c2 a (fun hc => ha ((View.mem_addrs_iff dst a).mp hc))⟩

theorem View.move_spec (moved : α) (dst src : View) (m : Mem α) (hext : dst.exts = src.exts) (hinj : dst.Injective)
    (hsinj : src.Injective) (hdis : dst.Disjoint src) :
    (∀ idx, InBox dst.exts idx →
      moveList moved (((boxIndices dst.exts).map dst.addr).zip ((boxIndices dst.exts).map src.addr)) m (dst.addr idx)
        = m (src.addr idx)) ∧
    (∀ idx, InBox src.exts idx →
      moveList moved (((boxIndices dst.exts).map dst.addr).zip ((boxIndices dst.exts).map src.addr)) m (src.addr idx)
        = moved) ∧
    (∀ a, ¬ dst.InImage a → ¬ src.InImage a →
      moveList moved (((boxIndices dst.exts).map dst.addr).zip ((boxIndices dst.exts).map src.addr)) m a = m a) := by
  have mb := fun i => (mem_boxIndices dst.exts i)
  obtain ⟨c1, c2⟩ := moveList_spec moved (boxIndices dst.exts) dst.addr src.addr m (boxIndices_nodup _)
    (fun i hi j hj h => hinj i j ((mb i).mp hi) ((mb j).mp hj) h)
    (fun i hi j hj h => hsinj i j (hext ▸ (mb i).mp hi) (hext ▸ (mb j).mp hj) h)
    (fun i hi j hj => hdis i j ((mb i).mp hi) (hext ▸ (mb j).mp hj))
  refine ⟨fun idx hidx => (c1 idx ((mb idx).mpr hidx)).1, fun idx hidx => (c1 idx ((mb idx).mpr (hext ▸ hidx))).2,
    fun a ha hb => c2 a (fun hc => ha ((View.mem_addrs_iff dst a).mp hc)) (fun hc => hb ?_)⟩
  rw [hext] at hc
  exact (View.mem_addrs_iff src a).mp hc

theorem View.swap_spec (a b : View) (m : Mem α) (hext : a.exts = b.exts) (hainj : a.Injective)
    (hbinj : b.Injective) (hdis : a.Disjoint b) :
    (∀ idx, InBox a.exts idx →
      swapList (((boxIndices a.exts).map a.addr).zip ((boxIndices a.exts).map b.addr)) m (a.addr idx) = m (b.addr idx) ∧
      swapList (((boxIndices a.exts).map a.addr).zip ((boxIndices a.exts).map b.addr)) m (b.addr idx) = m (a.addr idx)) ∧
    (∀ x, ¬ a.InImage x → ¬ b.InImage x →
      swapList (((boxIndices a.exts).map a.addr).zip ((boxIndices a.exts).map b.addr)) m x = m x) := by
  have mb := fun i => (mem_boxIndices a.exts i)
  obtain ⟨c1, c2⟩ := swapList_spec (boxIndices a.exts) a.addr b.addr m (boxIndices_nodup _)
    (fun i hi j hj h => hainj i j ((mb i).mp hi) ((mb j).mp hj) h)
    (fun i hi j hj h => hbinj i j (hext ▸ (mb i).mp hi) (hext ▸ (mb j).mp hj) h)
    (fun i hi j hj => hdis i j ((mb i).mp hi) (hext ▸ (mb j).mp hj))
  refine ⟨fun idx hidx => c1 idx ((mb idx).mpr hidx),
    fun x ha hb => c2 x (fun hc => ha ((View.mem_addrs_iff a x).mp hc)) (fun hc => hb ?_)⟩
  rw [hext] at hc
  exact (View.mem_addrs_iff b x).mp hc

/-! ### C05: storing a sequence of values, flat arrays -/

theorem writeList_zip_not_mem (as : List Int) (vals : List α) (m : Mem α) (a : Int) (h : a ∉ as) :
    writeList (as.zip vals) m a = m a := by
  apply writeList_not_mem
  intro hc
  obtain ⟨p, hp, rfl⟩ := List.mem_map.mp hc
  exact h (List.of_mem_zip hp).1

theorem writeList_zip_getElem (as : List Int) (vals : List α) (m : Mem α) (hnd : as.Nodup)
    (hlen : as.length = vals.length) (k : Nat) (hk : k < vals.length) :
    writeList (as.zip vals) m (as[k]'(by omega)) = vals[k] := by
  have hk' : k < (as.zip vals).length := by simp [List.length_zip]; omega
  have hmem : (as.zip vals)[k] ∈ as.zip vals := List.getElem_mem hk'
  have := writeList_mem (as.zip vals) m (by rw [List.map_fst_zip (by omega)]; exact hnd) _ hmem
  simpa [List.getElem_zip] using this

theorem collapse_of_ne_zero (es : List Ext) (h : nElems es ≠ 0) : collapse es = es := by
  induction es with
  | nil => rfl
  | cons e es ih =>
    simp only [nElems] at h
    have hsub : nElems es ≠ 0 := by intro h0; rw [h0] at h; simp at h
    simp only [collapse, h, if_false, ih hsub]

/-- every position of `[0, Π sizes)` is the row-major position of an index tuple of the box -/
theorem rowMajor_onto (es : List Ext) (hes : ∀ e ∈ es, e.first ≤ e.last) (k : Int) (h0 : 0 ≤ k) (h1 : k < nElems es) :
    ∃ idx, InBox es idx ∧ rowMajor es idx = k := by
  have : k ∈ (boxIndices es).map (rowMajor es) := by
    rw [boxIndices_rowMajor es hes, mem_seqFrom]; omega
  obtain ⟨idx, hidx, rfl⟩ := List.mem_map.mp this
  exact ⟨idx, (mem_boxIndices es idx).mp hidx, rfl⟩

/-- index tuples of a concrete 2-D box -/
theorem inBox_two {f0 l0 f1 l1 : Int} {idx : List Int} (h : InBox [⟨f0, l0⟩, ⟨f1, l1⟩] idx) :
    ∃ a b, idx = [a, b] ∧ f0 ≤ a ∧ a < l0 ∧ f1 ≤ b ∧ b < l1 := by
  obtain ⟨a, r, rfl, h1, h2, h3⟩ := inBox_cons h
  obtain ⟨b, r', rfl, h4, h5, h6⟩ := inBox_cons h3
  cases r' with
  | nil => exact ⟨a, b, rfl, h1, h2, h4, h5⟩
  | cons _ _ => simp [InBox] at h6

end Multi
