/-
  MultiProofs.Lex — lexicographic order on sequences: if `r` is a strict total order so is `listLex r`; hence
  `lexN lt n` is a strict total order on `n`-fold nested sequences whenever `lt` is one on the elements.
-/
import MultiProofs.StoreSpec

namespace Multi

theorem listLex_irrefl {β : Type} {r : β → β → Bool} (h : StrictTotal r) : ∀ xs, listLex r xs xs = false := by
  intro xs
  induction xs with
  | nil => rfl
  | cons x xs ih => simp [listLex, h.irrefl x, ih]

theorem StrictTotal.asymm {β : Type} {r : β → β → Bool} (h : StrictTotal r) {x y : β} (h1 : r x y = true) :
    r y x = false := by
  cases h2 : r y x with
  | false => rfl
  | true =>
    have := h.trans x y x h1 h2
    rw [h.irrefl] at this; exact absurd this (by simp)

theorem listLex_trans {β : Type} {r : β → β → Bool} (h : StrictTotal r) :
    ∀ xs ys zs, listLex r xs ys = true → listLex r ys zs = true → listLex r xs zs = true := by
  intro xs
  induction xs with
  | nil =>
    intro ys zs h1 h2
    cases ys with
    | nil => simp [listLex] at h1
    | cons y ys =>
      cases zs with
      | nil => simp [listLex] at h2
      | cons z zs => rfl
  | cons x xs ih =>
    intro ys zs h1 h2
    cases ys with
    | nil => simp [listLex] at h1
    | cons y ys =>
      cases zs with
      | nil => simp [listLex] at h2
      | cons z zs =>
        simp only [listLex] at h1 h2 ⊢
        cases hxy : r x y with
        | true =>
          have hyx := h.asymm hxy
          cases hyz : r y z with
          | true => simp [h.trans x y z hxy hyz]
          | false =>
            cases hzy : r z y with
            | true => simp [hyz, hzy] at h2
            | false =>
              have := h.total y z hyz hzy
              subst this
              simp [hxy]
        | false =>
          cases hyx : r y x with
          | true => simp [hxy, hyx] at h1
          | false =>
            have := h.total x y hxy hyx
            subst this
            simp only [hxy] at h1
            cases hxz : r x z with
            | true => simp
            | false =>
              cases hzx : r z x with
              | true => simp [hxz, hzx] at h2
              | false =>
                simp only [hxz, hzx] at h2 ⊢
                simp at h1 h2 ⊢
                exact ih ys zs h1 h2

theorem listLex_total {β : Type} {r : β → β → Bool} (h : StrictTotal r) :
    ∀ xs ys, listLex r xs ys = false → listLex r ys xs = false → xs = ys := by
  intro xs
  induction xs with
  | nil =>
    intro ys h1 h2
    cases ys with
    | nil => rfl
    | cons y ys => simp [listLex] at h1
  | cons x xs ih =>
    intro ys h1 h2
    cases ys with
    | nil => simp [listLex] at h2
    | cons y ys =>
      simp only [listLex] at h1 h2
      cases hxy : r x y with
      | true => simp [hxy] at h1
      | false =>
        cases hyx : r y x with
        | true => simp [hyx] at h2
        | false =>
          have := h.total x y hxy hyx
          subst this
          simp [hxy] at h1 h2
          rw [ih ys h1 h2]

theorem listLex_strictTotal {β : Type} {r : β → β → Bool} (h : StrictTotal r) : StrictTotal (listLex r) :=
  ⟨listLex_irrefl h, listLex_trans h, listLex_total h⟩

theorem lexN_strictTotal {α : Type} {lt : α → α → Bool} (h : StrictTotal lt) (n : Nat) : StrictTotal (lexN lt n) := by
  induction n with
  | zero => exact h
  | succ n ih => exact listLex_strictTotal ih

end Multi
