/-
  C10 — Storage stays with the allocator that produced it; propagation follows traits.

  Property theorems only.  Allocator instances are numbers; `Cfg.eqv` is `operator==` (`is_always_equal` or equal ids);
  POCCA / POCMA / POCS and `select_on_container_copy_construction` are parameters of the model, read where the code reads
  them.  Every block records the instance that allocated it and the instance it was released through.

  `InvA c B A` ("dealloc_by_equal_alloc"): the allocator stored in the array that owns a block is equal to the one that
  allocated it, and every returned block was released through an allocator equal to its producer.

  THE FULL STATEMENT is `AllocSafe c`: along every history (no failures) `InvA` holds.

    * `alloc_safe_fixed`   PROVED IN FULL for the tree with every repair (F6, F7, F8, F9d, F9, F9c): every configuration of the
                           traits, every select_on_container_copy_construction mode, every allocator instance, every history.

  It was FALSE for the code before fixes/F9.patch, F9c.patch, F9d.patch — negations on concrete witnesses (each for the tree
  without that one repair):

    * `finding_F9_move_assign_adopts_foreign_block`            move assignment between unequal non-propagating allocators
    * `finding_F9_ext_move_ctor_adopts_foreign_block`          allocator-extended move constructor with an unequal allocator
    * `finding_F9c_copy_assign_replaces_allocator_under_block` same-extent copy assignment with POCCA
    * `finding_F9d_view_assign_uses_default_allocator`         assignment from a view: the temporary is built with
                                                               `allocator_type{}` and its block is adopted

  Also proved, for all 16 trait configurations, all `select_on_container_copy_construction` modes, all instances, all
  histories (no enumeration):

    * `dealloc_by_equal_alloc_partial`   every operation outside the finding classes of `c` (`Op.affectedA c = false`; none when
                                         every repair is in) preserves `InvA`
    * `dealloc_by_equal_alloc_history`   hence every history of such operations does
    * `propagation_follows_traits`       copy assignment, move assignment and swap replace the allocator exactly when
                                         POCCA / POCMA / POCS say so; copy construction uses select_on_container_copy_construction;
                                         move construction takes the source's allocator; reextent, reshape, clear, assign keep it
    * `ext_ctor_uses_given`              every allocator-extended constructor stores the supplied allocator

  Swap of arrays whose allocators are unequal and do not propagate on swap is excluded by `Op.applicable` (undefined for
  standard containers as well) — stated, not hidden.
-/
import MultiProofs.LedgerLog

namespace Multi
namespace C10
open Ledger

/-- THE FULL STATEMENT of C10 for configuration `c` -/
def AllocSafe (c : Cfg) : Prop :=
  ∀ (p : Nat) (ops : List Op), ∃ s', runHist c ops (initSt p) = some s' ∧ InvAS c s'

/-- one operation outside the finding classes, without failures: the block/allocator pairing survives -/
theorem dealloc_by_equal_alloc_partial (c : Cfg) (hok : c.OK) (op : Op) (s : St) (hG : Good c s) (hA : InvAS c s)
    (hnf : s.fuel = none) (happ : op.applicable c s = true) (hfx : op.fixedIn c = true) (haff : op.affectedA c = false) :
    ∃ s', op.run c s = .ok () s' ∧ Good c s' ∧ InvAS c s' ∧ s'.fuel = none := by
  have h := run_spec c hok op s hG happ hfx
  unfold OpSpec at h
  cases hr : op.run c s with
  | ok u s' => rw [hr] at h; exact ⟨s', rfl, h.1, h.2.2.2.1 haff hA, h.2.1 hnf⟩
  | threw s' => rw [hr] at h; exact absurd hnf h.1
  | term s' => rw [hr] at h; exact absurd hnf h.1
  | ub s' => rw [hr] at h; exact h.elim

/-- by induction: along every history of operations outside the finding classes every block is owned, and was released, by
    an allocator equal to the one that produced it -/
theorem dealloc_by_equal_alloc_history (c : Cfg) (hok : c.OK) (ops : List Op)
    (hops : ∀ op ∈ ops, op.fixedIn c = true ∧ op.affectedA c = false) :
    ∀ (s : St), Good c s → InvAS c s → s.fuel = none → ∃ s', runHist c ops s = some s' ∧ Good c s' ∧ InvAS c s' := by
  induction ops with
  | nil => intro s hG hA _; exact ⟨s, rfl, hG, hA⟩
  | cons op ops ih =>
    intro s hG hA hnf
    have hop := hops op (by simp)
    have hrest : ∀ o ∈ ops, o.fixedIn c = true ∧ o.affectedA c = false := fun o ho => hops o (by simp [ho])
    unfold runHist stepSt
    by_cases happ : op.applicable c s = true
    · obtain ⟨s1, hrun, hG1, hA1, hnf1⟩ := dealloc_by_equal_alloc_partial c hok op s hG hA hnf happ hop.1 hop.2
      simp only [happ, if_true, hrun]
      exact ih hrest s1 hG1 hA1 hnf1
    · simp only [happ, Bool.false_eq_true, if_false]
      exact ih hrest s hG hA hnf

/-- with `is_always_equal` nothing can go wrong: every history satisfies the full statement (the finding classes are void) -/
theorem alloc_safe_always_equal (c : Cfg) (hiae : c.iae = true) (p : Nat) (ops : List Op) (s' : St)
    (_ : runHist c ops (initSt p) = some s') : InvAS c s' := InvA.of_iae hiae _ _

/-- every repair is in the tree -/
def AllFixed (c : Cfg) : Prop := c.Fixed ∧ c.fx9 = true ∧ c.fx9a = true ∧ c.fx9c = true

theorem not_affected_of_allFixed {c : Cfg} (h : AllFixed c) (op : Op) : op.fixedIn c = true ∧ op.affectedA c = false := by
  obtain ⟨hf, h9, h9a, h9c⟩ := h
  refine ⟨fixedIn_of_fixed hf op, ?_⟩
  cases op <;> simp [Op.affectedA, h9, h9a, h9c]

/-- THE FULL STATEMENT, for the tree with every repair: along every history, over every trait configuration and all
    allocator instances, every block is owned by — and was released through — an allocator equal to the one that produced it -/
theorem alloc_safe_fixed (c : Cfg) (hok : c.OK) (hfix : AllFixed c) : AllocSafe c := by
  intro p ops
  obtain ⟨s', hrun, _, hA⟩ := dealloc_by_equal_alloc_history c hok ops (fun op _ => not_affected_of_allFixed hfix op)
    (initSt p) (good_init c p none) (InvA.init c p) rfl
  exact ⟨s', hrun, hA⟩

/-- the allocator an operation leaves in its target, for every operation that completes without a failure:
    * copy assignment: the source's allocator iff POCCA, else unchanged;  move assignment: iff POCMA;  swap: exchanged iff POCS;
    * copy construction: `select_on_container_copy_construction(source allocator)`;  move construction: the source's allocator;
    * reextent (three overloads), reshape, clear, assign(extensions, value), assignment through views: unchanged -/
theorem propagation_follows_traits (c : Cfg) (hok : c.OK) (op : Op) (s s' : St) (hG : Good c s)
    (happ : op.applicable c s = true) (hfx : op.fixedIn c = true) (hrun : op.run c s = .ok () s') :
    match op with
    | .assignCopy i j => allocOf s' i = if c.pocca then allocOf s j else allocOf s i
    | .assignMove i j => allocOf s' i = if c.pocma then allocOf s j else allocOf s i
    | .swap i j => allocOf s' i = (if c.pocs then allocOf s j else allocOf s i) ∧
                   allocOf s' j = (if c.pocs then allocOf s i else allocOf s j)
    | .ctorCopy i j => allocOf s' i = (allocOf s j).map c.select
    | .ctorMove i j => allocOf s' i = allocOf s j
    | .reextent i _ | .reextentFill i _ | .reextentRv i _ | .reshape i _ | .clear i | .assignFill i _ | .viewAssign i _ =>
      allocOf s' i = allocOf s i
    | _ => True := by
  have h := run_spec c hok op s hG happ hfx
  unfold OpSpec at h
  rw [hrun] at h
  have hp := h.2.2.2.2
  cases op <;> first | exact hp | trivial

/-- allocator-extended constructors (default, sizing, fill, copy, from-view, iterator-range, move) use the supplied allocator -/
theorem ext_ctor_uses_given (c : Cfg) (hok : c.OK) (op : Op) (s s' : St) (hG : Good c s)
    (happ : op.applicable c s = true) (hfx : op.fixedIn c = true) (hrun : op.run c s = .ok () s') :
    match op with
    | .ctorDefault i a | .ctorExt i a _ | .ctorFill i a _ | .ctorCopyA i _ a | .ctorView i _ a _ | .ctorRange i _ a
    | .ctorMoveA i _ a => allocOf s' i = some a
    | _ => True := by
  have h := run_spec c hok op s hG happ hfx
  unfold OpSpec at h
  rw [hrun] at h
  have hp := h.2.2.2.2
  cases op <;> first | exact hp | trivial

/-! ### the negation, on concrete witnesses -/

/-- decidable evidence against `InvA`: the run was cut short, or some non-empty live array stores an allocator unequal to the
    one that produced its block, or some block was released through an allocator unequal to its producer -/
def badAlloc (c : Cfg) (r : Option St) : Bool :=
  match r with
  | none => true
  | some s =>
    ((List.range s.arrs.length).any fun i =>
      match s.arrs[i]? with
      | some (some a) =>
        decide (0 < a.n) && (match a.base with
          | some b => (match s.blocks[b]? with
            | some blk => !blk.freed && !c.eqv blk.alloc a.alloc
            | none => false)
          | none => false)
      | _ => false) ||
    ((List.range s.blocks.length).any fun b =>
      match s.blocks[b]? with
      | some blk => blk.freed && !c.eqv blk.freedBy blk.alloc
      | none => false)

theorem badAlloc_not_invA (c : Cfg) (r : Option St) (h : badAlloc c r = true) : ¬ ∃ s', r = some s' ∧ InvAS c s' := by
  intro ⟨s', hr, hA⟩
  subst hr
  simp only [badAlloc, Bool.or_eq_true, List.any_eq_true, List.mem_range] at h
  rcases h with ⟨i, _, hi⟩ | ⟨b, _, hb⟩
  · cases hAi : s'.arrs[i]? with
    | none => rw [hAi] at hi; cases hi
    | some o =>
      cases o with
      | none => rw [hAi] at hi; cases hi
      | some a =>
        rw [hAi] at hi
        simp only [Bool.and_eq_true, decide_eq_true_eq] at hi
        obtain ⟨hn, h2⟩ := hi
        cases hbase : a.base with
        | none => rw [hbase] at h2; cases h2
        | some b =>
          rw [hbase] at h2
          simp only at h2
          cases hB : s'.blocks[b]? with
          | none => rw [hB] at h2; cases h2
          | some blk =>
            rw [hB] at h2
            simp only [Bool.and_eq_true, Bool.not_eq_true'] at h2
            have := hA.ownerEq i a b blk hAi hn hbase hB h2.1
            rw [this] at h2
            exact absurd h2.2 (by decide)
  · cases hB : s'.blocks[b]? with
    | none => rw [hB] at hb; cases hb
    | some blk =>
      rw [hB] at hb
      simp only [Bool.and_eq_true, Bool.not_eq_true'] at hb
      have := hA.freedEq b blk hB hb.1
      rw [this] at hb
      exact absurd hb.2 (by decide)

/-- the tree with F6, F7, F8, F9d but before fixes/F9.patch and F9c.patch; no propagation, stateful allocators (the traits of
    std::pmr::polymorphic_allocator) -/
def cfgPlain : Cfg := { dim := 1, fx6 := true, fx7 := true, fx8 := true, fx9 := true }
/-- every repair in -/
def cfgFull : Cfg := { cfgPlain with fx9a := true, fx9c := true }
/-- the same with propagate_on_container_copy_assignment -/
def cfgPocca : Cfg := { cfgPlain with pocca := true }
/-- the tree before fixes/F9d -/
def cfgNo9 : Cfg := { cfgPlain with fx9 := false }

/-- F9: `B = std::move(A)` with `A` on allocator 1 and `B` on allocator 2 (unequal, POCMA false): `B` adopts block 0 of
    allocator 1 and will return it through allocator 2 -/
theorem finding_F9_move_assign_adopts_foreign_block : ¬ AllocSafe cfgPlain := fun h =>
  badAlloc_not_invA cfgPlain _ (by decide +kernel) (h 4 [.ctorFill 0 1 [⟨0, 2⟩], .ctorDefault 1 2, .assignMove 1 0])

/-- … and it does: destroying `B` releases the block through allocator 2 -/
theorem finding_F9_wrong_deallocate : ¬ AllocSafe cfgPlain := fun h =>
  badAlloc_not_invA cfgPlain _ (by decide +kernel) (h 4 [.ctorFill 0 1 [⟨0, 2⟩], .ctorDefault 1 2, .assignMove 1 0, .dtor 1])

/-- F9: `array B(std::move(A), alloc2)` with `A` on allocator 1 -/
theorem finding_F9_ext_move_ctor_adopts_foreign_block : ¬ AllocSafe cfgPlain := fun h =>
  badAlloc_not_invA cfgPlain _ (by decide +kernel) (h 4 [.ctorFill 0 1 [⟨0, 2⟩], .ctorMoveA 1 0 2])

/-- F9c: `A = B` with equal extents and POCCA: `A` takes allocator 2 and keeps block 0 of allocator 1 -/
theorem finding_F9c_copy_assign_replaces_allocator_under_block : ¬ AllocSafe cfgPocca := fun h =>
  badAlloc_not_invA cfgPocca _ (by decide +kernel) (h 4 [.ctorFill 0 1 [⟨0, 2⟩], .ctorFill 1 2 [⟨0, 2⟩], .assignCopy 0 1])

/-- F9d (before fixes/F9d): `A = B()` with other extents: the temporary's block comes from `allocator_type{}` = 0 and is
    adopted by `A` on allocator 1 -/
theorem finding_F9d_view_assign_uses_default_allocator : ¬ AllocSafe cfgNo9 := fun h =>
  badAlloc_not_invA cfgNo9 _ (by decide +kernel) (h 4 [.ctorFill 0 1 [⟨0, 2⟩], .ctorFill 1 1 [⟨0, 3⟩], .assignView 0 1 none true])

/-- with fixes/F9d the same history is fine -/
example : badAlloc cfgPlain (runHist cfgPlain [.ctorFill 0 1 [⟨0, 2⟩], .ctorFill 1 1 [⟨0, 3⟩], .assignView 0 1 none true, .dtor 0, .dtor 1]
    (initSt 4)) = false := by decide +kernel

/-- with fixes/F9.patch and F9c.patch the witnesses are harmless: the elements are moved into storage of the target's allocator,
    resp. the block is released through the old allocator and reacquired from the new one -/
example : badAlloc cfgFull (runHist cfgFull [.ctorFill 0 1 [⟨0, 2⟩], .ctorDefault 1 2, .assignMove 1 0, .dtor 1, .dtor 0] (initSt 4)) = false := by
  decide +kernel
example : badAlloc cfgFull (runHist cfgFull [.ctorFill 0 1 [⟨0, 2⟩], .ctorMoveA 1 0 2, .dtor 1, .dtor 0] (initSt 4)) = false := by
  decide +kernel
example : badAlloc { cfgFull with pocca := true } (runHist { cfgFull with pocca := true }
    [.ctorFill 0 1 [⟨0, 2⟩], .ctorFill 1 2 [⟨0, 2⟩], .assignCopy 0 1, .dtor 1, .dtor 0] (initSt 4)) = false := by decide +kernel
/-- the block of the moved-to array comes from ITS allocator (2), the source's block went back to allocator 1 -/
example : ((runHist cfgFull [.ctorFill 0 1 [⟨0, 2⟩], .ctorDefault 1 2, .assignMove 1 0] (initSt 4)).map fun s =>
    s.blocks.map fun b => (b.alloc, b.freed, b.freedBy)) = some [(1, true, 1), (2, false, 0)] := by decide +kernel

/-! ### non-vacuity -/

example : AllFixed cfgFull := ⟨⟨rfl, rfl, rfl⟩, rfl, rfl, rfl⟩
example : cfgFull.OK := ⟨(by intro h; cases h), (by decide)⟩

example : cfgPlain.OK := ⟨(by intro h; cases h), (by decide)⟩
/-- an unaffected history over two unequal allocators: copy construction, copy assignment, reextent, swap of equal ones -/
example : ∀ op ∈ [Op.ctorFill 0 1 [⟨0, 2⟩], .ctorCopyA 1 0 2, .assignCopy 1 0, .reextent 1 [⟨0, 4⟩], .dtor 0, .dtor 1],
    op.fixedIn cfgPlain = true ∧ op.affectedA cfgPlain = false := by decide
example : badAlloc cfgPlain (runHist cfgPlain [.ctorFill 0 1 [⟨0, 2⟩], .ctorCopyA 1 0 2, .assignCopy 1 0, .reextent 1 [⟨0, 4⟩], .dtor 0, .dtor 1]
    (initSt 4)) = false := by decide +kernel

end C10
end Multi
