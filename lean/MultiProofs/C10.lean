import MultiModel.Ledger
namespace Multi
namespace C10
theorem stub : True := trivial
end C10
end Multi
