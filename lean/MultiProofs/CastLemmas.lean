/-
  MultiProofs.CastLemmas — helper lemmas for C12: `layout_t::scale` on zero-based well-formed layouts,
  transfer of `Op.InDomain` between views of equal extents, canonical enumeration of a box.
-/
import MultiProofs.C01
import MultiModel.Cast

namespace Multi

/-- every level has `offset_ == 0` (no longer required by the casts; kept because it is an invariant of the view algebra,
    `zeroOff_op`) -/
def ZeroOff (l : Layout) : Prop := ∀ d ∈ l, d.offset = 0

/-- the stride assertion of `scale`, at every level: `(stride_*num) % den == 0` (layout.hpp:986) -/
def ScaleDiv (l : Layout) (num den : Int) : Prop := ∀ d ∈ l, den ∣ d.stride * num

/-- the offset assertion of `scale`, at every level: `(offset_*num) % den == 0` (layout.hpp:987) -/
def ScaleDivOff (l : Layout) (num den : Int) : Prop := ∀ d ∈ l, den ∣ d.offset * num

theorem ZeroOff.tail {d : Dim} {l : Layout} (h : ZeroOff (d :: l)) : ZeroOff l :=
  fun x hx => h x (List.mem_cons_of_mem _ hx)
theorem ScaleDiv.tail {d : Dim} {l : Layout} {a b : Int} (h : ScaleDiv (d :: l) a b) : ScaleDiv l a b :=
  fun x hx => h x (List.mem_cons_of_mem _ hx)

theorem scaleDiv_of_dvd (l : Layout) {num den : Int} (h : den ∣ num) : ScaleDiv l num den :=
  fun _ _ => Int.dvd_trans h (Int.dvd_mul_left _ _)
theorem scaleDivOff_of_dvd (l : Layout) {num den : Int} (h : den ∣ num) : ScaleDivOff l num den :=
  fun _ _ => Int.dvd_trans h (Int.dvd_mul_left _ _)

/-- on a well-formed layout without empty level the offset assertion follows from the stride assertion
    (an offset is a multiple of the stride) -/
theorem scaleDivOff_of_wf (l : Layout) (num den : Int) (hwf : l.WF) (hne : ∀ d ∈ l, d.nelems ≠ 0) (hd : ScaleDiv l num den) :
    ScaleDivOff l num den := by
  intro d hdm
  rcases (hwf d hdm).cases with h0 | ⟨f, n, _, _, hf, _, _, _⟩
  · exact absurd h0 (hne d hdm)
  · obtain ⟨q, hq⟩ := hd d hdm
    exact ⟨f * q, by rw [hf]; calc f * d.stride * num = f * (d.stride * num) := by grind
      _ = den * (f * q) := by rw [hq]; grind⟩

theorem scale_cons (d : Dim) (l : Layout) (num den : Int) :
    Layout.scale (d :: l) num den = ⟨(d.stride * num).tdiv den, (d.offset * num).tdiv den, (d.nelems * num).tdiv den⟩ :: Layout.scale l num den := by
  simp [Layout.scale]

theorem scale_length (l : Layout) (num den : Int) : (Layout.scale l num den).length = l.length := by
  simp [Layout.scale]

theorem disp_eq_off (l : Layout) (idx : List Int) : l.disp idx = l.off idx := by
  induction l generalizing idx with
  | nil => cases idx <;> simp [Layout.disp, Layout.off]
  | cons d l ih => cases idx with
    | nil => simp [Layout.disp, Layout.off]
    | cons i is => simp [Layout.disp, Layout.off, ih]

/-- one level of `scale` on a well-formed level (any index base): `(stride, f·stride, n·stride) ↦ (q, f·q, n·q)` with
    `den·q = stride·num` -/
theorem scale_dim {d : Dim} {num den : Int} (hwf : d.WF) (hdiv : den ∣ d.stride * num)
    (hnum : 0 < num) (hden : 0 < den) :
    let d' : Dim := ⟨(d.stride * num).tdiv den, (d.offset * num).tdiv den, (d.nelems * num).tdiv den⟩
    d'.WF ∧ d'.ext = d.ext ∧ d'.size = d.size ∧ (d'.nelems = 0 ↔ d.nelems = 0) ∧
    (d.nelems ≠ 0 → ∀ i : Int, den * (i * d'.stride - d'.offset) = num * (i * d.stride - d.offset)) := by
  intro d'
  rcases hwf.cases with hz | ⟨f, n, hn, hs, hf, hnn, he, hsz⟩
  · have : d'.nelems = 0 := by simp [d', hz]
    refine ⟨Or.inl this, ?_, ?_, ?_, fun h => absurd hz h⟩
    · rw [Dim.ext_of_nelems_zero this, Dim.ext_of_nelems_zero hz]
    · rw [Dim.size_of_nelems_zero this, Dim.size_of_nelems_zero hz]
    · simp [this, hz]
  · obtain ⟨q, hq⟩ := hdiv
    have hden0 : den ≠ 0 := by omega
    have hqpos : 0 < q := by
      have : 0 < den * q := by rw [← hq]; exact Int.mul_pos hs hnum
      exact pos_of_mul_pos_left this hden
    have e1 : (d.stride * num).tdiv den = q := by rw [hq]; exact Int.mul_tdiv_cancel_left q hden0
    have e2 : (d.nelems * num).tdiv den = n * q := by
      have : d.nelems * num = den * (n * q) := by rw [hnn]; calc n * d.stride * num = n * (d.stride * num) := by grind
        _ = den * (n * q) := by rw [hq]; grind
      rw [this]; exact Int.mul_tdiv_cancel_left _ hden0
    have e3 : (d.offset * num).tdiv den = f * q := by
      have : d.offset * num = den * (f * q) := by rw [hf]; calc f * d.stride * num = f * (d.stride * num) := by grind
        _ = den * (f * q) := by rw [hq]; grind
      rw [this]; exact Int.mul_tdiv_cancel_left _ hden0
    have hd' : d' = ⟨q, f * q, n * q⟩ := by simp [d', e1, e2, e3]
    have hne : d.nelems ≠ 0 := by rw [hnn]; exact Int.ne_of_gt (Int.mul_pos hn hs)
    refine ⟨?_, ?_, ?_, ?_, ?_⟩
    · rw [hd']; exact Dim.wf_mk hqpos hn
    · rw [hd', Dim.ext_mk hqpos hn, he]
    · rw [hd', Dim.size_mk hqpos hn, hsz]
    · rw [hd']; simp only
      have : n * q ≠ 0 := Int.ne_of_gt (Int.mul_pos hn hqpos)
      simp [this, hne]
    · intro _ i
      rw [hd', hf]; simp only
      calc den * (i * q - f * q) = (i - f) * (den * q) := by grind
        _ = (i - f) * (d.stride * num) := by rw [hq]
        _ = num * (i * d.stride - f * d.stride) := by grind

theorem scale_wf (l : Layout) (num den : Int) (hwf : l.WF) (hd : ScaleDiv l num den)
    (hnum : 0 < num) (hden : 0 < den) :
    (Layout.scale l num den).WF ∧ (Layout.scale l num den).exts = l.exts := by
  induction l with
  | nil => simp [Layout.scale, Layout.WF, Layout.exts]
  | cons d l ih =>
    obtain ⟨i1, i2⟩ := ih hwf.tail hd.tail
    obtain ⟨a1, a2, _, _, _⟩ := scale_dim hwf.head (hd d (by simp)) hnum hden
    rw [scale_cons]
    refine ⟨Layout.WF.cons a1 i1, ?_⟩
    simp only [Layout.exts, List.map_cons]; rw [a2]; exact congrArg _ i2

/-- displacements scale exactly, for every index tuple of the box and every index base:
    `den * off(scale l) idx = num * off(l) idx` -/
theorem scale_off (l : Layout) (num den : Int) (idx : List Int) (hwf : l.WF) (hd : ScaleDiv l num den)
    (hnum : 0 < num) (hden : 0 < den) (hin : InBox l.exts idx) :
    den * (Layout.scale l num den).off idx = num * l.off idx := by
  induction l generalizing idx with
  | nil => cases idx <;> simp [Layout.scale, Layout.off]
  | cons d l ih =>
    simp only [Layout.exts, List.map_cons] at hin
    obtain ⟨i, is, rfl, h1, h2, h3⟩ := inBox_cons hin
    have hne : d.nelems ≠ 0 := by
      intro h0; rw [Dim.ext_of_nelems_zero h0] at h1 h2; simp at h1 h2; omega
    obtain ⟨_, _, _, _, a5⟩ := scale_dim hwf.head (hd d (by simp)) hnum hden
    rw [scale_cons]
    simp only [Layout.off]
    rw [Int.mul_add, Int.mul_add, ih is hwf.tail hd.tail h3, a5 hne i]

/-! ### `Op.InDomain` depends only on the extents (and, for `flatted`, on the library's `is_flattable`) -/

theorem exts_nil_iff (v : View) : v.exts = [] ↔ v.lay = [] := by
  simp [View.exts, Layout.exts]

theorem ext_eq_of_exts (v w : View) (h : w.exts = v.exts) : w.ext = v.ext := by
  cases hv : v.lay with
  | nil =>
    have : w.lay = [] := by rw [← exts_nil_iff, h, exts_nil_iff]; exact hv
    simp [View.ext, hv, this]
  | cons d l =>
    cases hw : w.lay with
    | nil => rw [View.exts, View.exts, hv, hw] at h; simp [Layout.exts] at h
    | cons d' l' =>
      rw [View.exts, View.exts, hv, hw] at h
      simp only [Layout.exts, List.map_cons, List.cons.injEq] at h
      simp [View.ext, hv, hw, h.1]

theorem length_eq_of_exts (v w : View) (h : w.exts = v.exts) : w.lay.length = v.lay.length := by
  have := congrArg List.length h
  simpa [View.exts, Layout.exts] using this

theorem inDomain_congr (op : Op) (v w : View) (h : w.exts = v.exts) (hf : v.isFlattable = true → w.isFlattable = true)
    (hd : op.InDomain v) : op.InDomain w := by
  have he := ext_eq_of_exts v w h
  have hl := length_eq_of_exts v w h
  have hne : v.lay ≠ [] → w.lay ≠ [] := by
    intro hv hw; apply hv; rw [← exts_nil_iff, ← h, exts_nil_iff]; exact hw
  cases op <;> simp only [Op.InDomain] at hd ⊢
  case index i => exact ⟨hne hd.1, by rw [he]; exact hd.2⟩
  case sliced a b => exact ⟨hne hd.1, by rw [he]; exact hd.2⟩
  case range a b => exact ⟨hne hd.1, by rw [he]; exact hd.2⟩
  case strided s => exact ⟨hne hd.1, by rw [he]; exact hd.2⟩
  case dropped n => exact ⟨hne hd.1, by rw [he]; exact hd.2⟩
  case taked n => exact ⟨hne hd.1, by rw [he]; exact hd.2⟩
  case transposed => omega
  case diagonal => exact ⟨by omega, by rw [h]; exact hd.2⟩
  case partitioned n => exact ⟨hne hd.1, by rw [he]; exact hd.2⟩
  case chunked c => exact ⟨hne hd.1, by rw [he]; exact hd.2⟩
  case flatted => exact ⟨by omega, hf hd.2.1, by rw [he, h]; exact hd.2.2⟩
  case call args => rw [h]; exact hd

/-! ### canonical enumeration: the `rowMajor`-th tuple of `boxIndices es` is the tuple itself -/

theorem flatMap_range_block {α : Type} (g : Nat → List α) (m : Nat) (n : Nat) (hg : ∀ k, k < n → (g k).length = m) :
    ((List.range n).flatMap g).length = n * m ∧
    ∀ k j, k < n → j < m → ((List.range n).flatMap g)[k * m + j]? = (g k)[j]? := by
  induction n with
  | zero => simp
  | succ n ih =>
    obtain ⟨l1, l2⟩ := ih (fun k hk => hg k (by omega))
    rw [List.range_succ, List.flatMap_append]
    constructor
    · simp [l1, hg n (by omega), Nat.succ_mul]
    · intro k j hk hj
      by_cases hkn : k < n
      · have : k * m + j < ((List.range n).flatMap g).length := by
          rw [l1]
          have : k * m + m ≤ n * m := by
            have := Nat.mul_le_mul_right m (Nat.succ_le_of_lt hkn)
            simpa [Nat.succ_mul] using this
          omega
        rw [List.getElem?_append_left this]; exact l2 k j hkn hj
      · have hk' : k = n := by omega
        subst hk'
        have : ((List.range k).flatMap g).length ≤ k * m + j := by rw [l1]; omega
        rw [List.getElem?_append_right this, l1]
        simp

theorem boxIndices_length (es : List Ext) (h : ∀ e ∈ es, e.first ≤ e.last) :
    ((boxIndices es).length : Int) = nElems es := by
  induction es with
  | nil => simp [boxIndices, nElems]
  | cons e es ih =>
    have ih' := ih (fun x hx => h x (List.mem_cons_of_mem _ hx))
    have he := h e (by simp)
    simp only [boxIndices, nElems]
    have := (flatMap_range_block (fun (k : Nat) => (boxIndices es).map fun r => (e.first + Int.ofNat k) :: r)
      (boxIndices es).length e.size.toNat (fun k _ => by simp)).1
    rw [this]
    have hs : (e.size.toNat : Int) = e.size := by
      have : 0 ≤ e.size := by simp [Ext.size]; omega
      omega
    rw [Int.natCast_mul, hs, ih']

theorem boxIndices_get (es : List Ext) (h : ∀ e ∈ es, e.first ≤ e.last) (idx : List Int) (hin : InBox es idx) :
    (boxIndices es)[(rowMajor es idx).toNat]? = some idx ∧ 0 ≤ rowMajor es idx ∧ rowMajor es idx < nElems es := by
  induction es generalizing idx with
  | nil =>
    cases idx with
    | nil => simp [boxIndices, rowMajor, nElems]
    | cons _ _ => simp [InBox] at hin
  | cons e es ih =>
    obtain ⟨i, r, rfl, h1, h2, h3⟩ := inBox_cons hin
    have hes : ∀ x ∈ es, x.first ≤ x.last := fun x hx => h x (List.mem_cons_of_mem _ hx)
    obtain ⟨g1, g2, g3⟩ := ih hes r h3
    have hlen := boxIndices_length es hes
    simp only [boxIndices, rowMajor, nElems]
    let m := (boxIndices es).length
    have hm : (m : Int) = nElems es := hlen
    let k := (i - e.first).toNat
    have hk : (k : Int) = i - e.first := by simp [k]; omega
    let j := (rowMajor es r).toNat
    have hj : (j : Int) = rowMajor es r := by simp [j]; omega
    have hkn : k < e.size.toNat := by simp [Ext.size]; omega
    have hjm : j < m := by omega
    have key := (flatMap_range_block (fun (k : Nat) => (boxIndices es).map fun r => (e.first + Int.ofNat k) :: r)
      m e.size.toNat (fun k _ => by simp [m])).2 k j hkn hjm
    have hpos : ((i - e.first) * nElems es + rowMajor es r).toNat = k * m + j := by
      have : ((k * m + j : Nat) : Int) = (i - e.first) * nElems es + rowMajor es r := by
        rw [Int.natCast_add, Int.natCast_mul, hk, hm, hj]
      omega
    rw [hpos, key]
    refine ⟨?_, ?_, ?_⟩
    · rw [List.getElem?_map, g1]
      simp only [Option.map_some, Option.some.injEq, List.cons.injEq, and_true]
      show e.first + (k : Int) = i
      omega
    · have : 0 ≤ (i - e.first) * nElems es := Int.mul_nonneg (by omega) (by omega)
      omega
    · have hs : i - e.first ≤ e.size - 1 := by simp [Ext.size]; omega
      have m1 : (i - e.first) * nElems es ≤ (e.size - 1) * nElems es := Int.mul_le_mul_of_nonneg_right hs (by omega)
      have m2 : (e.size - 1) * nElems es = e.size * nElems es - nElems es := by rw [Int.sub_mul]; simp
      omega

end Multi

namespace Multi

/-! ### every operation of the view algebra keeps a zero-based layout zero-based -/

theorem zeroOff_of_mem {l l' : Layout} (h : ∀ x, x ∈ l' → x ∈ l) (hz : ZeroOff l) : ZeroOff l' :=
  fun x hx => hz x (h x hx)

theorem mem_rotate (l : Layout) (x : Dim) : x ∈ Layout.rotate l ↔ x ∈ l := by
  cases l with
  | nil => simp [Layout.rotate]
  | cons d l => rw [rotate_cons]; simp [or_comm]

theorem mem_unrotate (l : Layout) (x : Dim) : x ∈ Layout.unrotate l ↔ x ∈ l := by
  rcases List.eq_nil_or_concat l with h | ⟨l', d, h⟩
  · subst h; simp [Layout.unrotate]
  · subst h; rw [List.concat_eq_append, unrotate_snoc]; simp [or_comm]

theorem zeroOff_index (v : View) (i : Int) (hz : ZeroOff v.lay) : ZeroOff (v.index i).lay := by
  unfold View.index; split
  · exact hz
  · rename_i d sub h; rw [h] at hz; exact hz.tail

theorem zeroOff_head_mod (d d' : Dim) (sub : Layout) (h : d'.offset = d.offset) (hz : ZeroOff (d :: sub)) : ZeroOff (d' :: sub) := by
  intro x hx
  rcases List.mem_cons.mp hx with e | e
  · subst e; rw [h]; exact hz d (by simp)
  · exact hz x (List.mem_cons_of_mem _ e)

theorem zeroOff_sliced (v : View) (a b : Int) (hz : ZeroOff v.lay) : ZeroOff (v.sliced a b).lay := by
  unfold View.sliced; split
  · exact hz
  · rename_i d h; rw [h] at hz; simp only [Layout.slice]; exact zeroOff_head_mod d _ [] rfl hz
  · rename_i d sub _ h; rw [h] at hz; exact zeroOff_head_mod d _ sub rfl hz

theorem zeroOff_rotated (v : View) (hz : ZeroOff v.lay) : ZeroOff v.rotated.lay :=
  zeroOff_of_mem (fun x hx => (mem_rotate _ x).mp hx) hz
theorem zeroOff_unrotated (v : View) (hz : ZeroOff v.lay) : ZeroOff v.unrotated.lay :=
  zeroOff_of_mem (fun x hx => (mem_unrotate _ x).mp hx) hz

theorem zeroOff_paren (args : List Arg) : ∀ v : View, ZeroOff v.lay → ZeroOff (v.paren args).lay := by
  induction args with
  | nil => intro v hz; exact hz
  | cons a as ih =>
    intro v hz
    cases a with
    | idx i => simp only [View.paren]; exact ih _ (zeroOff_index v i hz)
    | rng x y =>
      simp only [View.paren]
      exact zeroOff_unrotated _ (ih _ (zeroOff_rotated _ (zeroOff_sliced v _ _ hz)))
    | all =>
      simp only [View.paren]
      exact zeroOff_unrotated _ (ih _ (zeroOff_rotated _ (zeroOff_sliced v _ _ hz)))

theorem zeroOff_partitioned (v : View) (n : Int) (hz : ZeroOff v.lay) : ZeroOff (v.partitioned n).lay := by
  unfold View.partitioned; split
  · exact hz
  · rename_i d sub h; rw [h] at hz
    intro x hx
    rcases List.mem_cons.mp hx with e | e
    · subst e; rfl
    · exact zeroOff_head_mod d ⟨d.stride, d.offset, d.nelems.tdiv n⟩ sub rfl hz x e

/-- zero-basedness is an invariant of the whole view algebra (no domain condition needed) -/
theorem zeroOff_op (op : Op) (v : View) (hz : ZeroOff v.lay) : ZeroOff (op.apply v).lay := by
  cases op with
  | index i => exact zeroOff_index v i hz
  | sliced a b => exact zeroOff_sliced v a b hz
  | range a b => exact zeroOff_sliced v _ _ hz
  | strided s =>
    simp only [Op.apply, View.strided]; split
    · exact hz
    · rename_i d sub h; rw [h] at hz; exact zeroOff_head_mod d _ sub rfl hz
  | dropped n =>
    simp only [Op.apply, View.dropped]; split
    · exact hz
    · rename_i d sub h; rw [h] at hz; exact zeroOff_head_mod d _ sub rfl hz
  | taked n =>
    simp only [Op.apply, View.taked]; split
    · exact hz
    · rename_i d sub h; rw [h] at hz; exact zeroOff_head_mod d _ sub rfl hz
  | rotated => exact zeroOff_rotated v hz
  | unrotated => exact zeroOff_unrotated v hz
  | transposed =>
    simp only [Op.apply, View.transposed]
    apply zeroOff_of_mem _ hz
    intro x hx
    unfold Layout.transpose at hx
    split at hx
    · rename_i d0 d1 l heq
      rw [heq]
      have : x = d1 ∨ x = d0 ∨ x ∈ l := by simpa using hx
      rcases this with h | h | h
      · subst h; simp
      · subst h; simp
      · exact List.mem_cons_of_mem _ (List.mem_cons_of_mem _ h)
    · exact hx
  | reversed =>
    simp only [Op.apply, View.reversed]
    apply zeroOff_of_mem _ hz
    intro x hx; rw [reverse_eq] at hx; exact List.mem_reverse.mp hx
  | diagonal =>
    simp only [Op.apply, View.diagonal]
    split
    · rename_i d0 d1 rest h
      have hp := zeroOff_paren [Arg.rng 0 (min d0.size d1.size), Arg.rng 0 (min d0.size d1.size)] v hz
      split
      · rename_i e0 e1 sub hw
        rw [hw] at hp
        exact zeroOff_head_mod e1 _ sub rfl hp.tail
      · exact hz
    · exact hz
  | partitioned n => exact zeroOff_partitioned v n hz
  | chunked c => exact zeroOff_partitioned v _ hz
  | flatted =>
    simp only [Op.apply, View.flatted]; split
    · rename_i d d1 sub h; rw [h] at hz; exact zeroOff_head_mod d1 _ sub rfl hz.tail
    · exact hz
  | call args => exact zeroOff_paren args v hz

end Multi
