/-
  MultiProofs.LedgerInv — the invariants of C08 / C10 over the heap and the pool of MultiModel.Ledger, and how they
  move under the state changes the operations perform (a slot replaced, a block returned, a block appended).

  Ownership is counted: `owners A b` is the number of live arrays of the pool with `num_elements() > 0` whose `base_`
  points to block `b`.  `Inv` says: every such array points to an outstanding block of exactly its size whose cells are
  all alive; every outstanding block has exactly one owner; every returned block has no live cell.
-/
import MultiModel.Ledger

namespace Multi
namespace Ledger

/-- `std::is_trivially_default_constructible<T>` implies `std::is_trivially_destructible<T>` (the trait tests the
    expression `T()` including its destruction) -/
def Cfg.WF (c : Cfg) : Prop := c.trivCtor = true → c.trivDtor = true

/-- an owned block: as many cells as requested and (unless the element type is trivial) all of them alive -/
def CellsOK (c : Cfg) (blk : Block) : Prop :=
  blk.cells.length = blk.size ∧ (c.trivCtor = true ∨ ∀ x ∈ blk.cells, x = Cell.live)

/-- a returned block: no live object was left in it (trivially destructible types need no destructor call) -/
def FreedOK (c : Cfg) (blk : Block) : Prop :=
  blk.cells.length = blk.size ∧ (c.trivDtor = true ∨ ∀ x ∈ blk.cells, x = Cell.raw)

/-- the array in a slot claims block `b`: it is alive, non-empty, and its `base_` is `b` -/
def ownsB (b : Nat) (o : Option Arr) : Bool :=
  match o with
  | some a => decide (0 < a.n) && a.base == some b
  | none => false

/-- number of owners of block `b` in the pool -/
def owners (A : List (Option Arr)) (b : Nat) : Nat := A.countP (ownsB b)

theorem ownsB_some {b : Nat} {a : Arr} : ownsB b (some a) = true ↔ 0 < a.n ∧ a.base = some b := by
  simp [ownsB]

/-- C08: the resource invariant -/
structure Inv (c : Cfg) (B : List Block) (A : List (Option Arr)) : Prop where
  /-- every non-empty live array points to an outstanding block of its size, all cells alive -/
  valid : ∀ (i : Nat) (a : Arr), A[i]? = some (some a) → 0 < a.n →
    ∃ (b : Nat) (blk : Block), a.base = some b ∧ B[b]? = some blk ∧ blk.freed = false ∧ blk.size = a.n ∧ CellsOK c blk
  /-- every outstanding block is owned by exactly one live array -/
  owned : ∀ (b : Nat) (blk : Block), B[b]? = some blk → blk.freed = false → owners A b = 1
  /-- a returned block holds no live object -/
  freed : ∀ (b : Nat) (blk : Block), B[b]? = some blk → blk.freed = true → FreedOK c blk

/-- C10: storage stays with the allocator that produced it -/
structure InvA (c : Cfg) (B : List Block) (A : List (Option Arr)) : Prop where
  /-- the allocator stored in the owner of a block is equal to the one that allocated it -/
  ownerEq : ∀ (i : Nat) (a : Arr) (b : Nat) (blk : Block), A[i]? = some (some a) → 0 < a.n → a.base = some b → B[b]? = some blk → blk.freed = false →
    c.eqv blk.alloc a.alloc = true
  /-- every block was released through an allocator equal to the one that produced it -/
  freedEq : ∀ (b : Nat) (blk : Block), B[b]? = some blk → blk.freed = true → c.eqv blk.freedBy blk.alloc = true

/-! ### counting owners -/

theorem owners_set {A : List (Option Arr)} {i : Nat} {old new : Option Arr} (b : Nat) (h : A[i]? = some old) :
    owners (A.set i new) b + (if ownsB b old then 1 else 0) = owners A b + (if ownsB b new then 1 else 0) := by
  have hi : i < A.length := (List.getElem?_eq_some_iff.mp h).1
  have hold : A[i] = old := (List.getElem?_eq_some_iff.mp h).2
  unfold owners
  rw [List.countP_set hi, hold]
  have hpos : (if ownsB b old = true then 1 else 0) ≤ List.countP (ownsB b) A := by
    by_cases ho : ownsB b old = true
    · simp only [ho, if_true]
      apply List.countP_pos_iff.mpr
      exact ⟨old, by rw [← hold]; exact List.getElem_mem hi, ho⟩
    · simp [ho]
  omega

theorem owners_pos {A : List (Option Arr)} {j : Nat} {o : Option Arr} {b : Nat} (h : A[j]? = some o)
    (ho : ownsB b o = true) : 1 ≤ owners A b := by
  have hj : j < A.length := (List.getElem?_eq_some_iff.mp h).1
  have hv : A[j] = o := (List.getElem?_eq_some_iff.mp h).2
  unfold owners
  apply List.countP_pos_iff.mpr
  exact ⟨o, by rw [← hv]; exact List.getElem_mem hj, ho⟩

theorem owners_eq_zero {A : List (Option Arr)} {b : Nat} (h : ∀ (k : Nat) (o : Option Arr), A[k]? = some o → ownsB b o = false) :
    owners A b = 0 := by
  unfold owners
  apply List.countP_eq_zero.mpr
  intro o ho
  obtain ⟨k, hk⟩ := List.mem_iff_getElem?.mp ho
  simp [h k o hk]

/-- two different slots owning the same block are two owners -/
theorem owners_two {A : List (Option Arr)} {i j : Nat} {oi oj : Option Arr} {b : Nat} (hij : i ≠ j)
    (hi : A[i]? = some oi) (hj : A[j]? = some oj) (hoi : ownsB b oi = true) (hoj : ownsB b oj = true) :
    2 ≤ owners A b := by
  have h1 := owners_set (new := none) b hi
  have hj' : (A.set i none)[j]? = some oj := by rw [List.getElem?_set_ne hij]; exact hj
  have h2 := owners_pos hj' hoj
  have hnone : ownsB b (none : Option Arr) = false := rfl
  rw [hoi, hnone] at h1
  simp at h1
  omega

namespace Inv

variable {c : Cfg} {B : List Block} {A : List (Option Arr)}

/-- the block a slot points to is in the heap -/
theorem block_of (h : Inv c B A) {i : Nat} {a : Arr} (hi : A[i]? = some (some a)) (hn : 0 < a.n) :
    ∃ (b : Nat) (blk : Block), a.base = some b ∧ B[b]? = some blk ∧ blk.freed = false ∧ blk.size = a.n ∧ CellsOK c blk :=
  h.valid i a hi hn

/-- another slot does not point to the block slot `i` owns -/
theorem other_block_ne (h : Inv c B A) {i k b : Nat} {a x : Arr} {blk : Block} (hik : k ≠ i)
    (hi : A[i]? = some (some a)) (hn : 0 < a.n) (hb : a.base = some b)
    (hB : B[b]? = some blk) (hf : blk.freed = false)
    (hk : A[k]? = some (some x)) (hxn : 0 < x.n) : x.base ≠ some b := by
  intro hxb
  have h2 := owners_two (b := b) hik hk hi (ownsB_some.mpr ⟨hxn, hxb⟩) (ownsB_some.mpr ⟨hn, hb⟩)
  have h1 := h.owned b blk hB hf
  omega

/-- no slot owns an id beyond the heap -/
theorem owners_fresh (h : Inv c B A) : owners A B.length = 0 := by
  apply owners_eq_zero
  intro k o hk
  cases o with
  | none => rfl
  | some x =>
    by_cases hxn : 0 < x.n
    · obtain ⟨b, blk, hb, hB, -, -, -⟩ := h.valid k x hk hxn
      have hlt : b < B.length := (List.getElem?_eq_some_iff.mp hB).1
      simp only [ownsB, hb, Bool.and_eq_false_imp, decide_eq_true_eq]
      intro _
      simp only [beq_eq_false_iff_ne, ne_eq, Option.some.injEq]
      omega
    · simp [ownsB, hxn]

/-- the empty heap with a pool of dead slots -/
theorem init (c : Cfg) (p : Nat) : Inv c [] (List.replicate p none) where
  valid := by
    intro i a hi
    rw [List.getElem?_replicate] at hi
    split at hi <;> simp at hi
  owned := by intro b blk hb; simp at hb
  freed := by intro b blk hb; simp at hb

/-- a slot that owns nothing is replaced by something that owns nothing -/
theorem set_nonowning (h : Inv c B A) {i : Nat} {old new : Option Arr} (hi : A[i]? = some old)
    (hold : ∀ b, ownsB b old = false) (hnew : ∀ a, new = some a → a.n = 0) : Inv c B (A.set i new) where
  valid := by
    intro k a hk hn
    rw [List.getElem?_set] at hk
    split at hk
    · split at hk
      · have := hnew a (by simpa using hk); omega
      · simp at hk
    · exact h.valid k a hk hn
  owned := by
    intro b blk hB hf
    have h1 := owners_set (new := new) b hi
    have h2 := h.owned b blk hB hf
    have h3 : ownsB b new = false := by
      cases new with
      | none => rfl
      | some a => simp [ownsB, hnew a rfl]
    simp [hold b, h3] at h1
    omega
  freed := h.freed

/-- a slot that owns nothing receives a fresh block appended to the heap -/
theorem install (h : Inv c B A) {i : Nat} {old : Option Arr} {a : Arr} {blk : Block} (hi : A[i]? = some old)
    (hold : ∀ b, ownsB b old = false) (hn : 0 < a.n) (hbase : a.base = some B.length)
    (hfr : blk.freed = false) (hsz : blk.size = a.n) (hcells : CellsOK c blk) :
    Inv c (B ++ [blk]) (A.set i (some a)) where
  valid := by
    intro k x hk hxn
    rw [List.getElem?_set] at hk
    split at hk
    · split at hk
      · have hx : x = a := by simpa using hk.symm
        subst hx
        exact ⟨B.length, blk, hbase, List.getElem?_concat_length, hfr, hsz, hcells⟩
      · simp at hk
    · obtain ⟨b, bk, hb, hB, r⟩ := h.valid k x hk hxn
      have hlt : b < B.length := (List.getElem?_eq_some_iff.mp hB).1
      exact ⟨b, bk, hb, by rw [List.getElem?_append_left hlt]; exact hB, r⟩
  owned := by
    intro b bk hB hf
    have h1 := owners_set (new := some a) b hi
    rw [hold b] at h1
    by_cases hb : b < B.length
    · rw [List.getElem?_append_left hb] at hB
      have h2 := h.owned b bk hB hf
      have h3 : ownsB b (some a) = false := by
        simp only [ownsB, hbase, Bool.and_eq_false_imp, decide_eq_true_eq]
        intro _
        simp only [beq_eq_false_iff_ne, ne_eq, Option.some.injEq]
        omega
      simp [h3] at h1
      omega
    · have hlen : (B ++ [blk]).length = B.length + 1 := by simp
      have hb2 : b < (B ++ [blk]).length := (List.getElem?_eq_some_iff.mp hB).1
      have hbe : b = B.length := by omega
      subst hbe
      have h2 := h.owners_fresh
      have h3 : ownsB B.length (some a) = true := ownsB_some.mpr ⟨hn, hbase⟩
      simp [h3] at h1
      omega
  freed := by
    intro b bk hB hf
    by_cases hb : b < B.length
    · rw [List.getElem?_append_left hb] at hB
      exact h.freed b bk hB hf
    · have hb2 : b < (B ++ [blk]).length := (List.getElem?_eq_some_iff.mp hB).1
      have hbe : b = B.length := by simp at hb2; omega
      subst hbe
      rw [List.getElem?_concat_length] at hB
      have : bk = blk := by simpa using hB.symm
      subst this
      rw [hfr] at hf
      cases hf

/-- the block a slot owns is returned (all its objects destroyed), the slot keeps nothing -/
theorem release (h : Inv c B A) {i b : Nat} {a : Arr} {new : Option Arr} {blk blk' : Block}
    (hi : A[i]? = some (some a)) (hn : 0 < a.n) (hb : a.base = some b) (hB : B[b]? = some blk) (hf : blk.freed = false)
    (hfr' : blk'.freed = true) (hok' : FreedOK c blk') (hnew : ∀ x, new = some x → x.n = 0) :
    Inv c (B.set b blk') (A.set i new) where
  valid := by
    intro k x hk hxn
    rw [List.getElem?_set] at hk
    split at hk
    · split at hk
      · have := hnew x (by simpa using hk); omega
      · simp at hk
    · rename_i hik
      obtain ⟨b2, bk, hb2, hB2, r⟩ := h.valid k x hk hxn
      have hne : x.base ≠ some b := h.other_block_ne (Ne.symm hik) hi hn hb hB hf hk hxn
      have hbb : b ≠ b2 := by intro e; subst e; exact hne hb2
      exact ⟨b2, bk, hb2, by rw [List.getElem?_set_ne hbb]; exact hB2, r⟩
  owned := by
    intro b2 bk hB2 hf2
    rw [List.getElem?_set] at hB2
    split at hB2
    · split at hB2
      · have : bk = blk' := by simpa using hB2.symm
        subst this; rw [hfr'] at hf2; cases hf2
      · simp at hB2
    · rename_i hbb
      have h1 := owners_set (new := new) b2 hi
      have h2 := h.owned b2 bk hB2 hf2
      have h3 : ownsB b2 new = false := by
        cases new with
        | none => rfl
        | some x => simp [ownsB, hnew x rfl]
      have h4 : ownsB b2 (some a) = false := by
        simp only [ownsB, hb, Bool.and_eq_false_imp, decide_eq_true_eq]
        intro _
        simp only [beq_eq_false_iff_ne, ne_eq, Option.some.injEq]
        exact hbb
      simp [h3, h4] at h1
      omega
  freed := by
    intro b2 bk hB2 hf2
    rw [List.getElem?_set] at hB2
    split at hB2
    · split at hB2
      · have : bk = blk' := by simpa using hB2.symm
        subst this; exact hok'
      · simp at hB2
    · exact h.freed b2 bk hB2 hf2

/-- slot `i` changes what it stores but keeps pointing to the same block with the same size (allocator replaced, layout
    reshaped) -/
theorem relabel (h : Inv c B A) {i : Nat} {a a' : Arr} (hi : A[i]? = some (some a))
    (hbase : a'.base = a.base) (hn : a'.n = a.n) : Inv c B (A.set i (some a')) where
  valid := by
    intro k x hk hxn
    rw [List.getElem?_set] at hk
    split at hk
    · split at hk
      · have hx : x = a' := by simpa using hk.symm
        subst hx
        rw [hbase, hn]
        exact h.valid i a hi (by omega)
      · simp at hk
    · exact h.valid k x hk hxn
  owned := by
    intro b blk hB hf
    have h1 := owners_set (new := some a') b hi
    have h2 := h.owned b blk hB hf
    have h3 : ownsB b (some a') = ownsB b (some a) := by simp [ownsB, hbase, hn]
    rw [h3] at h1
    omega
  freed := h.freed

/-- the cells of a block change without changing its status (assignment over live objects; writes to trivial elements) -/
theorem set_cells (h : Inv c B A) {b : Nat} {blk : Block} {cs : List Cell} (hB : B[b]? = some blk)
    (hok : blk.freed = false → CellsOK c { blk with cells := cs })
    (hfo : blk.freed = true → FreedOK c { blk with cells := cs }) :
    Inv c (B.set b { blk with cells := cs }) A where
  valid := by
    intro k x hk hxn
    obtain ⟨b2, bk, hb2, hB2, hf2, hs2, hc2⟩ := h.valid k x hk hxn
    by_cases hbb : b = b2
    · subst hbb
      have : bk = blk := by rw [hB] at hB2; simpa using hB2.symm
      subst this
      have hlt : b < B.length := (List.getElem?_eq_some_iff.mp hB).1
      exact ⟨b, { bk with cells := cs }, hb2, List.getElem?_set_self hlt, hf2, hs2, hok hf2⟩
    · exact ⟨b2, bk, hb2, by rw [List.getElem?_set_ne hbb]; exact hB2, hf2, hs2, hc2⟩
  owned := by
    intro b2 bk hB2 hf2
    rw [List.getElem?_set] at hB2
    split at hB2
    · split at hB2
      · rename_i hbb _
        subst hbb
        have : bk = { blk with cells := cs } := by simpa using hB2.symm
        subst this
        exact h.owned b blk hB hf2
      · simp at hB2
    · exact h.owned b2 bk hB2 hf2
  freed := by
    intro b2 bk hB2 hf2
    rw [List.getElem?_set] at hB2
    split at hB2
    · split at hB2
      · have : bk = { blk with cells := cs } := by simpa using hB2.symm
        subst this
        exact hfo hf2
      · simp at hB2
    · exact h.freed b2 bk hB2 hf2

/-- slot `j` hands its storage to slot `i`, which owned nothing; `j` is left empty (move construction / move assignment) -/
theorem transfer (h : Inv c B A) {i j : Nat} {old : Option Arr} {y x' y' : Arr} (hij : i ≠ j)
    (hi : A[i]? = some old) (hold : ∀ b, ownsB b old = false) (hj : A[j]? = some (some y))
    (hxb : x'.base = y.base) (hxn : x'.n = y.n) (hyn : y'.n = 0) :
    Inv c B ((A.set i (some x')).set j (some y')) where
  valid := by
    intro k x hk hn
    rw [List.getElem?_set] at hk
    split at hk
    · split at hk
      · have hx : x = y' := by simpa using hk.symm
        subst hx; omega
      · simp at hk
    · rw [List.getElem?_set] at hk
      split at hk
      · split at hk
        · have hx : x = x' := by simpa using hk.symm
          subst hx
          rw [hxb, hxn]
          exact h.valid j y hj (by omega)
        · simp at hk
      · exact h.valid k x hk hn
  owned := by
    intro b blk hB hf
    have hj' : (A.set i (some x'))[j]? = some (some y) := by rw [List.getElem?_set_ne hij]; exact hj
    have h1 := owners_set (new := some x') b hi
    have h2 := owners_set (new := some y') b hj'
    have h3 := h.owned b blk hB hf
    have h4 : ownsB b (some x') = ownsB b (some y) := by simp [ownsB, hxb, hxn]
    have h5 : ownsB b (some y') = false := by simp [ownsB, hyn]
    rw [hold b, h4] at h1
    rw [h5] at h2
    simp only [Bool.false_eq_true, if_false, Nat.add_zero] at h1 h2
    omega
  freed := h.freed

/-- two slots exchange their storage (swap) -/
theorem exchange (h : Inv c B A) {i j : Nat} {x y x' y' : Arr} (hij : i ≠ j)
    (hi : A[i]? = some (some x)) (hj : A[j]? = some (some y))
    (hxb : x'.base = y.base) (hxn : x'.n = y.n) (hyb : y'.base = x.base) (hyn : y'.n = x.n) :
    Inv c B ((A.set i (some x')).set j (some y')) where
  valid := by
    intro k z hk hn
    rw [List.getElem?_set] at hk
    split at hk
    · split at hk
      · have hz : z = y' := by simpa using hk.symm
        subst hz
        rw [hyb, hyn]
        exact h.valid i x hi (by omega)
      · simp at hk
    · rw [List.getElem?_set] at hk
      split at hk
      · split at hk
        · have hz : z = x' := by simpa using hk.symm
          subst hz
          rw [hxb, hxn]
          exact h.valid j y hj (by omega)
        · simp at hk
      · exact h.valid k z hk hn
  owned := by
    intro b blk hB hf
    have hj' : (A.set i (some x'))[j]? = some (some y) := by rw [List.getElem?_set_ne hij]; exact hj
    have h1 := owners_set (new := some x') b hi
    have h2 := owners_set (new := some y') b hj'
    have h3 := h.owned b blk hB hf
    have h4 : ownsB b (some x') = ownsB b (some y) := by simp [ownsB, hxb, hxn]
    have h5 : ownsB b (some y') = ownsB b (some x) := by simp [ownsB, hyb, hyn]
    rw [h4] at h1
    rw [h5] at h2
    omega
  freed := h.freed

end Inv

namespace InvA

variable {c : Cfg} {B : List Block} {A : List (Option Arr)}

theorem init (c : Cfg) (p : Nat) : InvA c [] (List.replicate p none) where
  ownerEq := by intro i a b blk _ _ _ hB; simp at hB
  freedEq := by intro b blk hB; simp at hB

theorem set_nonowning (h : InvA c B A) {i : Nat} {new : Option Arr} (hnew : ∀ a, new = some a → a.n = 0) :
    InvA c B (A.set i new) where
  ownerEq := by
    intro k a b blk hk hn hb hB hf
    rw [List.getElem?_set] at hk
    split at hk
    · split at hk
      · have := hnew a (by simpa using hk); omega
      · simp at hk
    · exact h.ownerEq k a b blk hk hn hb hB hf
  freedEq := h.freedEq

theorem install (h : InvA c B A) (hI : Inv c B A) {i : Nat} {a : Arr} {blk : Block}
    (hbase : a.base = some B.length) (hfr : blk.freed = false) (heq : c.eqv blk.alloc a.alloc = true) :
    InvA c (B ++ [blk]) (A.set i (some a)) where
  ownerEq := by
    intro k x b bk hk hn hb hB hf
    rw [List.getElem?_set] at hk
    split at hk
    · split at hk
      · have hx : x = a := by simpa using hk.symm
        subst hx
        rw [hbase] at hb
        have hbe : b = B.length := by simpa using hb.symm
        subst hbe
        rw [List.getElem?_concat_length] at hB
        have : bk = blk := by simpa using hB.symm
        subst this
        exact heq
      · simp at hk
    · obtain ⟨b2, bk2, hb2, hB2, -, -, -⟩ := hI.valid k x hk hn
      have hbb : b = b2 := by rw [hb] at hb2; simpa using hb2
      subst hbb
      have hlt : b < B.length := (List.getElem?_eq_some_iff.mp hB2).1
      rw [List.getElem?_append_left hlt] at hB
      exact h.ownerEq k x b bk hk hn hb hB hf
  freedEq := by
    intro b bk hB hf
    by_cases hb : b < B.length
    · rw [List.getElem?_append_left hb] at hB
      exact h.freedEq b bk hB hf
    · have hb2 : b < (B ++ [blk]).length := (List.getElem?_eq_some_iff.mp hB).1
      have hbe : b = B.length := by simp at hb2; omega
      subst hbe
      rw [List.getElem?_concat_length] at hB
      have : bk = blk := by simpa using hB.symm
      subst this
      rw [hfr] at hf
      cases hf

/-- a returned (or otherwise unowned) block is appended: nothing points to it -/
theorem append_block (h : InvA c B A) (hI : Inv c B A) {blk : Block}
    (heq : blk.freed = true → c.eqv blk.freedBy blk.alloc = true) : InvA c (B ++ [blk]) A where
  ownerEq := by
    intro k x b bk hk hn hb hB hf
    obtain ⟨b2, bk2, hb2, hB2, -, -, -⟩ := hI.valid k x hk hn
    have hbb : b = b2 := by rw [hb] at hb2; simpa using hb2
    subst hbb
    have hlt : b < B.length := (List.getElem?_eq_some_iff.mp hB2).1
    rw [List.getElem?_append_left hlt] at hB
    exact h.ownerEq k x b bk hk hn hb hB hf
  freedEq := by
    intro b bk hB hf
    by_cases hb : b < B.length
    · rw [List.getElem?_append_left hb] at hB
      exact h.freedEq b bk hB hf
    · have hb2 : b < (B ++ [blk]).length := (List.getElem?_eq_some_iff.mp hB).1
      have hbe : b = B.length := by simp at hb2; omega
      subst hbe
      rw [List.getElem?_concat_length] at hB
      have : bk = blk := by simpa using hB.symm
      subst this
      exact heq hf

theorem release (h : InvA c B A) (hI : Inv c B A) {i b : Nat} {a : Arr} {new : Option Arr} {blk blk' : Block}
    (hi : A[i]? = some (some a)) (hn : 0 < a.n) (hb : a.base = some b) (hB : B[b]? = some blk) (hf : blk.freed = false)
    (hfr' : blk'.freed = true) (heq : c.eqv blk'.freedBy blk'.alloc = true) (hnew : ∀ x, new = some x → x.n = 0) :
    InvA c (B.set b blk') (A.set i new) where
  ownerEq := by
    intro k x b2 bk hk hxn hb2 hB2 hf2
    rw [List.getElem?_set] at hk
    split at hk
    · split at hk
      · have := hnew x (by simpa using hk); omega
      · simp at hk
    · rename_i hik
      have hne : x.base ≠ some b := hI.other_block_ne (Ne.symm hik) hi hn hb hB hf hk hxn
      have hbb : b ≠ b2 := by intro e; subst e; exact hne hb2
      rw [List.getElem?_set_ne hbb] at hB2
      exact h.ownerEq k x b2 bk hk hxn hb2 hB2 hf2
  freedEq := by
    intro b2 bk hB2 hf2
    rw [List.getElem?_set] at hB2
    split at hB2
    · split at hB2
      · have : bk = blk' := by simpa using hB2.symm
        subst this; exact heq
      · simp at hB2
    · exact h.freedEq b2 bk hB2 hf2

theorem relabel (h : InvA c B A) {i : Nat} {a a' : Arr} (hi : A[i]? = some (some a))
    (hbase : a'.base = a.base) (hn : a'.n = a.n)
    (heq : ∀ (b : Nat) (blk : Block), 0 < a.n → a.base = some b → B[b]? = some blk → blk.freed = false → c.eqv blk.alloc a'.alloc = true) :
    InvA c B (A.set i (some a')) where
  ownerEq := by
    intro k x b blk hk hxn hb hB hf
    rw [List.getElem?_set] at hk
    split at hk
    · split at hk
      · have hx : x = a' := by simpa using hk.symm
        subst hx
        exact heq b blk (by omega) (by rw [← hbase]; exact hb) hB hf
      · simp at hk
    · exact h.ownerEq k x b blk hk hxn hb hB hf
  freedEq := h.freedEq

theorem set_cells (h : InvA c B A) {b : Nat} {blk : Block} {cs : List Cell} (hB : B[b]? = some blk) :
    InvA c (B.set b { blk with cells := cs }) A where
  ownerEq := by
    intro k x b2 bk hk hxn hb2 hB2 hf2
    rw [List.getElem?_set] at hB2
    split at hB2
    · split at hB2
      · rename_i hbb _
        subst hbb
        have : bk = { blk with cells := cs } := by simpa using hB2.symm
        subst this
        exact h.ownerEq k x b blk hk hxn hb2 hB hf2
      · simp at hB2
    · exact h.ownerEq k x b2 bk hk hxn hb2 hB2 hf2
  freedEq := by
    intro b2 bk hB2 hf2
    rw [List.getElem?_set] at hB2
    split at hB2
    · split at hB2
      · rename_i hbb _
        subst hbb
        have : bk = { blk with cells := cs } := by simpa using hB2.symm
        subst this
        exact h.freedEq b blk hB hf2
      · simp at hB2
    · exact h.freedEq b2 bk hB2 hf2

theorem transfer (h : InvA c B A) {i j : Nat} {y x' y' : Arr} (hij : i ≠ j) (hj : A[j]? = some (some y))
    (hxb : x'.base = y.base) (hxn : x'.n = y.n) (hyn : y'.n = 0)
    (heq : ∀ (b : Nat) (blk : Block), 0 < y.n → y.base = some b → B[b]? = some blk → blk.freed = false → c.eqv blk.alloc x'.alloc = true) :
    InvA c B ((A.set i (some x')).set j (some y')) where
  ownerEq := by
    intro k x b blk hk hn hb hB hf
    rw [List.getElem?_set] at hk
    split at hk
    · split at hk
      · have hx : x = y' := by simpa using hk.symm
        subst hx; omega
      · simp at hk
    · rw [List.getElem?_set] at hk
      split at hk
      · split at hk
        · have hx : x = x' := by simpa using hk.symm
          subst hx
          exact heq b blk (by omega) (by rw [← hxb]; exact hb) hB hf
        · simp at hk
      · exact h.ownerEq k x b blk hk hn hb hB hf
  freedEq := h.freedEq

theorem exchange (h : InvA c B A) {i j : Nat} {x y x' y' : Arr} (hij : i ≠ j)
    (hi : A[i]? = some (some x)) (hj : A[j]? = some (some y))
    (hxb : x'.base = y.base) (hxn : x'.n = y.n) (hyb : y'.base = x.base) (hyn : y'.n = x.n)
    (heqx : ∀ (b : Nat) (blk : Block), 0 < y.n → y.base = some b → B[b]? = some blk → blk.freed = false → c.eqv blk.alloc x'.alloc = true)
    (heqy : ∀ (b : Nat) (blk : Block), 0 < x.n → x.base = some b → B[b]? = some blk → blk.freed = false → c.eqv blk.alloc y'.alloc = true) :
    InvA c B ((A.set i (some x')).set j (some y')) where
  ownerEq := by
    intro k z b blk hk hn hb hB hf
    rw [List.getElem?_set] at hk
    split at hk
    · split at hk
      · have hz : z = y' := by simpa using hk.symm
        subst hz
        exact heqy b blk (by omega) (by rw [← hyb]; exact hb) hB hf
      · simp at hk
    · rw [List.getElem?_set] at hk
      split at hk
      · split at hk
        · have hz : z = x' := by simpa using hk.symm
          subst hz
          exact heqx b blk (by omega) (by rw [← hxb]; exact hb) hB hf
        · simp at hk
      · exact h.ownerEq k z b blk hk hn hb hB hf
  freedEq := h.freedEq

end InvA

namespace Inv

variable {c : Cfg} {B : List Block} {A : List (Option Arr)}

/-- a returned block is appended to the heap: nothing points to it (a constructor that cleaned up after itself) -/
theorem append_freed (h : Inv c B A) {blk : Block} (hfr : blk.freed = true) (hok : FreedOK c blk) :
    Inv c (B ++ [blk]) A where
  valid := by
    intro k x hk hxn
    obtain ⟨b, bk, hb, hB, r⟩ := h.valid k x hk hxn
    have hlt : b < B.length := (List.getElem?_eq_some_iff.mp hB).1
    exact ⟨b, bk, hb, by rw [List.getElem?_append_left hlt]; exact hB, r⟩
  owned := by
    intro b bk hB hf
    by_cases hb : b < B.length
    · rw [List.getElem?_append_left hb] at hB
      exact h.owned b bk hB hf
    · have hb2 : b < (B ++ [blk]).length := (List.getElem?_eq_some_iff.mp hB).1
      have hbe : b = B.length := by simp at hb2; omega
      subst hbe
      rw [List.getElem?_concat_length] at hB
      have : bk = blk := by simpa using hB.symm
      subst this
      rw [hfr] at hf; cases hf
  freed := by
    intro b bk hB hf
    by_cases hb : b < B.length
    · rw [List.getElem?_append_left hb] at hB
      exact h.freed b bk hB hf
    · have hb2 : b < (B ++ [blk]).length := (List.getElem?_eq_some_iff.mp hB).1
      have hbe : b = B.length := by simp at hb2; omega
      subst hbe
      rw [List.getElem?_concat_length] at hB
      have : bk = blk := by simpa using hB.symm
      subst this
      exact hok

end Inv

end Ledger
end Multi
