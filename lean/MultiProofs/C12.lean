/-
  C12 — Projection views transform, cast or reinterpret exactly element by element.

  Property theorems only (helpers in CastLemmas).  Setting: a typed view `t : TView` (element size `esz`, byte
  origin, positions) whose layout is well formed — ANY index bases: since the fix "member_cast / reinterpret_array_cast on
  views with non-zero index bases scale the offset" `layout_t::scale` multiplies the offset too and asserts
  `(stride_*num) % den == 0` (hypothesis `ScaleDiv`, implied by `sizeof(T2) ∣ sizeof(T)`) and `(offset_*num) % den == 0`
  (a consequence on well-formed views, `scaleDivOff_of_wf`).  Address statements are for index tuples of the view's box.

    * `member_cast_addr`        member_cast designates exactly the named member of each element
    * `reinterpret_addr`        reinterpret_array_cast<U>() reinterprets each element in place
    * `reinterpret_n_addr`      reinterpret_array_cast<U>(n) adds a trailing dimension over each element's bytes
    * `same_cast_identity`      static_array_cast / const_array_cast / as_const keep extents and element identity
    * `transformed_elem`        element_transformed(f)[idx] = f(source[idx]) against the memory at access time
    * `transformed_writes_through`  a reference-returning functor writes through, and nowhere else
    * `casts_commute_with_ops`  every cast commutes with every operation of the view algebra (C01)
    * `reinterpret_n_composes`  the rank-raising cast composes with the view algebra on both sides
    * `ctor_from_projection`    array(view) has the view's extents and the converted elements
-/
import MultiProofs.CastLemmas

namespace Multi
namespace C12

/-- the same-rank casts of the library -/
inductive Cast where
  | same                         -- static_array_cast, const_array_cast, as_const
  | member (sT2 off : Int)       -- member_cast<T2>(&T::m), off = offsetof(T, m)
  | reinterpret (sU : Int)       -- reinterpret_array_cast<U>()
deriving Repr

def Cast.apply : Cast → TView → TView
  | .same, t => t.sameCast
  | .member s o, t => t.memberCast s o
  | .reinterpret s, t => t.reinterpret s

/-- byte displacement of the projected element inside the source element -/
def Cast.shift : Cast → Int
  | .member _ o => o
  | _ => 0

/-- what the code demands of the operand: its `static_assert`s and the stride assertion of `layout_t::scale` (the offset
    assertion follows on well-formed views, `scaleDivOff_of_wf`) -/
def Cast.Admissible : Cast → TView → Prop
  | .same, _ => True
  | .member s _, t => 0 < s ∧ s ∣ t.esz
  | .reinterpret s, t => 0 < s ∧ ScaleDiv t.v.lay t.esz s

theorem byteAddr_eq (t : TView) (idx : List Int) : t.byteAddr idx = t.ptr + t.esz * t.v.lay.off idx := by
  simp only [TView.byteAddr, TView.ptr, addr_eq, Int.mul_add, Int.add_assoc]

/-- common core: a view over the scaled layout at the same pointer designates the same bytes (any index base) -/
theorem scaled_view (t : TView) (s p : Int) (hesz : 0 < t.esz) (hs : 0 < s) (hwf : t.v.lay.WF)
    (hd : ScaleDiv t.v.lay t.esz s) :
    let r : TView := ⟨s, p, ⟨0, t.v.lay.scale t.esz s⟩⟩
    r.v.lay.WF ∧ r.exts = t.exts ∧ ∀ idx, InBox t.exts idx → r.byteAddr idx = p + t.esz * t.v.lay.off idx := by
  intro r
  obtain ⟨w1, w2⟩ := scale_wf t.v.lay t.esz s hwf hd hesz hs
  refine ⟨w1, w2, ?_⟩
  intro idx hidx
  have := scale_off t.v.lay t.esz s idx hwf hd hesz hs hidx
  simp only [r, TView.byteAddr, addr_eq, Int.zero_add]
  rw [this]

/-- **member_cast.** For `sizeof(T2) ∣ sizeof(T)` and ANY well-formed view (arbitrary index bases, strides, sub-blocks):
    the result is a well-formed view with the source's extents, the code's assertions hold, and its element at every
    index tuple is the object at byte displacement `off` (the member) inside the source element at the same index tuple. -/
theorem member_cast_addr (t : TView) (sT2 off : Int) (hesz : 0 < t.esz) (hs : 0 < sT2) (hdvd : sT2 ∣ t.esz)
    (hwf : t.v.lay.WF) :
    (t.memberCast sT2 off).v.lay.WF ∧ (t.memberCast sT2 off).exts = t.exts ∧ (t.memberCast sT2 off).esz = sT2 ∧
    t.memberCastAsserts sT2 = true ∧
    ∀ idx, InBox t.exts idx → (t.memberCast sT2 off).byteAddr idx = t.byteAddr idx + off := by
  have hd : ScaleDiv t.v.lay t.esz sT2 := scaleDiv_of_dvd _ hdvd
  have hdo : ScaleDivOff t.v.lay t.esz sT2 := scaleDivOff_of_dvd _ hdvd
  obtain ⟨a1, a2, a4⟩ := scaled_view t sT2 (t.ptr + off) hesz hs hwf hd
  refine ⟨a1, a2, rfl, ?_, ?_⟩
  · simp only [TView.memberCastAsserts, Layout.scaleAsserts, Bool.and_eq_true, decide_eq_true_eq, List.all_eq_true,
      beq_iff_eq]
    refine ⟨Int.emod_eq_zero_of_dvd hdvd |> fun h => by rw [Int.tmod_eq_emod_of_nonneg (by omega)]; exact h, ?_⟩
    intro d hdm
    exact ⟨Int.tmod_eq_zero_of_dvd (hd d hdm), Int.tmod_eq_zero_of_dvd (hdo d hdm)⟩
  · intro idx hidx
    have := a4 idx hidx
    simp only [TView.memberCast] at this ⊢
    rw [this, byteAddr_eq]; omega

/-- **reinterpret_array_cast<U>().** Under the stride assertion of `scale`, for any well-formed view: same extents, and
    the element at every index tuple starts at the same byte as the source element (it is the source element's storage read
    as `U`); the offset assertion holds as soon as no level is empty; the D = 1 `const&` overload is the same view. -/
theorem reinterpret_addr (t : TView) (sU : Int) (hesz : 0 < t.esz) (hs : 0 < sU)
    (hwf : t.v.lay.WF) (hd : ScaleDiv t.v.lay t.esz sU) :
    (t.reinterpret sU).v.lay.WF ∧ (t.reinterpret sU).exts = t.exts ∧ (t.reinterpret sU).esz = sU ∧
    ((∀ d ∈ t.v.lay, d.nelems ≠ 0) → t.reinterpretAsserts sU = true) ∧
    (∀ idx, InBox t.exts idx → (t.reinterpret sU).byteAddr idx = t.byteAddr idx) ∧
    t.reinterpret1 sU = t.reinterpret sU := by
  obtain ⟨a1, a2, a4⟩ := scaled_view t sU t.ptr hesz hs hwf hd
  refine ⟨a1, a2, rfl, ?_, ?_, ?_⟩
  · intro hne
    have hdo := scaleDivOff_of_wf t.v.lay t.esz sU hwf hne hd
    simp only [TView.reinterpretAsserts, Layout.scaleAsserts, List.all_eq_true, Bool.and_eq_true, beq_iff_eq]
    intro d hdm
    exact ⟨Int.tmod_eq_zero_of_dvd (hd d hdm), Int.tmod_eq_zero_of_dvd (hdo d hdm)⟩
  · intro idx hidx
    have := a4 idx hidx
    simp only [TView.reinterpret] at this ⊢
    rw [this, byteAddr_eq]
  · unfold TView.reinterpret1
    split
    · rename_i d hl
      simp [TView.reinterpret, hl, Layout.scale]
    · rfl

/-- **reinterpret_array_cast<U>(n).** The result has the source's extents followed by `[0, n)`; the element at
    `idx ++ [j]` is the `j`-th `U` inside the source element at `idx`; with the code's assertion
    `sizeof(T) == sizeof(U)*n` those `n` objects tile exactly the source element's bytes.  The D = 1 overload
    (which rotates the view instead of the layout) yields the same view. -/
theorem reinterpret_n_addr (t : TView) (sU n : Int) (hesz : 0 < t.esz) (hs : 0 < sU) (hn : 0 ≤ n)
    (hwf : t.v.lay.WF) (hd : ScaleDiv t.v.lay t.esz sU) :
    (t.reinterpretN sU n).v.lay.WF ∧ (t.reinterpretN sU n).exts = t.exts ++ [⟨0, n⟩] ∧
    (∀ idx j, InBox t.exts idx →
      (t.reinterpretN sU n).byteAddr (idx ++ [j]) = t.byteAddr idx + j * sU) ∧
    (t.esz = sU * n → ∀ j, 0 ≤ j → j < n → 0 ≤ j * sU ∧ j * sU + sU ≤ t.esz) ∧
    t.reinterpretN1 sU n = t.reinterpretN sU n := by
  obtain ⟨a1, a2, _⟩ := scaled_view t sU t.ptr hesz hs hwf hd
  have hrot : Layout.rotate (⟨1, 0, n⟩ :: t.v.lay.scale t.esz sU) = t.v.lay.scale t.esz sU ++ [⟨1, 0, n⟩] := rotate_cons _ _
  have hdim : (⟨1, 0, n⟩ : Dim).WF ∧ (⟨1, 0, n⟩ : Dim).ext = ⟨0, n⟩ := by
    by_cases h0 : n = 0
    · subst h0; exact ⟨Or.inl rfl, by simp [Dim.ext]⟩
    · have hp : 0 < n := by omega
      have e : (⟨1, 0, n⟩ : Dim) = ⟨1, 0 * 1, n * 1⟩ := by simp
      rw [e]
      exact ⟨Dim.wf_mk (by omega) hp, by rw [Dim.ext_mk (by omega) hp]; simp⟩
  refine ⟨?_, ?_, ?_, ?_, ?_⟩
  · simp only [TView.reinterpretN, hrot]
    intro x hx
    rcases List.mem_append.mp hx with h | h
    · exact a1 x h
    · simp at h; subst h; exact hdim.1
  · simp only [TView.reinterpretN, TView.exts, View.exts, hrot, Layout.exts, List.map_append, List.map_cons, List.map_nil, hdim.2]
    have : (t.v.lay.scale t.esz sU).exts = t.v.lay.exts := a2
    simp only [Layout.exts] at this
    rw [this]
  · intro idx j hidx
    have hlen : idx.length = t.v.lay.length := by
      have := inBox_length hidx; simpa [TView.exts, View.exts, Layout.exts] using this
    simp only [TView.reinterpretN, TView.byteAddr, addr_eq, hrot, Int.zero_add]
    rw [off_append _ _ _ _ (by rw [scale_length]; exact hlen)]
    have := scale_off t.v.lay t.esz sU idx hwf hd hesz hs hidx
    rw [Int.mul_add, this]
    simp only [TView.ptr]
    grind
  · intro he j hj0 hjn
    constructor
    · exact Int.mul_nonneg hj0 (by omega)
    · have : (j + 1) * sU ≤ n * sU := Int.mul_le_mul_of_nonneg_right (by omega) (by omega)
      rw [he, Int.mul_comm sU n]
      have e : (j + 1) * sU = j * sU + sU := by rw [Int.add_mul]; simp
      omega
  · simp [TView.reinterpretN1, TView.reinterpretN, View.rotated]

/-- **static_array_cast / const_array_cast / as_const** keep layout and pointer: same extents, every element is the
    very same object. -/
theorem same_cast_identity (t : TView) :
    t.sameCast.exts = t.exts ∧ ∀ idx, t.sameCast.byteAddr idx = t.byteAddr idx := ⟨rfl, fun _ => rfl⟩

/-- uniform description of the same-rank casts -/
theorem cast_denotes (c : Cast) (t : TView) (hesz : 0 < t.esz) (hwf : t.v.lay.WF) (hc : c.Admissible t) :
    (c.apply t).v.lay.WF ∧ (c.apply t).exts = t.exts ∧
    ∀ idx, InBox t.exts idx → (c.apply t).byteAddr idx = t.byteAddr idx + c.shift := by
  cases c with
  | same => exact ⟨hwf, rfl, fun _ _ => by simp [Cast.apply, Cast.shift, TView.sameCast]⟩
  | member s o =>
    obtain ⟨h1, h2⟩ := hc
    obtain ⟨a1, a2, _, _, a5⟩ := member_cast_addr t s o hesz h1 h2 hwf
    exact ⟨a1, a2, a5⟩
  | reinterpret s =>
    obtain ⟨h1, h2⟩ := hc
    obtain ⟨a1, a2, _, _, a5, _⟩ := reinterpret_addr t s hesz h1 hwf h2
    exact ⟨a1, a2, fun idx hidx => by simp [Cast.apply, Cast.shift, a5 idx hidx]⟩

/-! ### element_transformed -/

/-- **element_transformed.** The transformed view has the source's extents, and for EVERY memory state `mem` — in
    particular the one at the time of access, whatever happened to the source since the view was created — its
    element at `idx` is `f` applied to the source element at `idx`. -/
theorem transformed_elem {α β : Type} (t : TView) (f : α → β) :
    (t.elementTransformed f).exts = t.exts ∧
    ∀ (mem : Int → α) (idx : List Int), (t.elementTransformed f).read mem idx = f (t.read mem idx) := by
  refine ⟨rfl, ?_⟩
  intro mem idx
  simp only [XView.read, TransformPtr.deref, XView.ptrAt, TransformPtr.add, XView.basePtr, TView.elementTransformed,
    TView.read, byteAddr_eq, disp_eq_off]

/-- **writes through.** With a reference-returning functor (`g` = byte address of the designated sub-object as a
    function of the byte address of the source element), assigning `val` to the transformed view's element at `idx`
    stores `val` in that sub-object of the source element at `idx` and changes no other location. -/
theorem transformed_writes_through {α : Type} (t : TView) (f : α → α) (g : Int → Int) (mem : Int → α) (idx : List Int) (val : α) :
    let x := t.elementTransformed f
    let mem' := memWrite mem (x.refAddr g idx) val
    x.refAddr g idx = g (t.byteAddr idx) ∧ mem' (g (t.byteAddr idx)) = val ∧ ∀ a, a ≠ g (t.byteAddr idx) → mem' a = mem a := by
  intro x mem'
  have e : x.refAddr g idx = g (t.byteAddr idx) := by
    simp only [x, XView.refAddr, XView.ptrAt, TransformPtr.add, XView.basePtr, TView.elementTransformed, byteAddr_eq, disp_eq_off]
  refine ⟨e, ?_, ?_⟩
  · simp [mem', memWrite, e]
  · intro a ha; simp [mem', memWrite, e, ha]

/-! ### composition with the view algebra -/

theorem isFlattable_scale (v : View) (num den : Int) (hwf : v.lay.WF) (hd : ScaleDiv v.lay num den)
    (hnum : 0 < num) (hden : 0 < den) (h : v.isFlattable = true) :
    (⟨0, v.lay.scale num den⟩ : View).isFlattable = true := by
  cases hv : v.lay with
  | nil => simp [View.isFlattable, hv] at h
  | cons d l =>
    cases l with
    | nil => simp [View.isFlattable, hv] at h
    | cons d1 l =>
      rw [hv] at hwf hd
      simp only [View.isFlattable, hv, Bool.or_eq_true, decide_eq_true_eq, beq_iff_eq] at h
      simp only [View.isFlattable, scale_cons, Bool.or_eq_true, decide_eq_true_eq, beq_iff_eq]
      obtain ⟨_, _, s1, _⟩ := scale_dim hwf.head (hd d (by simp)) hnum hden
      rcases h with h | h
      · left; rw [s1]; exact h
      · right; rw [h]

/-- **casts commute with the view algebra.** For every same-rank cast `c` and every in-domain operation `op` of C01:
    casting the operated view and operating on the cast view give views of the same extents (the ones `op`'s
    documentation prescribes) whose elements at every index tuple are the same bytes — namely the projection of the
    source element that `op`'s documented index mapping designates.  Any index bases.  `Admissible` at both places is
    the code's own assertions there. -/
theorem casts_commute_with_ops (c : Cast) (op : Op) (t : TView) (hesz : 0 < t.esz) (hwf : t.v.lay.WF)
    (hd : op.InDomain t.v) (hc : c.Admissible t) (hc' : c.Admissible (t.map op.apply)) :
    let a := c.apply (t.map op.apply)     -- cast ∘ op
    let b := (c.apply t).map op.apply     -- op ∘ cast
    op.InDomain (c.apply t).v ∧
    a.exts = op.specShape t.exts ∧ b.exts = op.specShape t.exts ∧ a.esz = b.esz ∧
    ∀ idx, InBox (op.specShape t.exts) idx →
      a.byteAddr idx = b.byteAddr idx ∧ a.byteAddr idx = t.byteAddr (op.specMap t.exts idx) + c.shift := by
  intro a b
  -- the operation on the source
  obtain ⟨r1, r2, r3⟩ := C01.op_refines op t.v hwf hd
  -- cast of the operated view
  obtain ⟨_, ca2, ca3⟩ := cast_denotes c (t.map op.apply) hesz r1 hc'
  -- cast of the source, then the operation
  obtain ⟨cb1, cb2, cb3⟩ := cast_denotes c t hesz hwf hc
  have hdom : op.InDomain (c.apply t).v := by
    apply inDomain_congr op t.v _ cb2 _ hd
    intro hf
    cases c with
    | same => exact hf
    | member s o => exact isFlattable_scale t.v t.esz s hwf (scaleDiv_of_dvd _ hc.2) hesz hc.1 hf
    | reinterpret s => exact isFlattable_scale t.v t.esz s hwf hc.2 hesz hc.1 hf
  obtain ⟨_, s2, s3⟩ := C01.op_refines op (c.apply t).v cb1 hdom
  have cb2' : (c.apply t).v.exts = t.v.exts := cb2
  rw [cb2'] at s2 s3
  have hesz' : a.esz = b.esz := by cases c <;> rfl
  refine ⟨hdom, ?_, s2, hesz', ?_⟩
  · show (c.apply (t.map op.apply)).exts = _
    rw [ca2]; exact r2
  · intro idx hidx
    obtain ⟨q1, q2⟩ := r3 idx hidx
    obtain ⟨p1, _⟩ := s3 idx hidx
    have ea : a.byteAddr idx = t.byteAddr (op.specMap t.exts idx) + c.shift := by
      show (c.apply (t.map op.apply)).byteAddr idx = _
      rw [ca3 idx (by show InBox (op.apply t.v).exts idx; rw [r2]; exact hidx)]
      simp only [TView.byteAddr, TView.map]
      rw [q1]; rfl
    have eb : b.byteAddr idx = t.byteAddr (op.specMap t.exts idx) + c.shift := by
      show (c.apply t).org + (c.apply t).esz * (op.apply (c.apply t).v).addr idx = _
      rw [p1]
      exact cb3 _ q2
    exact ⟨by rw [ea, eb], ea⟩

/-- the code's assertions still hold after any operation of the view algebra when the target size divides the source
    size (always the case for `member_cast`, whose `static_assert` demands it) -/
theorem admissible_after_op (c : Cast) (op : Op) (t : TView) (hc : c.Admissible t)
    (hdvd : ∀ s, c = .reinterpret s → s ∣ t.esz) : c.Admissible (t.map op.apply) := by
  cases c with
  | same => trivial
  | member s o => exact ⟨hc.1, hc.2⟩
  | reinterpret s => exact ⟨hc.1, scaleDiv_of_dvd _ (hdvd s rfl)⟩

/-- `casts_commute_with_ops` with the admissibility of the operated view discharged -/
theorem casts_commute_with_ops_dvd (c : Cast) (op : Op) (t : TView) (hesz : 0 < t.esz) (hwf : t.v.lay.WF)
    (hd : op.InDomain t.v) (hc : c.Admissible t) (hdvd : ∀ s, c = .reinterpret s → s ∣ t.esz) :
    (c.apply (t.map op.apply)).exts = ((c.apply t).map op.apply).exts ∧
    ∀ idx, InBox (op.specShape t.exts) idx →
      (c.apply (t.map op.apply)).byteAddr idx = ((c.apply t).map op.apply).byteAddr idx := by
  obtain ⟨_, h2, h3, _, h5⟩ := casts_commute_with_ops c op t hesz hwf hd hc (admissible_after_op c op t hc hdvd)
  exact ⟨by rw [h2, h3], fun idx hidx => (h5 idx hidx).1⟩

/-- `element_transformed` commutes with every operation structurally (same layout, same wrapped pointer), and the
    value read through either is `f` of the source element that the operation's index mapping designates. -/
theorem transformed_commutes_with_ops {α β : Type} (op : Op) (t : TView) (f : α → β) (hwf : t.v.lay.WF) (hd : op.InDomain t.v) :
    (t.map op.apply).elementTransformed f = (t.elementTransformed f).map op.apply ∧
    ((t.elementTransformed f).map op.apply).exts = op.specShape t.exts ∧
    ∀ (mem : Int → α) idx, InBox (op.specShape t.exts) idx →
      ((t.elementTransformed f).map op.apply).read mem idx = f (t.read mem (op.specMap t.exts idx)) := by
  obtain ⟨_, r2, r3⟩ := C01.op_refines op t.v hwf hd
  refine ⟨rfl, r2, ?_⟩
  intro mem idx hidx
  have := (transformed_elem (t.map op.apply) f).2 mem idx
  show ((t.map op.apply).elementTransformed f).read mem idx = _
  rw [this]
  simp only [TView.read, TView.byteAddr, TView.map]
  rw [(r3 idx hidx).1]
  rfl

/-- **reinterpret_array_cast<U>(n) composes with the view algebra** on both sides: applied to an operated view it
    designates the `j`-th `U` of the source element selected by the operation's index mapping; and its result is a
    well-formed view, so every in-domain operation on it (now also over the new trailing dimension) again realises
    its documented mapping. -/
theorem reinterpret_n_composes (op : Op) (t : TView) (sU n : Int) (hesz : 0 < t.esz) (hs : 0 < sU) (hn : 0 ≤ n)
    (hwf : t.v.lay.WF) (hd : op.InDomain t.v)
    (hd' : ScaleDiv (op.apply t.v).lay t.esz sU) :
    ((t.map op.apply).reinterpretN sU n).exts = op.specShape t.exts ++ [⟨0, n⟩] ∧
    (∀ idx j, InBox (op.specShape t.exts) idx →
      ((t.map op.apply).reinterpretN sU n).byteAddr (idx ++ [j]) = t.byteAddr (op.specMap t.exts idx) + j * sU) ∧
    (∀ (op2 : Op), op2.InDomain ((t.map op.apply).reinterpretN sU n).v →
      Refines ((t.map op.apply).reinterpretN sU n).v (op2.apply ((t.map op.apply).reinterpretN sU n).v)
        (op2.specShape (op.specShape t.exts ++ [⟨0, n⟩])) (op2.specMap (op.specShape t.exts ++ [⟨0, n⟩]))) := by
  obtain ⟨r1, r2, r3⟩ := C01.op_refines op t.v hwf hd
  obtain ⟨a1, a2, a3, _, _⟩ := reinterpret_n_addr (t.map op.apply) sU n hesz hs hn r1 hd'
  have a2' : ((t.map op.apply).reinterpretN sU n).exts = op.specShape t.exts ++ [⟨0, n⟩] := by
    rw [a2]; show (op.apply t.v).exts ++ _ = _; rw [r2]; rfl
  refine ⟨a2', ?_, ?_⟩
  · intro idx j hidx
    have hbox : InBox (t.map op.apply).exts idx := by
      show InBox (op.apply t.v).exts idx; rw [r2]; exact hidx
    rw [a3 idx j hbox]
    simp only [TView.byteAddr, TView.map]
    rw [(r3 idx hidx).1]
    rfl
  · intro op2 hd2
    have := C01.op_refines op2 _ a1 hd2
    have e : ((t.map op.apply).reinterpretN sU n).v.exts = op.specShape t.exts ++ [⟨0, n⟩] := a2'
    rw [e] at this
    exact this

/-! ### constructing an array from a projection -/

/-- **array(view).** Constructing an array from a projection (any view-like object with extents `es` whose element
    at `idx` reads as `read idx`, the element type being converted by `conv`) yields an array with the projection's
    extents — reported as empty in every dimension when the projection has no elements, as for any array (C01
    `root_denotes`) — whose element at every index tuple is the conversion of the projection's element there. -/
theorem ctor_from_projection {β γ : Type} (es : List Ext) (hes : ∀ e ∈ es, e.first ≤ e.last)
    (read : List Int → β) (conv : β → γ) :
    let A := constructFrom es read conv
    A.lay.WF ∧ A.lay.exts = collapse es ∧ (A.data.length : Int) = nElems es ∧
    ∀ idx, InBox (collapse es) idx →
      0 ≤ A.lay.off idx ∧ A.data[(A.lay.off idx).toNat]? = some (conv (read idx)) := by
  intro A
  obtain ⟨w1, w2, w3, w4⟩ := C01.root_denotes es hes
  have hlen := boxIndices_length es hes
  have hn0 : 0 ≤ nElems es := C01.nElems_nonneg es hes
  refine ⟨w1, w2, ?_, ?_⟩
  · simp only [A, constructFrom, List.length_map, List.length_take, w3]
    omega
  · intro idx hidx
    obtain ⟨o1, o2, o3⟩ := w4 idx hidx
    -- a non-empty box is not collapsed
    have hne : nElems es ≠ 0 := by omega
    have hcol : collapse es = es := by
      clear hidx o1 o2 o3 w1 w2 w3 w4 hlen A
      induction es with
      | nil => rfl
      | cons e es ih =>
        simp only [nElems] at hne hn0
        have h2 : nElems es ≠ 0 := by intro h; rw [h] at hne; simp at hne
        have h3 : 0 ≤ nElems es := C01.nElems_nonneg es (fun x hx => hes x (List.mem_cons_of_mem _ hx))
        simp only [collapse, hne, if_false]
        rw [ih (fun x hx => hes x (List.mem_cons_of_mem _ hx)) h3 h2]
    rw [hcol] at hidx
    obtain ⟨g1, _, _⟩ := boxIndices_get es hes idx hidx
    refine ⟨by show 0 ≤ (Layout.ofExts es).off idx; omega, ?_⟩
    show (List.map (fun idx => conv (read idx)) (List.take (Layout.ofExts es).numElements.toNat (boxIndices es)))[((Layout.ofExts es).off idx).toNat]? = _
    rw [o1, List.getElem?_map, List.getElem?_take, w3]
    have : (rowMajor es idx).toNat < (nElems es).toNat := by omega
    rw [if_pos this, g1]; rfl

/-! ### non-vacuity: the hypotheses are satisfiable on a concrete re-based, strided, transposed sub-block -/

/-- a `[2,6)×[-3,3)` array of 32-byte structs, `transposed().strided(3).sliced(-1,1)`: well formed, not zero-based -/
example : ∃ t : TView, 0 < t.esz ∧ t.v.lay.WF ∧ (8 : Int) ∣ t.esz ∧ t.exts = [⟨-1, 1⟩, ⟨2, 6⟩] ∧
    (t.memberCast 8 16).byteAddr [0, 3] = t.byteAddr [0, 3] + 16 ∧ (Cast.member 8 16).Admissible t := by
  refine ⟨TView.ofView 32 ((((⟨0, Layout.ofExts [⟨2, 6⟩, ⟨-3, 3⟩]⟩ : View).transposed).strided 3).sliced (-1) 1), ?_⟩
  refine ⟨by decide, ?_, ⟨4, rfl⟩, by decide +kernel, by decide +kernel, ⟨by decide, ⟨4, rfl⟩⟩⟩
  have h0 := (C01.root_denotes [⟨2, 6⟩, ⟨-3, 3⟩] (by decide)).1
  have h1 := (C01.op_refines Op.transposed ⟨0, _⟩ h0 (by decide +kernel)).1
  have h2 := (C01.op_refines (Op.strided 3) _ h1 (by decide +kernel)).1
  exact (C01.op_refines (Op.sliced (-1) 1) _ h2 (by decide +kernel)).1

end C12
end Multi
