/-
  MultiProofs.LexLemmas — helper lemmas for C07: `lexCompare` as the lexicographic order of the nested sequences,
  the comparison loops (`equalN`, `equalFlat`) over the addresses they visit, row-major positions of `array_ref`s,
  equality of nested values.
-/
import MultiProofs.Lex
import MultiProofs.StoreLemmas
import MultiProofs.C01

namespace Multi

/-- for a strict total order exactly one of `r x y`, `x = y`, `r y x` holds -/
theorem StrictTotal.trichotomy {β : Type} {r : β → β → Bool} (h : StrictTotal r) (x y : β) :
    (r x y = true ∧ x ≠ y ∧ r y x = false) ∨ (r x y = false ∧ x = y ∧ r y x = false) ∨
    (r x y = false ∧ x ≠ y ∧ r y x = true) := by
  cases hxy : r x y with
  | true =>
    refine Or.inl ⟨rfl, ?_, h.asymm hxy⟩
    intro e; subst e; rw [h.irrefl] at hxy; exact absurd hxy (by simp)
  | false =>
    cases hyx : r y x with
    | true =>
      refine Or.inr (Or.inr ⟨rfl, ?_, rfl⟩)
      intro e; subst e; rw [h.irrefl] at hyx; exact absurd hyx (by simp)
    | false => exact Or.inr (Or.inl ⟨rfl, h.total x y hxy hyx, rfl⟩)

/-! ### extensions -/

theorem Ext.eqv_iff_of_norm {e1 e2 : Ext} (h1 : e1.norm = e1) (h2 : e2.norm = e2) : e1.eqv e2 = true ↔ e1 = e2 := by
  cases e1 with
  | mk f1 l1 =>
  cases e2 with
  | mk f2 l2 =>
  simp only [Ext.norm] at h1 h2
  simp only [Ext.eqv, Ext.isEmpty, Bool.or_eq_true, Bool.and_eq_true, beq_iff_eq, Ext.mk.injEq]
  constructor
  · rintro (⟨a, b⟩ | ⟨a, b⟩)
    · subst a; subst b
      simp at h1 h2
      omega
    · exact ⟨a, b⟩
  · rintro ⟨a, b⟩; exact Or.inr ⟨a, b⟩

theorem Layout.exts_eqv_iff : ∀ (la lb : Layout), la.WF → lb.WF → (Exts.eqv la.exts lb.exts = true ↔ la.exts = lb.exts) := by
  intro la
  induction la with
  | nil =>
    intro lb _ _
    cases lb <;> simp [Layout.exts, Exts.eqv]
  | cons d1 s1 ih =>
    intro lb wa wb
    cases lb with
    | nil => simp [Layout.exts, Exts.eqv]
    | cons d2 s2 =>
      have := ih s2 wa.tail wb.tail
      simp only [Layout.exts] at this
      simp only [Layout.exts, List.map_cons, Exts.eqv, Bool.and_eq_true, List.cons.injEq,
        Ext.eqv_iff_of_norm wa.head.ext_norm wb.head.ext_norm, this]


/-! ### `lexCompare` -/

theorem lexRows_eq_listLex {β : Type} (R : β → β → Bool) (X Y : Int → β) (c12 c21 : Int → Int → Bool)
    (h12 : ∀ p q, c12 p q = R (X p) (Y q)) (h21 : ∀ q p, c21 q p = R (Y q) (X p)) (s1 s2 : Int) :
    ∀ (n1 n2 : Nat) (p1 p2 : Int), lexRows c12 c21 n1 n2 p1 s1 p2 s2 =
      listLex R ((List.range n1).map (fun (k : Nat) => X (p1 + Int.ofNat k * s1)))
                ((List.range n2).map (fun (k : Nat) => Y (p2 + Int.ofNat k * s2))) := by
  intro n1
  induction n1 with
  | zero =>
    intro n2 p1 p2
    cases n2 with
    | zero => simp [lexRows, listLex]
    | succ n2 => simp [lexRows, listLex, List.range_succ_eq_map]
  | succ n1 ih =>
    intro n2 p1 p2
    cases n2 with
    | zero => simp [lexRows, listLex, List.range_succ_eq_map]
    | succ n2 =>
      rw [lexRows, ih n2 (p1 + s1) (p2 + s2), h12, h21]
      rw [List.range_succ_eq_map (n := n1), List.range_succ_eq_map (n := n2)]
      simp only [List.map_cons, List.map_map, listLex]
      have e1 : ∀ k : Nat, p1 + ((k : Int) + 1) * s1 = p1 + s1 + (k : Int) * s1 := by
        intro k; rw [Int.add_mul]; omega
      have e2 : ∀ k : Nat, p2 + ((k : Int) + 1) * s2 = p2 + s2 + (k : Int) * s2 := by
        intro k; rw [Int.add_mul]; omega
      simp [Function.comp_def, e1, e2]

/-- rows of a zero-based well-formed level: row `k` starts at `b + k·stride` -/
theorem toNested_cons_zb (m : Mem α) (n : Nat) (d : Dim) (sub : Layout) (b : Int) (hd : d.WF) (hz : d.ext.first = 0) :
    toNested m (n + 1) (d :: sub) b =
      (List.range d.size.toNat).map (fun (k : Nat) => toNested m n sub (b + Int.ofNat k * d.stride)) := by
  simp only [toNested]
  rw [← hd.size_eq]
  apply List.map_congr_left
  intro k hk
  rcases hd.cases with h0 | ⟨f, sz, hsz, hs, hoff, hne, he, hsize⟩
  · simp [Dim.size_of_nelems_zero h0] at hk
  · rw [he] at hz; simp at hz; subst hz
    rw [he, hoff]; simp

theorem lexCompare_eq_lexN (ltE : α → α → Bool) (m : Mem α) :
    ∀ (n : Nat) (la lb : Layout) (ba bb : Int), la.WF → lb.WF → la.length = n → lb.length = n →
      la.ZeroBased → lb.ZeroBased →
      lexCompare ltE m la ba lb bb = lexN ltE n (toNested m n la ba) (toNested m n lb bb) := by
  intro n
  induction n with
  | zero =>
    intro la lb ba bb _ _ hla hlb _ _
    have : la = [] := List.eq_nil_of_length_eq_zero hla
    subst this
    have : lb = [] := List.eq_nil_of_length_eq_zero hlb
    subst this
    simp [lexCompare, lexN, toNested]
  | succ n ih =>
    intro la lb ba bb wa wb hla hlb za zb
    cases la with
    | nil => simp at hla
    | cons d1 s1 =>
      cases lb with
      | nil => simp at hlb
      | cons d2 s2 =>
        have z1 : d1.ext.first = 0 := za d1 (by simp)
        have z2 : d2.ext.first = 0 := zb d2 (by simp)
        have zs1 : Layout.ZeroBased s1 := fun d hd => za d (List.mem_cons_of_mem _ hd)
        have zs2 : Layout.ZeroBased s2 := fun d hd => zb d (List.mem_cons_of_mem _ hd)
        have l1 : s1.length = n := by simp at hla; omega
        have l2 : s2.length = n := by simp at hlb; omega
        rw [lexCompare, z1, z2]
        simp only [Int.lt_irrefl, gt_iff_lt, if_false]
        rw [toNested_cons_zb m n d1 s1 ba wa.head z1, toNested_cons_zb m n d2 s2 bb wb.head z2]
        simp only [lexN]
        exact lexRows_eq_listLex (lexN ltE n) (toNested m n s1) (toNested m n s2) _ _
          (fun p q => ih s1 s2 p q wa.tail wb.tail l1 l2 zs1 zs2)
          (fun q p => ih s2 s1 q p wb.tail wa.tail l2 l1 zs2 zs1) d1.stride d2.stride _ _ ba bb


/-! ### the comparison loops -/

theorem addrs_succ_some' {n : Nat} {x : ElemIt} {a : Int} {l : List Int} (h : ElemIt.addrs (n + 1) x = some (a :: l)) :
    ∃ x', x.inc = some x' ∧ ElemIt.addrs n x' = some l ∧ x.current = a := by
  simp only [ElemIt.addrs] at h
  cases hx : x.inc with
  | none => simp [hx] at h
  | some x' =>
    cases hr : ElemIt.addrs n x' with
    | none => simp [hx, hr] at h
    | some rest =>
      simp [hx, hr] at h
      exact ⟨x', rfl, by rw [hr, h.2], h.1⟩

theorem equalN_map_iff' [DecidableEq α] {ι : Type} (m : Mem α) (f g : ι → Int) :
    ∀ (L : List ι) (x y : ElemIt), ElemIt.addrs L.length x = some (L.map f) → ElemIt.addrs L.length y = some (L.map g) →
      ∃ r, ElemIt.equalN m L.length x y = some r ∧ (r = true ↔ ∀ i ∈ L, m (f i) = m (g i)) := by
  intro L
  induction L with
  | nil => intro x y _ _; exact ⟨true, by simp [ElemIt.equalN], by simp⟩
  | cons i L ih =>
    intro x y hx hy
    simp only [List.length_cons, List.map_cons] at hx hy
    obtain ⟨x', hx1, hx2, hx3⟩ := addrs_succ_some' hx
    obtain ⟨y', hy1, hy2, hy3⟩ := addrs_succ_some' hy
    obtain ⟨r, hr1, hr2⟩ := ih x' y' hx2 hy2
    simp only [List.length_cons, ElemIt.equalN, hx3, hy3, hx1, hy1, List.mem_cons, forall_eq_or_imp]
    by_cases h : m (f i) = m (g i)
    · exact ⟨r, by simp [h, hr1], by simp [h, hr2]⟩
    · exact ⟨false, by simp [h], by simp [h]⟩

theorem equalFlat_iff' [DecidableEq α] (m : Mem α) :
    ∀ (n : Nat) (p q : Int), equalFlat m n p q = true ↔ ∀ k : Int, 0 ≤ k → k < n → m (p + k) = m (q + k) := by
  intro n
  induction n with
  | zero => intro p q; simp [equalFlat]; intro k h1 h2; omega
  | succ n ih =>
    intro p q
    simp only [equalFlat]
    by_cases h : m p = m q
    · simp only [h, if_true, ih]
      constructor
      · intro H k h1 h2
        by_cases hk : k = 0
        · subst hk; simpa using h
        · have := H (k - 1) (by omega) (by omega)
          have e1 : p + 1 + (k - 1) = p + k := by omega
          have e2 : q + 1 + (k - 1) = q + k := by omega
          rwa [e1, e2] at this
      · intro H k h1 h2
        have := H (k + 1) (by omega) (by omega)
        have e1 : p + (k + 1) = p + 1 + k := by omega
        have e2 : q + (k + 1) = q + 1 + k := by omega
        rwa [e1, e2] at this
    · simp only [h, if_false]
      constructor
      · intro H; exact absurd H (by simp)
      · intro H; exact absurd (by simpa using H 0 (by omega) (by omega)) h

/-! ### row-major positions -/

theorem nElems_collapse (es : List Ext) : nElems (collapse es) = nElems es := by
  induction es with
  | nil => rfl
  | cons e es ih =>
    simp only [collapse, nElems, ih]
    split
    · rename_i h; rw [h]; show (0 - 0) * _ = 0; simp
    · rfl

/-- every position of `[0, Π sizes)` is the row-major position of an index tuple of the box -/
theorem rowMajor_surj (es : List Ext) (hes : ∀ e ∈ es, e.first ≤ e.last) :
    ∀ k : Int, 0 ≤ k → k < nElems es → ∃ idx, InBox (collapse es) idx ∧ rowMajor es idx = k := by
  induction es with
  | nil =>
    intro k h0 h1
    simp [nElems] at h1
    exact ⟨[], by simp [collapse, InBox], by simp [rowMajor]; omega⟩
  | cons e es ih =>
    intro k h0 h1
    have hes' : ∀ x ∈ es, x.first ≤ x.last := fun x hx => hes x (List.mem_cons_of_mem _ hx)
    have hN0 := C01.nElems_nonneg es hes'
    simp only [nElems] at h1
    have hNpos : 0 < nElems es := by
      rcases Int.lt_trichotomy 0 (nElems es) with h | h | h
      · exact h
      · rw [← h] at h1; simp at h1; omega
      · omega
    obtain ⟨r, hr1, hr2⟩ := ih hes' (k % nElems es) (Int.emod_nonneg _ (by omega)) (Int.emod_lt_of_pos _ hNpos)
    have hq0 : 0 ≤ k / nElems es := Int.ediv_nonneg h0 (by omega)
    have hq1 : k / nElems es < e.size := Int.ediv_lt_of_lt_mul hNpos h1
    have hprod : e.size * nElems es ≠ 0 := by
      intro h; rw [h] at h1; omega
    refine ⟨(e.first + k / nElems es) :: r, ?_, ?_⟩
    · simp only [collapse, hprod, if_false, InBox]
      refine ⟨⟨by omega, ?_⟩, hr1⟩
      simp [Ext.size] at hq1; omega
    · simp only [rowMajor, hr2]
      have : e.first + k / nElems es - e.first = k / nElems es := by omega
      rw [this, Int.mul_comm]
      exact Int.mul_ediv_add_emod k (nElems es)

theorem rowMajor_congr : ∀ (ea eb : List Ext) (idx : List Int), collapse ea = collapse eb → InBox (collapse ea) idx →
    rowMajor ea idx = rowMajor eb idx := by
  intro ea
  induction ea with
  | nil =>
    intro eb idx h _
    cases eb with
    | nil => rfl
    | cons _ _ => simp [collapse] at h
  | cons e es ih =>
    intro eb idx h hin
    cases eb with
    | nil => simp [collapse] at h
    | cons e' es' =>
      simp only [collapse, List.cons.injEq] at h
      obtain ⟨i, r, rfl, h1, h2, h3⟩ := inBox_cons hin
      have hn : nElems es = nElems es' := by rw [← nElems_collapse es, h.2, nElems_collapse]
      have hp : ¬ e.size * nElems es = 0 := by
        intro hp; simp [hp] at h1 h2; omega
      have hp' : ¬ e'.size * nElems es' = 0 := by
        intro hp'
        have := h.1
        simp only [hp, hp', if_true, if_false] at this
        rw [this] at hp; simp [Ext.size] at hp
      have he : e = e' := by have := h.1; simpa [hp, hp'] using this
      simp only [rowMajor, hn, he]
      rw [ih es' r h.2 h3]


/-! ### equality of nested values -/

/-- a non-empty zero-based well-formed level -/
theorem Dim.WF.zb_cases {d : Dim} (hd : d.WF) (hz : d.ext.first = 0) (hs : d.size ≠ 0) :
    0 < d.size ∧ d.offset = 0 ∧ d.ext = ⟨0, d.size⟩ := by
  rcases hd.cases with h0 | ⟨f, sz, hsz, hst, hoff, hne, he, hsize⟩
  · exact absurd (Dim.size_of_nelems_zero h0) hs
  · rw [he] at hz; simp at hz; subst hz
    refine ⟨by omega, by simp [hoff], ?_⟩
    rw [he, hsize]; simp

/-- two non-empty zero-based views denote the same nested sequence iff they have the same extensions and equal
    elements at every index tuple -/
theorem toNested_eq_iff (m : Mem α) :
    ∀ (n : Nat) (la lb : Layout) (ba bb : Int), la.WF → lb.WF → la.length = n → lb.length = n →
      la.ZeroBased → lb.ZeroBased → la.numElements ≠ 0 → lb.numElements ≠ 0 →
      (toNested m n la ba = toNested m n lb bb ↔
        la.exts = lb.exts ∧ ∀ idx, InBox la.exts idx → m (ba + la.off idx) = m (bb + lb.off idx)) := by
  intro n
  induction n with
  | zero =>
    intro la lb ba bb _ _ hla hlb _ _ _ _
    have : la = [] := List.eq_nil_of_length_eq_zero hla
    subst this
    have : lb = [] := List.eq_nil_of_length_eq_zero hlb
    subst this
    simp only [toNested, Layout.exts, List.map_nil, true_and]
    constructor
    · intro h idx hidx
      cases idx with
      | nil =>
        have h' : m ba = m bb := h
        simpa [Layout.off] using h'
      | cons _ _ => simp [InBox] at hidx
    · intro h
      have h' : m ba = m bb := by simpa [Layout.off] using h [] (by simp [InBox])
      exact h'
  | succ n ih =>
    intro la lb ba bb wa wb hla hlb za zb nea neb
    cases la with
    | nil => simp at hla
    | cons d1 s1 =>
      cases lb with
      | nil => simp at hlb
      | cons d2 s2 =>
        have z1 : d1.ext.first = 0 := za d1 (by simp)
        have z2 : d2.ext.first = 0 := zb d2 (by simp)
        have zs1 : Layout.ZeroBased s1 := fun d hd => za d (List.mem_cons_of_mem _ hd)
        have zs2 : Layout.ZeroBased s2 := fun d hd => zb d (List.mem_cons_of_mem _ hd)
        have l1 : s1.length = n := by simp at hla; omega
        have l2 : s2.length = n := by simp at hlb; omega
        simp only [Layout.numElements] at nea neb
        have ne1 : d1.size ≠ 0 := fun h => nea (by simp [h])
        have ne2 : d2.size ≠ 0 := fun h => neb (by simp [h])
        have nes1 : Layout.numElements s1 ≠ 0 := fun h => nea (by simp [h])
        have nes2 : Layout.numElements s2 ≠ 0 := fun h => neb (by simp [h])
        obtain ⟨p1, o1, e1⟩ := wa.head.zb_cases z1 ne1
        obtain ⟨p2, o2, e2⟩ := wb.head.zb_cases z2 ne2
        have IH := fun p q => ih s1 s2 p q wa.tail wb.tail l1 l2 zs1 zs2 nes1 nes2
        rw [toNested_cons_zb m n d1 s1 ba wa.head z1, toNested_cons_zb m n d2 s2 bb wb.head z2]
        simp only [Layout.exts, List.map_cons, List.cons.injEq]
        constructor
        · intro h
          have hlen := congrArg List.length h
          simp only [List.length_map, List.length_range] at hlen
          have hsz : d1.size = d2.size := by omega
          rw [← hsz] at h
          replace h : @Eq (List (NestedN α n)) _ _ := h
          rw [List.map_inj_left] at h
          have h0 := (IH _ _).1 (h 0 (by simp; omega))
          refine ⟨⟨by rw [e1, e2, hsz], h0.1⟩, ?_⟩
          intro idx hidx
          obtain ⟨i, r, rfl, hi1, hi2, hr⟩ := inBox_cons hidx
          rw [e1] at hi1 hi2; simp only at hi1 hi2
          have hk := ((IH _ _).1 (h i.toNat (by simp; omega))).2 r hr
          have ei : Int.ofNat i.toNat = i := by simp; omega
          simp only [Layout.off, o1, o2, ei] at hk ⊢
          have a1 : ba + (i * d1.stride - 0 + Layout.off s1 r) = ba + i * d1.stride + Layout.off s1 r := by omega
          have a2 : bb + (i * d2.stride - 0 + Layout.off s2 r) = bb + i * d2.stride + Layout.off s2 r := by omega
          rw [a1, a2]; exact hk
        · rintro ⟨⟨hE, hS⟩, H⟩
          have hsz : d1.size = d2.size := by rw [wa.head.size_eq, wb.head.size_eq, hE]
          rw [← hsz]
          change @Eq (List (NestedN α n)) _ _
          rw [List.map_inj_left]
          intro k hk
          simp only [List.mem_range] at hk
          apply (IH _ _).2
          refine ⟨hS, ?_⟩
          intro r hr
          have := H (Int.ofNat k :: r) (by
            simp only [InBox, e1]; refine ⟨⟨by simp, ?_⟩, hr⟩
            simp; omega)
          simp only [Layout.off, o1, o2] at this
          have a1 : ba + (Int.ofNat k * d1.stride - 0 + Layout.off s1 r) = ba + Int.ofNat k * d1.stride + Layout.off s1 r := by omega
          have a2 : bb + (Int.ofNat k * d2.stride - 0 + Layout.off s2 r) = bb + Int.ofNat k * d2.stride + Layout.off s2 r := by omega
          rw [a1, a2] at this; exact this

end Multi
