/-
  MultiProofs.OwnViewAssign — construction from and assignment from a view of any layout (`array(view)`, `A = view` in both
  overloads), as coded, yield the view's value: its extensions (collapsed) and the elements it designates, in canonical order.
  Helper lemmas for C04.
-/
import MultiProofs.OwnReext

namespace Multi
namespace Own
open C02
variable {α : Type}

/-! ### views with and without elements -/

theorem wf_exts_normal {l : Layout} (h : l.WF) : ∀ e ∈ l.exts, e = ⟨0, 0⟩ ∨ e.size ≠ 0 := by
  intro e he
  simp only [Layout.exts, List.mem_map] at he
  obtain ⟨d, hd, rfl⟩ := he
  have := (h d hd).ext_norm
  unfold Ext.norm at this
  by_cases hz : d.ext.last - d.ext.first = 0
  · left; rw [if_pos hz] at this; exact this.symm
  · right; simp only [Ext.size]; exact hz

theorem nonEmpty_of {v : View} (hwf : v.lay.WF) (hne : v.lay ≠ []) (hn : nElems v.exts ≠ 0) : NonEmpty v := by
  refine ⟨hwf, ?_, ?_⟩
  · intro e; apply hne; simp only [Layout.sizes] at e; exact List.map_eq_nil_iff.mp e
  · intro n hn'
    have hs := (C01.shape_functions_agree v hwf).1
    simp only [View.sizes] at hs
    rw [hs] at hn'
    obtain ⟨e, he, rfl⟩ := List.mem_map.mp hn'
    have hpos := pos_of_nElems_ne_zero v.exts (wf_exts_ok hwf) hn e he
    simp only [Ext.size]; omega

/-- the iterator of a view without elements can be constructed, and no element is visited -/
theorem elemAddrs_zero {v : View} (hwf : v.lay.WF) (hn : nElems v.exts = 0) : elemAddrs v 0 = some [] := by
  have hN : nElems v.exts = prodSizes (Layout.sizes v.lay) := nElems_eq_prodSizes v.lay hwf
  have hx : (ElemRange.ofView v).lay.exts = zexts (Layout.sizes v.lay) := ofView_exts v hwf
  have hz : Exts.numElements (zexts (Layout.sizes v.lay)) = 0 := by rw [numElements_zexts, ← hN, hn]
  unfold elemAddrs ElemRange.begin' ElemRange.mkIt ElemRange.fromLinearG
  simp only [hx, hz, if_true, Option.map_some, Option.bind_some, elemAddrs.go]

theorem boxIndices_nil_of_zero {xs : List Ext} (hok : ExtsOK xs) (hn : nElems xs = 0) : boxIndices xs = [] := by
  apply List.eq_nil_of_length_eq_zero
  rw [boxIndices_length hok, hn]; rfl

/-- **construction from a view**, with or without elements: the view's extensions, the designated elements in canonical order,
    in a fresh block -/
theorem viewCtor_outcome_all (h : Heap α) (sb : Option BlockId) (scs : List (Cell α)) (v : View) (hwf : v.lay.WF) (hne : v.lay ≠ [])
    (hsrc : nElems v.exts ≠ 0 → ∃ s, sb = some s ∧ Live h s scs)
    (hin : ∀ idx ∈ boxIndices v.exts, 0 ≤ v.addr idx ∧ (v.addr idx).toNat < scs.length) :
    Outcome h (viewCtor h sb v).1 (fun _ => False) (viewCtor h sb v).2 ⟨collapse v.exts, viewCells scs v⟩ := by
  by_cases hn : nElems v.exts = 0
  · have hok : ExtsOK v.exts := wf_exts_ok hwf
    have hnum : (Layout.ofExts v.exts).numElements = 0 := by rw [ofExts_numElements hok]; exact hn
    unfold viewCtor
    simp only [hnum, Int.toNat_zero, elemAddrs_zero hwf hn]
    have hvc : viewCells scs v = [] := by unfold viewCells; rw [boxIndices_nil_of_zero (xs := v.exts) hok hn]; rfl
    rw [hvc]
    have := @outcome_fresh α h v.exts hok ((h.alloc 0).1.copyAddrs sb [] (h.alloc 0).2 ((List.range 0).map Int.ofNat)) []
      (by rw [hn]; rfl) (by intro _; simp [alloc_zero, Heap.copyAddrs]) (by intro h0; exact absurd hn h0)
    rw [hn] at this
    exact this
  · obtain ⟨s, rfl, hs⟩ := hsrc hn
    exact viewCtor_outcome h s scs hs v (nonEmpty_of hwf hne hn) hin

/-! ### assignment in place -/

theorem Valid.view_isEmpty {h : Heap α} {a : Arr} (hv : Valid h a) (hD : a.dim ≠ 0) (hn : a.numElements = 0) : a.view.isEmpty = true := by
  have hne : a.view.lay ≠ [] := by
    intro e; apply hD; show a.lay.length = 0; rw [show a.lay = [] from e]; rfl
  have hag := C01.shape_functions_agree a.view hv.view_wf
  apply (hag.2.2.2 hne).mpr
  rw [← hag.2.2.1]
  -- the leading size of an array without elements is 0
  obtain ⟨es, hes, hlay⟩ := hv.shape
  have hnum : nElems es = 0 := by rw [← ofExts_numElements hes, ← hlay]; exact hn
  cases es with
  | nil => simp [nElems] at hnum
  | cons e es =>
    simp only [View.size, Arr.view, hlay, Layout.ofExts, Dim.size]
    simp only [nElems] at hnum
    rw [ofExts_numElements hes.tail, hnum]; simp

/-- **element-wise assignment from a view with the array's own extensions** (`static_::operator=`, `operator()() = view`):
    the array keeps block and extensions and holds the elements the view designates, in canonical order -/
theorem assignInPlace_outcome {h : Heap α} {self : Arr} (hv : Valid h self) (hD : self.dim ≠ 0) (sb : Option BlockId) (scs : List (Cell α))
    (v : View) (hwf : v.lay.WF) (hex : self.exts = v.exts)
    (hsrc : nElems v.exts ≠ 0 → ∃ s, sb = some s ∧ Live h s scs ∧ self.base ≠ some s)
    (hin : ∀ idx ∈ boxIndices v.exts, 0 ≤ v.addr idx ∧ (v.addr idx).toNat < scs.length) :
    Outcome h (assignElems h sb v self.base self.view) (ownBlock self) self ⟨self.exts, viewCells scs v⟩ := by
  have hnv : v.numElements = nElems v.exts := (C01.shape_functions_agree v hwf).2.1
  have hns : self.view.numElements = self.numElements := rfl
  have hne' : self.numElements = nElems v.exts := by rw [← hv.nElems_exts, hex]
  unfold assignElems
  have hc1 : Exts.eqv self.view.exts v.exts = true := by show Exts.eqv self.exts v.exts = true; rw [hex]; exact eqv_refl _
  have hc2 : (self.view.numElements == v.numElements) = true := by rw [hns, hnv, hne']; simp
  simp only [hc1, hc2, Heap.check, if_true]
  by_cases hn : nElems v.exts = 0
  · have hs0 : self.numElements = 0 := by rw [hne', hn]
    unfold copyElems
    rw [hv.view_isEmpty hD hs0]
    simp only [if_true]
    refine ⟨Frame.refl _ _, rfl, rfl, hv, ?_, fun hnz => absurd hs0 hnz, Nat.le_refl _⟩
    apply absArr_eq rfl
    rw [cellsOf_zero hs0]
    unfold viewCells; rw [boxIndices_nil_of_zero (xs := v.exts) (wf_exts_ok hwf) hn]; rfl
  · obtain ⟨s, rfl, hs, hsne⟩ := hsrc hn
    have hsn : self.numElements ≠ 0 := by rw [hne']; exact hn
    obtain ⟨d, hdb, hdl, hdlen⟩ := hv.block hsn
    have hsd : s ≠ d := by intro e; apply hsne; rw [hdb, e]
    have hvlay : v.lay ≠ [] := by
      intro e
      have h1 : v.exts = [] := by simp [View.exts, Layout.exts, e]
      have h2 : self.exts.length = self.dim := arr_exts_length self
      rw [hex, h1] at h2; exact hD h2.symm
    have ne_v := nonEmpty_of hwf hvlay hn
    have hslay : self.view.lay ≠ [] := by
      intro e; apply hD; show self.lay.length = 0; rw [show self.lay = [] from e]; rfl
    have ne_s : NonEmpty self.view := nonEmpty_of hv.view_wf hslay (by show nElems self.exts ≠ 0; rw [hex]; exact hn)
    have hdaddr : ∀ J, InBox self.exts J →
        self.view.addr J = rowMajor self.exts J ∧ 0 ≤ rowMajor self.exts J ∧ rowMajor self.exts J < self.numElements := fun J hJ => hv.addr hJ
    rw [hdb, copyElems_live hs hdl hsd v self.view ne_v ne_s (by show nElems self.exts = nElems v.exts; rw [hex])
      hin (by
        intro idx hidx
        obtain ⟨e1, e2, e3⟩ := hdaddr idx ((mem_boxIndices _ _).mp hidx)
        rw [e1, hdlen]; exact ⟨e2, by omega⟩)]
    have hbx : boxIndices self.view.exts = boxIndices v.exts := by show boxIndices self.exts = _; rw [hex]
    rw [hbx, zip_map_map, List.map_map]
    generalize hcs : setMany (cellsOf h self) (List.map ((fun ba : Int × Int => (ba.1.toNat, scs[ba.2.toNat]?.getD none)) ∘
        fun J => (self.view.addr J, v.addr J)) (boxIndices v.exts)) = cells'
    have hfam := setMany_family (boxIndices v.exts) (fun J => (self.view.addr J).toNat) (fun J => scs[(v.addr J).toNat]?.getD none)
      (cellsOf h self) (boxIndices_nodup _)
      (by
        intro i hi j hj e
        have hi' : InBox self.exts i := by rw [hex]; exact (mem_boxIndices _ _).mp hi
        have hj' : InBox self.exts j := by rw [hex]; exact (mem_boxIndices _ _).mp hj
        obtain ⟨i1, i2, _⟩ := hdaddr i hi'
        obtain ⟨j1, j2, _⟩ := hdaddr j hj'
        rw [i1, j1] at e
        exact rowMajor_inj hi' hj' (by omega))
      (by
        intro i hi
        have hi' : InBox self.exts i := by rw [hex]; exact (mem_boxIndices _ _).mp hi
        obtain ⟨i1, i2, i3⟩ := hdaddr i hi'
        rw [hdlen, i1]; omega)
    have hfam' : ∀ J ∈ boxIndices v.exts, cells'[(self.view.addr J).toNat]? = some (scs[(v.addr J).toNat]?.getD none) := by
      rw [← hcs]; exact hfam.1
    have hclen : cells'.length = self.numElements.toNat := by rw [← hcs, length_setMany, hdlen]
    have hl' := hdl.setBlock_same cells'
    refine ⟨?_, rfl, rfl, ⟨hv.shape, Or.inr ⟨d, cells', hdb, hl', hclen⟩⟩, ?_, fun _ b hb => Or.inl ⟨hsn, hb⟩, by simp [Heap.setBlock]⟩
    · intro b cs hl hm
      apply hl.setBlock_other
      intro e; apply hm; exact ⟨hsn, by rw [hdb, e]⟩
    · apply absArr_eq rfl
      rw [cellsOf_live hdb hl', List.take_of_length_le (by rw [hclen]; exact Nat.le_refl _)]
      have hrank := boxIndices_rank self.exts hv.exts_ok
      rw [hv.nElems_exts] at hrank
      unfold viewCells
      rw [list_eq_range_map cells' none, hclen, ← hrank, List.map_map, hex]
      apply List.map_congr_left
      intro idx hidx
      have hi' : InBox self.exts idx := by rw [hex]; exact (mem_boxIndices _ _).mp hidx
      obtain ⟨d1, _, _⟩ := hdaddr idx hi'
      simp only [Function.comp]
      rw [← hex, ← d1, hfam' idx hidx]; rfl

/-! ### `A = view` -/

theorem viewCtor_lay (h : Heap α) (sb : Option BlockId) (v : View) : (viewCtor h sb v).2.lay = Layout.ofExts v.exts := by
  unfold viewCtor
  simp only
  split <;> rfl

theorem Outcome.mono {h h' : Heap α} {M M' : Nat → Prop} {a' : Arr} {val : AbsArr α} (ho : Outcome h h' M a' val)
    (hM : ∀ b, M b → M' b) : Outcome h h' M' a' val :=
  ⟨ho.frame.mono hM, ho.ub, ho.asrt, ho.valid, ho.abs, fun hn b hb => (ho.own hn b hb).imp (hM b) id, ho.len⟩

theorem collapse_of_nonzero : ∀ (es : List Ext), nElems es ≠ 0 → collapse es = es := by
  intro es
  induction es with
  | nil => intro _; rfl
  | cons e es ih =>
    intro hn
    simp only [nElems] at hn
    have h2 : nElems es ≠ 0 := fun hz => hn (by rw [hz]; simp)
    simp only [collapse, hn, if_false, ih h2]

/-- move-assign a freshly built temporary and destroy the (emptied) temporary: the temporary's value, only the own block released -/
theorem viaTemp_outcome {h h1 : Heap α} {self tmp : Arr} {val : AbsArr α} (hv : Valid h self)
    (ho : Outcome h h1 (fun _ => False) tmp val) (hdim : tmp.dim ≠ 0) :
    Outcome h (dtor (moveAssign h1 self tmp).1 (moveAssign h1 self tmp).2.2) (ownBlock self) (moveAssign h1 self tmp).2.1 val := by
  have hd : dtor (moveAssign h1 self tmp).1 (moveAssign h1 self tmp).2.2 = deallocate h1 self := by
    simp only [moveAssign, clear, dtor]
    unfold deallocate
    have : (⟨tmp.base, emptyLay tmp.dim⟩ : Arr).numElements = 0 := emptyLay_numElements hdim
    simp [this]
  rw [hd]
  exact outcome_then_dealloc hv ho

/-- construct a temporary from the view, move-assign it, destroy the (emptied) temporary -/
theorem viaTemporary_outcome {h : Heap α} {self : Arr} (hv : Valid h self) (sb : Option BlockId) (scs : List (Cell α))
    (v : View) (hwf : v.lay.WF) (hne : v.lay ≠ [])
    (hsrc : nElems v.exts ≠ 0 → ∃ s, sb = some s ∧ Live h s scs)
    (hin : ∀ idx ∈ boxIndices v.exts, 0 ≤ v.addr idx ∧ (v.addr idx).toNat < scs.length) :
    Outcome h (dtor (moveAssign (viewCtor h sb v).1 self (viewCtor h sb v).2).1 (moveAssign (viewCtor h sb v).1 self (viewCtor h sb v).2).2.2)
      (ownBlock self) (moveAssign (viewCtor h sb v).1 self (viewCtor h sb v).2).2.1 ⟨collapse v.exts, viewCells scs v⟩ := by
  have ho := viewCtor_outcome_all h sb scs v hwf hne hsrc hin
  have hdim : (viewCtor h sb v).2.dim ≠ 0 := by
    show (viewCtor h sb v).2.lay.length ≠ 0
    rw [viewCtor_lay, ofExts_length]
    intro e; apply hne
    have : v.exts = [] := List.eq_nil_of_length_eq_zero e
    simp only [View.exts, Layout.exts] at this
    exact List.map_eq_nil_iff.mp this
  exact viaTemp_outcome hv ho hdim

/-- **`A = view`, `array::operator=(const_subarray const&)`** over any prior state of `A` -/
theorem viewAssign_outcome {h : Heap α} {self : Arr} (hv : Valid h self) (hD : self.dim ≠ 0) (sb : Option BlockId) (scs : List (Cell α))
    (v : View) (hwf : v.lay.WF) (hne : v.lay ≠ [])
    (hsrc : nElems v.exts ≠ 0 → ∃ s, sb = some s ∧ Live h s scs ∧ (self.numElements ≠ 0 → self.base ≠ some s))
    (hin : ∀ idx ∈ boxIndices v.exts, 0 ≤ v.addr idx ∧ (v.addr idx).toNat < scs.length) :
    Outcome h (viewAssign h self sb v).1 (ownBlock self) (viewAssign h self sb v).2 ⟨collapse v.exts, viewCells scs v⟩ := by
  unfold viewAssign
  by_cases he : Exts.eqv self.exts v.exts = true
  · simp only [he, if_true]
    have hex : self.exts = v.exts := eqv_normal _ _ hv.exts_normal (wf_exts_normal hwf) he
    have hc : collapse v.exts = self.exts := by rw [← hex]; exact hv.exts_fix
    rw [hc]
    exact assignInPlace_outcome hv hD sb scs v hwf hex (fun hn => by
      obtain ⟨s, e, hl, hb⟩ := hsrc hn
      exact ⟨s, e, hl, hb (by rw [← hv.nElems_exts, hex]; exact hn)⟩) hin
  · simp only [he, Bool.false_eq_true, if_false]
    exact viaTemporary_outcome hv sb scs v hwf hne (fun hn => by obtain ⟨s, e, hl, _⟩ := hsrc hn; exact ⟨s, e, hl⟩) hin

/-- **`A = view`, `array::operator=(Range&&)`** (what a `subarray` argument selects), with its reshape shortcut -/
theorem rangeAssign_outcome {h : Heap α} {self : Arr} (hv : Valid h self) (hD : self.dim ≠ 0) (sb : Option BlockId) (scs : List (Cell α))
    (v : View) (hwf : v.lay.WF) (hne : v.lay ≠ []) (hdim : v.exts.length = self.dim)
    (hsrc : nElems v.exts ≠ 0 → ∃ s, sb = some s ∧ Live h s scs ∧ (self.numElements ≠ 0 → self.base ≠ some s))
    (hin : ∀ idx ∈ boxIndices v.exts, 0 ≤ v.addr idx ∧ (v.addr idx).toNat < scs.length) :
    Outcome h (rangeAssign h self sb v).1 (ownBlock self) (rangeAssign h self sb v).2 ⟨collapse v.exts, viewCells scs v⟩ := by
  unfold rangeAssign
  have hok : ExtsOK v.exts := wf_exts_ok hwf
  by_cases he : Exts.eqv self.exts v.exts = true
  · simp only [he, if_true]
    have hex : self.exts = v.exts := eqv_normal _ _ hv.exts_normal (wf_exts_normal hwf) he
    have hc : collapse v.exts = self.exts := by rw [← hex]; exact hv.exts_fix
    rw [hc]
    exact assignInPlace_outcome hv hD sb scs v hwf hex (fun hn => by
      obtain ⟨s, e, hl, hb⟩ := hsrc hn
      exact ⟨s, e, hl, hb (by rw [← hv.nElems_exts, hex]; exact hn)⟩) hin
  · simp only [he, Bool.false_eq_true, if_false]
    by_cases hcnt : self.numElements = Exts.numElements v.exts
    · simp only [hcnt, if_true]
      have hcnt' : nElems v.exts = self.numElements := by rw [hcnt, numElements_eq_nElems]
      obtain ⟨ho, e1, e2⟩ := reshape_outcome hv hok hcnt'
      have hs' : (reshape h self v.exts).2 = ⟨self.base, Layout.ofExts v.exts⟩ := rfl
      have hn' : (reshape h self v.exts).2.numElements = self.numElements := by
        rw [hs']; show (Layout.ofExts v.exts).numElements = _; rw [ofExts_numElements hok, hcnt']
      have hown : ∀ b, ownBlock (reshape h self v.exts).2 b → ownBlock self b := by
        intro b hb; exact ⟨by rw [← hn']; exact hb.1, by rw [← e2]; exact hb.2⟩
      by_cases hz : (reshape h self v.exts).2.numElements = 0
      · simp only [hz, if_true]
        have hvc : viewCells scs v = cellsOf h self := by
          rw [hn'] at hz
          rw [cellsOf_zero hz]
          unfold viewCells
          rw [boxIndices_nil_of_zero (xs := v.exts) hok (by rw [hcnt']; exact hz)]; rfl
        rw [hvc]; exact ho
      · simp only [hz, if_false]
        rw [e1]
        have hnv : nElems v.exts ≠ 0 := by rw [hcnt', ← hn']; exact hz
        have hex' : (reshape h self v.exts).2.exts = v.exts := by
          rw [hs']; show (Layout.ofExts v.exts).exts = _; rw [ofExts_exts hok, collapse_of_nonzero _ hnv]
        have hD' : (reshape h self v.exts).2.dim ≠ 0 := by
          rw [hs']; show (Layout.ofExts v.exts).length ≠ 0; rw [ofExts_length, hdim]; exact hD
        have hv' : Valid h (reshape h self v.exts).2 := by have := ho.valid; rw [e1] at this; exact this
        have := assignInPlace_outcome hv' hD' sb scs v hwf hex'
          (fun hn => by obtain ⟨s, e, hl, hb⟩ := hsrc hn; exact ⟨s, e, hl, by rw [e2]; exact hb (by rw [← hn']; exact hz)⟩) hin
        have hval : (⟨(reshape h self v.exts).2.exts, viewCells scs v⟩ : AbsArr α) = ⟨collapse v.exts, viewCells scs v⟩ := by
          rw [hex', collapse_of_nonzero _ hnv]
        rw [hval] at this
        exact this.mono hown
    · simp only [hcnt, if_false]
      exact viaTemporary_outcome hv sb scs v hwf hne (fun hn => by obtain ⟨s, e, hl, _⟩ := hsrc hn; exact ⟨s, e, hl⟩) hin

/-- **assignment from an array of another element type** (`operator=(multi::array<TT, D> const&)`), all three branches: same extensions
    (copy in place), same element count (reshape, then copy in place), otherwise (convert into a temporary, move-assign) -/
theorem convAssign_outcome {h : Heap α} {self other : Arr} (hvs : Valid h self) (hvo : Valid h other) (hD : self.dim ≠ 0)
    (hdim : other.dim = self.dim)
    (hsep : self.numElements ≠ 0 → other.numElements ≠ 0 → self.base ≠ other.base) :
    Outcome h (convAssign h self other).1 (ownBlock self) (convAssign h self other).2 (absArr h other) := by
  unfold convAssign
  by_cases he : Exts.eqv self.exts other.exts = true
  · have := copyAssign_outcome hvs hvo hD hsep
    unfold copyAssign at this
    simp only [he, if_true] at this ⊢
    exact this
  · simp only [he, Bool.false_eq_true, if_false]
    by_cases hc : self.numElements = Exts.numElements other.exts
    · simp only [hc, if_true]
      have hc' : nElems other.exts = self.numElements := by rw [hc, numElements_eq_nElems]
      obtain ⟨ho, e1, e2⟩ := reshape_outcome hvs hvo.exts_ok hc'
      have hs' : (reshape h self other.exts).2 = ⟨self.base, Layout.ofExts other.exts⟩ := rfl
      have hv' : Valid h (reshape h self other.exts).2 := by have := ho.valid; rw [e1] at this; exact this
      have hex' : (reshape h self other.exts).2.exts = other.exts := by
        rw [hs']; show (Layout.ofExts other.exts).exts = _; exact hvo.rebuild.1
      have hn' : (reshape h self other.exts).2.numElements = self.numElements := by
        rw [hs']; show (Layout.ofExts other.exts).numElements = _; rw [hvo.rebuild.2, ← hvo.nElems_exts, hc']
      have hD' : (reshape h self other.exts).2.dim ≠ 0 := by
        rw [hs']; show (Layout.ofExts other.exts).length ≠ 0; rw [ofExts_length, arr_exts_length, hdim]; exact hD
      have := copyAssign_outcome hv' hvo hD' (fun hna hnb => by rw [e2]; exact hsep (by rw [← hn']; exact hna) hnb)
      unfold copyAssign at this
      have heq : Exts.eqv (reshape h self other.exts).2.exts other.exts = true := by rw [hex']; exact eqv_refl _
      simp only [heq, if_true] at this
      rw [e1]
      exact this.mono (fun b hb => ⟨by rw [← hn']; exact hb.1, by rw [← e2]; exact hb.2⟩)
    · simp only [hc, if_false]
      have ho := copyCtor_outcome h hvo
      have hdim' : (copyCtor h other).2.dim ≠ 0 := by
        show (Layout.ofExts other.exts).length ≠ 0; rw [ofExts_length, arr_exts_length, hdim]; exact hD
      exact viaTemp_outcome hvs ho hdim'

/-! ### views of an array of the pool: chains of view-forming operations (C01) -/

/-- apply a chain of view-forming operations -/
def applyOps (v : View) (ops : List Op) : View := ops.foldl (fun v op => op.apply v) v

/-- every operation of the chain is in its domain when it is applied -/
def OpsInDom : View → List Op → Prop
  | _, [] => True
  | v, op :: ops => op.InDomain v ∧ OpsInDom (op.apply v) ops

/-- the documented shape and index map of the chain (composition of the operations' documented maps) -/
def denOf (den : Den) (ops : List Op) : Den :=
  ops.foldl (fun den op => ⟨op.specShape den.shape, den.map ∘ op.specMap den.shape⟩) den

theorem reach_ops (root : View) : ∀ (ops : List Op) (v : View) (den : Den), Reach root v den → OpsInDom v ops →
    Reach root (applyOps v ops) (denOf den ops) := by
  intro ops
  induction ops with
  | nil => intro v den h _; exact h
  | cons op ops ih =>
    intro v den h hd
    exact ih (op.apply v) _ (Reach.step op h hd.1) hd.2

/-- **the documented value of a view of an array**: extensions = the composed shape (collapsed, as an array built from it reports
    them), elements = the array's elements at the composed index map, in canonical order -/
def viewVal (x : AbsArr α) (ops : List Op) : AbsArr α :=
  ⟨collapse (denOf ⟨x.exts, id⟩ ops).shape,
   (boxIndices (denOf ⟨x.exts, id⟩ ops).shape).map fun idx => x.elems[(rowMajor x.exts ((denOf ⟨x.exts, id⟩ ops).map idx)).toNat]?.getD none⟩

/-- what C01 gives for a view of a valid array: well formed, the documented shape, every element inside the array's block, and the cells it
    designates are the documented ones -/
theorem view_of_array {h : Heap α} {b : Arr} (hv : Valid h b) (ops : List Op) (hd : OpsInDom b.view ops) :
    (applyOps b.view ops).lay.WF ∧
    (∀ idx ∈ boxIndices (applyOps b.view ops).exts,
      0 ≤ (applyOps b.view ops).addr idx ∧ ((applyOps b.view ops).addr idx).toNat < (cellsOf h b).length) ∧
    (nElems (applyOps b.view ops).exts ≠ 0 → b.numElements ≠ 0) ∧
    (⟨collapse (applyOps b.view ops).exts, viewCells (cellsOf h b) (applyOps b.view ops)⟩ : AbsArr α) = viewVal (absArr h b) ops := by
  have hreach := reach_ops b.view ops b.view ⟨b.view.exts, id⟩ Reach.root hd
  obtain ⟨rwf, rex, raddr⟩ := C01.reachable_denotes b.view _ _ hv.view_wf hreach
  have hden : (⟨b.view.exts, id⟩ : Den) = ⟨(absArr h b).exts, id⟩ := rfl
  have haddr : ∀ idx, InBox (applyOps b.view ops).exts idx →
      (applyOps b.view ops).addr idx = rowMajor b.exts ((denOf ⟨b.view.exts, id⟩ ops).map idx) ∧
      0 ≤ rowMajor b.exts ((denOf ⟨b.view.exts, id⟩ ops).map idx) ∧
      rowMajor b.exts ((denOf ⟨b.view.exts, id⟩ ops).map idx) < b.numElements := by
    intro idx hidx
    rw [rex] at hidx
    obtain ⟨e1, e2⟩ := raddr idx hidx
    obtain ⟨a1, a2, a3⟩ := hv.addr (idx := (denOf ⟨b.view.exts, id⟩ ops).map idx) e2
    exact ⟨by rw [e1, a1], a2, a3⟩
  have hclen := hv.cells_length
  refine ⟨rwf, ?_, ?_, ?_⟩
  · intro idx hidx
    obtain ⟨e1, e2, e3⟩ := haddr idx ((mem_boxIndices _ _).mp hidx)
    rw [e1, hclen]; exact ⟨e2, by omega⟩
  · intro hn
    have hok : ExtsOK (applyOps b.view ops).exts := wf_exts_ok rwf
    have hlen := boxIndices_length (xs := (applyOps b.view ops).exts) hok
    have hne : boxIndices (applyOps b.view ops).exts ≠ [] := by
      intro e; rw [e] at hlen
      have hnn : (0 : Int) ≤ nElems (applyOps b.view ops).exts := nElems_nonneg hok
      simp at hlen; omega
    obtain ⟨J, hJ⟩ := List.exists_mem_of_ne_nil _ hne
    obtain ⟨_, e2, e3⟩ := haddr J ((mem_boxIndices _ _).mp hJ)
    omega
  · unfold viewVal viewCells
    rw [← hden, ← rex]
    congr 1
    apply List.map_congr_left
    intro idx hidx
    obtain ⟨e1, _, _⟩ := haddr idx ((mem_boxIndices _ _).mp hidx)
    rw [e1]; rfl

end Own
end Multi
