/-
  C02 — Iterators, cursors and flat element ranges obey the random-access laws.

  Property theorems only.  `begin()/end()` iterators are `ArrIt`; the `elements()` iterator is `ElemIt`.
  The laws for `ElemIt` are all consequences of one invariant (`GoodIt`: the index tuple is
  `from_linear(n_)`), established by the constructor and preserved by `++ -- += -= =`; since a `GoodIt`
  iterator is determined by its position (`GoodIt.unique`), "(it+n)−n == it" etc. hold as equalities of the
  full iterator state, not just of the compared field.

  Not modelled (validated by the correspondence run only): const vs mutable iterator types compare equal.
-/
import MultiProofs.ElemIter

namespace Multi
namespace C02

/-- random-access laws of `array_iterator` (any stride ≠ 0; `<` is `0 < other − self` by definition) -/
theorem arrit_laws (it : ArrIt) (n m : Int) (hs : it.stride ≠ 0) :
    it.inc.dec = it ∧ it.dec.inc = it ∧ it.inc = it.add 1 ∧ it.dec = it.sub' 1 ∧
    (it.add n).sub' n = it ∧ (it.add n).diff it = n ∧ (it.add n).diff (it.add m) = n - m ∧
    (it.lt (it.add n) = decide (0 < n)) ∧ ((it.add n).lt it = decide (n < 0)) ∧
    it.at' n = (it.add n).deref ∧ ((it.add n).eq (it.add m) = true ↔ n = m) := by
  refine ⟨(arrit_inc_dec it).1, (arrit_inc_dec it).2, (arrit_inc_eq_add it).1, (arrit_inc_eq_add it).2,
    (arrit_add_sub it n).1, arrit_diff_add it n hs, arrit_diff_add2 it n m hs, ?_, ?_, rfl, ?_⟩
  · simp only [ArrIt.lt]; rw [arrit_diff_add it n hs]
  · have h : it.diff (it.add n) = -n := by
      simp only [ArrIt.diff, ArrIt.add]
      have : it.ptr - (it.ptr + it.stride * n) = it.stride * (-n) := by rw [Int.mul_neg]; omega
      rw [this]; exact Int.mul_tdiv_cancel_left _ hs
    simp only [ArrIt.lt]; rw [h]
    exact decide_eq_decide.mpr (by omega)
  · simp only [ArrIt.eq, ArrIt.add, beq_iff_eq]
    constructor
    · intro h
      have : it.stride * n = it.stride * m := by omega
      exact Int.eq_of_mul_eq_mul_left hs this
    · intro h; rw [h]

/-- `begin()/end()` delimit exactly `size()` positions -/
theorem begin_end_delimit (v : View) (hwf : v.lay.WF) :
    v.begin'.add v.size = v.end' ∧ v.end'.diff v.begin' = v.size := by
  cases hv : v.lay with
  | nil => simp [View.begin', View.end', View.size, hv, ArrIt.add, ArrIt.diff]
  | cons d sub =>
    have hd : d.WF := by rw [hv] at hwf; exact hwf.head
    have hsz : v.size = d.size := by simp [View.size, hv]
    simp only [View.begin', View.end', hv, hsz]
    rcases hd.cases with h0 | ⟨f, n, hn, hs, hf, hnn, he, hsz'⟩
    · simp [ArrIt.add, ArrIt.diff, h0, Dim.size_of_nelems_zero h0]
    · constructor
      · apply ArrIt.ext_eq <;> simp [ArrIt.add]
        rw [hsz', hnn, Int.mul_comm]
      · simp only [ArrIt.diff]
        have : v.base + d.nelems - v.base = d.nelems := by omega
        rw [this, hsz', hnn]; exact Int.mul_tdiv_cancel _ (by omega)

/-- `*(begin() + n)` is the same sub-view (or element) as indexing with the n-th valid index -/
theorem arrit_deref (v : View) (hwf : v.lay.WF) (n : Int) (h0 : 0 ≤ n) (h1 : n < v.size) :
    (v.begin'.add n).deref = v.index (v.ext.first + n) := by
  cases hv : v.lay with
  | nil => simp [View.size, hv] at h1; omega
  | cons d sub =>
    have hd : d.WF := by rw [hv] at hwf; exact hwf.head
    simp only [View.size, hv] at h1
    simp only [View.begin', View.index, View.ext, hv, ArrIt.add, ArrIt.deref]
    rcases hd.cases with h0' | ⟨f, k, hk, hs, hf, hnn, he, hsz'⟩
    · rw [Dim.size_of_nelems_zero h0'] at h1; omega
    · rw [he]; simp only
      rw [hf, Int.add_mul, Int.mul_comm]
      congr 1; omega

/-! ### elements() -/

/-- the hypotheses under which an elements range is non-empty -/
structure NonEmpty (v : View) : Prop where
  wf : v.lay.WF
  ne : Layout.sizes v.lay ≠ []
  pos : AllPos (Layout.sizes v.lay)

theorem ofView_exts (v : View) (h : v.lay.WF) : (ElemRange.ofView v).lay.exts = zexts (Layout.sizes v.lay) := by
  rw [ofView_eq]; exact zeroBased_exts h

/-- the iterator constructor (used by `begin()`, `end()`, and every position in between) establishes the invariant -/
theorem elemit_mk (v : View) (hv : NonEmpty v) (k : Int) (h0 : 0 ≤ k) (h1 : k ≤ prodSizes (Layout.sizes v.lay)) :
    ∃ it, (ElemRange.ofView v).mkIt k = some it ∧ GoodIt v it ∧ it.n = k := by
  obtain ⟨ps, e1, _, _, _⟩ := fromLinear_total hv.pos hv.ne k h0 h1
  refine ⟨⟨v.base, Layout.zeroBased v.lay, k, zexts (Layout.sizes v.lay), ps⟩, ?_, ⟨rfl, rfl, rfl, h0, h1, e1⟩, rfl⟩
  simp only [ElemRange.mkIt, ofView_eq, zeroBased_exts hv.wf, fromLinearG_eq hv.pos, e1, Option.map_some]

theorem begin_end_good (v : View) (hv : NonEmpty v) :
    (∃ b, (ElemRange.ofView v).begin' = some b ∧ GoodIt v b ∧ b.n = 0) ∧
    (∃ e, (ElemRange.ofView v).end' = some e ∧ GoodIt v e ∧ e.n = prodSizes (Layout.sizes v.lay)) ∧
    (ElemRange.ofView v).size = prodSizes (Layout.sizes v.lay) := by
  have hN : (ElemRange.ofView v).size = prodSizes (Layout.sizes v.lay) := by
    simp only [ElemRange.size, ofView_eq, zeroBased_numElements]
    have h := (C01.shape_functions_agree v hv.wf).2.1
    have hs := (C01.shape_functions_agree v hv.wf).1
    simp only [View.numElements] at h
    rw [h]
    have : ∀ l : Layout, l.WF → nElems l.exts = prodSizes (Layout.sizes l) := by
      intro l hl
      induction l with
      | nil => rfl
      | cons d l ih =>
        simp only [Layout.exts, Layout.sizes, List.map_cons, nElems, prodSizes] at ih ⊢
        rw [ih hl.tail, hl.head.size_eq]
    exact this v.lay hv.wf
  have hpos := prodSizes_pos hv.pos
  refine ⟨?_, ?_, hN⟩
  · exact elemit_mk v hv 0 (by omega) (by omega)
  · have := elemit_mk v hv (prodSizes (Layout.sizes v.lay)) (by omega) (by omega)
    simp only [ElemRange.end']
    simp only [ElemRange.size] at hN
    rw [hN]; exact this

/-- `operator++` preserves the invariant and advances the position by one -/
theorem elemit_inc (v : View) (hv : NonEmpty v) (it : ElemIt) (hg : GoodIt v it) (hlt : it.n < prodSizes (Layout.sizes v.lay)) :
    ∃ it', it.inc = some it' ∧ GoodIt v it' ∧ it'.n = it.n + 1 := by
  obtain ⟨ps, e1, e2, e3, _⟩ := fromLinear_total hv.pos hv.ne it.n hg.lo hg.hi
  have hns : it.ns = ps := by have := hg.canon; rw [e1] at this; exact (Option.some.inj this).symm
  have hin := e3 hlt
  obtain ⟨ps', c, en, hcase⟩ := next_spec hv.pos hv.ne hin
  rw [e2] at hcase
  obtain ⟨qs, f1, _, _, _⟩ := fromLinear_total hv.pos hv.ne (it.n + 1) (by have := hg.lo; omega) (by omega)
  unfold ElemIt.inc
  rw [hg.xs, hns, en]
  rcases hcase with ⟨a1, a2, a3, a4⟩ | ⟨a1, a2, a3⟩
  · subst a2
    have : Exts.fromLinear (zexts (Layout.sizes v.lay)) (it.n + 1) = some ps' := by
      rw [← a4]; exact fromLinear_toLinear hv.pos a3
    refine ⟨⟨it.base, it.lay, it.n + 1, zexts (Layout.sizes v.lay), ps'⟩, by simp, ⟨hg.base, hg.lay, rfl, by have := hg.lo; simp; omega, by simp; omega, this⟩, rfl⟩
  · subst a2
    refine ⟨⟨it.base, it.lay, it.n + 1, zexts (Layout.sizes v.lay), qs⟩, ?_, ⟨hg.base, hg.lay, rfl, by have := hg.lo; simp; omega, by simp; omega, f1⟩, rfl⟩
    simp only [if_true]
    rw [fromLinearG_eq hv.pos, f1]; rfl

/-- `operator--` preserves the invariant and moves the position back by one (also from `end()`) -/
theorem elemit_dec (v : View) (hv : NonEmpty v) (it : ElemIt) (hg : GoodIt v it) (hgt : 0 < it.n) :
    GoodIt v it.dec ∧ it.dec.n = it.n - 1 := by
  obtain ⟨ps, e1, e2, e3, e4⟩ := fromLinear_total hv.pos hv.ne it.n hg.lo hg.hi
  have hns : it.ns = ps := by have := hg.canon; rw [e1] at this; exact (Option.some.inj this).symm
  refine ⟨⟨hg.base, hg.lay, hg.xs, by simp [ElemIt.dec]; omega, by have := hg.hi; simp [ElemIt.dec]; omega, ?_⟩, rfl⟩
  simp only [ElemIt.dec]
  rw [hg.xs, hns]
  by_cases hlt : it.n < prodSizes (Layout.sizes v.lay)
  · obtain ⟨ps', c, en, hcase⟩ := prev_spec hv.pos hv.ne (e3 hlt)
    rw [e2] at hcase
    rcases hcase with ⟨_, _, a3, a4⟩ | ⟨a1, _, _⟩
    · rw [en]; simp only
      rw [← a4]; exact fromLinear_toLinear hv.pos a3
    · omega
  · have hk : it.n = prodSizes (Layout.sizes v.lay) := by have := hg.hi; omega
    rw [e4 hk, prev_end hv.pos hv.ne, hk]
    have := fromLinear_toLinear hv.pos (inPos_backs hv.pos)
    rwa [toLinear_backs hv.ne] at this

/-- `operator+=` / `operator-=` / `operator[]` -/
theorem elemit_add (v : View) (hv : NonEmpty v) (it : ElemIt) (hg : GoodIt v it) (j : Int)
    (h0 : 0 ≤ it.n + j) (h1 : it.n + j ≤ prodSizes (Layout.sizes v.lay)) :
    (∃ it', it.add j = some it' ∧ GoodIt v it' ∧ it'.n = it.n + j ∧ it.at' j = some it'.current) ∧
    (∃ it'', it.sub' (-j) = some it'' ∧ GoodIt v it'' ∧ it''.n = it.n + j) := by
  obtain ⟨ps, e1, e2, _, _⟩ := fromLinear_total hv.pos hv.ne it.n hg.lo hg.hi
  have hns : it.ns = ps := by have := hg.canon; rw [e1] at this; exact (Option.some.inj this).symm
  obtain ⟨qs, f1, _, _, _⟩ := fromLinear_total hv.pos hv.ne (it.n + j) h0 h1
  constructor
  · refine ⟨{ it with ns := qs, n := it.n + j }, ?_, ⟨hg.base, hg.lay, hg.xs, h0, h1, f1⟩, rfl, ?_⟩
    · simp only [ElemIt.add]; rw [hg.xs, hns, e2, fromLinearG_eq hv.pos, f1]; rfl
    · simp only [ElemIt.at', ElemIt.current]; rw [hg.xs, hns, e2, fromLinearG_eq hv.pos, f1]; rfl
  · refine ⟨{ it with ns := qs, n := it.n - -j }, ?_, ⟨hg.base, hg.lay, hg.xs, by simp; omega, by simp; omega, by simp; exact f1⟩, by simp⟩
    simp only [ElemIt.sub']; rw [hg.xs, hns, e2]
    have : it.n - -j = it.n + j := by omega
    rw [this, fromLinearG_eq hv.pos, f1]; rfl

/-- **the k-th position of `elements()` is the element at the k-th index tuple in canonical order**
    (row-major rank `k`, last index fastest), whatever the memory layout -/
theorem elemit_deref (v : View) (hwf : v.lay.WF) (idx : List Int) (hidx : InBox v.exts idx) (it : ElemIt)
    (hg : GoodIt v it) (hn : it.n = rowMajor v.exts idx) : it.current = v.addr idx := by
  obtain ⟨p1, p2, p3, p4⟩ := inPos_posOf hwf hidx
  have hc := hg.canon
  rw [hn, show rowMajor v.exts idx = rowMajor (Layout.exts v.lay) idx from rfl, p3, fromLinear_toLinear p2 p1] at hc
  have hns : it.ns = posOf v.lay idx := (Option.some.inj hc).symm
  rw [ElemIt.current, hg.base, hg.lay, hns, apply_zeroBased_posOf hwf hidx, addr_eq]

/-- the laws, as equalities of iterator states: `++`/`--` inverse, `(it+j)−j == it`, `(it+j)−it == j`,
    `it<jt ⟺ jt−it>0`, `it[j]` is `*(it+j)`, assigned iterators denote the same position -/
theorem elemit_laws (v : View) (hv : NonEmpty v) (it : ElemIt) (hg : GoodIt v it) (j : Int)
    (h0 : 0 ≤ it.n + j) (h1 : it.n + j ≤ prodSizes (Layout.sizes v.lay)) :
    (it.n < prodSizes (Layout.sizes v.lay) → ∃ t, it.inc = some t ∧ t.dec = it) ∧
    (0 < it.n → it.dec.inc = some it) ∧
    (∃ jt, it.add j = some jt ∧ jt.sub' j = some it ∧ jt.diff it = j ∧ (it.lt jt = decide (0 < jt.diff it)) ∧
      it.at' j = some jt.current ∧ (ElemIt.assign it jt) = jt) := by
  refine ⟨?_, ?_, ?_⟩
  · intro hlt
    obtain ⟨t, e, g, hn⟩ := elemit_inc v hv it hg hlt
    obtain ⟨g2, hn2⟩ := elemit_dec v hv t g (by have := hg.lo; omega)
    exact ⟨t, e, GoodIt.unique g2 hg (by omega)⟩
  · intro hgt
    obtain ⟨g, hn⟩ := elemit_dec v hv it hg hgt
    obtain ⟨t, e, g2, hn2⟩ := elemit_inc v hv it.dec g (by have := hg.hi; omega)
    rw [e]; exact congrArg some (GoodIt.unique g2 hg (by omega))
  · obtain ⟨⟨jt, e, g, hn, hat⟩, _⟩ := elemit_add v hv it hg j h0 h1
    obtain ⟨_, ⟨b, eb, gb, hb⟩⟩ := elemit_add v hv jt g (-j) (by have := hg.lo; omega) (by have := hg.hi; omega)
    simp only [Int.neg_neg] at eb
    refine ⟨jt, e, ?_, by simp [ElemIt.diff]; omega, by simp [ElemIt.lt, ElemIt.diff], hat, rfl⟩
    rw [eb]; exact congrArg some (GoodIt.unique gb hg (by omega))

/-- `elements()[k]`, `front()`, `back()` agree with the k-th position -/
theorem range_index (v : View) (hv : NonEmpty v) (k : Int) (h0 : 0 ≤ k) (h1 : k < prodSizes (Layout.sizes v.lay)) :
    ∃ it, (ElemRange.ofView v).mkIt k = some it ∧ (ElemRange.ofView v).at' k = some it.current := by
  obtain ⟨it, e, g, hn⟩ := elemit_mk v hv k h0 (by omega)
  refine ⟨it, e, ?_⟩
  simp only [ElemRange.at']
  rw [ofView_exts v hv.wf]
  have := g.canon; rw [hn] at this
  rw [this]
  simp only [Option.map_some, ElemIt.current, g.base, g.lay, ofView_eq]

/-! non-vacuity: the transposed 3×4 array is `NonEmpty` and position 5 designates index (1,2) -/
example : NonEmpty (View.transposed ⟨0, Layout.ofExts [⟨0, 3⟩, ⟨0, 4⟩]⟩) :=
  ⟨by decide +kernel, by decide +kernel, by decide +kernel⟩
example : rowMajor (View.transposed ⟨0, Layout.ofExts [⟨0, 3⟩, ⟨0, 4⟩]⟩).exts [1, 2] = 5 := by decide +kernel

end C02
end Multi
