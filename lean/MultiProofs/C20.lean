/-
  C20 — Debug contracts: assertions silent on valid use, fire on out-of-range access.

  The assertion sites of the headers are regenerated into `MultiModel/Gen/Asserts.lean` on every run
  (tools/gen_asserts.py) and each site is classified by the model predicate that transcribes it.
  `asserts_silent_*`: for in-domain arguments (the `InDomain` predicates of C01/C02) the predicate is true.
  `asserts_fire_*`: outside the extension / for different extents the predicate is false — and in the code the
  assertion is the first statement, before the address computation.
  NDEBUG-invariance: in the model assertion predicates are separate pure functions (`indexAssert`, `slicedAsserts`,
  …) that no result depends on; on the C++ side the translator checks that no assertion expression contains an
  assignment, increment or decrement, and the correspondence run compares the three build configurations.

  Classes without a model predicate (reinterpretSizes, scalePrecondition → C12; zeroDimCount, nullBaseOffset,
  defaultEmpty, unreachable, postIncrementOrder, elementsIndexBound) are covered by the three-configuration
  differential run only.
-/
import MultiProofs.C02
import MultiModel.Gen.Asserts

namespace Multi
namespace C20
open Gen

/-- every assertion site of the current source is classified and its expression is side-effect free -/
theorem inventory_classified_and_pure :
    assertSites.all (fun s => s.cls != AssertClass.unmapped && s.pure) = true := by decide +kernel

theorem asserts_silent_index (v : View) (i : Int) (hd : (Op.index i).InDomain v) : v.indexAssert i = true := by
  obtain ⟨hne, h1, h2⟩ := hd
  cases hv : v.lay with
  | nil => exact absurd hv hne
  | cons d sub =>
    rw [View.ext_cons hv] at h1 h2
    simp [View.indexAssert, hv, Ext.contains, h1, h2]

theorem asserts_fire_index (v : View) (d : Dim) (sub : Layout) (i : Int) (hv : v.lay = d :: sub)
    (hs : d.stride ≠ 0) (hout : ¬ (d.ext.first ≤ i ∧ i < d.ext.last)) : v.indexAssert i = false := by
  simp only [View.indexAssert, hv, Ext.contains, Bool.or_eq_false_iff, beq_eq_false_iff_ne, ne_eq, Bool.and_eq_false_iff,
    decide_eq_false_iff_not]
  refine ⟨hs, ?_⟩
  by_cases h : i < d.ext.last
  · right; intro h2; exact hout ⟨h2, h⟩
  · left; exact h

theorem asserts_silent_sliced (v : View) (a b : Int) (hwf : v.lay.WF) (hd : (Op.sliced a b).InDomain v) :
    v.slicedAsserts a b = true := by
  obtain ⟨hne, h1, h2, h3⟩ := hd
  cases hv : v.lay with
  | nil => exact absurd hv hne
  | cons d sub =>
    rw [View.ext_cons hv] at h1 h3
    cases sub with
    | nil => simp [View.slicedAsserts, hv]
    | cons d1 sub' =>
      simp only [View.slicedAsserts, hv, Ext.contains, Bool.and_eq_true, Bool.or_eq_true, beq_iff_eq, decide_eq_true_eq]
      by_cases hab : a = b
      · exact ⟨Or.inl hab, Or.inl hab⟩
      · exact ⟨Or.inr ⟨by omega, h1⟩, Or.inr ⟨by omega, by omega⟩⟩

theorem asserts_silent_take_drop (v : View) (n : Int) (hwf : v.lay.WF) (hd : (Op.taked n).InDomain v) : n ≤ v.size := by
  obtain ⟨_, _, h⟩ := hd
  rw [← (C01.shape_functions_agree v hwf).2.2.1] at h; exact h

theorem asserts_silent_partitioned (v : View) (n : Int) (hwf : v.lay.WF) (hd : (Op.partitioned n).InDomain v) :
    v.partitionedAsserts n = true := by
  obtain ⟨hne, hn, ⟨q, hq⟩⟩ := hd
  cases hv : v.lay with
  | nil => exact absurd hv hne
  | cons d sub =>
    rw [View.ext_cons hv] at hq
    have hd : d.WF := by rw [hv] at hwf; exact hwf.head
    simp only [View.partitionedAsserts, hv, Bool.and_eq_true, bne_iff_ne, ne_eq, beq_iff_eq]
    refine ⟨by omega, ?_⟩
    rcases hd.cases with h0 | ⟨f, N, hN, hs, hf, hnn, he, hsz⟩
    · rw [h0]; simp
    · rw [he] at hq; simp [Ext.size] at hq
      have : N = n * q := by omega
      rw [hnn, this, Int.mul_assoc]
      exact Int.mul_tmod_right _ _

theorem asserts_silent_extension (d : Dim) (h : d.WF) : d.extAsserts = true := by
  rcases h.cases with h0 | ⟨f, n, hn, hs, hf, hnn, _, _⟩
  · simp [Dim.extAsserts, h0]
  · simp only [Dim.extAsserts, Bool.or_eq_true, beq_iff_eq, Bool.and_eq_true]
    right
    rw [hf, hnn]
    exact ⟨Int.mul_tmod_left _ _, Int.mul_tmod_left _ _⟩

/-- `assert(this->stride() != 0)` in array.hpp: an array built from extensions has positive strides -/
theorem asserts_silent_stride_nonzero (es : List Ext) (hes : ∀ e ∈ es, e.first ≤ e.last) :
    ∀ d ∈ Layout.ofExts es, 0 < d.stride := by
  induction es with
  | nil => intro d hd; simp [Layout.ofExts] at hd
  | cons e es ih =>
    have hes' : ∀ x ∈ es, x.first ≤ x.last := fun x hx => hes x (List.mem_cons_of_mem _ hx)
    intro d hd
    simp only [Layout.ofExts, List.mem_cons] at hd
    rcases hd with h | h
    · subst h
      have hn := (C01.root_denotes es hes').2.2.1
      have h0 := C01.nElems_nonneg es hes'
      simp only
      rw [hn]
      by_cases hz : nElems es = 0
      · simp [hz]
      · simp [hz]; omega
    · exact ih hes' d h

theorem eqv_sizes {a b : List Ext} (h : Exts.eqv a b = true) : a.map Ext.size = b.map Ext.size := by
  induction a generalizing b with
  | nil => cases b <;> simp_all [Exts.eqv]
  | cons x a ih =>
    cases b with
    | nil => simp [Exts.eqv] at h
    | cons y b =>
      simp only [Exts.eqv, Bool.and_eq_true] at h
      simp only [List.map_cons, ih h.2]
      congr 1
      have := h.1
      simp only [Ext.eqv, Ext.isEmpty, Bool.or_eq_true, Bool.and_eq_true, beq_iff_eq] at this
      simp only [Ext.size]
      rcases this with ⟨h1, h2⟩ | ⟨h1, h2⟩ <;> omega

/-- equal extents (the assignment precondition) imply the element-count assertion of the element range -/
theorem asserts_silent_equal_count (a b : View) (h : View.assignAssert a b = true) : nElems a.exts = nElems b.exts := by
  have hs := eqv_sizes h
  have : ∀ x y : List Ext, x.map Ext.size = y.map Ext.size → nElems x = nElems y := by
    intro x
    induction x with
    | nil => intro y hy; cases y <;> simp_all [nElems]
    | cons e x ih => intro y hy; cases y with
      | nil => simp at hy
      | cons f y => simp only [List.map_cons, List.cons.injEq] at hy; simp only [nElems]; rw [hy.1, ih y hy.2]
  exact this _ _ hs

/-- assigning between views of different extents: the asserted predicate is false -/
theorem asserts_fire_assign (a b : View) (h : Exts.eqv a.exts b.exts = false) : View.assignAssert a b = false := h

/-- iterators of one view at in-range positions satisfy the assertions of `-`, `==`, `<` -/
theorem asserts_silent_iter (v : View) (d : Dim) (sub : Layout) (p q : Int) (hv : v.lay = d :: sub) (hs : d.stride ≠ 0) :
    ArrIt.diffAsserts (v.begin'.add p) (v.begin'.add q) = true ∧ ArrIt.eqAsserts (v.begin'.add p) (v.begin'.add q) = true := by
  simp only [ArrIt.diffAsserts, ArrIt.eqAsserts, View.begin', hv, ArrIt.add, Bool.and_eq_true, beq_iff_eq, bne_iff_ne, ne_eq]
  refine ⟨⟨⟨trivial, hs⟩, ?_⟩, trivial, trivial⟩
  have : v.base + d.stride * p - (v.base + d.stride * q) = d.stride * (p - q) := by rw [Int.mul_sub]; omega
  rw [this]; exact Int.mul_tmod_right _ _

/-- `assert(sub_num_elements != 0)` in `from_linear`: never reached with a zero divisor from a non-empty elements range -/
theorem asserts_silent_from_linear (v : View) (hv : C02.NonEmpty v) (k : Int) (h0 : 0 ≤ k) (h1 : k ≤ prodSizes (Layout.sizes v.lay)) :
    ((ElemRange.ofView v).mkIt k).isSome = true := by
  obtain ⟨it, e, _, _⟩ := C02.elemit_mk v hv k h0 h1
  rw [e]; rfl

end C20
end Multi
