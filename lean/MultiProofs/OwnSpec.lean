/-
  MultiProofs.OwnSpec — what C04 / C06 say, independently of how array.hpp computes it.

  An owning array *denotes* a value `AbsArr`: its extensions and its elements in canonical (row-major) order.
  A pool of named arrays denotes `Name → Option AbsArr`.  `Valid` is the representation invariant of one array
  (layout built from extensions, storage = one live block of exactly `num_elements` cells), `Inv` the invariant
  of a pool (every array valid, arrays with elements own pairwise different blocks, no UB / failed assertion so far).
-/
import MultiProofs.OwnHeap
import MultiProofs.C01

namespace Multi
namespace Own
variable {α : Type}

/-- the value of an owning array: extensions + elements in canonical order (`none` = indeterminate element) -/
structure AbsArr (α : Type) where
  exts  : List Ext
  elems : List (Cell α)

theorem AbsArr.ext' {x y : AbsArr α} (h1 : x.exts = y.exts) (h2 : x.elems = y.elems) : x = y := by
  cases x; cases y; simp_all

/-- the cells an array owns, in storage order -/
def cellsOf (h : Heap α) (a : Arr) : List (Cell α) :=
  match h.block? a.base with
  | some cs => cs.take a.numElements.toNat
  | none => []

/-- abstraction of one array -/
def absArr (h : Heap α) (a : Arr) : AbsArr α := ⟨a.exts, cellsOf h a⟩

/-- extensions are well formed: `first ≤ last` -/
def ExtsOK (es : List Ext) : Prop := ∀ e ∈ es, e.first ≤ e.last

/-- representation invariant of one array -/
structure Valid (h : Heap α) (a : Arr) : Prop where
  shape : ∃ es, ExtsOK es ∧ a.lay = Layout.ofExts es
  store : a.numElements = 0 ∨ ∃ (b : Nat) (cs : List (Cell α)), a.base = some b ∧ Live h b cs ∧ cs.length = a.numElements.toNat

/-- "empty": no elements and all extensions `[0,0)` -/
def IsEmpty (a : Arr) : Prop := a.numElements = 0 ∧ ∀ e ∈ a.exts, e = ⟨0, 0⟩

/-! ### pools -/

structure Pool (α : Type) where
  heap : Heap α
  arrs : Nat → Option Arr

def Pool.set (p : Pool α) (k : Nat) (a : Option Arr) : Pool α :=
  { p with arrs := fun j => if j = k then a else p.arrs j }

def Pool.withHeap (p : Pool α) (h : Heap α) : Pool α := { p with heap := h }

/-- abstraction of a pool -/
def absPool (p : Pool α) : Nat → Option (AbsArr α) := fun k => (p.arrs k).map (absArr p.heap)

structure Inv (p : Pool α) : Prop where
  noub   : p.heap.ub = false
  noasrt : p.heap.asrt = false
  valid  : ∀ k a, p.arrs k = some a → Valid p.heap a
  /-- `independent`: arrays with elements own pairwise different blocks -/
  sep    : ∀ j k a b, j ≠ k → p.arrs j = some a → p.arrs k = some b → a.numElements ≠ 0 → b.numElements ≠ 0 → a.base ≠ b.base

end Own
end Multi
