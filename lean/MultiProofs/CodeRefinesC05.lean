/-
  C05 stated directly about the regenerated assignment code (see CodeRefines.lean)
-/
import MultiProofs.C05
import MultiProofs.GenTieStore

namespace Multi.CodeRefines
open Multi Multi.Gen

variable {α : Type}

/-- **C05 on the regenerated `subarray::operator=`** (copy assignment from a view of the same type; the other overloads are
    the same function by `GenTieStore.assignment_is_the_code`): exactly the viewed elements are written, nothing else -/
theorem code_assign_exact (b : Int) (d : Dim) (sub : Layout) (src : View) (m : Mem α)
    (hd : Layout.WF (d :: sub)) (hs : src.lay.WF) (hext : (View.mk b (d :: sub)).exts = src.exts)
    (hinj : (View.mk b (d :: sub)).Injective) (hdis : (View.mk b (d :: sub)).Disjoint src) :
    ∃ m', SV_assign_copy ⟨b, d :: sub⟩ src m false = some m' ∧
      (∀ idx, InBox (View.mk b (d :: sub)).exts idx → m' ((View.mk b (d :: sub)).addr idx) = m (src.addr idx)) ∧
      (∀ a, ¬ (View.mk b (d :: sub)).InImage a → m' a = m a) := by
  rw [(GenTieStore.SV_assign_copy_tie b d sub src m).1]
  exact C05.assign_exact _ src m hd hs (by simp) hext hinj hdis

end Multi.CodeRefines
