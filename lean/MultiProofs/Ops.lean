/-
  MultiProofs.Ops — every view-forming operation, as coded, refines its documented index mapping.
-/
import MultiProofs.Basic

namespace Multi

/-- `w` (obtained from `v`) has shape `shape`, and its element at `idx` is `v`'s element at `m idx` -/
def Refines (v w : View) (shape : List Ext) (m : List Int → List Int) : Prop :=
  w.lay.WF ∧ w.exts = shape ∧
    ∀ idx, InBox shape idx → w.addr idx = v.addr (m idx) ∧ InBox v.exts (m idx)

theorem inBox_cons {e : Ext} {es : List Ext} {idx : List Int} (h : InBox (e :: es) idx) :
    ∃ t r, idx = t :: r ∧ e.first ≤ t ∧ t < e.last ∧ InBox es r := by
  cases idx with
  | nil => simp [InBox] at h
  | cons t r => exact ⟨t, r, rfl, h.1.1, h.1.2, h.2⟩

/-- operations that replace the leading level `d` by `d'` and move the base by `δ` -/
theorem head_refines (v : View) (d d' : Dim) (sub : Layout) (δ : Int) (E' : Ext) (mh : Int → Int)
    (m : List Int → List Int)
    (hv : v.lay = d :: sub) (hwf : v.lay.WF) (hd' : d'.WF) (hE : d'.ext = E')
    (hmap : ∀ t r, m (t :: r) = mh t :: r)
    (hm : ∀ t, E'.first ≤ t → t < E'.last →
      (t * d'.stride - d'.offset) + δ = (mh t) * d.stride - d.offset ∧ d.ext.first ≤ mh t ∧ mh t < d.ext.last) :
    Refines v ⟨v.base + δ, d' :: sub⟩ (E' :: sub.exts) m := by
  rw [hv] at hwf
  refine ⟨Layout.WF.cons hd' hwf.tail, ?_, ?_⟩
  · simp [View.exts, Layout.exts, hE]
  · intro idx hidx
    obtain ⟨t, r, rfl, h1, h2, h3⟩ := inBox_cons hidx
    obtain ⟨e1, e2, e3⟩ := hm t h1 h2
    rw [hmap, addr_eq, addr_eq, hv]
    constructor
    · simp only [Layout.off]; omega
    · simp only [View.exts, Layout.exts, hv, List.map_cons, InBox]
      exact ⟨⟨e2, e3⟩, h3⟩

theorem View.exts_cons {v : View} {d : Dim} {sub : Layout} (hv : v.lay = d :: sub) :
    v.exts = d.ext :: sub.exts := by simp [View.exts, Layout.exts, hv]

theorem View.ext_cons {v : View} {d : Dim} {sub : Layout} (hv : v.lay = d :: sub) : v.ext = d.ext := by
  simp [View.ext, hv]

theorem norm_of_pos {f n : Int} (hn : 0 < n) : Ext.norm ⟨f, f + n⟩ = ⟨f, f + n⟩ := by
  unfold Ext.norm; simp; omega

theorem norm_of_zero {f : Int} : Ext.norm ⟨f, f + 0⟩ = ⟨0, 0⟩ := by
  unfold Ext.norm; simp

/-! ### sliced / range -/

theorem sliced_refines (v : View) (a b : Int) (hwf : v.lay.WF) (hd : (Op.sliced a b).InDomain v) :
    Refines v (v.sliced a b) ((Op.sliced a b).specShape v.exts) ((Op.sliced a b).specMap v.exts) := by
  obtain ⟨hne, h1, h2, h3⟩ := hd
  cases hv : v.lay with
  | nil => exact absurd hv hne
  | cons d sub =>
    have hdwf : d.WF := by rw [hv] at hwf; exact hwf.head
    rw [View.ext_cons hv] at h1 h3
    rw [View.exts_cons hv]
    -- both code paths produce the level (stride, offset, stride*(b-a)) and base + (a*stride - offset)
    have key : v.sliced a b = ⟨v.base + (a * d.stride - d.offset), { d with nelems := d.stride * (b - a) } :: sub⟩ := by
      unfold View.sliced
      cases sub with
      | nil =>
        simp only [hv, Layout.slice]
        rcases hdwf.cases with h0 | ⟨f, n, hn, hs, hf, hnn, he, hsz⟩
        · rw [Dim.ext_of_nelems_zero h0] at h1 h3
          simp at h1 h3
          have : b - a = 0 := by omega
          simp [h0, this]
        · have hne0 : d.nelems ≠ 0 := by rw [hnn]; exact Int.ne_of_gt (Int.mul_pos hn hs)
          have hn0 : n ≠ 0 := by omega
          simp only [hne0, if_false, hsz]
          rw [hnn, Int.mul_tdiv_cancel_left _ hn0]
      | cons d1 sub' => simp [hv]
    rw [key]
    simp only [Op.specShape]
    rcases hdwf.cases with h0 | ⟨f, n, hn, hs, hf, hnn, he, hsz⟩
    · -- empty leading dimension: a = b = 0
      rw [Dim.ext_of_nelems_zero h0] at h1 h3 ⊢
      simp at h1 h3
      have hba : b - a = 0 := by omega
      have : Ext.norm ⟨0, 0 + (b - a)⟩ = ⟨0, 0⟩ := by rw [hba]; exact norm_of_zero
      rw [this]
      apply head_refines v d _ sub _ ⟨0, 0⟩ (fun t => a + (t - 0)) _ hv hwf
      · left; simp [hba]
      · simp [Dim.ext, hba]
      · intro t r; simp [Op.specMap]
      · intro t ht1 ht2; simp at ht1 ht2; omega
    · rw [he] at h1 h3 ⊢
      simp at h1 h3
      by_cases hba : b - a = 0
      · have : Ext.norm ⟨f, f + (b - a)⟩ = ⟨0, 0⟩ := by rw [hba]; exact norm_of_zero
        rw [this]
        apply head_refines v d _ sub _ ⟨0, 0⟩ (fun t => a + (t - f)) _ hv hwf
        · left; simp [hba]
        · simp [Dim.ext, hba]
        · intro t r; simp [Op.specMap]
        · intro t ht1 ht2; simp at ht1 ht2; omega
      · have hpos : 0 < b - a := by omega
        rw [norm_of_pos hpos]
        have hd' : ({ d with nelems := d.stride * (b - a) } : Dim) = ⟨d.stride, f * d.stride, (b - a) * d.stride⟩ := by
          rw [← hf, Int.mul_comm]
        apply head_refines v d _ sub _ ⟨f, f + (b - a)⟩ (fun t => a + (t - f)) _ hv hwf
        · rw [hd']; exact Dim.wf_mk hs hpos
        · rw [hd']; exact Dim.ext_mk hs hpos
        · intro t r; simp [Op.specMap]
        · intro t ht1 ht2
          simp at ht1 ht2
          rw [he]
          refine ⟨?_, by simp; omega, by simp; omega⟩
          simp only
          rw [hf]
          have e1 : (a + (t - f)) * d.stride = a * d.stride + t * d.stride - f * d.stride := by
            rw [Int.add_mul, Int.sub_mul]; omega
          omega

theorem range_refines (v : View) (a b : Int) (hwf : v.lay.WF) (hd : (Op.range a b).InDomain v) :
    Refines v (v.range a b) ((Op.range a b).specShape v.exts) ((Op.range a b).specMap v.exts) := by
  have h1 : v.range a b = v.sliced a b := by
    unfold View.range; have : a + (b - a) = b := by omega
    rw [this]
  have h2 : (Op.range a b).specShape v.exts = (Op.sliced a b).specShape v.exts := by
    cases v.exts <;> rfl
  have h3 : (Op.range a b).specMap v.exts = (Op.sliced a b).specMap v.exts := by
    funext idx; cases v.exts <;> cases idx <;> rfl
  rw [h1, h2, h3]
  exact sliced_refines v a b hwf hd

/-! ### strided -/

theorem strided_refines (v : View) (s : Int) (hwf : v.lay.WF) (hd : (Op.strided s).InDomain v) :
    Refines v (v.strided s) ((Op.strided s).specShape v.exts) ((Op.strided s).specMap v.exts) := by
  obtain ⟨hne, hs, ⟨n', hn'⟩, ⟨f', hf'⟩⟩ := hd
  cases hv : v.lay with
  | nil => exact absurd hv hne
  | cons d sub =>
    have hdwf : d.WF := by rw [hv] at hwf; exact hwf.head
    rw [View.ext_cons hv] at hn' hf'
    rw [View.exts_cons hv]
    have key : v.strided s = ⟨v.base + 0, { d with stride := d.stride * s } :: sub⟩ := by
      unfold View.strided; simp [hv]
    rw [key]
    simp only [Op.specShape]
    have hs0 : s ≠ 0 := by omega
    rcases hdwf.cases with h0 | ⟨f, n, hn, hst, hf, hnn, he, hsz⟩
    · rw [Dim.ext_of_nelems_zero h0]
      have : Ext.norm ⟨(0:Int).tdiv s, (0:Int).tdiv s + (Ext.size ⟨0, 0⟩).tdiv s⟩ = ⟨0, 0⟩ := by
        simp [Ext.size, Ext.norm]
      rw [this]
      apply head_refines v d _ sub _ ⟨0, 0⟩ (fun t => s * t) _ hv hwf
      · left; exact h0
      · simp [Dim.ext, h0]
      · intro t r; simp [Op.specMap]
      · intro t ht1 ht2; simp at ht1 ht2; omega
    · rw [he] at hn' hf' ⊢
      simp [Ext.size] at hn' hf'
      have hn2 : n = s * n' := by omega
      subst hn2; subst hf'
      have hn'pos : 0 < n' := by
        rcases Int.lt_trichotomy n' 0 with h | h | h
        · have : s * n' < 0 := Int.mul_neg_of_pos_of_neg hs h
          omega
        · subst h; simp at hn
        · exact h
      have e1 : (s * f').tdiv s = f' := Int.mul_tdiv_cancel_left _ hs0
      have e2 : (Ext.size ⟨s * f', s * f' + s * n'⟩).tdiv s = n' := by
        simp only [Ext.size]
        have : s * f' + s * n' - s * f' = s * n' := by omega
        rw [this]; exact Int.mul_tdiv_cancel_left _ hs0
      rw [e1, e2, norm_of_pos hn'pos]
      have hd' : ({ d with stride := d.stride * s } : Dim) = ⟨d.stride * s, f' * (d.stride * s), n' * (d.stride * s)⟩ := by
        have a1 : d.offset = f' * (d.stride * s) := by rw [hf]; grind
        have a2 : d.nelems = n' * (d.stride * s) := by rw [hnn]; grind
        rw [← a1, ← a2]
      have hss : 0 < d.stride * s := Int.mul_pos hst hs
      apply head_refines v d _ sub _ ⟨f', f' + n'⟩ (fun t => s * t) _ hv hwf
      · rw [hd']; exact Dim.wf_mk hss hn'pos
      · rw [hd']; exact Dim.ext_mk hss hn'pos
      · intro t r; simp [Op.specMap]
      · intro t ht1 ht2
        simp at ht1 ht2
        rw [he]
        refine ⟨?_, ?_, ?_⟩
        · simp only; grind
        · simp only; exact Int.mul_le_mul_of_nonneg_left ht1 (Int.le_of_lt hs)
        · simp only
          have : s * t < s * (f' + n') := Int.mul_lt_mul_of_pos_left ht2 hs
          rw [Int.mul_add] at this; exact this

/-! ### dropped / taked -/

theorem dropped_refines (v : View) (k : Int) (hwf : v.lay.WF) (hd : (Op.dropped k).InDomain v) :
    Refines v (v.dropped k) ((Op.dropped k).specShape v.exts) ((Op.dropped k).specMap v.exts) := by
  obtain ⟨hne, hk0, hk1⟩ := hd
  cases hv : v.lay with
  | nil => exact absurd hv hne
  | cons d sub =>
    have hdwf : d.WF := by rw [hv] at hwf; exact hwf.head
    rw [View.ext_cons hv] at hk1
    rw [View.exts_cons hv]
    have key : v.dropped k = ⟨v.base + k * d.stride, { d with nelems := d.stride * (d.size - k) } :: sub⟩ := by
      unfold View.dropped; simp [hv]
    rw [key]
    simp only [Op.specShape]
    rcases hdwf.cases with h0 | ⟨f, n, hn, hst, hf, hnn, he, hsz⟩
    · rw [Dim.ext_of_nelems_zero h0] at hk1 ⊢
      simp [Ext.size] at hk1
      have hk : k = 0 := by omega
      subst hk
      have : Ext.norm ⟨0, 0 - 0⟩ = ⟨0, 0⟩ := by simp [Ext.norm]
      rw [this]
      apply head_refines v d _ sub _ ⟨0, 0⟩ (fun t => t + 0) _ hv hwf
      · left; simp [Dim.size_of_nelems_zero h0]
      · simp [Dim.ext, Dim.size_of_nelems_zero h0]
      · intro t r; simp [Op.specMap]
      · intro t ht1 ht2; simp at ht1 ht2; omega
    · rw [he] at hk1 ⊢
      simp [Ext.size] at hk1
      rw [hsz]
      by_cases hnk : n - k = 0
      · have : Ext.norm ⟨f, f + n - k⟩ = ⟨0, 0⟩ := by unfold Ext.norm; simp; omega
        rw [this]
        apply head_refines v d _ sub _ ⟨0, 0⟩ (fun t => t + k) _ hv hwf
        · left; simp [hnk]
        · simp [Dim.ext, hnk]
        · intro t r; simp [Op.specMap]
        · intro t ht1 ht2; simp at ht1 ht2; omega
      · have hpos : 0 < n - k := by omega
        have : Ext.norm ⟨f, f + n - k⟩ = ⟨f, f + (n - k)⟩ := by
          have : f + n - k = f + (n - k) := by omega
          rw [this]; exact norm_of_pos hpos
        rw [this]
        have hd' : ({ d with nelems := d.stride * (n - k) } : Dim) = ⟨d.stride, f * d.stride, (n - k) * d.stride⟩ := by
          rw [← hf, Int.mul_comm]
        apply head_refines v d _ sub _ ⟨f, f + (n - k)⟩ (fun t => t + k) _ hv hwf
        · rw [hd']; exact Dim.wf_mk hst hpos
        · rw [hd']; exact Dim.ext_mk hst hpos
        · intro t r; simp [Op.specMap]
        · intro t ht1 ht2
          simp at ht1 ht2
          rw [he]
          refine ⟨?_, by simp; omega, by simp; omega⟩
          simp only
          have e1 : (t + k) * d.stride = t * d.stride + k * d.stride := Int.add_mul _ _ _
          omega

theorem taked_refines (v : View) (k : Int) (hwf : v.lay.WF) (hd : (Op.taked k).InDomain v) :
    Refines v (v.taked k) ((Op.taked k).specShape v.exts) ((Op.taked k).specMap v.exts) := by
  obtain ⟨hne, hk0, hk1⟩ := hd
  cases hv : v.lay with
  | nil => exact absurd hv hne
  | cons d sub =>
    have hdwf : d.WF := by rw [hv] at hwf; exact hwf.head
    rw [View.ext_cons hv] at hk1
    rw [View.exts_cons hv]
    have key : v.taked k = ⟨v.base + 0, { d with nelems := d.stride * k } :: sub⟩ := by
      unfold View.taked; simp [hv]
    rw [key]
    simp only [Op.specShape]
    rcases hdwf.cases with h0 | ⟨f, n, hn, hst, hf, hnn, he, hsz⟩
    · rw [Dim.ext_of_nelems_zero h0] at hk1 ⊢
      simp [Ext.size] at hk1
      have hk : k = 0 := by omega
      subst hk
      have : Ext.norm ⟨0, 0 + 0⟩ = ⟨0, 0⟩ := by simp [Ext.norm]
      rw [this]
      apply head_refines v d _ sub _ ⟨0, 0⟩ (fun t => t) _ hv hwf
      · left; simp
      · simp [Dim.ext]
      · intro t r; simp [Op.specMap]
      · intro t ht1 ht2; simp at ht1 ht2; omega
    · rw [he] at hk1 ⊢
      simp [Ext.size] at hk1
      by_cases hk : k = 0
      · subst hk
        rw [norm_of_zero]
        apply head_refines v d _ sub _ ⟨0, 0⟩ (fun t => t) _ hv hwf
        · left; simp
        · simp [Dim.ext]
        · intro t r; simp [Op.specMap]
        · intro t ht1 ht2; simp at ht1 ht2; omega
      · have hpos : 0 < k := by omega
        rw [norm_of_pos hpos]
        have hd' : ({ d with nelems := d.stride * k } : Dim) = ⟨d.stride, f * d.stride, k * d.stride⟩ := by
          rw [← hf, Int.mul_comm]
        apply head_refines v d _ sub _ ⟨f, f + k⟩ (fun t => t) _ hv hwf
        · rw [hd']; exact Dim.wf_mk hst hpos
        · rw [hd']; exact Dim.ext_mk hst hpos
        · intro t r; simp [Op.specMap]
        · intro t ht1 ht2
          simp at ht1 ht2
          rw [he]
          exact ⟨by simp only; omega, by simp; omega, by simp; omega⟩

end Multi
