/-
  MultiProofs.OwnHeap — what the heap primitives of MultiModel.Owning do to a live block
  (helper lemmas for C04 / C06).
-/
import MultiModel.Owning

namespace Multi
namespace Own
variable {α : Type}

/-- block `b` is live in `h` and holds the cells `cs` -/
def Live (h : Heap α) (b : Nat) (cs : List (Cell α)) : Prop := h.blocks[b]? = some (some cs)

theorem Live.lt {h : Heap α} {b : Nat} {cs : List (Cell α)} (hl : Live h b cs) : b < h.blocks.length := by
  unfold Live at hl
  exact (List.getElem?_eq_some_iff.mp hl).1

theorem Live.unique {h : Heap α} {b : Nat} {cs cs' : List (Cell α)} (h1 : Live h b cs) (h2 : Live h b cs') : cs = cs' := by
  unfold Live at h1 h2; rw [h1] at h2; simpa using h2

/-- the heap with block `b` replaced -/
def Heap.setBlock (h : Heap α) (b : Nat) (x : Option (List (Cell α))) : Heap α := { h with blocks := h.blocks.set b x }

@[simp] theorem Heap.setBlock_ub (h : Heap α) (b : Nat) (x) : (h.setBlock b x).ub = h.ub := rfl
@[simp] theorem Heap.setBlock_asrt (h : Heap α) (b : Nat) (x) : (h.setBlock b x).asrt = h.asrt := rfl

theorem Live.setBlock_same {h : Heap α} {b : Nat} {cs : List (Cell α)} (hl : Live h b cs) (cs' : List (Cell α)) :
    Live (h.setBlock b (some cs')) b cs' := by
  unfold Live Heap.setBlock
  simp [hl.lt]

theorem Live.setBlock_other {h : Heap α} {b b' : Nat} {cs : List (Cell α)} (hl : Live h b cs) (hne : b' ≠ b) (x) :
    Live (h.setBlock b' x) b cs := by
  unfold Live Heap.setBlock
  simp only
  rw [List.getElem?_set_ne hne]
  exact hl

theorem Heap.setBlock_setBlock (h : Heap α) (b : Nat) (x y) : (h.setBlock b x).setBlock b y = h.setBlock b y := by
  unfold Heap.setBlock; simp [List.set_set]

theorem Heap.setBlock_self {h : Heap α} {b : Nat} {cs : List (Cell α)} (hl : Live h b cs) : h.setBlock b (some cs) = h := by
  unfold Heap.setBlock
  have : h.blocks.set b (some cs) = h.blocks := by
    apply List.ext_getElem?
    intro i
    by_cases hi : b = i
    · subst hi; rw [List.getElem?_set_self hl.lt]; exact hl.symm
    · rw [List.getElem?_set_ne hi]
  rw [this]

/-! ### allocation -/

theorem alloc_zero (h : Heap α) : h.alloc 0 = (h, none) := by simp [Heap.alloc]

theorem alloc_pos (h : Heap α) {n : Int} (hn : n ≠ 0) :
    h.alloc n = ({ h with blocks := h.blocks ++ [some (List.replicate n.toNat none)] }, some h.blocks.length) := by
  simp [Heap.alloc, hn]

theorem alloc_live (h : Heap α) {n : Int} (hn : n ≠ 0) :
    Live (h.alloc n).1 h.blocks.length (List.replicate n.toNat none) := by
  rw [alloc_pos h hn]; unfold Live; simp

theorem alloc_keeps (h : Heap α) (n : Int) {b : Nat} {cs : List (Cell α)} (hl : Live h b cs) : Live (h.alloc n).1 b cs := by
  by_cases hn : n = 0
  · subst hn; rw [alloc_zero]; exact hl
  · rw [alloc_pos h hn]; unfold Live; simp only
    rw [List.getElem?_append_left hl.lt]; exact hl

theorem alloc_ub (h : Heap α) (n : Int) : (h.alloc n).1.ub = h.ub ∧ (h.alloc n).1.asrt = h.asrt := by
  by_cases hn : n = 0
  · subst hn; rw [alloc_zero]; exact ⟨rfl, rfl⟩
  · rw [alloc_pos h hn]; exact ⟨rfl, rfl⟩


theorem alloc_fresh (h : Heap α) {n : Int} (hn : n ≠ 0) {b : Nat} {cs : List (Cell α)} (hl : Live h b cs) :
    (h.alloc n).2 ≠ some b := by
  rw [alloc_pos h hn]
  show some h.blocks.length ≠ some b
  intro he
  have h1 : b < h.blocks.length := hl.lt
  have h2 : h.blocks.length = b := Option.some.inj he
  omega

theorem alloc_length (h : Heap α) (n : Int) : h.blocks.length ≤ (h.alloc n).1.blocks.length := by
  by_cases hn : n = 0
  · subst hn; rw [alloc_zero]; exact Nat.le_refl _
  · rw [alloc_pos h hn]; simp

/-! ### one cell -/

theorem write_live {h : Heap α} {b : Nat} {cs : List (Cell α)} (hl : Live h b cs) {k : Nat} (hk : k < cs.length) (c : Cell α) :
    h.write (some b) (Int.ofNat k) c = h.setBlock b (some (cs.set k c)) := by
  unfold Heap.write
  simp only
  rw [show h.blocks[b]? = some (some cs) from hl]
  simp only [Int.toNat_natCast, Int.ofNat_eq_natCast]
  have : (0 : Int) ≤ (k : Int) := Int.natCast_nonneg k
  simp [hk, Heap.setBlock]

theorem read_live {h : Heap α} {b : Nat} {cs : List (Cell α)} (hl : Live h b cs) (k : Nat) :
    h.read (some b) (Int.ofNat k) = cs[k]? := by
  unfold Heap.read Heap.block?
  have : ¬ ((k : Int) < 0) := by omega
  simp only [Int.ofNat_eq_natCast, this, if_false, Int.toNat_natCast]
  rw [show h.blocks[b]? = some (some cs) from hl]
  simp

/-! ### fill -/

theorem drop_set_zero (cs : List (Cell α)) (n : Nat) (hn : n < cs.length) (c : Cell α) :
    (cs.drop n).set 0 c = c :: cs.drop (n + 1) := by
  rw [List.drop_eq_getElem_cons hn]; rfl

theorem set_replicate_drop (cs : List (Cell α)) (n : Nat) (hn : n < cs.length) (c : Cell α) :
    (List.replicate n c ++ cs.drop n).set n c = List.replicate (n + 1) c ++ cs.drop (n + 1) := by
  rw [List.set_append_right _ _ (by simp)]
  simp only [List.length_replicate, Nat.sub_self]
  rw [List.replicate_succ', List.append_assoc, drop_set_zero cs n hn]
  rfl

theorem fillN_live {h : Heap α} {b : Nat} {cs : List (Cell α)} (hl : Live h b cs) (n : Nat) (hn : n ≤ cs.length) (c : Cell α) :
    h.fillN (some b) n c = h.setBlock b (some (List.replicate n c ++ cs.drop n)) := by
  induction n with
  | zero => simp [Heap.fillN, Heap.setBlock_self hl]
  | succ n ih =>
    have ih := ih (by omega)
    unfold Heap.fillN at ih ⊢
    rw [List.range_succ, List.foldl_append, ih]
    simp only [List.foldl_cons, List.foldl_nil]
    have hl' := hl.setBlock_same (List.replicate n c ++ cs.drop n)
    rw [write_live hl' (by simp; omega), Heap.setBlock_setBlock, set_replicate_drop cs n (by omega)]

/-! ### copy between two different blocks -/

theorem set_take_drop (ss ds : List (Cell α)) (n : Nat) (hs : n < ss.length) (hd : n < ds.length) :
    (ss.take n ++ ds.drop n).set n ss[n] = ss.take (n + 1) ++ ds.drop (n + 1) := by
  rw [List.set_append_right _ _ (by simp; omega)]
  have : (List.take n ss).length = n := by simp; omega
  rw [this, Nat.sub_self, List.drop_eq_getElem_cons hd]
  simp only [List.set_cons_zero]
  rw [List.take_succ_eq_append_getElem hs, List.append_assoc]
  simp

theorem copyCell_live {h : Heap α} {s d : Nat} {ss ds : List (Cell α)} (hs : Live h s ss) (hd : Live h d ds)
    {k : Nat} (hks : k < ss.length) (hkd : k < ds.length) :
    h.copyCell (some s) (Int.ofNat k) (some d) (Int.ofNat k) = h.setBlock d (some (ds.set k ss[k])) := by
  unfold Heap.copyCell
  rw [read_live hs k, List.getElem?_eq_getElem hks]
  simp only
  exact write_live hd hkd _

theorem copyN_live {h : Heap α} {s d : Nat} {ss ds : List (Cell α)} (hs : Live h s ss) (hd : Live h d ds) (hne : s ≠ d)
    (n : Nat) (hns : n ≤ ss.length) (hnd : n ≤ ds.length) :
    h.copyN (some s) (some d) n = h.setBlock d (some (ss.take n ++ ds.drop n)) := by
  induction n with
  | zero => simp [Heap.copyN, Heap.setBlock_self hd]
  | succ n ih =>
    have ih := ih (by omega) (by omega)
    unfold Heap.copyN at ih ⊢
    rw [List.range_succ, List.foldl_append, ih]
    simp only [List.foldl_cons, List.foldl_nil]
    have hd' := hd.setBlock_same (ss.take n ++ ds.drop n)
    have hs' : Live (h.setBlock d (some (ss.take n ++ ds.drop n))) s ss := hs.setBlock_other (Ne.symm hne) _
    rw [copyCell_live hs' hd' (by omega) (by simp; omega), Heap.setBlock_setBlock, set_take_drop ss ds n (by omega) (by omega)]

/-! ### write a list of values -/

theorem writeList_live_aux (vs : List α) : ∀ (h : Heap α) (b : Nat) (cs : List (Cell α)) (off : Nat), Live h b cs → off + vs.length ≤ cs.length →
    h.writeList (some b) off vs = h.setBlock b (some (cs.take off ++ vs.map some ++ cs.drop (off + vs.length))) := by
  induction vs with
  | nil =>
    intro h b cs off hl _
    simp [Heap.writeList, Heap.setBlock_self hl]
  | cons v vs ih =>
    intro h b cs off hl hn
    simp only [List.length_cons] at hn
    unfold Heap.writeList
    rw [write_live hl (by omega)]
    have hl' := hl.setBlock_same (cs.set off (some v))
    rw [ih _ b _ (off + 1) hl' (by simp; omega), Heap.setBlock_setBlock]
    congr 2
    have h1 : (cs.set off (some v)).take (off + 1) = cs.take off ++ [some v] := by
      rw [List.take_succ_eq_append_getElem (by simp; omega)]
      simp [List.take_set_of_le]
    have h2 : (cs.set off (some v)).drop (off + 1 + vs.length) = cs.drop (off + 1 + vs.length) := by
      rw [List.drop_set_of_lt (by omega)]
    rw [h1, h2]
    simp [List.length_cons, Nat.add_assoc, Nat.add_comm 1]

theorem writeList_live {h : Heap α} {b : Nat} {cs : List (Cell α)} (hl : Live h b cs) (vs : List α) (hn : vs.length ≤ cs.length) :
    h.writeList (some b) 0 vs = h.setBlock b (some (vs.map some ++ cs.drop vs.length)) := by
  have := writeList_live_aux vs h b cs 0 hl (by omega)
  simpa using this

/-! ### deallocation -/

theorem dealloc_live {h : Heap α} {b : Nat} {cs : List (Cell α)} (hl : Live h b cs) : h.dealloc (some b) = h.setBlock b none := by
  unfold Heap.dealloc
  simp only
  rw [show h.blocks[b]? = some (some cs) from hl]
  rfl

end Own
end Multi
