/-
  MultiProofs.SerInj — the elements of a view reachable from an array (C01's operation set, no broadcasting) are
  pairwise distinct storage locations: the canonical address list has no duplicates.  From `Multi.reachable_injective`.
-/
import MultiProofs.SerWalk
import MultiProofs.Inj

namespace Multi

theorem boxIndices_inBox : ∀ (es : List Ext) (idx : List Int), idx ∈ boxIndices es → InBox es idx
  | [], idx, h => by simp [boxIndices] at h; subst h; trivial
  | e :: es, idx, h => by
    simp only [boxIndices, List.mem_flatMap, List.mem_range, List.mem_map] at h
    obtain ⟨k, hk, r, hr, rfl⟩ := h
    refine ⟨⟨by simp only [Int.ofNat_eq_natCast]; omega, ?_⟩, boxIndices_inBox es r hr⟩
    have : (k : Int) < e.size := by omega
    simp only [Ext.size, Int.ofNat_eq_natCast] at this ⊢; omega

theorem nodup_map_on {β γ : Type} {f : β → γ} : ∀ {l : List β}, l.Nodup → (∀ a ∈ l, ∀ b ∈ l, f a = f b → a = b) → (l.map f).Nodup
  | [], _, _ => by simp
  | x :: l, hn, hinj => by
    obtain ⟨h1, h2⟩ := List.nodup_cons.mp hn
    simp only [List.map_cons, List.nodup_cons, List.mem_map, not_exists, not_and]
    refine ⟨?_, nodup_map_on h2 (fun a ha b hb => hinj a (List.mem_cons_of_mem _ ha) b (List.mem_cons_of_mem _ hb))⟩
    intro y hy hxy
    have := hinj y (List.mem_cons_of_mem _ hy) x List.mem_cons_self hxy
    exact h1 (this ▸ hy)

theorem boxIndices_nodup : ∀ (es : List Ext), (boxIndices es).Nodup
  | [] => by simp [boxIndices]
  | e :: es => by
    have ih := boxIndices_nodup es
    simp only [boxIndices, List.Nodup, List.pairwise_flatMap]
    refine ⟨fun k _ => ?_, ?_⟩
    · exact nodup_map_on ih (fun a _ b _ h => by simpa using h)
    · have hr : (List.range e.size.toNat).Nodup := List.nodup_range
      refine List.Pairwise.imp ?_ hr
      intro k1 k2 hne x hx y hy hxy
      simp only [List.mem_map] at hx hy
      obtain ⟨_, _, rfl⟩ := hx
      obtain ⟨_, _, rfl⟩ := hy
      simp only [List.cons.injEq, Int.ofNat_eq_natCast] at hxy
      exact hne (by omega)

/-- the elements of a reachable view are pairwise distinct locations -/
theorem reachable_canonAddrs_nodup (base : Int) (es : List Ext) (hes : ∀ e ∈ es, e.first ≤ e.last)
    (v : View) (den : Den) (h : Reach ⟨base, Layout.ofExts es⟩ v den) : (canonAddrs v).Nodup := by
  obtain ⟨rwf, _, _, _⟩ := C01.root_denotes es hes
  have r := C01.reachable_denotes ⟨base, Layout.ofExts es⟩ v den rwf h
  unfold canonAddrs
  apply nodup_map_on (boxIndices_nodup _)
  intro a ha b hb hab
  have ha' := boxIndices_inBox _ a ha
  have hb' := boxIndices_inBox _ b hb
  rw [r.2.1] at ha' hb'
  exact reachable_injective base es hes v den h a b ha' hb' hab

/-- and a reachable view is well-formed -/
theorem reachable_wf (base : Int) (es : List Ext) (hes : ∀ e ∈ es, e.first ≤ e.last)
    (v : View) (den : Den) (h : Reach ⟨base, Layout.ofExts es⟩ v den) : v.lay.WF :=
  (C01.reachable_denotes ⟨base, Layout.ofExts es⟩ v den (C01.root_denotes es hes).1 h).1

end Multi
