/-
  MultiProofs.C13 — property C13: the BLAS adaptor gives the mathematical result for every accepted view combination.

  The dispatch chains are the REGENERATED definitions of MultiModel.Gen.BlasDispatch (tools/gen_blas_dispatch.py, from the
  current /repo); the semantics of a call is the reference BLAS of MultiModel.Blas.  Structure, per chain:

    * `<chain>_branch_<n>_ok`   one lemma per generated leaf that is correct: under the view invariants (`GemmShapes`, …), the
                                leaf's guard and the stated domain `Dom`, the call of the leaf satisfies the certificate
                                (`GemmOK`, …), hence is legal and computes the mathematical result, changing only the output;
    * `finding_<chain>_branch_<n>`  for every leaf that is wrong (or wrong outside its domain): a concrete operand tuple inside
                                the view invariants on which the leaf's call is illegal or its post-state is not the product;
    * `<op>_correct_partial`    the assembly by case analysis (`<chain>.elim`, generated): whenever the chain issues a call
                                from a leaf inside its certified domain, the post-state is the specification.  The FULL
                                statement (no domain restriction) is FALSE for the current code — see the findings.
-/
import MultiModel.Blas
import MultiModel.BlasFront
import MultiModel.Gen.BlasDispatch
import MultiProofs.BlasLemmas
import MultiProofs.BlasShapes
import MultiProofs.BlasGemm
import MultiProofs.BlasGemv
import MultiProofs.BlasLevel1
import MultiProofs.BlasSyrk
import MultiProofs.BlasHerk
import MultiProofs.BlasTrsm

namespace Multi.C13
open Multi.Blas Multi.Blas.Gen

variable {R : Type} [CRing R]

/-- discharges "the call of this leaf satisfies the certificate": unfolds the certificate to linear integer arithmetic -/
macro "gemm_branch" : tactic => `(tactic| (
  refine ⟨_, rfl, ?_⟩
  unfold GemmOK
  rw [illegal_none_iff]
  simp only [GemmCall.Legal, OutIs, OpIs, Mat.lm, Mat.lmT, isTrans, Mat.Lin, Mat.RowOK, Mat.ColOK] at *
  simp (config := {decide := true}) only [true_and, and_true, true_or, or_true, if_true, if_false, false_and, and_false, false_or, or_false, *] at *
  omega))

macro "wf_dec" : tactic => `(tactic| exact ⟨by decide, by decide, by decide, by decide, by decide⟩)
macro "shapes_dec" : tactic => `(tactic| exact ⟨by wf_dec, by wf_dec, by wf_dec, by decide, by decide, by decide⟩)

/-- memory used by the concrete counterexamples: distinct small values -/
def wmem : Mem Int := fun a => a * a + 1
/-- the same over the Gaussian integers -/
def zmem : Mem GInt := fun a => ⟨a * a + 1, 2 * a + 3⟩

/-! ## gemm_n, overload for non-conjugated A and B (gemm.hpp:45-86) -/
section nn
variable (alpha beta : R) (a b c : Mat)

/-- hypotheses common to the leaves: the view invariants (in linear form), fitting sizes, no conjugation -/
structure NNHyp (a b c : Mat) : Prop where
  la : a.Lin
  lb : b.Lin
  lc : c.Lin
  hm : a.n0 = c.n0
  hk : a.n1 = b.n0
  hn : b.n1 = c.n1
  ha : a.cj = false
  hb : b.cj = false
  hc : c.cj = false

theorem NNHyp.of {a b c : Mat} (hs : GemmShapes a b c) (ha : a.cj = false) (hb : b.cj = false) (hc : c.cj = false) : NNHyp a b c :=
  ⟨hs.wa.lin, hs.wb.lin, hs.wc.lin, hs.m, hs.k, hs.n, ha, hb, hc⟩

/-- gemm.hpp:80 — A, B, C column-major: C = A·B directly -/
theorem gemm_nn_branch_2_ok (H : NNHyp a b c) (h : gemm_n_nn.guard_2 a b c) (d : a.ColOK ∧ b.ColOK ∧ c.ColOK) :
    ∃ g, gemm_n_nn.call_2 alpha beta a b c = .gemm g ∧ GemmOK g alpha beta a b c := by
  obtain ⟨la, lb, lc, hm, hk, hn, ha, hb, hc⟩ := H; unfold gemm_n_nn.guard_2 at h; gemm_branch

/-- gemm.hpp:79 — column-major, B a single column -/
theorem gemm_nn_branch_3_ok (H : NNHyp a b c) (h : gemm_n_nn.guard_3 a b c) (d : a.ColOK ∧ b.ColOK) :
    ∃ g, gemm_n_nn.call_3 alpha beta a b c = .gemm g ∧ GemmOK g alpha beta a b c := by
  obtain ⟨la, lb, lc, hm, hk, hn, ha, hb, hc⟩ := H; unfold gemm_n_nn.guard_3 at h; gemm_branch

/-- gemm.hpp:82 — A, B column-major, C row-major: Cᵀ = Bᵀ·Aᵀ with both operands transposed -/
theorem gemm_nn_branch_4_ok (H : NNHyp a b c) (h : gemm_n_nn.guard_4 a b c) (d : a.ColOK ∧ b.ColOK ∧ c.RowOK) :
    ∃ g, gemm_n_nn.call_4 alpha beta a b c = .gemm g ∧ GemmOK g alpha beta a b c := by
  obtain ⟨la, lb, lc, hm, hk, hn, ha, hb, hc⟩ := H; unfold gemm_n_nn.guard_4 at h; gemm_branch

/-- gemm.hpp:68 — A column-major, B row-major, C column-major -/
theorem gemm_nn_branch_5_ok (H : NNHyp a b c) (h : gemm_n_nn.guard_5 a b c) (d : a.ColOK ∧ b.RowOK ∧ c.ColOK) :
    ∃ g, gemm_n_nn.call_5 alpha beta a b c = .gemm g ∧ GemmOK g alpha beta a b c := by
  obtain ⟨la, lb, lc, hm, hk, hn, ha, hb, hc⟩ := H; unfold gemm_n_nn.guard_5 at h; gemm_branch

/-- gemm.hpp:65 — A column-major, B and C row-major -/
theorem gemm_nn_branch_7_ok (H : NNHyp a b c) (h : gemm_n_nn.guard_7 a b c) (d : a.ColOK ∧ b.RowOK ∧ c.RowOK) :
    ∃ g, gemm_n_nn.call_7 alpha beta a b c = .gemm g ∧ GemmOK g alpha beta a b c := by
  obtain ⟨la, lb, lc, hm, hk, hn, ha, hb, hc⟩ := H; unfold gemm_n_nn.guard_7 at h; gemm_branch

/-- gemm.hpp:64 — the `a_count==1` variant of the previous leaf passes ldc = a_count = 1: legal only for a single column of C
    (for more columns core::gemm throws "failed 'ldc >= max(1, m)'" in every build: rejected, not miscomputed) -/
theorem gemm_nn_branch_8_ok (H : NNHyp a b c) (h : gemm_n_nn.guard_8 a b c) (d : a.ColOK ∧ b.RowOK ∧ c.n1 ≤ 1) :
    ∃ g, gemm_n_nn.call_8 alpha beta a b c = .gemm g ∧ GemmOK g alpha beta a b c := by
  obtain ⟨la, lb, lc, hm, hk, hn, ha, hb, hc⟩ := H; unfold gemm_n_nn.guard_8 at h; gemm_branch

/-- gemm.hpp:70 — 1×k times k×1: correct; with k = 0 the leading dimension `(*a_first).size()` = 0 is illegal for the
    reference BLAS (OpenBLAS accepts it) -/
theorem gemm_nn_branch_10_ok (H : NNHyp a b c) (h : gemm_n_nn.guard_10 a b c) (d : 1 ≤ a.n1) :
    ∃ g, gemm_n_nn.call_10 alpha beta a b c = .gemm g ∧ GemmOK g alpha beta a b c := by
  obtain ⟨la, lb, lc, hm, hk, hn, ha, hb, hc⟩ := H; unfold gemm_n_nn.guard_10 at h; gemm_branch

/-- gemm.hpp:77 — A row-major, B column-major, C row-major -/
theorem gemm_nn_branch_13_ok (H : NNHyp a b c) (h : gemm_n_nn.guard_13 a b c) (d : a.RowOK ∧ b.ColOK ∧ c.RowOK) :
    ∃ g, gemm_n_nn.call_13 alpha beta a b c = .gemm g ∧ GemmOK g alpha beta a b c := by
  obtain ⟨la, lb, lc, hm, hk, hn, ha, hb, hc⟩ := H; unfold gemm_n_nn.guard_13 at h; gemm_branch

/-- gemm.hpp:62 — A, B row-major, C column-major -/
theorem gemm_nn_branch_15_ok (H : NNHyp a b c) (h : gemm_n_nn.guard_15 a b c) (d : a.RowOK ∧ b.RowOK ∧ c.ColOK) :
    ∃ g, gemm_n_nn.call_15 alpha beta a b c = .gemm g ∧ GemmOK g alpha beta a b c := by
  obtain ⟨la, lb, lc, hm, hk, hn, ha, hb, hc⟩ := H; unfold gemm_n_nn.guard_15 at h; gemm_branch

/-- gemm.hpp:59 — the main leaf: A, B, C row-major, Cᵀ = Bᵀ·Aᵀ -/
theorem gemm_nn_branch_17_ok (H : NNHyp a b c) (h : gemm_n_nn.guard_17 a b c) (d : a.RowOK ∧ b.RowOK ∧ c.RowOK) :
    ∃ g, gemm_n_nn.call_17 alpha beta a b c = .gemm g ∧ GemmOK g alpha beta a b c := by
  obtain ⟨la, lb, lc, hm, hk, hn, ha, hb, hc⟩ := H; unfold gemm_n_nn.guard_17 at h; gemm_branch

/-- gemm.hpp:57 — 1×k times k×1, everything row-major: passes `(*b_first).size()` = 1 as the leading dimension of B:
    right only when B is contiguous (stride 1) or k ≤ 1 -/
theorem gemm_nn_branch_18_ok (H : NNHyp a b c) (h : gemm_n_nn.guard_18 a b c) (d : (b.s0 = 1 ∨ a.n1 ≤ 1) ∧ 1 ≤ a.n1) :
    ∃ g, gemm_n_nn.call_18 alpha beta a b c = .gemm g ∧ GemmOK g alpha beta a b c := by
  obtain ⟨la, lb, lc, hm, hk, hn, ha, hb, hc⟩ := H; unfold gemm_n_nn.guard_18 at h; gemm_branch

/-- gemm.hpp:58 — 1×k times k×n, row-major -/
theorem gemm_nn_branch_19_ok (H : NNHyp a b c) (h : gemm_n_nn.guard_19 a b c) (d : b.RowOK ∧ 1 ≤ a.n1 ∧ 1 ≤ b.n1) :
    ∃ g, gemm_n_nn.call_19 alpha beta a b c = .gemm g ∧ GemmOK g alpha beta a b c := by
  obtain ⟨la, lb, lc, hm, hk, hn, ha, hb, hc⟩ := H; unfold gemm_n_nn.guard_19 at h; gemm_branch

/-- the domain in which each leaf of `gemm_n_nn` is certified (False: the leaf is wrong, see `finding_gemm_nn_branch_*`) -/
def gemmNNDom (t : Nat) (a b c : Mat) : Prop :=
  match t with
  | 2 => a.ColOK ∧ b.ColOK ∧ c.ColOK
  | 3 => a.ColOK ∧ b.ColOK
  | 4 => a.ColOK ∧ b.ColOK ∧ c.RowOK
  | 5 => a.ColOK ∧ b.RowOK ∧ c.ColOK
  | 7 => a.ColOK ∧ b.RowOK ∧ c.RowOK
  | 8 => a.ColOK ∧ b.RowOK ∧ c.n1 ≤ 1
  | 10 => 1 ≤ a.n1
  | 13 => a.RowOK ∧ b.ColOK ∧ c.RowOK
  | 15 => a.RowOK ∧ b.RowOK ∧ c.ColOK
  | 17 => a.RowOK ∧ b.RowOK ∧ c.RowOK
  | 18 => (b.s0 = 1 ∨ a.n1 ≤ 1) ∧ 1 ≤ a.n1
  | 19 => b.RowOK ∧ 1 ≤ a.n1 ∧ 1 ≤ b.n1
  | _ => False

end nn

/-- assembly for the non-conjugated overload: every call issued from a leaf inside its certified domain satisfies the certificate -/
theorem gemm_nn_certified {nd : Bool} {alpha beta : R} {a b c : Mat} {t : Nat} {cl : Call R}
    (H : NNHyp a b c) (h : gemm_n_nn nd alpha beta a b c = .call t cl) (hd : gemmNNDom t a b c) :
    ∃ g, cl = .gemm g ∧ GemmOK g alpha beta a b c := by
  revert hd
  refine gemm_n_nn.elim h (fun t cl => gemmNNDom t a b c → ∃ g, cl = .gemm g ∧ GemmOK g alpha beta a b c)
    ?_ ?_ ?_ ?_ ?_ ?_ ?_ ?_ ?_ ?_ ?_ ?_ ?_ ?_ ?_ ?_ ?_ ?_
  · exact fun g d => gemm_nn_branch_2_ok alpha beta a b c H g d
  · exact fun g d => gemm_nn_branch_3_ok alpha beta a b c H g d
  · exact fun g d => gemm_nn_branch_4_ok alpha beta a b c H g d
  · exact fun g d => gemm_nn_branch_5_ok alpha beta a b c H g d
  · exact fun _ d => d.elim
  · exact fun g d => gemm_nn_branch_7_ok alpha beta a b c H g d
  · exact fun g d => gemm_nn_branch_8_ok alpha beta a b c H g d
  · exact fun _ d => d.elim
  · exact fun g d => gemm_nn_branch_10_ok alpha beta a b c H g d
  · exact fun _ d => d.elim
  · exact fun _ d => d.elim
  · exact fun g d => gemm_nn_branch_13_ok alpha beta a b c H g d
  · exact fun _ d => d.elim
  · exact fun g d => gemm_nn_branch_15_ok alpha beta a b c H g d
  · exact fun _ d => d.elim
  · exact fun g d => gemm_nn_branch_17_ok alpha beta a b c H g d
  · exact fun g d => gemm_nn_branch_18_ok alpha beta a b c H g d
  · exact fun g d => gemm_nn_branch_19_ok alpha beta a b c H g d

/-! ## gemm_n, overloads with a conjugated operand (gemm.hpp:88-148) -/
section conj
variable (alpha beta : R) (a b c : Mat)

/-- hypotheses for an overload: invariants, fitting sizes, the conjugation pattern the overload is selected for -/
structure CHyp (ca cb : Bool) (a b c : Mat) : Prop where
  la : a.Lin
  lb : b.Lin
  lc : c.Lin
  hm : a.n0 = c.n0
  hk : a.n1 = b.n0
  hn : b.n1 = c.n1
  ha : a.cj = ca
  hb : b.cj = cb
  hc : c.cj = false

/-- gemm.hpp:103 — A·conj(B) with A row-major, B column-major, C row-major: Cᵀ = Bᴴ·Aᵀ -/
theorem gemm_nc_branch_5_ok (H : CHyp false true a b c) (h : gemm_n_nc.guard_5 a b c) (d : a.RowOK ∧ b.ColOK ∧ c.RowOK) :
    ∃ g, gemm_n_nc.call_5 alpha beta a b c = .gemm g ∧ GemmOK g alpha beta a b c := by
  obtain ⟨la, lb, lc, hm, hk, hn, ha, hb, hc⟩ := H; unfold gemm_n_nc.guard_5 at h; gemm_branch

/-- gemm.hpp:128 — conj(A)·B with A column-major, B and C row-major: Cᵀ = Bᵀ·Aᴴ -/
theorem gemm_cn_branch_2_ok (H : CHyp true false a b c) (h : gemm_n_cn.guard_2 a b c) (d : a.ColOK ∧ b.RowOK ∧ c.RowOK) :
    ∃ g, gemm_n_cn.call_2 alpha beta a b c = .gemm g ∧ GemmOK g alpha beta a b c := by
  obtain ⟨la, lb, lc, hm, hk, hn, ha, hb, hc⟩ := H; unfold gemm_n_cn.guard_2 at h; gemm_branch

/-- gemm.hpp:127 — the `a_count==1` variant passes ldc = `(*a_first).size()` = k: legal only when n ≤ k
    (otherwise core::gemm throws "failed 'ldc >= max(1, m)'": rejected) -/
theorem gemm_cn_branch_3_ok (H : CHyp true false a b c) (h : gemm_n_cn.guard_3 a b c) (d : a.ColOK ∧ b.RowOK ∧ c.n1 ≤ a.n1 ∧ 1 ≤ a.n1) :
    ∃ g, gemm_n_cn.call_3 alpha beta a b c = .gemm g ∧ GemmOK g alpha beta a b c := by
  obtain ⟨la, lb, lc, hm, hk, hn, ha, hb, hc⟩ := H; unfold gemm_n_cn.guard_3 at h; gemm_branch

def gemmNCDom (t : Nat) (a b c : Mat) : Prop :=
  match t with
  | 5 => a.RowOK ∧ b.ColOK ∧ c.RowOK
  | _ => False     -- 2, 3, 4, 6, 7: wrong (finding_gemm_nc_branch_*)

def gemmCNDom (t : Nat) (a b c : Mat) : Prop :=
  match t with
  | 2 => a.ColOK ∧ b.RowOK ∧ c.RowOK
  | 3 => a.ColOK ∧ b.RowOK ∧ c.n1 ≤ a.n1 ∧ 1 ≤ a.n1
  | _ => False

/-- the only leaf of the (conj A, conj B) overload is wrong (finding_gemm_cc_branch_2) -/
def gemmCCDom (_t : Nat) (_a _b _c : Mat) : Prop := False

end conj

theorem gemm_nc_certified {nd : Bool} {alpha beta : R} {a b c : Mat} {t : Nat} {cl : Call R}
    (H : CHyp false true a b c) (h : gemm_n_nc nd alpha beta a b c = .call t cl) (hd : gemmNCDom t a b c) :
    ∃ g, cl = .gemm g ∧ GemmOK g alpha beta a b c := by
  revert hd
  refine gemm_n_nc.elim h (fun t cl => gemmNCDom t a b c → ∃ g, cl = .gemm g ∧ GemmOK g alpha beta a b c) ?_ ?_ ?_ ?_ ?_ ?_
  · exact fun _ d => d.elim
  · exact fun _ d => d.elim
  · exact fun _ d => d.elim
  · exact fun g d => gemm_nc_branch_5_ok alpha beta a b c H g d
  · exact fun _ d => d.elim
  · exact fun _ d => d.elim

theorem gemm_cn_certified {nd : Bool} {alpha beta : R} {a b c : Mat} {t : Nat} {cl : Call R}
    (H : CHyp true false a b c) (h : gemm_n_cn nd alpha beta a b c = .call t cl) (hd : gemmCNDom t a b c) :
    ∃ g, cl = .gemm g ∧ GemmOK g alpha beta a b c := by
  revert hd
  refine gemm_n_cn.elim h (fun t cl => gemmCNDom t a b c → ∃ g, cl = .gemm g ∧ GemmOK g alpha beta a b c) ?_ ?_
  · exact fun g d => gemm_cn_branch_2_ok alpha beta a b c H g d
  · exact fun g d => gemm_cn_branch_3_ok alpha beta a b c H g d

/-- the certified domain of `gemm_n` as a whole (overload selected by the conjugation of A and B) -/
def gemmDom (t : Nat) (a b c : Mat) : Prop :=
  match a.cj, b.cj with
  | false, false => gemmNNDom t a b c
  | false, true => gemmNCDom t a b c
  | true, false => gemmCNDom t a b c
  | true, true => gemmCCDom t a b c

/-- **gemm_n: certified leaves.**  For operands within the view invariants, whenever `gemm_n` issues a call from a leaf
    inside its certified domain, the call satisfies the certificate `GemmOK`. -/
theorem gemm_n_certified {nd : Bool} {alpha beta : R} {a b c : Mat} {t : Nat} {cl : Call R}
    (hs : GemmShapes a b c) (hc : c.cj = false) (h : gemm_n nd alpha beta a b c = .call t cl) (hd : gemmDom t a b c) :
    ∃ g, cl = .gemm g ∧ GemmOK g alpha beta a b c := by
  unfold gemm_n at h
  unfold gemmDom at hd
  cases ha : a.cj <;> cases hb : b.cj <;> simp only [ha, hb] at h hd
  · exact gemm_nn_certified (NNHyp.of hs ha hb hc) h hd
  · exact gemm_nc_certified ⟨hs.wa.lin, hs.wb.lin, hs.wc.lin, hs.m, hs.k, hs.n, ha, hb, hc⟩ h hd
  · exact gemm_cn_certified ⟨hs.wa.lin, hs.wb.lin, hs.wc.lin, hs.m, hs.k, hs.n, ha, hb, hc⟩ h hd
  · exact hd.elim

/-- **dispatch_legal (partial)** and **gemm_correct (partial)** for `gemm_n`: inside the certified domain the call is
    legal for the reference BLAS, its post-state is C := alpha·A·B + beta·C on the logical contents, and no address outside
    the image of C changes (in particular A and B, which do not overlap C, are unchanged).

    FULL statement (FALSE for the current code, see `finding_gemm_*`): the same without `hd`. -/
theorem gemm_n_correct_partial {nd : Bool} {alpha beta : R} {a b c : Mat} {t : Nat} {cl : Call R}
    (hs : GemmShapes a b c) (hc : c.cj = false) (h : gemm_n nd alpha beta a b c = .call t cl) (hd : gemmDom t a b c) :
    ∃ g, cl = .gemm g ∧ g.Legal ∧ ∀ mem : Mem R, GemmSpec alpha beta a b c mem (g.exec mem) := by
  obtain ⟨g, hg, hok⟩ := gemm_n_certified hs hc h hd
  exact ⟨g, hg, (illegal_none_iff g).mp hok.1, fun mem => gemmOK_sound hc hok mem⟩

/-! ## The gemm front ends (gemm.hpp:157-175, 228-243, 295-303) -/

theorem load_conj (m : Mat) (mem : Mem R) (i j : Int) : m.conj.load mem i j = CRing.conj (m.load mem i j) := by
  unfold Mat.load Mat.conj cjIf
  cases h : m.cj <;> simp [CRing.conj_conj]

theorem wf_conj {m : Mat} (h : m.WF) : m.conj.WF := ⟨h.n0, h.n1, h.s0, h.s1, h.fam⟩

theorem shapes_conj {a b c : Mat} (h : GemmShapes a b c) : GemmShapes a.conj b.conj c.conj :=
  ⟨wf_conj h.wa, wf_conj h.wb, wf_conj h.wc, h.m, h.k, h.n⟩

/-- conj(C) := conj(alpha)·conj(A)·conj(B) + conj(beta)·conj(C)  is  C := alpha·A·B + beta·C -/
theorem gemmSpec_of_conj {alpha beta : R} {a b c : Mat} {mem mem' : Mem R}
    (h : GemmSpec (CRing.conj alpha) (CRing.conj beta) a.conj b.conj c.conj mem mem') : GemmSpec alpha beta a b c mem mem' := by
  constructor
  · intro i j hi0 hi hj0 hj
    have e := h.elems i j hi0 hi hj0 hj
    have e2 := congrArg CRing.conj e
    rw [load_conj, CRing.conj_conj, CRing.conj_add, CRing.conj_mul, CRing.conj_mul, CRing.conj_conj, CRing.conj_conj, load_conj, CRing.conj_conj, conj_sumZ] at e2
    rw [e2]
    congr 1
    congr 1
    apply sumZ_congr
    intro l _ _
    rw [CRing.conj_mul, load_conj, load_conj, CRing.conj_conj, CRing.conj_conj]
  · intro addr hno
    exact h.frame addr hno

/-- the certified domain of `blas::gemm(alpha, a, b, beta, c)`: for a conjugated C the chain runs on the conjugated operands -/
def gemmFrontDom (t : Nat) (a b c : Mat) : Prop :=
  if c.cj then gemmDom t a.conj b.conj c.conj else gemmDom t a b c

/-- **gemm_correct (partial)** — `blas::gemm(alpha, a, b, beta, c)`, any conjugation pattern of A, B and C: a call issued
    from a certified leaf is legal, the post-state is C := alpha·A·B + beta·C on the LOGICAL contents (conjugations applied),
    and only the image of C is modified.

    FULL statement (false for the current code: `finding_gemm_*`): the same for every leaf, i.e. without `hd`. -/
theorem gemm_correct_partial {nd : Bool} {alpha beta : R} {a b c : Mat} {t : Nat} {cl : Call R}
    (hs : GemmShapes a b c) (h : Front.gemm nd alpha beta a b c = .call t cl) (hd : gemmFrontDom t a b c) :
    ∃ g, cl = .gemm g ∧ g.Legal ∧ ∀ mem : Mem R, GemmSpec alpha beta a b c mem (g.exec mem) := by
  unfold Front.gemm at h
  by_cases c1 : ¬ nd = true ∧ ¬ (a.n0 = c.n0)
  · rw [if_pos c1] at h; cases h
  rw [if_neg c1] at h
  by_cases c2 : ¬ nd = true ∧ ¬ (a.n0 = 0) ∧ ¬ (a.n1 = b.n0)
  · rw [if_pos c2] at h; cases h
  rw [if_neg c2] at h
  unfold gemmFrontDom at hd
  cases hc : c.cj
  · simp only [hc, Bool.false_eq_true, if_false] at h hd
    exact gemm_n_correct_partial hs hc h hd
  · simp only [hc, if_true] at h hd
    unfold Front.gemmPlain at h
    by_cases c3 : ¬ nd = true ∧ ¬ (a.conj.n0 = c.conj.n0)
    · rw [if_pos c3] at h; cases h
    rw [if_neg c3] at h
    by_cases c4 : ¬ nd = true ∧ ¬ (a.conj.n0 = 0) ∧ ¬ (a.conj.n1 = b.conj.n0)
    · rw [if_pos c4] at h; cases h
    rw [if_neg c4] at h
    have hc' : c.conj.cj = false := by simp [Mat.conj, hc]
    obtain ⟨g, hg, hl, hsp⟩ := gemm_n_correct_partial (shapes_conj hs) hc' h hd
    exact ⟨g, hg, hl, fun mem => gemmSpec_of_conj (hsp mem)⟩

/-- `c = blas::gemm(alpha, a, b)` (also `c = a * b`): C := alpha·A·B + 0·C from a certified leaf -/
theorem gemm_assign_correct_partial {nd : Bool} {alpha : R} {a b c : Mat} {t : Nat} {cl : Call R}
    (hs : GemmShapes a b c) (hc : c.cj = false) (h : Front.gemmAssign nd alpha a b c = .call t cl) (hd : gemmDom t a b c) :
    ∃ g, cl = .gemm g ∧ g.Legal ∧ ∀ mem : Mem R, GemmSpec alpha 0 a b c mem (g.exec mem) := by
  unfold Front.gemmAssign at h
  by_cases c1 : ¬ nd = true ∧ ¬ (c.n0 = a.n0)
  · rw [if_pos c1] at h; cases h
  rw [if_neg c1] at h
  exact gemm_n_correct_partial hs hc h hd

/-- `c += blas::gemm(alpha, a, b)` (also `c += a * b`): C := alpha·A·B + 1·C from a certified leaf -/
theorem gemm_pluseq_correct_partial {nd : Bool} {alpha : R} {a b c : Mat} {t : Nat} {cl : Call R}
    (hs : GemmShapes a b c) (hc : c.cj = false) (h : Front.gemmPlusEq nd alpha a b c = .call t cl) (hd : gemmDom t a b c) :
    ∃ g, cl = .gemm g ∧ g.Legal ∧ ∀ mem : Mem R, GemmSpec alpha 1 a b c mem (g.exec mem) :=
  gemm_n_correct_partial hs hc h hd

/-! ## gemv (gemv.hpp:21-72, 96-166) -/
section gemv
variable [DecidableEq R]

macro "gemv_branch" : tactic => `(tactic| (
  refine ⟨_, rfl, ?_⟩
  unfold GemvOK
  rw [gemv_illegal_none_iff]
  simp only [GemvCall.Legal, OpIs, Mat.lm, isTrans, Mat.Lin, Mat.RowOK, Mat.ColOK] at *
  simp (config := {decide := true}) only [true_and, and_true, true_or, or_true, if_true, if_false, false_and, and_false, false_or, or_false, ne_eq, not_true_eq_false, not_false_eq_true, Decidable.not_not, *] at *
  omega))

/-- view invariants and fitting sizes for y := alpha·M·x + beta·y (x and y are plain vectors: conjugated ones do not compile) -/
structure GemvHyp (m : Mat) (x y : Vec) : Prop where
  lm : m.Lin
  xn : 0 ≤ x.n
  xi : 1 ≤ x.inc
  yn : 0 ≤ y.n
  yi : 1 ≤ y.inc
  hm : m.n0 = y.n
  hk : m.n1 = x.n
  hx : x.cj = false
  hy : y.cj = false

omit [DecidableEq R] in
/-- gemv.hpp:28 — M column-major: 'N' -/
theorem gemv_branch_4_ok (alpha beta : R) (m : Mat) (x y : Vec) (H : GemvHyp m x y) (h : gemv_n.guard_4 m x y) (d : m.ColOK ∧ 1 ≤ m.n1) :
    ∃ g, gemv_n.call_4 alpha beta m x y = .gemv g ∧ GemvOK g alpha beta m x y := by
  obtain ⟨lm, xn, xi, yn, yi, hm, hk, hx, hy⟩ := H; unfold gemv_n.guard_4 at h; gemv_branch

omit [DecidableEq R] in
/-- gemv.hpp:29 — M row-major: 'T' on the transposed storage -/
theorem gemv_branch_5_ok (alpha beta : R) (m : Mat) (x y : Vec) (H : GemvHyp m x y) (h : gemv_n.guard_5 m x y) (d : m.RowOK ∧ 1 ≤ m.n1) :
    ∃ g, gemv_n.call_5 alpha beta m x y = .gemv g ∧ GemvOK g alpha beta m x y := by
  obtain ⟨lm, xn, xi, yn, yi, hm, hk, hx, hy⟩ := H; unfold gemv_n.guard_5 at h; gemv_branch

omit [DecidableEq R] in
/-- gemv.hpp:32 — conj(M), M row-major: 'C' -/
theorem gemv_branch_2_ok (alpha beta : R) (m : Mat) (x y : Vec) (H : GemvHyp m x y) (h : gemv_n.guard_2 m x y) (d : m.RowOK ∧ 1 ≤ m.n1) :
    ∃ g, gemv_n.call_2 alpha beta m x y = .gemv g ∧ GemvOK g alpha beta m x y := by
  obtain ⟨lm, xn, xi, yn, yi, hm, hk, hx, hy⟩ := H
  unfold gemv_n.guard_2 at h
  have hcj : m.cj = true := by cases hh : m.cj <;> simp_all
  gemv_branch

/-- certified domain of the leaves of `gemv_n`: the matrix is usable in the orientation the leaf assumes, and the inner
    dimension is not empty (xGEMV returns before scaling y when n = 0: `finding_gemv_branch_*_inner0`) -/
def gemvDom (t : Nat) (m : Mat) : Prop :=
  match t with
  | 2 => m.RowOK ∧ 1 ≤ m.n1
  | 4 => m.ColOK ∧ 1 ≤ m.n1
  | 5 => m.RowOK ∧ 1 ≤ m.n1
  | _ => False

omit [DecidableEq R] in
theorem gemv_n_certified {nd : Bool} {alpha beta : R} {m : Mat} {x y : Vec} {t : Nat} {cl : Call R}
    (H : GemvHyp m x y) (h : gemv_n nd alpha beta m x y = .call t cl) (hd : gemvDom t m) :
    ∃ g, cl = .gemv g ∧ GemvOK g alpha beta m x y := by
  revert hd
  refine gemv_n.elim h (fun t cl => gemvDom t m → ∃ g, cl = .gemv g ∧ GemvOK g alpha beta m x y) ?_ ?_ ?_
  · exact fun g d => gemv_branch_2_ok alpha beta m x y H g d
  · exact fun g d => gemv_branch_4_ok alpha beta m x y H g d
  · exact fun g d => gemv_branch_5_ok alpha beta m x y H g d

/-- **gemv_correct (partial)** for `gemv_n`: from a certified leaf the call is legal and y := alpha·M·x + beta·y on the logical
    contents, nothing but the image of y changes.  FULL statement (false: `finding_gemv_*`): without `hd`. -/
theorem gemv_n_correct_partial {nd : Bool} {alpha beta : R} {m : Mat} {x y : Vec} {t : Nat} {cl : Call R}
    (H : GemvHyp m x y) (h : gemv_n nd alpha beta m x y = .call t cl) (hd : gemvDom t m) :
    ∃ g, cl = .gemv g ∧ g.Legal ∧ ∀ mem : Mem R, GemvSpec alpha beta m x y mem (g.exec mem) := by
  obtain ⟨g, hg, hok⟩ := gemv_n_certified H h hd
  exact ⟨g, hg, (gemv_illegal_none_iff g).mp hok.1, fun mem => gemvOK_sound hok mem⟩

/-- `blas::gemv(alpha, M, x, beta, y)` -/
theorem gemv_correct_partial {nd : Bool} {alpha beta : R} {m : Mat} {x y : Vec} {t : Nat} {cl : Call R}
    (H : GemvHyp m x y) (h : Front.gemv nd alpha beta m x y = .call t cl) (hd : gemvDom t m) :
    ∃ g, cl = .gemv g ∧ g.Legal ∧ ∀ mem : Mem R, GemvSpec alpha beta m x y mem (g.exec mem) := by
  unfold Front.gemv at h
  by_cases c1 : ¬ nd = true ∧ ¬ (m.n0 = y.n)
  · rw [if_pos c1] at h; cases h
  rw [if_neg c1] at h
  by_cases c2 : ¬ nd = true ∧ ¬ (m.n1 = x.n)
  · rw [if_pos c2] at h; cases h
  rw [if_neg c2] at h
  exact gemv_n_correct_partial H h hd

/-- `y = blas::gemv(alpha, M, x)`: beta = 0 -/
theorem gemv_assign_correct_partial {nd : Bool} {alpha : R} {m : Mat} {x y : Vec} {t : Nat} {cl : Call R}
    (H : GemvHyp m x y) (h : Front.gemvAssign nd alpha m x y = .call t cl) (hd : gemvDom t m) :
    ∃ g, cl = .gemv g ∧ g.Legal ∧ ∀ mem : Mem R, GemvSpec alpha 0 m x y mem (g.exec mem) := by
  unfold Front.gemvAssign at h
  by_cases c1 : ¬ nd = true ∧ ¬ (m.n1 = x.n)
  · rw [if_pos c1] at h; cases h
  rw [if_neg c1] at h
  by_cases c2 : ¬ nd = true ∧ ¬ (y.n = m.n0)
  · rw [if_pos c2] at h; cases h
  rw [if_neg c2] at h
  exact gemv_n_correct_partial H h hd

/-- `y += blas::gemv(alpha, M, x)`: beta = 1 -/
theorem gemv_pluseq_correct_partial {nd : Bool} {alpha : R} {m : Mat} {x y : Vec} {t : Nat} {cl : Call R}
    (H : GemvHyp m x y) (h : Front.gemvPlusEq nd alpha m x y = .call t cl) (hd : gemvDom t m) :
    ∃ g, cl = .gemv g ∧ g.Legal ∧ ∀ mem : Mem R, GemvSpec alpha 1 m x y mem (g.exec mem) := by
  unfold Front.gemvPlusEq at h
  by_cases c1 : ¬ nd = true ∧ ¬ (m.n1 = x.n)
  · rw [if_pos c1] at h; cases h
  rw [if_neg c1] at h
  exact gemv_n_correct_partial H h hd

structure GemvCounterexample (guard : Mat → Vec → Vec → Prop) (call : GInt → GInt → Mat → Vec → Vec → Call GInt) (m : Mat) (x y : Vec) : Prop where
  wf : m.WF
  sizes : m.n0 = y.n ∧ m.n1 = x.n ∧ 1 ≤ x.inc ∧ 1 ≤ y.inc ∧ x.cj = false ∧ y.cj = false
  guard : guard m x y
  bad : ∃ g : GemvCall GInt, call 1 ⟨2, 1⟩ m x y = .gemv g ∧ (g.illegal ≠ none ∨ ¬ GemvSpec 1 ⟨2, 1⟩ m x y zmem (g.exec zmem))

/-- gemv.hpp:28 — a contiguous m×1 matrix (both strides 1, m > 1) is taken for column-major with lda = 1: XERBLA parameter 6 -/
theorem finding_gemv_branch_4 : GemvCounterexample gemv_n.guard_4 gemv_n.call_4 ⟨0, 1, 1, 3, 1, false⟩ ⟨100, 1, 1, false⟩ ⟨200, 1, 3, false⟩ :=
  ⟨by wf_dec, by decide, by decide, _, rfl, Or.inl (by decide)⟩

/-- gemv.hpp:28 — inner dimension 0: the legal call returns at once, y is not scaled by beta -/
theorem finding_gemv_branch_4_inner0 : GemvCounterexample gemv_n.guard_4 gemv_n.call_4 ⟨0, 1, 3, 2, 0, false⟩ ⟨100, 1, 0, false⟩ ⟨200, 1, 2, false⟩ :=
  ⟨by wf_dec, by decide, by decide, _, rfl, Or.inr (fun h => absurd (h.elems 0 (by decide) (by decide)) (by decide))⟩

/-- gemv.hpp:29 — inner dimension 0 -/
theorem finding_gemv_branch_5_inner0 : GemvCounterexample gemv_n.guard_5 gemv_n.call_5 ⟨0, 3, 1, 2, 0, false⟩ ⟨100, 1, 0, false⟩ ⟨200, 1, 2, false⟩ :=
  ⟨by wf_dec, by decide, by decide, _, rfl, Or.inr (fun h => absurd (h.elems 0 (by decide) (by decide)) (by decide))⟩

/-- gemv.hpp:32 — inner dimension 0, conjugated matrix -/
theorem finding_gemv_branch_2_inner0 : GemvCounterexample gemv_n.guard_2 gemv_n.call_2 ⟨0, 3, 1, 2, 0, true⟩ ⟨100, 1, 0, false⟩ ⟨200, 1, 2, false⟩ :=
  ⟨by wf_dec, by decide, by decide, _, rfl, Or.inr (fun h => absurd (h.elems 0 (by decide) (by decide)) (by decide))⟩

end gemv

/-! ## syrk (syrk.hpp:17-37; also reached by `herk` on real element types) -/
section syrk

macro "syrk_branch" s:ident c:ident : tactic => `(tactic| (
  refine ⟨_, rfl, ?_⟩
  unfold SyrkOK
  rw [syrk_illegal_none_iff]
  cases $s:ident <;> cases $c:ident <;>
  (simp only [RankKCall.LegalSyrk, OutIs, RkIs, Mat.lm, Mat.lmT, Mat.Lin, Mat.RowOK, Mat.ColOK, Filling.char, Filling.flip] at *
   simp (config := {decide := true}) only [true_and, and_true, true_or, or_true, if_true, if_false, false_and, and_false, false_or, or_false, ne_eq, not_true_eq_false, not_false_eq_true, *] at *
   omega)))

/-- view invariants for C := alpha·A·Aᵀ + beta·C: C square, as many rows as A, nothing conjugated -/
structure SyrkHyp (a c : Mat) : Prop where
  la : a.Lin
  lc : c.Lin
  hn : a.n0 = c.n0
  hsq : c.n1 = c.n0
  ha : a.cj = false
  hc : c.cj = false

variable (cplx : Bool) (side : Filling) (alpha beta : R) (a c : Mat)

/-- syrk.hpp:32 — A and C row-major.  The chain never checks that the inner strides are 1 (no assertion at all): the domain has to say it. -/
theorem syrk_branch_1_ok (H : SyrkHyp a c) (h : syrk.guard_1 side a c) (d : a.RowOK ∧ c.RowOK ∧ (a.s1 = 1 ∨ a.n1 ≤ 1) ∧ (c.s1 = 1 ∨ c.n0 ≤ 1)) :
    ∃ g, syrk.call_1 side alpha beta a c = .syrk g ∧ SyrkOK g cplx alpha beta side a c := by
  obtain ⟨la, lc, hn, hsq, ha, hc⟩ := H; unfold syrk.guard_1 at h; syrk_branch side cplx

/-- syrk.hpp:26 — A column-major, C row-major -/
theorem syrk_branch_2_ok (H : SyrkHyp a c) (h : syrk.guard_2 side a c) (d : a.ColOK ∧ c.RowOK ∧ (c.s1 = 1 ∨ c.n0 ≤ 1)) :
    ∃ g, syrk.call_2 side alpha beta a c = .syrk g ∧ SyrkOK g cplx alpha beta side a c := by
  obtain ⟨la, lc, hn, hsq, ha, hc⟩ := H; unfold syrk.guard_2 at h; syrk_branch side cplx

/-- syrk.hpp:30 — A row-major, C column-major -/
theorem syrk_branch_4_ok (H : SyrkHyp a c) (h : syrk.guard_4 side a c) (d : a.RowOK ∧ c.ColOK ∧ (a.s1 = 1 ∨ a.n1 ≤ 1)) :
    ∃ g, syrk.call_4 side alpha beta a c = .syrk g ∧ SyrkOK g cplx alpha beta side a c := by
  obtain ⟨la, lc, hn, hsq, ha, hc⟩ := H; unfold syrk.guard_4 at h; syrk_branch side cplx

/-- certified domain of the leaves of `syrk` (leaf 3 — A and C column-major — is wrong: `finding_syrk_branch_3`) -/
def syrkDom (t : Nat) (a c : Mat) : Prop :=
  match t with
  | 1 => a.RowOK ∧ c.RowOK ∧ (a.s1 = 1 ∨ a.n1 ≤ 1) ∧ (c.s1 = 1 ∨ c.n0 ≤ 1)
  | 2 => a.ColOK ∧ c.RowOK ∧ (c.s1 = 1 ∨ c.n0 ≤ 1)
  | 4 => a.RowOK ∧ c.ColOK ∧ (a.s1 = 1 ∨ a.n1 ≤ 1)
  | _ => False

end syrk

/-- **syrk_correct (partial)**: from a certified leaf the xSYRK call is legal and C := alpha·A·Aᵀ + beta·C on the `side` triangle
    of the logical matrix; nothing else (in particular the other triangle) changes.  FULL statement false: `finding_syrk_*`. -/
theorem syrk_correct_partial [DecidableEq R] {nd cplx : Bool} {side : Filling} {alpha beta : R} {a c : Mat} {t : Nat} {cl : Call R}
    (H : SyrkHyp a c) (h : Gen.syrk nd side alpha beta a c = .call t cl) (hd : syrkDom t a c) :
    ∃ g, cl = .syrk g ∧ g.LegalSyrk cplx ∧ ∀ mem : Mem R, SyrkSpec alpha beta side a c mem (g.execSyrk cplx mem) := by
  have key : ∃ g, cl = .syrk g ∧ SyrkOK g cplx alpha beta side a c := by
    revert hd
    refine syrk.elim h (fun t cl => syrkDom t a c → ∃ g, cl = .syrk g ∧ SyrkOK g cplx alpha beta side a c) ?_ ?_ ?_ ?_
    · exact fun g d => syrk_branch_1_ok cplx side alpha beta a c H g d
    · exact fun g d => syrk_branch_2_ok cplx side alpha beta a c H g d
    · exact fun _ d => d.elim
    · exact fun g d => syrk_branch_4_ok cplx side alpha beta a c H g d
  obtain ⟨g, hg, hok⟩ := key
  exact ⟨g, hg, (syrk_illegal_none_iff g cplx).mp hok.1, fun mem => syrkOK_sound H.hc hok mem⟩

structure SyrkCounterexample (guard : Filling → Mat → Mat → Prop) (call : Filling → GInt → GInt → Mat → Mat → Call GInt) (side : Filling) (a c : Mat) : Prop where
  wa : a.WF
  wc : c.WF
  sizes : a.n0 = c.n0 ∧ c.n1 = c.n0 ∧ a.cj = false ∧ c.cj = false
  guard : guard side a c
  bad : ∃ g : RankKCall GInt, call side 1 ⟨2, 1⟩ a c = .syrk g ∧ (g.illegal false true ≠ none ∨ ¬ SyrkSpec 1 ⟨2, 1⟩ side a c zmem (g.execSyrk true zmem))

/-- syrk.hpp:24 — A and C column-major: the call passes k = size(a) (the number of ROWS of A) and ldc = the number of
    columns of C: a 2×3 A into a contiguous 2×2 C sums over 2 instead of 3 columns -/
theorem finding_syrk_branch_3 : SyrkCounterexample syrk.guard_3 syrk.call_3 .lower ⟨0, 1, 2, 2, 3, false⟩ ⟨200, 1, 2, 2, 2, false⟩ :=
  ⟨by wf_dec, by wf_dec, by decide, by decide, _, rfl, Or.inr (fun h => absurd (h.elems 0 0 (by decide) (by decide) (by decide) (by decide) (by decide)) (by decide))⟩

/-- syrk.hpp:26 — a contiguous n×1 matrix A (both strides 1) is taken for column-major with lda = 1: XERBLA parameter 7 -/
theorem finding_syrk_branch_2 : SyrkCounterexample syrk.guard_2 syrk.call_2 .lower ⟨0, 1, 1, 3, 1, false⟩ ⟨200, 4, 1, 3, 3, false⟩ :=
  ⟨by wf_dec, by wf_dec, by decide, by decide, _, rfl, Or.inl (by decide)⟩

/-- syrk.hpp:32 — no stride is checked: a matrix A whose inner stride is 2 (inexpressible in BLAS) is accepted and a legal call
    computes from the wrong elements instead of being rejected -/
theorem finding_syrk_branch_1_nonunit : SyrkCounterexample syrk.guard_1 syrk.call_1 .lower ⟨0, 8, 2, 2, 3, false⟩ ⟨200, 4, 1, 2, 2, false⟩ :=
  ⟨by wf_dec, by wf_dec, by decide, by decide, _, rfl, Or.inr (fun h => absurd (h.elems 0 0 (by decide) (by decide) (by decide) (by decide) (by decide)) (by decide))⟩

/-! ## herk, complex element types (herk.hpp:96-134) — for a non-conjugated C -/
section herk

macro "herk_branch" s:ident : tactic => `(tactic| (
  refine ⟨_, rfl, ?_⟩
  unfold HerkOK
  rw [herk_illegal_none_iff]
  cases $s:ident <;>
  (simp only [RankKCall.LegalHerk, OutIs, RkIsU, Mat.lm, Mat.lmT, Mat.Lin, Mat.RowOK, Mat.ColOK, Filling.char, Filling.flip] at *
   simp (config := {decide := true}) only [true_and, and_true, true_or, or_true, if_true, if_false, false_and, and_false, false_or, or_false, ne_eq, not_true_eq_false, not_false_eq_true, Decidable.not_not, *] at *
   omega)))

structure HerkHyp (a c : Mat) : Prop where
  la : a.Lin
  lc : c.Lin
  hn : a.n0 = c.n0
  hsq : c.n1 = c.n0
  hc : c.cj = false

variable (side : Filling) (alpha beta : R) (a c : Mat)

/-- herk.hpp:140 — A and C column-major -/
theorem herk_branch_1_ok (H : HerkHyp a c) (h : herk_plain.guard_1 side a c) (d : a.ColOK ∧ c.ColOK) :
    ∃ g, herk_plain.call_1 side alpha beta a c = .herk g ∧ HerkOK g alpha beta side a c := by
  obtain ⟨la, lc, hn, hsq, hc⟩ := H; unfold herk_plain.guard_1 at h
  have hcj : a.cj = false := by cases hh : a.cj <;> simp_all
  herk_branch side

/-- herk.hpp:134 — A and C row-major: Cᵀ = (Aᴴ)ᴴ·Aᴴ with the 'C' flag on the stored k×n matrix -/
theorem herk_branch_5_ok (H : HerkHyp a c) (h : herk_plain.guard_5 side a c) (d : a.RowOK ∧ c.RowOK ∧ (a.s1 = 1 ∨ a.n1 ≤ 1) ∧ (c.s1 = 1 ∨ c.n0 ≤ 1)) :
    ∃ g, herk_plain.call_5 side alpha beta a c = .herk g ∧ HerkOK g alpha beta side a c := by
  obtain ⟨la, lc, hn, hsq, hc⟩ := H; unfold herk_plain.guard_5 at h
  have hcj : a.cj = false := by cases hh : a.cj <;> simp_all
  herk_branch side

/-- herk.hpp:124 — conj(A) column-major, C row-major -/
theorem herk_branch_9_ok (H : HerkHyp a c) (h : herk_plain.guard_9 side a c) (d : a.ColOK ∧ c.RowOK ∧ (c.s1 = 1 ∨ c.n0 ≤ 1)) :
    ∃ g, herk_plain.call_9 side alpha beta a c = .herk g ∧ HerkOK g alpha beta side a c := by
  obtain ⟨la, lc, hn, hsq, hc⟩ := H; unfold herk_plain.guard_9 at h
  have hcj : a.cj = true := by cases hh : a.cj <;> simp_all
  herk_branch side

/-- herk.hpp:129 — conj(A) row-major, C column-major -/
theorem herk_branch_10_ok (H : HerkHyp a c) (h : herk_plain.guard_10 side a c) (d : a.RowOK ∧ c.ColOK ∧ (a.s1 = 1 ∨ a.n1 ≤ 1)) :
    ∃ g, herk_plain.call_10 side alpha beta a c = .herk g ∧ HerkOK g alpha beta side a c := by
  obtain ⟨la, lc, hn, hsq, hc⟩ := H; unfold herk_plain.guard_10 at h
  have hcj : a.cj = true := by cases hh : a.cj <;> simp_all
  herk_branch side

/-- certified domain of the leaves of the complex `herk` (11: wrong, `finding_herk_branch_11`; 4 and 8, the `size(a)==1`
    special cases, are not covered by the certificate: validated by the differential run only) -/
def herkDom (t : Nat) (a c : Mat) : Prop :=
  match t with
  | 1 => a.ColOK ∧ c.ColOK
  | 5 => a.RowOK ∧ c.RowOK ∧ (a.s1 = 1 ∨ a.n1 ≤ 1) ∧ (c.s1 = 1 ∨ c.n0 ≤ 1)
  | 9 => a.ColOK ∧ c.RowOK ∧ (c.s1 = 1 ∨ c.n0 ≤ 1)
  | 10 => a.RowOK ∧ c.ColOK ∧ (a.s1 = 1 ∨ a.n1 ≤ 1)
  | _ => False

end herk

/-- **herk_correct (partial)**, C not conjugated, Hermitian input (real diagonal): from a certified leaf the xHERK call is
    legal and C := alpha·A·Aᴴ + beta·C on the `side` triangle (the diagonal loses its imaginary part), nothing else changes.
    Stated for `herk_plain`, which IS `herk` for a non-conjugated C (`herk_eq_plain`). -/
theorem herk_correct_partial [DecidableEq R] {nd : Bool} {side : Filling} {alpha beta : R} {a c : Mat} {t : Nat} {cl : Call R}
    (H : HerkHyp a c) (h : herk_plain nd side alpha beta a c = .call t cl) (hd : herkDom t a c) :
    ∃ g, cl = .herk g ∧ g.LegalHerk ∧
      ∀ mem : Mem R, (∀ i : Int, 0 ≤ i → i < c.n0 → CRing.conj (c.load mem i i) = c.load mem i i) → HerkSpec alpha beta side a c mem (g.execHerk mem) := by
  have key : ∃ g, cl = .herk g ∧ HerkOK g alpha beta side a c := by
    revert hd
    refine herk_plain.elim h (fun t cl => herkDom t a c → ∃ g, cl = .herk g ∧ HerkOK g alpha beta side a c) ?_ ?_ ?_ ?_ ?_ ?_ ?_
    · exact fun g d => herk_branch_1_ok side alpha beta a c H g d
    · exact fun _ d => d.elim
    · exact fun g d => herk_branch_5_ok side alpha beta a c H g d
    · exact fun _ d => d.elim
    · exact fun g d => herk_branch_9_ok side alpha beta a c H g d
    · exact fun g d => herk_branch_10_ok side alpha beta a c H g d
    · exact fun _ d => d.elim
  obtain ⟨g, hg, hok⟩ := key
  exact ⟨g, hg, (herk_illegal_none_iff g).mp hok.1, fun mem hdg => herkOK_sound H.hc hok mem hdg⟩

/-- for a non-conjugated C the complex `herk` runs exactly `herk_plain` -/
theorem herk_eq_plain {nd : Bool} {side : Filling} {alpha beta : R} {a c : Mat} (hc : c.cj = false) :
    Gen.herk nd side alpha beta a c = herk_plain nd side alpha beta a c := by
  unfold Gen.herk herk_plain
  simp only [hc, Bool.false_eq_true, if_false]
  rfl

/-! ## herk (complex) and trsm: findings

  The correctness of the leaves of `trsm` is NOT proved here (no certificate/soundness lemma for xTRSM: its specification is
  an equation, the reference semantics a substitution algorithm): it is validated by the differential run only.
  What is proved here: the leaves below are wrong. -/

structure HerkCounterexample (guard : Filling → Mat → Mat → Prop) (call : Filling → GInt → GInt → Mat → Mat → Call GInt) (side : Filling) (a c : Mat) : Prop where
  wa : a.WF
  wc : c.WF
  sizes : a.n0 = c.n0 ∧ c.n1 = c.n0 ∧ c.cj = false
  guard : guard side a c
  bad : ∃ g : RankKCall GInt, call side 1 ⟨2, 0⟩ a c = .herk g ∧ (g.illegal true true ≠ none ∨ ¬ HerkSpec 1 ⟨2, 0⟩ side a c zmem (g.execHerk zmem))

/-- herk.hpp:140 — a contiguous n×1 matrix A (both strides 1) into a column-major C: lda = 1, XERBLA parameter 7 -/
theorem finding_herk_branch_1 : HerkCounterexample herk.guard_1 herk.call_1 .upper ⟨0, 1, 1, 2, 1, false⟩ ⟨200, 1, 2, 2, 2, false⟩ :=
  ⟨by wf_dec, by wf_dec, by decide, by decide, _, rfl, Or.inl (by decide)⟩

/-- herk.hpp:124 — the same with a conjugated A and a row-major C -/
theorem finding_herk_branch_9 : HerkCounterexample herk.guard_9 herk.call_9 .lower ⟨0, 1, 1, 3, 1, true⟩ ⟨200, 4, 1, 3, 3, false⟩ :=
  ⟨by wf_dec, by wf_dec, by decide, by decide, _, rfl, Or.inl (by decide)⟩

/-- herk.hpp:130 — conj(A) row-major into a row-major C: the call computes Aᴴ·A of the UNDERLYING matrix, i.e. the complex
    conjugate of the requested conj(A)·conj(A)ᴴ -/
theorem finding_herk_branch_11 : HerkCounterexample herk.guard_11 herk.call_11 .upper ⟨0, 4, 1, 3, 1, true⟩ ⟨200, 6, 1, 3, 3, false⟩ :=
  ⟨by wf_dec, by wf_dec, by decide, by decide, _, rfl,
   Or.inr (fun h => absurd (h.elems 0 1 (by decide) (by decide) (by decide) (by decide) (by decide) (by decide)) (by decide))⟩

structure TrsmCounterexample (side : Side) (fill : Filling) (diag : Diag) (guard : Side → Filling → Diag → Mat → Mat → Prop)
    (call : Side → Filling → Diag → GInt → Mat → Mat → Call GInt) (a b : Mat) : Prop where
  wa : a.WF
  wb : b.WF
  square : a.n0 = a.n1 ∧ (side = .left → a.n0 = b.n0) ∧ (side = .right → a.n0 = b.n1)
  guard : guard side fill diag a b
  bad : ∃ g : TrsmCall GInt, call side fill diag 1 a b = .trsm g ∧ g.illegal ≠ none

/-- trsm.hpp:92 — B a contiguous m×1 matrix (both strides 1) is taken for column-major with ldb = 1: XERBLA parameter 11 -/
theorem finding_trsm_branch_10 : TrsmCounterexample .left .lower .nonUnit trsm.guard_10 trsm.call_10 ⟨0, 1, 6, 2, 2, false⟩ ⟨100, 1, 1, 2, 1, false⟩ :=
  ⟨by wf_dec, by wf_dec, by decide, by decide, _, rfl, by decide⟩

/-- trsm.hpp:93 — B a 1×n matrix with both strides 1 is taken for row-major with ldb = 1 -/
theorem finding_trsm_branch_13 : TrsmCounterexample .right .lower .nonUnit trsm.guard_13 trsm.call_13 ⟨0, 3, 1, 3, 3, false⟩ ⟨100, 1, 1, 1, 3, false⟩ :=
  ⟨by wf_dec, by wf_dec, by decide, by decide, _, rfl, by decide⟩

/-- trsm.hpp:98 — conj(A), B 1×n with both strides 1 -/
theorem finding_trsm_branch_5 : TrsmCounterexample .right .upper .unit trsm.guard_5 trsm.call_5 ⟨0, 1, 5, 4, 4, true⟩ ⟨100, 1, 1, 1, 4, false⟩ :=
  ⟨by wf_dec, by wf_dec, by decide, by decide, _, rfl, by decide⟩

/-- trsm.hpp:99 — conj(A), B m×1 with both strides 1 -/
theorem finding_trsm_branch_6 : TrsmCounterexample .left .upper .nonUnit trsm.guard_6 trsm.call_6 ⟨0, 8, 1, 3, 3, true⟩ ⟨100, 1, 1, 3, 1, false⟩ :=
  ⟨by wf_dec, by wf_dec, by decide, by decide, _, rfl, by decide⟩

/-- trsm.hpp:102 — conj(B) m×1 with both strides 1 -/
theorem finding_trsm_branch_8 : TrsmCounterexample .left .lower .unit trsm.guard_8 trsm.call_8 ⟨0, 2, 1, 2, 2, false⟩ ⟨100, 1, 1, 2, 1, true⟩ :=
  ⟨by wf_dec, by wf_dec, by decide, by decide, _, rfl, by decide⟩

/-! ## level 1: axpy, scal, copy, swap, dot (axpy.hpp, scal.hpp, copy.hpp, swap.hpp, dot.hpp) -/
section level1

/-- **axpy_correct** — `blas::axpy(alpha, x, y)` (also `y += alpha*x`, `y += x`, `y -= x` with the corresponding scalar):
    y := alpha·x + y on the logical contents; only the image of y changes.  Plain vectors with positive strides. -/
theorem axpy_correct {nd : Bool} {alpha : R} {x y : Vec} {t : Nat} {cl : Call R}
    (hx : x.cj = false) (hy : y.cj = false) (hxi : 1 ≤ x.inc) (hyi : 1 ≤ y.inc)
    (h : Front.axpy nd alpha x y = .call t cl) :
    ∃ g, cl = .axpy g ∧ ∀ mem : Mem R, AxpySpec alpha x y mem (g.execAxpy mem) := by
  unfold Front.axpy at h
  by_cases c1 : ¬ nd = true ∧ ¬ (x.n = y.n)
  · rw [if_pos c1] at h; cases h
  rw [if_neg c1] at h
  unfold axpy_n at h
  injection h with _ hc
  subst hc
  exact ⟨_, rfl, fun mem => axpy_sound (g := ⟨y.n, alpha, x.base, x.inc, y.base, y.inc⟩) ⟨rfl, rfl, rfl, rfl, rfl, hx, hy, hxi, hyi⟩ rfl mem⟩

/-- `y += blas::axpy(alpha, x)` / `y -= blas::axpy(alpha, x)` (the latter with -alpha): needs the sizes to agree, which the
    range form asserts only in assertion-enabled builds -/
theorem axpy_range_correct {nd : Bool} {alpha : R} {x y : Vec} {t : Nat} {cl : Call R}
    (hx : x.cj = false) (hy : y.cj = false) (hxi : 1 ≤ x.inc) (hyi : 1 ≤ y.inc) (hn : x.n = y.n)
    (h : Front.axpyRange nd alpha x y = .call t cl) :
    ∃ g, cl = .axpy g ∧ ∀ mem : Mem R, AxpySpec alpha x y mem (g.execAxpy mem) := by
  unfold Front.axpyRange at h
  by_cases c1 : ¬ nd = true ∧ ¬ (y.n = x.n)
  · rw [if_pos c1] at h; cases h
  rw [if_neg c1] at h
  unfold axpy_n at h
  injection h with _ hc
  subst hc
  exact ⟨_, rfl, fun mem => axpy_sound (g := ⟨x.n, alpha, x.base, x.inc, y.base, y.inc⟩) ⟨hn, rfl, rfl, rfl, rfl, hx, hy, hxi, hyi⟩ rfl mem⟩

/-- **scal_correct** — `blas::scal(alpha, x)` / `x *= alpha` -/
theorem scal_correct {nd : Bool} {alpha : R} {x : Vec} {t : Nat} {cl : Call R}
    (hx : x.cj = false) (hxi : 1 ≤ x.inc) (h : Front.scal nd alpha x = .call t cl) :
    ∃ g, cl = .scal g ∧ ∀ mem : Mem R, ScalSpec alpha x mem (g.execScal mem) := by
  unfold Front.scal scal_n at h
  injection h with _ hc
  subst hc
  exact ⟨_, rfl, fun mem => scal_sound (g := ⟨x.n, alpha, x.base, x.inc, 0, 0⟩) rfl rfl rfl hx hxi rfl mem⟩

/-- **copy_correct** — `blas::copy(x, y)` / `y << x` -/
theorem copy_correct {nd : Bool} {x y : Vec} {t : Nat} {cl : Call R}
    (hx : x.cj = false) (hy : y.cj = false) (hxi : 1 ≤ x.inc) (hyi : 1 ≤ y.inc) (hn : x.n = y.n)
    (h : Front.copy nd x y = .call t cl) :
    ∃ g, cl = .copy g ∧ ∀ mem : Mem R, CopySpec x y mem (g.execCopy mem) := by
  unfold Front.copy at h
  by_cases c1 : ¬ nd = true ∧ ¬ (x.n = y.n)
  · rw [if_pos c1] at h; cases h
  rw [if_neg c1] at h
  unfold copy_n at h
  injection h with _ hc
  subst hc
  exact ⟨_, rfl, fun mem => copy_sound (g := ⟨x.n, 0, x.base, x.inc, y.base, y.inc⟩) ⟨hn, rfl, rfl, rfl, rfl, hx, hy, hxi, hyi⟩ mem⟩

/-- `y = blas::copy(x)` -/
theorem copy_assign_correct {nd : Bool} {x y : Vec} {t : Nat} {cl : Call R}
    (hx : x.cj = false) (hy : y.cj = false) (hxi : 1 ≤ x.inc) (hyi : 1 ≤ y.inc) (hn : x.n = y.n)
    (h : Front.copyAssign nd x y = .call t cl) :
    ∃ g, cl = .copy g ∧ ∀ mem : Mem R, CopySpec x y mem (g.execCopy mem) := by
  unfold Front.copyAssign at h
  by_cases c1 : ¬ nd = true ∧ ¬ (y.n = x.n)
  · rw [if_pos c1] at h; cases h
  rw [if_neg c1] at h
  unfold copy_n at h
  injection h with _ hc
  subst hc
  exact ⟨_, rfl, fun mem => copy_sound (g := ⟨x.n, 0, x.base, x.inc, y.base, y.inc⟩) ⟨hn, rfl, rfl, rfl, rfl, hx, hy, hxi, hyi⟩ mem⟩

/-- **swap_correct** — `blas::swap(x, y)` for views that do not overlap -/
theorem swap_correct {nd : Bool} {x y : Vec} {t : Nat} {cl : Call R}
    (hx : x.cj = false) (hy : y.cj = false) (hxi : 1 ≤ x.inc) (hyi : 1 ≤ y.inc) (hn : x.n = y.n)
    (hdis : ∀ i j : Int, 0 ≤ i → i < x.n → 0 ≤ j → j < y.n → x.addr i ≠ y.addr j)
    (h : Front.swap nd x y = .call t cl) :
    ∃ g, cl = .swap g ∧ ∀ mem : Mem R, SwapSpec x y mem (g.execSwap mem) := by
  unfold Front.swap at h
  by_cases c1 : ¬ nd = true ∧ ¬ (x.n = y.n)
  · rw [if_pos c1] at h; cases h
  rw [if_neg c1] at h
  unfold swap_n at h
  injection h with _ hc
  subst hc
  exact ⟨_, rfl, fun mem => swap_sound (g := ⟨x.n, 0, x.base, x.inc, y.base, y.inc⟩) ⟨hn, rfl, rfl, rfl, rfl, hx, hy, hxi, hyi⟩ hn hdis mem⟩

theorem dotResult_dot {ty : Char} {g : L1Call R} {mem : Mem R} {v : R} (h : Front.dotResult ty (.dot g) mem = some v) :
    v = dotVal false g.n g.x g.incx g.y g.incy mem := by
  simp only [Front.dotResult] at h
  by_cases c : ty = 's' ∧ g.n ≤ 0
  · rw [if_pos c] at h; cases h
  · rw [if_neg c] at h; injection h with h; exact h.symm

theorem dotResult_dotu {ty : Char} {g : L1Call R} {mem : Mem R} {v : R} (h : Front.dotResult ty (.dotu g) mem = some v) :
    v = dotVal false g.n g.x g.incx g.y g.incy mem := by
  simp only [Front.dotResult] at h
  by_cases c : g.n ≤ 0
  · rw [if_pos c] at h; cases h
  · rw [if_neg c] at h; injection h with h; exact h.symm

theorem dotResult_dotc {ty : Char} {g : L1Call R} {mem : Mem R} {v : R} (h : Front.dotResult ty (.dotc g) mem = some v) :
    v = dotVal true g.n g.x g.incx g.y g.incy mem := by
  simp only [Front.dotResult] at h
  injection h with h; exact h.symm

/-- Σ x_i·y_i on the logical contents -/
def dotSpec (x y : Vec) (mem : Mem R) : R := sumZ x.n (fun i => x.load mem i * y.load mem i)

/-- **dot_correct (partial)** — `blas::dot(x, y)` with x, y, or one of them conjugated (`blas::C`): when a value is delivered it is
    Σ x_i·y_i on the logical contents; memory is not modified by the routine.  A value IS delivered except for n = 0 with
    float or (non-conjugated) complex elements (`finding_dot_empty`). -/
theorem dot_correct_partial {nd cplx : Bool} {ty : Char} {x y : Vec} {t : Nat} {cl : Call R} {v : R} (mem : Mem R)
    (hn : x.n = y.n) (hc : cplx = false → x.cj = false ∧ y.cj = false)
    (h : Front.dot nd cplx x y = .call t cl) (hv : Front.dotResult ty cl mem = some v) : v = dotSpec x y mem := by
  unfold Front.dot at h
  by_cases c1 : ¬ nd = true ∧ ¬ (x.n = y.n)
  · rw [if_pos c1] at h; cases h
  rw [if_neg c1] at h
  unfold dotSpec
  refine dot_n.elim h (fun t cl => Front.dotResult ty cl mem = some v → v = sumZ x.n (fun i => x.load mem i * y.load mem i)) ?_ ?_ ?_ ?_ hv
  · -- dotc(x_u, y): x conjugated
    intro g hv
    unfold dot_n.guard_2 at g
    have hx : x.cj = true := by cases hh : x.cj <;> cases hh2 : y.cj <;> simp_all
    have hy : y.cj = false := by cases hh : x.cj <;> cases hh2 : y.cj <;> simp_all
    unfold dot_n.call_2 at hv
    rw [dotResult_dotc hv]
    unfold dotVal
    apply sumZ_congr
    intro i _ _
    unfold Vec.load
    rw [hx, hy]
    rfl
  · -- dotc(y_u, x): y conjugated
    intro g hv
    unfold dot_n.guard_3 at g
    have hx : x.cj = false := by cases hh : x.cj <;> cases hh2 : y.cj <;> simp_all
    have hy : y.cj = true := by cases hh : x.cj <;> cases hh2 : y.cj <;> simp_all
    unfold dot_n.call_3 at hv
    rw [dotResult_dotc hv]
    unfold dotVal
    apply sumZ_congr
    intro i _ _
    unfold Vec.load
    rw [hx, hy, CRing.mul_comm]
    rfl
  · -- dotu(x, y)
    intro g hv
    unfold dot_n.guard_4 at g
    have hx : x.cj = false := by cases hh : x.cj <;> cases hh2 : y.cj <;> simp_all
    have hy : y.cj = false := by cases hh : x.cj <;> cases hh2 : y.cj <;> simp_all
    unfold dot_n.call_4 at hv
    rw [dotResult_dotu hv]
    unfold dotVal
    apply sumZ_congr
    intro i _ _
    unfold Vec.load
    rw [hx, hy]
    rfl
  · -- real dot(x, y)
    intro g hv
    unfold dot_n.guard_5 at g
    have hcf : cplx = false := by cases hh : cplx <;> simp_all
    obtain ⟨hx, hy⟩ := hc hcf
    unfold dot_n.call_5 at hv
    rw [dotResult_dot hv]
    unfold dotVal
    apply sumZ_congr
    intro i _ _
    unfold Vec.load
    rw [hx, hy]
    rfl

/-- dot of EMPTY float vectors (core.hpp:295: sgemv('N', 1, 0, …) returns at once): no value is delivered although the
    mathematical result is 0.  Same for complex `dotu` (core.hpp:357, 362). -/
theorem finding_dot_empty :
    Front.dot (R := Int) false false ⟨0, 1, 0, false⟩ ⟨100, 1, 0, false⟩ = .call 5 (dot_n.call_5 0 ⟨0, 1, 0, false⟩ ⟨100, 1, 0, false⟩) ∧
    Front.dotResult 's' (dot_n.call_5 (R := Int) 0 ⟨0, 1, 0, false⟩ ⟨100, 1, 0, false⟩) (fun a => a) = none ∧
    Front.dotResult 'z' (dot_n.call_4 (R := GInt) 0 ⟨0, 1, 0, false⟩ ⟨100, 1, 0, false⟩) zmem = none := by
  refine ⟨by rfl, by decide, by decide⟩

end level1

/-! ## dispatch_legal in assertion-enabled builds (FULL for gemm)

  `core::gemm` (core.hpp:513-533) re-checks the leading dimensions with BOOST_MULTI_ASSERT1, which throws when NDEBUG is not
  defined.  Hence in an assertion-enabled build every call of `gemm_n` that reaches the Fortran routine is legal — the wrong
  leading dimensions of the special-case leaves surface as `std::logic_error` (a rejection), not as a silent XERBLA return.
  With NDEBUG only the `ldc` check remains and the statement is false (findings with "illegal" in their description). -/

def callLegal : Call R → Prop
  | .gemm g => g.Legal
  | _ => True

macro "legal_leaf" : tactic => `(tactic| (
  intro _ hc
  simp only [Front.coreThrows] at hc
  simp at hc
  simp only [maxI_le_iff, le_maxI_iff, Mat.Lin] at *
  simp (config := {decide := true}) only [callLegal, GemmCall.Legal, isTrans, true_and, and_true, if_true, if_false]
  omega))

theorem gemm_n_nn_legal_debug {alpha beta : R} {a b c : Mat} {t : Nat} {cl : Call R}
    (la : a.Lin) (lb : b.Lin) (lc : c.Lin)
    (h : gemm_n_nn false alpha beta a b c = .call t cl) (hc : Front.coreThrows false cl = false) : callLegal cl := by
  revert hc
  refine gemm_n_nn.elim h (fun t cl => Front.coreThrows false cl = false → callLegal cl) ?_ ?_ ?_ ?_ ?_ ?_ ?_ ?_ ?_ ?_ ?_ ?_ ?_ ?_ ?_ ?_ ?_ ?_
  · unfold gemm_n_nn.call_2; legal_leaf
  · unfold gemm_n_nn.call_3; legal_leaf
  · unfold gemm_n_nn.call_4; legal_leaf
  · unfold gemm_n_nn.call_5; legal_leaf
  · unfold gemm_n_nn.call_6; legal_leaf
  · unfold gemm_n_nn.call_7; legal_leaf
  · unfold gemm_n_nn.call_8; legal_leaf
  · unfold gemm_n_nn.call_9; legal_leaf
  · unfold gemm_n_nn.call_10; legal_leaf
  · unfold gemm_n_nn.call_11; legal_leaf
  · unfold gemm_n_nn.call_12; legal_leaf
  · unfold gemm_n_nn.call_13; legal_leaf
  · unfold gemm_n_nn.call_14; legal_leaf
  · unfold gemm_n_nn.call_15; legal_leaf
  · unfold gemm_n_nn.call_16; legal_leaf
  · unfold gemm_n_nn.call_17; legal_leaf
  · unfold gemm_n_nn.call_18; legal_leaf
  · unfold gemm_n_nn.call_19; legal_leaf

theorem gemm_n_nc_legal_debug {alpha beta : R} {a b c : Mat} {t : Nat} {cl : Call R}
    (la : a.Lin) (lb : b.Lin) (lc : c.Lin)
    (h : gemm_n_nc false alpha beta a b c = .call t cl) (hc : Front.coreThrows false cl = false) : callLegal cl := by
  revert hc
  refine gemm_n_nc.elim h (fun t cl => Front.coreThrows false cl = false → callLegal cl) ?_ ?_ ?_ ?_ ?_ ?_
  · unfold gemm_n_nc.call_2; legal_leaf
  · unfold gemm_n_nc.call_3; legal_leaf
  · unfold gemm_n_nc.call_4; legal_leaf
  · unfold gemm_n_nc.call_5; legal_leaf
  · unfold gemm_n_nc.call_6; legal_leaf
  · unfold gemm_n_nc.call_7; legal_leaf

theorem gemm_n_cn_legal_debug {alpha beta : R} {a b c : Mat} {t : Nat} {cl : Call R}
    (la : a.Lin) (lb : b.Lin) (lc : c.Lin)
    (h : gemm_n_cn false alpha beta a b c = .call t cl) (hc : Front.coreThrows false cl = false) : callLegal cl := by
  revert hc
  refine gemm_n_cn.elim h (fun t cl => Front.coreThrows false cl = false → callLegal cl) ?_ ?_
  · unfold gemm_n_cn.call_2; legal_leaf
  · unfold gemm_n_cn.call_3; legal_leaf

theorem gemm_n_cc_legal_debug {alpha beta : R} {a b c : Mat} {t : Nat} {cl : Call R}
    (la : a.Lin) (lb : b.Lin) (lc : c.Lin)
    (h : gemm_n_cc false alpha beta a b c = .call t cl) (hc : Front.coreThrows false cl = false) : callLegal cl := by
  revert hc
  refine gemm_n_cc.elim h (fun t cl => Front.coreThrows false cl = false → callLegal cl) ?_
  · unfold gemm_n_cc.call_2; legal_leaf

/-- **dispatch_legal, assertion-enabled builds (full).**  Every BLAS call that `gemm_n` issues and that passes the checks of
    `core::gemm` is legal for the reference BLAS — for all sizes, strides and conjugation patterns. -/
theorem gemm_dispatch_legal_debug {alpha beta : R} {a b c : Mat} {t : Nat} {cl : Call R}
    (wa : a.WF) (wb : b.WF) (wc : c.WF)
    (h : gemm_n false alpha beta a b c = .call t cl) (hc : Front.coreThrows false cl = false) : callLegal cl := by
  unfold gemm_n at h
  cases ha : a.cj <;> cases hb : b.cj <;> simp only [ha, hb] at h
  · exact gemm_n_nn_legal_debug wa.lin wb.lin wc.lin h hc
  · exact gemm_n_nc_legal_debug wa.lin wb.lin wc.lin h hc
  · exact gemm_n_cn_legal_debug wa.lin wb.lin wc.lin h hc
  · exact gemm_n_cc_legal_debug wa.lin wb.lin wc.lin h hc

/-! ## Findings: leaves of `gemm_n` that are wrong

  Each theorem exhibits operands INSIDE the view invariants and inside the leaf's guard for which the call issued by the
  leaf is illegal for the reference BLAS (XERBLA: nothing is computed) or is legal but its post-state is not
  alpha·A·B + beta·C.  The ring is the Gaussian integers, alpha = 1, beta = 2 + i, memory `zmem`.  The same classes are
  reproduced against the real library by harness/blas.cpp (findings/C13.json). -/

structure GemmCounterexample (guard : Mat → Mat → Mat → Prop) (call : GInt → GInt → Mat → Mat → Mat → Call GInt) (a b c : Mat) : Prop where
  shapes : GemmShapes a b c
  noconjC : c.cj = false
  guard : guard a b c
  bad : ∃ g : GemmCall GInt, call 1 ⟨2, 1⟩ a b c = .gemm g ∧ (g.illegal ≠ none ∨ ¬ GemmSpec 1 ⟨2, 1⟩ a b c zmem (g.exec zmem))

/-- gemm.hpp:145 [(((a.s0 = 1) ∧ (b.s0 = 1)) ∧ (c.s1 = 1))] at size class m1ngk0: legal call, element (0,1) of the result is wrong -/
theorem finding_gemm_cc_branch_2 : GemmCounterexample gemm_n_cc.guard_2 gemm_n_cc.call_2 ⟨0, 1, 4, 1, 0, true⟩ ⟨100, 1, 1, 0, 2, true⟩ ⟨200, 2, 1, 1, 2, false⟩ :=
  ⟨by shapes_dec, rfl, by decide, _, rfl, Or.inr (fun h => absurd (h.elems 0 1 (by decide) (by decide) (by decide) (by decide)) (by decide))⟩

/-- gemm.hpp:128 [(((a.s0 = 1) ∧ (b.s1 = 1)) ∧ (c.s1 = 1))] at size class mgn1k0: illegal call (XERBLA parameter 10) -/
theorem finding_gemm_cn_branch_2 : GemmCounterexample gemm_n_cn.guard_2 gemm_n_cn.call_2 ⟨0, 1, 1, 2, 0, true⟩ ⟨100, 1, 1, 0, 1, false⟩ ⟨200, 1, 1, 2, 1, false⟩ :=
  ⟨by shapes_dec, rfl, by decide, _, rfl, Or.inl (by decide)⟩

/-- gemm.hpp:107 [(((a.s0 = 1) ∧ (b.s0 = 1)) ∧ (c.s0 = 1))] at size class m1ngk0: legal call, element (0,1) of the result is wrong -/
theorem finding_gemm_nc_branch_2 : GemmCounterexample gemm_n_nc.guard_2 gemm_n_nc.call_2 ⟨0, 1, 4, 1, 0, false⟩ ⟨100, 1, 1, 0, 2, true⟩ ⟨200, 1, 6, 1, 2, false⟩ :=
  ⟨by shapes_dec, rfl, by decide, _, rfl, Or.inr (fun h => absurd (h.elems 0 1 (by decide) (by decide) (by decide) (by decide)) (by decide))⟩

/-- gemm.hpp:109 [(((a.s0 = 1) ∧ (b.s0 = 1)) ∧ (c.s1 = 1))] at size class m1ngk0: legal call, element (0,1) of the result is wrong -/
theorem finding_gemm_nc_branch_3 : GemmCounterexample gemm_n_nc.guard_3 gemm_n_nc.call_3 ⟨0, 1, 4, 1, 0, false⟩ ⟨100, 1, 1, 0, 2, true⟩ ⟨200, 2, 1, 1, 2, false⟩ :=
  ⟨by shapes_dec, rfl, by decide, _, rfl, Or.inr (fun h => absurd (h.elems 0 1 (by decide) (by decide) (by decide) (by decide)) (by decide))⟩

/-- gemm.hpp:105 [(((a.s1 = 1) ∧ (b.s0 = 1)) ∧ (c.s0 = 1))] at size class m1ngk0: legal call, element (0,1) of the result is wrong -/
theorem finding_gemm_nc_branch_4 : GemmCounterexample gemm_n_nc.guard_4 gemm_n_nc.call_4 ⟨0, 1, 1, 1, 0, false⟩ ⟨100, 1, 1, 0, 4, true⟩ ⟨200, 1, 4, 1, 4, false⟩ :=
  ⟨by shapes_dec, rfl, by decide, _, rfl, Or.inr (fun h => absurd (h.elems 0 1 (by decide) (by decide) (by decide) (by decide)) (by decide))⟩

/-- gemm.hpp:102 [(((a.s1 = 1) ∧ (b.s0 = 1)) ∧ (c.s1 = 1)) ; (a.n0 = 1)] at size class m1ngk1: legal call, element (0,1) of the result is wrong -/
theorem finding_gemm_nc_branch_6 : GemmCounterexample gemm_n_nc.guard_6 gemm_n_nc.call_6 ⟨0, 1, 1, 1, 1, false⟩ ⟨100, 1, 3, 1, 3, true⟩ ⟨200, 6, 1, 1, 3, false⟩ :=
  ⟨by shapes_dec, rfl, by decide, _, rfl, Or.inr (fun h => absurd (h.elems 0 1 (by decide) (by decide) (by decide) (by decide)) (by decide))⟩

/-- gemm.hpp:100 [(((a.s1 = 1) ∧ (b.s1 = 1)) ∧ (c.s1 = 1))] at size class mgn1k1: legal call, element (1,0) of the result is wrong -/
theorem finding_gemm_nc_branch_7 : GemmCounterexample gemm_n_nc.guard_7 gemm_n_nc.call_7 ⟨0, 4, 1, 2, 1, false⟩ ⟨100, 1, 1, 1, 1, true⟩ ⟨200, 1, 1, 2, 1, false⟩ :=
  ⟨by shapes_dec, rfl, by decide, _, rfl, Or.inr (fun h => absurd (h.elems 1 0 (by decide) (by decide) (by decide) (by decide)) (by decide))⟩

/-- gemm.hpp:68 [(((a.s0 = 1) ∧ (b.s1 = 1)) ∧ (c.s0 = 1))] at size class mgngk0: illegal call (XERBLA parameter 10) -/
theorem finding_gemm_nn_branch_5 : GemmCounterexample gemm_n_nn.guard_5 gemm_n_nn.call_5 ⟨0, 1, 4, 4, 0, false⟩ ⟨100, 1, 1, 0, 3, false⟩ ⟨200, 1, 8, 4, 3, false⟩ :=
  ⟨by shapes_dec, rfl, by decide, _, rfl, Or.inl (by decide)⟩

/-- gemm.hpp:67 [(((a.s0 = 1) ∧ (b.s1 = 1)) ∧ (c.s0 = 1)) ; (a.n0 = 1)] at size class m1n1kg: legal call, element (0,0) of the result is wrong -/
theorem finding_gemm_nn_branch_6 : GemmCounterexample gemm_n_nn.guard_6 gemm_n_nn.call_6 ⟨0, 1, 4, 1, 2, false⟩ ⟨100, 4, 1, 2, 1, false⟩ ⟨200, 1, 4, 1, 1, false⟩ :=
  ⟨by shapes_dec, rfl, by decide, _, rfl, Or.inr (fun h => absurd (h.elems 0 0 (by decide) (by decide) (by decide) (by decide)) (by decide))⟩

/-- gemm.hpp:65 [(((a.s0 = 1) ∧ (b.s1 = 1)) ∧ (c.s1 = 1))] at size class mgngk0: illegal call (XERBLA parameter 8) -/
theorem finding_gemm_nn_branch_7 : GemmCounterexample gemm_n_nn.guard_7 gemm_n_nn.call_7 ⟨0, 1, 8, 3, 0, false⟩ ⟨100, 1, 1, 0, 4, false⟩ ⟨200, 7, 1, 3, 4, false⟩ :=
  ⟨by shapes_dec, rfl, by decide, _, rfl, Or.inl (by decide)⟩

/-- gemm.hpp:74 [(((a.s1 = 1) ∧ (b.s0 = 1)) ∧ (c.s0 = 1))] at size class mgn1kg: legal call, element (0,0) of the result is wrong -/
theorem finding_gemm_nn_branch_9 : GemmCounterexample gemm_n_nn.guard_9 gemm_n_nn.call_9 ⟨0, 3, 1, 3, 3, false⟩ ⟨100, 1, 5, 3, 1, false⟩ ⟨200, 1, 5, 3, 1, false⟩ :=
  ⟨by shapes_dec, rfl, by decide, _, rfl, Or.inr (fun h => absurd (h.elems 0 0 (by decide) (by decide) (by decide) (by decide)) (by decide))⟩

/-- gemm.hpp:73 [(((a.s1 = 1) ∧ (b.s0 = 1)) ∧ (c.s0 = 1)) ; ((a.n1 = 1) ∧ (b.n1 = 1))] at size class mgn1k1: legal call, element (1,0) of the result is wrong -/
theorem finding_gemm_nn_branch_11 : GemmCounterexample gemm_n_nn.guard_11 gemm_n_nn.call_11 ⟨0, 1, 1, 2, 1, false⟩ ⟨100, 1, 6, 1, 1, false⟩ ⟨200, 1, 2, 2, 1, false⟩ :=
  ⟨by shapes_dec, rfl, by decide, _, rfl, Or.inr (fun h => absurd (h.elems 1 0 (by decide) (by decide) (by decide) (by decide)) (by decide))⟩

/-- gemm.hpp:71 [(((a.s1 = 1) ∧ (b.s0 = 1)) ∧ (c.s0 = 1)) ; (a.n0 = 1)] at size class m1ngk1: legal call, element (0,1) of the result is wrong -/
theorem finding_gemm_nn_branch_12 : GemmCounterexample gemm_n_nn.guard_12 gemm_n_nn.call_12 ⟨0, 1, 1, 1, 1, false⟩ ⟨100, 1, 4, 1, 4, false⟩ ⟨200, 1, 4, 1, 4, false⟩ :=
  ⟨by shapes_dec, rfl, by decide, _, rfl, Or.inr (fun h => absurd (h.elems 0 1 (by decide) (by decide) (by decide) (by decide)) (by decide))⟩

/-- gemm.hpp:76 [(((a.s1 = 1) ∧ (b.s0 = 1)) ∧ (c.s1 = 1)) ; (a.n0 = 1)] at size class m1ngk1: legal call, element (0,1) of the result is wrong -/
theorem finding_gemm_nn_branch_14 : GemmCounterexample gemm_n_nn.guard_14 gemm_n_nn.call_14 ⟨0, 3, 1, 1, 1, false⟩ ⟨100, 1, 2, 1, 4, false⟩ ⟨200, 4, 1, 1, 4, false⟩ :=
  ⟨by shapes_dec, rfl, by decide, _, rfl, Or.inr (fun h => absurd (h.elems 0 1 (by decide) (by decide) (by decide) (by decide)) (by decide))⟩

/-- gemm.hpp:62 [(((a.s1 = 1) ∧ (b.s1 = 1)) ∧ (c.s0 = 1))] at size class mgngk0: illegal call (XERBLA parameter 10) -/
theorem finding_gemm_nn_branch_15 : GemmCounterexample gemm_n_nn.guard_15 gemm_n_nn.call_15 ⟨0, 3, 1, 3, 0, false⟩ ⟨100, 1, 1, 0, 4, false⟩ ⟨200, 1, 3, 3, 4, false⟩ :=
  ⟨by shapes_dec, rfl, by decide, _, rfl, Or.inl (by decide)⟩

/-- gemm.hpp:61 [(((a.s1 = 1) ∧ (b.s1 = 1)) ∧ (c.s0 = 1)) ; (a.n0 = 1)] at size class m1n1kg: legal call, element (0,0) of the result is wrong -/
theorem finding_gemm_nn_branch_16 : GemmCounterexample gemm_n_nn.guard_16 gemm_n_nn.call_16 ⟨0, 6, 1, 1, 4, false⟩ ⟨100, 2, 1, 4, 1, false⟩ ⟨200, 1, 2, 1, 1, false⟩ :=
  ⟨by shapes_dec, rfl, by decide, _, rfl, Or.inr (fun h => absurd (h.elems 0 0 (by decide) (by decide) (by decide) (by decide)) (by decide))⟩

/-- gemm.hpp:59 [(((a.s1 = 1) ∧ (b.s1 = 1)) ∧ (c.s1 = 1))] at size class mgngk0: illegal call (XERBLA parameter 8) -/
theorem finding_gemm_nn_branch_17 : GemmCounterexample gemm_n_nn.guard_17 gemm_n_nn.call_17 ⟨0, 4, 1, 2, 0, false⟩ ⟨100, 1, 1, 0, 2, false⟩ ⟨200, 5, 1, 2, 2, false⟩ :=
  ⟨by shapes_dec, rfl, by decide, _, rfl, Or.inl (by decide)⟩

/-- gemm.hpp:57 [(((a.s1 = 1) ∧ (b.s1 = 1)) ∧ (c.s1 = 1)) ; ((a.n0 = 1) ∧ (b.n1 = 1))] at size class m1n1kg: legal call, element (0,0) of the result is wrong -/
theorem finding_gemm_nn_branch_18 : GemmCounterexample gemm_n_nn.guard_18 gemm_n_nn.call_18 ⟨0, 1, 1, 1, 3, false⟩ ⟨100, 5, 1, 3, 1, false⟩ ⟨200, 1, 1, 1, 1, false⟩ :=
  ⟨by shapes_dec, rfl, by decide, _, rfl, Or.inr (fun h => absurd (h.elems 0 0 (by decide) (by decide) (by decide) (by decide)) (by decide))⟩

/-- gemm.hpp:58 [(((a.s1 = 1) ∧ (b.s1 = 1)) ∧ (c.s1 = 1)) ; (a.n0 = 1)] at size class m1ngk0: illegal call (XERBLA parameter 8) -/
theorem finding_gemm_nn_branch_19 : GemmCounterexample gemm_n_nn.guard_19 gemm_n_nn.call_19 ⟨0, 4, 1, 1, 0, false⟩ ⟨100, 1, 1, 0, 2, false⟩ ⟨200, 2, 1, 1, 2, false⟩ :=
  ⟨by shapes_dec, rfl, by decide, _, rfl, Or.inl (by decide)⟩

/-! ## trsm: dispatch_legal in assertion-enabled builds (full) -/

def trsmLegal : Call R → Prop
  | .trsm g => g.Legal
  | _ => True

macro "trsm_legal_leaf" s:ident f:ident d:ident : tactic => `(tactic| (
  intro _ hc
  cases $s:ident <;> cases $f:ident <;> cases $d:ident <;>
  (simp only [Front.coreThrows, Side.char, Side.swap, Filling.char, Filling.flip, Diag.char] at hc
   simp at hc
   simp only [maxI_le_iff, le_maxI_iff, Mat.Lin] at *
   simp (config := {decide := true}) only [trsmLegal, TrsmCall.Legal, isTrans, Side.char, Side.swap, Filling.char, Filling.flip, Diag.char, true_and, and_true, if_true, if_false, true_or, or_true] at *
   omega)))

/-- **dispatch_legal for trsm, assertion-enabled builds (full).**  `core::trsm` (core.hpp:542-559) re-checks lda and ldb with
    BOOST_MULTI_ASSERT1, so every xTRSM call that reaches the Fortran routine in such a build is legal; with NDEBUG the checks
    vanish and the leaves of `finding_trsm_branch_*` issue illegal calls (silent no-op). -/
theorem trsm_dispatch_legal_debug {side : Side} {fill : Filling} {diag : Diag} {alpha : R} {a b : Mat} {t : Nat} {cl : Call R}
    (wa : a.WF) (wb : b.WF)
    (h : Gen.trsm false side fill diag alpha a b = .call t cl) (hc : Front.coreThrows false cl = false) : trsmLegal cl := by
  have la := wa.lin
  have lb := wb.lin
  revert hc
  refine trsm.elim h (fun t cl => Front.coreThrows false cl = false → trsmLegal cl) ?_ ?_ ?_ ?_ ?_ ?_ ?_ ?_ ?_
  · unfold trsm.call_2; trsm_legal_leaf side fill diag
  · unfold trsm.call_3; trsm_legal_leaf side fill diag
  · unfold trsm.call_5; trsm_legal_leaf side fill diag
  · unfold trsm.call_6; trsm_legal_leaf side fill diag
  · unfold trsm.call_8; trsm_legal_leaf side fill diag
  · unfold trsm.call_10; trsm_legal_leaf side fill diag
  · unfold trsm.call_11; trsm_legal_leaf side fill diag
  · unfold trsm.call_12; trsm_legal_leaf side fill diag
  · unfold trsm.call_13; trsm_legal_leaf side fill diag

/-! ## syrk / herk: dispatch_legal in assertion-enabled builds (full) -/

def rkLegal (cplx : Bool) : Call R → Prop
  | .syrk g => g.LegalSyrk cplx
  | .herk g => g.LegalHerk
  | _ => True

macro "rk_legal_leaf" s:ident : tactic => `(tactic| (
  intro _ hc
  cases $s:ident <;>
  (simp only [Front.coreThrows, Filling.char, Filling.flip] at hc
   simp at hc
   simp only [maxI_le_iff, le_maxI_iff, Mat.Lin] at *
   simp (config := {decide := true}) only [rkLegal, RankKCall.LegalSyrk, RankKCall.LegalHerk, Filling.char, Filling.flip, true_and, and_true, if_true, if_false, true_or, or_true, false_or, or_false, and_false, false_and] at *
   omega)))

/-- `core::syrk` (core.hpp:476-489) re-checks lda and ldc: in an assertion-enabled build every xSYRK call that reaches the
    Fortran routine is legal (all four leaves issue 'N' or 'T', legal for real and complex element types) -/
theorem syrk_dispatch_legal_debug {cplx : Bool} {side : Filling} {alpha beta : R} {a c : Mat} {t : Nat} {cl : Call R}
    (wa : a.WF) (wc : c.WF)
    (h : Gen.syrk false side alpha beta a c = .call t cl) (hc : Front.coreThrows false cl = false) : rkLegal cplx cl := by
  have la := wa.lin
  have lc := wc.lin
  revert hc
  refine syrk.elim h (fun t cl => Front.coreThrows false cl = false → rkLegal cplx cl) ?_ ?_ ?_ ?_
  · unfold syrk.call_1; rk_legal_leaf side
  · unfold syrk.call_2; rk_legal_leaf side
  · unfold syrk.call_3; rk_legal_leaf side
  · unfold syrk.call_4; rk_legal_leaf side

/-- the same for the complex `herk` with a non-conjugated C (`core::herk`, core.hpp:491-505) -/
theorem herk_dispatch_legal_debug {side : Filling} {alpha beta : R} {a c : Mat} {t : Nat} {cl : Call R}
    (wa : a.WF) (wc : c.WF)
    (h : herk_plain false side alpha beta a c = .call t cl) (hc : Front.coreThrows false cl = false) : rkLegal true cl := by
  have la := wa.lin
  have lc := wc.lin
  revert hc
  refine herk_plain.elim h (fun t cl => Front.coreThrows false cl = false → rkLegal true cl) ?_ ?_ ?_ ?_ ?_ ?_ ?_
  · unfold herk_plain.call_1; rk_legal_leaf side
  · unfold herk_plain.call_4; rk_legal_leaf side
  · unfold herk_plain.call_5; rk_legal_leaf side
  · unfold herk_plain.call_8; rk_legal_leaf side
  · unfold herk_plain.call_9; rk_legal_leaf side
  · unfold herk_plain.call_10; rk_legal_leaf side
  · unfold herk_plain.call_11; rk_legal_leaf side

/-! ## rejected_is_inexpressible (partial)

  FULL statement: whenever a front end rejects (assertion or exception), no legal BLAS call computes the operation.  It is
  FALSE for the current code: the conjugated overloads of `gemm_n` throw "not BLAS-implemented" for combinations xGEMM can
  express, and the special-case leaves throw (core::gemm) on expressible shapes.  Over-rejection does not violate C13.
  What is proved: an assertion failure of the main overload means that some operand has no unit stride (or the sizes of B
  and C differ), and an operand with two non-unit strides and at least 2×2 elements cannot be addressed by ANY column-major
  operand descriptor (pointer, leading dimension, 'N' / 'T' / 'C'). -/

theorem gemm_nn_assert_is_nonunit {alpha beta : R} {a b c : Mat} {t : Nat}
    (h : gemm_n_nn false alpha beta a b c = .assertFail t) (hn : b.n1 = c.n1) :
    (a.s0 ≠ 1 ∧ a.s1 ≠ 1) ∨ (b.s0 ≠ 1 ∧ b.s1 ≠ 1) ∨ (c.s0 ≠ 1 ∧ c.s1 ≠ 1) := by
  refine gemm_n_nn.elimAssert h _ ?_ ?_ ?_ ?_ ?_
  · intro hh; exact absurd hn hh.2
  · intro hh; left; have := hh.2; omega
  · intro hh; right; left; have := hh.2; omega
  · intro hh; right; right; have := hh.2; omega
  · intro hg; unfold gemm_n_nn.guard_1 at hg; omega

/-- no column-major operand (p, ld) read with 'N' (element (i,l) at p + i + l·ld) or with 'T'/'C' (at p + l + i·ld) addresses
    the elements base + i·sr + l·sc of a matrix with both strides ≥ 2 and at least 2 rows and 2 columns -/
theorem no_operand_addresses {base sr sc rows cols : Int} (hr : 2 ≤ rows) (hc : 2 ≤ cols) (h0 : 2 ≤ sr) (h1 : 2 ≤ sc) (p ld : Int) :
    ¬ (∀ i l : Int, 0 ≤ i → i < rows → 0 ≤ l → l < cols → p + i + l * ld = base + i * sr + l * sc) ∧
    ¬ (∀ i l : Int, 0 ≤ i → i < rows → 0 ≤ l → l < cols → p + l + i * ld = base + i * sr + l * sc) := by
  constructor
  · intro h
    have e00 := h 0 0 (by omega) (by omega) (by omega) (by omega)
    have e10 := h 1 0 (by omega) (by omega) (by omega) (by omega)
    simp at e00 e10
    omega
  · intro h
    have e00 := h 0 0 (by omega) (by omega) (by omega) (by omega)
    have e01 := h 0 1 (by omega) (by omega) (by omega) (by omega)
    simp at e00 e01
    omega

/-! ## Non-vacuity: the hypotheses of the main theorems are satisfiable -/

macro "dom_dec" : tactic => `(tactic| (simp only [gemmDom, gemmNNDom, gemmCNDom, gemmNCDom, gemvDom, syrkDom, Mat.RowOK, Mat.ColOK, Mat.Lin]; decide))

/-- a 2×3 sub-block of a row-major array with 5 columns, times a 3×2 sub-block (4 columns), into a 2×2 sub-block (6 columns):
    the main leaf (gemm.hpp:59) is taken and lies in its certified domain -/
example : ∃ t cl, gemm_n (R := Int) false 1 2 ⟨0, 5, 1, 2, 3, false⟩ ⟨100, 4, 1, 3, 2, false⟩ ⟨200, 6, 1, 2, 2, false⟩ = .call t cl ∧
    GemmShapes ⟨0, 5, 1, 2, 3, false⟩ ⟨100, 4, 1, 3, 2, false⟩ ⟨200, 6, 1, 2, 2, false⟩ ∧
    gemmDom t ⟨0, 5, 1, 2, 3, false⟩ ⟨100, 4, 1, 3, 2, false⟩ ⟨200, 6, 1, 2, 2, false⟩ :=
  ⟨17, _, rfl, by shapes_dec, by dom_dec⟩

/-- conjugated A (column-major) times B (row-major): leaf 2 of the (conj A) overload -/
example : ∃ t cl, gemm_n (R := GInt) false 1 ⟨2, 1⟩ ⟨0, 1, 4, 2, 3, true⟩ ⟨100, 4, 1, 3, 2, false⟩ ⟨200, 6, 1, 2, 2, false⟩ = .call t cl ∧
    gemmDom t ⟨0, 1, 4, 2, 3, true⟩ ⟨100, 4, 1, 3, 2, false⟩ ⟨200, 6, 1, 2, 2, false⟩ :=
  ⟨2, _, rfl, by dom_dec⟩

/-- gemv on a padded row-major 2×3 matrix with strided vectors -/
example : ∃ t cl, gemv_n (R := Int) false 1 2 ⟨0, 5, 1, 2, 3, false⟩ ⟨100, 2, 3, false⟩ ⟨200, 3, 2, false⟩ = .call t cl ∧
    GemvHyp ⟨0, 5, 1, 2, 3, false⟩ ⟨100, 2, 3, false⟩ ⟨200, 3, 2, false⟩ ∧ gemvDom t ⟨0, 5, 1, 2, 3, false⟩ :=
  ⟨5, _, rfl, ⟨by dom_dec, by decide, by decide, by decide, by decide, rfl, rfl, rfl, rfl⟩, by dom_dec⟩

/-- syrk: row-major 3×2 A into a padded row-major 3×3 C -/
example : ∃ t cl, Gen.syrk (R := Int) false .lower 1 2 ⟨0, 4, 1, 3, 2, false⟩ ⟨200, 5, 1, 3, 3, false⟩ = .call t cl ∧
    SyrkHyp ⟨0, 4, 1, 3, 2, false⟩ ⟨200, 5, 1, 3, 3, false⟩ ∧ syrkDom t ⟨0, 4, 1, 3, 2, false⟩ ⟨200, 5, 1, 3, 3, false⟩ :=
  ⟨1, _, rfl, ⟨by dom_dec, by dom_dec, rfl, rfl, rfl, rfl⟩, by dom_dec⟩

end Multi.C13
