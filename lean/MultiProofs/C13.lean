/-
  MultiProofs.C13 — property C13: the BLAS adaptor gives the mathematical result for every accepted view combination.

  The dispatch chains are the REGENERATED definitions of MultiModel.Gen.BlasDispatch (tools/gen_blas_dispatch.py, from the
  current /repo); the semantics of a call is the reference BLAS of MultiModel.Blas.  This file is written for the source
  WITH the repairs fixes/C13-*.patch applied (legal leading dimensions, the corrected / removed leaves, the added
  assertions): every leaf of `gemm_n`, `gemv_n`, `syrk`, `herk` is then correct and the statements are FULL.  Structure, per chain:

    * `<chain>_branch_<n>_ok`   one lemma per generated leaf: under the view invariants and the leaf's guard, the call of the
                                leaf satisfies the certificate (`GemmOK`, …), hence is legal and computes the mathematical result,
                                changing only the output;
    * `<op>_correct`            the assembly by case analysis (`<chain>.elim`, generated).
  Still partial: `trsm` (legality of every call is proved, the solution is validated by the differential run only),
  `rejected_is_inexpressible` (the library over-rejects, which C13 permits).
-/
import MultiModel.Blas
import MultiModel.BlasFront
import MultiModel.Gen.BlasDispatch
import MultiProofs.BlasLemmas
import MultiProofs.BlasShapes
import MultiProofs.BlasGemm
import MultiProofs.BlasGemv
import MultiProofs.BlasLevel1
import MultiProofs.BlasSyrk
import MultiProofs.BlasHerk
import MultiProofs.BlasTrsm

namespace Multi.C13
open Multi.Blas Multi.Blas.Gen

variable {R : Type} [CRing R]

/-- discharges "the call of this leaf satisfies the certificate": unfolds the certificate to linear integer arithmetic
    (`legalLd` = max is unfolded last, omega understands max) -/
macro "gemm_branch" : tactic => `(tactic| (
  refine ⟨_, rfl, ?_⟩
  unfold GemmOK
  rw [illegal_none_iff]
  simp only [GemmCall.Legal, OutIs, OpIs, Mat.lm, Mat.lmT, isTrans, Mat.Lin, Mat.RowOK, Mat.ColOK] at *
  simp (config := {decide := true}) only [true_and, and_true, true_or, or_true, if_true, if_false, false_and, and_false, false_or, or_false, true_implies, *] at *
  simp only [legalLd] at *
  omega))

macro "wf_dec" : tactic => `(tactic| exact ⟨by decide, by decide, by decide, by decide, by decide⟩)
macro "shapes_dec" : tactic => `(tactic| exact ⟨by wf_dec, by wf_dec, by wf_dec, by decide, by decide, by decide⟩)

/-! ## gemm_n (gemm.hpp), all four overloads -/
section gemm
variable (alpha beta : R) (a b c : Mat)

/-- hypotheses common to the leaves: the view invariants (in linear form), fitting sizes, the conjugation pattern the
    overload is selected for -/
structure GHyp (ca cb : Bool) (a b c : Mat) : Prop where
  la : a.Lin
  lb : b.Lin
  lc : c.Lin
  hm : a.n0 = c.n0
  hk : a.n1 = b.n0
  hn : b.n1 = c.n1
  ha : a.cj = ca
  hb : b.cj = cb
  hc : c.cj = false

theorem GHyp.of {a b c : Mat} {ca cb : Bool} (hs : GemmShapes a b c) (ha : a.cj = ca) (hb : b.cj = cb) (hc : c.cj = false) : GHyp ca cb a b c :=
  ⟨hs.wa.lin, hs.wb.lin, hs.wc.lin, hs.m, hs.k, hs.n, ha, hb, hc⟩

/-- gemm.hpp:69 — A, B, C column-major: C = A·B directly -/
theorem gemm_nn_branch_2_ok (H : GHyp false false a b c) (h : gemm_n_nn.guard_2 a b c) :
    ∃ g, gemm_n_nn.call_2 alpha beta a b c = .gemm g ∧ GemmOK g alpha beta a b c := by
  obtain ⟨la, lb, lc, hm, hk, hn, ha, hb, hc⟩ := H; unfold gemm_n_nn.guard_2 at h; gemm_branch

/-- gemm.hpp:71 — A, B column-major, C row-major: Cᵀ = Bᵀ·Aᵀ, both operands transposed -/
theorem gemm_nn_branch_3_ok (H : GHyp false false a b c) (h : gemm_n_nn.guard_3 a b c) :
    ∃ g, gemm_n_nn.call_3 alpha beta a b c = .gemm g ∧ GemmOK g alpha beta a b c := by
  obtain ⟨la, lb, lc, hm, hk, hn, ha, hb, hc⟩ := H; unfold gemm_n_nn.guard_3 at h; gemm_branch

/-- gemm.hpp:63 — A column-major, B row-major, C column-major -/
theorem gemm_nn_branch_4_ok (H : GHyp false false a b c) (h : gemm_n_nn.guard_4 a b c) :
    ∃ g, gemm_n_nn.call_4 alpha beta a b c = .gemm g ∧ GemmOK g alpha beta a b c := by
  obtain ⟨la, lb, lc, hm, hk, hn, ha, hb, hc⟩ := H; unfold gemm_n_nn.guard_4 at h; gemm_branch

/-- gemm.hpp:61 — A column-major, B and C row-major -/
theorem gemm_nn_branch_5_ok (H : GHyp false false a b c) (h : gemm_n_nn.guard_5 a b c) :
    ∃ g, gemm_n_nn.call_5 alpha beta a b c = .gemm g ∧ GemmOK g alpha beta a b c := by
  obtain ⟨la, lb, lc, hm, hk, hn, ha, hb, hc⟩ := H; unfold gemm_n_nn.guard_5 at h; gemm_branch

/-- gemm.hpp:65 — A row-major, B and C column-major (the leaf that exchanged m and n before the repair) -/
theorem gemm_nn_branch_6_ok (H : GHyp false false a b c) (h : gemm_n_nn.guard_6 a b c) :
    ∃ g, gemm_n_nn.call_6 alpha beta a b c = .gemm g ∧ GemmOK g alpha beta a b c := by
  obtain ⟨la, lb, lc, hm, hk, hn, ha, hb, hc⟩ := H; unfold gemm_n_nn.guard_6 at h; gemm_branch

/-- gemm.hpp:67 — A row-major, B column-major, C row-major -/
theorem gemm_nn_branch_7_ok (H : GHyp false false a b c) (h : gemm_n_nn.guard_7 a b c) :
    ∃ g, gemm_n_nn.call_7 alpha beta a b c = .gemm g ∧ GemmOK g alpha beta a b c := by
  obtain ⟨la, lb, lc, hm, hk, hn, ha, hb, hc⟩ := H; unfold gemm_n_nn.guard_7 at h; gemm_branch

/-- gemm.hpp:59 — A, B row-major, C column-major -/
theorem gemm_nn_branch_8_ok (H : GHyp false false a b c) (h : gemm_n_nn.guard_8 a b c) :
    ∃ g, gemm_n_nn.call_8 alpha beta a b c = .gemm g ∧ GemmOK g alpha beta a b c := by
  obtain ⟨la, lb, lc, hm, hk, hn, ha, hb, hc⟩ := H; unfold gemm_n_nn.guard_8 at h; gemm_branch

/-- gemm.hpp:57 — the main leaf: A, B, C row-major, Cᵀ = Bᵀ·Aᵀ -/
theorem gemm_nn_branch_9_ok (H : GHyp false false a b c) (h : gemm_n_nn.guard_9 a b c) :
    ∃ g, gemm_n_nn.call_9 alpha beta a b c = .gemm g ∧ GemmOK g alpha beta a b c := by
  obtain ⟨la, lb, lc, hm, hk, hn, ha, hb, hc⟩ := H; unfold gemm_n_nn.guard_9 at h; gemm_branch

/-- gemm.hpp:91 — A·conj(B), A and B column-major, C row-major: Cᵀ = Bᴴ·Aᵀ -/
theorem gemm_nc_branch_2_ok (H : GHyp false true a b c) (h : gemm_n_nc.guard_2 a b c) :
    ∃ g, gemm_n_nc.call_2 alpha beta a b c = .gemm g ∧ GemmOK g alpha beta a b c := by
  obtain ⟨la, lb, lc, hm, hk, hn, ha, hb, hc⟩ := H; unfold gemm_n_nc.guard_2 at h; gemm_branch

/-- gemm.hpp:89 — A·conj(B), A row-major, B column-major, C row-major -/
theorem gemm_nc_branch_3_ok (H : GHyp false true a b c) (h : gemm_n_nc.guard_3 a b c) :
    ∃ g, gemm_n_nc.call_3 alpha beta a b c = .gemm g ∧ GemmOK g alpha beta a b c := by
  obtain ⟨la, lb, lc, hm, hk, hn, ha, hb, hc⟩ := H; unfold gemm_n_nc.guard_3 at h; gemm_branch

/-- gemm.hpp:109 — conj(A)·B, A column-major, B and C row-major: Cᵀ = Bᵀ·Aᴴ -/
theorem gemm_cn_branch_2_ok (H : GHyp true false a b c) (h : gemm_n_cn.guard_2 a b c) :
    ∃ g, gemm_n_cn.call_2 alpha beta a b c = .gemm g ∧ GemmOK g alpha beta a b c := by
  obtain ⟨la, lb, lc, hm, hk, hn, ha, hb, hc⟩ := H; unfold gemm_n_cn.guard_2 at h; gemm_branch

/-- gemm.hpp:126 — conj(A)·conj(B), A and B column-major, C row-major: Cᵀ = Bᴴ·Aᴴ -/
theorem gemm_cc_branch_2_ok (H : GHyp true true a b c) (h : gemm_n_cc.guard_2 a b c) :
    ∃ g, gemm_n_cc.call_2 alpha beta a b c = .gemm g ∧ GemmOK g alpha beta a b c := by
  obtain ⟨la, lb, lc, hm, hk, hn, ha, hb, hc⟩ := H; unfold gemm_n_cc.guard_2 at h; gemm_branch

end gemm

theorem gemm_nn_certified {nd : Bool} {alpha beta : R} {a b c : Mat} {t : Nat} {cl : Call R}
    (H : GHyp false false a b c) (h : gemm_n_nn nd alpha beta a b c = .call t cl) : ∃ g, cl = .gemm g ∧ GemmOK g alpha beta a b c := by
  refine gemm_n_nn.elim h (fun _ cl => ∃ g, cl = .gemm g ∧ GemmOK g alpha beta a b c) ?_ ?_ ?_ ?_ ?_ ?_ ?_ ?_
  · exact fun g => gemm_nn_branch_2_ok alpha beta a b c H g
  · exact fun g => gemm_nn_branch_3_ok alpha beta a b c H g
  · exact fun g => gemm_nn_branch_4_ok alpha beta a b c H g
  · exact fun g => gemm_nn_branch_5_ok alpha beta a b c H g
  · exact fun g => gemm_nn_branch_6_ok alpha beta a b c H g
  · exact fun g => gemm_nn_branch_7_ok alpha beta a b c H g
  · exact fun g => gemm_nn_branch_8_ok alpha beta a b c H g
  · exact fun g => gemm_nn_branch_9_ok alpha beta a b c H g

theorem gemm_nc_certified {nd : Bool} {alpha beta : R} {a b c : Mat} {t : Nat} {cl : Call R}
    (H : GHyp false true a b c) (h : gemm_n_nc nd alpha beta a b c = .call t cl) : ∃ g, cl = .gemm g ∧ GemmOK g alpha beta a b c := by
  refine gemm_n_nc.elim h (fun _ cl => ∃ g, cl = .gemm g ∧ GemmOK g alpha beta a b c) ?_ ?_
  · exact fun g => gemm_nc_branch_2_ok alpha beta a b c H g
  · exact fun g => gemm_nc_branch_3_ok alpha beta a b c H g

theorem gemm_cn_certified {nd : Bool} {alpha beta : R} {a b c : Mat} {t : Nat} {cl : Call R}
    (H : GHyp true false a b c) (h : gemm_n_cn nd alpha beta a b c = .call t cl) : ∃ g, cl = .gemm g ∧ GemmOK g alpha beta a b c := by
  refine gemm_n_cn.elim h (fun _ cl => ∃ g, cl = .gemm g ∧ GemmOK g alpha beta a b c) ?_
  · exact fun g => gemm_cn_branch_2_ok alpha beta a b c H g

theorem gemm_cc_certified {nd : Bool} {alpha beta : R} {a b c : Mat} {t : Nat} {cl : Call R}
    (H : GHyp true true a b c) (h : gemm_n_cc nd alpha beta a b c = .call t cl) : ∃ g, cl = .gemm g ∧ GemmOK g alpha beta a b c := by
  refine gemm_n_cc.elim h (fun _ cl => ∃ g, cl = .gemm g ∧ GemmOK g alpha beta a b c) ?_
  · exact fun g => gemm_cc_branch_2_ok alpha beta a b c H g

/-- every call `gemm_n` issues — any overload, any leaf — satisfies the certificate -/
theorem gemm_n_certified {nd : Bool} {alpha beta : R} {a b c : Mat} {t : Nat} {cl : Call R}
    (hs : GemmShapes a b c) (hc : c.cj = false) (h : gemm_n nd alpha beta a b c = .call t cl) :
    ∃ g, cl = .gemm g ∧ GemmOK g alpha beta a b c := by
  unfold gemm_n at h
  cases ha : a.cj <;> cases hb : b.cj <;> simp only [ha, hb] at h
  · exact gemm_nn_certified (GHyp.of hs ha hb hc) h
  · exact gemm_nc_certified (GHyp.of hs ha hb hc) h
  · exact gemm_cn_certified (GHyp.of hs ha hb hc) h
  · exact gemm_cc_certified (GHyp.of hs ha hb hc) h

/-- **dispatch_legal** and **gemm_correct** for `gemm_n` (FULL: all sizes incl. 0 and 1, all strides within the view
    invariants, all scalars, every conjugation pattern, assertion-enabled or NDEBUG build): every call is legal for the reference
    BLAS, its post-state is C := alpha·A·B + beta·C on the logical contents, and no address outside the image of C changes
    (in particular A and B, which do not overlap C, are unchanged). -/
theorem gemm_n_correct {nd : Bool} {alpha beta : R} {a b c : Mat} {t : Nat} {cl : Call R}
    (hs : GemmShapes a b c) (hc : c.cj = false) (h : gemm_n nd alpha beta a b c = .call t cl) :
    ∃ g, cl = .gemm g ∧ g.Legal ∧ ∀ mem : Mem R, GemmSpec alpha beta a b c mem (g.exec mem) := by
  obtain ⟨g, hg, hok⟩ := gemm_n_certified hs hc h
  exact ⟨g, hg, (illegal_none_iff g).mp hok.1, fun mem => gemmOK_sound hc hok mem⟩

/-! ## The gemm front ends (gemm.hpp) -/

theorem load_conj (m : Mat) (mem : Mem R) (i j : Int) : m.conj.load mem i j = CRing.conj (m.load mem i j) := by
  unfold Mat.load Mat.conj cjIf
  cases h : m.cj <;> simp [CRing.conj_conj]

theorem wf_conj {m : Mat} (h : m.WF) : m.conj.WF := ⟨h.n0, h.n1, h.s0, h.s1, h.fam⟩

theorem shapes_conj {a b c : Mat} (h : GemmShapes a b c) : GemmShapes a.conj b.conj c.conj :=
  ⟨wf_conj h.wa, wf_conj h.wb, wf_conj h.wc, h.m, h.k, h.n⟩

/-- conj(C) := conj(alpha)·conj(A)·conj(B) + conj(beta)·conj(C)  is  C := alpha·A·B + beta·C -/
theorem gemmSpec_of_conj {alpha beta : R} {a b c : Mat} {mem mem' : Mem R}
    (h : GemmSpec (CRing.conj alpha) (CRing.conj beta) a.conj b.conj c.conj mem mem') : GemmSpec alpha beta a b c mem mem' := by
  constructor
  · intro i j hi0 hi hj0 hj
    have e := h.elems i j hi0 hi hj0 hj
    have e2 := congrArg CRing.conj e
    rw [load_conj, CRing.conj_conj, CRing.conj_add, CRing.conj_mul, CRing.conj_mul, CRing.conj_conj, CRing.conj_conj, load_conj, CRing.conj_conj, conj_sumZ] at e2
    rw [e2]
    congr 1
    congr 1
    apply sumZ_congr
    intro l _ _
    rw [CRing.conj_mul, load_conj, load_conj, CRing.conj_conj, CRing.conj_conj]
  · intro addr hno
    exact h.frame addr hno

/-- **gemm_correct** — `blas::gemm(alpha, a, b, beta, c)`, any conjugation pattern of A, B and C (FULL): the call is legal, the
    post-state is C := alpha·A·B + beta·C on the LOGICAL contents (conjugations applied), only the image of C is modified. -/
theorem gemm_correct {nd : Bool} {alpha beta : R} {a b c : Mat} {t : Nat} {cl : Call R}
    (hs : GemmShapes a b c) (h : Front.gemm nd alpha beta a b c = .call t cl) :
    ∃ g, cl = .gemm g ∧ g.Legal ∧ ∀ mem : Mem R, GemmSpec alpha beta a b c mem (g.exec mem) := by
  unfold Front.gemm at h
  by_cases c1 : ¬ nd = true ∧ ¬ (a.n0 = c.n0)
  · rw [if_pos c1] at h; cases h
  rw [if_neg c1] at h
  by_cases c2 : ¬ nd = true ∧ ¬ (a.n0 = 0) ∧ ¬ (a.n1 = b.n0)
  · rw [if_pos c2] at h; cases h
  rw [if_neg c2] at h
  cases hc : c.cj
  · simp only [hc, Bool.false_eq_true, if_false] at h
    exact gemm_n_correct hs hc h
  · simp only [hc, if_true] at h
    unfold Front.gemmPlain at h
    by_cases c3 : ¬ nd = true ∧ ¬ (a.conj.n0 = c.conj.n0)
    · rw [if_pos c3] at h; cases h
    rw [if_neg c3] at h
    by_cases c4 : ¬ nd = true ∧ ¬ (a.conj.n0 = 0) ∧ ¬ (a.conj.n1 = b.conj.n0)
    · rw [if_pos c4] at h; cases h
    rw [if_neg c4] at h
    have hc' : c.conj.cj = false := by simp [Mat.conj, hc]
    obtain ⟨g, hg, hl, hsp⟩ := gemm_n_correct (shapes_conj hs) hc' h
    exact ⟨g, hg, hl, fun mem => gemmSpec_of_conj (hsp mem)⟩

/-- `c = blas::gemm(alpha, a, b)` (also `c = a * b`): C := alpha·A·B + 0·C -/
theorem gemm_assign_correct {nd : Bool} {alpha : R} {a b c : Mat} {t : Nat} {cl : Call R}
    (hs : GemmShapes a b c) (hc : c.cj = false) (h : Front.gemmAssign nd alpha a b c = .call t cl) :
    ∃ g, cl = .gemm g ∧ g.Legal ∧ ∀ mem : Mem R, GemmSpec alpha 0 a b c mem (g.exec mem) := by
  unfold Front.gemmAssign at h
  by_cases c0 : ¬ nd = true ∧ gemmRangeChecksInner = true ∧ ¬ (a.n0 = 0) ∧ ¬ (a.n1 = b.n0)
  · rw [if_pos c0] at h; cases h
  rw [if_neg c0] at h
  by_cases c1 : ¬ nd = true ∧ ¬ (c.n0 = a.n0)
  · rw [if_pos c1] at h; cases h
  rw [if_neg c1] at h
  exact gemm_n_correct hs hc h

/-- `c += blas::gemm(alpha, a, b)` (also `c += a * b`): C := alpha·A·B + 1·C -/
theorem gemm_pluseq_correct {nd : Bool} {alpha : R} {a b c : Mat} {t : Nat} {cl : Call R}
    (hs : GemmShapes a b c) (hc : c.cj = false) (h : Front.gemmPlusEq nd alpha a b c = .call t cl) :
    ∃ g, cl = .gemm g ∧ g.Legal ∧ ∀ mem : Mem R, GemmSpec alpha 1 a b c mem (g.exec mem) := by
  unfold Front.gemmPlusEq at h
  by_cases c0 : ¬ nd = true ∧ gemmRangeChecksInner = true ∧ ¬ (a.n0 = 0) ∧ ¬ (a.n1 = b.n0)
  · rw [if_pos c0] at h; cases h
  rw [if_neg c0] at h
  exact gemm_n_correct hs hc h

/-- the lazy forms reject operands whose inner dimensions do not fit (assertion-enabled builds): `gemm(ctxtp, s, a, b)`
    now asserts it, as the in-place `gemm` always did -/
theorem gemm_range_rejects_mismatch {alpha : R} {a b c : Mat} (ha : a.n0 ≠ 0) (hk : a.n1 ≠ b.n0) :
    Front.gemmAssign false alpha a b c = .assertFail 0 ∧ Front.gemmPlusEq false alpha a b c = .assertFail 0 := by
  unfold Front.gemmAssign Front.gemmPlusEq
  have e : (¬ false = true ∧ gemmRangeChecksInner = true ∧ ¬ (a.n0 = 0) ∧ ¬ (a.n1 = b.n0)) := ⟨by decide, by decide, ha, hk⟩
  rw [if_pos e, if_pos e]
  exact ⟨rfl, rfl⟩

/-! ## gemv (gemv.hpp) -/
section gemv
variable [DecidableEq R]

macro "gemv_branch" : tactic => `(tactic| (
  refine ⟨_, rfl, ?_⟩
  unfold GemvOK
  rw [gemv_illegal_none_iff]
  simp only [GemvCall.Legal, OpIs, Mat.lm, isTrans, Mat.Lin, Mat.RowOK, Mat.ColOK] at *
  simp (config := {decide := true}) only [true_and, and_true, true_or, or_true, if_true, if_false, false_and, and_false, false_or, or_false, ne_eq, not_true_eq_false, not_false_eq_true, Decidable.not_not, true_implies, *] at *
  simp only [legalLd] at *
  omega))

/-- view invariants and fitting sizes for y := alpha·M·x + beta·y (x and y are plain vectors: conjugated ones do not compile) -/
structure GemvHyp (m : Mat) (x y : Vec) : Prop where
  lm : m.Lin
  xn : 0 ≤ x.n
  xi : 1 ≤ x.inc
  yn : 0 ≤ y.n
  yi : 1 ≤ y.inc
  hm : m.n0 = y.n
  hk : m.n1 = x.n
  hx : x.cj = false
  hy : y.cj = false

omit [DecidableEq R] in
/-- gemv.hpp:30 — M column-major: 'N' -/
theorem gemv_branch_5_ok (alpha beta : R) (m : Mat) (x y : Vec) (H : GemvHyp m x y) (h : gemv_n.guard_5 m x y) :
    ∃ g, gemv_n.call_5 alpha beta m x y = .gemv g ∧ GemvOK g alpha beta m x y := by
  obtain ⟨lm, xn, xi, yn, yi, hm, hk, hx, hy⟩ := H; unfold gemv_n.guard_5 at h; gemv_branch

omit [DecidableEq R] in
/-- gemv.hpp:31 — M row-major: 'T' on the transposed storage -/
theorem gemv_branch_6_ok (alpha beta : R) (m : Mat) (x y : Vec) (H : GemvHyp m x y) (h : gemv_n.guard_6 m x y) :
    ∃ g, gemv_n.call_6 alpha beta m x y = .gemv g ∧ GemvOK g alpha beta m x y := by
  obtain ⟨lm, xn, xi, yn, yi, hm, hk, hx, hy⟩ := H; unfold gemv_n.guard_6 at h; gemv_branch

omit [DecidableEq R] in
/-- gemv.hpp:34 — conj(M), M row-major: 'C' -/
theorem gemv_branch_3_ok (alpha beta : R) (m : Mat) (x y : Vec) (H : GemvHyp m x y) (h : gemv_n.guard_3 m x y) :
    ∃ g, gemv_n.call_3 alpha beta m x y = .gemv g ∧ GemvOK g alpha beta m x y := by
  obtain ⟨lm, xn, xi, yn, yi, hm, hk, hx, hy⟩ := H
  unfold gemv_n.guard_3 at h
  have hcj : m.cj = true := by cases hh : m.cj <;> simp_all
  gemv_branch

/-- gemv.hpp:28 — a matrix without columns: y := beta·y by xSCAL (xGEMV would return without scaling y) -/
theorem gemv_branch_2_ok (alpha beta : R) (m : Mat) (x y : Vec) (H : GemvHyp m x y) (h : gemv_n.guard_2 m x y) :
    ∃ g, gemv_n.call_2 alpha beta m x y = .scal g ∧ ∀ mem : Mem R, GemvSpec alpha beta m x y mem (g.execScal mem) := by
  refine ⟨_, rfl, fun mem => ?_⟩
  unfold gemv_n.guard_2 at h
  have hs := scal_sound (g := (⟨m.n0, beta, y.base, y.inc, 0, 0⟩ : L1Call R)) (x := y) H.hm rfl rfl H.hy H.yi rfl mem
  have hz : m.n1 = 0 := h
  constructor
  · intro i hi0 hi
    rw [hs.elems i hi0 hi, hz]
    show beta * y.load mem i = alpha * sumTo 0 _ + beta * y.load mem i
    unfold sumTo
    rw [mul_zero', CRing.zero_add]
  · exact hs.frame

/-- **gemv_correct** for `gemv_n` (FULL): whatever leaf is taken, the call is legal and the post-state is
    y := alpha·M·x + beta·y on the logical contents; nothing but the image of y changes. -/
theorem gemv_n_correct {nd cplx : Bool} {alpha beta : R} {m : Mat} {x y : Vec} {t : Nat} {cl : Call R}
    (H : GemvHyp m x y) (h : gemv_n nd alpha beta m x y = .call t cl) :
    cl.illegalL cplx false = none ∧ ∀ mem : Mem R, GemvSpec alpha beta m x y mem (cl.execL cplx false mem) := by
  refine gemv_n.elim h (fun _ cl => cl.illegalL cplx false = none ∧ ∀ mem : Mem R, GemvSpec alpha beta m x y mem (cl.execL cplx false mem)) ?_ ?_ ?_ ?_
  · intro g
    obtain ⟨c, hc, hsp⟩ := gemv_branch_2_ok alpha beta m x y H g
    rw [hc]; exact ⟨rfl, hsp⟩
  · intro g
    obtain ⟨c, hc, hok⟩ := gemv_branch_3_ok alpha beta m x y H g
    rw [hc]; exact ⟨hok.1, fun mem => gemvOK_sound hok mem⟩
  · intro g
    obtain ⟨c, hc, hok⟩ := gemv_branch_5_ok alpha beta m x y H g
    rw [hc]; exact ⟨hok.1, fun mem => gemvOK_sound hok mem⟩
  · intro g
    obtain ⟨c, hc, hok⟩ := gemv_branch_6_ok alpha beta m x y H g
    rw [hc]; exact ⟨hok.1, fun mem => gemvOK_sound hok mem⟩

/-- `blas::gemv(alpha, M, x, beta, y)` -/
theorem gemv_correct {nd cplx : Bool} {alpha beta : R} {m : Mat} {x y : Vec} {t : Nat} {cl : Call R}
    (H : GemvHyp m x y) (h : Front.gemv nd alpha beta m x y = .call t cl) :
    cl.illegalL cplx false = none ∧ ∀ mem : Mem R, GemvSpec alpha beta m x y mem (cl.execL cplx false mem) := by
  unfold Front.gemv at h
  by_cases c1 : ¬ nd = true ∧ ¬ (m.n0 = y.n)
  · rw [if_pos c1] at h; cases h
  rw [if_neg c1] at h
  by_cases c2 : ¬ nd = true ∧ ¬ (m.n1 = x.n)
  · rw [if_pos c2] at h; cases h
  rw [if_neg c2] at h
  exact gemv_n_correct H h

/-- `y = blas::gemv(alpha, M, x)`: beta = 0 -/
theorem gemv_assign_correct {nd cplx : Bool} {alpha : R} {m : Mat} {x y : Vec} {t : Nat} {cl : Call R}
    (H : GemvHyp m x y) (h : Front.gemvAssign nd alpha m x y = .call t cl) :
    cl.illegalL cplx false = none ∧ ∀ mem : Mem R, GemvSpec alpha 0 m x y mem (cl.execL cplx false mem) := by
  unfold Front.gemvAssign at h
  by_cases c1 : ¬ nd = true ∧ ¬ (m.n1 = x.n)
  · rw [if_pos c1] at h; cases h
  rw [if_neg c1] at h
  by_cases c2 : ¬ nd = true ∧ ¬ (y.n = m.n0)
  · rw [if_pos c2] at h; cases h
  rw [if_neg c2] at h
  exact gemv_n_correct H h

/-- `y += blas::gemv(alpha, M, x)`: beta = 1 -/
theorem gemv_pluseq_correct {nd cplx : Bool} {alpha : R} {m : Mat} {x y : Vec} {t : Nat} {cl : Call R}
    (H : GemvHyp m x y) (h : Front.gemvPlusEq nd alpha m x y = .call t cl) :
    cl.illegalL cplx false = none ∧ ∀ mem : Mem R, GemvSpec alpha 1 m x y mem (cl.execL cplx false mem) := by
  unfold Front.gemvPlusEq at h
  by_cases c1 : ¬ nd = true ∧ ¬ (m.n1 = x.n)
  · rw [if_pos c1] at h; cases h
  rw [if_neg c1] at h
  exact gemv_n_correct H h

end gemv

/-! ## syrk (syrk.hpp; also reached by `herk` on real element types) -/
section syrk

macro "syrk_branch" s:ident c:ident : tactic => `(tactic| (
  refine ⟨_, rfl, ?_⟩
  unfold SyrkOK
  rw [syrk_illegal_none_iff]
  cases $s:ident <;> cases $c:ident <;>
  (simp only [RankKCall.LegalSyrk, OutIs, RkIs, Mat.lm, Mat.lmT, Mat.Lin, Mat.RowOK, Mat.ColOK, Filling.char, Filling.flip] at *
   simp (config := {decide := true}) only [true_and, and_true, true_or, or_true, if_true, if_false, false_and, and_false, false_or, or_false, ne_eq, not_true_eq_false, not_false_eq_true, true_implies, *] at *
   simp only [legalLd] at *
   omega)))

/-- view invariants for C := alpha·A·Aᵀ + beta·C: C square, as many rows as A, nothing conjugated, and — what syrk.hpp:22-23
    assert — A and C have a unit stride (anything else is not a BLAS matrix) -/
structure SyrkHyp (a c : Mat) : Prop where
  la : a.Lin
  lc : c.Lin
  hn : a.n0 = c.n0
  hsq : c.n1 = c.n0
  ha : a.cj = false
  hc : c.cj = false
  ua : a.s0 = 1 ∨ a.s1 = 1
  uc : c.s0 = 1 ∨ c.s1 = 1

variable (cplx : Bool) (side : Filling) (alpha beta : R) (a c : Mat)

/-- syrk.hpp:34 — A and C row-major -/
theorem syrk_branch_1_ok (H : SyrkHyp a c) (h : syrk.guard_1 side a c) :
    ∃ g, syrk.call_1 side alpha beta a c = .syrk g ∧ SyrkOK g cplx alpha beta side a c := by
  obtain ⟨la, lc, hn, hsq, ha, hc, ua, uc⟩ := H; unfold syrk.guard_1 at h; syrk_branch side cplx

/-- syrk.hpp:28 — A column-major, C row-major -/
theorem syrk_branch_2_ok (H : SyrkHyp a c) (h : syrk.guard_2 side a c) :
    ∃ g, syrk.call_2 side alpha beta a c = .syrk g ∧ SyrkOK g cplx alpha beta side a c := by
  obtain ⟨la, lc, hn, hsq, ha, hc, ua, uc⟩ := H; unfold syrk.guard_2 at h; syrk_branch side cplx

/-- syrk.hpp:26 — A and C column-major -/
theorem syrk_branch_3_ok (H : SyrkHyp a c) (h : syrk.guard_3 side a c) :
    ∃ g, syrk.call_3 side alpha beta a c = .syrk g ∧ SyrkOK g cplx alpha beta side a c := by
  obtain ⟨la, lc, hn, hsq, ha, hc, ua, uc⟩ := H; unfold syrk.guard_3 at h; syrk_branch side cplx

/-- syrk.hpp:32 — A row-major, C column-major -/
theorem syrk_branch_4_ok (H : SyrkHyp a c) (h : syrk.guard_4 side a c) :
    ∃ g, syrk.call_4 side alpha beta a c = .syrk g ∧ SyrkOK g cplx alpha beta side a c := by
  obtain ⟨la, lc, hn, hsq, ha, hc, ua, uc⟩ := H; unfold syrk.guard_4 at h; syrk_branch side cplx

end syrk

/-- **syrk_correct** (FULL): whatever leaf is taken, the xSYRK call is legal and C := alpha·A·Aᵀ + beta·C on the `side` triangle
    of the logical matrix; nothing else (in particular the other triangle) changes. -/
theorem syrk_correct [DecidableEq R] {nd cplx : Bool} {side : Filling} {alpha beta : R} {a c : Mat} {t : Nat} {cl : Call R}
    (H : SyrkHyp a c) (h : Gen.syrk nd side alpha beta a c = .call t cl) :
    ∃ g, cl = .syrk g ∧ g.LegalSyrk cplx ∧ ∀ mem : Mem R, SyrkSpec alpha beta side a c mem (g.execSyrk cplx mem) := by
  have key : ∃ g, cl = .syrk g ∧ SyrkOK g cplx alpha beta side a c := by
    refine syrk.elim h (fun _ cl => ∃ g, cl = .syrk g ∧ SyrkOK g cplx alpha beta side a c) ?_ ?_ ?_ ?_
    · exact fun g => syrk_branch_1_ok cplx side alpha beta a c H g
    · exact fun g => syrk_branch_2_ok cplx side alpha beta a c H g
    · exact fun g => syrk_branch_3_ok cplx side alpha beta a c H g
    · exact fun g => syrk_branch_4_ok cplx side alpha beta a c H g
  obtain ⟨g, hg, hok⟩ := key
  exact ⟨g, hg, (syrk_illegal_none_iff g cplx).mp hok.1, fun mem => syrkOK_sound H.hc hok mem⟩

/-- syrk.hpp:22-23 — in an assertion-enabled build a matrix A or C without a unit stride is rejected before any call -/
theorem syrk_nonunit_rejected {side : Filling} {alpha beta : R} {a c : Mat}
    (h : ¬ (a.s0 = 1 ∨ a.s1 = 1) ∨ ¬ (c.s0 = 1 ∨ c.s1 = 1)) :
    ∃ t, Gen.syrk false side alpha beta a c = .assertFail t := by
  unfold Gen.syrk
  by_cases c1 : ¬ false = true ∧ ¬ (c.n0 = c.n1)
  · rw [if_pos c1]; exact ⟨_, rfl⟩
  rw [if_neg c1]
  by_cases c2 : ¬ false = true ∧ ¬ ((a.s0 = 1) ∨ (a.s1 = 1))
  · rw [if_pos c2]; exact ⟨_, rfl⟩
  rw [if_neg c2]
  by_cases c3 : ¬ false = true ∧ ¬ ((c.s0 = 1) ∨ (c.s1 = 1))
  · rw [if_pos c3]; exact ⟨_, rfl⟩
  exfalso
  rcases h with h | h
  · exact c2 ⟨by decide, h⟩
  · exact c3 ⟨by decide, h⟩

/-! ## herk, complex element types (herk.hpp) — for a non-conjugated C -/
section herk

macro "herk_branch" s:ident : tactic => `(tactic| (
  refine ⟨_, rfl, ?_⟩
  unfold HerkOK
  rw [herk_illegal_none_iff]
  cases $s:ident <;>
  (simp only [RankKCall.LegalHerk, OutIs, RkIsU, Mat.lm, Mat.lmT, Mat.Lin, Mat.RowOK, Mat.ColOK, Filling.char, Filling.flip] at *
   simp (config := {decide := true}) only [true_and, and_true, true_or, or_true, if_true, if_false, false_and, and_false, false_or, or_false, ne_eq, not_true_eq_false, not_false_eq_true, Decidable.not_not, true_implies, *] at *
   simp only [legalLd] at *
   omega)))

/-- view invariants for C := alpha·A·Aᴴ + beta·C: C square and not conjugated, as many rows as A, and — what herk.hpp:112-113
    assert — A and C have a unit stride -/
structure HerkHyp (a c : Mat) : Prop where
  la : a.Lin
  lc : c.Lin
  hn : a.n0 = c.n0
  hsq : c.n1 = c.n0
  hc : c.cj = false
  ua : a.s0 = 1 ∨ a.s1 = 1
  uc : c.s0 = 1 ∨ c.s1 = 1

variable (side : Filling) (alpha beta : R) (a c : Mat)

/-- herk.hpp:142 — A and C column-major -/
theorem herk_branch_1_ok (H : HerkHyp a c) (h : herk_plain.guard_1 side a c) :
    ∃ g, herk_plain.call_1 side alpha beta a c = .herk g ∧ HerkOK g alpha beta side a c := by
  obtain ⟨la, lc, hn, hsq, hc, ua, uc⟩ := H; unfold herk_plain.guard_1 at h
  have hcj : a.cj = false := by cases hh : a.cj <;> simp_all
  herk_branch side

/-- herk.hpp:138 — a single row A (row-major) into a 1×1 C: the `uplo` of the call is the one of the other triangle, which for a
    1×1 matrix is the same cell -/
theorem herk_branch_4_ok (H : HerkHyp a c) (h : herk_plain.guard_4 side a c) :
    ∃ g, herk_plain.call_4 side alpha beta a c = .herk g ∧ HerkOK g alpha beta side.flip a c := by
  obtain ⟨la, lc, hn, hsq, hc, ua, uc⟩ := H; unfold herk_plain.guard_4 at h
  have hcj : a.cj = false := by cases hh : a.cj <;> simp_all
  herk_branch side

/-- herk.hpp:136 — A and C row-major: Cᵀ = (Aᴴ)ᴴ·Aᴴ with the 'C' flag on the stored k×n matrix -/
theorem herk_branch_5_ok (H : HerkHyp a c) (h : herk_plain.guard_5 side a c) :
    ∃ g, herk_plain.call_5 side alpha beta a c = .herk g ∧ HerkOK g alpha beta side a c := by
  obtain ⟨la, lc, hn, hsq, hc, ua, uc⟩ := H; unfold herk_plain.guard_5 at h
  have hcj : a.cj = false := by cases hh : a.cj <;> simp_all
  herk_branch side

/-- herk.hpp:128 — conj(A) with a single row, contiguous 1×1 C -/
theorem herk_branch_8_ok (H : HerkHyp a c) (h : herk_plain.guard_8 side a c) :
    ∃ g, herk_plain.call_8 side alpha beta a c = .herk g ∧ HerkOK g alpha beta side a c := by
  obtain ⟨la, lc, hn, hsq, hc, ua, uc⟩ := H; unfold herk_plain.guard_8 at h
  have hcj : a.cj = true := by cases hh : a.cj <;> simp_all
  herk_branch side

/-- herk.hpp:126 — conj(A) column-major, C row-major -/
theorem herk_branch_9_ok (H : HerkHyp a c) (h : herk_plain.guard_9 side a c) :
    ∃ g, herk_plain.call_9 side alpha beta a c = .herk g ∧ HerkOK g alpha beta side a c := by
  obtain ⟨la, lc, hn, hsq, hc, ua, uc⟩ := H; unfold herk_plain.guard_9 at h
  have hcj : a.cj = true := by cases hh : a.cj <;> simp_all
  herk_branch side

/-- herk.hpp:131 — conj(A) row-major, C column-major -/
theorem herk_branch_10_ok (H : HerkHyp a c) (h : herk_plain.guard_10 side a c) :
    ∃ g, herk_plain.call_10 side alpha beta a c = .herk g ∧ HerkOK g alpha beta side a c := by
  obtain ⟨la, lc, hn, hsq, hc, ua, uc⟩ := H; unfold herk_plain.guard_10 at h
  have hcj : a.cj = true := by cases hh : a.cj <;> simp_all
  herk_branch side

end herk

/-- on a matrix C with at most one row the two triangles are the same cell -/
theorem herkSpec_single_flip {alpha beta : R} {side : Filling} {a c : Mat} {mem mem' : Mem R} (h1 : c.n0 ≤ 1) (hsq : c.n1 = c.n0)
    (h : HerkSpec alpha beta side.flip a c mem mem') : HerkSpec alpha beta side a c mem mem' := by
  refine ⟨?_, h.diag, ?_⟩
  · intro i j hi0 hi hj0 hj _ hne
    omega
  · intro addr hno
    apply h.frame
    rintro ⟨i, j, hi0, hi, hj0, hj, _, hadr⟩
    apply hno
    have hi' : i = 0 := by omega
    have hj' : j = 0 := by omega
    subst hi'; subst hj'
    refine ⟨0, 0, hi0, hi, hj0, hj, ?_, hadr⟩
    cases side <;> exact Int.le_refl 0

/-- **herk_correct** (FULL for a non-conjugated C), Hermitian input (real diagonal): whatever leaf is taken, the xHERK call is
    legal and C := alpha·A·Aᴴ + beta·C on the `side` triangle (the diagonal loses its imaginary part), nothing else changes.
    Stated for `herk_plain`, which IS `herk` for a non-conjugated C (`herk_eq_plain`). -/
theorem herk_correct [DecidableEq R] {nd : Bool} {side : Filling} {alpha beta : R} {a c : Mat} {t : Nat} {cl : Call R}
    (H : HerkHyp a c) (h : herk_plain nd side alpha beta a c = .call t cl) :
    ∃ g, cl = .herk g ∧ g.LegalHerk ∧
      ∀ mem : Mem R, (∀ i : Int, 0 ≤ i → i < c.n0 → CRing.conj (c.load mem i i) = c.load mem i i) → HerkSpec alpha beta side a c mem (g.execHerk mem) := by
  refine herk_plain.elim h (fun _ cl => ∃ g, cl = .herk g ∧ g.LegalHerk ∧
      ∀ mem : Mem R, (∀ i : Int, 0 ≤ i → i < c.n0 → CRing.conj (c.load mem i i) = c.load mem i i) → HerkSpec alpha beta side a c mem (g.execHerk mem)) ?_ ?_ ?_ ?_ ?_ ?_
  · intro gd
    obtain ⟨g, hg, hok⟩ := herk_branch_1_ok side alpha beta a c H gd
    exact ⟨g, hg, (herk_illegal_none_iff g).mp hok.1, fun mem hdg => herkOK_sound H.hc hok mem hdg⟩
  · intro gd
    obtain ⟨g, hg, hok⟩ := herk_branch_4_ok side alpha beta a c H gd
    have h1 : c.n0 ≤ 1 := by have := gd.2.2.2.2.2; have := H.hn; omega
    exact ⟨g, hg, (herk_illegal_none_iff g).mp hok.1, fun mem hdg => herkSpec_single_flip h1 H.hsq (herkOK_sound H.hc hok mem hdg)⟩
  · intro gd
    obtain ⟨g, hg, hok⟩ := herk_branch_5_ok side alpha beta a c H gd
    exact ⟨g, hg, (herk_illegal_none_iff g).mp hok.1, fun mem hdg => herkOK_sound H.hc hok mem hdg⟩
  · intro gd
    obtain ⟨g, hg, hok⟩ := herk_branch_8_ok side alpha beta a c H gd
    exact ⟨g, hg, (herk_illegal_none_iff g).mp hok.1, fun mem hdg => herkOK_sound H.hc hok mem hdg⟩
  · intro gd
    obtain ⟨g, hg, hok⟩ := herk_branch_9_ok side alpha beta a c H gd
    exact ⟨g, hg, (herk_illegal_none_iff g).mp hok.1, fun mem hdg => herkOK_sound H.hc hok mem hdg⟩
  · intro gd
    obtain ⟨g, hg, hok⟩ := herk_branch_10_ok side alpha beta a c H gd
    exact ⟨g, hg, (herk_illegal_none_iff g).mp hok.1, fun mem hdg => herkOK_sound H.hc hok mem hdg⟩

/-- for a non-conjugated C the complex `herk` runs exactly `herk_plain` -/
theorem herk_eq_plain {nd : Bool} {side : Filling} {alpha beta : R} {a c : Mat} (hc : c.cj = false) :
    Gen.herk nd side alpha beta a c = herk_plain nd side alpha beta a c := by
  unfold Gen.herk herk_plain
  simp only [hc, Bool.false_eq_true, if_false]
  rfl

/-! ## level 1: axpy, scal, copy, swap, dot (axpy.hpp, scal.hpp, copy.hpp, swap.hpp, dot.hpp) -/
section level1

/-- **axpy_correct** — `blas::axpy(alpha, x, y)` (also `y += alpha*x`, `y += x`, `y -= x` with the corresponding scalar):
    y := alpha·x + y on the logical contents; only the image of y changes.  Plain vectors with positive strides. -/
theorem axpy_correct {nd : Bool} {alpha : R} {x y : Vec} {t : Nat} {cl : Call R}
    (hx : x.cj = false) (hy : y.cj = false) (hxi : 1 ≤ x.inc) (hyi : 1 ≤ y.inc)
    (h : Front.axpy nd alpha x y = .call t cl) :
    ∃ g, cl = .axpy g ∧ ∀ mem : Mem R, AxpySpec alpha x y mem (g.execAxpy mem) := by
  unfold Front.axpy at h
  by_cases c1 : ¬ nd = true ∧ ¬ (x.n = y.n)
  · rw [if_pos c1] at h; cases h
  rw [if_neg c1] at h
  unfold axpy_n at h
  injection h with _ hc
  subst hc
  exact ⟨_, rfl, fun mem => axpy_sound (g := ⟨y.n, alpha, x.base, x.inc, y.base, y.inc⟩) ⟨rfl, rfl, rfl, rfl, rfl, hx, hy, hxi, hyi⟩ rfl mem⟩

/-- `y += blas::axpy(alpha, x)` / `y -= blas::axpy(alpha, x)` (the latter with -alpha): needs the sizes to agree, which the
    range form asserts only in assertion-enabled builds -/
theorem axpy_range_correct {nd : Bool} {alpha : R} {x y : Vec} {t : Nat} {cl : Call R}
    (hx : x.cj = false) (hy : y.cj = false) (hxi : 1 ≤ x.inc) (hyi : 1 ≤ y.inc) (hn : x.n = y.n)
    (h : Front.axpyRange nd alpha x y = .call t cl) :
    ∃ g, cl = .axpy g ∧ ∀ mem : Mem R, AxpySpec alpha x y mem (g.execAxpy mem) := by
  unfold Front.axpyRange at h
  by_cases c1 : ¬ nd = true ∧ ¬ (y.n = x.n)
  · rw [if_pos c1] at h; cases h
  rw [if_neg c1] at h
  unfold axpy_n at h
  injection h with _ hc
  subst hc
  exact ⟨_, rfl, fun mem => axpy_sound (g := ⟨x.n, alpha, x.base, x.inc, y.base, y.inc⟩) ⟨hn, rfl, rfl, rfl, rfl, hx, hy, hxi, hyi⟩ rfl mem⟩

/-- **scal_correct** — `blas::scal(alpha, x)` / `x *= alpha` -/
theorem scal_correct {nd : Bool} {alpha : R} {x : Vec} {t : Nat} {cl : Call R}
    (hx : x.cj = false) (hxi : 1 ≤ x.inc) (h : Front.scal nd alpha x = .call t cl) :
    ∃ g, cl = .scal g ∧ ∀ mem : Mem R, ScalSpec alpha x mem (g.execScal mem) := by
  unfold Front.scal scal_n at h
  injection h with _ hc
  subst hc
  exact ⟨_, rfl, fun mem => scal_sound (g := ⟨x.n, alpha, x.base, x.inc, 0, 0⟩) rfl rfl rfl hx hxi rfl mem⟩

/-- **copy_correct** — `blas::copy(x, y)` / `y << x` -/
theorem copy_correct {nd : Bool} {x y : Vec} {t : Nat} {cl : Call R}
    (hx : x.cj = false) (hy : y.cj = false) (hxi : 1 ≤ x.inc) (hyi : 1 ≤ y.inc) (hn : x.n = y.n)
    (h : Front.copy nd x y = .call t cl) :
    ∃ g, cl = .copy g ∧ ∀ mem : Mem R, CopySpec x y mem (g.execCopy mem) := by
  unfold Front.copy at h
  by_cases c1 : ¬ nd = true ∧ ¬ (x.n = y.n)
  · rw [if_pos c1] at h; cases h
  rw [if_neg c1] at h
  unfold copy_n at h
  injection h with _ hc
  subst hc
  exact ⟨_, rfl, fun mem => copy_sound (g := ⟨x.n, 0, x.base, x.inc, y.base, y.inc⟩) ⟨hn, rfl, rfl, rfl, rfl, hx, hy, hxi, hyi⟩ mem⟩

/-- `y = blas::copy(x)` -/
theorem copy_assign_correct {nd : Bool} {x y : Vec} {t : Nat} {cl : Call R}
    (hx : x.cj = false) (hy : y.cj = false) (hxi : 1 ≤ x.inc) (hyi : 1 ≤ y.inc) (hn : x.n = y.n)
    (h : Front.copyAssign nd x y = .call t cl) :
    ∃ g, cl = .copy g ∧ ∀ mem : Mem R, CopySpec x y mem (g.execCopy mem) := by
  unfold Front.copyAssign at h
  by_cases c1 : ¬ nd = true ∧ ¬ (y.n = x.n)
  · rw [if_pos c1] at h; cases h
  rw [if_neg c1] at h
  unfold copy_n at h
  injection h with _ hc
  subst hc
  exact ⟨_, rfl, fun mem => copy_sound (g := ⟨x.n, 0, x.base, x.inc, y.base, y.inc⟩) ⟨hn, rfl, rfl, rfl, rfl, hx, hy, hxi, hyi⟩ mem⟩

/-- **swap_correct** — `blas::swap(x, y)` for views that do not overlap -/
theorem swap_correct {nd : Bool} {x y : Vec} {t : Nat} {cl : Call R}
    (hx : x.cj = false) (hy : y.cj = false) (hxi : 1 ≤ x.inc) (hyi : 1 ≤ y.inc) (hn : x.n = y.n)
    (hdis : ∀ i j : Int, 0 ≤ i → i < x.n → 0 ≤ j → j < y.n → x.addr i ≠ y.addr j)
    (h : Front.swap nd x y = .call t cl) :
    ∃ g, cl = .swap g ∧ ∀ mem : Mem R, SwapSpec x y mem (g.execSwap mem) := by
  unfold Front.swap at h
  by_cases c1 : ¬ nd = true ∧ ¬ (x.n = y.n)
  · rw [if_pos c1] at h; cases h
  rw [if_neg c1] at h
  unfold swap_n at h
  injection h with _ hc
  subst hc
  exact ⟨_, rfl, fun mem => swap_sound (g := ⟨x.n, 0, x.base, x.inc, y.base, y.inc⟩) ⟨hn, rfl, rfl, rfl, rfl, hx, hy, hxi, hyi⟩ hn hdis mem⟩


theorem dotResult_dot {ty : Char} {g : L1Call R} {mem : Mem R} :
    Front.dotResult ty (.dot g) mem = some (dotVal false g.n g.x g.incx g.y g.incy mem) := by
  simp only [Front.dotResult]
  rw [if_neg]
  intro c
  exact absurd c.2.2 (by decide)

theorem dotResult_dotu {ty : Char} {g : L1Call R} {mem : Mem R} :
    Front.dotResult ty (.dotu g) mem = some (dotVal false g.n g.x g.incx g.y g.incy mem) := by
  simp only [Front.dotResult]
  rw [if_neg]
  intro c
  exact absurd c.2 (by decide)

theorem dotResult_dotc {ty : Char} {g : L1Call R} {mem : Mem R} :
    Front.dotResult ty (.dotc g) mem = some (dotVal true g.n g.x g.incx g.y g.incy mem) := rfl

/-- Σ x_i·y_i on the logical contents -/
def dotSpec (x y : Vec) (mem : Mem R) : R := sumZ x.n (fun i => x.load mem i * y.load mem i)

/-- **dot_correct** (FULL) — `blas::dot(x, y)` with x, y, or one of them conjugated (`blas::C`), any element type `ty`: a value
    IS delivered (also for empty vectors: core.hpp guards its xGEMV calls, `coreDotGemvGuardsEmpty`) and it is Σ x_i·y_i on the
    logical contents; memory is not modified by the routine. -/
theorem dot_correct {nd cplx : Bool} {ty : Char} {x y : Vec} {t : Nat} {cl : Call R} (mem : Mem R)
    (hn : x.n = y.n) (hc : cplx = false → x.cj = false ∧ y.cj = false)
    (h : Front.dot nd cplx x y = .call t cl) : Front.dotResult ty cl mem = some (dotSpec x y mem) := by
  unfold Front.dot at h
  by_cases c1 : ¬ nd = true ∧ ¬ (x.n = y.n)
  · rw [if_pos c1] at h; cases h
  rw [if_neg c1] at h
  unfold dotSpec
  refine dot_n.elim h (fun _ cl => Front.dotResult ty cl mem = some (sumZ x.n (fun i => x.load mem i * y.load mem i))) ?_ ?_ ?_ ?_
  · -- dotc(x_u, y): x conjugated
    intro g
    unfold dot_n.guard_2 at g
    have hx : x.cj = true := by cases hh : x.cj <;> cases hh2 : y.cj <;> simp_all
    have hy : y.cj = false := by cases hh : x.cj <;> cases hh2 : y.cj <;> simp_all
    unfold dot_n.call_2
    rw [dotResult_dotc]
    congr 1
    unfold dotVal
    apply sumZ_congr
    intro i _ _
    unfold Vec.load
    rw [hx, hy]
    rfl
  · -- dotc(y_u, x): y conjugated
    intro g
    unfold dot_n.guard_3 at g
    have hx : x.cj = false := by cases hh : x.cj <;> cases hh2 : y.cj <;> simp_all
    have hy : y.cj = true := by cases hh : x.cj <;> cases hh2 : y.cj <;> simp_all
    unfold dot_n.call_3
    rw [dotResult_dotc]
    congr 1
    unfold dotVal
    apply sumZ_congr
    intro i _ _
    unfold Vec.load
    rw [hx, hy, CRing.mul_comm]
    rfl
  · -- dotu(x, y)
    intro g
    unfold dot_n.guard_4 at g
    have hx : x.cj = false := by cases hh : x.cj <;> cases hh2 : y.cj <;> simp_all
    have hy : y.cj = false := by cases hh : x.cj <;> cases hh2 : y.cj <;> simp_all
    unfold dot_n.call_4
    rw [dotResult_dotu]
    congr 1
    unfold dotVal
    apply sumZ_congr
    intro i _ _
    unfold Vec.load
    rw [hx, hy]
    rfl
  · -- real dot(x, y)
    intro g
    unfold dot_n.guard_5 at g
    have hcf : cplx = false := by cases hh : cplx <;> simp_all
    obtain ⟨hx, hy⟩ := hc hcf
    unfold dot_n.call_5
    rw [dotResult_dot]
    congr 1
    unfold dotVal
    apply sumZ_congr
    intro i _ _
    unfold Vec.load
    rw [hx, hy]
    rfl

end level1

/-! ## dispatch_legal (FULL, every build)

  Every call a dispatch chain issues is legal for the reference BLAS (no XERBLA), whether or not assertions are compiled in.
  For gemm, gemv, syrk and herk this is part of the certificates above (`GemmOK`, `GemvOK`, `SyrkOK`, `HerkOK` contain
  `illegal = none`); here the corollary for gemm and the statement for trsm (whose result is validated by the differential
  run only). -/

/-- every xGEMM call of `gemm_n` is legal -/
theorem gemm_dispatch_legal {nd : Bool} {alpha beta : R} {a b c : Mat} {t : Nat} {cl : Call R}
    (hs : GemmShapes a b c) (hc : c.cj = false) (h : gemm_n nd alpha beta a b c = .call t cl) :
    ∃ g, cl = .gemm g ∧ g.illegal = none := by
  obtain ⟨g, hg, hok⟩ := gemm_n_certified hs hc h
  exact ⟨g, hg, hok.1⟩

def trsmLegal : Call R → Prop
  | .trsm g => g.Legal
  | _ => True

macro "trsm_legal_leaf" s:ident f:ident d:ident : tactic => `(tactic| (
  intro hg
  cases $s:ident <;> cases $f:ident <;> cases $d:ident <;>
  (simp only [Mat.Lin, legalLd] at *
   simp (config := {decide := true}) only [trsmLegal, TrsmCall.Legal, isTrans, Side.char, Side.swap, Filling.char, Filling.flip, Diag.char, true_and, and_true, if_true, if_false, true_or, or_true, true_implies, reduceCtorEq, false_implies, ne_eq, not_true_eq_false, not_false_eq_true] at *
   omega)))

/-- **dispatch_legal for trsm (FULL).**  A is (at least) as large as the side of B it multiplies (trsm.hpp:82-83 assert it) and
    A and B have a unit stride (trsm.hpp:84-85): every xTRSM call is legal, in particular the leading dimension of a
    right-hand side with a single row or column (`legal_ld`). -/
theorem trsm_dispatch_legal {nd : Bool} {side : Side} {fill : Filling} {diag : Diag} {alpha : R} {a b : Mat} {t : Nat} {cl : Call R}
    (wa : a.WF) (wb : b.WF)
    (hl : side = .left → b.n0 ≤ a.n0 ∧ b.n0 ≤ a.n1) (hr : side = .right → b.n1 ≤ a.n0 ∧ b.n1 ≤ a.n1)
    (h : Gen.trsm nd side fill diag alpha a b = .call t cl) : trsmLegal cl := by
  have la := wa.lin
  have lb := wb.lin
  refine trsm.elim h (fun _ cl => trsmLegal cl) ?_ ?_ ?_ ?_ ?_ ?_ ?_ ?_ ?_
  · unfold trsm.call_2; trsm_legal_leaf side fill diag
  · unfold trsm.call_3; trsm_legal_leaf side fill diag
  · unfold trsm.call_5; trsm_legal_leaf side fill diag
  · unfold trsm.call_6; trsm_legal_leaf side fill diag
  · unfold trsm.call_8; trsm_legal_leaf side fill diag
  · unfold trsm.call_10; trsm_legal_leaf side fill diag
  · unfold trsm.call_11; trsm_legal_leaf side fill diag
  · unfold trsm.call_12; trsm_legal_leaf side fill diag
  · unfold trsm.call_13; trsm_legal_leaf side fill diag

/-! ## rejected_is_inexpressible (partial)

  FULL statement: whenever a front end rejects (assertion or exception), no legal BLAS call computes the operation.  It is
  FALSE for the current code: the conjugated overloads of `gemm_n` throw "not BLAS-implemented" for combinations xGEMM can
  express (by the mirror-image call, or by a call on the conjugate-transposed C) and some they cannot; herk rejects conj(A)
  row-major into a row-major C, where xHERK would deliver the complex conjugate.  Over-rejection does not violate C13.
  What is proved: an assertion failure of the main overload means that some operand has no unit stride (or the sizes of B
  and C differ), and an operand with two non-unit strides and at least 2×2 elements cannot be addressed by ANY column-major
  operand descriptor (pointer, leading dimension, 'N' / 'T' / 'C'). -/

theorem gemm_nn_assert_is_nonunit {alpha beta : R} {a b c : Mat} {t : Nat}
    (h : gemm_n_nn false alpha beta a b c = .assertFail t) (hn : b.n1 = c.n1) :
    (a.s0 ≠ 1 ∧ a.s1 ≠ 1) ∨ (b.s0 ≠ 1 ∧ b.s1 ≠ 1) ∨ (c.s0 ≠ 1 ∧ c.s1 ≠ 1) := by
  refine gemm_n_nn.elimAssert h _ ?_ ?_ ?_ ?_ ?_
  · intro hh; exact absurd hn hh.2
  · intro hh; left; have := hh.2; omega
  · intro hh; right; left; have := hh.2; omega
  · intro hh; right; right; have := hh.2; omega
  · intro hg; unfold gemm_n_nn.guard_1 at hg; omega

/-- no column-major operand (p, ld) read with 'N' (element (i,l) at p + i + l·ld) or with 'T'/'C' (at p + l + i·ld) addresses
    the elements base + i·sr + l·sc of a matrix with both strides ≥ 2 and at least 2 rows and 2 columns -/
theorem no_operand_addresses {base sr sc rows cols : Int} (hr : 2 ≤ rows) (hc : 2 ≤ cols) (h0 : 2 ≤ sr) (h1 : 2 ≤ sc) (p ld : Int) :
    ¬ (∀ i l : Int, 0 ≤ i → i < rows → 0 ≤ l → l < cols → p + i + l * ld = base + i * sr + l * sc) ∧
    ¬ (∀ i l : Int, 0 ≤ i → i < rows → 0 ≤ l → l < cols → p + l + i * ld = base + i * sr + l * sc) := by
  constructor
  · intro h
    have e00 := h 0 0 (by omega) (by omega) (by omega) (by omega)
    have e10 := h 1 0 (by omega) (by omega) (by omega) (by omega)
    simp at e00 e10
    omega
  · intro h
    have e00 := h 0 0 (by omega) (by omega) (by omega) (by omega)
    have e01 := h 0 1 (by omega) (by omega) (by omega) (by omega)
    simp at e00 e01
    omega


/-! ## Non-vacuity: the hypotheses of the main theorems are satisfiable and every kind of leaf is reached -/

/-- a 2×3 sub-block of a row-major array with 5 columns, times a 3×2 sub-block (4 columns), into a 2×2 sub-block (6 columns) -/
example : ∃ t cl, gemm_n (R := Int) false 1 2 ⟨0, 5, 1, 2, 3, false⟩ ⟨100, 4, 1, 3, 2, false⟩ ⟨200, 6, 1, 2, 2, false⟩ = .call t cl ∧
    GemmShapes ⟨0, 5, 1, 2, 3, false⟩ ⟨100, 4, 1, 3, 2, false⟩ ⟨200, 6, 1, 2, 2, false⟩ :=
  ⟨_, _, rfl, by shapes_dec⟩

/-- a single row times a matrix (the shape the removed `a_count == 1` special cases were for): a general leaf is taken -/
example : ∃ t cl, gemm_n (R := Int) true 1 0 ⟨0, 3, 1, 1, 3, false⟩ ⟨100, 1, 3, 3, 2, false⟩ ⟨200, 1, 1, 1, 2, false⟩ = .call t cl ∧
    GemmShapes ⟨0, 3, 1, 1, 3, false⟩ ⟨100, 1, 3, 3, 2, false⟩ ⟨200, 1, 1, 1, 2, false⟩ :=
  ⟨_, _, rfl, by shapes_dec⟩

/-- conjugated A (column-major) times B (row-major) into a row-major C: the one leaf of the (conj A) overload -/
example : ∃ t cl, gemm_n (R := GInt) false 1 ⟨2, 1⟩ ⟨0, 1, 4, 2, 3, true⟩ ⟨100, 4, 1, 3, 2, false⟩ ⟨200, 6, 1, 2, 2, false⟩ = .call t cl ∧
    GemmShapes ⟨0, 1, 4, 2, 3, true⟩ ⟨100, 4, 1, 3, 2, false⟩ ⟨200, 6, 1, 2, 2, false⟩ :=
  ⟨_, _, rfl, by shapes_dec⟩

/-- gemv on a padded row-major 2×3 matrix with strided vectors -/
example : ∃ t cl, gemv_n (R := Int) false 1 2 ⟨0, 5, 1, 2, 3, false⟩ ⟨100, 2, 3, false⟩ ⟨200, 3, 2, false⟩ = .call t cl ∧
    GemvHyp ⟨0, 5, 1, 2, 3, false⟩ ⟨100, 2, 3, false⟩ ⟨200, 3, 2, false⟩ :=
  ⟨_, _, rfl, ⟨by simp only [Mat.Lin]; decide, by decide, by decide, by decide, by decide, rfl, rfl, rfl, rfl⟩⟩

/-- gemv with a matrix without columns: the xSCAL leaf -/
example : gemv_n (R := Int) true 1 2 ⟨0, 1, 1, 2, 0, false⟩ ⟨100, 1, 0, false⟩ ⟨200, 1, 2, false⟩ = .call 2 (gemv_n.call_2 1 2 ⟨0, 1, 1, 2, 0, false⟩ ⟨100, 1, 0, false⟩ ⟨200, 1, 2, false⟩) := rfl

/-- syrk: row-major 3×2 A into a padded row-major 3×3 C -/
example : ∃ t cl, Gen.syrk (R := Int) false .lower 1 2 ⟨0, 4, 1, 3, 2, false⟩ ⟨200, 5, 1, 3, 3, false⟩ = .call t cl ∧
    SyrkHyp ⟨0, 4, 1, 3, 2, false⟩ ⟨200, 5, 1, 3, 3, false⟩ :=
  ⟨_, _, rfl, ⟨by simp only [Mat.Lin]; decide, by simp only [Mat.Lin]; decide, rfl, rfl, rfl, rfl, by decide, by decide⟩⟩

/-- herk: conj(A) column-major 3×2 into a row-major 3×3 C -/
example : ∃ t cl, herk_plain (R := GInt) true .upper 1 ⟨2, 0⟩ ⟨0, 1, 3, 3, 2, true⟩ ⟨200, 3, 1, 3, 3, false⟩ = .call t cl ∧
    HerkHyp ⟨0, 1, 3, 3, 2, true⟩ ⟨200, 3, 1, 3, 3, false⟩ :=
  ⟨_, _, rfl, ⟨by simp only [Mat.Lin]; decide, by simp only [Mat.Lin]; decide, rfl, rfl, rfl, by decide, by decide⟩⟩

/-- dot of empty float vectors delivers 0 -/
example : Front.dotResult 's' (dot_n.call_5 (R := Int) 0 ⟨0, 1, 0, false⟩ ⟨100, 1, 0, false⟩) (fun a => a) = some 0 := by decide

end Multi.C13
