import MultiModel.Blas
import MultiModel.BlasFront
namespace Multi.C13
open Multi.Blas
theorem placeholder : maxI 1 0 = 1 := by decide
end Multi.C13
