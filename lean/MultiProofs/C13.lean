/-
  MultiProofs.C13 — property C13: the BLAS adaptor gives the mathematical result for every accepted view combination.

  The dispatch chains are the REGENERATED definitions of MultiModel.Gen.BlasDispatch (tools/gen_blas_dispatch.py, from the
  current /repo); the semantics of a call is the reference BLAS of MultiModel.Blas.  Structure, per chain:

    * `<chain>_branch_<n>_ok`   one lemma per generated leaf that is correct: under the view invariants (`GemmShapes`, …), the
                                leaf's guard and the stated domain `Dom`, the call of the leaf satisfies the certificate
                                (`GemmOK`, …), hence is legal and computes the mathematical result, changing only the output;
    * `finding_<chain>_branch_<n>`  for every leaf that is wrong (or wrong outside its domain): a concrete operand tuple inside
                                the view invariants on which the leaf's call is illegal or its post-state is not the product;
    * `<op>_correct_partial`    the assembly by case analysis (`<chain>.elim`, generated): whenever the chain issues a call
                                from a leaf inside its certified domain, the post-state is the specification.  The FULL
                                statement (no domain restriction) is FALSE for the current code — see the findings.
-/
import MultiModel.Blas
import MultiModel.BlasFront
import MultiModel.Gen.BlasDispatch
import MultiProofs.BlasLemmas
import MultiProofs.BlasShapes
import MultiProofs.BlasGemm

namespace Multi.C13
open Multi.Blas Multi.Blas.Gen

variable {R : Type} [CRing R]

/-- discharges "the call of this leaf satisfies the certificate": unfolds the certificate to linear integer arithmetic -/
macro "gemm_branch" : tactic => `(tactic| (
  refine ⟨_, rfl, ?_⟩
  unfold GemmOK
  rw [illegal_none_iff]
  simp only [GemmCall.Legal, OutIs, OpIs, Mat.lm, Mat.lmT, isTrans, Mat.Lin, Mat.RowOK, Mat.ColOK] at *
  simp (config := {decide := true}) only [true_and, and_true, true_or, or_true, if_true, if_false, false_and, and_false, false_or, or_false, *] at *
  omega))

macro "wf_dec" : tactic => `(tactic| exact ⟨by decide, by decide, by decide, by decide, by decide⟩)
macro "shapes_dec" : tactic => `(tactic| exact ⟨by wf_dec, by wf_dec, by wf_dec, by decide, by decide, by decide⟩)

/-- memory used by the concrete counterexamples: distinct small values -/
def wmem : Mem Int := fun a => a * a + 1

/-! ## gemm_n, overload for non-conjugated A and B (gemm.hpp:45-86) -/
section nn
variable (alpha beta : R) (a b c : Mat)

/-- hypotheses common to the leaves: the view invariants (in linear form), fitting sizes, no conjugation -/
structure NNHyp (a b c : Mat) : Prop where
  la : a.Lin
  lb : b.Lin
  lc : c.Lin
  hm : a.n0 = c.n0
  hk : a.n1 = b.n0
  hn : b.n1 = c.n1
  ha : a.cj = false
  hb : b.cj = false
  hc : c.cj = false

theorem NNHyp.of {a b c : Mat} (hs : GemmShapes a b c) (ha : a.cj = false) (hb : b.cj = false) (hc : c.cj = false) : NNHyp a b c :=
  ⟨hs.wa.lin, hs.wb.lin, hs.wc.lin, hs.m, hs.k, hs.n, ha, hb, hc⟩

/-- gemm.hpp:80 — A, B, C column-major: C = A·B directly -/
theorem gemm_nn_branch_2_ok (H : NNHyp a b c) (h : gemm_n_nn.guard_2 a b c) (d : a.ColOK ∧ b.ColOK ∧ c.ColOK) :
    ∃ g, gemm_n_nn.call_2 alpha beta a b c = .gemm g ∧ GemmOK g alpha beta a b c := by
  obtain ⟨la, lb, lc, hm, hk, hn, ha, hb, hc⟩ := H; unfold gemm_n_nn.guard_2 at h; gemm_branch

/-- gemm.hpp:79 — column-major, B a single column -/
theorem gemm_nn_branch_3_ok (H : NNHyp a b c) (h : gemm_n_nn.guard_3 a b c) (d : a.ColOK ∧ b.ColOK) :
    ∃ g, gemm_n_nn.call_3 alpha beta a b c = .gemm g ∧ GemmOK g alpha beta a b c := by
  obtain ⟨la, lb, lc, hm, hk, hn, ha, hb, hc⟩ := H; unfold gemm_n_nn.guard_3 at h; gemm_branch

/-- gemm.hpp:82 — A, B column-major, C row-major: Cᵀ = Bᵀ·Aᵀ with both operands transposed -/
theorem gemm_nn_branch_4_ok (H : NNHyp a b c) (h : gemm_n_nn.guard_4 a b c) (d : a.ColOK ∧ b.ColOK ∧ c.RowOK) :
    ∃ g, gemm_n_nn.call_4 alpha beta a b c = .gemm g ∧ GemmOK g alpha beta a b c := by
  obtain ⟨la, lb, lc, hm, hk, hn, ha, hb, hc⟩ := H; unfold gemm_n_nn.guard_4 at h; gemm_branch

/-- gemm.hpp:68 — A column-major, B row-major, C column-major -/
theorem gemm_nn_branch_5_ok (H : NNHyp a b c) (h : gemm_n_nn.guard_5 a b c) (d : a.ColOK ∧ b.RowOK ∧ c.ColOK) :
    ∃ g, gemm_n_nn.call_5 alpha beta a b c = .gemm g ∧ GemmOK g alpha beta a b c := by
  obtain ⟨la, lb, lc, hm, hk, hn, ha, hb, hc⟩ := H; unfold gemm_n_nn.guard_5 at h; gemm_branch

/-- gemm.hpp:65 — A column-major, B and C row-major -/
theorem gemm_nn_branch_7_ok (H : NNHyp a b c) (h : gemm_n_nn.guard_7 a b c) (d : a.ColOK ∧ b.RowOK ∧ c.RowOK) :
    ∃ g, gemm_n_nn.call_7 alpha beta a b c = .gemm g ∧ GemmOK g alpha beta a b c := by
  obtain ⟨la, lb, lc, hm, hk, hn, ha, hb, hc⟩ := H; unfold gemm_n_nn.guard_7 at h; gemm_branch

/-- gemm.hpp:64 — the `a_count==1` variant of the previous leaf passes ldc = a_count = 1: legal only for a single column of C
    (for more columns core::gemm throws "failed 'ldc >= max(1, m)'" in every build: rejected, not miscomputed) -/
theorem gemm_nn_branch_8_ok (H : NNHyp a b c) (h : gemm_n_nn.guard_8 a b c) (d : a.ColOK ∧ b.RowOK ∧ c.n1 ≤ 1) :
    ∃ g, gemm_n_nn.call_8 alpha beta a b c = .gemm g ∧ GemmOK g alpha beta a b c := by
  obtain ⟨la, lb, lc, hm, hk, hn, ha, hb, hc⟩ := H; unfold gemm_n_nn.guard_8 at h; gemm_branch

/-- gemm.hpp:70 — 1×k times k×1: correct; with k = 0 the leading dimension `(*a_first).size()` = 0 is illegal for the
    reference BLAS (OpenBLAS accepts it) -/
theorem gemm_nn_branch_10_ok (H : NNHyp a b c) (h : gemm_n_nn.guard_10 a b c) (d : 1 ≤ a.n1) :
    ∃ g, gemm_n_nn.call_10 alpha beta a b c = .gemm g ∧ GemmOK g alpha beta a b c := by
  obtain ⟨la, lb, lc, hm, hk, hn, ha, hb, hc⟩ := H; unfold gemm_n_nn.guard_10 at h; gemm_branch

/-- gemm.hpp:77 — A row-major, B column-major, C row-major -/
theorem gemm_nn_branch_13_ok (H : NNHyp a b c) (h : gemm_n_nn.guard_13 a b c) (d : a.RowOK ∧ b.ColOK ∧ c.RowOK) :
    ∃ g, gemm_n_nn.call_13 alpha beta a b c = .gemm g ∧ GemmOK g alpha beta a b c := by
  obtain ⟨la, lb, lc, hm, hk, hn, ha, hb, hc⟩ := H; unfold gemm_n_nn.guard_13 at h; gemm_branch

/-- gemm.hpp:62 — A, B row-major, C column-major -/
theorem gemm_nn_branch_15_ok (H : NNHyp a b c) (h : gemm_n_nn.guard_15 a b c) (d : a.RowOK ∧ b.RowOK ∧ c.ColOK) :
    ∃ g, gemm_n_nn.call_15 alpha beta a b c = .gemm g ∧ GemmOK g alpha beta a b c := by
  obtain ⟨la, lb, lc, hm, hk, hn, ha, hb, hc⟩ := H; unfold gemm_n_nn.guard_15 at h; gemm_branch

/-- gemm.hpp:59 — the main leaf: A, B, C row-major, Cᵀ = Bᵀ·Aᵀ -/
theorem gemm_nn_branch_17_ok (H : NNHyp a b c) (h : gemm_n_nn.guard_17 a b c) (d : a.RowOK ∧ b.RowOK ∧ c.RowOK) :
    ∃ g, gemm_n_nn.call_17 alpha beta a b c = .gemm g ∧ GemmOK g alpha beta a b c := by
  obtain ⟨la, lb, lc, hm, hk, hn, ha, hb, hc⟩ := H; unfold gemm_n_nn.guard_17 at h; gemm_branch

/-- gemm.hpp:57 — 1×k times k×1, everything row-major: passes `(*b_first).size()` = 1 as the leading dimension of B:
    right only when B is contiguous (stride 1) or k ≤ 1 -/
theorem gemm_nn_branch_18_ok (H : NNHyp a b c) (h : gemm_n_nn.guard_18 a b c) (d : (b.s0 = 1 ∨ a.n1 ≤ 1) ∧ 1 ≤ a.n1) :
    ∃ g, gemm_n_nn.call_18 alpha beta a b c = .gemm g ∧ GemmOK g alpha beta a b c := by
  obtain ⟨la, lb, lc, hm, hk, hn, ha, hb, hc⟩ := H; unfold gemm_n_nn.guard_18 at h; gemm_branch

/-- gemm.hpp:58 — 1×k times k×n, row-major -/
theorem gemm_nn_branch_19_ok (H : NNHyp a b c) (h : gemm_n_nn.guard_19 a b c) (d : b.RowOK ∧ 1 ≤ a.n1 ∧ 1 ≤ b.n1) :
    ∃ g, gemm_n_nn.call_19 alpha beta a b c = .gemm g ∧ GemmOK g alpha beta a b c := by
  obtain ⟨la, lb, lc, hm, hk, hn, ha, hb, hc⟩ := H; unfold gemm_n_nn.guard_19 at h; gemm_branch

/-- the domain in which each leaf of `gemm_n_nn` is certified (False: the leaf is wrong, see `finding_gemm_nn_branch_*`) -/
def gemmNNDom (t : Nat) (a b c : Mat) : Prop :=
  match t with
  | 2 => a.ColOK ∧ b.ColOK ∧ c.ColOK
  | 3 => a.ColOK ∧ b.ColOK
  | 4 => a.ColOK ∧ b.ColOK ∧ c.RowOK
  | 5 => a.ColOK ∧ b.RowOK ∧ c.ColOK
  | 7 => a.ColOK ∧ b.RowOK ∧ c.RowOK
  | 8 => a.ColOK ∧ b.RowOK ∧ c.n1 ≤ 1
  | 10 => 1 ≤ a.n1
  | 13 => a.RowOK ∧ b.ColOK ∧ c.RowOK
  | 15 => a.RowOK ∧ b.RowOK ∧ c.ColOK
  | 17 => a.RowOK ∧ b.RowOK ∧ c.RowOK
  | 18 => (b.s0 = 1 ∨ a.n1 ≤ 1) ∧ 1 ≤ a.n1
  | 19 => b.RowOK ∧ 1 ≤ a.n1 ∧ 1 ≤ b.n1
  | _ => False

end nn

/-- assembly for the non-conjugated overload: every call issued from a leaf inside its certified domain satisfies the certificate -/
theorem gemm_nn_certified {nd : Bool} {alpha beta : R} {a b c : Mat} {t : Nat} {cl : Call R}
    (H : NNHyp a b c) (h : gemm_n_nn nd alpha beta a b c = .call t cl) (hd : gemmNNDom t a b c) :
    ∃ g, cl = .gemm g ∧ GemmOK g alpha beta a b c := by
  revert hd
  refine gemm_n_nn.elim h (fun t cl => gemmNNDom t a b c → ∃ g, cl = .gemm g ∧ GemmOK g alpha beta a b c)
    ?_ ?_ ?_ ?_ ?_ ?_ ?_ ?_ ?_ ?_ ?_ ?_ ?_ ?_ ?_ ?_ ?_ ?_
  · exact fun g d => gemm_nn_branch_2_ok alpha beta a b c H g d
  · exact fun g d => gemm_nn_branch_3_ok alpha beta a b c H g d
  · exact fun g d => gemm_nn_branch_4_ok alpha beta a b c H g d
  · exact fun g d => gemm_nn_branch_5_ok alpha beta a b c H g d
  · exact fun _ d => d.elim
  · exact fun g d => gemm_nn_branch_7_ok alpha beta a b c H g d
  · exact fun g d => gemm_nn_branch_8_ok alpha beta a b c H g d
  · exact fun _ d => d.elim
  · exact fun g d => gemm_nn_branch_10_ok alpha beta a b c H g d
  · exact fun _ d => d.elim
  · exact fun _ d => d.elim
  · exact fun g d => gemm_nn_branch_13_ok alpha beta a b c H g d
  · exact fun _ d => d.elim
  · exact fun g d => gemm_nn_branch_15_ok alpha beta a b c H g d
  · exact fun _ d => d.elim
  · exact fun g d => gemm_nn_branch_17_ok alpha beta a b c H g d
  · exact fun g d => gemm_nn_branch_18_ok alpha beta a b c H g d
  · exact fun g d => gemm_nn_branch_19_ok alpha beta a b c H g d

/-! ## gemm_n, overloads with a conjugated operand (gemm.hpp:88-148) -/
section conj
variable (alpha beta : R) (a b c : Mat)

/-- hypotheses for an overload: invariants, fitting sizes, the conjugation pattern the overload is selected for -/
structure CHyp (ca cb : Bool) (a b c : Mat) : Prop where
  la : a.Lin
  lb : b.Lin
  lc : c.Lin
  hm : a.n0 = c.n0
  hk : a.n1 = b.n0
  hn : b.n1 = c.n1
  ha : a.cj = ca
  hb : b.cj = cb
  hc : c.cj = false

/-- gemm.hpp:103 — A·conj(B) with A row-major, B column-major, C row-major: Cᵀ = Bᴴ·Aᵀ -/
theorem gemm_nc_branch_5_ok (H : CHyp false true a b c) (h : gemm_n_nc.guard_5 a b c) (d : a.RowOK ∧ b.ColOK ∧ c.RowOK) :
    ∃ g, gemm_n_nc.call_5 alpha beta a b c = .gemm g ∧ GemmOK g alpha beta a b c := by
  obtain ⟨la, lb, lc, hm, hk, hn, ha, hb, hc⟩ := H; unfold gemm_n_nc.guard_5 at h; gemm_branch

/-- gemm.hpp:128 — conj(A)·B with A column-major, B and C row-major: Cᵀ = Bᵀ·Aᴴ -/
theorem gemm_cn_branch_2_ok (H : CHyp true false a b c) (h : gemm_n_cn.guard_2 a b c) (d : a.ColOK ∧ b.RowOK ∧ c.RowOK) :
    ∃ g, gemm_n_cn.call_2 alpha beta a b c = .gemm g ∧ GemmOK g alpha beta a b c := by
  obtain ⟨la, lb, lc, hm, hk, hn, ha, hb, hc⟩ := H; unfold gemm_n_cn.guard_2 at h; gemm_branch

/-- gemm.hpp:127 — the `a_count==1` variant passes ldc = `(*a_first).size()` = k: legal only when n ≤ k
    (otherwise core::gemm throws "failed 'ldc >= max(1, m)'": rejected) -/
theorem gemm_cn_branch_3_ok (H : CHyp true false a b c) (h : gemm_n_cn.guard_3 a b c) (d : a.ColOK ∧ b.RowOK ∧ c.n1 ≤ a.n1 ∧ 1 ≤ a.n1) :
    ∃ g, gemm_n_cn.call_3 alpha beta a b c = .gemm g ∧ GemmOK g alpha beta a b c := by
  obtain ⟨la, lb, lc, hm, hk, hn, ha, hb, hc⟩ := H; unfold gemm_n_cn.guard_3 at h; gemm_branch

def gemmNCDom (t : Nat) (a b c : Mat) : Prop :=
  match t with
  | 5 => a.RowOK ∧ b.ColOK ∧ c.RowOK
  | _ => False     -- 2, 3, 4, 6, 7: wrong (finding_gemm_nc_branch_*)

def gemmCNDom (t : Nat) (a b c : Mat) : Prop :=
  match t with
  | 2 => a.ColOK ∧ b.RowOK ∧ c.RowOK
  | 3 => a.ColOK ∧ b.RowOK ∧ c.n1 ≤ a.n1 ∧ 1 ≤ a.n1
  | _ => False

/-- the only leaf of the (conj A, conj B) overload is wrong (finding_gemm_cc_branch_2) -/
def gemmCCDom (_t : Nat) (_a _b _c : Mat) : Prop := False

end conj

theorem gemm_nc_certified {nd : Bool} {alpha beta : R} {a b c : Mat} {t : Nat} {cl : Call R}
    (H : CHyp false true a b c) (h : gemm_n_nc nd alpha beta a b c = .call t cl) (hd : gemmNCDom t a b c) :
    ∃ g, cl = .gemm g ∧ GemmOK g alpha beta a b c := by
  revert hd
  refine gemm_n_nc.elim h (fun t cl => gemmNCDom t a b c → ∃ g, cl = .gemm g ∧ GemmOK g alpha beta a b c) ?_ ?_ ?_ ?_ ?_ ?_
  · exact fun _ d => d.elim
  · exact fun _ d => d.elim
  · exact fun _ d => d.elim
  · exact fun g d => gemm_nc_branch_5_ok alpha beta a b c H g d
  · exact fun _ d => d.elim
  · exact fun _ d => d.elim

theorem gemm_cn_certified {nd : Bool} {alpha beta : R} {a b c : Mat} {t : Nat} {cl : Call R}
    (H : CHyp true false a b c) (h : gemm_n_cn nd alpha beta a b c = .call t cl) (hd : gemmCNDom t a b c) :
    ∃ g, cl = .gemm g ∧ GemmOK g alpha beta a b c := by
  revert hd
  refine gemm_n_cn.elim h (fun t cl => gemmCNDom t a b c → ∃ g, cl = .gemm g ∧ GemmOK g alpha beta a b c) ?_ ?_
  · exact fun g d => gemm_cn_branch_2_ok alpha beta a b c H g d
  · exact fun g d => gemm_cn_branch_3_ok alpha beta a b c H g d

/-- the certified domain of `gemm_n` as a whole (overload selected by the conjugation of A and B) -/
def gemmDom (t : Nat) (a b c : Mat) : Prop :=
  match a.cj, b.cj with
  | false, false => gemmNNDom t a b c
  | false, true => gemmNCDom t a b c
  | true, false => gemmCNDom t a b c
  | true, true => gemmCCDom t a b c

/-- **gemm_n: certified leaves.**  For operands within the view invariants, whenever `gemm_n` issues a call from a leaf
    inside its certified domain, the call satisfies the certificate `GemmOK`. -/
theorem gemm_n_certified {nd : Bool} {alpha beta : R} {a b c : Mat} {t : Nat} {cl : Call R}
    (hs : GemmShapes a b c) (hc : c.cj = false) (h : gemm_n nd alpha beta a b c = .call t cl) (hd : gemmDom t a b c) :
    ∃ g, cl = .gemm g ∧ GemmOK g alpha beta a b c := by
  unfold gemm_n at h
  unfold gemmDom at hd
  cases ha : a.cj <;> cases hb : b.cj <;> simp only [ha, hb] at h hd
  · exact gemm_nn_certified (NNHyp.of hs ha hb hc) h hd
  · exact gemm_nc_certified ⟨hs.wa.lin, hs.wb.lin, hs.wc.lin, hs.m, hs.k, hs.n, ha, hb, hc⟩ h hd
  · exact gemm_cn_certified ⟨hs.wa.lin, hs.wb.lin, hs.wc.lin, hs.m, hs.k, hs.n, ha, hb, hc⟩ h hd
  · exact hd.elim

/-- **dispatch_legal (partial)** and **gemm_correct (partial)** for `gemm_n`: inside the certified domain the call is
    legal for the reference BLAS, its post-state is C := alpha·A·B + beta·C on the logical contents, and no address outside
    the image of C changes (in particular A and B, which do not overlap C, are unchanged).

    FULL statement (FALSE for the current code, see `finding_gemm_*`): the same without `hd`. -/
theorem gemm_n_correct_partial {nd : Bool} {alpha beta : R} {a b c : Mat} {t : Nat} {cl : Call R}
    (hs : GemmShapes a b c) (hc : c.cj = false) (h : gemm_n nd alpha beta a b c = .call t cl) (hd : gemmDom t a b c) :
    ∃ g, cl = .gemm g ∧ g.Legal ∧ ∀ mem : Mem R, GemmSpec alpha beta a b c mem (g.exec mem) := by
  obtain ⟨g, hg, hok⟩ := gemm_n_certified hs hc h hd
  exact ⟨g, hg, (illegal_none_iff g).mp hok.1, fun mem => gemmOK_sound hc hok mem⟩

/-! ## dispatch_legal in assertion-enabled builds (FULL for gemm)

  `core::gemm` (core.hpp:513-533) re-checks the leading dimensions with BOOST_MULTI_ASSERT1, which throws when NDEBUG is not
  defined.  Hence in an assertion-enabled build every call of `gemm_n` that reaches the Fortran routine is legal — the wrong
  leading dimensions of the special-case leaves surface as `std::logic_error` (a rejection), not as a silent XERBLA return.
  With NDEBUG only the `ldc` check remains and the statement is false (findings with "illegal" in their description). -/

def callLegal : Call R → Prop
  | .gemm g => g.Legal
  | _ => True

macro "legal_leaf" : tactic => `(tactic| (
  intro _ hc
  simp only [Front.coreThrows] at hc
  simp at hc
  simp only [maxI_le_iff, le_maxI_iff, Mat.Lin] at *
  simp (config := {decide := true}) only [callLegal, GemmCall.Legal, isTrans, true_and, and_true, if_true, if_false]
  omega))

theorem gemm_n_nn_legal_debug {alpha beta : R} {a b c : Mat} {t : Nat} {cl : Call R}
    (la : a.Lin) (lb : b.Lin) (lc : c.Lin)
    (h : gemm_n_nn false alpha beta a b c = .call t cl) (hc : Front.coreThrows false cl = false) : callLegal cl := by
  revert hc
  refine gemm_n_nn.elim h (fun t cl => Front.coreThrows false cl = false → callLegal cl) ?_ ?_ ?_ ?_ ?_ ?_ ?_ ?_ ?_ ?_ ?_ ?_ ?_ ?_ ?_ ?_ ?_ ?_
  · unfold gemm_n_nn.call_2; legal_leaf
  · unfold gemm_n_nn.call_3; legal_leaf
  · unfold gemm_n_nn.call_4; legal_leaf
  · unfold gemm_n_nn.call_5; legal_leaf
  · unfold gemm_n_nn.call_6; legal_leaf
  · unfold gemm_n_nn.call_7; legal_leaf
  · unfold gemm_n_nn.call_8; legal_leaf
  · unfold gemm_n_nn.call_9; legal_leaf
  · unfold gemm_n_nn.call_10; legal_leaf
  · unfold gemm_n_nn.call_11; legal_leaf
  · unfold gemm_n_nn.call_12; legal_leaf
  · unfold gemm_n_nn.call_13; legal_leaf
  · unfold gemm_n_nn.call_14; legal_leaf
  · unfold gemm_n_nn.call_15; legal_leaf
  · unfold gemm_n_nn.call_16; legal_leaf
  · unfold gemm_n_nn.call_17; legal_leaf
  · unfold gemm_n_nn.call_18; legal_leaf
  · unfold gemm_n_nn.call_19; legal_leaf

theorem gemm_n_nc_legal_debug {alpha beta : R} {a b c : Mat} {t : Nat} {cl : Call R}
    (la : a.Lin) (lb : b.Lin) (lc : c.Lin)
    (h : gemm_n_nc false alpha beta a b c = .call t cl) (hc : Front.coreThrows false cl = false) : callLegal cl := by
  revert hc
  refine gemm_n_nc.elim h (fun t cl => Front.coreThrows false cl = false → callLegal cl) ?_ ?_ ?_ ?_ ?_ ?_
  · unfold gemm_n_nc.call_2; legal_leaf
  · unfold gemm_n_nc.call_3; legal_leaf
  · unfold gemm_n_nc.call_4; legal_leaf
  · unfold gemm_n_nc.call_5; legal_leaf
  · unfold gemm_n_nc.call_6; legal_leaf
  · unfold gemm_n_nc.call_7; legal_leaf

theorem gemm_n_cn_legal_debug {alpha beta : R} {a b c : Mat} {t : Nat} {cl : Call R}
    (la : a.Lin) (lb : b.Lin) (lc : c.Lin)
    (h : gemm_n_cn false alpha beta a b c = .call t cl) (hc : Front.coreThrows false cl = false) : callLegal cl := by
  revert hc
  refine gemm_n_cn.elim h (fun t cl => Front.coreThrows false cl = false → callLegal cl) ?_ ?_
  · unfold gemm_n_cn.call_2; legal_leaf
  · unfold gemm_n_cn.call_3; legal_leaf

theorem gemm_n_cc_legal_debug {alpha beta : R} {a b c : Mat} {t : Nat} {cl : Call R}
    (la : a.Lin) (lb : b.Lin) (lc : c.Lin)
    (h : gemm_n_cc false alpha beta a b c = .call t cl) (hc : Front.coreThrows false cl = false) : callLegal cl := by
  revert hc
  refine gemm_n_cc.elim h (fun t cl => Front.coreThrows false cl = false → callLegal cl) ?_
  · unfold gemm_n_cc.call_2; legal_leaf

/-- **dispatch_legal, assertion-enabled builds (full).**  Every BLAS call that `gemm_n` issues and that passes the checks of
    `core::gemm` is legal for the reference BLAS — for all sizes, strides and conjugation patterns. -/
theorem gemm_dispatch_legal_debug {alpha beta : R} {a b c : Mat} {t : Nat} {cl : Call R}
    (wa : a.WF) (wb : b.WF) (wc : c.WF)
    (h : gemm_n false alpha beta a b c = .call t cl) (hc : Front.coreThrows false cl = false) : callLegal cl := by
  unfold gemm_n at h
  cases ha : a.cj <;> cases hb : b.cj <;> simp only [ha, hb] at h
  · exact gemm_n_nn_legal_debug wa.lin wb.lin wc.lin h hc
  · exact gemm_n_nc_legal_debug wa.lin wb.lin wc.lin h hc
  · exact gemm_n_cn_legal_debug wa.lin wb.lin wc.lin h hc
  · exact gemm_n_cc_legal_debug wa.lin wb.lin wc.lin h hc

/-! ## Findings: leaves of `gemm_n` that are wrong

  Each theorem exhibits operands INSIDE the view invariants and inside the leaf's guard for which the call issued by the
  leaf is illegal for the reference BLAS (XERBLA: nothing is computed) or is legal but its post-state is not
  alpha·A·B + beta·C.  The ring is the Gaussian integers, alpha = 1, beta = 2 + i, memory `zmem`.  The same classes are
  reproduced against the real library by harness/blas.cpp (findings/C13.json). -/

def zmem : Mem GInt := fun a => ⟨a * a + 1, 2 * a + 3⟩

structure GemmCounterexample (guard : Mat → Mat → Mat → Prop) (call : GInt → GInt → Mat → Mat → Mat → Call GInt) (a b c : Mat) : Prop where
  shapes : GemmShapes a b c
  noconjC : c.cj = false
  guard : guard a b c
  bad : ∃ g : GemmCall GInt, call 1 ⟨2, 1⟩ a b c = .gemm g ∧ (g.illegal ≠ none ∨ ¬ GemmSpec 1 ⟨2, 1⟩ a b c zmem (g.exec zmem))

/-- gemm.hpp:145 [(((a.s0 = 1) ∧ (b.s0 = 1)) ∧ (c.s1 = 1))] at size class m1ngk0: legal call, element (0,1) of the result is wrong -/
theorem finding_gemm_cc_branch_2 : GemmCounterexample gemm_n_cc.guard_2 gemm_n_cc.call_2 ⟨0, 1, 4, 1, 0, true⟩ ⟨100, 1, 1, 0, 2, true⟩ ⟨200, 2, 1, 1, 2, false⟩ :=
  ⟨by shapes_dec, rfl, by decide, _, rfl, Or.inr (fun h => absurd (h.elems 0 1 (by decide) (by decide) (by decide) (by decide)) (by decide))⟩

/-- gemm.hpp:128 [(((a.s0 = 1) ∧ (b.s1 = 1)) ∧ (c.s1 = 1))] at size class mgn1k0: illegal call (XERBLA parameter 10) -/
theorem finding_gemm_cn_branch_2 : GemmCounterexample gemm_n_cn.guard_2 gemm_n_cn.call_2 ⟨0, 1, 1, 2, 0, true⟩ ⟨100, 1, 1, 0, 1, false⟩ ⟨200, 1, 1, 2, 1, false⟩ :=
  ⟨by shapes_dec, rfl, by decide, _, rfl, Or.inl (by decide)⟩

/-- gemm.hpp:107 [(((a.s0 = 1) ∧ (b.s0 = 1)) ∧ (c.s0 = 1))] at size class m1ngk0: legal call, element (0,1) of the result is wrong -/
theorem finding_gemm_nc_branch_2 : GemmCounterexample gemm_n_nc.guard_2 gemm_n_nc.call_2 ⟨0, 1, 4, 1, 0, false⟩ ⟨100, 1, 1, 0, 2, true⟩ ⟨200, 1, 6, 1, 2, false⟩ :=
  ⟨by shapes_dec, rfl, by decide, _, rfl, Or.inr (fun h => absurd (h.elems 0 1 (by decide) (by decide) (by decide) (by decide)) (by decide))⟩

/-- gemm.hpp:109 [(((a.s0 = 1) ∧ (b.s0 = 1)) ∧ (c.s1 = 1))] at size class m1ngk0: legal call, element (0,1) of the result is wrong -/
theorem finding_gemm_nc_branch_3 : GemmCounterexample gemm_n_nc.guard_3 gemm_n_nc.call_3 ⟨0, 1, 4, 1, 0, false⟩ ⟨100, 1, 1, 0, 2, true⟩ ⟨200, 2, 1, 1, 2, false⟩ :=
  ⟨by shapes_dec, rfl, by decide, _, rfl, Or.inr (fun h => absurd (h.elems 0 1 (by decide) (by decide) (by decide) (by decide)) (by decide))⟩

/-- gemm.hpp:105 [(((a.s1 = 1) ∧ (b.s0 = 1)) ∧ (c.s0 = 1))] at size class m1ngk0: legal call, element (0,1) of the result is wrong -/
theorem finding_gemm_nc_branch_4 : GemmCounterexample gemm_n_nc.guard_4 gemm_n_nc.call_4 ⟨0, 1, 1, 1, 0, false⟩ ⟨100, 1, 1, 0, 4, true⟩ ⟨200, 1, 4, 1, 4, false⟩ :=
  ⟨by shapes_dec, rfl, by decide, _, rfl, Or.inr (fun h => absurd (h.elems 0 1 (by decide) (by decide) (by decide) (by decide)) (by decide))⟩

/-- gemm.hpp:102 [(((a.s1 = 1) ∧ (b.s0 = 1)) ∧ (c.s1 = 1)) ; (a.n0 = 1)] at size class m1ngk1: legal call, element (0,1) of the result is wrong -/
theorem finding_gemm_nc_branch_6 : GemmCounterexample gemm_n_nc.guard_6 gemm_n_nc.call_6 ⟨0, 1, 1, 1, 1, false⟩ ⟨100, 1, 3, 1, 3, true⟩ ⟨200, 6, 1, 1, 3, false⟩ :=
  ⟨by shapes_dec, rfl, by decide, _, rfl, Or.inr (fun h => absurd (h.elems 0 1 (by decide) (by decide) (by decide) (by decide)) (by decide))⟩

/-- gemm.hpp:100 [(((a.s1 = 1) ∧ (b.s1 = 1)) ∧ (c.s1 = 1))] at size class mgn1k1: legal call, element (1,0) of the result is wrong -/
theorem finding_gemm_nc_branch_7 : GemmCounterexample gemm_n_nc.guard_7 gemm_n_nc.call_7 ⟨0, 4, 1, 2, 1, false⟩ ⟨100, 1, 1, 1, 1, true⟩ ⟨200, 1, 1, 2, 1, false⟩ :=
  ⟨by shapes_dec, rfl, by decide, _, rfl, Or.inr (fun h => absurd (h.elems 1 0 (by decide) (by decide) (by decide) (by decide)) (by decide))⟩

/-- gemm.hpp:68 [(((a.s0 = 1) ∧ (b.s1 = 1)) ∧ (c.s0 = 1))] at size class mgngk0: illegal call (XERBLA parameter 10) -/
theorem finding_gemm_nn_branch_5 : GemmCounterexample gemm_n_nn.guard_5 gemm_n_nn.call_5 ⟨0, 1, 4, 4, 0, false⟩ ⟨100, 1, 1, 0, 3, false⟩ ⟨200, 1, 8, 4, 3, false⟩ :=
  ⟨by shapes_dec, rfl, by decide, _, rfl, Or.inl (by decide)⟩

/-- gemm.hpp:67 [(((a.s0 = 1) ∧ (b.s1 = 1)) ∧ (c.s0 = 1)) ; (a.n0 = 1)] at size class m1n1kg: legal call, element (0,0) of the result is wrong -/
theorem finding_gemm_nn_branch_6 : GemmCounterexample gemm_n_nn.guard_6 gemm_n_nn.call_6 ⟨0, 1, 4, 1, 2, false⟩ ⟨100, 4, 1, 2, 1, false⟩ ⟨200, 1, 4, 1, 1, false⟩ :=
  ⟨by shapes_dec, rfl, by decide, _, rfl, Or.inr (fun h => absurd (h.elems 0 0 (by decide) (by decide) (by decide) (by decide)) (by decide))⟩

/-- gemm.hpp:65 [(((a.s0 = 1) ∧ (b.s1 = 1)) ∧ (c.s1 = 1))] at size class mgngk0: illegal call (XERBLA parameter 8) -/
theorem finding_gemm_nn_branch_7 : GemmCounterexample gemm_n_nn.guard_7 gemm_n_nn.call_7 ⟨0, 1, 8, 3, 0, false⟩ ⟨100, 1, 1, 0, 4, false⟩ ⟨200, 7, 1, 3, 4, false⟩ :=
  ⟨by shapes_dec, rfl, by decide, _, rfl, Or.inl (by decide)⟩

/-- gemm.hpp:74 [(((a.s1 = 1) ∧ (b.s0 = 1)) ∧ (c.s0 = 1))] at size class mgn1kg: legal call, element (0,0) of the result is wrong -/
theorem finding_gemm_nn_branch_9 : GemmCounterexample gemm_n_nn.guard_9 gemm_n_nn.call_9 ⟨0, 3, 1, 3, 3, false⟩ ⟨100, 1, 5, 3, 1, false⟩ ⟨200, 1, 5, 3, 1, false⟩ :=
  ⟨by shapes_dec, rfl, by decide, _, rfl, Or.inr (fun h => absurd (h.elems 0 0 (by decide) (by decide) (by decide) (by decide)) (by decide))⟩

/-- gemm.hpp:73 [(((a.s1 = 1) ∧ (b.s0 = 1)) ∧ (c.s0 = 1)) ; ((a.n1 = 1) ∧ (b.n1 = 1))] at size class mgn1k1: legal call, element (1,0) of the result is wrong -/
theorem finding_gemm_nn_branch_11 : GemmCounterexample gemm_n_nn.guard_11 gemm_n_nn.call_11 ⟨0, 1, 1, 2, 1, false⟩ ⟨100, 1, 6, 1, 1, false⟩ ⟨200, 1, 2, 2, 1, false⟩ :=
  ⟨by shapes_dec, rfl, by decide, _, rfl, Or.inr (fun h => absurd (h.elems 1 0 (by decide) (by decide) (by decide) (by decide)) (by decide))⟩

/-- gemm.hpp:71 [(((a.s1 = 1) ∧ (b.s0 = 1)) ∧ (c.s0 = 1)) ; (a.n0 = 1)] at size class m1ngk1: legal call, element (0,1) of the result is wrong -/
theorem finding_gemm_nn_branch_12 : GemmCounterexample gemm_n_nn.guard_12 gemm_n_nn.call_12 ⟨0, 1, 1, 1, 1, false⟩ ⟨100, 1, 4, 1, 4, false⟩ ⟨200, 1, 4, 1, 4, false⟩ :=
  ⟨by shapes_dec, rfl, by decide, _, rfl, Or.inr (fun h => absurd (h.elems 0 1 (by decide) (by decide) (by decide) (by decide)) (by decide))⟩

/-- gemm.hpp:76 [(((a.s1 = 1) ∧ (b.s0 = 1)) ∧ (c.s1 = 1)) ; (a.n0 = 1)] at size class m1ngk1: legal call, element (0,1) of the result is wrong -/
theorem finding_gemm_nn_branch_14 : GemmCounterexample gemm_n_nn.guard_14 gemm_n_nn.call_14 ⟨0, 3, 1, 1, 1, false⟩ ⟨100, 1, 2, 1, 4, false⟩ ⟨200, 4, 1, 1, 4, false⟩ :=
  ⟨by shapes_dec, rfl, by decide, _, rfl, Or.inr (fun h => absurd (h.elems 0 1 (by decide) (by decide) (by decide) (by decide)) (by decide))⟩

/-- gemm.hpp:62 [(((a.s1 = 1) ∧ (b.s1 = 1)) ∧ (c.s0 = 1))] at size class mgngk0: illegal call (XERBLA parameter 10) -/
theorem finding_gemm_nn_branch_15 : GemmCounterexample gemm_n_nn.guard_15 gemm_n_nn.call_15 ⟨0, 3, 1, 3, 0, false⟩ ⟨100, 1, 1, 0, 4, false⟩ ⟨200, 1, 3, 3, 4, false⟩ :=
  ⟨by shapes_dec, rfl, by decide, _, rfl, Or.inl (by decide)⟩

/-- gemm.hpp:61 [(((a.s1 = 1) ∧ (b.s1 = 1)) ∧ (c.s0 = 1)) ; (a.n0 = 1)] at size class m1n1kg: legal call, element (0,0) of the result is wrong -/
theorem finding_gemm_nn_branch_16 : GemmCounterexample gemm_n_nn.guard_16 gemm_n_nn.call_16 ⟨0, 6, 1, 1, 4, false⟩ ⟨100, 2, 1, 4, 1, false⟩ ⟨200, 1, 2, 1, 1, false⟩ :=
  ⟨by shapes_dec, rfl, by decide, _, rfl, Or.inr (fun h => absurd (h.elems 0 0 (by decide) (by decide) (by decide) (by decide)) (by decide))⟩

/-- gemm.hpp:59 [(((a.s1 = 1) ∧ (b.s1 = 1)) ∧ (c.s1 = 1))] at size class mgngk0: illegal call (XERBLA parameter 8) -/
theorem finding_gemm_nn_branch_17 : GemmCounterexample gemm_n_nn.guard_17 gemm_n_nn.call_17 ⟨0, 4, 1, 2, 0, false⟩ ⟨100, 1, 1, 0, 2, false⟩ ⟨200, 5, 1, 2, 2, false⟩ :=
  ⟨by shapes_dec, rfl, by decide, _, rfl, Or.inl (by decide)⟩

/-- gemm.hpp:57 [(((a.s1 = 1) ∧ (b.s1 = 1)) ∧ (c.s1 = 1)) ; ((a.n0 = 1) ∧ (b.n1 = 1))] at size class m1n1kg: legal call, element (0,0) of the result is wrong -/
theorem finding_gemm_nn_branch_18 : GemmCounterexample gemm_n_nn.guard_18 gemm_n_nn.call_18 ⟨0, 1, 1, 1, 3, false⟩ ⟨100, 5, 1, 3, 1, false⟩ ⟨200, 1, 1, 1, 1, false⟩ :=
  ⟨by shapes_dec, rfl, by decide, _, rfl, Or.inr (fun h => absurd (h.elems 0 0 (by decide) (by decide) (by decide) (by decide)) (by decide))⟩

/-- gemm.hpp:58 [(((a.s1 = 1) ∧ (b.s1 = 1)) ∧ (c.s1 = 1)) ; (a.n0 = 1)] at size class m1ngk0: illegal call (XERBLA parameter 8) -/
theorem finding_gemm_nn_branch_19 : GemmCounterexample gemm_n_nn.guard_19 gemm_n_nn.call_19 ⟨0, 4, 1, 1, 0, false⟩ ⟨100, 1, 1, 0, 2, false⟩ ⟨200, 2, 1, 1, 2, false⟩ :=
  ⟨by shapes_dec, rfl, by decide, _, rfl, Or.inl (by decide)⟩

end Multi.C13
