/-
  MultiProofs.CodeRefines — the refinement theorem of C01 stated DIRECTLY about the definitions regenerated from the
  current headers (`MultiModel/Gen/LayoutGen.lean`): every view-forming operation, as the source computes it today,
  refines its documented shape / index map.  Obtained from `C01.op_refines` (about the hand model) through the tie
  theorems of `GenTie.lean`; so for these operations the chain  source text → regenerated Lean → theorem  has no
  hand-transcription step left other than the translator itself.
-/
import MultiProofs.C01
import MultiProofs.GenTie

namespace Multi.CodeRefines
open Multi Multi.Gen

/-- the operations of C01 as the D > 1 class `const_subarray<T, D>` computes them in the current source (the regenerated
    `_aux_` bodies); the call syntax goes through the dispatcher tied by `GenTie.paren_dispatch_is_the_code` -/
def applyD : Op → View → View
  | .index i, v => V_at_aux v i
  | .sliced a b, v => V_sliced_aux v a b
  | .range a b, v => V_range v ⟨a, b⟩
  | .strided s, v => V_strided_aux v s
  | .dropped n, v => V_dropped_aux v n
  | .taked n, v => V_taked_aux v n
  | .rotated, v => V_rotated_aux v
  | .unrotated, v => V_unrotated_aux v
  | .transposed, v => V_transposed_aux v
  | .reversed, v => V_reversed_aux v
  | .diagonal, v => V_diagonal_aux v
  | .partitioned n, v => V_partitioned_aux v n
  | .chunked c, v => V_chunked_aux v c
  | .flatted, v => V_flatted v
  | .call args, v => v.paren args

/-- the same for the D = 1 specialisation `const_subarray<T, 1>` (operations it does not have are left to the model) -/
def apply1 : Op → View → View
  | .index i, v => V1_at_aux v i
  | .sliced a b, v => V1_sliced_aux v a b
  | .range a b, v => V1_range v ⟨a, b⟩
  | .strided s, v => V1_strided_aux v s
  | .dropped n, v => V1_dropped_aux v n
  | .taked n, v => V1_taked_aux v n
  | .reversed, v => V1_reversed_aux v
  | .partitioned n, v => V1_partitioned_aux v n
  | .chunked c, v => V1_chunked_aux v c
  | op, v => op.apply v

theorem applyD_eq (op : Op) (b : Int) (d d1 : Dim) (sub : Layout) :
    applyD op ⟨b, d :: d1 :: sub⟩ = op.apply ⟨b, d :: d1 :: sub⟩ := by
  cases op with
  | index i => exact GenTie.V_at_aux_tie b d d1 sub i
  | sliced a c => exact GenTie.V_sliced_aux_tie b d d1 sub a c
  | range a c => exact GenTie.V_range_tie _ ⟨a, c⟩
  | strided s => exact GenTie.V_strided_aux_tie b d d1 sub s
  | dropped n => exact GenTie.V_dropped_aux_tie b d d1 sub n
  | taked n => exact GenTie.V_taked_aux_tie b d d1 sub n
  | rotated => rfl
  | unrotated => rfl
  | transposed => rfl
  | reversed => rfl
  | diagonal => exact GenTie.diagonal_is_the_code b d d1 sub
  | partitioned n => exact GenTie.V_partitioned_aux_tie b d d1 sub n
  | chunked c => exact GenTie.V_chunked_aux_tie b d d1 sub c
  | flatted => exact GenTie.V_flatted_tie b d d1 sub
  | call args => rfl

theorem apply1_eq (op : Op) (b : Int) (d : Dim) : apply1 op ⟨b, [d]⟩ = op.apply ⟨b, [d]⟩ := by
  cases op with
  | index i => exact GenTie.V1_at_aux_tie b d i
  | sliced a c => exact GenTie.V1_sliced_aux_tie b d a c
  | range a c => exact GenTie.V1_range_tie _ ⟨a, c⟩
  | strided s => exact GenTie.V1_strided_aux_tie b d s
  | dropped n => exact GenTie.V1_dropped_aux_tie b d n
  | taked n => exact GenTie.V1_taked_aux_tie b d n
  | reversed => rfl
  | partitioned n => exact GenTie.V1_partitioned_aux_tie b d n
  | chunked c => exact GenTie.V1_chunked_aux_tie b d c
  | rotated => rfl
  | unrotated => rfl
  | transposed => rfl
  | diagonal => rfl
  | flatted => rfl
  | call args => rfl

/-- **C01 on the regenerated code**: for a well-formed view with at least two levels (the D > 1 class) every in-domain
    operation, computed as the current source computes it, has the documented shape and designates the documented elements -/
theorem code_op_refines (op : Op) (b : Int) (d d1 : Dim) (sub : Layout)
    (hwf : Layout.WF (d :: d1 :: sub)) (hd : op.InDomain ⟨b, d :: d1 :: sub⟩) :
    Refines ⟨b, d :: d1 :: sub⟩ (applyD op ⟨b, d :: d1 :: sub⟩)
      (op.specShape (View.mk b (d :: d1 :: sub)).exts) (op.specMap (View.mk b (d :: d1 :: sub)).exts) := by
  rw [applyD_eq]
  exact C01.op_refines op _ hwf hd

/-- the same for one-dimensional views (the D = 1 specialisation) -/
theorem code_op_refines_1d (op : Op) (b : Int) (d : Dim) (hwf : Layout.WF [d]) (hd : op.InDomain ⟨b, [d]⟩) :
    Refines ⟨b, [d]⟩ (apply1 op ⟨b, [d]⟩) (op.specShape (View.mk b [d]).exts) (op.specMap (View.mk b [d]).exts) := by
  rw [apply1_eq]
  exact C01.op_refines op _ hwf hd

end Multi.CodeRefines
