/-
  MultiProofs.Spec — what the properties say, independently of how the library computes it.

  A view *denotes* a shape (list of index extensions) and a map from its index tuples to index tuples of the
  root array.  Each view-forming operation has the documented index mapping (README "Indexing", "Slices and
  strides", reference table); `Op.specShape` / `Op.specMap` transcribe that documentation, not the code.
-/
import MultiModel

namespace Multi

/-- the library reports every empty extension as `[0,0)` (layout.hpp:881) -/
def Ext.norm (e : Ext) : Ext := if e.last - e.first = 0 then ⟨0, 0⟩ else e

/-- index tuple inside a box -/
def InBox : List Ext → List Int → Prop
  | [], [] => True
  | e :: es, i :: is => (e.first ≤ i ∧ i < e.last) ∧ InBox es is
  | _, _ => False

/-- displacement of an index tuple: Σ (iₖ·strideₖ − offsetₖ)  (array_ref.hpp:1131, 2812) -/
def Layout.off : Layout → List Int → Int
  | d :: l, i :: is => (i * d.stride - d.offset) + off l is
  | _, _ => 0

/-- well-formed level: empty, or positive stride dividing both nelems and offset -/
def Dim.WF (d : Dim) : Prop :=
  d.nelems = 0 ∨ (0 < d.stride ∧ 0 < d.nelems ∧ d.stride ∣ d.nelems ∧ d.stride ∣ d.offset)

def Layout.WF (l : Layout) : Prop := ∀ d ∈ l, d.WF

instance (d : Dim) : Decidable d.WF :=
  inferInstanceAs (Decidable (d.nelems = 0 ∨ (0 < d.stride ∧ 0 < d.nelems ∧ d.stride ∣ d.nelems ∧ d.stride ∣ d.offset)))

instance (l : Layout) : Decidable l.WF := inferInstanceAs (Decidable (∀ d ∈ l, d.WF))

/-- product of the sizes of a list of extensions -/
def nElems : List Ext → Int
  | [] => 1
  | e :: es => e.size * nElems es

/-- extensions of an array constructed from `es`: a dimension reports `[0,0)` as soon as it or any later
    extent is empty (layout.hpp:735-745 with 846-853, 880-886) -/
def collapse : List Ext → List Ext
  | [] => []
  | e :: es => (if e.size * nElems es = 0 then ⟨0, 0⟩ else e) :: collapse es

/-- row-major position of an index tuple in an array with extensions `es` -/
def rowMajor : List Ext → List Int → Int
  | e :: es, i :: is => (i - e.first) * nElems es + rowMajor es is
  | _, _ => 0

/-! ### the view-forming operations of C01 and their documented meaning -/

inductive Op where
  | index (i : Int)
  | sliced (a b : Int)
  | range (a b : Int)
  | strided (s : Int)
  | dropped (n : Int)
  | taked (n : Int)
  | rotated
  | unrotated
  | transposed
  | reversed
  | diagonal
  | partitioned (n : Int)
  | chunked (c : Int)
  | flatted
  | call (args : List Arg)
deriving Repr

def Op.apply : Op → View → View
  | .index i, v => v.index i
  | .sliced a b, v => v.sliced a b
  | .range a b, v => v.range a b
  | .strided s, v => v.strided s
  | .dropped n, v => v.dropped n
  | .taked n, v => v.taked n
  | .rotated, v => v.rotated
  | .unrotated, v => v.unrotated
  | .transposed, v => v.transposed
  | .reversed, v => v.reversed
  | .diagonal, v => v.diagonal
  | .partitioned n, v => v.partitioned n
  | .chunked c, v => v.chunked c
  | .flatted, v => v.flatted
  | .call args, v => v.paren args

/-- in-domain arguments of one call-syntax argument for a dimension with extension `e` -/
def Arg.InDomain : Arg → Ext → Prop
  | .idx i, e => e.first ≤ i ∧ i < e.last
  | .rng a b, e => e.first ≤ a ∧ a ≤ b ∧ b ≤ e.last
  | .all, _ => True

def argsInDomain : List Arg → List Ext → Prop
  | [], _ => True
  | a :: as, e :: es => a.InDomain e ∧ argsInDomain as es
  | _ :: _, [] => False

/-- the quantifier of C01: "in-domain arguments (indices inside the extension, strides dividing the size,
    partition counts dividing the size)"; for `flatted` the library's own `is_flattable` guard. -/
def Op.InDomain : Op → View → Prop
  | .index i, v => v.lay ≠ [] ∧ v.ext.first ≤ i ∧ i < v.ext.last
  | .sliced a b, v => v.lay ≠ [] ∧ v.ext.first ≤ a ∧ a ≤ b ∧ b ≤ v.ext.last
  | .range a b, v => v.lay ≠ [] ∧ v.ext.first ≤ a ∧ a ≤ b ∧ b ≤ v.ext.last
  | .strided s, v => v.lay ≠ [] ∧ 0 < s ∧ s ∣ v.ext.size ∧ s ∣ v.ext.first
  | .dropped n, v => v.lay ≠ [] ∧ 0 ≤ n ∧ n ≤ v.ext.size
  | .taked n, v => v.lay ≠ [] ∧ 0 ≤ n ∧ n ≤ v.ext.size
  | .rotated, _ => True
  | .unrotated, _ => True
  | .transposed, v => 2 ≤ v.lay.length
  | .reversed, _ => True
  | .diagonal, v => 2 ≤ v.lay.length ∧ ∀ e ∈ v.exts.take 2, e.first = 0
  | .partitioned n, v => v.lay ≠ [] ∧ 0 < n ∧ n ∣ v.ext.size
  | .chunked c, v => v.lay ≠ [] ∧ 0 < c ∧ c ∣ v.ext.size ∧ 0 < v.ext.size
  | .flatted, v => 2 ≤ v.lay.length ∧ v.isFlattable = true ∧ (v.ext.size ≤ 1 ∨ ∀ e ∈ v.exts.take 2, e.first = 0)
  | .call args, v => argsInDomain args v.exts

instance (a : Arg) (e : Ext) : Decidable (a.InDomain e) :=
  match a with
  | .idx i => inferInstanceAs (Decidable (e.first ≤ i ∧ i < e.last))
  | .rng a b => inferInstanceAs (Decidable (e.first ≤ a ∧ a ≤ b ∧ b ≤ e.last))
  | .all => inferInstanceAs (Decidable True)

instance argsInDomainDec : (as : List Arg) → (es : List Ext) → Decidable (argsInDomain as es)
  | [], _ => isTrue trivial
  | a :: as, e :: es => @instDecidableAnd (a.InDomain e) (argsInDomain as es) inferInstance (argsInDomainDec as es)
  | _ :: _, [] => isFalse (fun h => h)

instance (op : Op) (v : View) : Decidable (op.InDomain v) := by
  cases op <;> unfold Op.InDomain <;> exact inferInstance

def callShape : List Arg → List Ext → List Ext
  | [], es => es
  | _ :: _, [] => []
  | .idx _ :: as, _ :: es => callShape as es
  | .rng a b :: as, e :: es => Ext.norm ⟨e.first, e.first + (b - a)⟩ :: callShape as es
  | .all :: as, e :: es => e :: callShape as es

def callMap : List Arg → List Ext → List Int → List Int
  | .idx i :: as, _ :: es, idx => i :: callMap as es idx
  | .rng a _ :: as, e :: es, t :: idx => (a + (t - e.first)) :: callMap as es idx
  | .all :: as, _ :: es, t :: idx => t :: callMap as es idx
  | _, _, idx => idx

/-- documented shape of the result, from the shape of the operand -/
def Op.specShape : Op → List Ext → List Ext
  | .index _, es => es.tail
  | .sliced a b, e :: es => Ext.norm ⟨e.first, e.first + (b - a)⟩ :: es
  | .range a b, e :: es => Ext.norm ⟨e.first, e.first + (b - a)⟩ :: es
  | .strided s, e :: es => Ext.norm ⟨e.first.tdiv s, e.first.tdiv s + e.size.tdiv s⟩ :: es
  | .dropped n, e :: es => Ext.norm ⟨e.first, e.last - n⟩ :: es
  | .taked n, e :: es => Ext.norm ⟨e.first, e.first + n⟩ :: es
  | .rotated, e :: es => es ++ [e]
  | .unrotated, es => match es.getLast? with | some l => l :: es.dropLast | none => []
  | .transposed, e0 :: e1 :: es => e1 :: e0 :: es
  | .reversed, es => es.reverse
  | .diagonal, e0 :: e1 :: es => Ext.norm ⟨0, min e0.size e1.size⟩ :: es
  | .partitioned n, e :: es => (if e.size = 0 then ⟨0, 0⟩ else ⟨0, n⟩) :: Ext.norm ⟨e.first, e.first + e.size.tdiv n⟩ :: es
  | .chunked c, e :: es => ⟨0, e.size.tdiv c⟩ :: Ext.norm ⟨e.first, e.first + c⟩ :: es
  | .flatted, e0 :: e1 :: es =>
      (if e0.size = 0 then ⟨0, 0⟩ else if e0.size = 1 then e1 else ⟨0, e0.size * e1.size⟩) :: es
  | .call args, es => callShape args es
  | _, es => es

/-- documented index mapping: index tuple of the result ↦ index tuple of the operand -/
def Op.specMap : Op → List Ext → List Int → List Int
  | .index i, _, idx => i :: idx
  | .sliced a _, e :: _, t :: r => (a + (t - e.first)) :: r
  | .range a _, e :: _, t :: r => (a + (t - e.first)) :: r
  | .strided s, _, t :: r => (s * t) :: r
  | .dropped n, _, t :: r => (t + n) :: r
  | .taked _, _, idx => idx
  | .rotated, _, idx => match idx.getLast? with | some l => l :: idx.dropLast | none => []
  | .unrotated, _, t :: r => r ++ [t]
  | .transposed, _, i :: j :: r => j :: i :: r
  | .reversed, _, idx => idx.reverse
  | .diagonal, _, t :: r => t :: t :: r
  | .partitioned n, e :: _, p :: q :: r => (p * e.size.tdiv n + q) :: r
  | .chunked c, _, p :: q :: r => (p * c + q) :: r
  | .flatted, e0 :: e1 :: _, k :: r =>
      if e0.size = 1 then e0.first :: k :: r else k.tdiv e1.size :: k.tmod e1.size :: r
  | .call args, es, idx => callMap args es idx
  | _, _, idx => idx

/-- a denotation: shape + map into the root's index space -/
structure Den where
  shape : List Ext
  map : List Int → List Int

/-- views reachable from `root` by finite sequences of in-domain operations, with the denotation that
    composing the documented mappings prescribes -/
inductive Reach (root : View) : View → Den → Prop where
  | root : Reach root root ⟨root.exts, id⟩
  | step {v : View} {den : Den} (op : Op) :
      Reach root v den → op.InDomain v →
      Reach root (op.apply v) ⟨op.specShape den.shape, den.map ∘ op.specMap den.shape⟩

end Multi
