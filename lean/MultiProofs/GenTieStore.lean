/-
  MultiProofs.GenTieStore — the hand-written model of assignment, swap and comparison (`MultiModel/Store.lean`) EQUALS the
  definitions regenerated from the current array_ref.hpp by tools/gen_store.py (`MultiModel/Gen/StoreGen.lean`).
  Proof obligations of C05 and C07 (and C03, C11 through them): a fast path added to one of these operators changes the
  generated text (or leaves the translator's vocabulary) and the corresponding theorem stops checking.
-/
import MultiModel.Gen.StoreGen
import MultiProofs.TieTactic
import MultiProofs.TieLemmas

namespace Multi.GenTieStore
open Multi Multi.Gen

variable {α : Type}

/-! ### `elements_range_t` -/

theorem ER_assign_tie (dst src : ElemRange) (m : Mem α) : ER_assign dst src m = ElemRange.assign dst src m := by
  unfold ER_assign ElemRange.assign
  by_cases hs : dst.size = src.size
  · by_cases he : dst.isEmpty = true
    · simp [hs, he]
    · simp only [Bool.not_eq_true] at he
      simp [hs, he]
  · simp [hs]

/-- the non-template `operator=(elements_range_t&&)` has no size assertion: with equal sizes (what the view-level operators
    have established through their extension assertion) it is the same loop -/
theorem ER_assign_rv_tie (dst src : ElemRange) (m : Mem α) (hs : dst.size = src.size) :
    ER_assign_rv dst src m = ElemRange.assign dst src m := by
  unfold ER_assign_rv ElemRange.assign
  by_cases he : dst.isEmpty = true
  · simp [hs, he]
  · simp only [Bool.not_eq_true] at he
    simp [hs, he]

theorem ER_assign_vals_tie (dst : ElemRange) (vals : List α) (m : Mem α) :
    ER_assign_vals dst vals m = ElemRange.assignVals dst vals m := by
  unfold ER_assign_vals ElemRange.assignVals
  by_cases hs : (vals.length : Int) = dst.size
  · simp [hs]
  · simp [hs]

theorem ER_swap_tie (a b : ElemRange) (m : Mem α) : ER_swap a b m = ElemRange.swap a b m := by
  unfold ER_swap ElemRange.swap
  by_cases hs : a.size = b.size
  · simp [hs]
  · simp [hs]

theorem ER_eq_tie [DecidableEq α] (a b : ElemRange) (m : Mem α) : ER_eq a b m = ElemRange.eq a b m := by
  unfold ER_eq ElemRange.eq
  by_cases hs : a.size = b.size
  · simp [hs]
  · simp [hs]

theorem ER_ne_tie [DecidableEq α] (a b : ElemRange) (m : Mem α) : ER_ne a b m = ElemRange.ne a b m := by
  unfold ER_ne ElemRange.ne
  by_cases hs : a.size = b.size
  · simp only [hs, bne_self_eq_false, Bool.false_eq_true, if_false, ne_eq, not_true_eq_false]
    cases b.begin' with
    | none => rfl
    | some x => cases b.end' with
      | none => rfl
      | some y => cases a.begin' <;> rfl
  · simp [hs]

/-! ### `subarray<T, D>::operator=` (every overload taking a view) and `swap` -/

section views
variable (b : Int) (d : Dim) (sub : Layout) (src : View) (m : Mem α)

theorem SV_assign_same_tie :
    SV_assign_same ⟨b, d :: sub⟩ src m false = View.assign ⟨b, d :: sub⟩ src m ∧ SV_assign_same ⟨b, d :: sub⟩ src m true = some m :=
  ⟨by simp [SV_assign_same, View.assign], by simp [SV_assign_same]⟩
theorem SV_assign_copy_tie :
    SV_assign_copy ⟨b, d :: sub⟩ src m false = View.assign ⟨b, d :: sub⟩ src m ∧ SV_assign_copy ⟨b, d :: sub⟩ src m true = some m :=
  ⟨by simp [SV_assign_copy, View.assign], by simp [SV_assign_copy]⟩
theorem SV_assign_other_tie : SV_assign_other ⟨b, d :: sub⟩ src m = View.assignT ⟨b, d :: sub⟩ src m := by
  first
  | (simp [SV_assign_other, View.assignT]; done)
  | (simp only [SV_assign_other, View.assignT]; rw [Exts.eqv_comm src.exts]; done)
  | (simp only [SV_assign_other, View.assignT]; rw [Exts.eqv_comm src.exts]; simp)
theorem SV_assign_rest_tie :
    SV_assign_other_rv ⟨b, d :: sub⟩ src m = View.assign ⟨b, d :: sub⟩ src m ∧
    SV_assign_from_rv ⟨b, d :: sub⟩ src m = View.assign ⟨b, d :: sub⟩ src m ∧
    SV_assign_from_sub_rv ⟨b, d :: sub⟩ src m = View.assign ⟨b, d :: sub⟩ src m ∧
    SV_assign_move ⟨b, d :: sub⟩ src m = View.assign ⟨b, d :: sub⟩ src m := by
  refine ⟨?_, ?_, ?_, ?_⟩ <;> simp [SV_assign_other_rv, SV_assign_from_rv, SV_assign_from_sub_rv, SV_assign_move, View.assign]
theorem SV_swap_tie : SV_swap ⟨b, d :: sub⟩ src m = View.swap ⟨b, d :: sub⟩ src m := by
  unfold SV_swap View.swap
  by_cases he : Exts.eqv (View.mk b (d :: sub)).exts src.exts = true
  · simp [he]
  · simp [he]
end views

/-! ### comparison -/

section cmp
variable [DecidableEq α] (b : Int) (d : Dim) (sub : Layout) (o : View) (m : Mem α) (ltE : α → α → Bool)

theorem V_eq_tie : V_eq ⟨b, d :: sub⟩ o m = View.eq ⟨b, d :: sub⟩ o m := by tie_simp [V_eq, View.eq]
theorem V_ne_tie : V_ne ⟨b, d :: sub⟩ o m = View.ne ⟨b, d :: sub⟩ o m := by tie_simp [V_ne, View.ne]

/-- D = 1: `extension() == other.extension()` is the one-dimensional `extensions() == other.extensions()` -/
theorem V1_eq_tie (d' : Dim) (b' : Int) :
    V1_eq ⟨b, [d]⟩ ⟨b', [d']⟩ m = View.eq ⟨b, [d]⟩ ⟨b', [d']⟩ m ∧ V1_ne ⟨b, [d]⟩ ⟨b', [d']⟩ m = View.ne ⟨b, [d]⟩ ⟨b', [d']⟩ m := by
  constructor
  · by_cases h : d.ext.eqv d'.ext = true <;> simp [V1_eq, View.eq, View.ext, View.exts, Layout.exts, Exts.eqv, h]
  · by_cases h : d.ext.eqv d'.ext = true <;> simp [V1_ne, View.ne, View.ext, View.exts, Layout.exts, Exts.eqv, h]

theorem V_lt_tie (s : View) : V_lt s o m ltE = some (View.lt ltE s o m) ∧ V_gt s o m ltE = some (View.gt ltE s o m) ∧
    V1_lt s o m ltE = some (View.lt ltE s o m) ∧ V1_gt s o m ltE = some (View.gt ltE s o m) :=
  ⟨rfl, rfl, rfl, rfl⟩

/-- the body of `lexicographical_compare` (D > 1 friend, the mixed-type `operator<`, and the D = 1 `lexicographical_compare_`):
    first-index pre-test, then `adl_lexicographical_compare` over the rows — one unfolding of the model's `lexCompare` -/
theorem V_lex_tie (d' : Dim) (sub' : Layout) (b' : Int) :
    V_lex ⟨b, d :: sub⟩ ⟨b', d' :: sub'⟩ m ltE = some (View.lt ltE ⟨b, d :: sub⟩ ⟨b', d' :: sub'⟩ m) ∧
    V_lt_other ⟨b, d :: sub⟩ ⟨b', d' :: sub'⟩ m ltE = some (View.lt ltE ⟨b, d :: sub⟩ ⟨b', d' :: sub'⟩ m) ∧
    V1_lex ⟨b, d :: sub⟩ ⟨b', d' :: sub'⟩ m ltE = some (View.lt ltE ⟨b, d :: sub⟩ ⟨b', d' :: sub'⟩ m) := by
  have key : V_lex ⟨b, d :: sub⟩ ⟨b', d' :: sub'⟩ m ltE = some (View.lt ltE ⟨b, d :: sub⟩ ⟨b', d' :: sub'⟩ m) := by
    simp only [V_lex, View.lt, View.ext, lexRowsOf]
    rw [lexCompare]
    by_cases h1 : d.ext.first > d'.ext.first
    · simp [h1]
    · by_cases h2 : d.ext.first < d'.ext.first
      · simp [h1, h2]
      · simp [h1, h2]
  exact ⟨key, key, key⟩

theorem V_le_tie (d1 : Dim) : V_le ⟨b, d :: d1 :: sub⟩ o m ltE = View.le ltE ⟨b, d :: d1 :: sub⟩ o m := by
  tie_simp [V_le, View.le]

theorem V1_le_tie : V1_le ⟨b, [d]⟩ o m ltE = View.le ltE ⟨b, [d]⟩ o m ∧ V1_ge ⟨b, [d]⟩ o m ltE = View.ge ltE ⟨b, [d]⟩ o m := by
  constructor
  · by_cases h : View.lt ltE ⟨b, [d]⟩ o m = true <;> simp [V1_le, View.le, h]
  · by_cases h : View.lt ltE o ⟨b, [d]⟩ m = true <;> simp [V1_ge, View.ge, View.gt, View.lt, h] <;> simp_all [View.lt]
end cmp

/-! ### `array_ref` (whole arrays: flat copies and flat comparison over `data_elements()`) -/

theorem AR_assign_tie (dst src : View) (m : Mem α) :
    AR_assign dst src m false = View.arefAssign dst src m ∧ AR_assign dst src m true = some m ∧
    AR_assign_T dst src m = View.arefAssignT dst src m := by
  refine ⟨?_, by simp [AR_assign], rfl⟩
  simp only [AR_assign, View.arefAssign, AR_copy_elements]
  by_cases h : dst.numElements = src.numElements <;> simp [h]

/-- the `&&` overload for another element/pointer type asserts equal EXTENSIONS and then runs `copy_elements_` (count taken
    from the destination): with equal extensions both counts agree, so it is `View.arefAssignT` -/
theorem AR_assign_other_rv_tie (dst src : View) (m : Mem α) (hn : Exts.eqv dst.exts src.exts = true → dst.numElements = src.numElements) :
    AR_assign_other_rv dst src m = View.arefAssignT dst src m := by
  simp only [AR_assign_other_rv, View.arefAssignT, AR_copy_elements]
  by_cases h : Exts.eqv dst.exts src.exts = true
  · simp [h, hn h]
  · simp [h]

theorem AR_eq_tie [DecidableEq α] (a b : View) (m : Mem α) :
    AR_eq a b m = some (View.arefEq a b m) ∧ AR_ne a b m = some (View.arefNe a b m) := by
  constructor
  · unfold AR_eq View.arefEq; by_cases h : Exts.eqv a.exts b.exts = true <;> simp [h]
  · unfold AR_ne View.arefNe; by_cases h : Exts.eqv a.exts b.exts = true <;> simp [h]

/-! ### summaries (the names the checks audit) -/

theorem assignment_is_the_code (b : Int) (d : Dim) (sub : Layout) (src : View) (r s : ElemRange) (vals : List α) (m : Mem α) :
    ER_assign r s m = ElemRange.assign r s m ∧ (r.size = s.size → ER_assign_rv r s m = ElemRange.assign r s m) ∧
    ER_assign_vals r vals m = ElemRange.assignVals r vals m ∧ ER_swap r s m = ElemRange.swap r s m ∧
    SV_assign_same ⟨b, d :: sub⟩ src m false = View.assign ⟨b, d :: sub⟩ src m ∧
    SV_assign_copy ⟨b, d :: sub⟩ src m false = View.assign ⟨b, d :: sub⟩ src m ∧
    SV_assign_other ⟨b, d :: sub⟩ src m = View.assignT ⟨b, d :: sub⟩ src m ∧
    SV_assign_other_rv ⟨b, d :: sub⟩ src m = View.assign ⟨b, d :: sub⟩ src m ∧
    SV_assign_from_rv ⟨b, d :: sub⟩ src m = View.assign ⟨b, d :: sub⟩ src m ∧
    SV_assign_from_sub_rv ⟨b, d :: sub⟩ src m = View.assign ⟨b, d :: sub⟩ src m ∧
    SV_assign_move ⟨b, d :: sub⟩ src m = View.assign ⟨b, d :: sub⟩ src m ∧
    SV_swap ⟨b, d :: sub⟩ src m = View.swap ⟨b, d :: sub⟩ src m :=
  ⟨ER_assign_tie r s m, ER_assign_rv_tie r s m, ER_assign_vals_tie r vals m, ER_swap_tie r s m,
   (SV_assign_same_tie b d sub src m).1, (SV_assign_copy_tie b d sub src m).1, SV_assign_other_tie b d sub src m,
   (SV_assign_rest_tie b d sub src m).1, (SV_assign_rest_tie b d sub src m).2.1, (SV_assign_rest_tie b d sub src m).2.2.1,
   (SV_assign_rest_tie b d sub src m).2.2.2, SV_swap_tie b d sub src m⟩

theorem comparison_is_the_code [DecidableEq α] (b b' : Int) (d d1 d' : Dim) (sub sub' : Layout) (o : View) (r s : ElemRange) (m : Mem α)
    (ltE : α → α → Bool) :
    ER_eq r s m = ElemRange.eq r s m ∧ ER_ne r s m = ElemRange.ne r s m ∧
    V_eq ⟨b, d :: sub⟩ o m = View.eq ⟨b, d :: sub⟩ o m ∧ V_ne ⟨b, d :: sub⟩ o m = View.ne ⟨b, d :: sub⟩ o m ∧
    V1_eq ⟨b, [d]⟩ ⟨b', [d']⟩ m = View.eq ⟨b, [d]⟩ ⟨b', [d']⟩ m ∧ V1_ne ⟨b, [d]⟩ ⟨b', [d']⟩ m = View.ne ⟨b, [d]⟩ ⟨b', [d']⟩ m ∧
    V_lex ⟨b, d :: sub⟩ ⟨b', d' :: sub'⟩ m ltE = some (View.lt ltE ⟨b, d :: sub⟩ ⟨b', d' :: sub'⟩ m) ∧
    V_lt_other ⟨b, d :: sub⟩ ⟨b', d' :: sub'⟩ m ltE = some (View.lt ltE ⟨b, d :: sub⟩ ⟨b', d' :: sub'⟩ m) ∧
    V1_lex ⟨b, d :: sub⟩ ⟨b', d' :: sub'⟩ m ltE = some (View.lt ltE ⟨b, d :: sub⟩ ⟨b', d' :: sub'⟩ m) ∧
    V_lt o o m ltE = some (View.lt ltE o o m) ∧ V_gt ⟨b, d :: sub⟩ o m ltE = some (View.gt ltE ⟨b, d :: sub⟩ o m) ∧
    V_le ⟨b, d :: d1 :: sub⟩ o m ltE = View.le ltE ⟨b, d :: d1 :: sub⟩ o m ∧
    V1_le ⟨b, [d]⟩ o m ltE = View.le ltE ⟨b, [d]⟩ o m ∧ V1_ge ⟨b, [d]⟩ o m ltE = View.ge ltE ⟨b, [d]⟩ o m :=
  ⟨ER_eq_tie r s m, ER_ne_tie r s m, V_eq_tie b d sub o m, V_ne_tie b d sub o m, (V1_eq_tie b d m d' b').1, (V1_eq_tie b d m d' b').2,
   (V_lex_tie b d sub m ltE d' sub' b').1, (V_lex_tie b d sub m ltE d' sub' b').2.1, (V_lex_tie b d sub m ltE d' sub' b').2.2,
   rfl, rfl, V_le_tie b d sub o m ltE d1, (V1_le_tie b d o m ltE).1, (V1_le_tie b d o m ltE).2⟩

end Multi.GenTieStore
