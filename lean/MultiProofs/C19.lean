/-
  C19 — Index bases are transparent: re-based arrays act as shifted zero-based ones.

  The theorems of C01 and C02 are stated for arbitrary index bases (`Dim.WF` allows any offset that is a
  multiple of the stride; `rowMajor`/`InBox` subtract the first index), so every operation of C01, the iterators
  and `elements()` of C02 are already proved for re-based arrays.  This file adds what is specific to C19:
    * an array built from explicit index extensions addresses its elements like the zero-based array of the
      same sizes at indices shifted by the bases (`rebased_root_is_shifted`);
    * `reindexed(b…)` changes only which indices are valid, never which elements are viewed
      (`reindexed_refines`), `blocked(a, b)` keeps the original indices (`blocked_refines`);
    * `elements()` of a re-indexed view is *identical* to that of the original (`elements_rebase_invariant`).
-/
import MultiProofs.C02

namespace Multi
namespace C19

def zeroed (es : List Ext) : List Ext := es.map fun e => ⟨0, e.size⟩
def unshift : List Ext → List Int → List Int
  | e :: es, i :: is => (i - e.first) :: unshift es is
  | _, _ => []

theorem nElems_zeroed (es : List Ext) : nElems (zeroed es) = nElems es := by
  induction es with
  | nil => rfl
  | cons e es ih => simp only [zeroed, List.map_cons, nElems] at ih ⊢; rw [ih]; simp [Ext.size]

theorem collapse_box {es : List Ext} {idx : List Int} (h : InBox (collapse es) idx) :
    InBox es idx ∧ InBox (collapse (zeroed es)) (unshift es idx) ∧ rowMajor (zeroed es) (unshift es idx) = rowMajor es idx := by
  induction es generalizing idx with
  | nil => cases idx <;> simp_all [collapse, InBox, zeroed, unshift, rowMajor]
  | cons e es ih =>
    simp only [collapse] at h
    obtain ⟨t, r, rfl, h1, h2, h3⟩ := inBox_cons h
    obtain ⟨i1, i2, i3⟩ := ih h3
    by_cases hz : e.size * nElems es = 0
    · simp [hz] at h1 h2; omega
    · simp only [hz, if_false] at h1 h2
      refine ⟨⟨⟨h1, h2⟩, i1⟩, ?_, ?_⟩
      · simp only [zeroed, List.map_cons, collapse, unshift]
        have hz' : (Ext.size ⟨0, e.size⟩) * nElems (List.map (fun e => (⟨0, e.size⟩ : Ext)) es) ≠ 0 := by
          have := nElems_zeroed es; simp only [zeroed] at this; rw [this]; simpa [Ext.size] using hz
        simp only [hz', if_false, InBox]
        exact ⟨⟨by omega, by simp [Ext.size]; omega⟩, i2⟩
      · simp only [zeroed, List.map_cons, unshift, rowMajor]
        have := nElems_zeroed es; simp only [zeroed] at this i3
        rw [this, i3]; simp

/-- An array constructed from explicit index extensions addresses its elements exactly like the zero-based
    array of the same sizes at the indices shifted by the bases. -/
theorem rebased_root_is_shifted (es : List Ext) (hes : ∀ e ∈ es, e.first ≤ e.last) (idx : List Int)
    (h : InBox (Layout.ofExts es).exts idx) :
    Layout.off (Layout.ofExts es) idx = Layout.off (Layout.ofExts (zeroed es)) (unshift es idx) ∧
    InBox (Layout.ofExts (zeroed es)).exts (unshift es idx) := by
  obtain ⟨_, r2, _, r4⟩ := C01.root_denotes es hes
  have hz : ∀ e ∈ zeroed es, e.first ≤ e.last := by
    intro e he
    simp only [zeroed, List.mem_map] at he
    obtain ⟨x, hx, rfl⟩ := he
    have := hes x hx; simp [Ext.size]; omega
  obtain ⟨_, z2, _, z4⟩ := C01.root_denotes (zeroed es) hz
  rw [r2] at h
  obtain ⟨b1, b2, b3⟩ := collapse_box h
  rw [(r4 idx h).1, (z4 _ b2).1, b3, z2]
  exact ⟨rfl, b2⟩

/-! ### reindexed -/

/-- closed form of `reindexed(b₀, b₁, …)`: the k-th offset becomes `bₖ·strideₖ` -/
def rebase : Layout → List Int → Layout
  | d :: l, b :: bs => { d with offset := b * d.stride } :: rebase l bs
  | l, _ => l

theorem reindexed_append (base : Int) (l x : Layout) (bs : List Int) (h : bs.length ≤ l.length) :
    View.reindexed ⟨base, l ++ x⟩ bs = ⟨base, rebase l bs ++ x⟩ := by
  induction bs generalizing l x with
  | nil => cases l <;> simp [View.reindexed, rebase]
  | cons b rest ih =>
    cases l with
    | nil => simp at h
    | cons d l =>
      cases rest with
      | nil => simp [View.reindexed, View.reindexed1, Layout.reindex1, rebase]
      | cons c rest' =>
        have hlen : (c :: rest').length ≤ l.length := by simp at h ⊢; omega
        simp only [View.reindexed, View.reindexed1, Layout.reindex1, List.cons_append, View.rotated, rotate_cons, rebase]
        generalize ({ d with offset := b * d.stride } : Dim) = d'
        have e1 : l ++ x ++ [d'] = l ++ (x ++ [d']) := by simp
        rw [e1, ih l (x ++ [d']) hlen]
        simp only [View.unrotated]
        have e2 : rebase l (c :: rest') ++ (x ++ [d']) = (rebase l (c :: rest') ++ x) ++ [d'] := by simp
        rw [e2, unrotate_snoc]

theorem reindexed_eq (v : View) (bs : List Int) (h : bs.length ≤ v.lay.length) :
    v.reindexed bs = ⟨v.base, rebase v.lay bs⟩ := by
  have := reindexed_append v.base v.lay [] bs h
  simpa using this

def shiftShape : List Ext → List Int → List Ext
  | e :: es, b :: bs => (if e.size = 0 then ⟨0, 0⟩ else ⟨b, b + e.size⟩) :: shiftShape es bs
  | es, _ => es

def shiftMap : List Ext → List Int → List Int → List Int
  | e :: es, b :: bs, t :: r => (t - b + e.first) :: shiftMap es bs r
  | _, _, idx => idx

theorem rebase_refines (base : Int) (l : Layout) (bs : List Int) (hwf : l.WF) :
    (rebase l bs).WF ∧ Layout.exts (rebase l bs) = shiftShape l.exts bs ∧
    ∀ idx, InBox (shiftShape l.exts bs) idx →
      Layout.off (rebase l bs) idx = Layout.off l (shiftMap l.exts bs idx) ∧ InBox l.exts (shiftMap l.exts bs idx) := by
  induction l generalizing bs with
  | nil =>
    have e1 : rebase [] bs = [] := by cases bs <;> rfl
    have e2 : shiftShape (Layout.exts []) bs = [] := by cases bs <;> rfl
    have e3 : ∀ idx, shiftMap (Layout.exts []) bs idx = idx := by intro idx; cases bs <;> cases idx <;> rfl
    rw [e1, e2]
    refine ⟨hwf, rfl, fun idx h => ?_⟩
    rw [e3]; exact ⟨rfl, h⟩
  | cons d l ih =>
    cases bs with
    | nil =>
      have e3 : ∀ idx, shiftMap (Layout.exts (d :: l)) [] idx = idx := by intro idx; cases idx <;> rfl
      refine ⟨hwf, rfl, fun idx h => ?_⟩
      rw [e3]; exact ⟨rfl, h⟩
    | cons b bs =>
      obtain ⟨i1, i2, i3⟩ := ih bs hwf.tail
      have hexts : Layout.exts (d :: l) = d.ext :: Layout.exts l := rfl
      have hreb : rebase (d :: l) (b :: bs) = { d with offset := b * d.stride } :: rebase l bs := rfl
      rw [hexts, hreb]
      rcases hwf.head.cases with h0 | ⟨f, n, hn, hs, hf, hnn, he, hsz⟩
      · have hd0 : d.ext = ⟨0, 0⟩ := Dim.ext_of_nelems_zero h0
        have hshape : shiftShape (d.ext :: Layout.exts l) (b :: bs) = ⟨0, 0⟩ :: shiftShape (Layout.exts l) bs := by
          simp [shiftShape, hd0, Ext.size]
        rw [hshape]
        refine ⟨Layout.WF.cons (d := { d with offset := b * d.stride }) (Or.inl h0) i1, ?_, ?_⟩
        · show ({ d with offset := b * d.stride } : Dim).ext :: Layout.exts (rebase l bs) = _
          rw [i2]; simp [Dim.ext, h0]
        · intro idx h
          obtain ⟨t, r, rfl, h1, h2, _⟩ := inBox_cons h
          simp at h1 h2; omega
      · have hsize : d.ext.size = n := by rw [he]; simp [Ext.size]; omega
        have hz : d.ext.size ≠ 0 := by omega
        have hshape : shiftShape (d.ext :: Layout.exts l) (b :: bs) = ⟨b, b + n⟩ :: shiftShape (Layout.exts l) bs := by
          simp [shiftShape, hsize]; omega
        rw [hshape]
        have hd' : ({ d with offset := b * d.stride } : Dim) = ⟨d.stride, b * d.stride, n * d.stride⟩ := by rw [← hnn]
        refine ⟨Layout.WF.cons (d := { d with offset := b * d.stride }) (by rw [hd']; exact Dim.wf_mk hs hn) i1, ?_, ?_⟩
        · show ({ d with offset := b * d.stride } : Dim).ext :: Layout.exts (rebase l bs) = _
          rw [hd', Dim.ext_mk hs hn, i2]
        · intro idx h
          obtain ⟨t, r, rfl, h1, h2, h3⟩ := inBox_cons h
          obtain ⟨a1, a2⟩ := i3 r h3
          simp only [shiftMap, Layout.off, InBox]
          rw [a1, he]
          refine ⟨?_, ⟨by simp at h1 h2 ⊢; omega, by simp at h1 h2 ⊢; omega⟩, a2⟩
          simp only
          rw [hf]
          have : (t - b + f) * d.stride = t * d.stride - b * d.stride + f * d.stride := by
            rw [Int.add_mul, Int.sub_mul]
          omega

/-- `reindexed(b…)` changes only which indices are valid, never which elements are viewed:
    index `t` of the re-indexed view is index `t − b + first` of the original in every re-indexed dimension. -/
theorem reindexed_refines (v : View) (bs : List Int) (hwf : v.lay.WF) (h : bs.length ≤ v.lay.length) :
    Refines v (v.reindexed bs) (shiftShape v.exts bs) (shiftMap v.exts bs) := by
  rw [reindexed_eq v bs h]
  obtain ⟨a, b, c⟩ := rebase_refines v.base v.lay bs hwf
  refine ⟨a, b, ?_⟩
  intro idx hidx
  obtain ⟨c1, c2⟩ := c idx hidx
  rw [addr_eq, addr_eq]
  exact ⟨by rw [c1]; rfl, c2⟩

/-- `blocked(a, b)` = `sliced(a, b).reindexed(a)`: the block keeps the original indices `[a, b)` -/
theorem blocked_refines (v : View) (a b : Int) (hwf : v.lay.WF) (hd : (Op.sliced a b).InDomain v) (hab : a < b) :
    Refines v (v.blocked a b) (⟨a, b⟩ :: v.exts.tail) (fun idx => idx) := by
  have r1 := sliced_refines v a b hwf hd
  obtain ⟨hne, h1, h2, h3⟩ := hd
  cases hv : v.lay with
  | nil => exact absurd hv hne
  | cons d sub =>
    have hex := View.exts_cons hv
    rw [hex] at r1 ⊢
    simp only [Op.specShape] at r1
    have hpos : 0 < b - a := by omega
    rw [norm_of_pos hpos] at r1
    have hlen : [a].length ≤ (v.sliced a b).lay.length := by
      have := congrArg List.length r1.2.1
      simp [View.exts, Layout.exts] at this; simp; omega
    have r2 := reindexed_refines (v.sliced a b) [a] r1.1 hlen
    rw [r1.2.1] at r2
    have hsz : (Ext.size ⟨d.ext.first, d.ext.first + (b - a)⟩) = b - a := by simp [Ext.size]; omega
    have hne0 : b - a ≠ 0 := by omega
    simp only [shiftShape, hsz, hne0, if_false] at r2
    have hb : a + (b - a) = b := by omega
    rw [hb] at r2
    have hbl : v.blocked a b = (v.sliced a b).reindexed [a] := by simp [View.blocked, View.reindexed]
    rw [hbl]
    apply (r1.trans r2).congr (by simp [shiftShape])
    intro idx hidx
    obtain ⟨t, r, rfl, _, _, _⟩ := inBox_cons hidx
    simp only [shiftMap, Op.specMap]
    have e3 : shiftMap (Layout.exts sub) [] r = r := by cases r <;> cases sub <;> rfl
    rw [e3]
    congr 1; omega

/-- `elements()` of a re-indexed view is the very same range as that of the original view:
    same base, same (zero-based) layout — hence the same elements in the same order (C02). -/
theorem elements_rebase_invariant (v : View) (bs : List Int) (h : bs.length ≤ v.lay.length) :
    ElemRange.ofView (v.reindexed bs) = ElemRange.ofView v := by
  rw [reindexed_eq v bs h, ofView_eq, ofView_eq]
  simp only
  congr 1
  have : ∀ (l : Layout) (bs : List Int), Layout.zeroBased (rebase l bs) = Layout.zeroBased l := by
    intro l
    induction l with
    | nil => intro bs; cases bs <;> rfl
    | cons d l ih => intro bs; cases bs with
      | nil => rfl
      | cons b bs => simp only [rebase, Layout.zeroBased, List.map_cons] at ih ⊢; rw [ih bs]
  exact this v.lay bs

/-- every view reachable from a re-based root by C01's operations denotes the composed mapping and stays in
    bounds — `C01.reachable_denotes` / `reachable_in_bounds` instantiated at arbitrary index bases -/
theorem ops_rebase_transparent (base : Int) (es : List Ext) (hes : ∀ e ∈ es, e.first ≤ e.last)
    (v : View) (den : Den) (h : Reach ⟨base, Layout.ofExts es⟩ v den) :
    Refines ⟨base, Layout.ofExts es⟩ v den.shape den.map ∧
    ∀ idx, InBox den.shape idx → base ≤ v.addr idx ∧ v.addr idx < base + nElems es :=
  ⟨C01.reachable_denotes _ v den (C01.root_denotes es hes).1 h, fun idx hidx => C01.reachable_in_bounds base es hes v den h idx hidx⟩

/-! non-vacuity: a [2,8) array sliced at [3,6) -/
example : (Op.sliced 3 6).InDomain ⟨0, Layout.ofExts [⟨2, 8⟩]⟩ := by decide +kernel
example : (View.sliced ⟨0, Layout.ofExts [⟨2, 8⟩]⟩ 3 6).addr [2] = 1 := by decide +kernel

end C19
end Multi
