/-
  C08 — Every element is constructed once and destroyed once; storage is returned.

  Property theorems only (helper lemmas: LedgerInv, LedgerSteps, LedgerMacro, LedgerArr, LedgerOps, LedgerLog).
  The model (MultiModel.Ledger) executes every operation of the owning arrays as the sequence of micro-steps the C++
  performs; a construction over a live object, a read / assignment / destruction of a dead one, a deallocate of a block that
  is not outstanding, has another size, or still holds live objects end the run in `Res.ub`.

    * `Good c s`                   the invariant: `Inv` (every non-empty live array points to an outstanding block of exactly its
                                   size all of whose cells are alive; every outstanding block has exactly one owner; a returned
                                   block holds no live object) + `num_elements()` agrees with `extensions()`
    * `inv_init`                   the empty pool satisfies it
    * `inv_step`                   every operation as coded (all 23 forms), without failures, runs to completion — no `ub`, no
                                   exception — and re-establishes it
    * `inv_history`                by induction: every finite history does
    * `all_dead_nothing_outstanding`  when every array is dead every block has been returned and holds no live object
    * `discipline_checked`         what "no `ub`" means: each micro-step succeeds only under the discipline the property states
                                   (construct only over raw storage, assign / destroy / read only live objects, deallocate only an
                                   outstanding block, with the size it was allocated with, holding no live object)
    * `trivial_no_write`           for trivially default-constructible element types the sizing constructor, `reextent(x) &` and
                                   `reextent(x) &&` record no element construction, whatever their outcome

  Hypotheses: `c.OK` (D ≥ 1; trivially default-constructible ⇒ trivially destructible) and `c.Fixed` (the tree contains the
  repairs F6, F7, F8 — the code as it stands; for the code before the repairs see C09.finding_*).
-/
import MultiProofs.LedgerLog

namespace Multi
namespace C08
open Ledger

/-- the empty pool over the empty heap satisfies the invariant -/
theorem inv_init (c : Cfg) (p : Nat) : Good c (initSt p) := good_init c p none

/-- every operation, as coded, without failures: runs to completion and re-establishes the invariant -/
theorem inv_step (c : Cfg) (hok : c.OK) (hfix : c.Fixed) (op : Op) (s : St) (hG : Good c s) (hnf : s.fuel = none)
    (happ : op.applicable c s = true) :
    ∃ s', op.run c s = .ok () s' ∧ Good c s' ∧ s'.fuel = none ∧ s'.arrs.length = s.arrs.length := by
  have h := run_spec c hok op s hG happ (fixedIn_of_fixed hfix op)
  unfold OpSpec at h
  cases hr : op.run c s with
  | ok u s' =>
    rw [hr] at h
    exact ⟨s', rfl, h.1, h.2.1 hnf, h.2.2.1⟩
  | threw s' => rw [hr] at h; exact absurd hnf h.1
  | term s' => rw [hr] at h; exact absurd hnf h.1
  | ub s' => rw [hr] at h; exact h.elim

/-- along every finite history of operations (inapplicable ones are skipped) the invariant holds, no exception is thrown,
    std::terminate is not called, and no step is undefined -/
theorem inv_history (c : Cfg) (hok : c.OK) (hfix : c.Fixed) (ops : List Op) :
    ∀ (s : St), Good c s → s.fuel = none → ∃ s', runHist c ops s = some s' ∧ Good c s' ∧ s'.fuel = none := by
  induction ops with
  | nil => intro s hG hnf; exact ⟨s, rfl, hG, hnf⟩
  | cons op ops ih =>
    intro s hG hnf
    unfold runHist stepSt
    by_cases happ : op.applicable c s = true
    · obtain ⟨s1, hrun, hG1, hnf1, _⟩ := inv_step c hok hfix op s hG hnf happ
      simp only [happ, if_true, hrun]
      exact ih s1 hG1 hnf1
    · simp only [happ, Bool.false_eq_true, if_false]
      exact ih s hG hnf

/-- when the last array has died nothing is outstanding: every block has been given back, and none holds a live object -/
theorem all_dead_nothing_outstanding (c : Cfg) (s : St) (hG : Good c s) (hdead : ∀ o ∈ s.arrs, o = none) :
    ∀ blk ∈ s.blocks, blk.freed = true ∧ FreedOK c blk := by
  intro blk hb
  obtain ⟨b, hB⟩ := List.mem_iff_getElem?.mp hb
  have hfr : blk.freed = true := by
    cases hf : blk.freed with
    | true => rfl
    | false =>
      have h1 := hG.1.owned b blk hB hf
      have h0 : owners s.arrs b = 0 := by
        apply owners_eq_zero
        intro k o hk
        have : o = none := hdead o (List.mem_iff_getElem?.mpr ⟨k, hk⟩)
        subst this; rfl
      omega
  exact ⟨hfr, hG.1.freed b blk hB hfr⟩

/-- the lifetime discipline is what the micro-steps check: each succeeds only
    (1) a construction: on a raw cell of an outstanding block,
    (2) an assignment: on a live object (for trivial element types: any cell) of an outstanding block,
    (3) a destruction: on a live object of an outstanding block,
    (4) a deallocate of `n > 0` elements: on an outstanding block allocated with exactly `n` elements that holds no live object
        (unless the element type is trivially destructible);
    otherwise the run ends in `ub` — which `inv_history` excludes. -/
theorem discipline_checked (c : Cfg) (s s' : St) (b off : Nat) :
    (ctorCell c b off s = .ok () s' → ∃ blk, s.blocks[b]? = some blk ∧ blk.freed = false ∧ blk.cells[off]? = some Cell.raw) ∧
    (assignCell c b off s = .ok () s' → ∃ blk, s.blocks[b]? = some blk ∧ blk.freed = false ∧
        (blk.cells[off]? = some Cell.live ∨ (c.trivCtor = true ∧ blk.cells[off]? = some Cell.raw))) ∧
    (dtorCell b off s = .ok () s' → ∃ blk, s.blocks[b]? = some blk ∧ blk.freed = false ∧ blk.cells[off]? = some Cell.live) ∧
    (∀ a n, 0 < n → deallocate c a (some b) n s = .ok () s' → ∃ blk, s.blocks[b]? = some blk ∧ blk.freed = false ∧ blk.size = n ∧
        (c.trivDtor = true ∨ ∀ x ∈ blk.cells, x = Cell.raw)) := by
  refine ⟨?_, ?_, ?_, ?_⟩
  · intro h
    unfold ctorCell at h
    cases hB : s.blocks[b]? with
    | none => rw [hB] at h; cases h
    | some blk =>
      rw [hB] at h
      simp only at h
      by_cases hc : (blk.freed || blk.cells[off]? != some Cell.raw) = true
      · rw [if_pos hc] at h; cases h
      · simp only [Bool.or_eq_true, bne_iff_ne, ne_eq, not_or, Bool.not_eq_true, Decidable.not_not] at hc
        exact ⟨blk, rfl, hc.1, hc.2⟩
  · intro h
    unfold assignCell at h
    cases hB : s.blocks[b]? with
    | none => rw [hB] at h; cases h
    | some blk =>
      rw [hB] at h
      simp only at h
      by_cases hc : (blk.freed || !(blk.cells[off]? == some Cell.live || (c.trivCtor && blk.cells[off]? == some Cell.raw))) = true
      · rw [if_pos hc] at h; cases h
      · have hfr : blk.freed = false := by cases hf : blk.freed <;> simp_all
        have hin : (blk.cells[off]? == some Cell.live || (c.trivCtor && blk.cells[off]? == some Cell.raw)) = true := by
          cases hi : (blk.cells[off]? == some Cell.live || (c.trivCtor && blk.cells[off]? == some Cell.raw)) <;> simp_all
        simp only [Bool.or_eq_true, Bool.and_eq_true, beq_iff_eq] at hin
        exact ⟨blk, rfl, hfr, hin⟩
  · intro h
    unfold dtorCell at h
    cases hB : s.blocks[b]? with
    | none => rw [hB] at h; cases h
    | some blk =>
      rw [hB] at h
      simp only at h
      by_cases hc : (blk.freed || blk.cells[off]? != some Cell.live) = true
      · rw [if_pos hc] at h; cases h
      · simp only [Bool.or_eq_true, bne_iff_ne, ne_eq, not_or, Bool.not_eq_true, Decidable.not_not] at hc
        exact ⟨blk, rfl, hc.1, hc.2⟩
  · intro a n hn h
    unfold deallocate at h
    rw [if_neg (by omega)] at h
    simp only at h
    cases hB : s.blocks[b]? with
    | none => rw [hB] at h; cases h
    | some blk =>
      rw [hB] at h
      simp only at h
      by_cases hc : (blk.freed || blk.size != n || !(c.trivDtor || blk.cells.all (· == Cell.raw))) = true
      · rw [if_pos hc] at h; cases h
      · simp only [Bool.or_eq_true, bne_iff_ne, ne_eq, Bool.not_eq_true', Bool.or_eq_false_iff, not_or, Bool.not_eq_true,
          Decidable.not_not, not_and, Bool.not_eq_false, List.all_eq_true, beq_iff_eq] at hc
        refine ⟨blk, rfl, hc.1.1, hc.1.2, ?_⟩
        by_cases ht : c.trivDtor = true
        · exact Or.inl ht
        · exact Or.inr (hc.2 (by simpa using ht))

/-- sizing constructors and `reextent` without a fill value do not write to elements of trivially default-constructible
    types: whatever the outcome of `array(extensions, alloc)`, `reextent(extensions) &` and `reextent(extensions) &&`, the
    ledger gains no element construction (the only other cell writes of `reextent &` are the assignments that carry the
    preserved elements over) -/
theorem trivial_no_write (c : Cfg) (htriv : c.trivCtor = true) :
    (∀ i a es, NoCtor ((Op.ctorExt i a es).run c)) ∧
    (∀ i es, NoCtor ((Op.reextent i es).run c)) ∧
    (∀ i es, NoCtor ((Op.reextentRv i es).run c)) := by
  have hq := quiet_ctor
  have ha := isCtor_alloc
  refine ⟨?_, ?_, ?_⟩
  · intro i a es
    show NoCtor (ctorWith c i a es (!c.trivCtor) 0)
    rw [htriv]
    unfold ctorWith
    exact NoEv.bind (NoEv.build_false ha c _ _ _) (fun p => NoEv.setSlot _ _)
  · intro i es
    show NoCtor (opReextent c i es false)
    unfold opReextent
    apply NoEv.bind NoEv.get
    intro s
    cases getArr s i with
    | none => exact NoEv.ub
    | some x =>
      simp only [htriv, Bool.not_true, Bool.or_false, Bool.false_eq_true, if_false]
      apply NoEv.ite (NoEv.pure ())
      apply NoEv.ite
      · apply NoEv.bind (NoEv.buildSafe_false ha c _ _)
        intro p
        apply NoEv.bind
        · apply NoEv.tryCatch
          · exact NoEv.bind (NoEv.readCells c _ _) (fun _ => NoEv.assignAll hq c _ _)
          · exact NoEv.bind (NoEv.destroyAll hq c _ _) (fun _ => NoEv.bind (NoEv.deallocate hq c _ _ _) (fun _ => NoEv.rethrow))
        · intro _
          apply NoEv.bind (NoEv.pure p)
          intro q
          exact NoEv.bind (NoEv.destroyAll hq c _ _) (fun _ => NoEv.bind (NoEv.deallocate hq c _ _ _) (fun _ => NoEv.setSlot _ _))
      · apply NoEv.bind (NoEv.allocate ha _ _)
        intro p
        apply NoEv.bind (NoEv.readCells c _ _)
        intro _
        apply NoEv.bind (NoEv.assignAll hq c _ _)
        intro _
        apply NoEv.bind (NoEv.pure p)
        intro q
        exact NoEv.bind (NoEv.destroyAll hq c _ _) (fun _ => NoEv.bind (NoEv.deallocate hq c _ _ _) (fun _ => NoEv.setSlot _ _))
  · intro i es
    show NoCtor (opReextentRv c i es)
    unfold opReextentRv
    apply NoEv.bind NoEv.get
    intro s
    cases getArr s i with
    | none => exact NoEv.ub
    | some x =>
      simp only [htriv, Bool.not_true, Bool.false_eq_true, if_false]
      apply NoEv.ite (NoEv.pure ())
      apply NoEv.ite
      · apply NoEv.bind (NoEv.clearArr hq c i x)
        intro x1
        apply NoEv.bind (NoEv.buildSafe_false ha c _ _)
        intro p
        exact NoEv.setSlot _ _
      · apply NoEv.bind (NoEv.destroyAll hq c _ _)
        intro _
        apply NoEv.bind (NoEv.deallocate hq c _ _ _)
        intro _
        apply NoEv.bind (NoEv.setSlot _ _)
        intro _
        apply NoEv.bind (NoEv.allocate ha _ _)
        intro p
        exact NoEv.setSlot _ _

/-! ### non-vacuity: the hypotheses are satisfiable, the invariant is not trivially true -/

/-- the configuration of the instrumented element type with all repairs in the tree -/
def cfgE : Cfg := { dim := 2, fx6 := true, fx7 := true, fx8 := true, fx9 := true }

example : cfgE.OK := ⟨(by intro h; cases h), (by decide)⟩
example : cfgE.Fixed := ⟨rfl, rfl, rfl⟩

/-- a concrete history: fill-construct, copy-construct, copy-assign to different extents, reextent, destroy everything -/
def sampleHist : List Op :=
  [.ctorFill 0 1 [⟨0, 2⟩, ⟨0, 3⟩], .ctorCopy 1 0, .ctorExt 2 2 [⟨0, 1⟩, ⟨0, 2⟩], .assignCopy 2 0, .reextent 0 [⟨0, 3⟩, ⟨0, 2⟩],
   .dtor 0, .dtor 1, .dtor 2]

example : ((runHist cfgE sampleHist (initSt 4)).map fun s => (s.blocks.length, s.blocks.all (·.freed), s.arrs)) =
    some (5, true, [none, none, none, none]) := by decide +kernel

/-- an element type with non-trivial (logged) default construction and a trivial destructor — the only mixed combination
    `c.OK` admits besides the two pure ones; `inv_step`, `inv_history`, `discipline_checked` hold for it as for every `c.OK` -/
def cfgSemi : Cfg := { cfgE with trivDtor := true }
example : cfgSemi.OK := ⟨(by intro h; cases h), (by decide)⟩
/-- `reextent` value-constructs the new elements of such a type (its cells are alive afterwards although nothing is ever destroyed) -/
example : ((runHist cfgSemi [.ctorFill 0 1 [⟨0, 2⟩, ⟨0, 1⟩], .reextent 0 [⟨0, 3⟩, ⟨0, 1⟩]] (initSt 4)).map fun s =>
    s.blocks.map fun b => (b.freed, b.cells)) =
    some [(true, [Cell.live, Cell.live]), (false, [Cell.live, Cell.live, Cell.live])] := by decide +kernel
/-- assigning to a cell that was never constructed is undefined for such a type (what skipping that value construction leads to) -/
example : (match assignCell cfgSemi 0 0 { blocks := [freshBlock 1 2] } with | .ub _ => true | _ => false) = true := by decide +kernel

/-- `array<T, 0>` is run through the same executable model with `dim = 0` (`nElems [] = 1`: one block of one element).  The
    theorems above do NOT cover it: they assume `c.OK`, i.e. `1 ≤ c.dim` (an emptied array must report 0 elements, and
    `nElems (emptyExts 0) = 1`).  For the six 0-D forms the harness runs (no form leaves an empty array) the model is the
    executable reference of the correspondence only.  A concrete 0-D history: construct from an element, copy-construct,
    copy-assign, destroy both — two blocks of one element, both returned -/
def cfgE0 : Cfg := { cfgE with dim := 0 }
example : ¬ cfgE0.OK := fun h => absurd h.dim (by decide)
example : ((runHist cfgE0 [.ctorFill 0 1 [], .ctorCopy 1 0, .assignCopy 0 1, .dtor 0, .dtor 1] (initSt 4)).map fun s =>
    (s.blocks.map fun b => (b.size, b.freed), s.arrs)) = some ([(1, true), (1, true)], [none, none, none, none]) := by decide +kernel

/-- the invariant is falsifiable: a block nobody owns violates it -/
example : ¬ Good cfgE { blocks := [freshBlock 1 2], arrs := [none] } := by
  intro h
  have := h.1.owned 0 (freshBlock 1 2) rfl rfl
  revert this
  decide

end C08
end Multi
