import MultiModel.Ledger
namespace Multi
namespace C08
theorem stub : True := trivial
end C08
end Multi
