/-
  MultiProofs.BlasSyrk — specification of the symmetric rank-k update C := alpha·A·Aᵀ + beta·C on ONE triangle of the logical
  matrix, and the certificate `SyrkOK` sufficient for: the xSYRK call is legal and its reference post-state is the
  specification (only the chosen triangle of C changes).
-/
import MultiModel.Blas
import MultiProofs.BlasLemmas
import MultiProofs.BlasGemm

namespace Multi.Blas
variable {R : Type} [CRing R] [DecidableEq R]

/-- (i, j) lies in the `side` triangle (diagonal included) of the logical matrix -/
def inTri (side : Filling) (i j : Int) : Prop :=
  match side with
  | .lower => j ≤ i
  | .upper => i ≤ j

instance (side : Filling) (i j : Int) : Decidable (inTri side i j) := by
  unfold inTri; cases side <;> exact inferInstance

structure SyrkSpec (alpha beta : R) (side : Filling) (a c : Mat) (mem mem' : Mem R) : Prop where
  elems : ∀ i j : Int, 0 ≤ i → i < c.n0 → 0 ≤ j → j < c.n1 → inTri side i j →
    c.load mem' i j = alpha * sumZ a.n1 (fun l => a.load mem i l * a.load mem j l) + beta * c.load mem i j
  frame : ∀ addr : Int, (¬ ∃ i j : Int, 0 ≤ i ∧ i < c.n0 ∧ 0 ≤ j ∧ j < c.n1 ∧ inTri side i j ∧ addr = c.addr i j) → mem' addr = mem addr

omit [CRing R] [DecidableEq R] in
def RankKCall.LegalSyrk (g : RankKCall R) (cplx : Bool) : Prop :=
  (g.uplo = 'U' ∨ g.uplo = 'L') ∧ (g.t = 'N' ∨ g.t = 'T' ∨ (g.t = 'C' ∧ cplx = false)) ∧ 0 ≤ g.n ∧ 0 ≤ g.k ∧
  1 ≤ g.lda ∧ (if g.t = 'N' then g.n else g.k) ≤ g.lda ∧ 1 ≤ g.ldc ∧ g.n ≤ g.ldc

omit [CRing R] [DecidableEq R] in
theorem syrk_illegal_none_iff (g : RankKCall R) (cplx : Bool) : g.illegal false cplx = none ↔ g.LegalSyrk cplx := by
  unfold RankKCall.illegal RankKCall.LegalSyrk
  simp only [Bool.false_eq_true, if_false, isTrans]
  by_cases h1 : g.uplo = 'U' ∨ g.uplo = 'L'
  · by_cases h2 : (g.t = 'N' ∨ g.t = 'T' ∨ (g.t = 'C' ∧ cplx = false))
    · have e2 : (!(if cplx = true then (decide (g.t = 'N') || decide (g.t = 'T')) else (decide (g.t = 'N') || decide (g.t = 'T') || decide (g.t = 'C')))) = false := by
        cases cplx <;> rcases h2 with h | h | ⟨h, h'⟩ <;> simp_all
      have e1 : (!(decide (g.uplo = 'U') || decide (g.uplo = 'L'))) = false := by
        rcases h1 with h | h <;> simp [h]
      simp only [e1, e2, Bool.false_eq_true, if_false]
      by_cases h3 : g.n < 0
      · simp only [h3, if_true, reduceCtorEq, false_iff]; omega
      by_cases h4 : g.k < 0
      · simp only [h3, h4, if_true, if_false, reduceCtorEq, false_iff]; omega
      simp only [h3, h4, if_false]
      by_cases h7 : g.lda < maxI 1 (if g.t = 'N' then g.n else g.k)
      · simp only [h7, if_true, reduceCtorEq, false_iff]
        have := maxI_lt.mp h7
        omega
      by_cases h10 : g.ldc < maxI 1 g.n
      · simp only [h7, h10, if_true, if_false, reduceCtorEq, false_iff]
        have := maxI_lt.mp h10
        omega
      simp only [h7, h10, if_false, true_iff]
      have a7 := maxI_le.mp h7
      have a10 := maxI_le.mp h10
      exact ⟨h1, h2, by omega, by omega, a7.1, a7.2, a10.1, a10.2⟩
    · have e1 : (!(decide (g.uplo = 'U') || decide (g.uplo = 'L'))) = false := by
        rcases h1 with h | h <;> simp [h]
      have e2 : (!(if cplx = true then (decide (g.t = 'N') || decide (g.t = 'T')) else (decide (g.t = 'N') || decide (g.t = 'T') || decide (g.t = 'C')))) = true := by
        cases cplx <;> simp_all
      simp only [e1, e2, Bool.false_eq_true, if_false, if_true, reduceCtorEq, false_iff]
      exact fun h => h2 h.2.1
  · have e1 : (!(decide (g.uplo = 'U') || decide (g.uplo = 'L'))) = true := by simp_all
    simp only [e1, if_true, reduceCtorEq, false_iff]
    exact fun h => h1 h.1

/-- the stored matrix of a rank-k call (flag t, pointer p, leading dimension ld) IS the n×k logical matrix A (not conjugated) -/
def RkIs (t : Char) (p ld n k : Int) (a : Mat) : Prop :=
  (n ≤ 0 ∨ k ≤ 0 ∨ p = a.base) ∧ a.cj = false ∧
  ((t = 'N' ∧ (n ≤ 1 ∨ a.s0 = 1) ∧ (k ≤ 1 ∨ a.s1 = ld)) ∨ (t ≠ 'N' ∧ (k ≤ 1 ∨ a.s1 = 1) ∧ (n ≤ 1 ∨ a.s0 = ld)))

omit [CRing R] [DecidableEq R] in
theorem rkIs_elem {t : Char} {p ld n k : Int} {a : Mat} (h : RkIs t p ld n k a) (mem : Mem R)
    {i l : Int} (hi0 : 0 ≤ i) (hi : i < n) (hl0 : 0 ≤ l) (hl : l < k) :
    rkElem t p ld mem i l = mem (a.base + i * a.s0 + l * a.s1) := by
  obtain ⟨hb, _, hc⟩ := h
  have hbase : p = a.base := by rcases hb with h | h | h <;> first | omega | exact h
  subst hbase
  unfold rkElem
  rcases hc with ⟨ht, h1, h2⟩ | ⟨ht, h1, h2⟩
  · rw [if_pos ht, mul_of_le_one hi0 hi h1, mul_of_le_one' hl0 hl h2]
  · rw [if_neg ht, mul_of_le_one hl0 hl h1, mul_of_le_one' hi0 hi h2]
    congr 1; omega

/-- THE CERTIFICATE for xSYRK.  Orientation 1: the n×n block of the call is Cᵀ (C row-major), so the triangle named by the
    call is the mirror image; orientation 2: the block is C itself. -/
def SyrkOK (g : RankKCall R) (cplx : Bool) (alpha beta : R) (side : Filling) (a c : Mat) : Prop :=
  g.illegal false cplx = none ∧ g.alpha = alpha ∧ g.beta = beta ∧ g.n = c.n0 ∧ c.n1 = c.n0 ∧ g.k = a.n1 ∧
  RkIs g.t g.a g.lda c.n0 a.n1 a ∧
  ( (OutIs g.c g.ldc c.n0 c.n0 c.lmT ∧ g.uplo = side.char) ∨ (OutIs g.c g.ldc c.n0 c.n0 c.lm ∧ g.uplo = side.flip.char) )

theorem syrk_exec_hit {g : RankKCall R} {cplx : Bool} (h : g.illegal false cplx = none)
    (hq : ¬ (g.n = 0 ∨ ((g.alpha = 0 ∨ g.k = 0) ∧ g.beta = 1))) (mem : Mem R) {addr i j : Int}
    (hc : cmIndex g.c g.ldc g.n g.n addr = some (i, j)) (htri : (g.uplo = 'U' ∧ i ≤ j) ∨ (g.uplo = 'L' ∧ j ≤ i)) :
    g.execSyrk cplx mem addr = g.alpha * sumZ g.k (fun l => rkElem g.t g.a g.lda mem i l * rkElem g.t g.a g.lda mem j l) + g.beta * mem addr := by
  unfold RankKCall.execSyrk
  simp only [h, Option.isSome_none, Bool.false_eq_true, if_false, hq, hc, htri, if_true]

theorem syrk_exec_same {g : RankKCall R} {cplx : Bool} (mem : Mem R) {addr : Int}
    (hno : ∀ i j, cmIndex g.c g.ldc g.n g.n addr = some (i, j) → ¬ ((g.uplo = 'U' ∧ i ≤ j) ∨ (g.uplo = 'L' ∧ j ≤ i))) :
    g.execSyrk cplx mem addr = mem addr := by
  unfold RankKCall.execSyrk
  split
  · rfl
  · split
    · rfl
    · cases hc : cmIndex g.c g.ldc g.n g.n addr with
      | none => simp only [hc]
      | some p =>
        obtain ⟨i, j⟩ := p
        simp only [hc, if_neg (hno i j hc)]

theorem mul_zero' (a : R) : a * 0 = 0 := by rw [CRing.mul_comm, CRing.zero_mul]

theorem sumTo_zero (k : Nat) (f : Int → R) (h : ∀ l, f l = 0) : sumTo k f = 0 := by
  induction k with
  | zero => rfl
  | succ n ih => unfold sumTo; rw [ih, h, CRing.zero_add]

theorem syrkOK_sound {g : RankKCall R} {cplx : Bool} {alpha beta : R} {side : Filling} {a c : Mat} (hcc : c.cj = false)
    (h : SyrkOK g cplx alpha beta side a c) (mem : Mem R) : SyrkSpec alpha beta side a c mem (g.execSyrk cplx mem) := by
  obtain ⟨hleg, hal, hbe, hn, hsq, hk, hA, hor⟩ := h
  have hL := (syrk_illegal_none_iff g cplx).mp hleg
  obtain ⟨_, _, hn0, hk0, _, _, hld1, hnld⟩ := hL
  have hacj : a.cj = false := hA.2.1
  -- value of an element of the call's block, whether or not the quick return applies
  have hval : ∀ (addr i' j' : Int), cmIndex g.c g.ldc g.n g.n addr = some (i', j') → ((g.uplo = 'U' ∧ i' ≤ j') ∨ (g.uplo = 'L' ∧ j' ≤ i')) →
      g.execSyrk cplx mem addr = alpha * sumZ a.n1 (fun l => mem (a.base + i' * a.s0 + l * a.s1) * mem (a.base + j' * a.s0 + l * a.s1)) + beta * mem addr := by
    intro addr i' j' hci htri
    obtain ⟨_, hi0, hi, hj0, hj⟩ := cmIndex_some hci
    by_cases hq : (g.n = 0 ∨ ((g.alpha = 0 ∨ g.k = 0) ∧ g.beta = 1))
    · have hex : g.execSyrk cplx mem addr = mem addr := by
        unfold RankKCall.execSyrk
        simp only [hleg, Option.isSome_none, Bool.false_eq_true, if_false, hq, if_true]
      rw [hex]
      rcases hq with hq | ⟨hq, hb1⟩
      · omega
      · rw [← hal, ← hbe, hb1, CRing.one_mul]
        rcases hq with hq | hq
        · rw [hq, CRing.zero_mul, CRing.zero_add]
        · have : a.n1 = 0 := by omega
          rw [this]
          show mem addr = g.alpha * sumTo 0 _ + mem addr
          unfold sumTo
          rw [mul_zero', CRing.zero_add]
    · rw [syrk_exec_hit hleg hq mem hci htri, hal, hbe, hk]
      congr 1
      congr 1
      apply sumZ_congr
      intro l hl0 hl
      rw [rkIs_elem hA mem hi0 (by omega) hl0 hl, rkIs_elem hA mem hj0 (by omega) hl0 hl]
  rcases hor with ⟨hout, hup⟩ | ⟨hout, hup⟩
  · -- orientation 1: X = Cᵀ
    constructor
    · intro i j hi0 hi hj0 hj htri
      have haddr : c.base + i * c.s0 + j * c.s1 = g.c + j + i * g.ldc := by
        have := outIs_addr hout (i := j) (j := i) hj0 (by omega) hi0 hi
        simp only [Mat.lmT] at this
        omega
      have hci := cmIndex_hit (x := g.c) (ld := g.ldc) (m := g.n) (n := g.n) hj0 (by omega) hi0 (by omega) hnld
      have htr : (g.uplo = 'U' ∧ j ≤ i) ∨ (g.uplo = 'L' ∧ i ≤ j) := by
        rw [hup]; cases side <;> simp [Filling.char, inTri] at htri ⊢ <;> omega
      unfold Mat.load
      rw [hcc, hacj, cjIf_false, cjIf_false, haddr, hval _ j i hci htr]
      congr 1
      congr 1
      apply sumZ_congr
      intro l _ _
      rw [cjIf_false, cjIf_false, CRing.mul_comm]
    · intro addr hno
      apply syrk_exec_same
      intro i' j' hci htr
      obtain ⟨hadr, hi0, hi, hj0, hj⟩ := cmIndex_some hci
      apply hno
      refine ⟨j', i', hj0, by omega, hi0, by omega, ?_, ?_⟩
      · rw [hup] at htr; cases side <;> simp [Filling.char, inTri] at htr ⊢ <;> omega
      · have := outIs_addr hout (i := i') (j := j') hi0 (by omega) hj0 (by omega)
        simp only [Mat.lmT] at this
        unfold Mat.addr
        omega
  · -- orientation 2: X = C
    constructor
    · intro i j hi0 hi hj0 hj htri
      have haddr : c.base + i * c.s0 + j * c.s1 = g.c + i + j * g.ldc := by
        have := outIs_addr hout (i := i) (j := j) hi0 hi hj0 (by omega)
        simp only [Mat.lm] at this
        omega
      have hci := cmIndex_hit (x := g.c) (ld := g.ldc) (m := g.n) (n := g.n) hi0 (by omega) hj0 (by omega) hnld
      have htr : (g.uplo = 'U' ∧ i ≤ j) ∨ (g.uplo = 'L' ∧ j ≤ i) := by
        rw [hup]; cases side <;> simp [Filling.char, Filling.flip, inTri] at htri ⊢ <;> omega
      unfold Mat.load
      rw [hcc, hacj, cjIf_false, cjIf_false, haddr, hval _ i j hci htr]
      rfl
    · intro addr hno
      apply syrk_exec_same
      intro i' j' hci htr
      obtain ⟨hadr, hi0, hi, hj0, hj⟩ := cmIndex_some hci
      apply hno
      refine ⟨i', j', hi0, by omega, hj0, by omega, ?_, ?_⟩
      · rw [hup] at htr; cases side <;> simp [Filling.char, Filling.flip, inTri] at htr ⊢ <;> omega
      · have := outIs_addr hout (i := i') (j := j') hi0 (by omega) hj0 (by omega)
        simp only [Mat.lm] at this
        unfold Mat.addr
        omega

/-- C := alpha·A·Aᴴ + beta·C on one triangle (off-diagonal elements; the diagonal additionally loses its imaginary part) -/
structure HerkSpec (alpha beta : R) (side : Filling) (a c : Mat) (mem mem' : Mem R) : Prop where
  elems : ∀ i j : Int, 0 ≤ i → i < c.n0 → 0 ≤ j → j < c.n1 → inTri side i j → i ≠ j →
    c.load mem' i j = alpha * sumZ a.n1 (fun l => a.load mem i l * CRing.conj (a.load mem j l)) + beta * c.load mem i j
  diag : ∀ i : Int, 0 ≤ i → i < c.n0 →
    c.load mem' i i = CRing.re (alpha * sumZ a.n1 (fun l => a.load mem i l * CRing.conj (a.load mem i l)) + beta * CRing.re (c.load mem i i))
  frame : ∀ addr : Int, (¬ ∃ i j : Int, 0 ≤ i ∧ i < c.n0 ∧ 0 ≤ j ∧ j < c.n1 ∧ inTri side i j ∧ addr = c.addr i j) → mem' addr = mem addr

end Multi.Blas
