/-
  MultiProofs.GenTie — the hand-written model (`MultiModel/Layout.lean`, `MultiModel/View.lean`) EQUALS the definitions
  regenerated from the current headers by tools/gen_layout.py (`MultiModel/Gen/LayoutGen.lean`), function by function,
  on every layout the C++ type admits (a `layout_t<D>` with D ≥ 1 is a non-empty list; the D > 1 class of
  `const_subarray` has at least two levels, the D = 1 specialisation exactly one).

  For the functions the library defines by recursion on D (`rotate`, `unrotate`, `reverse`, `num_elements`,
  `base_size`, `scale`, variadic `reindex`/`reindexed`) the generated definition is ONE unfolding of the code with the
  recursive call interpreted by the hand model: the tie theorem says that the hand model satisfies the code's own
  recursion equation, which determines it uniquely by induction on D.

  Every theorem here is a proof obligation of C01/C19 (and C02, C20 for the iterator and assertion parts): when the source
  changes, the generated text changes and the corresponding theorem stops checking.
-/
import MultiModel.Gen.LayoutGen
import MultiProofs.TieTactic
import MultiProofs.TieLemmas
import MultiModel.Iter

namespace Multi.GenTie
open Multi Multi.Gen

/-! ### index_range.hpp -/

theorem R_is_empty_tie (r : Ext) : R_is_empty r = r.isEmpty := rfl
theorem R_size_tie (r : Ext) : R_size r = r.size := rfl
theorem R_contains_tie (r : Ext) (i : Int) : R_contains r i = r.contains i := rfl
theorem R_front_tie (r : Ext) : R_front r = r.first := rfl
theorem R_back_tie (r : Ext) : R_back r = r.back := rfl
theorem R_eq_tie (a b : Ext) : R_eq a b = a.eqv b := rfl
theorem E_intersection_tie (a b : Ext) : E_intersection a b = a.inter b := rfl

/-! ### layout.hpp, `layout_t<D>` -/

/-- the constructor from extensions: the hand model's `ofExts` is the code's mem-initialisers over the tail's layout -/
theorem L_ctor_tie (e : Ext) (es : List Ext) : L_ctor e (Layout.ofExts es) = Layout.ofExts (e :: es) := by
  tie_simp [L_ctor, Layout.ofExts]

/-- `layout_t<0>`: built with `nelems_ = 1`, and `num_elements()` returns it — the hand model's base case -/
theorem L0_tie : L0_num_elements [] L0_ctor_offset L0_ctor_nelems = Layout.numElements [] := rfl
theorem L0_base_size_tie (o n : Int) : L0_base_size [] o n = Layout.baseSize [] := rfl
theorem L0_reverse_tie (o n : Int) : L0_reverse [] o n = Layout.reverse [] := by
  tie_simp [L0_reverse, Layout.reverse, Layout.unrotate]

theorem L_reindex1_tie (d : Dim) (sub : Layout) (i : Int) : L_reindex1 (d :: sub) i = Layout.reindex1 (d :: sub) i := by
  tie_simp [L_reindex1, Layout.reindex1]

theorem L_reindex_tie (l : Layout) (i j : Int) (rest : List Int) :
    L_reindex l i (j :: rest) = Layout.reindex l (i :: j :: rest) := by
  tie_simp [L_reindex, Layout.reindex]

theorem L_num_elements_tie (d : Dim) (sub : Layout) : L_num_elements (d :: sub) = Layout.numElements (d :: sub) := by
  tie_simp [L_num_elements, Layout.numElements]

theorem L_is_empty_tie (d : Dim) (sub : Layout) : L_is_empty (d :: sub) = Layout.isEmpty (d :: sub) := by
  tie_simp [L_is_empty, Layout.isEmpty]

theorem L_size_tie (d : Dim) (sub : Layout) : L_size (d :: sub) = d.size := by
  tie_simp [L_size, Dim.size]

theorem L_extension_tie (d : Dim) (sub : Layout) : L_extension (d :: sub) = d.ext := by
  tie_simp [L_extension, Dim.ext]

theorem L_extension_asserts_tie (d : Dim) (sub : Layout) : L_extension_asserts (d :: sub) = d.extAsserts := by
  simp only [L_extension_asserts, Dim.extAsserts, hd_cons]
  cases h1 : (d.nelems == 0) <;> simp

theorem L_base_size_tie (d : Dim) (sub : Layout) : L_base_size (d :: sub) = Layout.baseSize (d :: sub) := by
  tie_simp [L_base_size, Layout.baseSize]

theorem L_drop_tie (d : Dim) (sub : Layout) (n : Int) : L_drop (d :: sub) n = Layout.drop (d :: sub) n := by
  tie_simp [L_drop, Layout.drop]

theorem L_slice_tie (d : Dim) (sub : Layout) (a b : Int) : L_slice (d :: sub) a b = Layout.slice (d :: sub) a b := by
  tie_simp [L_slice, Layout.slice, Layout.isEmpty]

theorem L_take_tie (d : Dim) (sub : Layout) (n : Int) : L_take (d :: sub) n = Layout.take (d :: sub) n := by
  tie_simp [L_take, Layout.take]

theorem L_halve_tie (d : Dim) (sub : Layout) : L_halve (d :: sub) = Layout.halve (d :: sub) := by
  tie_simp [L_halve, Layout.halve]

theorem L_scale_tie (d : Dim) (sub : Layout) (num den : Int) :
    L_scale (d :: sub) num den = Layout.scale (d :: sub) num den := by
  tie_simp [L_scale, Layout.scale]

theorem L_scale_asserts_tie (d : Dim) (sub : Layout) (num den : Int) :
    (L_scale_asserts (d :: sub) num den && Layout.scaleAsserts sub num den) = Layout.scaleAsserts (d :: sub) num den := by
  tie_simp [L_scale_asserts, Layout.scaleAsserts]

theorem L_transpose_tie (d d1 : Dim) (sub : Layout) :
    L_transpose (d :: d1 :: sub) = Layout.transpose (d :: d1 :: sub) := by
  tie_simp [L_transpose, Layout.transpose]

theorem L_rotate_tie (d : Dim) (sub : Layout) : L_rotate (d :: sub) = Layout.rotate (d :: sub) := by
  cases sub with
  | nil => simp [L_rotate, Layout.rotate]
  | cons d1 sub => simp [L_rotate, Layout.rotate, Layout.transpose]; omega

theorem L_unrotate_tie (d : Dim) (sub : Layout) : L_unrotate (d :: sub) = Layout.unrotate (d :: sub) := by
  cases sub with
  | nil => simp [L_unrotate, Layout.unrotate]
  | cons d1 sub => simp [L_unrotate, Layout.unrotate]; omega

theorem L_reverse_tie (d : Dim) (sub : Layout) : L_reverse (d :: sub) = Layout.reverse (d :: sub) := by
  have hlen := Layout.length_unrotate (d :: sub)
  rw [Layout.reverse]
  split
  · rename_i h; rw [h] at hlen; simp at hlen
  · rename_i d' sub' h; simp [L_reverse, h]

/-! ### array_ref.hpp, `const_subarray<T, D>` for D > 1 -/

section viewD
variable (b : Int) (d d1 : Dim) (sub : Layout)

theorem V_at_aux_tie (i : Int) : V_at_aux ⟨b, d :: d1 :: sub⟩ i = View.index ⟨b, d :: d1 :: sub⟩ i := by
  tie_simp [V_at_aux, View.index]
theorem V_bracket_tie (i : Int) : V_bracket ⟨b, d :: d1 :: sub⟩ i = View.index ⟨b, d :: d1 :: sub⟩ i := by
  tie_simp [V_bracket, View.index]
theorem V_at_aux_asserts_tie (i : Int) : V_at_aux_asserts ⟨b, d :: d1 :: sub⟩ i = View.indexAssert ⟨b, d :: d1 :: sub⟩ i := by
  tie_simp [V_at_aux_asserts, View.indexAssert]
theorem V_bracket_asserts_tie (i : Int) : V_bracket_asserts ⟨b, d :: d1 :: sub⟩ i = View.indexAssert ⟨b, d :: d1 :: sub⟩ i := by
  tie_simp [V_bracket_asserts, View.indexAssert]

theorem V_reindexed1_tie (i : Int) : V_reindexed1 ⟨b, d :: d1 :: sub⟩ i = View.reindexed1 ⟨b, d :: d1 :: sub⟩ i := by
  tie_simp [V_reindexed1, View.reindexed1]
theorem V_reindexed_tie (v : View) (i j : Int) (rest : List Int) :
    V_reindexed v i (j :: rest) = View.reindexed v (i :: j :: rest) := by
  tie_simp [V_reindexed, View.reindexed]

theorem V_taked_aux_tie (n : Int) : V_taked_aux ⟨b, d :: d1 :: sub⟩ n = View.taked ⟨b, d :: d1 :: sub⟩ n := by
  tie_simp [V_taked_aux, View.taked, Layout.take]
theorem V_dropped_aux_tie (n : Int) : V_dropped_aux ⟨b, d :: d1 :: sub⟩ n = View.dropped ⟨b, d :: d1 :: sub⟩ n := by
  tie_simp [V_dropped_aux, View.dropped]
theorem V_sliced_aux_tie (a c : Int) : V_sliced_aux ⟨b, d :: d1 :: sub⟩ a c = View.sliced ⟨b, d :: d1 :: sub⟩ a c := by
  tie_simp [V_sliced_aux, View.sliced]
/-- the two bound assertions of `sliced_aux_` are the model's `slicedAsserts`; the third (null base with a non-zero
    pointer offset) constrains the pointer, which the model does not carry -/
theorem V_sliced_aux_asserts_tie (a c : Int) :
    (V_sliced_aux_asserts ⟨b, d :: d1 :: sub⟩ a c = true) ↔
      (View.slicedAsserts ⟨b, d :: d1 :: sub⟩ a c = true ∧ (b ≠ 0 ∨ a * d.stride - d.offset = 0)) := by
  simp only [V_sliced_aux_asserts, View.slicedAsserts, hd_cons, tl_cons, Bool.and_eq_true, Bool.or_eq_true, beq_iff_eq,
    bne_iff_ne, ne_eq, Bool.and_true, decide_eq_true_eq]
  grind
theorem V_strided_aux_tie (s : Int) : V_strided_aux ⟨b, d :: d1 :: sub⟩ s = View.strided ⟨b, d :: d1 :: sub⟩ s := by
  tie_simp [V_strided_aux, View.strided]
theorem V_range_tie (v : View) (e : Ext) : V_range v e = View.range v e.first e.last := by
  have h1 : e.first + (e.last - e.first) = e.last := by omega
  have h2 : e.last - e.first + e.first = e.last := by omega
  simp [V_range, View.range, Ext.size, h1, h2]
theorem V_blocked_tie (v : View) (a c : Int) : V_blocked v a c = View.blocked v a c := by
  tie_simp [V_blocked, View.blocked]
theorem V_halved_aux_tie (v : View) : V_halved_aux v = View.halved v := by
  tie_simp [V_halved_aux, View.halved]
theorem V_partitioned_aux_tie (n : Int) :
    V_partitioned_aux ⟨b, d :: d1 :: sub⟩ n = View.partitioned ⟨b, d :: d1 :: sub⟩ n := by
  tie_simp [V_partitioned_aux, View.partitioned]
theorem V_partitioned_aux_asserts_tie (n : Int) :
    V_partitioned_aux_asserts ⟨b, d :: d1 :: sub⟩ n = View.partitionedAsserts ⟨b, d :: d1 :: sub⟩ n := by
  tie_simp [V_partitioned_aux_asserts, View.partitionedAsserts]
theorem V_chunked_aux_tie (c : Int) : V_chunked_aux ⟨b, d :: d1 :: sub⟩ c = View.chunked ⟨b, d :: d1 :: sub⟩ c := by
  tie_simp [V_chunked_aux, View.chunked, View.size]
theorem V_is_flattable_tie : V_is_flattable ⟨b, d :: d1 :: sub⟩ = View.isFlattable ⟨b, d :: d1 :: sub⟩ := by
  simp only [V_is_flattable, View.isFlattable, hd_cons, tl_cons]
  first | (congr; done) | (rw [int_beq_comm d1.nelems d.stride]; congr; done) | (rw [int_beq_comm d.stride d1.nelems]; congr; done)
theorem V_flatted_tie : V_flatted ⟨b, d :: d1 :: sub⟩ = View.flatted ⟨b, d :: d1 :: sub⟩ := by
  tie_simp [V_flatted, View.flatted]
theorem V_broadcasted_tie (v : View) (junk : Int) : V_broadcasted v junk = View.broadcasted v junk := by
  tie_simp [V_broadcasted, View.broadcasted]
theorem V_reversed_aux_tie (v : View) : V_reversed_aux v = View.reversed v := rfl
theorem V_transposed_aux_tie (v : View) : V_transposed_aux v = View.transposed v := rfl
theorem V_rotated_aux_tie (v : View) : V_rotated_aux v = View.rotated v := rfl
theorem V_unrotated_aux_tie (v : View) : V_unrotated_aux v = View.unrotated v := rfl

/-- `diagonal_aux_`: whenever the code's own `(*this)({0, n}, {0, n})` has two levels (it always has: the call syntax
    with two ranges preserves D ≥ 2), the generated body is the hand model's `diagonal` -/
theorem V_diagonal_aux_tie (e0 e1 : Dim) (rest : Layout)
    (h : (View.paren ⟨b, d :: d1 :: sub⟩ [Arg.rng 0 (min d.size d1.size), Arg.rng 0 (min d.size d1.size)]).lay = e0 :: e1 :: rest) :
    V_diagonal_aux ⟨b, d :: d1 :: sub⟩ = View.diagonal ⟨b, d :: d1 :: sub⟩ := by
  simp only [V_diagonal_aux, View.diagonal, Layout.sizes, List.map_cons, List.getD_cons_zero, List.getD_cons_succ]
  rw [h]
  simp

/-- `begin_aux_` / `end_aux_` build the iterator the model calls `ArrIt.begin` / `ArrIt.end` -/
theorem V_begin_aux_tie : V_begin_aux ⟨b, d :: d1 :: sub⟩ = (b, d1 :: sub, d.stride) := by
  tie_simp [V_begin_aux]
theorem V_end_aux_tie : V_end_aux ⟨b, d :: d1 :: sub⟩ = (b + d.nelems, d1 :: sub, d.stride) := by
  tie_simp [V_end_aux]
end viewD

theorem length_rotate (l : Layout) : (Layout.rotate l).length = l.length := by
  fun_induction Layout.rotate l with
  | case1 d0 d1 l ih => simp [ih]
  | case2 l h => rfl

theorem length_sliced (v : View) (a b : Int) : (v.sliced a b).lay.length = v.lay.length := by
  unfold View.sliced
  split <;> simp_all [Layout.slice]

theorem length_paren_rng2 (v : View) (a b a' b' : Int) :
    (v.paren [Arg.rng a b, Arg.rng a' b']).lay.length = v.lay.length := by
  tie_simp [View.paren, View.unrotated, View.rotated, View.range, Layout.length_unrotate, length_rotate, length_sliced]

/-- `diagonal_aux_` unconditionally: the call syntax with two ranges preserves the number of levels, so the hypothesis of
    `V_diagonal_aux_tie` always holds -/
theorem diagonal_is_the_code (b : Int) (d d1 : Dim) (sub : Layout) :
    V_diagonal_aux ⟨b, d :: d1 :: sub⟩ = View.diagonal ⟨b, d :: d1 :: sub⟩ := by
  have hl := length_paren_rng2 ⟨b, d :: d1 :: sub⟩ 0 (min d.size d1.size) 0 (min d.size d1.size)
  match h : (View.paren ⟨b, d :: d1 :: sub⟩ [Arg.rng 0 (min d.size d1.size), Arg.rng 0 (min d.size d1.size)]).lay with
  | [] => rw [h] at hl; simp at hl
  | [_] => rw [h] at hl; simp at hl
  | e0 :: e1 :: rest => exact V_diagonal_aux_tie b d d1 sub e0 e1 rest h

/-! ### array_ref.hpp, `const_subarray<T, 1>` -/

section view1
variable (b : Int) (d : Dim)

theorem V1_at_aux_tie (i : Int) : V1_at_aux ⟨b, [d]⟩ i = View.index ⟨b, [d]⟩ i := by
  tie_simp [V1_at_aux, View.index]
theorem V1_at_aux_asserts_tie (i : Int) : V1_at_aux_asserts ⟨b, [d]⟩ i = View.indexAssert ⟨b, [d]⟩ i := by
  tie_simp [V1_at_aux_asserts, View.indexAssert]
theorem V1_reindexed1_tie (i : Int) : V1_reindexed1 ⟨b, [d]⟩ i = View.reindexed1 ⟨b, [d]⟩ i := by
  tie_simp [V1_reindexed1, View.reindexed1]
theorem V1_taked_aux_tie (n : Int) : V1_taked_aux ⟨b, [d]⟩ n = View.taked ⟨b, [d]⟩ n := by
  tie_simp [V1_taked_aux, View.taked]
theorem V1_dropped_aux_tie (n : Int) : V1_dropped_aux ⟨b, [d]⟩ n = View.dropped ⟨b, [d]⟩ n := by
  tie_simp [V1_dropped_aux, View.dropped, Layout.drop]
theorem V1_sliced_aux_tie (a c : Int) : V1_sliced_aux ⟨b, [d]⟩ a c = View.sliced ⟨b, [d]⟩ a c := by
  tie_simp [V1_sliced_aux, View.sliced]
theorem V1_strided_aux_tie (s : Int) : V1_strided_aux ⟨b, [d]⟩ s = View.strided ⟨b, [d]⟩ s := by
  tie_simp [V1_strided_aux, View.strided]
/-- D = 1 `range` calls `sliced(front, last)`; the model's `range` is `sliced a (a + (b − a))` (the D > 1 text) -/
theorem V1_range_tie (v : View) (e : Ext) : V1_range v e = View.range v e.first e.last := by
  have : e.first + (e.last - e.first) = e.last := by omega
  simp [V1_range, View.range, this]
theorem V1_blocked_tie (v : View) (a c : Int) : V1_blocked v a c = View.blocked v a c := by
  tie_simp [V1_blocked, View.blocked]
theorem V1_halved_aux_tie (v : View) : V1_halved_aux v = View.halved v := by
  tie_simp [V1_halved_aux, View.halved]
theorem V1_partitioned_aux_tie (n : Int) : V1_partitioned_aux ⟨b, [d]⟩ n = View.partitioned ⟨b, [d]⟩ n := by
  tie_simp [V1_partitioned_aux, View.partitioned]
theorem V1_partitioned_aux_asserts_tie (n : Int) :
    V1_partitioned_aux_asserts ⟨b, [d]⟩ n = View.partitionedAsserts ⟨b, [d]⟩ n := by
  tie_simp [V1_partitioned_aux_asserts, View.partitionedAsserts]
theorem V1_chunked_aux_tie (c : Int) : V1_chunked_aux ⟨b, [d]⟩ c = View.chunked ⟨b, [d]⟩ c := by
  tie_simp [V1_chunked_aux, View.chunked, View.size]
theorem V1_reversed_aux_tie (v : View) : V1_reversed_aux v = View.reversed v := rfl
end view1

theorem range_functions_are_the_code (a b : Ext) (i : Int) :
    R_is_empty a = a.isEmpty ∧ R_size a = a.size ∧ R_contains a i = a.contains i ∧ R_front a = a.first ∧ R_back a = a.back ∧
    R_eq a b = a.eqv b ∧ E_intersection a b = a.inter b :=
  ⟨rfl, rfl, rfl, rfl, rfl, rfl, rfl⟩

/-! ### public wrappers of `const_subarray` (D > 1, D = 1) and the overrides of the mutable class `subarray`

Each forwards to the `_aux_` function tied above (all `const&` / `&` / `&&` overloads translate to the same text, which the
translator checks).  The call-syntax dispatcher `paren_aux_` is the model's `View.paren`, one argument at a time. -/

theorem wrappers_are_the_code (v : View) (a c : Int) (e : Ext) (args : List Arg) :
    W_sliced v a c = v.sliced a c ∧ W_taked v a = v.taked a ∧ W_dropped v a = v.dropped a ∧ W_strided v a = v.strided a ∧
    W_rotated v = v.rotated ∧ W_unrotated v = v.unrotated ∧ W_transposed v = v.transposed ∧ W_reversed v = v.reversed ∧
    W_partitioned v a = v.partitioned a ∧ W_chunked v a = v.chunked a ∧ W_halved v = v.halved ∧ W_diagonal v = v.diagonal ∧
    W1_sliced v a c = v.sliced a c ∧ W1_taked v a = v.taked a ∧ W1_dropped v a = v.dropped a ∧ W1_strided v a = v.strided a ∧
    W1_partitioned v a = v.partitioned a ∧ W1_chunked v a = v.chunked a ∧ W1_halved v = v.halved ∧
    S_sliced v a c = v.sliced a c ∧ S_range v e = v.range e.first e.last ∧ S_taked v a = v.taked a ∧ S_dropped v a = v.dropped a ∧
    S_strided v a = v.strided a ∧ S_rotated v = v.rotated ∧ S_unrotated v = v.unrotated ∧ S_transposed v = v.transposed ∧
    S_reversed v = v.reversed ∧ S_partitioned v a = v.partitioned a ∧ S_chunked v a = v.chunked a ∧ S_diagonal v = v.diagonal ∧
    S_bracket v a = v.index a := by
  refine ⟨rfl, rfl, rfl, rfl, rfl, rfl, rfl, rfl, rfl, rfl, rfl, rfl, rfl, rfl, rfl, rfl, rfl, rfl, rfl, rfl, ?_, rfl, rfl, rfl, rfl, rfl, rfl,
    rfl, rfl, rfl, rfl, rfl⟩
  have h1 : e.first + (e.last - e.first) = e.last := by omega
  have h2 : e.last - e.first + e.first = e.last := by omega
  simp [S_range, View.range, Ext.size, h1, h2]

theorem S_flatted_tie (b : Int) (d d1 : Dim) (sub : Layout) : S_flatted ⟨b, d :: d1 :: sub⟩ = View.flatted ⟨b, d :: d1 :: sub⟩ := by
  tie_simp [S_flatted, View.flatted]

/-- the call-syntax dispatcher, overload by overload, is `View.paren` consuming one argument; an `intersecting_range`
    (`multi::ALL`, `multi::_ < k`, `k <= multi::_`) is first intersected with the leading extension -/
theorem paren_dispatch_is_the_code (v : View) (i : Int) (r : Ext) (args : List Arg) :
    W_paren0 v = v.paren [] ∧ S_paren0 v = v.paren [] ∧ W1_paren0 v = v.paren [] ∧
    S_paren_idx1 v i = v.paren [Arg.idx i] ∧ W1_paren_idx v i = v.paren [Arg.idx i] ∧
    S_paren_idx v i args = v.paren (Arg.idx i :: args) ∧
    W_paren_rng v r args = v.paren (Arg.rng r.first r.last :: args) ∧ S_paren_rng v r args = v.paren (Arg.rng r.first r.last :: args) ∧
    W_paren_clip v r args = v.paren (Arg.rng (v.ext.inter r).first (v.ext.inter r).last :: args) ∧
    S_paren_clip v r args = v.paren (Arg.rng (v.ext.inter r).first (v.ext.inter r).last :: args) := by
  have hext : Dim.ext (hd v.lay) = v.ext := by
    unfold View.ext hd
    cases v.lay <;> simp [Dim.ext]
  refine ⟨rfl, rfl, rfl, rfl, rfl, rfl, ?_, ?_, ?_, ?_⟩
  · simp [W_paren_rng, View.paren]
  · simp [S_paren_rng, View.paren]
  · simp [W_paren_clip, hext]
  · simp [S_paren_clip, hext]

/-- `multi::ALL` is the clip with the whole index range: the model's `Arg.all` case is the code's `intersecting_range` case -/
theorem paren_all_is_clip (v : View) (args : List Arg) :
    v.paren (Arg.all :: args) = v.paren (Arg.rng (v.ext.inter ⟨v.ext.first, v.ext.last⟩).first (v.ext.inter ⟨v.ext.first, v.ext.last⟩).last :: args) := by
  tie_simp [View.paren]

theorem W1_paren_tie (b : Int) (d : Dim) (r : Ext) :
    W1_paren_rng ⟨b, [d]⟩ r = View.range ⟨b, [d]⟩ r.first r.last ∧
    W1_paren_clip ⟨b, [d]⟩ r = View.range ⟨b, [d]⟩ (d.ext.inter r).first (d.ext.inter r).last := by
  have h : ∀ (x : Ext), x.first + (x.last - x.first) = x.last := fun x => by omega
  constructor
  · simp [W1_paren_rng, View.range, h]
  · simp [W1_paren_clip, View.range, View.paren, View.rotated, View.unrotated, View.sliced, Layout.slice, Layout.rotate, Layout.unrotate, h]

/-- the whole tie in one statement (the name the checks audit): every regenerated function agrees with the hand model -/
theorem layout_functions_are_the_code :
    (∀ e es, L_ctor e (Layout.ofExts es) = Layout.ofExts (e :: es)) ∧
    (∀ d sub, L_size (d :: sub) = d.size ∧ L_extension (d :: sub) = d.ext ∧ L_num_elements (d :: sub) = Layout.numElements (d :: sub)) ∧
    (∀ d sub n, L_take (d :: sub) n = Layout.take (d :: sub) n ∧ L_drop (d :: sub) n = Layout.drop (d :: sub) n) ∧
    (∀ d sub a b, L_slice (d :: sub) a b = Layout.slice (d :: sub) a b) ∧
    (∀ d sub, L_halve (d :: sub) = Layout.halve (d :: sub)) ∧
    (∀ d sub n m, L_scale (d :: sub) n m = Layout.scale (d :: sub) n m) ∧
    (∀ d d1 sub, L_transpose (d :: d1 :: sub) = Layout.transpose (d :: d1 :: sub)) ∧
    (∀ d sub, L_rotate (d :: sub) = Layout.rotate (d :: sub) ∧ L_unrotate (d :: sub) = Layout.unrotate (d :: sub) ∧
              L_reverse (d :: sub) = Layout.reverse (d :: sub)) ∧
    (∀ d sub i, L_reindex1 (d :: sub) i = Layout.reindex1 (d :: sub) i) ∧
    (∀ l i j rest, L_reindex l i (j :: rest) = Layout.reindex l (i :: j :: rest)) :=
  ⟨L_ctor_tie, fun d sub => ⟨L_size_tie d sub, L_extension_tie d sub, L_num_elements_tie d sub⟩,
   fun d sub n => ⟨L_take_tie d sub n, L_drop_tie d sub n⟩, L_slice_tie, L_halve_tie, L_scale_tie, L_transpose_tie,
   fun d sub => ⟨L_rotate_tie d sub, L_unrotate_tie d sub, L_reverse_tie d sub⟩, L_reindex1_tie, L_reindex_tie⟩

theorem view_functions_are_the_code (b : Int) (d d1 : Dim) (sub : Layout) :
    let v : View := ⟨b, d :: d1 :: sub⟩
    let w : View := ⟨b, [d]⟩
    (∀ i, V_at_aux v i = v.index i ∧ V_bracket v i = v.index i ∧ V1_at_aux w i = w.index i) ∧
    (∀ i, V_reindexed1 v i = v.reindexed1 i ∧ V1_reindexed1 w i = w.reindexed1 i) ∧
    (∀ n, V_taked_aux v n = v.taked n ∧ V1_taked_aux w n = w.taked n) ∧
    (∀ n, V_dropped_aux v n = v.dropped n ∧ V1_dropped_aux w n = w.dropped n) ∧
    (∀ a c, V_sliced_aux v a c = v.sliced a c ∧ V1_sliced_aux w a c = w.sliced a c) ∧
    (∀ s, V_strided_aux v s = v.strided s ∧ V1_strided_aux w s = w.strided s) ∧
    (∀ (u : View) e, V_range u e = u.range e.first e.last ∧ V1_range u e = u.range e.first e.last) ∧
    (∀ (u : View) a c, V_blocked u a c = u.blocked a c ∧ V1_blocked u a c = u.blocked a c) ∧
    (∀ (u : View), V_halved_aux u = u.halved ∧ V1_halved_aux u = u.halved) ∧
    (∀ n, V_partitioned_aux v n = v.partitioned n ∧ V1_partitioned_aux w n = w.partitioned n) ∧
    (∀ c, V_chunked_aux v c = v.chunked c ∧ V1_chunked_aux w c = w.chunked c) ∧
    (V_is_flattable v = v.isFlattable ∧ V_flatted v = v.flatted) ∧
    (∀ (u : View) j, V_broadcasted u j = u.broadcasted j) ∧
    (∀ (u : View), V_reversed_aux u = u.reversed ∧ V1_reversed_aux u = u.reversed ∧ V_transposed_aux u = u.transposed ∧
                   V_rotated_aux u = u.rotated ∧ V_unrotated_aux u = u.unrotated) ∧
    (∀ (u : View) i j rest, V_reindexed u i (j :: rest) = u.reindexed (i :: j :: rest)) := by
  intro v w
  exact ⟨fun i => ⟨V_at_aux_tie b d d1 sub i, V_bracket_tie b d d1 sub i, V1_at_aux_tie b d i⟩,
    fun i => ⟨V_reindexed1_tie b d d1 sub i, V1_reindexed1_tie b d i⟩,
    fun n => ⟨V_taked_aux_tie b d d1 sub n, V1_taked_aux_tie b d n⟩,
    fun n => ⟨V_dropped_aux_tie b d d1 sub n, V1_dropped_aux_tie b d n⟩,
    fun a c => ⟨V_sliced_aux_tie b d d1 sub a c, V1_sliced_aux_tie b d a c⟩,
    fun s => ⟨V_strided_aux_tie b d d1 sub s, V1_strided_aux_tie b d s⟩,
    fun u e => ⟨V_range_tie u e, V1_range_tie u e⟩,
    fun u a c => ⟨V_blocked_tie u a c, V1_blocked_tie u a c⟩,
    fun u => ⟨V_halved_aux_tie u, V1_halved_aux_tie u⟩,
    fun n => ⟨V_partitioned_aux_tie b d d1 sub n, V1_partitioned_aux_tie b d n⟩,
    fun c => ⟨V_chunked_aux_tie b d d1 sub c, V1_chunked_aux_tie b d c⟩,
    ⟨V_is_flattable_tie b d d1 sub, V_flatted_tie b d d1 sub⟩,
    V_broadcasted_tie,
    fun u => ⟨V_reversed_aux_tie u, V1_reversed_aux_tie u, V_transposed_aux_tie u, V_rotated_aux_tie u, V_unrotated_aux_tie u⟩,
    V_reindexed_tie⟩

theorem assertions_are_the_code (b : Int) (d d1 : Dim) (sub : Layout) :
    let v : View := ⟨b, d :: d1 :: sub⟩
    let w : View := ⟨b, [d]⟩
    (∀ i, V_at_aux_asserts v i = v.indexAssert i ∧ V_bracket_asserts v i = v.indexAssert i ∧ V1_at_aux_asserts w i = w.indexAssert i) ∧
    (∀ a c, V_sliced_aux_asserts v a c = true ↔ (v.slicedAsserts a c = true ∧ (b ≠ 0 ∨ a * d.stride - d.offset = 0))) ∧
    (∀ n, V_partitioned_aux_asserts v n = v.partitionedAsserts n ∧ V1_partitioned_aux_asserts w n = w.partitionedAsserts n) ∧
    (L_extension_asserts (d :: sub) = d.extAsserts) ∧
    (∀ n m, (L_scale_asserts (d :: sub) n m && Layout.scaleAsserts sub n m) = Layout.scaleAsserts (d :: sub) n m) := by
  intro v w
  exact ⟨fun i => ⟨V_at_aux_asserts_tie b d d1 sub i, V_bracket_asserts_tie b d d1 sub i, V1_at_aux_asserts_tie b d i⟩,
    V_sliced_aux_asserts_tie b d d1 sub,
    fun n => ⟨V_partitioned_aux_asserts_tie b d d1 sub n, V1_partitioned_aux_asserts_tie b d n⟩,
    L_extension_asserts_tie d sub, L_scale_asserts_tie d sub⟩

/-! ### assertion inventory of the translated functions

Every translated function carries a generated `<name>_asserts`; the ones below have NO assertion in the current source
(an assertion added to one of them makes the corresponding line fail), the others are tied to the model's predicates. -/

theorem R_is_empty_asserts_tie (r : Ext) : R_is_empty_asserts r = true := rfl
theorem R_size_asserts_tie (r : Ext) : R_size_asserts r = true := rfl
theorem R_contains_asserts_tie (r : Ext) (value : Int) : R_contains_asserts r value = true := rfl
theorem R_front_asserts_tie (r : Ext) : R_front_asserts r = true := rfl
theorem R_back_asserts_tie (r : Ext) : R_back_asserts r = true := rfl
theorem L_reindex1_asserts_tie (l : Layout) (idx : Int) : L_reindex1_asserts l idx = true := rfl
theorem L_reindex_asserts_tie (l : Layout) (idx : Int) (rest : List Int) : L_reindex_asserts l idx rest = true := rfl
theorem L_num_elements_asserts_tie (l : Layout) : L_num_elements_asserts l = true := rfl
theorem L_is_empty_asserts_tie (l : Layout) : L_is_empty_asserts l = true := rfl
theorem L_size_asserts_tie (l : Layout) : L_size_asserts l = true := rfl
theorem L_base_size_asserts_tie (l : Layout) : L_base_size_asserts l = true := rfl
theorem L_slice_asserts_tie (l : Layout) (first : Int) (last : Int) : L_slice_asserts l first last = true := rfl
theorem L_take_asserts_tie (l : Layout) (n : Int) : L_take_asserts l n = true := rfl
theorem L_transpose_asserts_tie (l : Layout) : L_transpose_asserts l = true := rfl
theorem L_reverse_asserts_tie (l : Layout) : L_reverse_asserts l = true := rfl
theorem L_rotate_asserts_tie (l : Layout) : L_rotate_asserts l = true := rfl
theorem L_unrotate_asserts_tie (l : Layout) : L_unrotate_asserts l = true := rfl
theorem L0_num_elements_asserts_tie (l : Layout) (offset0 nelems0 : Int) : L0_num_elements_asserts l offset0 nelems0 = true := rfl
theorem L0_base_size_asserts_tie (l : Layout) (offset0 nelems0 : Int) : L0_base_size_asserts l offset0 nelems0 = true := rfl
theorem L0_reverse_asserts_tie (l : Layout) (offset0 nelems0 : Int) : L0_reverse_asserts l offset0 nelems0 = true := rfl
theorem V_reindexed1_asserts_tie (v : View) (first : Int) : V_reindexed1_asserts v first = true := rfl
theorem V_reindexed_asserts_tie (v : View) (first : Int) (idxs : List Int) : V_reindexed_asserts v first idxs = true := rfl
theorem V_strided_aux_asserts_tie (v : View) (diff : Int) : V_strided_aux_asserts v diff = true := rfl
theorem V_range_asserts_tie (v : View) (irng : Ext) : V_range_asserts v irng = true := rfl
theorem V_blocked_asserts_tie (v : View) (first : Int) (last : Int) : V_blocked_asserts v first last = true := rfl
theorem V_halved_aux_asserts_tie (v : View) : V_halved_aux_asserts v = true := rfl
theorem V_is_flattable_asserts_tie (v : View) : V_is_flattable_asserts v = true := rfl
theorem V_flatted_asserts_tie (v : View) : V_flatted_asserts v = true := rfl
theorem V_broadcasted_asserts_tie (v : View) (junk : Int) : V_broadcasted_asserts v junk = true := rfl
theorem V_diagonal_aux_asserts_tie (v : View) : V_diagonal_aux_asserts v = true := rfl
theorem V_reversed_aux_asserts_tie (v : View) : V_reversed_aux_asserts v = true := rfl
theorem V_transposed_aux_asserts_tie (v : View) : V_transposed_aux_asserts v = true := rfl
theorem V_rotated_aux_asserts_tie (v : View) : V_rotated_aux_asserts v = true := rfl
theorem V_unrotated_aux_asserts_tie (v : View) : V_unrotated_aux_asserts v = true := rfl
theorem V_begin_aux_asserts_tie (v : View) : V_begin_aux_asserts v = true := rfl
theorem V_end_aux_asserts_tie (v : View) : V_end_aux_asserts v = true := rfl
theorem V1_reindexed1_asserts_tie (v : View) (first : Int) : V1_reindexed1_asserts v first = true := rfl
theorem V1_dropped_aux_asserts_tie (v : View) (count : Int) : V1_dropped_aux_asserts v count = true := rfl
theorem V1_sliced_aux_asserts_tie (v : View) (first : Int) (last : Int) : V1_sliced_aux_asserts v first last = true := rfl
theorem V1_strided_aux_asserts_tie (v : View) (diff : Int) : V1_strided_aux_asserts v diff = true := rfl
theorem V1_range_asserts_tie (v : View) (rng : Ext) : V1_range_asserts v rng = true := rfl
theorem V1_blocked_asserts_tie (v : View) (first : Int) (last : Int) : V1_blocked_asserts v first last = true := rfl
theorem V1_halved_aux_asserts_tie (v : View) : V1_halved_aux_asserts v = true := rfl
theorem V1_reversed_aux_asserts_tie (v : View) : V1_reversed_aux_asserts v = true := rfl

theorem L_drop_asserts_tie (d : Dim) (sub : Layout) (n : Int) : (L_drop_asserts (d :: sub) n = true ↔ n ≤ d.size) := by
  simp only [L_drop_asserts, hd_cons]; exact decide_eq_true_iff
theorem L_halve_asserts_tie (d : Dim) (sub : Layout) : L_halve_asserts (d :: sub) = (d.size.tmod 2 == 0) := by
  tie_simp [L_halve_asserts]
theorem V_taked_aux_asserts_tie (b : Int) (d d1 : Dim) (sub : Layout) (n : Int) :
    (V_taked_aux_asserts ⟨b, d :: d1 :: sub⟩ n = true ↔ n ≤ d.size) := by
  simp only [V_taked_aux_asserts, hd_cons]; exact decide_eq_true_iff
theorem V_dropped_aux_asserts_tie (b : Int) (d d1 : Dim) (sub : Layout) (n : Int) :
    (V_dropped_aux_asserts ⟨b, d :: d1 :: sub⟩ n = true ↔ n ≤ d.size) := by
  simp only [V_dropped_aux_asserts, hd_cons]; exact decide_eq_true_iff
theorem V1_taked_aux_asserts_tie (b : Int) (d : Dim) (n : Int) :
    (V1_taked_aux_asserts ⟨b, [d]⟩ n = true ↔ n ≤ d.size) := by
  simp only [V1_taked_aux_asserts, hd_cons]; exact decide_eq_true_iff
theorem V_chunked_aux_asserts_tie (b : Int) (d d1 : Dim) (sub : Layout) (c : Int) :
    V_chunked_aux_asserts ⟨b, d :: d1 :: sub⟩ c = (d.size.tmod c == 0) := by tie_simp [V_chunked_aux_asserts]
theorem V1_chunked_aux_asserts_tie (b : Int) (d : Dim) (c : Int) :
    V1_chunked_aux_asserts ⟨b, [d]⟩ c = (d.size.tmod c == 0) := by tie_simp [V1_chunked_aux_asserts]

/-- the take/drop/chunk assertions are the bounds C20 proves for in-domain arguments (`asserts_silent_take_drop`) -/
theorem take_drop_assertions_are_the_code (b : Int) (d d1 : Dim) (sub : Layout) (n : Int) :
    (V_taked_aux_asserts ⟨b, d :: d1 :: sub⟩ n = true ↔ n ≤ (View.mk b (d :: d1 :: sub)).size) ∧
    (V_dropped_aux_asserts ⟨b, d :: d1 :: sub⟩ n = true ↔ n ≤ (View.mk b (d :: d1 :: sub)).size) ∧
    (V1_taked_aux_asserts ⟨b, [d]⟩ n = true ↔ n ≤ (View.mk b [d]).size) ∧
    (L_drop_asserts (d :: sub) n = true ↔ n ≤ d.size) ∧
    V_chunked_aux_asserts ⟨b, d :: d1 :: sub⟩ n = (d.size.tmod n == 0) ∧ V1_chunked_aux_asserts ⟨b, [d]⟩ n = (d.size.tmod n == 0) ∧
    L_halve_asserts (d :: sub) = (d.size.tmod 2 == 0) :=
  ⟨V_taked_aux_asserts_tie b d d1 sub n, V_dropped_aux_asserts_tie b d d1 sub n, V1_taked_aux_asserts_tie b d n,
   L_drop_asserts_tie d sub n, V_chunked_aux_asserts_tie b d d1 sub n, V1_chunked_aux_asserts_tie b d n, L_halve_asserts_tie d sub⟩

/-- functions of the view algebra whose body has no assertion in the current source -/
theorem unasserted_functions_are_the_code (l : Layout) (v : View) (e : Ext) (i j : Int) (rest : List Int) :
    L_slice_asserts l i j = true ∧ L_take_asserts l i = true ∧ L_transpose_asserts l = true ∧ L_rotate_asserts l = true ∧
    L_unrotate_asserts l = true ∧ L_reverse_asserts l = true ∧ L_reindex1_asserts l i = true ∧ L_reindex_asserts l i rest = true ∧
    L_size_asserts l = true ∧ L_num_elements_asserts l = true ∧
    V_strided_aux_asserts v i = true ∧ V_range_asserts v e = true ∧ V_blocked_asserts v i j = true ∧ V_halved_aux_asserts v = true ∧
    V_flatted_asserts v = true ∧ V_is_flattable_asserts v = true ∧ V_broadcasted_asserts v i = true ∧ V_diagonal_aux_asserts v = true ∧
    V_reversed_aux_asserts v = true ∧ V_transposed_aux_asserts v = true ∧ V_rotated_aux_asserts v = true ∧
    V_unrotated_aux_asserts v = true ∧ V_reindexed1_asserts v i = true ∧ V_reindexed_asserts v i rest = true ∧
    V1_dropped_aux_asserts v i = true ∧ V1_sliced_aux_asserts v i j = true ∧ V1_strided_aux_asserts v i = true ∧
    V1_range_asserts v e = true ∧ V1_blocked_asserts v i j = true ∧ V1_halved_aux_asserts v = true ∧ V1_reversed_aux_asserts v = true ∧
    V1_reindexed1_asserts v i = true := by
  refine ⟨rfl, rfl, rfl, rfl, rfl, rfl, rfl, rfl, rfl, rfl, rfl, rfl, rfl, rfl, rfl, rfl, rfl, rfl, rfl, rfl, rfl, rfl, rfl, rfl, rfl, rfl, rfl, rfl, rfl, rfl, rfl, rfl⟩

end Multi.GenTie
