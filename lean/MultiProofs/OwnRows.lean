/-
  MultiProofs.OwnRows — `assign(first,last)` / `operator=(initializer_list)` IN PLACE: the row-by-row loop `ref::assign(first)` over
  the sub-arrays `A[first+k]` of a row-major array writes the given values to the block, in order.  Helper lemmas for C04 / C06.
-/
import MultiProofs.OwnViewAssign

namespace Multi
namespace Own
open C02
variable {α : Type}

/-! ### writing lists -/

theorem writeList_append (xs ys : List α) : ∀ (h : Heap α) (dst : Option BlockId) (off : Nat),
    h.writeList dst off (xs ++ ys) = (h.writeList dst off xs).writeList dst (off + xs.length) ys := by
  induction xs with
  | nil => intro h dst off; simp [Heap.writeList]
  | cons x xs ih =>
    intro h dst off
    simp only [List.cons_append, Heap.writeList, ih, List.length_cons]
    congr 1; omega

/-- writing through a list of consecutive addresses is `writeList` -/
theorem foldl_write_consec (dst : Option BlockId) (row : List α) : ∀ (off : Nat) (h : Heap α),
    ((((List.range' off row.length).map Int.ofNat).zip row).foldl (fun h (dv : Int × α) => h.write dst dv.1 (some dv.2)) h)
      = h.writeList dst off row := by
  induction row with
  | nil => intro off h; simp [Heap.writeList]
  | cons v row ih =>
    intro off h
    simp only [List.length_cons, List.range'_succ, List.map_cons, List.zip_cons_cons, List.foldl_cons, Heap.writeList]
    exact ih (off + 1) _

theorem eqv_nElems : ∀ (xs ys : List Ext), Exts.eqv xs ys = true → nElems xs = nElems ys := by
  intro xs
  induction xs with
  | nil => intro ys h; cases ys with | nil => rfl | cons _ _ => simp [Exts.eqv] at h
  | cons x xs ih =>
    intro ys h
    cases ys with
    | nil => simp [Exts.eqv] at h
    | cons y ys =>
      simp only [Exts.eqv, Bool.and_eq_true] at h
      simp only [nElems, ih ys h.2]
      congr 1
      have h1 := h.1
      simp only [Ext.eqv, Ext.isEmpty, Bool.or_eq_true, Bool.and_eq_true, beq_iff_eq] at h1
      simp only [Ext.size]
      rcases h1 with ⟨a, b⟩ | ⟨a, b⟩ <;> omega

/-! ### the k-th row of a row-major array -/

/-- `A[first + k]` of an array with elements: the view at offset `k·M` with the layout of the inner extensions (`M` = their element count) -/
theorem row_view {a : Arr} {e : Ext} {rest : List Ext} (hes : ExtsOK (e :: rest)) (hlay : a.lay = Layout.ofExts (e :: rest))
    (hn : nElems (e :: rest) ≠ 0) (k : Nat) :
    a.view.index (a.view.ext.first + Int.ofNat k) = ⟨(k : Int) * nElems rest, Layout.ofExts rest⟩ ∧ a.view.size = e.size := by
  have hrest : nElems rest ≠ 0 := by intro hz; apply hn; simp [nElems, hz]
  have hsz : e.size ≠ 0 := by intro hz; apply hn; simp [nElems, hz]
  have hM := nElems_nonneg hes.tail
  have hS : 0 ≤ e.size := by have := hes.head; simp [Ext.size]; omega
  have hnum : (Layout.ofExts rest).numElements = nElems rest := ofExts_numElements hes.tail
  have hl : a.lay = ⟨nElems rest, e.first * nElems rest, e.size * nElems rest⟩ :: Layout.ofExts rest := by
    rw [hlay]; simp only [Layout.ofExts, hnum, ne_eq, hrest, not_false_eq_true, if_true]
  have hext : (⟨nElems rest, e.first * nElems rest, e.size * nElems rest⟩ : Dim).ext = ⟨e.first, e.first + e.size⟩ :=
    Dim.ext_mk (by omega) (by omega)
  have hsize : (⟨nElems rest, e.first * nElems rest, e.size * nElems rest⟩ : Dim).size = e.size := Dim.size_mk (by omega) (by omega)
  constructor
  · simp only [View.index, View.ext, Arr.view, hl, hext]
    congr 1
    simp only [Int.ofNat_eq_natCast, Int.add_mul]; omega
  · simp only [View.size, Arr.view, hl, hsize]

/-- one step of `ref::assign(first)`: the k-th row receives its values — as a `writeList` at offset `k·M` -/
theorem assignRow_eq {a : Arr} {e : Ext} {rest : List Ext} (hes : ExtsOK (e :: rest)) (hlay : a.lay = Layout.ofExts (e :: rest))
    (hn : nElems (e :: rest) ≠ 0) (inner : List Ext) (heq : Exts.eqv inner rest = true) (k : Nat) (row : List α)
    (hrow : row.length = (nElems rest).toNat) (h : Heap α) :
    assignRow h a k inner row = h.writeList a.base (k * (nElems rest).toNat) row := by
  obtain ⟨hrv, _⟩ := row_view hes hlay hn k
  have hrest : nElems rest ≠ 0 := by intro hz; apply hn; simp [nElems, hz]
  have hM := nElems_nonneg hes.tail
  obtain ⟨M, hMe⟩ := Int.eq_ofNat_of_zero_le hM
  have hMt : (nElems rest).toNat = M := by rw [hMe]; simp
  unfold assignRow
  rw [hrv]
  cases rest with
  | nil =>
    -- D = 1: one element
    have hin : inner = [] := by cases inner with | nil => rfl | cons _ _ => simp [Exts.eqv] at heq
    subst hin
    have hM1 : M = 1 := by simp [nElems] at hMe; omega
    rw [hMt, hM1] at hrow ⊢
    match row, hrow with
    | [v], _ =>
      simp only [Heap.writeList, nElems, Int.mul_one, Nat.mul_one]
      rfl
  | cons r rs =>
    cases inner with
    | nil => simp [Exts.eqv] at heq
    | cons i is =>
      simp only
      -- the row view
      have hok : ExtsOK (r :: rs) := hes.tail
      have hcoll : collapse (r :: rs) = r :: rs := collapse_of_nonzero _ hrest
      obtain ⟨rwf, rex, rnum, raddr⟩ := C01.root_denotes (r :: rs) hok
      have hdex : (⟨(k : Int) * nElems (r :: rs), Layout.ofExts (r :: rs)⟩ : View).exts = r :: rs := by
        show (Layout.ofExts (r :: rs)).exts = _; rw [rex, hcoll]
      have hdnum : (⟨(k : Int) * nElems (r :: rs), Layout.ofExts (r :: rs)⟩ : View).numElements = nElems (r :: rs) := rnum
      have hchk : (Exts.eqv (⟨(k : Int) * nElems (r :: rs), Layout.ofExts (r :: rs)⟩ : View).exts (i :: is) &&
          (⟨(k : Int) * nElems (r :: rs), Layout.ofExts (r :: rs)⟩ : View).numElements == Int.ofNat row.length) = true := by
        rw [hdex, hdnum, eqv_comm, heq, hrow, hMt, hMe]; simp
      have hlayne : (⟨(k : Int) * nElems (r :: rs), Layout.ofExts (r :: rs)⟩ : View).lay ≠ [] := by simp [Layout.ofExts]
      have hne : NonEmpty (⟨(k : Int) * nElems (r :: rs), Layout.ofExts (r :: rs)⟩ : View) :=
        nonEmpty_of rwf hlayne (by rw [hdex]; exact hrest)
      have hea := elemAddrs_eq _ hne
      rw [hdex, ← hrow] at hea
      simp only [hchk, Heap.check, if_true, nonEmpty_not_isEmpty hne, Bool.false_eq_true, if_false, hea]
      -- the addresses are consecutive
      have haddrs : (boxIndices (r :: rs)).map (⟨(k : Int) * nElems (r :: rs), Layout.ofExts (r :: rs)⟩ : View).addr
          = (List.range' (k * M) row.length).map Int.ofNat := by
        have hrank := boxIndices_rank (r :: rs) hok
        rw [hMt] at hrank
        rw [hrow, hMt, List.range'_eq_map_range, ← hrank, List.map_map, List.map_map]
        apply List.map_congr_left
        intro idx hidx
        have hin := boxIndices_inBox (r :: rs) hok idx hidx
        obtain ⟨a1, a2, a3⟩ := raddr idx (by rw [hcoll]; exact hin)
        simp only [Function.comp]
        rw [addr_eq]; simp only [a1]
        obtain ⟨q, hq⟩ := Int.eq_ofNat_of_zero_le a2
        rw [hq, hMe]
        simp only [Int.toNat_natCast, Int.ofNat_eq_natCast, Int.natCast_add, Int.natCast_mul]
      rw [haddrs, hMt]
      exact foldl_write_consec a.base row (k * M) h

/-- the whole loop: all rows, in order, are one `writeList` of the values -/
theorem assignRows_eq {a : Arr} {e : Ext} {rest : List Ext} (hes : ExtsOK (e :: rest)) (hlay : a.lay = Layout.ofExts (e :: rest))
    (hn : nElems (e :: rest) ≠ 0) (inner : List Ext) (heq : Exts.eqv inner rest = true) :
    ∀ (len start : Nat) (vals : List α) (h : Heap α), vals.length = len * (nElems rest).toNat →
      ((List.range' start len).zip (chunks (nElems rest).toNat len vals)).foldl (fun h (kr : Nat × List α) => assignRow h a kr.1 inner kr.2) h
        = h.writeList a.base (start * (nElems rest).toNat) vals := by
  intro len
  induction len with
  | zero =>
    intro start vals h hl
    have : vals = [] := List.eq_nil_of_length_eq_zero (by simpa using hl)
    subst this
    simp [chunks, Heap.writeList]
  | succ len ih =>
    intro start vals h hl
    have hlt : (nElems rest).toNat ≤ vals.length := by rw [hl, Nat.succ_mul]; omega
    simp only [List.range'_succ, chunks, List.zip_cons_cons, List.foldl_cons]
    rw [assignRow_eq hes hlay hn inner heq start _ (by simp; omega), ih (start + 1) _ _ (by simp [hl, Nat.succ_mul])]
    conv => rhs; rw [← List.take_append_drop (nElems rest).toNat vals]
    rw [writeList_append]
    congr 1
    simp [Nat.succ_mul, Nat.min_eq_left hlt]

/-! ### the operation -/

/-- extensions of the array built from a range of `count` sub-arrays with extensions `inner` -/
def rangeExts (count : Int) (inner : List Ext) : List Ext :=
  ⟨0, count⟩ :: (if count = 0 then List.replicate inner.length ⟨0, 0⟩ else inner)

/-- **the documented value of `A.assign(first, last)` / `A = {…}`** with `count` sub-arrays of extensions `inner` and the values `vals`:
    exactly the requested contents; the array keeps its extensions (index bases) when the shape already matches, otherwise it gets the
    zero-based extensions of the range -/
def listVal (x : AbsArr α) (count : Int) (inner : List Ext) (vals : List α) : AbsArr α :=
  if count = (x.exts.head?.map Ext.size).getD 0 ∧ (count = 0 ∨ Exts.eqv inner x.exts.tail = true) then ⟨x.exts, vals.map some⟩
  else ⟨collapse (rangeExts count inner), vals.map some⟩

theorem rangeExts_length (count : Int) (inner : List Ext) : (rangeExts count inner).length = inner.length + 1 := by
  unfold rangeExts; split <;> simp

/-- `assign(first, last)`, both branches -/
theorem assignRange_outcome {h : Heap α} {self : Arr} (hv : Valid h self) (hD : self.dim ≠ 0) (count : Int) (inner : List Ext)
    (vals : List α) (hes : ExtsOK (rangeExts count inner)) (hlen : (vals.length : Int) = nElems (rangeExts count inner)) :
    Outcome h (assignRange h self count inner vals).1 (ownBlock self) (assignRange h self count inner vals).2
      (listVal (absArr h self) count inner vals) := by
  obtain ⟨es, hok, hlay⟩ := hv.shape
  -- the array has at least one dimension
  cases es with
  | nil => exact absurd (by show self.lay.length = 0; rw [hlay]; rfl) hD
  | cons e rest =>
    have hnumr : (Layout.ofExts rest).numElements = nElems rest := ofExts_numElements hok.tail
    -- head dimension of the layout
    have hl : self.lay = ⟨(if nElems rest ≠ 0 then nElems rest else 1), e.first * (if nElems rest ≠ 0 then nElems rest else 1), e.size * nElems rest⟩ :: Layout.ofExts rest := by
      rw [hlay]; simp only [Layout.ofExts, hnumr]
    have hrow : (self.view.index self.view.ext.first).exts = self.exts.tail := by
      simp only [View.index, Arr.view, hl, View.exts, Arr.exts, Layout.exts, List.map_cons, List.tail_cons]
    have hsz : self.view.size = (self.exts.head?.map Ext.size).getD 0 := by
      have hag := (C01.shape_functions_agree self.view hv.view_wf).2.2.1
      rw [hag]
      simp only [View.ext, Arr.view, hl, Arr.exts, Layout.exts, List.map_cons, List.head?_cons, Option.map_some, Option.getD_some]
    unfold assignRange listVal
    have hae : (absArr h self).exts = self.exts := rfl
    simp only [hae, hrow, hsz]
    by_cases hcond : count = (self.exts.head?.map Ext.size).getD 0 ∧ (count = 0 ∨ Exts.eqv inner self.exts.tail = true)
    · rw [if_pos hcond, if_pos hcond]
      obtain ⟨hc, hi⟩ := hcond
      by_cases h0 : count = 0
      · -- no rows: nothing happens, and the array has no elements
        have hvn : vals = [] := by
          apply List.eq_nil_of_length_eq_zero
          have : nElems (rangeExts count inner) = 0 := by simp [rangeExts, h0, nElems, Ext.size]
          omega
        have hn0 : self.numElements = 0 := by
          rw [← hv.nElems_exts]
          cases hx : self.exts with
          | nil => rw [hx] at hc; simp at hc; rw [h0] at hc; simp [nElems]; exact absurd (by rw [← arr_exts_length, hx]; rfl) hD
          | cons x xs => rw [hx] at hc; simp at hc; simp [nElems, ← hc, h0]
        subst hvn
        simp only [h0, Int.toNat_zero, List.range_zero, List.zip_nil_left, List.foldl_nil, List.map_nil]
        exact ⟨Frame.refl _ _, rfl, rfl, hv, absArr_eq rfl (cellsOf_zero hn0), fun hn => absurd hn0 hn, Nat.le_refl _⟩
      · -- rows: the array has elements
        have hsne : self.numElements ≠ 0 := by
          intro hz
          apply h0
          rw [hc]
          have hx : self.exts = collapse (e :: rest) := by unfold Arr.exts; rw [hlay, ofExts_exts hok]
          have hnz : nElems (e :: rest) = 0 := by rw [← ofExts_numElements hok, ← hlay]; exact hz
          simp only [nElems] at hnz
          rw [hx]
          have hz' : (e.last - e.first) * nElems rest = 0 := hnz
          simp only [collapse, Ext.size, hz', if_true, List.head?_cons, Option.map_some, Option.getD_some]
          omega
        have hnz : nElems (e :: rest) ≠ 0 := by rw [← ofExts_numElements hok, ← hlay]; exact hsne
        have hx : self.exts = e :: rest := by unfold Arr.exts; rw [hlay, ofExts_exts hok, collapse_of_nonzero _ hnz]
        rw [hx] at hc hi
        simp only [List.head?_cons, Option.map_some, Option.getD_some, List.tail_cons] at hc hi
        have heq : Exts.eqv inner rest = true := by rcases hi with hi | hi; exact absurd hi h0; exact hi
        have hne' : nElems inner = nElems rest := eqv_nElems _ _ heq
        have hM := nElems_nonneg hok.tail
        have hS : 0 ≤ e.size := by have := hok.head; simp [Ext.size]; omega
        have hvl : vals.length = count.toNat * (nElems rest).toNat := by
          have : nElems (rangeExts count inner) = count * nElems rest := by simp [rangeExts, h0, nElems, Ext.size, hne']
          rw [this] at hlen
          obtain ⟨c, hcn⟩ := Int.eq_ofNat_of_zero_le (hc ▸ hS)
          obtain ⟨m, hm⟩ := Int.eq_ofNat_of_zero_le hM
          rw [hcn, hm] at hlen ⊢
          simp only [Int.toNat_natCast]
          rw [← Int.natCast_mul] at hlen
          exact Int.ofNat.inj hlen
        have hloop := assignRows_eq hok hlay hnz inner heq count.toNat 0 vals h hvl
        rw [numElements_eq_nElems, hne', List.range_eq_range', hloop]
        simp only [Nat.zero_mul]
        obtain ⟨d, hdb, hdl, hdlen⟩ := hv.block hsne
        have hvn : vals.length = self.numElements.toNat := by
          rw [hvl, ← hv.nElems_exts, hx]; simp only [nElems]
          obtain ⟨c, hcn⟩ := Int.eq_ofNat_of_zero_le (hc ▸ hS)
          obtain ⟨m, hm⟩ := Int.eq_ofNat_of_zero_le hM
          rw [← hc, hcn, hm, ← Int.natCast_mul, Int.toNat_natCast, Int.toNat_natCast, Int.toNat_natCast]
        rw [hdb, writeList_live hdl vals (by rw [hdlen, hvn]; exact Nat.le_refl _),
          List.drop_of_length_le (by rw [hdlen, hvn]; exact Nat.le_refl _), List.append_nil]
        have hl' := hdl.setBlock_same (vals.map some)
        refine ⟨?_, rfl, rfl, ⟨hv.shape, Or.inr ⟨d, _, hdb, hl', by simp [hvn]⟩⟩, ?_, fun _ b hb => Or.inl ⟨hsne, hb⟩, by simp [Heap.setBlock]⟩
        · intro b cs hlb hm
          apply hlb.setBlock_other
          intro e'; apply hm; exact ⟨hsne, by rw [hdb, e']⟩
        · apply absArr_eq rfl
          rw [cellsOf_live hdb hl', List.take_of_length_le (by simp [hvn])]
    · rw [if_neg hcond, if_neg hcond]
      have ho := rangeCtor_outcome h count inner vals hes hlen
      have hdim' : (rangeCtor h count inner vals).2.dim ≠ 0 := by
        show (Layout.ofExts _).length ≠ 0
        rw [ofExts_length]; simp
      exact viaTemp_outcome hv ho hdim'

/-- `operator=(initializer_list)`: the empty list clears, any other list is `assign(begin, end)` -/
theorem ilAssign_outcome {h : Heap α} {self : Arr} (hv : Valid h self) (hD : self.dim ≠ 0) (count : Int) (inner : List Ext)
    (vals : List α) (hes : ExtsOK (rangeExts count inner)) (hlen : (vals.length : Int) = nElems (rangeExts count inner)) :
    Outcome h (ilAssign h self count inner vals).1 (ownBlock self) (ilAssign h self count inner vals).2
      (if count = 0 then ⟨List.replicate self.dim ⟨0, 0⟩, []⟩ else listVal (absArr h self) count inner vals) := by
  unfold ilAssign
  by_cases h0 : count = 0
  · simp only [h0, if_true]; exact clear_outcome hv hD
  · simp only [h0, if_false]; exact assignRange_outcome hv hD count inner vals hes hlen

/-- `array(std::initializer_list)`: empty list → default array; otherwise the temporary built from the range is adopted -/
theorem ilCtor_outcome (cfg : Cfg α) (h : Heap α) (count : Int) (inner : List Ext) (vals : List α)
    (hes : ExtsOK (rangeExts count inner)) (hlen : (vals.length : Int) = nElems (rangeExts count inner)) :
    Outcome h (ilCtor cfg h count inner vals).1 (fun _ => False) (ilCtor cfg h count inner vals).2
      ⟨collapse (rangeExts count inner), vals.map some⟩ := by
  unfold ilCtor
  by_cases h0 : count = 0
  · simp only [h0, if_true]
    have hvn : vals = [] := by
      apply List.eq_nil_of_length_eq_zero
      have : nElems (rangeExts count inner) = 0 := by simp [rangeExts, h0, nElems, Ext.size]
      omega
    have := defaultCtor_outcome cfg h (D := inner.length + 1) (by omega)
    have hc : collapse (rangeExts 0 inner) = List.replicate (inner.length + 1) ⟨0, 0⟩ := by
      have : rangeExts 0 inner = List.replicate (inner.length + 1) ⟨0, 0⟩ := by simp [rangeExts, List.replicate_succ]
      rw [this, collapse_replicate_zero]
    rw [hvn, hc]; exact this
  · simp only [h0, if_false]
    have ho := rangeCtor_outcome h count inner vals hes hlen
    have hd : (rangeCtor h count inner vals).2.dim ≠ 0 := by
      show (Layout.ofExts _).length ≠ 0; rw [ofExts_length]; simp
    obtain ⟨v1, a1, n1, b1⟩ := moveCtor_valid ho.valid
    have hdt : dtor (rangeCtor h count inner vals).1 (moveCtor (rangeCtor h count inner vals).2).2 = (rangeCtor h count inner vals).1 := by
      simp only [dtor, moveCtor]
      unfold deallocate
      have : (⟨none, emptyLay (rangeCtor h count inner vals).2.dim⟩ : Arr).numElements = 0 := emptyLay_numElements hd
      simp [this]
    show Outcome h (dtor (rangeCtor h count inner vals).1 (moveCtor (rangeCtor h count inner vals).2).2) _
      (moveCtor (rangeCtor h count inner vals).2).1 _
    rw [hdt]
    refine ⟨ho.frame, ho.ub, ho.asrt, v1, by rw [a1]; exact ho.abs, ?_, ho.len⟩
    intro hn b hb
    exact ho.own (by rw [← n1]; exact hn) b (by rw [← b1]; exact hb)

end Own
end Multi
