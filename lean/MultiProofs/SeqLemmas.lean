/-
  MultiProofs.SeqLemmas — helper lemmas for C03 (one step of the interface on memory vs. on the list of values).
-/
import MultiProofs.SeqSpec
import MultiProofs.StoreLemmas
import MultiProofs.C02

namespace Multi

end Multi
