/-
  MultiProofs.SeqLemmas — helper lemmas for C03 (one step of the interface on memory vs. on the list of values).
-/
import MultiProofs.SeqSpec
import MultiProofs.StoreLemmas
import MultiProofs.C02

namespace Multi
variable {α ρ : Type}

/-! ### lists -/

theorem Prog.nth_eq_some {xs : List ρ} {i : Int} {x : ρ} :
    Prog.nth xs i = some x ↔ 0 ≤ i ∧ ∃ h : i.toNat < xs.length, xs[i.toNat] = x := by
  unfold Prog.nth
  by_cases h : 0 ≤ i
  · simp [h, List.getElem?_eq_some_iff]
  · simp [h]

theorem seq_set (N : Nat) (val val' : Nat → ρ) (i : Nat) (x : ρ) (hx : val' i = x)
    (ho : ∀ k, k < N → k ≠ i → val' k = val k) :
    (List.range N).map val' = ((List.range N).map val).set i x := by
  apply List.ext_getElem
  · simp
  · intro k h1 h2
    simp only [List.length_map, List.length_range] at h1
    simp only [List.getElem_map, List.getElem_range, List.getElem_set]
    by_cases hk : i = k
    · subst hk; simp [hx]
    · simp only [hk, if_false]; exact ho k h1 (fun h => hk h.symm)

theorem seq_set2 (N : Nat) (val val' : Nat → ρ) (i j : Nat) (x y : ρ) (hi : val' i = y) (hj : val' j = x)
    (ho : ∀ k, k < N → k ≠ i → k ≠ j → val' k = val k) :
    (List.range N).map val' = (((List.range N).map val).set i y).set j x := by
  apply List.ext_getElem
  · simp
  · intro k h1 h2
    simp only [List.length_map, List.length_range] at h1
    simp only [List.getElem_map, List.getElem_range, List.getElem_set]
    by_cases hk : j = k
    · subst hk; simp [hj]
    · simp only [hk, if_false]
      by_cases hk' : i = k
      · subst hk'; simp [hi]
      · simp only [hk', if_false]; exact ho k h1 (fun h => hk' h.symm) (fun h => hk h.symm)

theorem set_getElem_self' (xs : List ρ) (i : Nat) (h : i < xs.length) : xs.set i xs[i] = xs := by
  apply List.ext_getElem
  · simp
  · intro k h1 h2
    simp only [List.getElem_set]
    split
    · rename_i hk; subst hk; rfl
    · rfl

/-! ### the interface on memory, abstractly -/

/-- one implementation of the four interactions on memory -/
structure Iface (α ρ : Type) where
  rd : Int → Mem α → Option ρ
  wr : Int → ρ → Mem α → Option (Mem α)
  as : Int → Int → Mem α → Option (Mem α)
  sw : Int → Int → Mem α → Option (Mem α)

def Prog.runWith (I : Iface α ρ) : Prog ρ → Mem α → Option (Mem α × Int)
  | .ret p, m => some (m, p)
  | .read i k, m => match I.rd i m with | some x => runWith I (k x) m | none => none
  | .write i x k, m => match I.wr i x m with | some m' => runWith I k m' | none => none
  | .assign i j k, m => match I.as i j m with | some m' => runWith I k m' | none => none
  | .swap i j k, m => match I.sw i j m with | some m' => runWith I k m' | none => none

/-- every value the program writes satisfies `Ok` (continuations are only constrained on `Ok` values read) -/
inductive Prog.TypedP (Ok : ρ → Prop) : Prog ρ → Prop
  | ret (p : Int) : TypedP Ok (.ret p)
  | read (i : Int) (k : ρ → Prog ρ) : (∀ x, Ok x → TypedP Ok (k x)) → TypedP Ok (.read i k)
  | write (i : Int) (x : ρ) (k : Prog ρ) : Ok x → TypedP Ok k → TypedP Ok (.write i x k)
  | assign (i j : Int) (k : Prog ρ) : TypedP Ok k → TypedP Ok (.assign i j k)
  | swap (i j : Int) (k : Prog ρ) : TypedP Ok k → TypedP Ok (.swap i j k)

theorem Prog.Typed.toP {n : Nat} {p : Prog (List α)} (h : p.Typed n) : p.TypedP (fun x => x.length = n) := by
  induction h with
  | ret p => exact .ret p
  | read i k _ ih => exact .read i k ih
  | write i x k hx _ ih => exact .write i x k hx ih
  | assign i j k _ ih => exact .assign i j k ih
  | swap i j k _ ih => exact .swap i j k ih

theorem Prog.typedP_true (p : Prog ρ) : p.TypedP (fun _ => True) := by
  induction p with
  | ret p => exact .ret p
  | read i k ih => exact .read i k (fun x _ => ih x)
  | write i x k ih => exact .write i x k trivial ih
  | assign i j k ih => exact .assign i j k ih
  | swap i j k ih => exact .swap i j k ih

/-- each interaction on memory does what the same interaction does on the sequence `S m` the memory denotes, and
    changes no cell satisfying `Frame` -/
structure Iface.Refines (I : Iface α ρ) (S : Mem α → List ρ) (Frame : Int → Prop) (Ok : ρ → Prop) : Prop where
  ok : ∀ m i x, Prog.nth (S m) i = some x → Ok x
  rd : ∀ m i x, Prog.nth (S m) i = some x → I.rd i m = some x
  wr : ∀ m i x y, Prog.nth (S m) i = some y → Ok x →
    ∃ m', I.wr i x m = some m' ∧ S m' = Prog.setNth (S m) i x ∧ ∀ a, Frame a → m' a = m a
  as : ∀ m i j x y, Prog.nth (S m) i = some x → Prog.nth (S m) j = some y →
    ∃ m', I.as i j m = some m' ∧ S m' = Prog.setNth (S m) i y ∧ ∀ a, Frame a → m' a = m a
  sw : ∀ m i j x y, Prog.nth (S m) i = some x → Prog.nth (S m) j = some y →
    ∃ m', I.sw i j m = some m' ∧ S m' = Prog.setNth (Prog.setNth (S m) i y) j x ∧ ∀ a, Frame a → m' a = m a

/-- a program over a refining interface computes on memory what it computes on the denoted sequence -/
theorem Iface.Refines.run {I : Iface α ρ} {S : Mem α → List ρ} {Frame : Int → Prop} {Ok : ρ → Prop}
    (R : I.Refines S Frame Ok) (p : Prog ρ) (hp : p.TypedP Ok) (m : Mem α) (xs' : List ρ) (pos : Int)
    (h : p.runList (S m) = some (xs', pos)) :
    ∃ m', p.runWith I m = some (m', pos) ∧ S m' = xs' ∧ ∀ a, Frame a → m' a = m a := by
  induction p generalizing m with
  | ret q =>
    simp only [Prog.runList, Option.some.injEq, Prod.mk.injEq] at h
    exact ⟨m, by simp [Prog.runWith, h.2], h.1, fun _ _ => rfl⟩
  | read i k ih =>
    cases hp with
    | read _ _ hk =>
      simp only [Prog.runList] at h
      cases hn : Prog.nth (S m) i with
      | none => simp [hn] at h
      | some x =>
        simp only [hn] at h
        obtain ⟨m', e1, e2, e3⟩ := ih x (hk x (R.ok m i x hn)) m h
        exact ⟨m', by simp only [Prog.runWith, R.rd m i x hn, e1], e2, e3⟩
  | write i x k ih =>
    cases hp with
    | write _ _ _ hx hk =>
      simp only [Prog.runList] at h
      cases hn : Prog.nth (S m) i with
      | none => simp [hn] at h
      | some y =>
        simp only [hn] at h
        obtain ⟨m1, w1, w2, w3⟩ := R.wr m i x y hn hx
        rw [← w2] at h
        obtain ⟨m', e1, e2, e3⟩ := ih hk m1 h
        exact ⟨m', by simp only [Prog.runWith, w1, e1], e2, fun a ha => (e3 a ha).trans (w3 a ha)⟩
  | assign i j k ih =>
    cases hp with
    | assign _ _ _ hk =>
      simp only [Prog.runList] at h
      cases hn : Prog.nth (S m) i with
      | none => simp [hn] at h
      | some x =>
        cases hn' : Prog.nth (S m) j with
        | none => simp [hn, hn'] at h
        | some y =>
          simp only [hn, hn'] at h
          obtain ⟨m1, w1, w2, w3⟩ := R.as m i j x y hn hn'
          rw [← w2] at h
          obtain ⟨m', e1, e2, e3⟩ := ih hk m1 h
          exact ⟨m', by simp only [Prog.runWith, w1, e1], e2, fun a ha => (e3 a ha).trans (w3 a ha)⟩
  | swap i j k ih =>
    cases hp with
    | swap _ _ _ hk =>
      simp only [Prog.runList] at h
      cases hn : Prog.nth (S m) i with
      | none => simp [hn] at h
      | some x =>
        cases hn' : Prog.nth (S m) j with
        | none => simp [hn, hn'] at h
        | some y =>
          simp only [hn, hn'] at h
          obtain ⟨m1, w1, w2, w3⟩ := R.sw m i j x y hn hn'
          rw [← w2] at h
          obtain ⟨m', e1, e2, e3⟩ := ih hk m1 h
          exact ⟨m', by simp only [Prog.runWith, w1, e1], e2, fun a ha => (e3 a ha).trans (w3 a ha)⟩

/-- the rows interface of a view -/
def rowsIface (v : View) : Iface α (List α) where
  rd i m := (v.rowAt i).readRow m
  wr i x m := (v.rowAt i).writeRow x m
  as i j m := (v.rowAt i).assignRow (v.rowAt j) m
  sw i j m := (v.rowAt i).swapRow (v.rowAt j) m

theorem runRows_eq (p : Prog (List α)) (v : View) (m : Mem α) : p.runRows v m = p.runWith (rowsIface v) m := by
  induction p generalizing m with
  | ret q => rfl
  | read i k ih =>
    simp only [Prog.runRows, Prog.runWith, rowsIface]
    cases (v.rowAt i).readRow m with
    | none => rfl
    | some x => exact ih x m
  | write i x k ih =>
    simp only [Prog.runRows, Prog.runWith, rowsIface]
    cases (v.rowAt i).writeRow x m with
    | none => rfl
    | some m' => exact ih m'
  | assign i j k ih =>
    simp only [Prog.runRows, Prog.runWith, rowsIface]
    cases (v.rowAt i).assignRow (v.rowAt j) m with
    | none => rfl
    | some m' => exact ih m'
  | swap i j k ih =>
    simp only [Prog.runRows, Prog.runWith, rowsIface]
    cases (v.rowAt i).swapRow (v.rowAt j) m with
    | none => rfl
    | some m' => exact ih m'

/-- the flat elements interface of a view -/
def elemsIface (v : View) : Iface α α where
  rd i m := (v.elemAt i).map m
  wr i x m := (v.elemAt i).map fun a => m.write a x
  as i j m := match v.elemAt i, v.elemAt j with | some a, some b => some (m.write a (m b)) | _, _ => none
  sw i j m := match v.elemAt i, v.elemAt j with | some a, some b => some ((m.write a (m b)).write b (m a)) | _, _ => none

theorem runElems_eq (p : Prog α) (v : View) (m : Mem α) : p.runElems v m = p.runWith (elemsIface v) m := by
  induction p generalizing m with
  | ret q => rfl
  | read i k ih =>
    simp only [Prog.runElems, Prog.runWith, elemsIface]
    cases v.elemAt i with
    | none => rfl
    | some a => exact ih (m a) m
  | write i x k ih =>
    simp only [Prog.runElems, Prog.runWith, elemsIface]
    cases v.elemAt i with
    | none => rfl
    | some a => exact ih _
  | assign i j k ih =>
    simp only [Prog.runElems, Prog.runWith, elemsIface]
    cases v.elemAt i with
    | none => rfl
    | some a =>
      cases v.elemAt j with
      | none => rfl
      | some b => exact ih _
  | swap i j k ih =>
    simp only [Prog.runElems, Prog.runWith, elemsIface]
    cases v.elemAt i with
    | none => rfl
    | some a =>
      cases v.elemAt j with
      | none => rfl
      | some b => exact ih _

/-! ### operations on one row (any well-formed view, including a 0-D element) as list loops over its cells -/

/-- the cells of a view in canonical order -/
def View.cells (r : View) : List Int := (boxIndices r.exts).map r.addr

theorem View.addr_nil (r : View) : r.addr [] = r.base := by
  rw [addr_eq]; cases r.lay <;> simp [Layout.off]

theorem View.cells_of_nil {r : View} (h : r.lay = []) : r.cells = [r.base] := by
  simp [View.cells, View.exts, Layout.exts, h, boxIndices, View.addr_nil]

theorem View.mem_cells_iff (r : View) (a : Int) : a ∈ r.cells ↔ r.InImage a := View.mem_addrs_iff r a

theorem View.cells_length (r : View) (hwf : r.lay.WF) : (r.cells.length : Int) = r.numElements := by
  simp only [View.cells, List.length_map]; exact boxIndices_length r hwf

theorem View.cells_nodup (r : View) (hinj : r.Injective) : r.cells.Nodup :=
  nodup_map_of_inj_on _ _ (boxIndices_nodup _)
    (fun i hi j hj h => hinj i j ((mem_boxIndices _ i).mp hi) ((mem_boxIndices _ j).mp hj) h)

theorem View.readRow_eq (r : View) (m : Mem α) (hwf : r.lay.WF) : r.readRow m = some (r.cells.map m) := by
  unfold View.readRow
  by_cases hne : r.lay = []
  · simp [View.read, hne, View.cells_of_nil hne]
  · rw [View.read_eq r m hwf hne, View.cells, List.map_map]; rfl

theorem View.writeRow_eq (r : View) (x : List α) (m : Mem α) (hwf : r.lay.WF) (hx : x.length = r.cells.length) :
    r.writeRow x m = some (writeList (r.cells.zip x) m) := by
  unfold View.writeRow
  cases hl : r.lay with
  | nil =>
    rw [View.cells_of_nil hl] at hx ⊢
    match x, hx with
    | [a], _ => rfl
  | cons d l =>
    obtain ⟨b, e, hb, _, _, hsize, haddrs⟩ := elemit_kth r hwf
    have hlen := r.cells_length hwf
    simp only [ElemRange.assignVals, hsize]
    have : (x.length : Int) = r.numElements := by rw [hx]; exact hlen
    simp only [this, ne_eq, not_true_eq_false, if_false, hb, Option.bind_eq_bind, Option.bind_some]
    apply ElemIt.storeN_eq
    rw [hx]; simp only [View.cells, List.length_map]; exact haddrs

theorem View.exts_nil_iff (r : View) : r.exts = [] ↔ r.lay = [] := by
  simp [View.exts, Layout.exts]

theorem View.assignRow_eq (r s : View) (m : Mem α) (hr : r.lay.WF) (hs : s.lay.WF) (hext : r.exts = s.exts) :
    r.assignRow s m = some (copyList (r.cells.zip s.cells) m) := by
  unfold View.assignRow
  cases hl : r.lay with
  | nil =>
    have hl' : s.lay = [] := (View.exts_nil_iff s).mp (hext ▸ (View.exts_nil_iff r).mpr hl)
    rw [View.cells_of_nil hl, View.cells_of_nil hl']; rfl
  | cons d l =>
    have hne : r.lay ≠ [] := by rw [hl]; simp
    simp only [View.cells]
    rw [← hext]
    exact View.assign_eq r s m hr hs hne hext

theorem View.swapRow_eq (r s : View) (m : Mem α) (hr : r.lay.WF) (hs : s.lay.WF) (hext : r.exts = s.exts) :
    r.swapRow s m = some (swapList (r.cells.zip s.cells) m) := by
  unfold View.swapRow
  cases hl : r.lay with
  | nil =>
    have hl' : s.lay = [] := (View.exts_nil_iff s).mp (hext ▸ (View.exts_nil_iff r).mpr hl)
    rw [View.cells_of_nil hl, View.cells_of_nil hl']; rfl
  | cons d l =>
    have hne : r.lay ≠ [] := by rw [hl]; simp
    simp only [View.cells]
    rw [← hext]
    exact View.swap_eq r s m hr hs hne hext

theorem swapList_self (ps : List (Int × Int)) (m : Mem α) (h : ∀ p ∈ ps, p.1 = p.2) : swapList ps m = m := by
  induction ps generalizing m with
  | nil => rfl
  | cons p ps ih =>
    rw [swapList, h p (by simp), Mem.write_self]
    have : (m.write p.2 (m p.2)) = m := Mem.write_self m p.2
    rw [this]
    exact ih m (fun q hq => h q (List.mem_cons_of_mem _ hq))

theorem zip_self_eq (l : List Int) : ∀ p ∈ l.zip l, p.1 = p.2 := by
  induction l with
  | nil => intro p hp; simp at hp
  | cons a l ih =>
    intro p hp
    rw [List.zip_cons_cons] at hp
    rcases List.mem_cons.mp hp with rfl | hp
    · rfl
    · exact ih p hp

/-- storing values into distinct cells: the cells then hold the values -/
theorem map_writeList_zip (as : List Int) (x : List α) (m : Mem α) (hnd : as.Nodup) (hlen : as.length = x.length) :
    as.map (writeList (as.zip x) m) = x := by
  apply List.ext_getElem
  · simpa using hlen
  · intro k h1 h2
    rw [List.getElem_map]
    exact writeList_zip_getElem as x m hnd hlen k h2

/-! ### the rows of a view -/

/-- address of the cell `idx` of row `k` (index-based: leading index `first + k`) -/
def rowAddr (v : View) (k : Int) (idx : List Int) : Int := v.addr ((v.ext.first + k) :: idx)

/-- the cells of row `k`, in canonical order -/
def rowCells (v : View) (k : Int) : List Int := (boxIndices v.exts.tail).map (rowAddr v k)

theorem rowsVal_eq (v : View) (m : Mem α) :
    rowsVal v m = (List.range v.ext.size.toNat).map (fun (k : Nat) => (rowCells v (Int.ofNat k)).map m) := by
  simp only [rowsVal, rowCells, List.map_map]; rfl

theorem nth_rowsVal {v : View} {m : Mem α} {i : Int} {x : List α} (h : Prog.nth (rowsVal v m) i = some x) :
    0 ≤ i ∧ i < v.ext.size ∧ i.toNat < v.ext.size.toNat ∧ x = (rowCells v i).map m := by
  obtain ⟨h0, hlt, hx⟩ := Prog.nth_eq_some.mp h
  have hlen : (rowsVal v m).length = v.ext.size.toNat := by simp [rowsVal]
  have hlt' : i.toNat < v.ext.size.toNat := by rw [← hlen]; exact hlt
  refine ⟨h0, by omega, hlt', ?_⟩
  rw [← hx]
  simp only [rowsVal_eq, List.getElem_map, List.getElem_range]
  have : Int.ofNat i.toNat = i := Int.toNat_of_nonneg h0
  rw [this]

theorem inBox_row {v : View} {d : Dim} {sub : Layout} (hv : v.lay = d :: sub) {i : Int} (h0 : 0 ≤ i)
    (h1 : i < v.ext.size) {idx : List Int} (h : idx ∈ boxIndices v.exts.tail) :
    InBox v.exts ((v.ext.first + i) :: idx) := by
  rw [mem_boxIndices] at h
  simp only [View.exts, View.ext, Layout.exts, hv, List.map_cons, List.tail_cons, InBox, Ext.size] at h h1 ⊢
  exact ⟨⟨by omega, by omega⟩, h⟩

/-- distinct (row, cell) pairs of an injective view are distinct cells -/
theorem rowAddr_inj {v : View} (hne : v.lay ≠ []) (hinj : v.Injective) {i j : Int}
    (hi0 : 0 ≤ i) (hi1 : i < v.ext.size) (hj0 : 0 ≤ j) (hj1 : j < v.ext.size) {a b : List Int}
    (ha : a ∈ boxIndices v.exts.tail) (hb : b ∈ boxIndices v.exts.tail) (h : rowAddr v i a = rowAddr v j b) :
    i = j ∧ a = b := by
  cases hv : v.lay with
  | nil => exact absurd hv hne
  | cons d sub =>
    have := hinj _ _ (inBox_row hv hi0 hi1 ha) (inBox_row hv hj0 hj1 hb) h
    simp only [List.cons.injEq] at this
    exact ⟨by omega, this.2⟩

theorem rowCells_image {v : View} (hne : v.lay ≠ []) {i : Int} (h0 : 0 ≤ i) (h1 : i < v.ext.size) {a : Int}
    (h : a ∈ rowCells v i) : v.InImage a := by
  cases hv : v.lay with
  | nil => exact absurd hv hne
  | cons d sub =>
    obtain ⟨idx, hidx, rfl⟩ := List.mem_map.mp h
    exact ⟨_, inBox_row hv h0 h1 hidx, rfl⟩

theorem rowCells_disjoint {v : View} (hne : v.lay ≠ []) (hinj : v.Injective) {i j : Int}
    (hi0 : 0 ≤ i) (hi1 : i < v.ext.size) (hj0 : 0 ≤ j) (hj1 : j < v.ext.size) (hij : i ≠ j) {a : Int}
    (h : a ∈ rowCells v i) : a ∉ rowCells v j := by
  intro h'
  obtain ⟨x, hx, rfl⟩ := List.mem_map.mp h
  obtain ⟨y, hy, e⟩ := List.mem_map.mp h'
  exact hij (rowAddr_inj hne hinj hi0 hi1 hj0 hj1 hx hy e.symm).1

theorem rowCells_nodup {v : View} (hne : v.lay ≠ []) (hinj : v.Injective) {i : Int}
    (h0 : 0 ≤ i) (h1 : i < v.ext.size) : (rowCells v i).Nodup :=
  nodup_map_of_inj_on _ _ (boxIndices_nodup _) (fun _ ha _ hb h => (rowAddr_inj hne hinj h0 h1 h0 h1 ha hb h).2)

/-- `*(begin() + i)` is row `i`: well-formed, with the extensions of a row and the cells `rowCells v i` -/
theorem rowAt_props {v : View} (hwf : v.lay.WF) (hne : v.lay ≠ []) {i : Int} (h0 : 0 ≤ i) (h1 : i < v.ext.size) :
    (v.rowAt i).lay.WF ∧ (v.rowAt i).exts = v.exts.tail ∧ (v.rowAt i).cells = rowCells v i := by
  cases hv : v.lay with
  | nil => exact absurd hv hne
  | cons d sub =>
    have hd : d.WF := by rw [hv] at hwf; exact hwf.head
    have hr : v.rowAt i = ⟨v.base + d.stride * i, sub⟩ := by
      simp [View.rowAt, View.begin', hv, ArrIt.add, ArrIt.deref]
    have hex : (v.rowAt i).exts = v.exts.tail := by simp [hr, View.exts, hv, Layout.exts]
    refine ⟨by rw [hr]; rw [hv] at hwf; exact hwf.tail, hex, ?_⟩
    simp only [View.cells, rowCells, hex]
    apply List.map_congr_left
    intro idx _
    simp only [rowAddr, addr_eq, hr, hv, Layout.off, View.ext]
    simp only [View.ext, hv] at h1
    rcases hd.cases with hz | ⟨f, n, hn, hs, hf, hnn, he, _⟩
    · rw [Dim.ext_of_nelems_zero hz] at h1; simp [Ext.size] at h1; omega
    · rw [he, hf]; simp only [Int.add_mul, Int.mul_comm d.stride i]; omega

/-- the proxy-iterator interface of a well-formed injective view refines the sequence of its row values -/
theorem rows_refines (v : View) (hwf : v.lay.WF) (hne : v.lay ≠ []) (hinj : v.Injective) :
    (rowsIface v : Iface α (List α)).Refines (rowsVal v) (fun a => ¬ v.InImage a)
      (fun x => x.length = (boxIndices v.exts.tail).length) := by
  have hN : ∀ {i : Int}, 0 ≤ i → Int.ofNat i.toNat = i := fun h => Int.toNat_of_nonneg h
  -- a memory that agrees with `m` on every row but row `i`, where it holds `x`
  have upd : ∀ (m m' : Mem α) (i : Int) (x : List α), 0 ≤ i → i < v.ext.size → (rowCells v i).map m' = x →
      (∀ a, a ∉ rowCells v i → m' a = m a) → rowsVal v m' = Prog.setNth (rowsVal v m) i x := by
    intro m m' i x h0 h1 hx ho
    rw [rowsVal_eq, rowsVal_eq, Prog.setNth]
    apply seq_set
    · rw [hN h0]; exact hx
    · intro k hk hki
      apply List.map_congr_left
      intro a ha
      have hk1 : Int.ofNat k < v.ext.size := by simp only [Int.ofNat_eq_natCast]; omega
      have hne' : Int.ofNat k ≠ i := by intro h; apply hki; rw [← h]; simp
      exact ho a (rowCells_disjoint hne hinj (by simp) hk1 h0 h1 hne' ha)
  constructor
  · intro m i x h
    obtain ⟨_, _, _, rfl⟩ := nth_rowsVal h
    simp [rowCells]
  · intro m i x h
    obtain ⟨h0, h1, _, rfl⟩ := nth_rowsVal h
    obtain ⟨rwf, _, rcells⟩ := rowAt_props hwf hne h0 h1
    show (v.rowAt i).readRow m = _
    rw [View.readRow_eq _ m rwf, rcells]
  · intro m i x y h hx
    obtain ⟨h0, h1, _, _⟩ := nth_rowsVal h
    obtain ⟨rwf, _, rcells⟩ := rowAt_props hwf hne h0 h1
    have hlen : x.length = (v.rowAt i).cells.length := by rw [rcells, hx]; simp [rowCells]
    refine ⟨_, View.writeRow_eq (v.rowAt i) x m rwf hlen, ?_, ?_⟩
    · rw [rcells] at hlen ⊢
      exact upd m _ i x h0 h1 (map_writeList_zip _ x m (rowCells_nodup hne hinj h0 h1) hlen.symm)
        (fun a ha => writeList_zip_not_mem _ _ _ _ ha)
    · intro a ha
      rw [rcells]
      exact writeList_zip_not_mem _ _ _ _ (fun hc => ha (rowCells_image hne h0 h1 hc))
  · intro m i j x y hi hj
    obtain ⟨hi0, hi1, _, _⟩ := nth_rowsVal hi
    obtain ⟨hj0, hj1, hjlt, hy⟩ := nth_rowsVal hj
    obtain ⟨iwf, iex, icells⟩ := rowAt_props hwf hne hi0 hi1
    obtain ⟨jwf, jex, jcells⟩ := rowAt_props hwf hne hj0 hj1
    refine ⟨_, View.assignRow_eq (v.rowAt i) (v.rowAt j) m iwf jwf (iex.trans jex.symm), ?_, ?_⟩
    · rw [icells, jcells]
      by_cases hij : i = j
      · subst hij
        rw [copyList_self _ _ (zip_self_eq _)]
        obtain ⟨_, hlt, hget⟩ := Prog.nth_eq_some.mp hj
        rw [Prog.setNth, ← hget, set_getElem_self']
      · obtain ⟨c1, c2⟩ := copyList_spec (boxIndices v.exts.tail) (rowAddr v i) (rowAddr v j) m (boxIndices_nodup _)
          (fun a ha b hb h => (rowAddr_inj hne hinj hi0 hi1 hi0 hi1 ha hb h).2)
          (fun a ha b hb h => hij (rowAddr_inj hne hinj hi0 hi1 hj0 hj1 ha hb h).1)
        apply upd m _ i y hi0 hi1
        · rw [hy]
          simp only [rowCells, List.map_map]
          exact List.map_congr_left (fun idx hidx => c1 idx hidx)
        · intro a ha; exact c2 a ha
    · intro a ha
      rw [icells]
      apply copyList_not_mem
      rw [List.map_fst_zip (by rw [jcells]; simp [rowCells])]
      exact fun hc => ha (rowCells_image hne hi0 hi1 hc)
  · intro m i j x y hi hj
    obtain ⟨hi0, hi1, hilt, hx⟩ := nth_rowsVal hi
    obtain ⟨hj0, hj1, hjlt, hy⟩ := nth_rowsVal hj
    obtain ⟨iwf, iex, icells⟩ := rowAt_props hwf hne hi0 hi1
    obtain ⟨jwf, jex, jcells⟩ := rowAt_props hwf hne hj0 hj1
    refine ⟨_, View.swapRow_eq (v.rowAt i) (v.rowAt j) m iwf jwf (iex.trans jex.symm), ?_, ?_⟩
    · rw [icells, jcells]
      by_cases hij : i = j
      · subst hij
        rw [swapList_self _ _ (zip_self_eq _)]
        obtain ⟨_, hlt, hget⟩ := Prog.nth_eq_some.mp hi
        obtain ⟨_, _, hget'⟩ := Prog.nth_eq_some.mp hj
        rw [Prog.setNth, Prog.setNth, ← hget', set_getElem_self', ← hget, set_getElem_self']
      · obtain ⟨c1, c2⟩ := swapList_spec (boxIndices v.exts.tail) (rowAddr v i) (rowAddr v j) m (boxIndices_nodup _)
          (fun a ha b hb h => (rowAddr_inj hne hinj hi0 hi1 hi0 hi1 ha hb h).2)
          (fun a ha b hb h => (rowAddr_inj hne hinj hj0 hj1 hj0 hj1 ha hb h).2)
          (fun a ha b hb h => hij (rowAddr_inj hne hinj hi0 hi1 hj0 hj1 ha hb h).1)
        rw [rowsVal_eq, rowsVal_eq, Prog.setNth, Prog.setNth]
        apply seq_set2
        · rw [hN hi0, hy]
          simp only [rowCells, List.map_map]
          exact List.map_congr_left (fun idx hidx => (c1 idx hidx).1)
        · rw [hN hj0, hx]
          simp only [rowCells, List.map_map]
          exact List.map_congr_left (fun idx hidx => (c1 idx hidx).2)
        · intro k hk hki hkj
          apply List.map_congr_left
          intro a ha
          have hk1 : Int.ofNat k < v.ext.size := by simp only [Int.ofNat_eq_natCast]; omega
          have hnei : Int.ofNat k ≠ i := by intro h; apply hki; rw [← h]; simp
          have hnej : Int.ofNat k ≠ j := by intro h; apply hkj; rw [← h]; simp
          exact c2 a (rowCells_disjoint hne hinj (by simp) hk1 hi0 hi1 hnei ha)
            (rowCells_disjoint hne hinj (by simp) hk1 hj0 hj1 hnej ha)
    · intro a ha
      rw [icells, jcells]
      have hl : (rowCells v i).length = (rowCells v j).length := by simp [rowCells]
      apply swapList_not_mem
      · rw [List.map_fst_zip (by omega)]
        exact fun hc => ha (rowCells_image hne hi0 hi1 hc)
      · rw [List.map_snd_zip (by omega)]
        exact fun hc => ha (rowCells_image hne hj0 hj1 hc)

/-! ### the flat elements range -/

theorem nodup_getElem_inj {A : List Int} (hnd : A.Nodup) {i j : Nat} (hi : i < A.length) (hj : j < A.length)
    (h : A[i] = A[j]) : i = j := by
  have hp := List.pairwise_iff_getElem.mp hnd
  rcases Nat.lt_trichotomy i j with hlt | heq | hgt
  · exact absurd h (hp i j hi hj hlt)
  · exact heq
  · exact absurd h.symm (hp j i hj hi hgt)

/-- writing one of a list of distinct cells replaces one value of the sequence -/
theorem map_write_getElem (A : List Int) (hnd : A.Nodup) (m : Mem α) (k : Nat) (hk : k < A.length) (x : α) :
    A.map (m.write A[k] x) = (A.map m).set k x := by
  apply List.ext_getElem
  · simp
  · intro j h1 h2
    simp only [List.length_map] at h1
    simp only [List.getElem_map, List.getElem_set]
    by_cases hkj : k = j
    · subst hkj; simp [Mem.write_same]
    · simp only [hkj, if_false]
      exact Mem.write_other _ _ (fun h => hkj (nodup_getElem_inj hnd h1 hk h).symm)

theorem getElem_seqFrom (a : Int) (n k : Nat) (h : k < (seqFrom a n).length) : (seqFrom a n)[k] = a + k := by
  induction n generalizing a k with
  | zero => simp [seqFrom] at h
  | succ n ih =>
    cases k with
    | zero => simp [seqFrom]
    | succ k =>
      simp only [seqFrom, List.getElem_cons_succ]
      rw [ih]; omega

/-- the `k`-th tuple of `boxIndices` has row-major rank `k` -/
theorem rowMajor_getElem_boxIndices (es : List Ext) (hes : ∀ e ∈ es, e.first ≤ e.last) (k : Nat)
    (hk : k < (boxIndices es).length) : rowMajor es (boxIndices es)[k] = k := by
  have h := boxIndices_rowMajor es hes
  have := List.getElem_of_eq h (i := k) (by simpa using hk)
  rw [List.getElem_map, getElem_seqFrom] at this
  omega

theorem allPos_of_nElems_pos {l : Layout} (hwf : l.WF) (h : 0 < nElems l.exts) : AllPos (Layout.sizes l) := by
  induction l with
  | nil => intro x hx; simp [Layout.sizes] at hx
  | cons d l ih =>
    simp only [Layout.exts, List.map_cons, nElems] at h
    have hle := hwf.exts_le
    have hs : 0 ≤ d.ext.size := by
      have := hle d.ext (by simp [Layout.exts]); simp [Ext.size]; omega
    have hM : 0 ≤ nElems (Layout.exts l) := nElems_nonneg _ hwf.tail.exts_le
    have hs' : d.ext.size ≠ 0 := by intro h0; rw [h0] at h; simp at h
    have hM' : nElems (Layout.exts l) ≠ 0 := by
      intro h0; simp only [Layout.exts] at h0; rw [h0] at h; simp at h
    intro x hx
    simp only [Layout.sizes, List.map_cons, List.mem_cons] at hx
    rcases hx with rfl | hx
    · rw [hwf.head.size_eq]; omega
    · exact ih hwf.tail (by omega) x hx

theorem elemsVal_eq (v : View) (m : Mem α) : elemsVal v m = v.cells.map m := by
  simp only [elemsVal, View.cells, List.map_map]; rfl

/-- `*(elements().begin() + k)` is the `k`-th cell in canonical order -/
theorem elemAt_eq (v : View) (hwf : v.lay.WF) (hne : v.lay ≠ []) (k : Int) (h0 : 0 ≤ k) (h1 : k.toNat < v.cells.length) :
    v.elemAt k = some v.cells[k.toNat] := by
  have hle := hwf.exts_le
  have hlen : v.cells.length = (nElems v.exts).toNat := by
    simp only [View.cells, List.length_map]; exact boxIndices_length_eq _ hle
  have hpos : 0 < nElems v.exts := by omega
  have hv : C02.NonEmpty v := ⟨hwf, by
    cases hl : v.lay with
    | nil => exact absurd hl hne
    | cons d l => simp [Layout.sizes], allPos_of_nElems_pos hwf hpos⟩
  obtain ⟨⟨b, hb, gb, hbn⟩, _, hsize⟩ := C02.begin_end_good v hv
  obtain ⟨_, _, _, _, _, hsize', _⟩ := elemit_kth v hwf
  have hprod : prodSizes (Layout.sizes v.lay) = nElems v.exts := by
    rw [← hsize, hsize', View.numElements, numElements_eq_nElems hwf]; rfl
  obtain ⟨⟨it', hadd, g', hn', _⟩, _⟩ := C02.elemit_add v hv b gb k (by omega) (by omega)
  have hk : k.toNat < (boxIndices v.exts).length := by simpa [View.cells] using h1
  have hidx : InBox v.exts (boxIndices v.exts)[k.toNat] := (mem_boxIndices _ _).mp (List.getElem_mem hk)
  have hrm : rowMajor v.exts (boxIndices v.exts)[k.toNat] = k.toNat := rowMajor_getElem_boxIndices v.exts hle _ hk
  have hcur := C02.elemit_deref v hwf _ hidx it' g' (by rw [hn', hbn, hrm]; omega)
  simp only [View.elemAt, hb, hadd, Option.bind_eq_bind, Option.bind_some, Option.pure_def, hcur, View.cells,
    List.getElem_map]

theorem nth_elemsVal {v : View} {m : Mem α} {i : Int} {x : α} (h : Prog.nth (elemsVal v m) i = some x) :
    0 ≤ i ∧ ∃ hk : i.toNat < v.cells.length, x = m v.cells[i.toNat] := by
  obtain ⟨h0, hlt, hx⟩ := Prog.nth_eq_some.mp h
  have hlt' : i.toNat < v.cells.length := by simpa [elemsVal_eq] using hlt
  refine ⟨h0, hlt', ?_⟩
  rw [← hx]; simp only [elemsVal_eq, List.getElem_map]

/-- the `elements()` interface of a well-formed injective view refines the sequence of its element values -/
theorem elems_refines (v : View) (hwf : v.lay.WF) (hne : v.lay ≠ []) (hinj : v.Injective) :
    (elemsIface v : Iface α α).Refines (elemsVal v) (fun a => ¬ v.InImage a) (fun _ => True) := by
  have hnd := v.cells_nodup hinj
  have himg : ∀ (k : Nat) (hk : k < v.cells.length) (a : Int), ¬ v.InImage a → a ≠ v.cells[k] := by
    intro k hk a ha h
    exact ha ((v.mem_cells_iff a).mp (h ▸ List.getElem_mem hk))
  constructor
  · intros; trivial
  · intro m i x h
    obtain ⟨h0, hk, rfl⟩ := nth_elemsVal h
    show (v.elemAt i).map m = _
    rw [elemAt_eq v hwf hne i h0 hk]; rfl
  · intro m i x y h _
    obtain ⟨h0, hk, _⟩ := nth_elemsVal h
    refine ⟨m.write v.cells[i.toNat] x, ?_, ?_, ?_⟩
    · show (v.elemAt i).map _ = _
      rw [elemAt_eq v hwf hne i h0 hk]; rfl
    · rw [elemsVal_eq, elemsVal_eq, Prog.setNth]; exact map_write_getElem _ hnd m _ hk x
    · intro a ha; exact Mem.write_other _ _ (himg _ hk a ha)
  · intro m i j x y hi hj
    obtain ⟨hi0, hik, _⟩ := nth_elemsVal hi
    obtain ⟨hj0, hjk, rfl⟩ := nth_elemsVal hj
    refine ⟨m.write v.cells[i.toNat] (m v.cells[j.toNat]), ?_, ?_, ?_⟩
    · show (match v.elemAt i, v.elemAt j with | some a, some b => some (m.write a (m b)) | _, _ => none) = _
      rw [elemAt_eq v hwf hne i hi0 hik, elemAt_eq v hwf hne j hj0 hjk]
    · rw [elemsVal_eq, elemsVal_eq, Prog.setNth]; exact map_write_getElem _ hnd m _ hik _
    · intro a ha; exact Mem.write_other _ _ (himg _ hik a ha)
  · intro m i j x y hi hj
    obtain ⟨hi0, hik, rfl⟩ := nth_elemsVal hi
    obtain ⟨hj0, hjk, rfl⟩ := nth_elemsVal hj
    refine ⟨(m.write v.cells[i.toNat] (m v.cells[j.toNat])).write v.cells[j.toNat] (m v.cells[i.toNat]), ?_, ?_, ?_⟩
    · show (match v.elemAt i, v.elemAt j with
        | some a, some b => some ((m.write a (m b)).write b (m a)) | _, _ => none) = _
      rw [elemAt_eq v hwf hne i hi0 hik, elemAt_eq v hwf hne j hj0 hjk]
    · rw [elemsVal_eq, elemsVal_eq, Prog.setNth, Prog.setNth, map_write_getElem _ hnd _ _ hjk,
        map_write_getElem _ hnd _ _ hik]
    · intro a ha
      rw [Mem.write_other _ _ (himg _ hjk a ha), Mem.write_other _ _ (himg _ hik a ha)]

/-! ### `std::reverse` against the interface -/

theorem Prog.nth_append_length (pre : List ρ) (a : ρ) (rest : List ρ) (i : Int) (hi : i = pre.length) :
    Prog.nth (pre ++ a :: rest) i = some a := by
  subst hi; simp [Prog.nth]

theorem Prog.setNth_append_length (pre : List ρ) (a b : ρ) (rest : List ρ) (i : Int) (hi : i = pre.length) :
    Prog.setNth (pre ++ a :: rest) i b = pre ++ b :: rest := by
  subst hi; simp [Prog.setNth]

/-- `revProg` reverses the segment `[lo, hi)` of a list of independent values -/
theorem revProg_run (fuel : Nat) (pre mid post : List ρ) (lo hi : Int) (hlo : lo = pre.length)
    (hhi : hi = pre.length + mid.length) (hf : mid.length ≤ fuel) :
    (revProg ρ fuel lo hi).runList (pre ++ mid ++ post) = some (pre ++ mid.reverse ++ post, 0) := by
  induction fuel generalizing pre mid post lo hi with
  | zero =>
    have : mid = [] := List.eq_nil_of_length_eq_zero (by omega)
    subst this; simp [revProg, Prog.runList]
  | succ fuel ih =>
    rw [revProg]
    cases mid with
    | nil =>
      have : ¬ (lo + 1 < hi) := by simp at hhi; omega
      simp [this, Prog.runList]
    | cons a t =>
      rcases List.eq_nil_or_concat t with rfl | ⟨t', b, rfl⟩
      · have : ¬ (lo + 1 < hi) := by simp at hhi; omega
        simp [this, Prog.runList]
      · have hc : lo + 1 < hi := by simp at hhi; omega
        simp only [hc, if_true, Prog.runList, List.concat_eq_append]
        have e1 : pre ++ a :: (t' ++ [b]) ++ post = pre ++ a :: (t' ++ [b] ++ post) := by simp
        have e2 : pre ++ a :: (t' ++ [b]) ++ post = (pre ++ a :: t') ++ b :: post := by simp
        have hlen : hi - 1 = ((pre ++ a :: t').length : Int) := by simp at hhi ⊢; omega
        have hlen' : hi - 1 = ((pre ++ b :: t').length : Int) := by simp at hhi ⊢; omega
        have n1 : Prog.nth (pre ++ a :: (t' ++ [b]) ++ post) lo = some a := by
          rw [e1]; exact Prog.nth_append_length _ _ _ _ hlo
        have n2 : Prog.nth (pre ++ a :: (t' ++ [b]) ++ post) (hi - 1) = some b := by
          rw [e2]; exact Prog.nth_append_length _ _ _ _ hlen
        simp only [n1, n2]
        have s1 : Prog.setNth (pre ++ a :: (t' ++ [b]) ++ post) lo b = (pre ++ b :: t') ++ b :: post := by
          rw [e1, Prog.setNth_append_length _ _ _ _ _ hlo]; simp
        rw [s1, Prog.setNth_append_length _ _ _ _ _ hlen']
        have e3 : pre ++ b :: t' ++ a :: post = (pre ++ [b]) ++ t' ++ (a :: post) := by simp
        rw [e3, ih (pre ++ [b]) t' (a :: post) (lo + 1) (hi - 1) (by simp; omega) (by simp at hhi ⊢; omega)
          (by simp at hf; omega)]
        simp

/-- `revProg` never writes a saved value: it is typed for every row length -/
theorem revProg_typed (n : Nat) (fuel : Nat) (lo hi : Int) : (revProg (List α) fuel lo hi).Typed n := by
  induction fuel generalizing lo hi with
  | zero => exact .ret 0
  | succ fuel ih =>
    rw [revProg]
    split
    · exact .swap _ _ _ (ih _ _)
    · exact .ret 0

end Multi
