/-
  MultiProofs.OwnSlice — the slices `A.apply(is)` of `reextent`: intersection of extensions, shape and index map of a slice taken with
  one range per dimension, and the fact that the slice's index tuples, mapped back, are `boxIndices is` in order.  Helper lemmas for C06.
-/
import MultiProofs.OwnScatter
import MultiProofs.ElemOrder
import MultiProofs.StoreLemmas

namespace Multi
namespace Own

instance decInBox : (es : List Ext) → (idx : List Int) → Decidable (InBox es idx)
  | [], [] => isTrue trivial
  | e :: es, i :: is => @instDecidableAnd _ _ inferInstance (decInBox es is)
  | [], _ :: _ => isFalse (fun h => h)
  | _ :: _, [] => isFalse (fun h => h)

/-! ### intersection -/

theorem inter_length (as bs : List Ext) (h : as.length = bs.length) : (Exts.inter as bs).length = as.length := by
  induction as generalizing bs with
  | nil => cases bs <;> rfl
  | cons a as ih =>
    cases bs with
    | nil => simp at h
    | cons b bs => simp [Exts.inter, ih bs (by simpa using h)]

theorem inter_ok (as bs : List Ext) : ExtsOK (Exts.inter as bs) := by
  induction as generalizing bs with
  | nil => intro e he; cases bs <;> simp [Exts.inter] at he
  | cons a as ih =>
    cases bs with
    | nil => intro e he; simp [Exts.inter] at he
    | cons b bs =>
      intro e he
      simp only [Exts.inter, List.mem_cons] at he
      rcases he with he | he
      · subst he; simp only [Ext.inter]; omega
      · exact ih bs e he

/-- an index tuple is in the intersection iff it is in both boxes -/
theorem inBox_inter : ∀ (as bs : List Ext) (idx : List Int), as.length = bs.length →
    (InBox (Exts.inter as bs) idx ↔ InBox as idx ∧ InBox bs idx) := by
  intro as
  induction as with
  | nil =>
    intro bs idx h
    cases bs with
    | nil => cases idx <;> simp [Exts.inter, InBox]
    | cons _ _ => simp at h
  | cons a as ih =>
    intro bs idx h
    cases bs with
    | nil => simp at h
    | cons b bs =>
      cases idx with
      | nil => simp [Exts.inter, InBox]
      | cons t r =>
        simp only [Exts.inter, InBox, ih bs r (by simpa using h), Ext.inter]
        constructor
        · rintro ⟨⟨h1, h2⟩, h3, h4⟩; exact ⟨⟨⟨by omega, by omega⟩, h3⟩, ⟨⟨by omega, by omega⟩, h4⟩⟩
        · rintro ⟨⟨⟨h1, h2⟩, h3⟩, ⟨⟨h4, h5⟩, h6⟩⟩; exact ⟨⟨by omega, by omega⟩, h3, h6⟩

/-- every range of a non-empty intersection lies inside both extensions: the call-syntax arguments are in domain -/
theorem inter_inDomain : ∀ (as bs : List Ext), as.length = bs.length → (∀ i ∈ Exts.inter as bs, i.first < i.last) →
    argsInDomain ((Exts.inter as bs).map fun e => Arg.rng e.first e.last) as ∧
    argsInDomain ((Exts.inter as bs).map fun e => Arg.rng e.first e.last) bs := by
  intro as
  induction as with
  | nil => intro bs h _; cases bs <;> simp [Exts.inter, argsInDomain]
  | cons a as ih =>
    intro bs h hne
    cases bs with
    | nil => simp at h
    | cons b bs =>
      simp only [Exts.inter, List.map_cons, argsInDomain, Arg.InDomain]
      have h0 := hne (a.inter b) (by simp [Exts.inter])
      obtain ⟨i1, i2⟩ := ih bs (by simpa using h) (fun i hi => hne i (by simp [Exts.inter, hi]))
      simp only [Ext.inter] at h0 ⊢
      exact ⟨⟨⟨by omega, by omega, by omega⟩, i1⟩, ⟨⟨by omega, by omega, by omega⟩, i2⟩⟩

theorem pos_of_nElems_ne_zero : ∀ (is : List Ext), ExtsOK is → nElems is ≠ 0 → ∀ i ∈ is, i.first < i.last := by
  intro is
  induction is with
  | nil => intro _ _ i hi; simp at hi
  | cons e es ih =>
    intro hok hn i hi
    simp only [nElems] at hn
    have h1 : e.size ≠ 0 := fun hz => hn (by rw [hz]; simp)
    have h2 : nElems es ≠ 0 := fun hz => hn (by rw [hz]; simp)
    rcases List.mem_cons.mp hi with hi | hi
    · subst hi; have := hok.head; simp [Ext.size] at h1; omega
    · exact ih hok.tail h2 i hi

/-! ### a slice with one range per dimension -/

/-- shape of `v(is₀, is₁, …)` for a view with extensions `es`: the index bases of `es`, the sizes of `is` -/
def sliceShape : List Ext → List Ext → List Ext
  | i :: is, e :: es => ⟨e.first, e.first + (i.last - i.first)⟩ :: sliceShape is es
  | _, _ => []

theorem callShape_rng : ∀ (is es : List Ext), is.length = es.length → (∀ i ∈ is, i.first < i.last) →
    callShape (is.map fun e => Arg.rng e.first e.last) es = sliceShape is es := by
  intro is
  induction is with
  | nil => intro es h _; cases es with | nil => rfl | cons _ _ => simp at h
  | cons i is ih =>
    intro es h hp
    cases es with
    | nil => simp at h
    | cons e es =>
      have h0 := hp i (List.mem_cons_self)
      simp only [List.map_cons, callShape, sliceShape, ih es (by simpa using h) (fun j hj => hp j (List.mem_cons_of_mem _ hj))]
      congr 1
      unfold Ext.norm
      have : e.first + (i.last - i.first) - e.first ≠ 0 := by omega
      simp [this]

theorem sliceShape_ok : ∀ (is es : List Ext), (∀ i ∈ is, i.first < i.last) → ∀ e ∈ sliceShape is es, e.first < e.last := by
  intro is
  induction is with
  | nil => intro es _ e he; simp [sliceShape] at he
  | cons i is ih =>
    intro es hp e he
    cases es with
    | nil => simp [sliceShape] at he
    | cons x es =>
      simp only [sliceShape, List.mem_cons] at he
      have h0 := hp i (List.mem_cons_self)
      rcases he with he | he
      · subst he; simp; omega
      · exact ih es (fun j hj => hp j (List.mem_cons_of_mem _ hj)) e he

theorem sliceShape_length : ∀ (is es : List Ext), is.length = es.length → (sliceShape is es).length = is.length := by
  intro is
  induction is with
  | nil => intro es _; rfl
  | cons i is ih =>
    intro es h
    cases es with
    | nil => simp at h
    | cons e es => simp [sliceShape, ih es (by simpa using h)]

theorem nElems_sliceShape : ∀ (is es : List Ext), is.length = es.length → nElems (sliceShape is es) = nElems is := by
  intro is
  induction is with
  | nil => intro es _; rfl
  | cons i is ih =>
    intro es h
    cases es with
    | nil => simp at h
    | cons e es =>
      simp only [sliceShape, nElems, ih es (by simpa using h), Ext.size]
      congr 1; omega

/-- **the index tuples of the slice, mapped back to the array, are the index tuples of `is` in canonical order** -/
theorem boxIndices_slice : ∀ (is es : List Ext), is.length = es.length → (∀ i ∈ is, i.first < i.last) →
    (boxIndices (sliceShape is es)).map (callMap (is.map fun e => Arg.rng e.first e.last) es) = boxIndices is := by
  intro is
  induction is with
  | nil => intro es h _; cases es with | nil => simp [sliceShape, boxIndices, callMap] | cons _ _ => simp at h
  | cons i is ih =>
    intro es h hp
    cases es with
    | nil => simp at h
    | cons e es =>
      have ih' := ih es (by simpa using h) (fun j hj => hp j (List.mem_cons_of_mem _ hj))
      simp only [sliceShape, boxIndices, List.map_flatMap, List.map_map, List.map_cons]
      have hsz : (⟨e.first, e.first + (i.last - i.first)⟩ : Ext).size = i.size := by simp only [Ext.size]; omega
      rw [hsz]
      congr 1
      funext k
      rw [← ih', List.map_map]
      apply List.map_congr_left
      intro r _
      simp only [Function.comp, callMap]
      congr 1
      omega

end Own
end Multi
