/-
  MultiProofs.LedgerMacro — specifications of the block-level building blocks of the operations
  (`destroyAll`, `deallocate`, `readCells`, `constructAll`, `assignAll`, `build`, `clearArr`, `dtorArr`).
-/
import MultiProofs.LedgerSteps

namespace Multi
namespace Ledger

theorem all_of_pointwise {cs : List Cell} {n : Nat} {v : Cell} (hlen : cs.length = n)
    (h : ∀ j, j < n → cs[j]? = some v) : ∀ x ∈ cs, x = v := by
  intro x hx
  obtain ⟨j, hj⟩ := List.mem_iff_getElem?.mp hx
  have hlt : j < cs.length := (List.getElem?_eq_some_iff.mp hj).1
  have := h j (by omega)
  rw [hj] at this
  simpa using this

theorem pointwise_of_all {cs : List Cell} {v : Cell} (h : ∀ x ∈ cs, x = v) : ∀ j, j < cs.length → cs[j]? = some v := by
  intro j hj
  have hm : cs[j] ∈ cs := List.getElem_mem hj
  rw [List.getElem?_eq_getElem hj, h _ hm]

theorem freshBlock_cells (a : AllocId) (n j : Nat) (hj : j < n) : (freshBlock a n).cells[j]? = some Cell.raw := by
  simp [freshBlock, List.getElem?_replicate, hj]

/-- the state after a step: blocks `B'`, pool unchanged -/
abbrev FrB (s s' : St) (B' : List Block) : Prop := Fr s s' B' s.arrs

/-! ### whole-block steps -/

theorem destroyAll_zero (c : Cfg) (base : Option Nat) (s : St) {Q : St → Prop} {T : Prop} :
    Out (destroyAll c base 0 s) (fun _ s' => s' = s) Q T := by
  unfold destroyAll
  split
  · rfl
  · rfl

/-- `destroy()` on an owned block: afterwards no cell holds an object that needs destruction -/
theorem destroyAll_out (c : Cfg) (hwf : c.WF) (b n : Nat) (s : St) {blk : Block} {Q : St → Prop} {T : Prop}
    (hn : 0 < n) (hB : s.blocks[b]? = some blk) (hf : blk.freed = false) (hsz : blk.size = n) (hc : CellsOK c blk) :
    Out (destroyAll c (some b) n s)
      (fun _ s' => ∃ cs', FrB s s' (withCells s.blocks b blk cs') ∧ cs'.length = n ∧
        (c.trivDtor = true ∨ ∀ x ∈ cs', x = Cell.raw)) Q T := by
  unfold destroyAll
  by_cases ht : c.trivDtor = true
  · rw [if_pos ht]
    refine ⟨blk.cells, ?_, by rw [hc.1, hsz], Or.inl ht⟩
    rw [withCells_self hB]; exact Fr.refl s
  · rw [if_neg ht, if_neg (show ¬ n = 0 by omega)]
    have hlive : ∀ x ∈ blk.cells, x = Cell.live := by
      rcases hc.2 with h | h
      · exact absurd (hwf h) ht
      · exact h
    have hpre : ∀ j, j < n → blk.cells[j]? = some Cell.live := by
      intro j hj
      exact pointwise_of_all hlive j (by rw [hc.1, hsz]; exact hj)
    apply Out.mono (destroyBack_out b n s blk hB hf hpre) _ (fun _ h => h) id
    intro _ s' ⟨cs', hfr, hlen, hraw, _⟩
    have hl : cs'.length = n := by rw [hlen, hc.1, hsz]
    exact ⟨cs', hfr, hl, Or.inr (all_of_pointwise hl hraw)⟩

theorem deallocate_zero (c : Cfg) (a : AllocId) (base : Option Nat) (s : St) {Q : St → Prop} {T : Prop} :
    Out (deallocate c a base 0 s) (fun _ s' => s' = s) Q T := by
  unfold deallocate
  simp only [if_true]
  rfl

/-- the returned block -/
def freedBlock (blk : Block) (a : AllocId) : Block := { blk with freed := true, freedBy := a }

/-- `deallocate()` of an outstanding block of the right size with no object left in it -/
theorem deallocate_out (c : Cfg) (a : AllocId) (b n : Nat) (s : St) {blk : Block} {Q : St → Prop} {T : Prop}
    (hn : 0 < n) (hB : s.blocks[b]? = some blk) (hf : blk.freed = false) (hsz : blk.size = n)
    (hraw : c.trivDtor = true ∨ ∀ x ∈ blk.cells, x = Cell.raw) :
    Out (deallocate c a (some b) n s) (fun _ s' => FrB s s' (s.blocks.set b (freedBlock blk a))) Q T := by
  subst hsz
  unfold deallocate
  have hall : (c.trivDtor || blk.cells.all (· == Cell.raw)) = true := by
    rcases hraw with h | h
    · simp [h]
    · have : blk.cells.all (· == Cell.raw) = true := by
        rw [List.all_eq_true]; intro x hx; simp [h x hx]
      simp [this]
  simp only [show blk.size ≠ 0 by omega, if_false, hB, hf, bne_self_eq_false, hall, Bool.false_or, Bool.not_true,
    Bool.false_eq_true]
  exact ⟨rfl, rfl, id⟩

theorem readCells_zero (c : Cfg) (base : Option Nat) (s : St) {Q : St → Prop} {T : Prop} :
    Out (readCells c base 0 s) (fun _ s' => s' = s) Q T := by
  unfold readCells
  simp only [if_true]
  rfl

/-- reading the elements of an owned block -/
theorem readCells_out (c : Cfg) (b count : Nat) (s : St) {blk : Block} {Q : St → Prop} {T : Prop}
    (hB : s.blocks[b]? = some blk) (hf : blk.freed = false) (hsz : count ≤ blk.size) (hc : CellsOK c blk) :
    Out (readCells c (some b) count s) (fun _ s' => s' = s) Q T := by
  unfold readCells
  by_cases h0 : count = 0
  · simp only [h0, if_true]; rfl
  · have hall : (c.trivCtor || (blk.cells.take count).all (· == Cell.live)) = true := by
      rcases hc.2 with h | h
      · simp [h]
      · have : (blk.cells.take count).all (· == Cell.live) = true := by
          rw [List.all_eq_true]; intro x hx; simp [h x (List.mem_of_mem_take hx)]
        simp [this]
    have hlt : ¬ blk.size < count := by omega
    simp only [h0, if_false, hB, hf, hall, Bool.false_or, Bool.not_true, decide_eq_true_eq, hlt, Bool.or_false,
      Bool.false_eq_true, decide_false]
    rfl

/-- construction of all `n` cells of the block just obtained from `allocate`: all alive afterwards; if a construction
    throws, the flat algorithms leave the block raw -/
theorem constructAll_fresh (c : Cfg) (a : AllocId) (n rowLen : Nat) (s s0 : St) (B : List Block) {T : Prop} (hn : 0 < n)
    (hs : s.blocks = B ++ [freshBlock a n]) :
    Out (constructAll c (some B.length) n rowLen s)
      (fun _ s' => ∃ cs', FrB s s' (B ++ [{ freshBlock a n with cells := cs' }]) ∧ cs'.length = n ∧ ∀ x ∈ cs', x = Cell.live)
      (fun s' => s.fuel ≠ none ∧ ∃ cs', FrB s s' (B ++ [{ freshBlock a n with cells := cs' }]) ∧ cs'.length = n ∧
        (rowLen = 0 → ∀ x ∈ cs', x = Cell.raw)) T := by
  unfold constructAll
  simp only [show n ≠ 0 by omega, if_false]
  have hB : s.blocks[B.length]? = some (freshBlock a n) := by rw [hs]; exact List.getElem?_concat_length
  have hlen0 : (freshBlock a n).cells.length = n := by simp [freshBlock]
  have hset : ∀ cs', withCells s.blocks B.length (freshBlock a n) cs' = B ++ [{ freshBlock a n with cells := cs' }] := by
    intro cs'
    unfold withCells
    rw [hs]
    apply List.ext_getElem?
    intro k
    rw [List.getElem?_set]
    by_cases hk : B.length = k
    · subst hk; simp
    · simp only [hk, if_false]
      by_cases hk2 : k < B.length
      · rw [List.getElem?_append_left hk2, List.getElem?_append_left hk2]
      · rw [List.getElem?_append_right (by omega), List.getElem?_append_right (by omega)]
        have : k - B.length ≠ 0 := by omega
        cases hd : k - B.length with
        | zero => omega
        | succ m => simp
  have hpre1 : ∀ j, j < 0 → (freshBlock a n).cells[j]? = some Cell.live := by intro j hj; omega
  have hpre2 : ∀ j, 0 ≤ j → j < 0 + n → (freshBlock a n).cells[j]? = some Cell.raw := by
    intro j _ hj; exact freshBlock_cells a n j (by omega)
  apply Out.mono (constructN_out (T := T) c B.length (rowStart rowLen) n 0 s (freshBlock a n) hB rfl hpre1 hpre2) _ _ id
  · intro _ s' ⟨cs', hfr, hlen, hlive, _⟩
    have hl : cs'.length = n := by rw [hlen, hlen0]
    exact ⟨cs', by rw [← hset]; exact hfr, hl, all_of_pointwise hl (fun j hj => hlive j (by omega))⟩
  · intro s' ⟨hfu, cs', hfr, hlen, _, hrb⟩
    have hl : cs'.length = n := by rw [hlen, hlen0]
    refine ⟨hfu, cs', by rw [← hset]; exact hfr, hl, ?_⟩
    intro hr
    exact all_of_pointwise hl (fun j hj => hrb (fun x => by simp [rowStart, hr]) j (by omega))

theorem constructAll_zero (c : Cfg) (base : Option Nat) (rowLen : Nat) (s : St) {Q : St → Prop} {T : Prop} :
    Out (constructAll c base 0 rowLen s) (fun _ s' => s' = s) Q T := by
  unfold constructAll
  simp only [if_true]
  rfl

theorem assignAll_nil (c : Cfg) (base : Option Nat) (s : St) {Q : St → Prop} {T : Prop} :
    Out (assignAll c base [] s) (fun _ s' => s' = s) Q T := by
  unfold assignAll
  rfl

/-- element-wise assignment into a block all of whose cells hold objects -/
theorem assignAll_out (c : Cfg) (b : Nat) (offs : List Nat) (s : St) {blk : Block} {T : Prop}
    (hB : s.blocks[b]? = some blk) (hf : blk.freed = false) (hoff : ∀ off ∈ offs, off < blk.size) (hc : CellsOK c blk) :
    Out (assignAll c (some b) offs s)
      (fun _ s' => ∃ cs', FrB s s' (withCells s.blocks b blk cs') ∧ CellsOK c { blk with cells := cs' })
      (fun s' => s.fuel ≠ none ∧ ∃ cs', FrB s s' (withCells s.blocks b blk cs') ∧ CellsOK c { blk with cells := cs' }) T := by
  unfold assignAll
  cases offs with
  | nil =>
    refine ⟨blk.cells, ?_, hc⟩
    rw [withCells_self hB]; exact Fr.refl s
  | cons o rest =>
    have hoff' : ∀ off ∈ o :: rest, off < blk.cells.length := by
      intro off ho; rw [hc.1]; exact hoff off ho
    apply Out.mono (assignCells_out (T := T) c b (o :: rest) s blk hB hf hoff' hc.2) _ _ id
    · intro _ s' ⟨cs', hfr, hlen, hcs⟩
      exact ⟨cs', hfr, by show cs'.length = blk.size; rw [hlen, hc.1], hcs⟩
    · intro s' ⟨hfu, cs', hfr, hlen, hcs⟩
      exact ⟨hfu, cs', hfr, by show cs'.length = blk.size; rw [hlen, hc.1], hcs⟩

end Ledger
end Multi
