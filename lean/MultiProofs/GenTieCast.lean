/-
  MultiProofs.GenTieCast — the hand-written model of the projection casts (`MultiModel/Cast.lean`) EQUALS the definitions
  regenerated from the current array_ref.hpp by tools/gen_casts.py (`MultiModel/Gen/CastGen.lean`).  Proof obligations of C12.
-/
import MultiModel.Gen.CastGen
import MultiProofs.TieTactic

namespace Multi.GenTieCast
open Multi Multi.Gen

theorem ptr_mk (s o : Int) (l : Layout) : (TView.mk s o ⟨0, l⟩).ptr = o := by tie_simp [TView.ptr]

theorem beq_decide (a b : Int) : (a == b) = decide (a = b) := by
  by_cases h : a = b <;> simp [h]

/-- `member_cast`: const&, &, && overloads of the D > 1 class and the D = 1 specialisation -/
theorem member_cast_is_the_code (t : TView) (s off : Int) :
    CAST_member t s off = t.memberCast s off ∧ CAST_member_rv t s off = t.memberCast s off ∧ CAST1_member t s off = t.memberCast s off := by
  refine ⟨rfl, ?_, rfl⟩
  simp [CAST_member_rv, TView.memberCast, TView.ptr]

/-- `reinterpret_array_cast<U>()`: the const overload goes through `reinterpret_array_cast_aux_().as_const()`, the mutable
    ones build the view directly; D = 1 const rebuilds the level by hand -/
theorem reinterpret_is_the_code (t : TView) (s : Int) :
    CAST_reinterpret_aux t s = t.reinterpret s ∧ CAST_reinterpret t s = t.reinterpret s ∧ CAST_S_reinterpret t s = t.reinterpret s := by
  refine ⟨rfl, ?_, rfl⟩
  simp [CAST_reinterpret, TView.reinterpret, TView.ptr]

theorem reinterpret1_is_the_code (e o b : Int) (d : Dim) (s : Int) :
    CAST1_reinterpret ⟨e, o, ⟨b, [d]⟩⟩ s = TView.reinterpret1 ⟨e, o, ⟨b, [d]⟩⟩ s := by
  tie_simp [CAST1_reinterpret, TView.reinterpret1]

/-- `reinterpret_array_cast<U>(n)`: the raw-pointer and the fancy-pointer branch of the const overload build the same view -/
theorem reinterpret_n_is_the_code (t : TView) (s n : Int) (isRaw : Bool) :
    CAST_reinterpret_n t s n isRaw = t.reinterpretN s n ∧ CAST_S_reinterpret_n t s n = t.reinterpretN s n ∧
    CAST1_reinterpret_n t s n = t.reinterpretN1 s n := by
  refine ⟨?_, rfl, ?_⟩
  · cases isRaw <;> simp [CAST_reinterpret_n, TView.reinterpretN]
  · simp [CAST1_reinterpret_n, TView.reinterpretN1, View.rotated]

/-- the assertions of the bodies, together with those of `layout_t::scale` (tied in GenTie), are the model's predicates -/
theorem cast_assertions_are_the_code (t : TView) (s off n : Int) (isRaw : Bool) :
    (CAST_member_asserts t s off && t.v.lay.scaleAsserts t.esz s) = t.memberCastAsserts s ∧
    (CAST1_member_asserts t s off && t.v.lay.scaleAsserts t.esz s) = t.memberCastAsserts s ∧
    (CAST_reinterpret_aux_asserts t s && t.v.lay.scaleAsserts t.esz s) = t.reinterpretAsserts s ∧
    (CAST_S_reinterpret_asserts t s && t.v.lay.scaleAsserts t.esz s) = t.reinterpretAsserts s ∧
    (CAST_reinterpret_n_asserts t s n isRaw && t.v.lay.scaleAsserts t.esz s) = t.reinterpretNAsserts s n ∧
    (CAST_S_reinterpret_n_asserts t s n && t.v.lay.scaleAsserts t.esz s) = t.reinterpretNAsserts s n := by
  refine ⟨?_, ?_, ?_, ?_, ?_, ?_⟩ <;>
    simp [beq_decide, CAST_member_asserts, CAST1_member_asserts, CAST_reinterpret_aux_asserts, CAST_S_reinterpret_asserts, CAST_reinterpret_n_asserts,
      CAST_S_reinterpret_n_asserts, TView.memberCastAsserts, TView.reinterpretAsserts, TView.reinterpretNAsserts] <;> grind

theorem reinterpret1_asserts_tie (e o b : Int) (d : Dim) (s : Int) :
    CAST1_reinterpret_asserts ⟨e, o, ⟨b, [d]⟩⟩ s = TView.reinterpret1Asserts ⟨e, o, ⟨b, [d]⟩⟩ s := by
  tie_simp [CAST1_reinterpret_asserts, TView.reinterpret1Asserts]

end Multi.GenTieCast
