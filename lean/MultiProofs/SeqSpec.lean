/-
  MultiProofs.SeqSpec — C03: the interface through which a sequence algorithm touches a range, with two
  interpretations.

  A sequence algorithm (libstdc++'s `sort`, `rotate`, `unique`, …) interacts with its range `[first, last)` only by
    * iterator arithmetic (`++ -- += -= − < ==`: positions, here integer offsets from `first`),
    * reading a value         `value_type tmp = *(first + i);` / comparing `*(first + i)` with something,
    * writing a saved value    `*(first + i) = tmp;`
    * assigning through two iterators   `*(first + i) = *(first + j);`   (also `std::move(*it)`: rows of trivially movable elements)
    * `std::iter_swap(first + i, first + j)`.
  `Prog ρ` is the tree of such interactions: what the algorithm does next may depend on every value it has read so far
  (comparisons are functions of the values read — for rows that is C07's `lt_is_lex`/`eq_iff`: `<` and `==` on proxies
  depend only on the denoted values).  `ret p` returns a position (or any integer result).

  Interpretation 1 (`runList`): over a `List ρ` of independent values.
  Interpretation 2 (`runRows`): over `(Mem α, View)`: position `i` is the library iterator `v.begin'.add i`, `*it` is the
  proxy sub-view `it.deref` (an element when D = 1), reading is the decay copy `View.read`, writing a value is the deep
  assignment from an owning array (`elements() = values`), `*it = *jt` is `View.assign` (C05), `iter_swap` is `View.swap`.
  Interpretation 3 (`runElems`): over `(Mem α, View)` through the flat `elements()` range: position `k` is
  `elements().begin() + k` (`ElemIt.add`), `*it` is the element at `it.current`.
-/
import MultiModel.Store
import MultiProofs.StoreSpec

namespace Multi

inductive Prog (ρ : Type) where
  | ret (pos : Int)
  | read (i : Int) (k : ρ → Prog ρ)
  | write (i : Int) (x : ρ) (k : Prog ρ)
  | assign (i j : Int) (k : Prog ρ)
  | swap (i j : Int) (k : Prog ρ)

namespace Prog

/-- element `i` of a list, `none` outside `[0, length)` -/
def nth (xs : List ρ) (i : Int) : Option ρ := if 0 ≤ i then xs[i.toNat]? else none

def setNth (xs : List ρ) (i : Int) (x : ρ) : List ρ := xs.set i.toNat x

/-- on a sequence of independent values -/
def runList : Prog ρ → List ρ → Option (List ρ × Int)
  | ret p, xs => some (xs, p)
  | read i k, xs => match nth xs i with | some x => runList (k x) xs | none => none
  | write i x k, xs => match nth xs i with | some _ => runList k (setNth xs i x) | none => none
  | assign i j k, xs => match nth xs i, nth xs j with | some _, some y => runList k (setNth xs i y) | _, _ => none
  | swap i j k, xs => match nth xs i, nth xs j with | some x, some y => runList k (setNth (setNth xs i y) j x) | _, _ => none

/-- every value the program writes has `n` elements (the static type `array<T, D-1>` of a saved row fixes its extents) -/
inductive Typed (n : Nat) : Prog (List α) → Prop
  | ret (p : Int) : Typed n (ret p)
  | read (i : Int) (k : List α → Prog (List α)) : (∀ x, x.length = n → Typed n (k x)) → Typed n (read i k)
  | write (i : Int) (x : List α) (k : Prog (List α)) : x.length = n → Typed n k → Typed n (write i x k)
  | assign (i j : Int) (k : Prog (List α)) : Typed n k → Typed n (assign i j k)
  | swap (i j : Int) (k : Prog (List α)) : Typed n k → Typed n (swap i j k)

end Prog

/-! ### through `begin()/end()` (rows) -/
namespace View

/-- `*(begin() + i)` -/
def rowAt (v : View) (i : Int) : View := (v.begin'.add i).deref

/-- `value_type tmp = *it` — the decay copy: the row's elements in canonical order (one element when D = 1) -/
def readRow (r : View) (m : Mem α) : Option (List α) := r.read m

/-- `*it = tmp` with `tmp` a saved value: D = 1 an element store; D > 1 `subarray = array` i.e. `elements() = tmp.elements()` -/
def writeRow (r : View) (x : List α) (m : Mem α) : Option (Mem α) :=
  match r.lay with
  | [] => match x with | [a] => some (m.write r.base a) | _ => none
  | _ :: _ => (ElemRange.ofView r).assignVals x m

/-- `*it = *jt`: D = 1 element assignment; D > 1 `subarray::operator=` (C05) -/
def assignRow (r s : View) (m : Mem α) : Option (Mem α) :=
  match r.lay with
  | [] => some (m.write r.base (m s.base))
  | _ :: _ => r.assign s m

/-- `std::iter_swap(it, jt)`: D = 1 `std::swap` of two elements; D > 1 `swap(subarray&&, subarray&&)` (C05) -/
def swapRow (r s : View) (m : Mem α) : Option (Mem α) :=
  match r.lay with
  | [] => some ((m.write r.base (m s.base)).write s.base (m r.base))
  | _ :: _ => r.swap s m

end View

/-- on memory, through the proxy iterators of view `v` -/
def Prog.runRows : Prog (List α) → View → Mem α → Option (Mem α × Int)
  | .ret p, _, m => some (m, p)
  | .read i k, v, m => match (v.rowAt i).readRow m with | some x => runRows (k x) v m | none => none
  | .write i x k, v, m => match (v.rowAt i).writeRow x m with | some m' => runRows k v m' | none => none
  | .assign i j k, v, m => match (v.rowAt i).assignRow (v.rowAt j) m with | some m' => runRows k v m' | none => none
  | .swap i j k, v, m => match (v.rowAt i).swapRow (v.rowAt j) m with | some m' => runRows k v m' | none => none

/-- the sequence of row values a view denotes: row `k` is the sub-view at leading index `first + k`, its value the list of
    its elements in canonical order (specification side: index-based, independent of the iterators) -/
def rowsVal (v : View) (m : Mem α) : List (List α) :=
  (List.range v.ext.size.toNat).map fun (k : Nat) =>
    (boxIndices v.exts.tail).map fun idx => m (v.addr ((v.ext.first + Int.ofNat k) :: idx))

/-! ### through `elements()` -/

/-- `*(elements().begin() + k)`: the address -/
def View.elemAt (v : View) (k : Int) : Option Int := do
  let b ← (ElemRange.ofView v).begin'
  let it ← b.add k
  pure it.current

/-- on memory, through the flat elements range of view `v` -/
def Prog.runElems : Prog α → View → Mem α → Option (Mem α × Int)
  | .ret p, _, m => some (m, p)
  | .read i k, v, m => match v.elemAt i with | some a => runElems (k (m a)) v m | none => none
  | .write i x k, v, m => match v.elemAt i with | some a => runElems k v (m.write a x) | none => none
  | .assign i j k, v, m => match v.elemAt i, v.elemAt j with | some a, some b => runElems k v (m.write a (m b)) | _, _ => none
  | .swap i j k, v, m => match v.elemAt i, v.elemAt j with | some a, some b => runElems k v ((m.write a (m b)).write b (m a)) | _, _ => none

/-- the sequence of element values a view denotes, in canonical index order -/
def elemsVal (v : View) (m : Mem α) : List α := (boxIndices v.exts).map fun idx => m (v.addr idx)

/-! ### sanity: three algorithms written against the interface -/

/-- `std::reverse` on `[lo, hi)`: swap the ends, move inwards -/
def revProg (ρ : Type) : Nat → Int → Int → Prog ρ
  | 0, _, _ => .ret 0
  | fuel + 1, lo, hi => if lo + 1 < hi then .swap lo (hi - 1) (revProg ρ fuel (lo + 1) (hi - 1)) else .ret 0

/-- rotate left by one on `[0, n)`: save the first value, shift the others down, store the saved one at the end; returns
    the new position of the old first element -/
def shiftFrom (ρ : Type) (x : ρ) : Nat → Int → Int → Prog ρ
  | 0, i, _ => .write i x (.ret i)
  | fuel + 1, i, n => if i + 1 < n then .assign i (i + 1) (shiftFrom ρ x fuel (i + 1) n) else .write i x (.ret i)

def rotate1Prog (ρ : Type) (n : Nat) : Prog ρ := if n = 0 then .ret 0 else .read 0 fun x => shiftFrom ρ x n 0 n

/-- insertion sort with a comparison on the values read: insert element `i` into the sorted prefix by adjacent swaps -/
def sinkProg (lt : ρ → ρ → Bool) (next : Prog ρ) : Nat → Int → Prog ρ
  | 0, _ => next
  | fuel + 1, j => if 0 < j then .read (j - 1) fun a => .read j fun b => if lt b a then .swap (j - 1) j (sinkProg lt next fuel (j - 1)) else next else next

def isortProg (lt : ρ → ρ → Bool) : Nat → Int → Int → Prog ρ
  | 0, _, _ => .ret 0
  | fuel + 1, i, n => if i < n then sinkProg lt (isortProg lt fuel (i + 1) n) i.toNat i else .ret 0

end Multi
