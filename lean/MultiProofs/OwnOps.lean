/-
  MultiProofs.OwnOps — each operation of MultiModel.Owning that works on whole arrays, as coded, yields a valid array
  with the documented value and touches no block other than its own (helper lemmas for C04 / C06).
-/
import MultiProofs.OwnBasic

namespace Multi
namespace Own
variable {α : Type}

/-- what one operation does from the point of view of the pool: from heap `h` to `h'`, modifying at most the blocks in `M`,
    producing the array `a'` with value `val` whose block is one of `M` or was not live before -/
structure Outcome (h h' : Heap α) (M : Nat → Prop) (a' : Arr) (val : AbsArr α) : Prop where
  frame : Frame h h' M
  ub    : h'.ub = h.ub
  asrt  : h'.asrt = h.asrt
  valid : Valid h' a'
  abs   : absArr h' a' = val
  own   : a'.numElements ≠ 0 → ∀ b, a'.base = some b → (M b ∨ h.blocks.length ≤ b)
  len   : h.blocks.length ≤ h'.blocks.length

theorem not_live_fresh (h : Heap α) (cs : List (Cell α)) : ¬ Live h h.blocks.length cs :=
  fun hl => Nat.lt_irrefl _ hl.lt

theorem alloc_snd (h : Heap α) {n : Int} (hn : n ≠ 0) : (h.alloc n).2 = some h.blocks.length := by rw [alloc_pos h hn]

theorem toNat_ne_zero {n : Int} (h0 : 0 ≤ n) (hn : n ≠ 0) : n.toNat ≠ 0 := by omega

/-- allocate a block for extensions `es`, then initialise it completely with `cells` -/
theorem outcome_fresh {h : Heap α} {es : List Ext} (hes : ExtsOK es) (h2 : Heap α) (cells : List (Cell α))
    (hlen : cells.length = (nElems es).toNat)
    (hz : nElems es = 0 → h2 = h)
    (hnz : nElems es ≠ 0 → h2 = (h.alloc (nElems es)).1.setBlock h.blocks.length (some cells)) :
    Outcome h h2 (fun _ => False) ⟨(h.alloc (nElems es)).2, Layout.ofExts es⟩ ⟨collapse es, cells⟩ := by
  have hne : (⟨(h.alloc (nElems es)).2, Layout.ofExts es⟩ : Arr).numElements = nElems es := ofExts_numElements hes
  by_cases h0 : nElems es = 0
  · have e2 := hz h0
    subst e2
    have hc : cells = [] := by apply List.eq_nil_of_length_eq_zero; rw [hlen, h0]; rfl
    refine ⟨Frame.refl _ _, rfl, rfl, ⟨⟨es, hes, rfl⟩, Or.inl (by rw [hne, h0])⟩, ?_, ?_, Nat.le_refl _⟩
    · apply AbsArr.ext'
      · exact ofExts_exts hes
      · show cellsOf _ _ = cells
        rw [hc]; exact cellsOf_zero (by rw [hne, h0])
    · intro hnz'; exact absurd (by rw [hne, h0]) hnz'
  · have e2 := hnz h0
    subst e2
    have hp := alloc_snd h h0
    have hl1 := alloc_live h h0
    have hl2 := hl1.setBlock_same cells
    refine ⟨?_, ?_, ?_, ⟨⟨es, hes, rfl⟩, Or.inr ⟨h.blocks.length, cells, hp, hl2, by rw [hlen, hne]⟩⟩, ?_, ?_, ?_⟩
    · intro b cs hl _
      have hb : b ≠ h.blocks.length := fun e => not_live_fresh h cs (e ▸ hl)
      exact (alloc_keeps h _ hl).setBlock_other (fun e => hb e.symm) _
    · simp [(alloc_ub h (nElems es)).1]
    · simp [(alloc_ub h (nElems es)).2]
    · apply AbsArr.ext'
      · exact ofExts_exts hes
      · show cellsOf _ _ = cells
        rw [cellsOf_live hp hl2, hne, ← hlen, List.take_length]
    · intro _ b hb
      right
      rw [hp] at hb
      have : h.blocks.length = b := Option.some.inj hb
      omega
    · have := alloc_length h (nElems es)
      simpa [Heap.setBlock] using this

/-! ### constructors -/

/-- value of a freshly constructed `array(extensions)`: value-initialised elements, or indeterminate ones for a trivial `T` -/
def initCell (cfg : Cfg α) : Cell α := if cfg.trivial then none else some cfg.dflt

theorem extsCtor_outcome (cfg : Cfg α) (h : Heap α) {es : List Ext} (hes : ExtsOK es) :
    Outcome h (extsCtor cfg h es).1 (fun _ => False) (extsCtor cfg h es).2
      ⟨collapse es, List.replicate (nElems es).toNat (initCell cfg)⟩ := by
  unfold extsCtor valueConstruct
  simp only [ofExts_numElements hes]
  apply outcome_fresh hes
  · simp
  · intro h0; simp [h0, alloc_zero]
    cases cfg.trivial <;> simp [Heap.fillN]
  · intro h0
    have hl := alloc_live h h0
    rw [alloc_snd h h0]
    unfold initCell
    cases hc : cfg.trivial
    · simp only [Bool.false_eq_true, if_false]
      rw [fillN_live hl _ (by simp)]
      simp
    · simp only [if_true]
      rw [Heap.setBlock_self hl]

theorem fillCtor_outcome (h : Heap α) {es : List Ext} (hes : ExtsOK es) (v : α) :
    Outcome h (fillCtor h es v).1 (fun _ => False) (fillCtor h es v).2
      ⟨collapse es, List.replicate (nElems es).toNat (some v)⟩ := by
  unfold fillCtor
  simp only [ofExts_numElements hes]
  apply outcome_fresh hes
  · simp
  · intro h0; simp [h0, alloc_zero, Heap.fillN]
  · intro h0
    have hl := alloc_live h h0
    rw [alloc_snd h h0, fillN_live hl _ (by simp)]
    simp

/-- allocate a block for `es` (which have the extensions and size of `other`) and copy `other`'s elements into it -/
theorem copy_fresh (h : Heap α) {other : Arr} (hv : Valid h other) {es : List Ext} (hes : ExtsOK es)
    (hc : collapse es = other.exts) (hne : nElems es = other.numElements) :
    Outcome h ((h.alloc (nElems es)).1.copyN other.base (h.alloc (nElems es)).2 (nElems es).toNat) (fun _ => False)
      ⟨(h.alloc (nElems es)).2, Layout.ofExts es⟩ (absArr h other) := by
  have hlen := hv.cells_length
  rw [← hne] at hlen
  have := @outcome_fresh α h es hes ((h.alloc (nElems es)).1.copyN other.base (h.alloc (nElems es)).2 (nElems es).toNat) (cellsOf h other) hlen
  rw [hc] at this
  apply this
  · intro h0; simp [h0, alloc_zero, Heap.copyN]
  · intro h0
    rcases hv.store with hz | ⟨b, cs, hb, hl, hcs⟩
    · exact absurd (hne ▸ hz) h0
    · have hl1 := alloc_live h h0
      have hls := alloc_keeps h (nElems es) hl
      have hneq : b ≠ h.blocks.length := fun e => not_live_fresh h cs (e ▸ hl)
      rw [alloc_snd h h0, hb, copyN_live hls hl1 hneq _ (by rw [hcs, hne]; exact Nat.le_refl _) (by simp)]
      congr 2
      rw [cellsOf_live hb hl, ← hne]
      simp

/-- copy constructor (and the constructors from an array of another element type): the value of the source -/
theorem copyCtor_outcome (h : Heap α) {other : Arr} (hv : Valid h other) :
    Outcome h (copyCtor h other).1 (fun _ => False) (copyCtor h other).2 (absArr h other) := by
  obtain ⟨hx, hn⟩ := hv.rebuild
  have hok := hv.exts_ok
  have hne : nElems other.exts = other.numElements := hv.nElems_exts
  have hcl : collapse other.exts = other.exts := by rw [← hx, ofExts_exts hok, collapse_idem]
  unfold copyCtor
  simp only [hn]
  rw [← hne]
  exact copy_fresh h hv hok hcl hne

theorem rangeCtor_outcome (h : Heap α) (count : Int) (inner : List Ext) (vals : List α)
    (hes : ExtsOK (⟨0, count⟩ :: (if count = 0 then List.replicate inner.length ⟨0, 0⟩ else inner)))
    (hlen : (vals.length : Int) = nElems (⟨0, count⟩ :: (if count = 0 then List.replicate inner.length ⟨0, 0⟩ else inner))) :
    Outcome h (rangeCtor h count inner vals).1 (fun _ => False) (rangeCtor h count inner vals).2
      ⟨collapse (⟨0, count⟩ :: (if count = 0 then List.replicate inner.length ⟨0, 0⟩ else inner)), vals.map some⟩ := by
  unfold rangeCtor
  simp only [ofExts_numElements hes]
  apply outcome_fresh hes
  · simp; omega
  · intro h0
    rw [h0] at hlen
    have : vals = [] := by apply List.eq_nil_of_length_eq_zero; omega
    simp [h0, alloc_zero, this, Heap.writeList]
  · intro h0
    have hl := alloc_live h h0
    rw [alloc_snd h h0, writeList_live hl vals (by simp; omega)]
    congr 2
    have : vals.length = (nElems (⟨0, count⟩ :: (if count = 0 then List.replicate inner.length ⟨0, 0⟩ else inner))).toNat := by omega
    rw [List.drop_of_length_le (by simp; omega)]
    simp

/-! ### release -/

theorem emptyLay_ok (D : Nat) : ExtsOK (List.replicate D ⟨0, 0⟩) := by
  intro e he; rw [List.mem_replicate] at he; rw [he.2]; exact Int.le_refl _

theorem nElems_replicate_zero {D : Nat} (hD : D ≠ 0) : nElems (List.replicate D ⟨0, 0⟩) = 0 := by
  cases D with
  | zero => exact absurd rfl hD
  | succ D => simp [List.replicate_succ, nElems, Ext.size]

theorem emptyLay_numElements {D : Nat} (hD : D ≠ 0) : (emptyLay D).numElements = 0 := by
  unfold emptyLay; rw [ofExts_numElements (emptyLay_ok D), nElems_replicate_zero hD]

theorem collapse_replicate_zero (D : Nat) : collapse (List.replicate D ⟨0, 0⟩) = List.replicate D ⟨0, 0⟩ := by
  induction D with
  | zero => rfl
  | succ D ih => simp [List.replicate_succ, collapse, ih, Ext.size]

theorem emptyLay_exts (D : Nat) : (emptyLay D).exts = List.replicate D ⟨0, 0⟩ := by
  unfold emptyLay; rw [ofExts_exts (emptyLay_ok D), collapse_replicate_zero]

/-- an array with the empty layout is valid whatever its `base_` and denotes the empty value -/
theorem empty_valid (h : Heap α) (p : Option Nat) {D : Nat} (hD : D ≠ 0) :
    Valid h ⟨p, emptyLay D⟩ ∧ absArr h ⟨p, emptyLay D⟩ = ⟨List.replicate D ⟨0, 0⟩, []⟩ := by
  have hz : (⟨p, emptyLay D⟩ : Arr).numElements = 0 := emptyLay_numElements hD
  refine ⟨⟨⟨_, emptyLay_ok D, rfl⟩, Or.inl hz⟩, ?_⟩
  apply AbsArr.ext'
  · exact emptyLay_exts D
  · exact cellsOf_zero hz

/-- `deallocate()`: only the array's own block changes -/
theorem deallocate_frame {h : Heap α} {a : Arr} (hv : Valid h a) :
    Frame h (deallocate h a) (fun b => a.numElements ≠ 0 ∧ a.base = some b) ∧ (deallocate h a).ub = h.ub ∧ (deallocate h a).asrt = h.asrt := by
  unfold deallocate
  by_cases hz : a.numElements = 0
  · simp [hz]; exact Frame.refl _ _
  · simp only [ne_eq, hz, not_false_eq_true, if_true]
    rcases hv.store with h0 | ⟨b, cs, hb, hl, _⟩
    · exact absurd h0 hz
    · rw [hb, dealloc_live hl]
      refine ⟨?_, rfl, rfl⟩
      intro b' cs' hl' hm
      apply hl'.setBlock_other
      intro e; apply hm; exact ⟨trivial, by rw [e]⟩

theorem deallocate_length (h : Heap α) (a : Arr) : (deallocate h a).blocks.length = h.blocks.length := by
  unfold deallocate
  by_cases hz : a.numElements = 0
  · simp [hz]
  · simp only [ne_eq, hz, not_false_eq_true, if_true]
    unfold Heap.dealloc
    cases a.base with
    | none => rfl
    | some b =>
      simp only
      cases h.blocks[b]? with
      | none => rfl
      | some x => cases x <;> simp [Heap.setUB]

/-- the set of blocks an array owns: its block if it has elements -/
def ownBlock (a : Arr) : Nat → Prop := fun b => a.numElements ≠ 0 ∧ a.base = some b

/-- release the old storage, then build a fresh array: only the old block is touched -/
theorem outcome_after_dealloc {h : Heap α} {a : Arr} (hv : Valid h a) {h2 : Heap α} {a' : Arr} {val : AbsArr α}
    (ho : Outcome (deallocate h a) h2 (fun _ => False) a' val) : Outcome h h2 (ownBlock a) a' val := by
  obtain ⟨f1, u1, s1⟩ := deallocate_frame hv
  refine ⟨f1.trans (ho.frame.mono (fun _ hf => False.elim hf)), by rw [ho.ub, u1], by rw [ho.asrt, s1], ho.valid, ho.abs, ?_, ?_⟩
  · intro hn b hb
    rcases ho.own hn b hb with hf | hf
    · exact False.elim hf
    · right; rw [deallocate_length] at hf; exact hf
  · have := ho.len; rw [deallocate_length] at this; exact this

/-- an array that stays valid across the release of another array's storage -/
theorem Valid.after_dealloc {h : Heap α} {a other : Arr} (hva : Valid h a) (hvo : Valid h other)
    (hsep : a.numElements ≠ 0 → other.numElements ≠ 0 → a.base ≠ other.base) :
    Valid (deallocate h a) other ∧ cellsOf (deallocate h a) other = cellsOf h other := by
  apply hvo.frame (deallocate_frame hva).1
  intro hn b hb hm
  exact hsep hm.1 hn (by rw [hm.2, hb])

theorem clear_outcome {h : Heap α} {a : Arr} (hv : Valid h a) (hD : a.dim ≠ 0) :
    Outcome h (clear h a).1 (ownBlock a) (clear h a).2 ⟨List.replicate a.dim ⟨0, 0⟩, []⟩ := by
  unfold clear
  obtain ⟨f1, u1, s1⟩ := deallocate_frame hv
  obtain ⟨v1, a1⟩ := empty_valid (deallocate h a) a.base hD
  refine ⟨f1, u1, s1, v1, a1, ?_, by rw [deallocate_length]; exact Nat.le_refl _⟩
  intro hn; exact absurd (emptyLay_numElements hD) hn

/-- copy assignment from a different array: the value of the source -/
theorem copyAssign_outcome {h : Heap α} {self other : Arr} (hvs : Valid h self) (hvo : Valid h other) (hD : self.dim ≠ 0)
    (hsep : self.numElements ≠ 0 → other.numElements ≠ 0 → self.base ≠ other.base) :
    Outcome h (copyAssign h self other).1 (ownBlock self) (copyAssign h self other).2 (absArr h other) := by
  unfold copyAssign
  by_cases heq : Exts.eqv self.exts other.exts = true
  · simp only [heq, if_true]
    have hx : self.exts = other.exts := eqv_normal _ _ hvs.exts_normal hvo.exts_normal heq
    have hn : self.numElements = other.numElements := by rw [← hvs.nElems_exts, ← hvo.nElems_exts, hx]
    by_cases h0 : other.numElements = 0
    · have hs0 : self.numElements = 0 := by rw [hn, h0]
      have hc0 : h.copyN other.base self.base other.numElements.toNat = h := by simp [h0, Heap.copyN]
      rw [hc0]
      refine ⟨?_, rfl, rfl, ?_, ?_, ?_, ?_⟩
      · exact Frame.refl _ _
      · exact hvs
      · apply AbsArr.ext' hx; show cellsOf h self = cellsOf h other; rw [cellsOf_zero hs0, cellsOf_zero h0]
      · intro hne; exact absurd hs0 hne
      · exact Nat.le_refl _
    · have hs0 : self.numElements ≠ 0 := by rw [hn]; exact h0
      rcases hvs.store with hz | ⟨d, ds, hd, hld, hdl⟩
      · exact absurd hz hs0
      rcases hvo.store with hz | ⟨s, ss, hs, hls, hsl⟩
      · exact absurd hz h0
      have hne : s ≠ d := by
        intro e; apply hsep hs0 h0; rw [hd, hs, e]
      rw [hs, hd, copyN_live hls hld hne _ (by rw [hsl]; exact Nat.le_refl _) (by rw [hdl, hn]; exact Nat.le_refl _)]
      have hdrop : ds.drop other.numElements.toNat = [] := by apply List.drop_of_length_le; rw [hdl, hn]; exact Nat.le_refl _
      rw [hdrop, List.append_nil]
      have hl' := hld.setBlock_same (ss.take other.numElements.toNat)
      refine ⟨?_, rfl, rfl, ⟨hvs.shape, Or.inr ⟨d, _, hd, hl', by simp [hsl, hn]⟩⟩, ?_, ?_, by simp [Heap.setBlock]⟩
      · intro b cs hl hm
        apply hl.setBlock_other
        intro e; apply hm; exact ⟨hs0, by rw [hd, e]⟩
      · apply AbsArr.ext' hx
        show cellsOf _ self = cellsOf h other
        rw [cellsOf_live hd hl', cellsOf_live hs hls, hn, List.take_take, Nat.min_self]
      · intro _ b hb; left; exact ⟨hs0, hb⟩
  · simp only [heq, Bool.false_eq_true, if_false]
    obtain ⟨es, hes, hlay⟩ := hvo.shape
    have hc : collapse es = other.exts := by unfold Arr.exts; rw [hlay, ofExts_exts hes]
    have hne : nElems es = other.numElements := by unfold Arr.numElements; rw [hlay, ofExts_numElements hes]
    obtain ⟨v1, c1⟩ := hvs.after_dealloc hvo hsep
    have key := copy_fresh (deallocate h self) v1 hes hc hne
    have hnum : other.lay.numElements = nElems es := by rw [hlay, ofExts_numElements hes]
    have := outcome_after_dealloc hvs key
    simp only [clear, hnum]
    rw [hlay]
    have habs : absArr (deallocate h self) other = absArr h other := by
      unfold absArr; rw [c1]
    rw [habs] at this
    exact this

theorem absArr_eq {h : Heap α} {a : Arr} {e : List Ext} {c : List (Cell α)} (he : a.exts = e) (hc : cellsOf h a = c) :
    absArr h a = ⟨e, c⟩ := by unfold absArr; rw [he, hc]

/-- fill the own block completely -/
theorem fill_inplace {h : Heap α} {a : Arr} (hv : Valid h a) (c : Cell α) :
    Outcome h (h.fillN a.base a.numElements.toNat c) (ownBlock a) a ⟨a.exts, List.replicate a.numElements.toNat c⟩ := by
  rcases hv.store with hz | ⟨d, ds, hd, hl, hlen⟩
  · have : h.fillN a.base a.numElements.toNat c = h := by simp [hz, Heap.fillN]
    rw [this]
    refine ⟨Frame.refl _ _, rfl, rfl, hv, ?_, fun hn => absurd hz hn, Nat.le_refl _⟩
    exact absArr_eq rfl (by rw [cellsOf_zero hz, hz]; rfl)
  · by_cases hz : a.numElements = 0
    · have : h.fillN a.base a.numElements.toNat c = h := by simp [hz, Heap.fillN]
      rw [this]
      refine ⟨Frame.refl _ _, rfl, rfl, hv, ?_, fun hn => absurd hz hn, Nat.le_refl _⟩
      exact absArr_eq rfl (by rw [cellsOf_zero hz, hz]; rfl)
    · rw [hd, fillN_live hl _ (by rw [hlen]; exact Nat.le_refl _)]
      have hdrop : ds.drop a.numElements.toNat = [] := by apply List.drop_of_length_le; rw [hlen]; exact Nat.le_refl _
      rw [hdrop, List.append_nil]
      have hl' := hl.setBlock_same (List.replicate a.numElements.toNat c)
      refine ⟨?_, rfl, rfl, ⟨hv.shape, Or.inr ⟨d, _, hd, hl', by simp⟩⟩, ?_, fun _ b hb => Or.inl ⟨hz, hb⟩, by simp [Heap.setBlock]⟩
      · intro b cs hlb hm
        apply hlb.setBlock_other
        intro e; apply hm; exact ⟨hz, by rw [hd, e]⟩
      · exact absArr_eq rfl (by rw [cellsOf_live hd hl']; simp)

/-- `assign(extensions, value)`: the requested extensions, every element equal to the value -/
theorem assignFill_outcome {h : Heap α} {self : Arr} (hv : Valid h self) (hD : self.dim ≠ 0) {es : List Ext} (hes : ExtsOK es) (v : α) :
    Outcome h (assignFill h self es v).1 (ownBlock self) (assignFill h self es v).2
      ⟨collapse es, List.replicate (nElems es).toNat (some v)⟩ := by
  unfold assignFill
  by_cases heq : Exts.eqv self.exts es = true
  · simp only [heq, if_true]
    have hx : collapse es = self.exts := eqv_collapse _ _ hv.exts_fix heq
    have hn : nElems es = self.numElements := by rw [← nElems_collapse, hx, hv.nElems_exts]
    rw [hx, hn]
    exact fill_inplace hv (some v)
  · simp only [heq, Bool.false_eq_true, if_false, clear]
    apply outcome_after_dealloc hv
    simp only [ofExts_numElements hes]
    apply outcome_fresh hes
    · simp
    · intro h0; simp [h0, alloc_zero, Heap.fillN]
    · intro h0
      have hl := alloc_live (deallocate h self) h0
      rw [alloc_snd _ h0, fillN_live hl _ (by simp)]
      simp

/-- `reextent(x) &&`: the requested extensions, every element value-initialised (or indeterminate); a no-op for the current extensions -/
theorem reextentMoved_outcome (cfg : Cfg α) {h : Heap α} {self : Arr} (hv : Valid h self) {x : List Ext} (hes : ExtsOK x) :
    Outcome h (reextentMoved cfg h self x).1 (ownBlock self) (reextentMoved cfg h self x).2
      (if Exts.eqv x self.exts = true then absArr h self else ⟨collapse x, List.replicate (nElems x).toNat (initCell cfg)⟩) := by
  unfold reextentMoved
  by_cases heq : Exts.eqv x self.exts = true
  · simp only [heq, if_true]
    exact ⟨Frame.refl _ _, rfl, rfl, hv, rfl, fun hn b hb => Or.inl ⟨hn, hb⟩, Nat.le_refl _⟩
  · simp only [heq, Bool.false_eq_true, if_false]
    apply outcome_after_dealloc hv
    have := extsCtor_outcome cfg (deallocate h self) hes
    unfold extsCtor at this
    exact this

/-- `reshape(extensions)` with the same number of elements: same storage, same flat element sequence, new extensions -/
theorem reshape_outcome {h : Heap α} {self : Arr} (hv : Valid h self) {es : List Ext} (hes : ExtsOK es)
    (hn : nElems es = self.numElements) :
    Outcome h (reshape h self es).1 (ownBlock self) (reshape h self es).2 ⟨collapse es, cellsOf h self⟩
      ∧ (reshape h self es).1 = h ∧ (reshape h self es).2.base = self.base := by
  have hnum : (Layout.ofExts es).numElements = self.numElements := by rw [ofExts_numElements hes, hn]
  have hchk : h.check ((Layout.ofExts es).numElements == self.numElements) = h := by simp [Heap.check, hnum]
  have e1 : (reshape h self es).1 = h := by simp only [reshape]; exact hchk
  have e2 : (reshape h self es).2 = ⟨self.base, Layout.ofExts es⟩ := rfl
  refine ⟨?_, e1, by rw [e2]⟩
  rw [e1, e2]
  refine ⟨Frame.refl _ _, rfl, rfl, ⟨⟨es, hes, rfl⟩, ?_⟩, ?_, ?_, Nat.le_refl _⟩
  · rcases hv.store with hz | ⟨b, cs, hb, hl, hlen⟩
    · left; show (Layout.ofExts es).numElements = 0; rw [hnum, hz]
    · right; exact ⟨b, cs, hb, hl, by show cs.length = (Layout.ofExts es).numElements.toNat; rw [hnum, hlen]⟩
  · have he : (⟨self.base, Layout.ofExts es⟩ : Arr).exts = collapse es := ofExts_exts hes
    apply absArr_eq he
    unfold cellsOf
    simp only [Arr.numElements, hnum]
  · intro hne b hb
    left
    exact ⟨by rw [← hnum]; exact hne, hb⟩

/-- default constructor, D ≥ 1: empty, owns nothing -/
theorem defaultCtor_outcome (cfg : Cfg α) (h : Heap α) {D : Nat} (hD : D ≠ 0) :
    Outcome h (defaultCtor cfg h D).1 (fun _ => False) (defaultCtor cfg h D).2 ⟨List.replicate D ⟨0, 0⟩, []⟩ := by
  cases D with
  | zero => exact absurd rfl hD
  | succ D =>
    simp only [defaultCtor]
    obtain ⟨v1, a1⟩ := empty_valid h none hD
    exact ⟨Frame.refl _ _, rfl, rfl, v1, a1, fun hn => absurd (emptyLay_numElements hD) hn, Nat.le_refl _⟩

/-- `reextent` to the current extensions: same block, same layout, same heap -/
theorem reextent_same (cfg : Cfg α) (h : Heap α) (a : Arr) (x : List Ext) (fill : Option α)
    (hx : Exts.eqv x a.exts = true) : reextent cfg h a x fill = (h, a) := by
  unfold reextent; simp [hx]

/-- destructor: only the own block is released -/
theorem dtor_frame {h : Heap α} {a : Arr} (hv : Valid h a) :
    Frame h (dtor h a) (ownBlock a) ∧ (dtor h a).ub = h.ub ∧ (dtor h a).asrt = h.asrt := deallocate_frame hv

/-- an index tuple inside the reported extensions exists only if no extension collapsed -/
theorem collapse_of_inBox : ∀ (es : List Ext) (idx : List Int), InBox (collapse es) idx → collapse es = es := by
  intro es
  induction es with
  | nil => intro _ _; rfl
  | cons e es ih =>
    intro idx hb
    simp only [collapse] at hb ⊢
    obtain ⟨t, r, rfl, h1, h2, h3⟩ := inBox_cons hb
    by_cases hz : e.size * nElems es = 0
    · simp only [hz, if_true] at h1 h2; omega
    · simp only [hz, if_false]; rw [ih r h3]

/-- element write `A[i][j]… = v` at an index tuple inside the extensions: that element changes, nothing else -/
theorem writeAt_outcome {h : Heap α} {a : Arr} (hv : Valid h a) {idx : List Int} (hidx : InBox a.exts idx) (v : α) :
    Outcome h (writeAt h a idx v) (ownBlock a) a ⟨a.exts, (cellsOf h a).set (rowMajor a.exts idx).toNat (some v)⟩ := by
  obtain ⟨es, hes, hlay⟩ := hv.shape
  have hx : a.exts = collapse es := by unfold Arr.exts; rw [hlay, ofExts_exts hes]
  rw [hx] at hidx
  have hce := collapse_of_inBox es idx hidx
  obtain ⟨_, _, hnum, haddr⟩ := C01.root_denotes es hes
  obtain ⟨a1, a2, a3⟩ := haddr idx hidx
  have hn : a.numElements = nElems es := by unfold Arr.numElements; rw [hlay, hnum]
  have haddr' : a.view.addr idx = rowMajor es idx := by
    rw [addr_eq]; simp only [Arr.view, hlay, a1]; omega
  have hnz : a.numElements ≠ 0 := by rw [hn]; omega
  rcases hv.store with hz | ⟨d, cs, hd, hl, hlen⟩
  · exact absurd hz hnz
  · unfold writeAt
    rw [haddr', hx, hce, hd]
    have hk : (rowMajor es idx).toNat < cs.length := by rw [hlen, hn]; omega
    have hcast : rowMajor es idx = Int.ofNat (rowMajor es idx).toNat := by simp; omega
    rw [hcast, write_live hl hk]
    simp only [Int.toNat_natCast, Int.ofNat_eq_natCast]
    have hl' := hl.setBlock_same (cs.set (rowMajor es idx).toNat (some v))
    refine ⟨?_, rfl, rfl, ⟨hv.shape, Or.inr ⟨d, _, hd, hl', by simp [hlen]⟩⟩, ?_, fun _ b hb => Or.inl ⟨hnz, hb⟩, by simp [Heap.setBlock]⟩
    · intro b cs' hlb hm
      apply hlb.setBlock_other
      intro e; apply hm; exact ⟨hnz, by rw [hd, e]⟩
    · apply absArr_eq (by rw [hx, hce])
      rw [cellsOf_live hd hl', cellsOf_live hd hl, List.take_of_length_le (by simp [hlen]), List.take_of_length_le (by rw [hlen]; exact Nat.le_refl _)]

/-- the array a move constructor builds: same block, same value -/
theorem moveCtor_valid {h : Heap α} {b : Arr} (hv : Valid h b) :
    Valid h (moveCtor b).1 ∧ absArr h (moveCtor b).1 = absArr h b ∧ (moveCtor b).1.numElements = b.numElements ∧ (moveCtor b).1.base = b.base := by
  obtain ⟨hx, hn⟩ := hv.rebuild
  have hnum : (moveCtor b).1.numElements = b.numElements := hn
  refine ⟨⟨⟨b.exts, hv.exts_ok, rfl⟩, ?_⟩, ?_, hnum, rfl⟩
  · rcases hv.store with hz | ⟨x, cs, hb, hl, hlen⟩
    · left; rw [hnum, hz]
    · right; exact ⟨x, cs, hb, hl, by rw [hnum, hlen]⟩
  · apply AbsArr.ext'
    · exact hx
    · show cellsOf h (moveCtor b).1 = cellsOf h b
      unfold cellsOf
      rw [hnum]
      rfl

end Own
end Multi
