/-
  MultiProofs.OwnOps — each operation of MultiModel.Owning that works on whole arrays, as coded, yields a valid array
  with the documented value and touches no block other than its own (helper lemmas for C04 / C06).
-/
import MultiProofs.OwnBasic

namespace Multi
namespace Own
variable {α : Type}

/-- what one operation does from the point of view of the pool: from heap `h` to `h'`, modifying at most the blocks in `M`,
    producing the array `a'` with value `val` whose block is one of `M` or was not live before -/
structure Outcome (h h' : Heap α) (M : Nat → Prop) (a' : Arr) (val : AbsArr α) : Prop where
  frame : Frame h h' M
  ub    : h'.ub = h.ub
  asrt  : h'.asrt = h.asrt
  valid : Valid h' a'
  abs   : absArr h' a' = val
  own   : a'.numElements ≠ 0 → ∀ b, a'.base = some b → (M b ∨ h.blocks.length ≤ b)
  len   : h.blocks.length ≤ h'.blocks.length

theorem not_live_fresh (h : Heap α) (cs : List (Cell α)) : ¬ Live h h.blocks.length cs :=
  fun hl => Nat.lt_irrefl _ hl.lt

theorem alloc_snd (h : Heap α) {n : Int} (hn : n ≠ 0) : (h.alloc n).2 = some h.blocks.length := by rw [alloc_pos h hn]

theorem toNat_ne_zero {n : Int} (h0 : 0 ≤ n) (hn : n ≠ 0) : n.toNat ≠ 0 := by omega

/-- allocate a block for extensions `es`, then initialise it completely with `cells` -/
theorem outcome_fresh {h : Heap α} {es : List Ext} (hes : ExtsOK es) (h2 : Heap α) (cells : List (Cell α))
    (hlen : cells.length = (nElems es).toNat)
    (hz : nElems es = 0 → h2 = h)
    (hnz : nElems es ≠ 0 → h2 = (h.alloc (nElems es)).1.setBlock h.blocks.length (some cells)) :
    Outcome h h2 (fun _ => False) ⟨(h.alloc (nElems es)).2, Layout.ofExts es⟩ ⟨collapse es, cells⟩ := by
  have hne : (⟨(h.alloc (nElems es)).2, Layout.ofExts es⟩ : Arr).numElements = nElems es := ofExts_numElements hes
  by_cases h0 : nElems es = 0
  · have e2 := hz h0
    subst e2
    have hc : cells = [] := by apply List.eq_nil_of_length_eq_zero; rw [hlen, h0]; rfl
    refine ⟨Frame.refl _ _, rfl, rfl, ⟨⟨es, hes, rfl⟩, Or.inl (by rw [hne, h0])⟩, ?_, ?_, Nat.le_refl _⟩
    · apply AbsArr.ext'
      · exact ofExts_exts hes
      · show cellsOf _ _ = cells
        rw [hc]; exact cellsOf_zero (by rw [hne, h0])
    · intro hnz'; exact absurd (by rw [hne, h0]) hnz'
  · have e2 := hnz h0
    subst e2
    have hp := alloc_snd h h0
    have hl1 := alloc_live h h0
    have hl2 := hl1.setBlock_same cells
    refine ⟨?_, ?_, ?_, ⟨⟨es, hes, rfl⟩, Or.inr ⟨h.blocks.length, cells, hp, hl2, by rw [hlen, hne]⟩⟩, ?_, ?_, ?_⟩
    · intro b cs hl _
      have hb : b ≠ h.blocks.length := fun e => not_live_fresh h cs (e ▸ hl)
      exact (alloc_keeps h _ hl).setBlock_other (fun e => hb e.symm) _
    · simp [(alloc_ub h (nElems es)).1]
    · simp [(alloc_ub h (nElems es)).2]
    · apply AbsArr.ext'
      · exact ofExts_exts hes
      · show cellsOf _ _ = cells
        rw [cellsOf_live hp hl2, hne, ← hlen, List.take_length]
    · intro _ b hb
      right
      rw [hp] at hb
      have : h.blocks.length = b := Option.some.inj hb
      omega
    · have := alloc_length h (nElems es)
      simpa [Heap.setBlock] using this

/-! ### constructors -/

/-- value of a freshly constructed `array(extensions)`: value-initialised elements, or indeterminate ones for a trivial `T` -/
def initCell (cfg : Cfg α) : Cell α := if cfg.trivial then none else some cfg.dflt

theorem extsCtor_outcome (cfg : Cfg α) (h : Heap α) {es : List Ext} (hes : ExtsOK es) :
    Outcome h (extsCtor cfg h es).1 (fun _ => False) (extsCtor cfg h es).2
      ⟨collapse es, List.replicate (nElems es).toNat (initCell cfg)⟩ := by
  unfold extsCtor valueConstruct
  simp only [ofExts_numElements hes]
  apply outcome_fresh hes
  · simp
  · intro h0; simp [h0, alloc_zero]
    cases cfg.trivial <;> simp [Heap.fillN]
  · intro h0
    have hl := alloc_live h h0
    rw [alloc_snd h h0]
    unfold initCell
    cases hc : cfg.trivial
    · simp only [Bool.false_eq_true, if_false]
      rw [fillN_live hl _ (by simp)]
      simp
    · simp only [if_true]
      rw [Heap.setBlock_self hl]

theorem fillCtor_outcome (h : Heap α) {es : List Ext} (hes : ExtsOK es) (v : α) :
    Outcome h (fillCtor h es v).1 (fun _ => False) (fillCtor h es v).2
      ⟨collapse es, List.replicate (nElems es).toNat (some v)⟩ := by
  unfold fillCtor
  simp only [ofExts_numElements hes]
  apply outcome_fresh hes
  · simp
  · intro h0; simp [h0, alloc_zero, Heap.fillN]
  · intro h0
    have hl := alloc_live h h0
    rw [alloc_snd h h0, fillN_live hl _ (by simp)]
    simp

/-- copy constructor (and the constructors from an array of another element type): the value of the source -/
theorem copyCtor_outcome (h : Heap α) {other : Arr} (hv : Valid h other) :
    Outcome h (copyCtor h other).1 (fun _ => False) (copyCtor h other).2 (absArr h other) := by
  obtain ⟨hx, hn⟩ := hv.rebuild
  have hok := hv.exts_ok
  have hne : nElems other.exts = other.numElements := hv.nElems_exts
  unfold copyCtor
  simp only [hn]
  rw [← hne]
  have key := @outcome_fresh α h other.exts hok
  have hcl : collapse other.exts = other.exts := by rw [← hx, ofExts_exts hok, collapse_idem]
  have hlen := hv.cells_length
  rw [← hne] at hlen
  have := key ((h.alloc (nElems other.exts)).1.copyN other.base (h.alloc (nElems other.exts)).2 (nElems other.exts).toNat) (cellsOf h other) hlen
  rw [hcl] at this
  apply this
  · intro h0; simp [h0, alloc_zero, Heap.copyN]
  · intro h0
    rcases hv.store with hz | ⟨b, cs, hb, hl, hcs⟩
    · exact absurd (hne ▸ hz) h0
    · have hl1 := alloc_live h h0
      have hls := alloc_keeps h (nElems other.exts) hl
      have hneq : b ≠ h.blocks.length := fun e => not_live_fresh h cs (e ▸ hl)
      rw [alloc_snd h h0, hb, copyN_live hls hl1 hneq _ (by rw [hcs, hne]; exact Nat.le_refl _) (by simp)]
      congr 2
      rw [cellsOf_live hb hl, ← hne]
      simp

theorem rangeCtor_outcome (h : Heap α) (count : Int) (inner : List Ext) (vals : List α)
    (hes : ExtsOK (⟨0, count⟩ :: (if count = 0 then List.replicate inner.length ⟨0, 0⟩ else inner)))
    (hlen : (vals.length : Int) = nElems (⟨0, count⟩ :: (if count = 0 then List.replicate inner.length ⟨0, 0⟩ else inner))) :
    Outcome h (rangeCtor h count inner vals).1 (fun _ => False) (rangeCtor h count inner vals).2
      ⟨collapse (⟨0, count⟩ :: (if count = 0 then List.replicate inner.length ⟨0, 0⟩ else inner)), vals.map some⟩ := by
  unfold rangeCtor
  simp only [ofExts_numElements hes]
  apply outcome_fresh hes
  · simp; omega
  · intro h0
    rw [h0] at hlen
    have : vals = [] := by apply List.eq_nil_of_length_eq_zero; omega
    simp [h0, alloc_zero, this, Heap.writeList]
  · intro h0
    have hl := alloc_live h h0
    rw [alloc_snd h h0, writeList_live hl vals (by simp; omega)]
    congr 2
    have : vals.length = (nElems (⟨0, count⟩ :: (if count = 0 then List.replicate inner.length ⟨0, 0⟩ else inner))).toNat := by omega
    rw [List.drop_of_length_le (by simp; omega)]
    simp

/-! ### release -/

theorem emptyLay_ok (D : Nat) : ExtsOK (List.replicate D ⟨0, 0⟩) := by
  intro e he; rw [List.mem_replicate] at he; rw [he.2]; exact Int.le_refl _

theorem nElems_replicate_zero {D : Nat} (hD : D ≠ 0) : nElems (List.replicate D ⟨0, 0⟩) = 0 := by
  cases D with
  | zero => exact absurd rfl hD
  | succ D => simp [List.replicate_succ, nElems, Ext.size]

theorem emptyLay_numElements {D : Nat} (hD : D ≠ 0) : (emptyLay D).numElements = 0 := by
  unfold emptyLay; rw [ofExts_numElements (emptyLay_ok D), nElems_replicate_zero hD]

theorem collapse_replicate_zero (D : Nat) : collapse (List.replicate D ⟨0, 0⟩) = List.replicate D ⟨0, 0⟩ := by
  induction D with
  | zero => rfl
  | succ D ih => simp [List.replicate_succ, collapse, ih, Ext.size]

theorem emptyLay_exts (D : Nat) : (emptyLay D).exts = List.replicate D ⟨0, 0⟩ := by
  unfold emptyLay; rw [ofExts_exts (emptyLay_ok D), collapse_replicate_zero]

/-- an array with the empty layout is valid whatever its `base_` and denotes the empty value -/
theorem empty_valid (h : Heap α) (p : Option Nat) {D : Nat} (hD : D ≠ 0) :
    Valid h ⟨p, emptyLay D⟩ ∧ absArr h ⟨p, emptyLay D⟩ = ⟨List.replicate D ⟨0, 0⟩, []⟩ := by
  have hz : (⟨p, emptyLay D⟩ : Arr).numElements = 0 := emptyLay_numElements hD
  refine ⟨⟨⟨_, emptyLay_ok D, rfl⟩, Or.inl hz⟩, ?_⟩
  apply AbsArr.ext'
  · exact emptyLay_exts D
  · exact cellsOf_zero hz

/-- `deallocate()`: only the array's own block changes -/
theorem deallocate_frame {h : Heap α} {a : Arr} (hv : Valid h a) :
    Frame h (deallocate h a) (fun b => a.numElements ≠ 0 ∧ a.base = some b) ∧ (deallocate h a).ub = h.ub ∧ (deallocate h a).asrt = h.asrt := by
  unfold deallocate
  by_cases hz : a.numElements = 0
  · simp [hz]; exact Frame.refl _ _
  · simp only [ne_eq, hz, not_false_eq_true, if_true]
    rcases hv.store with h0 | ⟨b, cs, hb, hl, _⟩
    · exact absurd h0 hz
    · rw [hb, dealloc_live hl]
      refine ⟨?_, rfl, rfl⟩
      intro b' cs' hl' hm
      apply hl'.setBlock_other
      intro e; apply hm; exact ⟨trivial, by rw [e]⟩

end Own
end Multi
