/-
  C17 — Serialization round-trips every array exactly; a view saves exactly its own elements in canonical order and
  loads them back into a view of equal extents without touching other elements.

  Property theorems only (helper lemmas: SerArchive, SerWalk).  The model is MultiModel/Serial.lean: one `serialize`
  function per C++ `serialize` member, run on an archive that is either saving or loading, generic in the element
  codec.  The element codec loads *into an existing object*; its law is
  `load prior (enc x ++ rest) = (y, rest)` with `y == x`, for every previous state `prior`.

    * `save_tokens`            what `array::serialize` writes: the reported extensions, then the elements in storage order;
                               saving does not change the array
    * `roundtrip`              load (save a) into b yields a — reported extensions and elements — for every D (0 included),
                               all extents (zero sizes included), every prior state of b, every lawful element codec
    * `codec_lawful`           hence `multi::array<T, D>` is itself a lawful element type: nested arrays of any depth round-trip
    * `view_saves_canonical`   a view saves exactly the elements `v[idx]`, `idx` in canonical order (both overloads)
    * `view_load_exact`        loading into a view of equal extents stores the k-th loaded value in the k-th element and
                               leaves every address outside the view's image unchanged
    * `view_load_touches_only_view`  the frame part for every well-formed view, without assuming distinct element locations
    * `reachable_view_load_exact`, `reachable_view_roundtrip`   the same for every view reachable from an array (C01's
                               `Reach`): well-formedness and distinct locations are discharged by C01 / `reachable_injective`
-/
import MultiProofs.SerArchive
import MultiProofs.SerWalk
import MultiProofs.SerInj

namespace Multi
namespace C17
open Archive

variable {τ α : Type}

/-- what `array::serialize` does on a saving archive: appends the reported extensions and then the elements of the block in
    storage order; the array is unchanged -/
theorem save_tokens (c : Codec τ α) (ci : ICodec τ) (a : Arr α) (out : List τ) :
    a.serialize c ci (saving out) =
      some (saving (out ++ (encExts ci a.lay.exts ++ encItems c (a.data.take a.lay.numElements.toNat))), a) := by
  simp only [Arr.serialize, exts_saving, bind, Option.bind, Arr.resizeStep, neqv_self, Bool.false_eq_true, if_false,
    Arr.flat, items_saving, pure, List.take_append_drop, List.append_assoc]

theorem save_eq (c : Codec τ α) (ci : ICodec τ) (a : Arr α) :
    a.save c ci = encExts ci a.lay.exts ++ encItems c (a.data.take a.lay.numElements.toNat) := by
  simp [Arr.save, save_tokens]

/-- facts that the class invariant gives -/
theorem inv_facts {D : Nat} {ok : α → Prop} {a : Arr α} (h : a.Inv D ok) :
    Valid a.lay.exts ∧ (∀ e ∈ a.lay.exts, e.Normal) ∧ a.lay.exts.length = D ∧
    a.lay.numElements = nElems a.lay.exts ∧ collapse a.lay.exts = a.lay.exts := by
  obtain ⟨⟨es, hlen, hval, hlay⟩, _, _⟩ := h
  obtain ⟨f1, f2, _⟩ := ofExts_facts es hval
  rw [hlay, f1]
  exact ⟨collapse_valid hval, collapse_normal es, by rw [collapse_length, hlen], by rw [f2, nElems_collapse], collapse_idem es⟩

/-- **C17, arrays.**  Saving any array `a` and loading the archive into an array `b` of the same type — whatever `b`'s
    extents and elements were — consumes exactly the saved tokens and leaves `b` equal to `a`: same extensions as the
    library reports them, elementwise equal elements; `b` again satisfies the class invariant.
    `D` ranges over all naturals (0 included), the extents over everything the constructor accepts (zero sizes,
    non-zero index bases), `b` over every state satisfying the class invariant, the element type over every lawful codec. -/
theorem roundtrip (c : Codec τ α) (ci : ICodec τ) (hc : c.Lawful) (hci : ci.Lawful) (D : Nat)
    (a b : Arr α) (ha : a.Inv D c.ok) (hb : b.Inv D c.ok) (rest : List τ) :
    ∃ b', b.load c ci (a.save c ci ++ rest) = some (b', rest) ∧ Arr.Eqv c.eqv b' a ∧ b'.Inv D c.ok := by
  obtain ⟨vA, nA, lA, neA, cA⟩ := inv_facts ha
  obtain ⟨vB, nB, lB, neB, cB⟩ := inv_facts hb
  obtain ⟨⟨esA, _, _, _⟩, dA, okA⟩ := ha
  obtain ⟨⟨esB, hlenB, hvalB, hlayB⟩, dB, okB⟩ := hb
  have htakeA : a.data.take a.lay.numElements.toNat = a.data := by rw [← dA]; exact List.take_length
  -- the state of `b` after the resize step: reported extensions of `a`, as many (valid) elements as `a`
  have key : ∃ b1 : Arr α, b.resizeStep c.dflt a.lay.exts = b1 ∧ b1.lay.exts = a.lay.exts ∧ b1.data.length = a.data.length ∧
      (∀ x ∈ b1.data, c.ok x) ∧ b1.lay.numElements = a.lay.numElements ∧
      (∃ es : List Ext, es.length = D ∧ Valid es ∧ b1.lay = Layout.ofExts es) := by
    refine ⟨_, rfl, ?_⟩
    unfold Arr.resizeStep
    by_cases hne : Exts.neqv b.lay.exts a.lay.exts = true
    · -- clear(); reextent(extensions_)
      rw [if_pos hne]
      have hD : D ≠ 0 := by
        intro h0
        have e1 : b.lay.exts = [] := List.eq_nil_of_length_eq_zero (by omega)
        have e2 : a.lay.exts = [] := List.eq_nil_of_length_eq_zero (by omega)
        rw [e1, e2] at hne; simp [Exts.neqv] at hne
      have hbl : b.lay.length = D := by simpa [Layout.exts] using lB
      obtain ⟨z1, z2, z3⟩ := ofExts_facts (zeros D) (zeros_valid D)
      have hclr : b.clear = ⟨Layout.ofExts (zeros D), []⟩ := by simp [Arr.clear, hbl, zeros]
      rw [hclr]
      unfold Arr.reextent
      simp only
      by_cases heq : Exts.eqv a.lay.exts (Layout.ofExts (zeros D)).exts = true
      · -- every extent of `a` is empty: the cleared array already has these extensions
        rw [if_pos heq]
        rw [z1, collapse_zeros] at heq
        have ez : a.lay.exts = zeros D := eq_of_eqv heq nA (by rw [← collapse_zeros D]; exact collapse_normal _)
        have hn0 : a.lay.numElements = 0 := by rw [neA, ez]; exact nElems_zeros D hD
        refine ⟨by simp only; rw [z1, collapse_zeros, ez], ?_, by simp, ?_, ⟨zeros D, by simp [zeros], zeros_valid D, rfl⟩⟩
        · simp only [List.length_nil]; rw [dA, hn0]; rfl
        · simp only; rw [z2, hn0]; exact nElems_zeros D hD
      · rw [if_neg heq]
        obtain ⟨y1, y2, y3⟩ := ofExts_facts a.lay.exts vA
        refine ⟨by simp only; rw [y1, cA], ?_, ?_, by simp only; rw [y2, neA], ⟨a.lay.exts, lA, vA, rfl⟩⟩
        · simp only [List.length_map]; rw [y1, cA, boxIndices_length _ vA, dA, neA]
        · intro x hx
          simp only [List.mem_map] at hx
          obtain ⟨idx, _, rfl⟩ := hx
          have hget : (⟨Layout.ofExts (zeros D), ([] : List α)⟩ : Arr α).get c.dflt idx = c.dflt := by
            simp only [Arr.get]; split <;> simp
          split
          · rw [hget]; exact hc.dflt_ok
          · exact hc.dflt_ok
    · -- extensions compare equal: `b` keeps its block
      rw [if_neg hne]
      have hne' : Exts.neqv b.lay.exts a.lay.exts = false := by simpa using hne
      have hex : b.lay.exts = a.lay.exts := eq_of_not_neqv hne' nB nA
      have hnum : b.lay.numElements = a.lay.numElements := by rw [neB, neA, hex]
      exact ⟨hex, by rw [dB, dA, hnum], okB, hnum, ⟨esB, hlenB, hvalB, hlayB⟩⟩
  obtain ⟨b1, hb1, e1, l1, ok1, n1, inv1⟩ := key
  have htake1 : b1.data.take b1.lay.numElements.toNat = b1.data := by
    rw [n1, ← dA, ← l1]; exact List.take_length
  have hdrop1 : b1.data.drop b1.lay.numElements.toNat = [] := by
    rw [n1, ← dA, ← l1]; exact List.drop_length
  obtain ⟨ys, hys, hrel, hok⟩ := items_loading c hc a.data b1.data l1 okA ok1 rest
  refine ⟨{ b1 with data := ys }, ?_, ⟨e1, hrel⟩, ?_⟩
  · simp only [Arr.load, Arr.serialize, save_eq, htakeA, List.append_assoc, bind, Option.bind]
    rw [exts_loading ci hci a.lay.exts b.lay.exts (by rw [lA, lB]) (encItems c a.data ++ rest)]
    simp only [hb1, Arr.flat, htake1, hdrop1, bind, Option.bind, hys, pure, List.append_nil]
  · refine ⟨inv1, ?_, hok⟩
    simp only
    rw [n1, ← dA]; exact allRel_length hrel

/-- `multi::array<T, D>` is a lawful element type whenever `T` is: arrays of arrays (of arrays …) round-trip. -/
theorem codec_lawful (c : Codec τ α) (ci : ICodec τ) (hc : c.Lawful) (hci : ci.Lawful) (D : Nat) :
    (Arr.codec D c ci).Lawful where
  dflt_ok := by
    obtain ⟨z1, z2, z3⟩ := ofExts_facts (zeros D) (zeros_valid D)
    refine ⟨⟨zeros D, by simp [zeros], zeros_valid D, rfl⟩, ?_, ?_⟩
    · simp only [Arr.codec, Arr.dflt]
      show (if D = 0 then [c.dflt] else []).length = (Layout.ofExts (zeros D)).numElements.toNat
      rw [z2]
      by_cases h : D = 0
      · subst h; simp [zeros, nElems]
      · rw [if_neg h, nElems_zeros D h]; rfl
    · intro x hx
      simp only [Arr.codec, Arr.dflt] at hx
      by_cases h : D = 0
      · rw [if_pos h] at hx; simp at hx; rw [hx]; exact hc.dflt_ok
      · rw [if_neg h] at hx; simp at hx
  law := fun prior x rest hp hx => roundtrip c ci hc hci D x prior hx hp rest

/-! ### views -/

theorem write_self (m : Mem α) (p : Int) : m.write p (m p) = m := by
  funext q; simp only [Mem.write]; split
  · rename_i h; rw [h]
  · rfl

theorem serializeAt_saving (c : Codec τ α) (m : Mem α) : ∀ (ps : List Int) (out : List τ),
    View.serializeAt c (saving out) m ps = some (saving (out ++ encItems c (ps.map m)), m)
  | [], out => by simp [View.serializeAt, encItems]
  | p :: ps, out => by
    simp only [View.serializeAt, Archive.amp, bind, Option.bind, write_self, serializeAt_saving c m ps, List.map_cons, encItems,
      List.append_assoc]

theorem serializeAt_loading (c : Codec τ α) (hc : c.Lawful) : ∀ (ps : List Int) (xs : List α) (m : Mem α),
    ps.length = xs.length → ps.Nodup → (∀ p ∈ ps, c.ok (m p)) → (∀ x ∈ xs, c.ok x) → ∀ (rest : List τ),
    ∃ m', View.serializeAt c (loading (encItems c xs ++ rest)) m ps = some (loading rest, m') ∧
      (∀ p, p ∉ ps → m' p = m p) ∧ AllRel c.eqv (ps.map m') xs ∧ ∀ p ∈ ps, c.ok (m' p)
  | [], [], m, _, _, _, _, rest => ⟨m, by simp [View.serializeAt, encItems], fun _ _ => rfl, trivial, by simp⟩
  | [], _ :: _, _, h, _, _, _, _ => by simp at h
  | _ :: _, [], _, h, _, _, _, _ => by simp at h
  | p :: ps, x :: xs, m, hlen, hnd, hm, hx, rest => by
    obtain ⟨y, hy, hyx, hyok⟩ := hc.law (m p) x (encItems c xs ++ rest) (hm p (by simp)) (hx x (by simp))
    have hp : p ∉ ps := (List.nodup_cons.mp hnd).1
    have hm1 : ∀ q ∈ ps, c.ok ((m.write p y) q) := by
      intro q hq
      have : q ≠ p := fun e => hp (e ▸ hq)
      simp only [Mem.write, this, if_false]; exact hm q (List.mem_cons_of_mem _ hq)
    obtain ⟨m', hm', hout, hrel, hok⟩ := serializeAt_loading c hc ps xs (m.write p y) (by simpa using hlen) (List.nodup_cons.mp hnd).2 hm1
      (fun z hz => hx z (List.mem_cons_of_mem _ hz)) rest
    have hmp : m' p = y := by rw [hout p hp]; simp [Mem.write]
    refine ⟨m', ?_, ?_, ⟨by rw [hmp]; exact hyx, hrel⟩, ?_⟩
    · simp only [View.serializeAt, Archive.amp, encItems, List.append_assoc, bind, Option.bind]
      rw [hy]; simp only [Option.map]; exact hm'
    · intro q hq
      have h1 : q ≠ p := fun e => hq (e ▸ List.mem_cons_self)
      have h2 : q ∉ ps := fun h => hq (List.mem_cons_of_mem _ h)
      rw [hout q h2]; simp [Mem.write, h1]
    · intro q hq
      rcases List.mem_cons.mp hq with h | h
      · rw [h, hmp]; exact hyok
      · exact hok q h

/-- without any distinctness assumption (overlapping or broadcast views included): a load touches only the visited addresses -/
theorem serializeAt_loading_frame (c : Codec τ α) (hc : c.Lawful) : ∀ (ps : List Int) (xs : List α) (m : Mem α),
    ps.length = xs.length → (∀ p ∈ ps, c.ok (m p)) → (∀ x ∈ xs, c.ok x) → ∀ (rest : List τ),
    ∃ m', View.serializeAt c (loading (encItems c xs ++ rest)) m ps = some (loading rest, m') ∧ (∀ p, p ∉ ps → m' p = m p)
  | [], [], m, _, _, _, rest => ⟨m, by simp [View.serializeAt, encItems], fun _ _ => rfl⟩
  | [], _ :: _, _, h, _, _, _ => by simp at h
  | _ :: _, [], _, h, _, _, _ => by simp at h
  | p :: ps, x :: xs, m, hlen, hm, hx, rest => by
    obtain ⟨y, hy, _, hyok⟩ := hc.law (m p) x (encItems c xs ++ rest) (hm p (by simp)) (hx x (by simp))
    have hm1 : ∀ q ∈ ps, c.ok ((m.write p y) q) := by
      intro q hq
      simp only [Mem.write]; split
      · exact hyok
      · exact hm q (List.mem_cons_of_mem _ hq)
    obtain ⟨m', hm', hout⟩ := serializeAt_loading_frame c hc ps xs (m.write p y) (by simpa using hlen) hm1
      (fun z hz => hx z (List.mem_cons_of_mem _ hz)) rest
    refine ⟨m', ?_, ?_⟩
    · simp only [View.serializeAt, Archive.amp, encItems, List.append_assoc, bind, Option.bind]
      rw [hy]; simp only [Option.map]; exact hm'
    · intro q hq
      have h1 : q ≠ p := fun e => hq (e ▸ List.mem_cons_self)
      have h2 : q ∉ ps := fun h => hq (List.mem_cons_of_mem _ h)
      rw [hout q h2]; simp [Mem.write, h1]

/-- **C17, views (saving).**  A view (of any dimensionality, through either `serialize` overload) saves exactly its own
    elements `v[idx]`, `idx` running over the view's index box in canonical order — no other token — and saving does not
    change the memory. -/
theorem view_saves_canonical (c : Codec τ α) (k : ViewKind) (v : View) (hwf : v.lay.WF) (m : Mem α) (out : List τ) :
    v.serialize c k (saving out) m =
      some (saving (out ++ encItems c ((boxIndices v.exts).map fun idx => m (v.addr idx))), m) ∧
    v.save c k m = some (encItems c ((boxIndices v.exts).map fun idx => m (v.addr idx))) := by
  have hps : v.serialAddrs k = some (canonAddrs v) := by rw [serialAddrs_canonical v hwf k, canonAddrs, canon_addrs v hwf]
  have h1 : ∀ out, v.serialize c k (saving out) m =
      some (saving (out ++ encItems c ((boxIndices v.exts).map fun idx => m (v.addr idx))), m) := by
    intro out
    simp only [View.serialize, hps, bind, Option.bind, serializeAt_saving, canonAddrs, List.map_map]
    rfl
  exact ⟨h1 out, by simp [View.save, h1]⟩

/-- **C17, views (loading).**  Loading `N = num_elements` values into a view whose elements are pairwise distinct
    storage locations consumes exactly their tokens, stores the k-th value in the k-th element (canonical order), and
    leaves every address that is not an element of the view unchanged. -/
theorem view_load_exact (c : Codec τ α) (hc : c.Lawful) (k : ViewKind) (v : View) (hwf : v.lay.WF) (m : Mem α)
    (xs : List α) (hlen : xs.length = (boxIndices v.exts).length) (hinj : (canonAddrs v).Nodup)
    (hm : ∀ p ∈ canonAddrs v, c.ok (m p)) (hx : ∀ x ∈ xs, c.ok x) (rest : List τ) :
    ∃ m', v.load c k m (encItems c xs ++ rest) = some (m', rest) ∧
      (∀ p, p ∉ canonAddrs v → m' p = m p) ∧
      AllRel c.eqv ((boxIndices v.exts).map fun idx => m' (v.addr idx)) xs := by
  have hps : v.serialAddrs k = some (canonAddrs v) := by rw [serialAddrs_canonical v hwf k, canonAddrs, canon_addrs v hwf]
  obtain ⟨m', h1, h2, h3, _⟩ := serializeAt_loading c hc (canonAddrs v) xs m (by simp [canonAddrs, hlen]) hinj hm hx rest
  refine ⟨m', ?_, h2, ?_⟩
  · simp only [View.load, View.serialize, hps, bind, Option.bind, h1]
  · simp only [canonAddrs, List.map_map] at h3; exact h3

/-- **C17, views (loading), frame part at full strength**: for *every* well-formed view — elements distinct or not —
    loading as many values as the view has elements succeeds, consumes exactly their tokens and leaves every address
    that is not an element of the view unchanged. -/
theorem view_load_touches_only_view (c : Codec τ α) (hc : c.Lawful) (k : ViewKind) (v : View) (hwf : v.lay.WF) (m : Mem α)
    (xs : List α) (hlen : xs.length = (boxIndices v.exts).length)
    (hm : ∀ p ∈ canonAddrs v, c.ok (m p)) (hx : ∀ x ∈ xs, c.ok x) (rest : List τ) :
    ∃ m', v.load c k m (encItems c xs ++ rest) = some (m', rest) ∧ ∀ p, p ∉ canonAddrs v → m' p = m p := by
  have hps : v.serialAddrs k = some (canonAddrs v) := by rw [serialAddrs_canonical v hwf k, canonAddrs, canon_addrs v hwf]
  obtain ⟨m', h1, h2⟩ := serializeAt_loading_frame c hc (canonAddrs v) xs m (by simp [canonAddrs, hlen]) hm hx rest
  exact ⟨m', by simp only [View.load, View.serialize, hps, bind, Option.bind, h1], h2⟩

theorem allRel_map {β : Type} (r : α → α → Prop) (f g : β → α) : ∀ (l : List β), AllRel r (l.map f) (l.map g) ↔ ∀ x ∈ l, r (f x) (g x)
  | [] => by simp [AllRel]
  | x :: l => by simp [AllRel, allRel_map r f g l]

theorem allRel_trans_eq {r : α → α → Prop} : ∀ {xs ys : List α}, AllRel r xs ys → ∀ {zs}, ys = zs → AllRel r xs zs
  | _, _, h, _, rfl => h

/-- Corollary: what a view `w` saved, loaded into a view `v` of equal extents, makes `v[idx] == w[idx]` at every index
    tuple, and touches nothing but the elements of `v`. -/
theorem view_roundtrip (c : Codec τ α) (hc : c.Lawful) (kw kv : ViewKind) (w v : View) (hw : w.lay.WF) (hv : v.lay.WF)
    (hext : v.exts = w.exts) (mw m : Mem α) (hinj : (canonAddrs v).Nodup)
    (hm : ∀ p ∈ canonAddrs v, c.ok (m p)) (hmw : ∀ p ∈ canonAddrs w, c.ok (mw p)) (rest : List τ) :
    ∃ toks m', w.save c kw mw = some toks ∧ v.load c kv m (toks ++ rest) = some (m', rest) ∧
      (∀ p, p ∉ canonAddrs v → m' p = m p) ∧
      ∀ idx ∈ boxIndices v.exts, c.eqv (m' (v.addr idx)) (mw (w.addr idx)) := by
  obtain ⟨_, hsave⟩ := view_saves_canonical c kw w hw mw []
  have hx : ∀ x ∈ (boxIndices w.exts).map (fun idx => mw (w.addr idx)), c.ok x := by
    intro x hx
    simp only [List.mem_map] at hx
    obtain ⟨idx, hidx, rfl⟩ := hx
    exact hmw _ (by simp only [canonAddrs, List.mem_map]; exact ⟨idx, hidx, rfl⟩)
  obtain ⟨m', h1, h2, h3⟩ := view_load_exact c hc kv v hv m _ (by simp [hext]) hinj hm hx rest
  refine ⟨_, m', hsave, h1, h2, ?_⟩
  rw [← hext] at h3
  exact (allRel_map c.eqv _ _ _).mp h3

/-! ### views reachable from an array: the distinct-locations hypothesis is discharged by C01 -/

/-- `view_load_exact` for every view obtained from an array by any finite sequence of in-domain view operations
    (C01's `Reach`): well-formedness and pairwise distinct element locations follow from `C01.reachable_denotes` and
    `reachable_injective`, so no hypothesis about the view remains. -/
theorem reachable_view_load_exact (c : Codec τ α) (hc : c.Lawful) (k : ViewKind)
    (base : Int) (es : List Ext) (hes : ∀ e ∈ es, e.first ≤ e.last) (v : View) (den : Den)
    (hreach : Reach ⟨base, Layout.ofExts es⟩ v den) (m : Mem α)
    (xs : List α) (hlen : xs.length = (boxIndices v.exts).length)
    (hm : ∀ p ∈ canonAddrs v, c.ok (m p)) (hx : ∀ x ∈ xs, c.ok x) (rest : List τ) :
    ∃ m', v.load c k m (encItems c xs ++ rest) = some (m', rest) ∧
      (∀ p, p ∉ canonAddrs v → m' p = m p) ∧
      AllRel c.eqv ((boxIndices v.exts).map fun idx => m' (v.addr idx)) xs :=
  view_load_exact c hc k v (reachable_wf base es hes v den hreach) m xs hlen
    (reachable_canonAddrs_nodup base es hes v den hreach) hm hx rest

/-- `view_roundtrip` for reachable views: `w` (any well-formed view) saved, loaded into a reachable view `v` of equal
    extents: `v[idx] == w[idx]` everywhere, nothing else touched. -/
theorem reachable_view_roundtrip (c : Codec τ α) (hc : c.Lawful) (kw kv : ViewKind)
    (bw : Int) (esw : List Ext) (hesw : ∀ e ∈ esw, e.first ≤ e.last) (w : View) (denw : Den)
    (hrw : Reach ⟨bw, Layout.ofExts esw⟩ w denw)
    (bv : Int) (esv : List Ext) (hesv : ∀ e ∈ esv, e.first ≤ e.last) (v : View) (denv : Den)
    (hrv : Reach ⟨bv, Layout.ofExts esv⟩ v denv)
    (hext : v.exts = w.exts) (mw m : Mem α)
    (hm : ∀ p ∈ canonAddrs v, c.ok (m p)) (hmw : ∀ p ∈ canonAddrs w, c.ok (mw p)) (rest : List τ) :
    ∃ toks m', w.save c kw mw = some toks ∧ v.load c kv m (toks ++ rest) = some (m', rest) ∧
      (∀ p, p ∉ canonAddrs v → m' p = m p) ∧
      ∀ idx ∈ boxIndices v.exts, c.eqv (m' (v.addr idx)) (mw (w.addr idx)) :=
  view_roundtrip c hc kw kv w v (reachable_wf bw esw hesw w denw hrw) (reachable_wf bv esv hesv v denv hrv) hext mw m
    (reachable_canonAddrs_nodup bv esv hesv v denv hrv) hm hmw rest

/-! ### non-vacuity -/

theorem icodec_lawful : Tok.icodec.Lawful := fun _ _ => rfl

theorem intCodec_lawful : Tok.intCodec.Lawful where
  dflt_ok := trivial
  law := fun _ x rest _ _ => ⟨x, rfl, rfl, trivial⟩

theorem strCodec_lawful : Tok.strCodec.Lawful where
  dflt_ok := trivial
  law := fun _ x rest _ _ => by
    refine ⟨x, ?_, rfl, trivial⟩
    by_cases h : x.length = 0
    · have : x = "" := String.length_eq_zero_iff.mp h
      subst this; simp [Tok.strCodec]
    · have h' : x ≠ "" := fun e => h (String.length_eq_zero_iff.mpr e)
      simp [Tok.strCodec, h, h']

/-- a 2-D array of 1-D arrays of strings round-trips -/
example : (Arr.codec 2 (Arr.codec 1 Tok.strCodec Tok.icodec) Tok.icodec).Lawful :=
  codec_lawful _ _ (codec_lawful _ _ strCodec_lawful icodec_lawful 1) icodec_lawful 2

/-- a concrete 2×3 array and a 1×0 loading array satisfy the hypotheses of `roundtrip` -/
example : (Arr.ofExts [⟨0, 2⟩, ⟨0, 3⟩] [10, 11, 12, 13, 14, 15]).Inv 2 Tok.intCodec.ok ∧
    (Arr.ofExts [⟨5, 6⟩, ⟨1, 1⟩] ([] : List Int)).Inv 2 Tok.intCodec.ok := by
  refine ⟨⟨⟨_, rfl, by decide, rfl⟩, by decide, fun _ _ => trivial⟩, ⟨⟨_, rfl, by decide, rfl⟩, by decide, fun _ _ => trivial⟩⟩

/-- the token list of the protocol example (`0 2 0 3 10 11 12 13 14 15`) -/
example : (Arr.ofExts [⟨0, 2⟩, ⟨0, 3⟩] [10, 11, 12, 13, 14, 15]).save Tok.intCodec Tok.icodec =
    [0, 2, 0, 3, 10, 11, 12, 13, 14, 15].map Tok.int := by decide

end C17
end Multi
