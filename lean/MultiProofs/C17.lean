import MultiModel.Serial
namespace Multi
namespace C17
end C17
end Multi
