/-
  MultiProofs.StoreSpec — what C05 / C07 / C03 say about element storage, independently of how the library's loops
  compute it: the image of a view, injectivity / disjointness, the nested-sequence denotation of a view and the
  lexicographic order on it.
-/
import MultiModel.Store
import MultiProofs.Basic

namespace Multi

/-! ### images -/

/-- `a` is the address of one of `v`'s elements -/
def View.InImage (v : View) (a : Int) : Prop := ∃ idx, InBox v.exts idx ∧ v.addr idx = a

/-- distinct index tuples designate distinct elements (true of every view reachable without `broadcasted`) -/
def View.Injective (v : View) : Prop :=
  ∀ i j, InBox v.exts i → InBox v.exts j → v.addr i = v.addr j → i = j

/-- the two views have no element in common -/
def View.Disjoint (v w : View) : Prop :=
  ∀ i j, InBox v.exts i → InBox w.exts j → v.addr i ≠ w.addr j

/-- the addresses an elements iterator visits in `n` steps of `++` (all `n` increments are performed, as in the
    library's loops; `none` if one of them is) -/
def ElemIt.addrs : Nat → ElemIt → Option (List Int)
  | 0, _ => some []
  | n + 1, it => do
    let it' ← it.inc
    let rest ← addrs n it'
    pure (it.current :: rest)

/-- all extensions start at 0 (C07's quantifier: "zero-based arrays/views") -/
def Layout.ZeroBased (l : Layout) : Prop := ∀ d ∈ l, d.ext.first = 0

/-! ### the value a view denotes: a sequence of sequences … of elements -/

/-- `n`-fold nested sequences of `α` -/
def NestedN (α : Type) : Nat → Type
  | 0 => α
  | n + 1 => List (NestedN α n)

/-- the value of the view `(l, base)` of dimensionality `n`: the sequence, over the leading index `i` in the leading
    extension, of the values of the sub-views `v[i]` (array_ref.hpp `operator[]`: base + (i*stride − offset)) -/
def toNested (m : Mem α) : (n : Nat) → Layout → Int → NestedN α n
  | 0, _, b => m b
  | _ + 1, [], _ => ([] : List _)
  | n + 1, d :: sub, b =>
    (List.range d.ext.size.toNat).map fun (k : Nat) =>
      toNested m n sub (b + ((d.ext.first + Int.ofNat k) * d.stride - d.offset))

/-- lexicographic order on sequences: a proper prefix is smaller -/
def listLex (r : β → β → Bool) : List β → List β → Bool
  | [], [] => false
  | [], _ :: _ => true
  | _ :: _, [] => false
  | x :: xs, y :: ys => if r x y then true else if r y x then false else listLex r xs ys

/-- lexicographic order over the leading dimension, recursively -/
def lexN (lt : α → α → Bool) : (n : Nat) → NestedN α n → NestedN α n → Bool
  | 0, x, y => lt x y
  | n + 1, xs, ys => listLex (lexN lt n) xs ys

/-- a strict total order given as a Boolean relation -/
structure StrictTotal (r : β → β → Bool) : Prop where
  irrefl : ∀ x, r x x = false
  trans : ∀ x y z, r x y = true → r y z = true → r x z = true
  total : ∀ x y, r x y = false → r y x = false → x = y

end Multi
