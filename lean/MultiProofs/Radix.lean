/-
  MultiProofs.Radix — mixed-radix facts about `extensions_t::from_linear / to_linear / next_canonical /
  prev_canonical` on zero-based extensions with positive sizes.
-/
import MultiProofs.C02a

namespace Multi

/-- zero-based extensions with the given sizes -/
def zexts (szs : List Int) : List Ext := szs.map fun n => ⟨0, n⟩

def prodSizes : List Int → Int
  | [] => 1
  | n :: ns => n * prodSizes ns

def AllPos (szs : List Int) : Prop := ∀ n ∈ szs, 0 < n

instance (szs : List Int) : Decidable (AllPos szs) := inferInstanceAs (Decidable (∀ n ∈ szs, 0 < n))

theorem AllPos.tail {n : Int} {ns : List Int} (h : AllPos (n :: ns)) : AllPos ns :=
  fun x hx => h x (List.mem_cons_of_mem _ hx)
theorem AllPos.head {n : Int} {ns : List Int} (h : AllPos (n :: ns)) : 0 < n := h n (by simp)

theorem prodSizes_pos {szs : List Int} (h : AllPos szs) : 0 < prodSizes szs := by
  induction szs with
  | nil => simp [prodSizes]
  | cons n ns ih => exact Int.mul_pos h.head (ih h.tail)

theorem numElements_zexts (szs : List Int) : Exts.numElements (zexts szs) = prodSizes szs := by
  induction szs with
  | nil => rfl
  | cons n ns ih => simp only [zexts, List.map_cons, Exts.numElements, prodSizes, Ext.size] at ih ⊢; rw [ih]; simp

/-- positions: one index per dimension, `0 ≤ pₖ < nₖ` -/
def InPos : List Int → List Int → Prop
  | [], [] => True
  | n :: ns, p :: ps => (0 ≤ p ∧ p < n) ∧ InPos ns ps
  | _, _ => False

def zerosLike (szs : List Int) : List Int := szs.map fun _ => 0

theorem zexts_cons (n : Int) (ns : List Int) : zexts (n :: ns) = ⟨0, n⟩ :: zexts ns := rfl

/-- `to_linear` of positions lies in `[0, Π sizes)` -/
theorem toLinear_range {szs ps : List Int} (hp : AllPos szs) (h : InPos szs ps) :
    0 ≤ Exts.toLinear (zexts szs) ps ∧ Exts.toLinear (zexts szs) ps < prodSizes szs := by
  induction szs generalizing ps with
  | nil => cases ps <;> simp_all [InPos, Exts.toLinear, zexts, prodSizes]
  | cons n ns ih =>
    cases ps with
    | nil => simp [InPos] at h
    | cons p ps =>
      obtain ⟨⟨h0, h1⟩, h2⟩ := h
      cases ns with
      | nil =>
        cases ps with
        | nil => simp [Exts.toLinear, zexts, prodSizes]; omega
        | cons _ _ => simp [InPos] at h2
      | cons m ms =>
        obtain ⟨i0, i1⟩ := ih hp.tail h2
        have hM := prodSizes_pos hp.tail
        have e : Exts.toLinear (zexts (n :: m :: ms)) (p :: ps)
            = p * prodSizes (m :: ms) + Exts.toLinear (zexts (m :: ms)) ps := by
          simp only [zexts, List.map_cons, Exts.toLinear]
          have := numElements_zexts (m :: ms)
          simp only [zexts, List.map_cons] at this
          rw [this]
        rw [e]
        have a0 : 0 ≤ p * prodSizes (m :: ms) := Int.mul_nonneg h0 (Int.le_of_lt hM)
        have a1 : p * prodSizes (m :: ms) ≤ (n - 1) * prodSizes (m :: ms) :=
          Int.mul_le_mul_of_nonneg_right (by omega) (Int.le_of_lt hM)
        have a2 : (n - 1) * prodSizes (m :: ms) = n * prodSizes (m :: ms) - prodSizes (m :: ms) := by
          rw [Int.sub_mul]; simp
        simp only [prodSizes] at a0 a1 a2 i1 ⊢
        omega

theorem toLinear_cons2 (n m : Int) (ms : List Int) (p : Int) (ps : List Int) :
    Exts.toLinear (zexts (n :: m :: ms)) (p :: ps)
      = p * prodSizes (m :: ms) + Exts.toLinear (zexts (m :: ms)) ps := by
  simp only [zexts, List.map_cons, Exts.toLinear]
  have := numElements_zexts (m :: ms)
  simp only [zexts, List.map_cons] at this
  rw [this]

theorem fromLinear_cons2 (n m : Int) (ms : List Int) (k : Int) :
    Exts.fromLinear (zexts (n :: m :: ms)) k
      = if prodSizes (m :: ms) = 0 then none
        else (Exts.fromLinear (zexts (m :: ms)) (k.tmod (prodSizes (m :: ms)))).map
          fun r => k.tdiv (prodSizes (m :: ms)) :: r := by
  simp only [zexts, List.map_cons, Exts.fromLinear]
  have := numElements_zexts (m :: ms)
  simp only [zexts, List.map_cons] at this
  rw [this]

/-- `from_linear (to_linear p) = p` -/
theorem fromLinear_toLinear {szs ps : List Int} (hp : AllPos szs) (h : InPos szs ps) :
    Exts.fromLinear (zexts szs) (Exts.toLinear (zexts szs) ps) = some ps := by
  induction szs generalizing ps with
  | nil => cases ps <;> simp_all [InPos, Exts.fromLinear, zexts]
  | cons n ns ih =>
    cases ps with
    | nil => simp [InPos] at h
    | cons p ps =>
      obtain ⟨⟨h0, h1⟩, h2⟩ := h
      cases ns with
      | nil =>
        cases ps with
        | nil => simp [Exts.toLinear, Exts.fromLinear, zexts]
        | cons _ _ => simp [InPos] at h2
      | cons m ms =>
        have hM := prodSizes_pos hp.tail
        obtain ⟨t0, t1⟩ := toLinear_range hp.tail h2
        rw [toLinear_cons2, fromLinear_cons2]
        have hM0 : prodSizes (m :: ms) ≠ 0 := by omega
        simp only [hM0, if_false]
        have hk0 : 0 ≤ p * prodSizes (m :: ms) + Exts.toLinear (zexts (m :: ms)) ps := by
          have := Int.mul_nonneg h0 (Int.le_of_lt hM); omega
        rw [Int.tdiv_eq_ediv_of_nonneg hk0, Int.tmod_eq_emod_of_nonneg hk0]
        have e1 : (p * prodSizes (m :: ms) + Exts.toLinear (zexts (m :: ms)) ps) % prodSizes (m :: ms)
            = Exts.toLinear (zexts (m :: ms)) ps := by
          rw [Int.add_comm, Int.add_mul_emod_self_right]; exact Int.emod_eq_of_lt t0 t1
        have e2 : (p * prodSizes (m :: ms) + Exts.toLinear (zexts (m :: ms)) ps) / prodSizes (m :: ms) = p := by
          rw [Int.add_comm, Int.add_mul_ediv_right _ _ hM0, Int.ediv_eq_zero_of_lt t0 t1]; simp
        rw [e1, e2, ih hp.tail h2]; rfl

/-- `from_linear k` for `0 ≤ k < Π sizes` is a position tuple whose `to_linear` is `k` -/
theorem fromLinear_spec {szs : List Int} (hp : AllPos szs) (hne : szs ≠ []) (k : Int) (h0 : 0 ≤ k) (h1 : k < prodSizes szs) :
    ∃ ps, Exts.fromLinear (zexts szs) k = some ps ∧ InPos szs ps ∧ Exts.toLinear (zexts szs) ps = k := by
  induction szs generalizing k with
  | nil => exact absurd rfl hne
  | cons n ns ih =>
    cases ns with
    | nil =>
      refine ⟨[k], by simp [Exts.fromLinear, zexts], ?_, by simp [Exts.toLinear, zexts]⟩
      simp [InPos, prodSizes] at h1 ⊢; omega
    | cons m ms =>
      have hM := prodSizes_pos hp.tail
      have hM0 : prodSizes (m :: ms) ≠ 0 := by omega
      have hr0 : 0 ≤ k % prodSizes (m :: ms) := Int.emod_nonneg k hM0
      have hr1 : k % prodSizes (m :: ms) < prodSizes (m :: ms) := Int.emod_lt_of_pos k hM
      obtain ⟨ps, e1, e2, e3⟩ := ih hp.tail (by simp) _ hr0 hr1
      have hq0 : 0 ≤ k / prodSizes (m :: ms) := Int.ediv_nonneg h0 (Int.le_of_lt hM)
      have hq1 : k / prodSizes (m :: ms) < n := by
        apply Int.ediv_lt_of_lt_mul hM; simpa [prodSizes] using h1
      refine ⟨k / prodSizes (m :: ms) :: ps, ?_, ⟨⟨hq0, hq1⟩, e2⟩, ?_⟩
      · rw [fromLinear_cons2]; simp only [hM0, if_false]
        rw [Int.tdiv_eq_ediv_of_nonneg h0, Int.tmod_eq_emod_of_nonneg h0, e1]; rfl
      · rw [toLinear_cons2, e3]
        have := Int.mul_ediv_add_emod k (prodSizes (m :: ms))
        rw [Int.mul_comm] at this; exact this

end Multi
