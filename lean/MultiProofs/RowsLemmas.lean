/-
  MultiProofs.RowsLemmas — helper lemmas for C05's `assign_rows_exact` / `assign_range_rows_exact`: the loops
  `View.rowsLoop` / `View.rangeRowsLoop` (`adl_copy_n(values.begin(), values.size(), begin())`, each `*it = row` a deep
  assignment of a saved row) store the given rows one after the other, through the row interface of SeqLemmas.
-/
import MultiProofs.SeqLemmas

namespace Multi
variable {α : Type}

/-- the common shape of `rowsLoop` / `rangeRowsLoop`: `*it = row; ++it;` with `step` the row assignment -/
def stepLoop (step : View → List α → Mem α → Option (Mem α)) : List (List α) → ArrIt → Mem α → Option (Mem α)
  | [], _, m => some m
  | r :: rs, it, m =>
    match step it.deref r m with
    | none => none
    | some m' => stepLoop step rs it.inc m'

theorem rowsLoop_eq_stepLoop (rows : List (List α)) (it : ArrIt) (m : Mem α) :
    View.rowsLoop rows it m = stepLoop (fun r x m => (ElemRange.ofView r).assignVals x m) rows it m := by
  induction rows generalizing it m with
  | nil => rfl
  | cons r rs ih =>
    simp only [View.rowsLoop, stepLoop]
    cases (ElemRange.ofView it.deref).assignVals r m with
    | none => rfl
    | some m' => exact ih _ _

theorem rangeRowsLoop_eq_stepLoop (rows : List (List α)) (it : ArrIt) (m : Mem α) :
    View.rangeRowsLoop rows it m = stepLoop (fun r x m => r.assignVals1 x m) rows it m := by
  induction rows generalizing it m with
  | nil => rfl
  | cons r rs ih =>
    simp only [View.rangeRowsLoop, stepLoop]
    cases it.deref.assignVals1 r m with
    | none => rfl
    | some m' => exact ih _ _

/-- storing `rows` from position `pre.length` on replaces the block `mid` of the row sequence and nothing else -/
theorem stepLoop_spec (v : View) (hwf : v.lay.WF) (hne : v.lay ≠ []) (hinj : v.Injective)
    (step : View → List α → Mem α → Option (Mem α))
    (hstep : ∀ (k : Int) (r : List α) (m : Mem α), 0 ≤ k → k < v.ext.size →
      r.length = (boxIndices v.exts.tail).length → step (v.rowAt k) r m = (v.rowAt k).writeRow r m)
    (rows : List (List α)) (hrow : ∀ r ∈ rows, r.length = (boxIndices v.exts.tail).length)
    (pre mid post : List (List α)) (m : Mem α) (hS : rowsVal v m = pre ++ mid ++ post)
    (hmid : mid.length = rows.length) :
    ∃ m', stepLoop step rows (v.begin'.add pre.length) m = some m' ∧ rowsVal v m' = pre ++ rows ++ post ∧
      ∀ a, ¬ v.InImage a → m' a = m a := by
  induction rows generalizing pre mid m with
  | nil =>
    have : mid = [] := List.eq_nil_of_length_eq_zero (by simpa using hmid)
    subst this
    exact ⟨m, rfl, by simpa using hS, fun _ _ => rfl⟩
  | cons r rs ih =>
    cases mid with
    | nil => simp at hmid
    | cons y mid' =>
      have hS' : rowsVal v m = pre ++ y :: (mid' ++ post) := by rw [hS]; simp
      have hn : Prog.nth (rowsVal v m) (pre.length : Int) = some y := by
        rw [hS']; exact Prog.nth_append_length _ _ _ _ rfl
      obtain ⟨h0, h1, _, _⟩ := nth_rowsVal hn
      have hr : r.length = (boxIndices v.exts.tail).length := hrow r (by simp)
      obtain ⟨m1, w1, w2, w3⟩ := (rows_refines v hwf hne hinj).wr m pre.length r y hn hr
      have w1' : (v.rowAt pre.length).writeRow r m = some m1 := w1
      have hinc : (v.begin'.add (pre.length : Int)).inc = v.begin'.add ((pre ++ [r]).length : Int) := by
        rw [(arrit_inc_eq_add _).1, arrit_add_add]; simp
      have hS1 : rowsVal v m1 = (pre ++ [r]) ++ mid' ++ post := by
        rw [w2, hS', Prog.setNth_append_length _ _ _ _ _ rfl]; simp
      obtain ⟨m', e1, e2, e3⟩ := ih (fun x hx => hrow x (List.mem_cons_of_mem _ hx)) (pre ++ [r]) mid' m1 hS1
        (by simpa using hmid)
      refine ⟨m', ?_, by rw [e2]; simp, fun a ha => (e3 a ha).trans (w3 a ha)⟩
      rw [stepLoop]
      have : (v.begin'.add (pre.length : Int)).deref = v.rowAt pre.length := rfl
      rw [this, hstep _ r m h0 h1 hr, w1']
      simp only [hinc]
      exact e1

/-- storing a full set of rows from `begin()`: the view then denotes exactly `rows` -/
theorem stepLoop_all (v : View) (hwf : v.lay.WF) (hne : v.lay ≠ []) (hinj : v.Injective)
    (step : View → List α → Mem α → Option (Mem α))
    (hstep : ∀ (k : Int) (r : List α) (m : Mem α), 0 ≤ k → k < v.ext.size →
      r.length = (boxIndices v.exts.tail).length → step (v.rowAt k) r m = (v.rowAt k).writeRow r m)
    (rows : List (List α)) (m : Mem α) (hlen : (rows.length : Int) = v.size)
    (hrow : ∀ r ∈ rows, r.length = (boxIndices v.exts.tail).length) :
    ∃ m', stepLoop step rows v.begin' m = some m' ∧ rowsVal v m' = rows ∧
      (∀ (k : Nat) (hk : k < rows.length) (j : Nat) (_ : j < (boxIndices v.exts.tail).length) (hj' : j < rows[k].length),
        m' (v.addr ((v.ext.first + Int.ofNat k) :: (boxIndices v.exts.tail)[j])) = (rows[k])[j]) ∧
      (∀ a, ¬ v.InImage a → m' a = m a) := by
  have hsz : v.size = v.ext.size := (C01.shape_functions_agree v hwf).2.2.1
  have hl : (rowsVal v m).length = rows.length := by simp [rowsVal]; omega
  have hb : v.begin' = v.begin'.add (([] : List (List α)).length : Int) := by
    apply ArrIt.ext_eq <;> simp [ArrIt.add]
  obtain ⟨m', e1, e2, e3⟩ := stepLoop_spec v hwf hne hinj step hstep rows hrow [] (rowsVal v m) [] m (by simp) hl
  rw [← hb] at e1
  simp only [List.nil_append, List.append_nil] at e2
  refine ⟨m', e1, e2, ?_, e3⟩
  intro k hk j hj hj'
  subst e2
  simp only [rowsVal, List.getElem_map, List.getElem_range]

/-- a 1-D row: `*it = range` (`assignVals1`) is the same store as `elements() = values` -/
theorem assignVals1_eq_writeRow (r : View) (d : Dim) (hr : r.lay = [d]) (hd : d.WF) (x : List α) (m : Mem α)
    (hx : x.length = r.cells.length) : r.assignVals1 x m = r.writeRow x m := by
  have hwf : r.lay.WF := by rw [hr]; intro e he; simp at he; subst he; exact hd
  rw [View.writeRow_eq r x m hwf hx]
  have hnum : (r.cells.length : Int) = r.size := by
    rw [r.cells_length hwf]; simp [View.numElements, View.size, hr, Layout.numElements]
  have hxs : (x.length : Int) = r.size := by rw [hx]; exact hnum
  have hn : x.length = r.size.toNat := by omega
  simp only [View.assignVals1, hr, hxs, if_true]
  rw [ArrIt.storeN_eq, hn, View.arr_addrs_one r d hr hd]
  rfl

end Multi
