/-
  MultiProofs.BlasLemmas — arithmetic of column-major blocks and strided vectors, finite sums, and the generic
  soundness lemma for xGEMM calls used by the per-branch theorems of C13.
-/
import MultiModel.Blas

namespace Multi.Blas
variable {R : Type}

/-! ### column-major blocks -/

theorem cmIndex_hit {x ld m n i j : Int} (hi0 : 0 ≤ i) (him : i < m) (hj0 : 0 ≤ j) (hjn : j < n) (hld : m ≤ ld) :
    cmIndex x ld m n (x + i + j * ld) = some (i, j) := by
  have hldpos : 0 < ld := by omega
  have hd : x + i + j * ld - x = i + j * ld := by omega
  have h1 : (i + j * ld) % ld = i := by
    rw [Int.add_mul_emod_self_right]; exact Int.emod_eq_of_lt hi0 (by omega)
  have h2 : (i + j * ld) / ld = j := by
    rw [Int.add_mul_ediv_right _ _ (by omega), Int.ediv_eq_zero_of_lt hi0 (by omega)]; omega
  have h3 : 0 ≤ i + j * ld := by
    have : 0 ≤ j * ld := Int.mul_nonneg hj0 (by omega)
    omega
  unfold cmIndex
  simp only [hd, h1, h2]
  rw [if_pos ⟨h3, hldpos, him, hjn⟩]

theorem cmIndex_some {x ld m n addr i j : Int} (h : cmIndex x ld m n addr = some (i, j)) :
    addr = x + i + j * ld ∧ 0 ≤ i ∧ i < m ∧ 0 ≤ j ∧ j < n := by
  unfold cmIndex at h
  by_cases hc : 0 ≤ addr - x ∧ 0 < ld ∧ (addr - x) % ld < m ∧ (addr - x) / ld < n
  · simp only [if_pos hc] at h
    have hi : (addr - x) % ld = i := by injection h with h; injection h
    have hj : (addr - x) / ld = j := by injection h with h; injection h
    obtain ⟨h0, hld, hm, hn⟩ := hc
    have hdm := Int.mul_ediv_add_emod (addr - x) ld
    have hnn : 0 ≤ (addr - x) % ld := Int.emod_nonneg _ (by omega)
    have hjj : 0 ≤ (addr - x) / ld := Int.ediv_nonneg h0 (by omega)
    subst hi; subst hj
    refine ⟨?_, hnn, hm, hjj, hn⟩
    have : ld * ((addr - x) / ld) = (addr - x) / ld * ld := Int.mul_comm _ _
    omega
  · simp only [if_neg hc] at h; cases h

/-! ### strided vectors -/

theorem vecIndex_hit {x inc n i : Int} (hi0 : 0 ≤ i) (hin : i < n) (hinc : 0 < inc) :
    vecIndex x inc n (x + i * inc) = some i := by
  have hd : x + i * inc - x = i * inc := by omega
  have h1 : (i * inc) % inc = 0 := Int.mul_emod_left _ _
  have h2 : (i * inc) / inc = i := Int.mul_ediv_cancel _ (by omega)
  have h3 : 0 ≤ i * inc := Int.mul_nonneg hi0 (by omega)
  unfold vecIndex
  simp only [hd, h1, h2]
  rw [if_pos ⟨h3, hinc, trivial, hin⟩]

theorem vecIndex_some {x inc n addr i : Int} (h : vecIndex x inc n addr = some i) :
    addr = x + i * inc ∧ 0 ≤ i ∧ i < n := by
  unfold vecIndex at h
  by_cases hc : 0 ≤ addr - x ∧ 0 < inc ∧ (addr - x) % inc = 0 ∧ (addr - x) / inc < n
  · simp only [if_pos hc] at h
    have hi : (addr - x) / inc = i := by injection h
    obtain ⟨h0, hinc, hm, hn⟩ := hc
    have hdm := Int.mul_ediv_add_emod (addr - x) inc
    have hjj : 0 ≤ (addr - x) / inc := Int.ediv_nonneg h0 (by omega)
    subst hi
    refine ⟨?_, hjj, hn⟩
    have : inc * ((addr - x) / inc) = (addr - x) / inc * inc := Int.mul_comm _ _
    omega
  · simp only [if_neg hc] at h; cases h

/-! ### finite sums -/

theorem sumTo_congr [Add R] [Zero R] (k : Nat) (f g : Int → R) (h : ∀ l : Int, 0 ≤ l → l < Int.ofNat k → f l = g l) :
    sumTo k f = sumTo k g := by
  induction k with
  | zero => rfl
  | succ n ih =>
    unfold sumTo
    rw [ih (fun l h0 hl => h l h0 (by simp at hl ⊢; omega)), h (Int.ofNat n) (by simp) (by simp; omega)]

theorem sumZ_congr [Add R] [Zero R] (k : Int) (f g : Int → R) (h : ∀ l : Int, 0 ≤ l → l < k → f l = g l) :
    sumZ k f = sumZ k g := by
  unfold sumZ
  apply sumTo_congr
  intro l h0 hl
  apply h l h0
  have : (Int.ofNat k.toNat : Int) = max k 0 := by simp
  omega

theorem conj_sumTo [CRing R] (k : Nat) (f : Int → R) :
    CRing.conj (sumTo k f) = sumTo k (fun l => CRing.conj (f l)) := by
  induction k with
  | zero => exact CRing.conj_zero
  | succ n ih => unfold sumTo; rw [CRing.conj_add, ih]

theorem conj_sumZ [CRing R] (k : Int) (f : Int → R) :
    CRing.conj (sumZ k f) = sumZ k (fun l => CRing.conj (f l)) := conj_sumTo _ _

theorem cjIf_cjIf [CRing R] (b : Bool) (x : R) : cjIf b (cjIf b x) = x := by
  cases b <;> simp [cjIf, CRing.conj_conj]

end Multi.Blas
