/-
  C18 — The (buffer, count, datatype) MPI message built from `elements()` of any array or view denotes exactly that
  view's elements in canonical order; datatypes are committed before use and freed exactly once.

  Property theorems only (helper lemmas: MpiLemmas, SerWalk).  The model is MultiModel/Mpi.lean: the skeleton
  recursion of mpi.hpp on a ledger of datatype handles, with MPI's typemap semantics for hvector / resized / message.

    * `message_typemap`     for every D ≥ 1 and every well-formed view: buffer = the view's base, and the `count` copies of
                            the datatype denote exactly `[sizeof T · (addr v idx − base) | idx in canonical order]`
    * `pack_unpack_kth`     packing through one view's message and unpacking through another view's message (equal
                            element counts, any layouts) moves the k-th element to the k-th element, nothing else changes
    * `types_committed_and_freed_once`   ledger invariant: no erroneous MPI call; the message's datatype is committed and
                            alive when used; all temporaries (incl. those held by moved-from skeletons) are freed exactly once
                            during construction, the message's own datatype exactly once by its destructor
-/
import MultiProofs.MpiLemmas
import MultiProofs.SerInj

namespace Multi
namespace C18
open Mpi

/-- what `message(v.elements())` does to a ledger in which the element datatype (handle 0) is live -/
theorem ofElements_spec (v : View) (hne : v.lay ≠ []) (hwf : v.lay.WF) (L : Ledger) (h0 : L.live (some 0) = true) :
    ∃ L1 h, Message.ofElements L (ElemRange.ofView v) = (L1, ⟨v.base, ⟨v.size, some h⟩⟩) ∧
      L.next ≤ h ∧ h < L1.next ∧ L1.errs = L.errs ∧ (∀ j, j < L.next → L1.recs j = L.recs j) ∧
      L1.recs h = ⟨skelTm (L.recs 0).tm (v.lay.map Dim.zeroOff) 1, false, true, 0⟩ ∧
      (∀ j, L.next ≤ j → j < L1.next → j ≠ h → (L1.recs j).freed = 1 ∧ (L1.recs j).builtin = false) := by
  have hl0 : ElemRange.ofView v = ⟨v.base, v.lay.map Dim.zeroOff⟩ := by simp [ElemRange.ofView, reindex_all_zeros]
  have hne0 : v.lay.map Dim.zeroOff ≠ [] := by simpa using hne
  have hsz : ∀ d ∈ (v.lay.map Dim.zeroOff).tail, 0 ≤ d.size := by
    intro d hd
    exact size_nonneg_of_wf (zeroOff_wf hwf d (List.mem_of_mem_tail hd))
  obtain ⟨L', h, cnt, b1, b2, b3, b4, b5, b6, b7⟩ := build_spec _ L 0 1 hne0 h0 (by decide) hsz
  have hcnt : cnt = v.size := by
    have := congrArg (fun p => p.2.count) b1
    cases hv : v.lay with
    | nil => exact absurd hv hne
    | cons d l =>
      simp only [hv, List.map_cons, build_count] at this
      simp only [View.size, hv]; rw [← this]; rfl
  have hlive : L'.live (some h) = true := live_some.mpr ⟨b3, by rw [b6]⟩
  refine ⟨L'.commit (some h), h, ?_, b2, by simpa [Ledger.commit, hlive, Ledger.setRec] using b3, ?_, ?_, ?_, ?_⟩
  · simp only [Message.ofElements, Skeleton.make, hl0, b1, hcnt]
  · simp [Ledger.commit, hlive, Ledger.setRec, b4]
  · intro j hj
    have : j ≠ h := by omega
    simp [Ledger.commit, hlive, Ledger.setRec, this, b5 j hj]
  · simp [Ledger.commit, hlive, Ledger.setRec, b6]
  · intro j h1 h2 h3
    have h2' : j < L'.next := by simpa [Ledger.commit, hlive, Ledger.setRec] using h2
    simpa [Ledger.commit, hlive, Ledger.setRec, h3] using b7 j h1 h2' h3

/-- **C18, the message.**  For every dimensionality D ≥ 1 and every well-formed view `v` (any strides, offsets, sizes —
    zero sizes included), `message(v.elements())` has `buffer() = ` the address of `v`'s first element and its
    `count()` copies of `datatype()` denote exactly the byte displacements `sizeof(T)·(addr v idx − base)`, `idx` running
    over `v`'s index box in canonical order: no more, no fewer, none outside the view. -/
theorem message_typemap (v : View) (hne : v.lay ≠ []) (hwf : v.lay.WF) (sz : Int) (L : Ledger)
    (h0 : L.live (some 0) = true) (hbase : (L.recs 0).tm = Typemap.basic sz) :
    (Message.ofElements L (ElemRange.ofView v)).2.buf = v.base ∧
    (Message.ofElements L (ElemRange.ofView v)).2.disps (Message.ofElements L (ElemRange.ofView v)).1 =
      (boxIndices v.exts).map (fun idx => sz * (v.addr idx - v.base)) := by
  obtain ⟨L1, h, e1, _, _, _, _, e6, _⟩ := ofElements_spec v hne hwf L h0
  rw [e1]
  refine ⟨rfl, ?_⟩
  simp only [Message.disps, Ledger.tmOf, e6, hbase]
  cases hv : v.lay with
  | nil => exact absurd hv hne
  | cons d l =>
    have hsize : v.size = (Dim.zeroOff d).size := by simp only [View.size, hv]; rfl
    rw [List.map_cons, hsize, message_disps, ← List.map_cons, canonOffs_zeroOff, ← hv]
    have := canon_addrs v hwf
    have h2 : (boxIndices v.exts).map (fun idx => sz * (v.addr idx - v.base)) =
        ((boxIndices v.exts).map v.addr).map (fun p => sz * (p - v.base)) := by rw [List.map_map]; rfl
    rw [h2, this, List.map_map]
    apply List.map_congr_left
    intro r _
    simp only [Function.comp]
    congr 1; omega

/-! ### pack / unpack -/

theorem pack_offsets {α : Type} (m : Int → α) (sz : Int) (hsz : sz ≠ 0) (buf : Int) : ∀ (offs : List Int),
    pack m sz buf (offs.map (sz * ·)) = some (offs.map fun o => m (buf + o))
  | [] => rfl
  | o :: offs => by
    have ih := pack_offsets m sz hsz buf offs
    simp only [pack, List.map_cons, List.mapM_cons, Int.mul_tmod_right, if_true, Int.mul_tdiv_cancel_left _ hsz] at ih ⊢
    rw [ih]; rfl

theorem unpack_offsets {α : Type} (sz : Int) (hsz : sz ≠ 0) (buf : Int) : ∀ (offs : List Int) (xs : List α) (m : Int → α),
    offs.length = xs.length → (offs.map (buf + ·)).Nodup →
    ∃ m', unpack m sz buf (offs.map (sz * ·)) xs = some m' ∧ (∀ p, p ∉ offs.map (buf + ·) → m' p = m p) ∧
      offs.map (fun o => m' (buf + o)) = xs
  | [], [], m, _, _ => ⟨m, rfl, fun _ _ => rfl, rfl⟩
  | [], _ :: _, _, h, _ => by simp at h
  | _ :: _, [], _, h, _ => by simp at h
  | o :: offs, x :: xs, m, hlen, hnd => by
    simp only [List.map_cons, List.nodup_cons] at hnd
    obtain ⟨m', h1, h2, h3⟩ := unpack_offsets sz hsz buf offs xs (fun q => if q = buf + o then x else m q) (by simpa using hlen) hnd.2
    refine ⟨m', ?_, ?_, ?_⟩
    · simp only [List.map_cons, unpack, Int.mul_tmod_right, if_true, Int.mul_tdiv_cancel_left _ hsz]
      exact h1
    · intro p hp
      simp only [List.map_cons, List.mem_cons, not_or] at hp
      rw [h2 p hp.2]; simp [hp.1]
    · simp only [List.map_cons]
      rw [h3, h2 (buf + o) hnd.1]; simp

/-- **C18, transfer.**  Packing the message of `v.elements()` from memory `ms` and unpacking the bytes through the message
    of `w.elements()` into memory `md` — `v`, `w` any two well-formed views with the same number of elements, `w`'s
    elements pairwise distinct locations — makes the k-th element of `w` (canonical order) equal to the k-th element
    of `v`, and changes no address that is not an element of `w`. -/
theorem pack_unpack_kth {α : Type} (v w : View) (hv : v.lay ≠ []) (hw : w.lay ≠ []) (hvwf : v.lay.WF) (hwwf : w.lay.WF)
    (sz : Int) (hsz : sz ≠ 0) (hcount : (boxIndices v.exts).length = (boxIndices w.exts).length)
    (hinj : (canonAddrs w).Nodup) (ms md : Int → α) :
    let Lv := Message.ofElements (Ledger.init sz) (ElemRange.ofView v)
    let Lw := Message.ofElements Lv.1 (ElemRange.ofView w)
    ∃ packed md', pack ms sz Lv.2.buf (Lv.2.disps Lv.1) = some packed ∧
      packed = (boxIndices v.exts).map (fun idx => ms (v.addr idx)) ∧
      unpack md sz Lw.2.buf (Lw.2.disps Lw.1) packed = some md' ∧
      (∀ p, p ∉ canonAddrs w → md' p = md p) ∧
      (boxIndices w.exts).map (fun idx => md' (w.addr idx)) = (boxIndices v.exts).map (fun idx => ms (v.addr idx)) := by
  intro Lv Lw
  have hi : (Ledger.init sz).live (some 0) = true := by simp [Ledger.init, Ledger.live]
  obtain ⟨bv, dv⟩ := message_typemap v hv hvwf sz (Ledger.init sz) hi rfl
  obtain ⟨L1, h, e1, e2, e3, e4, e5, e6, e7⟩ := ofElements_spec v hv hvwf (Ledger.init sz) hi
  have hlive1 : Lv.1.live (some 0) = true := by
    show (Message.ofElements (Ledger.init sz) (ElemRange.ofView v)).1.live (some 0) = true
    rw [e1]
    have := e5 0 (by simp [Ledger.init])
    have hn1 : (Ledger.init sz).next = 1 := rfl
    exact live_some.mpr ⟨by show 0 < L1.next; have := e3; have := e2; omega, by show (L1.recs 0).freed = 0; rw [this]; rfl⟩
  have hbase1 : (Lv.1.recs 0).tm = Typemap.basic sz := by
    show ((Message.ofElements (Ledger.init sz) (ElemRange.ofView v)).1.recs 0).tm = _
    rw [e1]; simp only; rw [e5 0 (by simp [Ledger.init])]; rfl
  obtain ⟨bw, dw⟩ := message_typemap w hw hwwf sz Lv.1 hlive1 hbase1
  -- displacements as sz·offset lists
  have cv := canon_addrs v hvwf
  have cw := canon_addrs w hwwf
  have dv' : Lv.2.disps Lv.1 = (v.lay.canonOffs).map (sz * ·) := by
    rw [dv]
    have h2 : (boxIndices v.exts).map (fun idx => sz * (v.addr idx - v.base)) =
        ((boxIndices v.exts).map v.addr).map (fun p => sz * (p - v.base)) := by rw [List.map_map]; rfl
    rw [h2, cv, List.map_map]; apply List.map_congr_left; intro r _; simp only [Function.comp]; congr 1; omega
  have dw' : Lw.2.disps Lw.1 = (w.lay.canonOffs).map (sz * ·) := by
    rw [dw]
    have h2 : (boxIndices w.exts).map (fun idx => sz * (w.addr idx - w.base)) =
        ((boxIndices w.exts).map w.addr).map (fun p => sz * (p - w.base)) := by rw [List.map_map]; rfl
    rw [h2, cw, List.map_map]; apply List.map_congr_left; intro r _; simp only [Function.comp]; congr 1; omega
  have hpk : (v.lay.canonOffs.map fun o => ms (v.base + o)) = (boxIndices v.exts).map (fun idx => ms (v.addr idx)) := by
    have : (boxIndices v.exts).map (fun idx => ms (v.addr idx)) = ((boxIndices v.exts).map v.addr).map ms := by rw [List.map_map]; rfl
    rw [this, cv, List.map_map]; rfl
  have hlen : w.lay.canonOffs.length = ((boxIndices v.exts).map (fun idx => ms (v.addr idx))).length := by
    have := congrArg List.length cw
    simp only [List.length_map] at this ⊢
    omega
  have hnd : (w.lay.canonOffs.map (w.base + ·)).Nodup := by rw [← cw]; exact hinj
  obtain ⟨md', u1, u2, u3⟩ := unpack_offsets sz hsz w.base w.lay.canonOffs _ md hlen hnd
  refine ⟨_, md', ?_, rfl, ?_, ?_, ?_⟩
  · rw [bv, dv', pack_offsets ms sz hsz, hpk]
  · rw [bw, dw']; exact u1
  · intro p hp; apply u2; rw [← cw]; exact hp
  · have : (boxIndices w.exts).map (fun idx => md' (w.addr idx)) = ((boxIndices w.exts).map w.addr).map md' := by rw [List.map_map]; rfl
    rw [this, cw, List.map_map]; exact u3

/-- `pack_unpack_kth` for views reachable from arrays (C01's `Reach`) on both sides: well-formedness and the distinct
    locations of the destination follow from C01, so only "D ≥ 1" and "equal element counts" remain. -/
theorem reachable_pack_unpack_kth {α : Type}
    (bv : Int) (esv : List Ext) (hesv : ∀ e ∈ esv, e.first ≤ e.last) (v : View) (denv : Den) (hrv : Reach ⟨bv, Layout.ofExts esv⟩ v denv)
    (bw : Int) (esw : List Ext) (hesw : ∀ e ∈ esw, e.first ≤ e.last) (w : View) (denw : Den) (hrw : Reach ⟨bw, Layout.ofExts esw⟩ w denw)
    (hv : v.lay ≠ []) (hw : w.lay ≠ []) (sz : Int) (hsz : sz ≠ 0)
    (hcount : (boxIndices v.exts).length = (boxIndices w.exts).length) (ms md : Int → α) :
    let Lv := Message.ofElements (Ledger.init sz) (ElemRange.ofView v)
    let Lw := Message.ofElements Lv.1 (ElemRange.ofView w)
    ∃ packed md', pack ms sz Lv.2.buf (Lv.2.disps Lv.1) = some packed ∧
      packed = (boxIndices v.exts).map (fun idx => ms (v.addr idx)) ∧
      unpack md sz Lw.2.buf (Lw.2.disps Lw.1) packed = some md' ∧
      (∀ p, p ∉ canonAddrs w → md' p = md p) ∧
      (boxIndices w.exts).map (fun idx => md' (w.addr idx)) = (boxIndices v.exts).map (fun idx => ms (v.addr idx)) :=
  pack_unpack_kth v w hv hw (reachable_wf bv esv hesv v denv hrv) (reachable_wf bw esw hesw w denw hrw) sz hsz hcount
    (reachable_canonAddrs_nodup bw esw hesw w denw hrw) ms md

/-! ### the datatype ledger -/

/-- **C18, datatypes.**  Build `message(v.elements())` on any ledger `L` in which the element datatype is live, use it,
    destroy it.  Then: no erroneous MPI call was made at any point (no free of `MPI_DATATYPE_NULL`, of a freed or of a
    builtin datatype; no construction from a freed datatype; no use before commit) — in particular the destructors of
    moved-from skeletons, which hold `MPI_DATATYPE_NULL`, free nothing; at the time of use the message's datatype is
    committed and not freed; every datatype created during construction other than the message's own has been freed
    exactly once already; after destruction every datatype created has been freed exactly once; datatypes that existed
    before are untouched. -/
theorem types_committed_and_freed_once (v : View) (hne : v.lay ≠ []) (hwf : v.lay.WF) (L : Ledger)
    (h0 : L.live (some 0) = true) :
    let Lm := Message.ofElements L (ElemRange.ofView v)
    let Lu := Lm.1.use Lm.2.sk.datatype
    let Ld := Lm.2.dtor Lu
    -- at the time of use
    (∃ h, Lm.2.sk.datatype = some h ∧ L.next ≤ h ∧ h < Lm.1.next ∧ (Lm.1.recs h).committed = true ∧ (Lm.1.recs h).freed = 0 ∧
       ∀ j, L.next ≤ j → j < Lm.1.next → j ≠ h → (Lm.1.recs j).freed = 1) ∧
    -- no erroneous call, ever
    Lm.1.errs = L.errs ∧ Lu.errs = L.errs ∧ Ld.errs = L.errs ∧
    -- afterwards
    (∀ j, L.next ≤ j → j < Ld.next → (Ld.recs j).freed = 1) ∧ (∀ j, j < L.next → Ld.recs j = L.recs j) := by
  intro Lm Lu Ld
  obtain ⟨L1, h, e1, e2, e3, e4, e5, e6, e7⟩ := ofElements_spec v hne hwf L h0
  have hLm : Lm = (L1, ⟨v.base, ⟨v.size, some h⟩⟩) := e1
  have hlive : L1.live (some h) = true := live_some.mpr ⟨e3, by rw [e6]⟩
  have hLu : Lu = L1.use (some h) := by simp only [Lu, hLm]
  have hLuerr : Lu.errs = L1.errs := by rw [hLu]; simp [Ledger.use, hlive, e6]
  have hLurec : ∀ j, Lu.recs j = L1.recs j := by intro j; rw [hLu]; rfl
  have hLunext : Lu.next = L1.next := by rw [hLu]; rfl
  have hliveu : Lu.live (some h) = true := live_some.mpr ⟨by rw [hLunext]; exact e3, by rw [hLurec, e6]⟩
  have hbu : (Lu.recs h).builtin = false := by rw [hLurec, e6]
  obtain ⟨f1, f2, f3, f4⟩ := free_spec Lu h hliveu hbu
  have hLd : Ld = (Lu.free (some h)).1 := by simp only [Ld, hLm, Message.dtor, Skeleton.dtor]
  refine ⟨⟨h, by rw [hLm], e2, by rw [hLm]; exact e3, by rw [hLm]; simp only; rw [e6], by rw [hLm]; simp only; rw [e6], ?_⟩,
    by rw [hLm]; exact e4, by rw [hLuerr, e4], by rw [hLd, f2, hLuerr, e4], ?_, ?_⟩
  · intro j h1 h2 h3
    rw [hLm] at h2 ⊢
    exact (e7 j h1 h2 h3).1
  · intro j h1 h2
    rw [hLd] at h2 ⊢
    rw [f1, hLunext] at h2
    by_cases hj : j = h
    · subst hj; rw [f4, hLurec, e6]
    · rw [f3 j hj, hLurec]; exact (e7 j h1 h2 hj).1
  · intro j hj
    rw [hLd, f3 j (by omega), hLurec, e5 j hj]

/-! ### non-vacuity -/

/-- a 3-D rotated sub-block (the probe of DESIGN §6: strides 5, 1, 20) is a well-formed view with D ≥ 1 -/
example : let v : View := ((⟨70, Layout.ofExts [⟨0, 3⟩, ⟨0, 4⟩, ⟨0, 5⟩]⟩ : View).rotated).paren [Arg.rng 1 3, Arg.rng 0 3, Arg.rng 1 3]
    v.lay ≠ [] ∧ v.strides = [5, 1, 20] ∧ v.sizes = [2, 3, 2] ∧ ∀ d ∈ v.lay, d.nelems = 0 ∨ (0 < d.stride ∧ 0 < d.nelems ∧ d.nelems % d.stride = 0 ∧ d.offset % d.stride = 0) := by
  decide +kernel

/-- the initial ledger satisfies the hypotheses on `L` -/
example (sz : Int) : (Ledger.init sz).live (some 0) = true ∧ ((Ledger.init sz).recs 0).tm = Typemap.basic sz := by
  simp [Ledger.init, Ledger.live]

/-- the message of a 2×3 array of 4-byte elements: displacements 0, 4, …, 20 -/
example : (Message.ofElements (Ledger.init 4) (ElemRange.ofView ⟨0, Layout.ofExts [⟨0, 2⟩, ⟨0, 3⟩]⟩)).2.disps
    (Message.ofElements (Ledger.init 4) (ElemRange.ofView ⟨0, Layout.ofExts [⟨0, 2⟩, ⟨0, 3⟩]⟩)).1 = [0, 4, 8, 12, 16, 20] := by
  decide +kernel

end C18
end Multi
