import MultiModel.Mpi
namespace Multi
namespace C18
end C18
end Multi
