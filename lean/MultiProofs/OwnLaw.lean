/-
  MultiProofs.OwnLaw — from values to single elements: what `A[i][j]…` reads in a valid array, and the element-wise reading of
  `reextVal`.  Helper lemmas for C06.reextent_law.
-/
import MultiProofs.OwnStep

namespace Multi
namespace Own
variable {α : Type}

/-- reading a valid array at an index tuple inside its extensions gives the cell of that row-major rank -/
theorem readAt_valid {h : Heap α} {a : Arr} (hv : Valid h a) {idx : List Int} (hidx : InBox a.exts idx) :
    readAt h a idx = (cellsOf h a)[(rowMajor a.exts idx).toNat]? ∧ (rowMajor a.exts idx).toNat < (cellsOf h a).length := by
  obtain ⟨e1, e2, e3⟩ := hv.addr hidx
  have hn : a.numElements ≠ 0 := by omega
  obtain ⟨b, hb, hl, hlen⟩ := hv.block hn
  unfold readAt
  rw [e1, hb]
  obtain ⟨q, hq⟩ := Int.eq_ofNat_of_zero_le e2
  rw [hq, show ((q : Nat) : Int) = Int.ofNat q from rfl, read_live hl]
  simp only [Int.toNat_natCast, Int.ofNat_eq_natCast]
  refine ⟨trivial, ?_⟩
  rw [hlen]; omega

/-- the tuple of row-major rank `j` in `boxIndices` is the tuple itself -/
theorem boxIndices_at_rank {xs : List Ext} (hok : ExtsOK xs) {idx : List Int} (hidx : InBox xs idx) :
    (boxIndices xs)[(rowMajor xs idx).toNat]? = some idx := by
  obtain ⟨b0, b1⟩ := rowMajor_bounds hok hidx
  have hlen := boxIndices_length hok
  have hj : (rowMajor xs idx).toNat < (boxIndices xs).length := by rw [hlen]; omega
  obtain ⟨hin, hrk⟩ := boxIndices_getElem hok _ hj
  rw [List.getElem?_eq_getElem hj]
  congr 1
  apply rowMajor_inj hin hidx
  rw [hrk]; omega

/-- element-wise reading of the documented value of `reextent` -/
theorem reextVal_at (cfg : Cfg α) (old : AbsArr α) (x : List Ext) (hx : ExtsOK x) (fill : Option α) {idx : List Int}
    (hidx : InBox (collapse x) idx) :
    (reextVal cfg old x fill).elems[(rowMajor (collapse x) idx).toNat]? =
      some (if InBox old.exts idx then old.elems[(rowMajor old.exts idx).toNat]?.getD none else fillCell cfg fill) := by
  unfold reextVal
  simp only [List.getElem?_map, boxIndices_at_rank (collapse_ok hx) hidx, Option.map_some]

end Own
end Multi
