/-
  MultiProofs.SerWalk — the canonical element order, as an offset list computed from strides and sizes only
  (`Layout.canonOffs`), and the three ways the library enumerates it:
    * the specification: index tuples of the box in canonical order, mapped through the address function
    * `elements()` iterators stepping with `next_canonical` (C17 views, C18 message source)
    * the recursive hvector typemap of the MPI skeleton (MultiProofs/MpiLemmas.lean)
-/
import MultiModel.Serial
import MultiProofs.SerArchive

namespace Multi

/-- offsets from the base of the elements of a view in canonical order (last index fastest): depends only on the
    sizes and strides -/
def Layout.canonOffs : Layout → List Int
  | [] => [0]
  | d :: l => (List.range d.size.toNat).flatMap fun (k : Nat) => (canonOffs l).map fun r => Int.ofNat k * d.stride + r

/-- the specification's enumeration (index tuples of the box in canonical order through the displacement function) is `canonOffs` -/
theorem boxIndices_off (l : Layout) (hwf : l.WF) : (boxIndices l.exts).map l.off = l.canonOffs := by
  induction l with
  | nil => simp [Layout.exts, boxIndices, Layout.off, Layout.canonOffs]
  | cons d l ih =>
    have ih' := ih hwf.tail
    simp only [Layout.exts, List.map_cons, boxIndices, Layout.canonOffs, List.map_flatMap, List.map_map]
    rcases hwf.head.cases with h0 | ⟨f, n, hn, hs, hoff, hne, hext, hsz⟩
    · rw [Dim.ext_of_nelems_zero h0, Dim.size_of_nelems_zero h0]; simp [Ext.size]
    · rw [hext, hsz]
      have : (⟨f, f + n⟩ : Ext).size = n := by simp [Ext.size]; omega
      rw [this]
      congr 1
      funext k
      rw [← ih', List.map_map]
      apply List.map_congr_left
      intro r _
      simp only [Function.comp, Layout.off, hoff]
      have : (f + Int.ofNat k) * d.stride = f * d.stride + Int.ofNat k * d.stride := Int.add_mul _ _ _
      omega

/-- the addresses of the elements of `v` in canonical order -/
def canonAddrs (v : View) : List Int := (boxIndices v.exts).map v.addr

/-- canonical-order addresses of a well-formed view -/
theorem canon_addrs (v : View) (hwf : v.lay.WF) :
    (boxIndices v.exts).map v.addr = v.lay.canonOffs.map (v.base + ·) := by
  rw [← boxIndices_off v.lay hwf, List.map_map]
  apply List.map_congr_left
  intro idx _
  simp [addr_eq]

/-! ### `elements_range_t` stores a zero-based copy of the layout -/

def Dim.zeroOff (d : Dim) : Dim := { d with offset := 0 }

theorem reindex_zeros : ∀ (k : Nat) (l : Layout), k ≤ l.length →
    l.reindex (List.replicate k 0) = (List.take k l).map Dim.zeroOff ++ List.drop k l
  | 0, l, _ => by simp [Layout.reindex]
  | 1, l, h => by
    cases l with
    | nil => simp at h
    | cons d sub => simp [Layout.reindex, Layout.reindex1, Dim.zeroOff]
  | k + 2, l, h => by
    cases l with
    | nil => simp at h
    | cons d sub =>
      have hk : k + 1 ≤ sub.length := by simp at h; omega
      have e : List.replicate (k + 2) (0 : Int) = 0 :: 0 :: List.replicate k 0 := by simp [List.replicate_succ]
      have hre : Layout.reindex (d :: sub) (0 :: 0 :: List.replicate k 0) =
          Layout.unrotate (Layout.reindex (Layout.rotate (Layout.reindex1 (d :: sub) 0)) (0 :: List.replicate k 0)) := by
        rw [Layout.reindex]; simp
      rw [e, hre]
      have e2 : (0 : Int) :: List.replicate k 0 = List.replicate (k + 1) 0 := by simp [List.replicate_succ]
      rw [e2]
      simp only [Layout.reindex1, Int.zero_mul]
      rw [rotate_cons, reindex_zeros (k + 1) _ (by simp; omega)]
      rw [List.take_append_of_le_length hk, List.drop_append_of_le_length hk, ← List.append_assoc, unrotate_snoc]
      simp [Dim.zeroOff]

theorem reindex_all_zeros (l : Layout) : l.reindex (List.replicate l.length 0) = l.map Dim.zeroOff := by
  rw [reindex_zeros l.length l (Nat.le_refl _)]; simp

theorem zeroOff_wf {l : Layout} (h : l.WF) : Layout.WF (l.map Dim.zeroOff) := by
  intro d hd
  simp only [List.mem_map] at hd
  obtain ⟨d0, hd0, rfl⟩ := hd
  rcases h d0 hd0 with h0 | ⟨a, b, c, _⟩
  · exact Or.inl h0
  · exact Or.inr ⟨a, b, c, ⟨0, by simp [Dim.zeroOff]⟩⟩

theorem canonOffs_zeroOff (l : Layout) : Layout.canonOffs (l.map Dim.zeroOff) = l.canonOffs := by
  induction l with
  | nil => rfl
  | cons d l ih => simp only [List.map_cons, Layout.canonOffs, ih]; rfl

/-- `layout_t::operator()` on a zero-based layout is the displacement function -/
theorem apply_zeroOff (l : Layout) (ns : List Int) : Layout.apply (l.map Dim.zeroOff) ns = Layout.off (l.map Dim.zeroOff) ns := by
  induction l generalizing ns with
  | nil => cases ns <;> simp [Layout.apply, Layout.off]
  | cons d l ih =>
    cases ns with
    | nil => simp [Layout.apply, Layout.off]
    | cons i is => simp only [List.map_cons, Layout.apply, Layout.off, ih, Dim.zeroOff]; omega

/-! ### stepping with `next_canonical` enumerates the box in canonical order -/

/-- `Run step l t c`: consecutive states of `l` follow each other by `step` without carry; stepping from the last
    state yields `(t, c)` -/
def Run {S : Type} (step : S → S × Bool) : List S → S → Bool → Prop
  | [], _, _ => False
  | [s], t, c => step s = (t, c)
  | s :: s' :: l, t, c => step s = (s', false) ∧ Run step (s' :: l) t c

theorem Run.append {S : Type} {step : S → S × Bool} : ∀ (l1 : List S) (s2 : S) (l2 : List S) (t : S) (c : Bool),
    Run step l1 s2 false → Run step (s2 :: l2) t c → Run step (l1 ++ s2 :: l2) t c
  | [], _, _, _, _, h, _ => h.elim
  | [s], s2, l2, t, c, h1, h2 => ⟨h1, h2⟩
  | s :: s' :: l, s2, l2, t, c, h1, h2 => ⟨h1.1, Run.append (s' :: l) s2 l2 t c h1.2 h2⟩

/-- one uniform description of `extensions_t<D>::next_canonical` for D = 1 and D > 1 -/
theorem nextCanonical_cons (e : Ext) (es : List Ext) (i : Int) (is : List Int) :
    Exts.nextCanonical (e :: es) (i :: is) =
      (if (if (Exts.nextCanonical es is).2 then i + 1 else i) == e.last
       then (e.first :: (Exts.nextCanonical es is).1, true)
       else ((if (Exts.nextCanonical es is).2 then i + 1 else i) :: (Exts.nextCanonical es is).1, false)) := by
  cases es with
  | nil =>
    simp only [Exts.nextCanonical, Ext.back, if_true]
    by_cases h : i = e.last - 1
    · have : i + 1 = e.last := by omega
      simp [h, this]
    · have : ¬ i + 1 = e.last := by omega
      simp [h, this]
  | cons e2 es' =>
    simp only [Exts.nextCanonical]

def nextIdx (xs : List Ext) (ns : List Int) : List Int × Bool := Exts.nextCanonical xs ns

theorem run_lift (e : Ext) (es : List Ext) (i : Int) (hi : i ≠ e.last) (t' : List Int) :
    ∀ (B' : List (List Int)), Run (nextIdx es) B' t' true →
      Run (nextIdx (e :: es)) (B'.map (i :: ·)) ((if i + 1 = e.last then e.first else i + 1) :: t') (decide (i + 1 = e.last))
  | [], h => h.elim
  | [s], h => by
    simp only [Run, nextIdx] at h
    simp only [List.map_cons, List.map_nil, Run, nextIdx, nextCanonical_cons, h, if_true]
    by_cases h1 : i + 1 = e.last <;> simp [h1]
  | s :: s' :: l, h => by
    have h1 : nextIdx es s = (s', false) := h.1
    refine ⟨?_, run_lift e es i hi t' (s' :: l) h.2⟩
    simp only [nextIdx] at h1
    simp only [nextIdx, nextCanonical_cons, h1]
    simp [hi]

/-- the blocks of `boxIndices (e :: es)`: one copy of the inner box per value of the leading index -/
def blocks (B' : List (List Int)) : Int → Nat → List (List Int)
  | _, 0 => []
  | i, cnt + 1 => B'.map (i :: ·) ++ blocks B' (i + 1) cnt

theorem flatMap_range_shift {β : Type} (g : Int → List β) : ∀ (n : Nat) (a : Int),
    (List.range n).flatMap (fun (k : Nat) => g (a + Int.ofNat k)) =
      (match n with | 0 => [] | m + 1 => g a ++ (List.range m).flatMap (fun (k : Nat) => g ((a + 1) + Int.ofNat k)))
  | 0, _ => by simp
  | m + 1, a => by
    rw [List.range_succ_eq_map, List.flatMap_cons, List.flatMap_map]
    have hf : (fun (k : Nat) => g (a + Int.ofNat (k + 1))) = fun (k : Nat) => g ((a + 1) + Int.ofNat k) := by
      funext k
      have : a + Int.ofNat (k + 1) = a + 1 + Int.ofNat k := by simp only [Int.ofNat_eq_natCast, Int.natCast_add, Int.natCast_one]; omega
      rw [this]
    simp only [Nat.succ_eq_add_one, hf]
    simp

theorem boxIndices_blocks (B' : List (List Int)) : ∀ (n : Nat) (a : Int),
    (List.range n).flatMap (fun (k : Nat) => B'.map fun r => (a + Int.ofNat k) :: r) = blocks B' a n
  | 0, _ => by simp [blocks]
  | m + 1, a => by
    rw [flatMap_range_shift (fun j => B'.map fun r => j :: r) (m + 1) a]
    simp only [blocks]
    rw [boxIndices_blocks B' m (a + 1)]

theorem run_blocks (e : Ext) (es : List Ext) (c0 : List Int) (tl : List (List Int))
    (hcyc : Run (nextIdx es) (c0 :: tl) c0 true) :
    ∀ (cnt : Nat) (i : Int), i + Int.ofNat (cnt + 1) = e.last →
      Run (nextIdx (e :: es)) (blocks (c0 :: tl) i (cnt + 1)) (e.first :: c0) true
  | 0, i, h => by
    have h1 : i + 1 = e.last := by simpa using h
    have := run_lift e es i (by omega) c0 (c0 :: tl) hcyc
    simp only [h1, if_true, decide_true] at this
    simpa [blocks] using this
  | cnt + 1, i, h => by
    have h1 : ¬ i + 1 = e.last := by simp only [Int.ofNat_eq_natCast, Int.natCast_add, Int.natCast_one] at h; omega
    have hb := run_lift e es i (by simp only [Int.ofNat_eq_natCast, Int.natCast_add, Int.natCast_one] at h; omega) c0 (c0 :: tl) hcyc
    simp only [h1, if_false, decide_false] at hb
    have hrest := run_blocks e es c0 tl hcyc cnt (i + 1) (by simp only [Int.ofNat_eq_natCast, Int.natCast_add, Int.natCast_one] at h ⊢; omega)
    have e1 : blocks (c0 :: tl) i (cnt + 1 + 1) = (c0 :: tl).map (i :: ·) ++ blocks (c0 :: tl) (i + 1) (cnt + 1) := rfl
    have e2 : blocks (c0 :: tl) (i + 1) (cnt + 1) = ((i + 1) :: c0) :: (tl.map ((i + 1) :: ·) ++ blocks (c0 :: tl) (i + 1 + 1) cnt) := by
      simp [blocks]
    rw [e1, e2]
    rw [e2] at hrest
    exact Run.append _ _ _ _ _ hb hrest

/-- **canonical enumeration.**  For a box with no empty extent, stepping with `next_canonical` from the first index
    tuple visits `boxIndices` in order, and from the last tuple wraps to the first one with carry. -/
theorem canonical_cycle : ∀ (xs : List Ext), (∀ e ∈ xs, e.first < e.last) →
    ∃ tl, boxIndices xs = xs.map Ext.first :: tl ∧ Run (nextIdx xs) (boxIndices xs) (xs.map Ext.first) true
  | [], _ => ⟨[], rfl, by simp [boxIndices, Run, nextIdx, Exts.nextCanonical]⟩
  | e :: es, h => by
    obtain ⟨tl, hb, hrun⟩ := canonical_cycle es (fun x hx => h x (List.mem_cons_of_mem _ hx))
    have he := h e (by simp)
    have hsz : e.size.toNat = (e.size.toNat - 1) + 1 := by simp [Ext.size]; omega
    have hbox : boxIndices (e :: es) = blocks (boxIndices es) e.first e.size.toNat := by
      simp only [boxIndices]; exact boxIndices_blocks _ _ _
    rw [hb] at hrun
    have hr := run_blocks e es (es.map Ext.first) tl hrun (e.size.toNat - 1) e.first (by
      simp only [Int.ofNat_eq_natCast, Int.natCast_add, Int.natCast_one]
      have : ((e.size.toNat - 1 : Nat) : Int) = e.size - 1 := by simp [Ext.size]; omega
      rw [this]; simp [Ext.size]; omega)
    rw [← hsz, ← hb, ← hbox] at hr
    refine ⟨tl.map (e.first :: ·) ++ blocks (boxIndices es) (e.first + 1) (e.size.toNat - 1), ?_, hr⟩
    rw [hbox, hsz, blocks, hb]; simp

/-! ### the walk of `std::for_each` over `elements()` -/

theorem walk_run (base : Int) (lay : Layout) (xs : List Ext) (e : ElemIt) (t : List Int) (c : Bool)
    (hfl : ∀ n, ∃ r, ElemRange.fromLinearG xs n = some r) :
    ∀ (l : List (List Int)) (s : List Int) (k : Int), Run (nextIdx xs) (s :: l) t c → e.n = k + Int.ofNat (l.length + 1) →
      ElemIt.walk ⟨base, lay, k, xs, s⟩ e (l.length + 1) = some ((s :: l).map (fun ns => base + lay.apply ns))
  | [], s, k, hrun, hn => by
    have hne : (k == e.n) = false := by simp at hn; simp; omega
    have hstep : Exts.nextCanonical xs s = (t, c) := hrun
    obtain ⟨r, hr⟩ := hfl (k + 1)
    have hinc : ∃ it', ElemIt.inc ⟨base, lay, k, xs, s⟩ = some it' := by
      simp only [ElemIt.inc, hstep]
      cases c <;> simp [hr]
    obtain ⟨it', hit⟩ := hinc
    rw [ElemIt.walk]
    simp [ElemIt.eq, hne, hit, ElemIt.walk, ElemIt.current, bind, Option.bind]
  | s' :: l', s, k, hrun, hn => by
    have hne : (k == e.n) = false := by simp only [List.length_cons, Int.ofNat_eq_natCast, Int.natCast_add, Int.natCast_one] at hn; simp; omega
    have hstep : Exts.nextCanonical xs s = (s', false) := hrun.1
    have ih := walk_run base lay xs e t c hfl l' s' (k + 1) hrun.2 (by
      simp only [List.length_cons, Int.ofNat_eq_natCast, Int.natCast_add, Int.natCast_one] at hn ⊢; omega)
    have hinc : ElemIt.inc ⟨base, lay, k, xs, s⟩ = some ⟨base, lay, k + 1, xs, s'⟩ := by
      simp [ElemIt.inc, hstep]
    simp only [List.length_cons, List.map_cons] at ih ⊢
    rw [ElemIt.walk]
    simp only [ElemIt.eq, hne, Bool.false_eq_true, if_false, hinc, bind, Option.bind, ih, ElemIt.current, pure]

theorem numElements_eq_nElems (xs : List Ext) : Exts.numElements xs = nElems xs := by
  induction xs with
  | nil => rfl
  | cons e es ih => simp [Exts.numElements, nElems, ih]

theorem fromLinear_zero : ∀ (xs : List Ext), nElems xs ≠ 0 → Exts.fromLinear xs 0 = some (List.replicate xs.length 0)
  | [], _ => rfl
  | [_], _ => rfl
  | e :: e2 :: es, h => by
    have hsub : nElems (e2 :: es) ≠ 0 := by intro h0; apply h; simp only [nElems] at h0 ⊢; rw [h0]; simp
    have ih := fromLinear_zero (e2 :: es) hsub
    simp only [Exts.fromLinear, numElements_eq_nElems, hsub, if_false, Int.zero_tmod, Int.zero_tdiv, ih]
    simp [List.replicate_succ]

theorem fromLinear_some : ∀ (xs : List Ext) (n : Int), nElems xs ≠ 0 → ∃ r, Exts.fromLinear xs n = some r
  | [], _, _ => ⟨[], rfl⟩
  | [_], n, _ => ⟨[n], rfl⟩
  | e :: e2 :: es, n, h => by
    have hsub : nElems (e2 :: es) ≠ 0 := by intro h0; apply h; simp only [nElems] at h0 ⊢; rw [h0]; simp
    obtain ⟨r, hr⟩ := fromLinear_some (e2 :: es) (n.tmod (nElems (e2 :: es))) hsub
    refine ⟨n.tdiv (nElems (e2 :: es)) :: r, ?_⟩
    simp only [Exts.fromLinear, numElements_eq_nElems, hsub, if_false, hr, Option.map]

theorem fromLinearG_some (xs : List Ext) (n : Int) : ∃ r, ElemRange.fromLinearG xs n = some r := by
  unfold ElemRange.fromLinearG
  by_cases h : Exts.numElements xs = 0
  · exact ⟨_, by rw [if_pos h]⟩
  · rw [if_neg h]; exact fromLinear_some xs n (by rwa [numElements_eq_nElems] at h)

theorem boxIndices_empty : ∀ (xs : List Ext), Valid xs → nElems xs = 0 → boxIndices xs = []
  | [], _, h => by simp [nElems] at h
  | e :: es, hv, h => by
    simp only [nElems] at h
    simp only [boxIndices]
    rcases Int.mul_eq_zero.mp h with h1 | h1
    · rw [h1]; simp
    · rw [boxIndices_empty es (fun x hx => hv x (List.mem_cons_of_mem _ hx)) h1]; simp

/-- extensions of a zero-based well-formed layout: `[0, size)` -/
theorem zeroOff_exts {l : Layout} (h : l.WF) :
    Valid (Layout.exts (l.map Dim.zeroOff)) ∧ (Layout.exts (l.map Dim.zeroOff)).map Ext.first = List.replicate l.length 0 := by
  induction l with
  | nil => exact ⟨fun _ h => by simp [Layout.exts] at h, rfl⟩
  | cons d l ih =>
    obtain ⟨i1, i2⟩ := ih h.tail
    have hd : (Dim.zeroOff d).WF := zeroOff_wf (l := [d]) (fun x hx => by simp at hx; rw [hx]; exact h.head) _ (by simp)
    have hfirst : (Dim.zeroOff d).ext.first = 0 ∧ (Dim.zeroOff d).ext.first ≤ (Dim.zeroOff d).ext.last := by
      rcases hd.cases with h0 | ⟨f, n, hn, hs, hoff, _, hext, _⟩
      · rw [Dim.ext_of_nelems_zero h0]; simp
      · have hf : f = 0 := by
          simp only [Dim.zeroOff] at hoff hs
          rcases Int.mul_eq_zero.mp hoff.symm with h1 | h1
          · exact h1
          · omega
        rw [hext, hf]; simp; omega
    constructor
    · intro x hx
      simp only [List.map_cons, Layout.exts, List.mem_cons] at hx
      rcases hx with hx | hx
      · rw [hx]; exact hfirst.2
      · exact i1 x hx
    · simp only [List.map_cons, Layout.exts, List.length_cons, List.replicate_succ, hfirst.1]
      congr 1

/-- **`elements()` visits the elements in canonical order.**  For a well-formed view, the iterator walk of
    `for_each(elements().begin(), elements().end(), …)` yields the canonical address list. -/
theorem elements_walk (v : View) (hwf : v.lay.WF) :
    (do let r := ElemRange.ofView v
        let b ← r.begin'
        let e ← r.end'
        b.walk e (e.diff b).toNat) = some (v.lay.canonOffs.map (v.base + ·)) := by
  have hl0 : ElemRange.ofView v = ⟨v.base, v.lay.map Dim.zeroOff⟩ := by simp [ElemRange.ofView, reindex_all_zeros]
  have hwf0 := zeroOff_wf hwf
  obtain ⟨hval, hfirst⟩ := zeroOff_exts hwf
  have hnum : Layout.numElements (v.lay.map Dim.zeroOff) = nElems (Layout.exts (v.lay.map Dim.zeroOff)) :=
    (C01.shape_functions_agree ⟨v.base, v.lay.map Dim.zeroOff⟩ hwf0).2.1
  -- the canonical list in terms of the zero-based layout
  have hcanon : (boxIndices (Layout.exts (v.lay.map Dim.zeroOff))).map (fun ns => v.base + Layout.apply (v.lay.map Dim.zeroOff) ns) =
      v.lay.canonOffs.map (v.base + ·) := by
    rw [← canonOffs_zeroOff, ← boxIndices_off _ hwf0, List.map_map]
    apply List.map_congr_left
    intro ns _
    simp [apply_zeroOff]
  rw [hl0]
  simp only [ElemRange.begin', ElemRange.end', ElemRange.mkIt, ElemRange.fromLinearG, numElements_eq_nElems, hnum]
  by_cases h0 : nElems (Layout.exts (v.lay.map Dim.zeroOff)) = 0
  · -- no element: begin == end
    simp only [h0, if_true, Option.map, bind, Option.bind, pure, ElemIt.diff, Int.sub_self, Int.toNat_zero, ElemIt.walk]
    rw [← hcanon, boxIndices_empty _ hval h0]; rfl
  · have hpos : ∀ e ∈ Layout.exts (v.lay.map Dim.zeroOff), e.first < e.last := by
      intro e he
      have h1 := hval e he
      have : e.first ≠ e.last := by
        intro heq
        apply h0
        clear hcanon hnum hfirst
        have : ∀ (xs : List Ext), e ∈ xs → nElems xs = 0 := by
          intro xs
          induction xs with
          | nil => intro h; simp at h
          | cons x xs ih =>
            intro h
            simp only [nElems]
            rcases List.mem_cons.mp h with h | h
            · subst h; simp [Ext.size, heq]
            · rw [ih h]; simp
        exact this _ he
      omega
    obtain ⟨tl, hb, hrun⟩ := canonical_cycle _ hpos
    obtain ⟨rend, hrend⟩ := fromLinear_some (Layout.exts (v.lay.map Dim.zeroOff)) (nElems (Layout.exts (v.lay.map Dim.zeroOff))) h0
    have hlen : (boxIndices (Layout.exts (v.lay.map Dim.zeroOff))).length = (nElems (Layout.exts (v.lay.map Dim.zeroOff))).toNat :=
      boxIndices_length _ hval
    have hnn : 0 ≤ nElems (Layout.exts (v.lay.map Dim.zeroOff)) := C01.nElems_nonneg _ hval
    simp only [h0, if_false, fromLinear_zero _ h0, hrend, Option.map, bind, Option.bind, pure, ElemIt.diff, Int.sub_zero]
    rw [← hcanon, hb]
    rw [hb] at hrun hlen
    have hzero : List.replicate (Layout.exts (List.map Dim.zeroOff v.lay)).length (0 : Int) = (Layout.exts (v.lay.map Dim.zeroOff)).map Ext.first := by
      rw [hfirst]; simp [Layout.exts]
    rw [hzero]
    have hfuel : (nElems (Layout.exts (v.lay.map Dim.zeroOff))).toNat = tl.length + 1 := by rw [← hlen]; simp
    rw [hfuel]
    have := walk_run v.base (v.lay.map Dim.zeroOff) (Layout.exts (v.lay.map Dim.zeroOff))
      ⟨v.base, v.lay.map Dim.zeroOff, nElems (Layout.exts (v.lay.map Dim.zeroOff)), Layout.exts (v.lay.map Dim.zeroOff), rend⟩
      ((Layout.exts (v.lay.map Dim.zeroOff)).map Ext.first) true (fromLinearG_some _) tl ((Layout.exts (v.lay.map Dim.zeroOff)).map Ext.first) 0 hrun (by
        simp only [Int.zero_add]
        have : Int.ofNat (tl.length + 1) = ((nElems (Layout.exts (v.lay.map Dim.zeroOff))).toNat : Int) := by rw [hfuel]; rfl
        rw [this]; omega)
    rw [this]

/-! ### the walk of `for_each(begin(), end(), …)` on a one-dimensional view -/

theorem arr_walk (base stride : Int) (hs : 0 < stride) (sub : Layout) (n : Nat) : ∀ (fuel k : Nat), k + fuel = n →
    ArrIt.walk ⟨base + Int.ofNat k * stride, stride, sub⟩ ⟨base + Int.ofNat n * stride, stride, sub⟩ fuel =
      (List.range fuel).map (fun (j : Nat) => base + (Int.ofNat k + Int.ofNat j) * stride)
  | 0, _, _ => by simp [ArrIt.walk]
  | fuel + 1, k, h => by
    have hlt : Int.ofNat k * stride < Int.ofNat n * stride := by
      apply Int.mul_lt_mul_of_pos_right _ hs
      simp only [Int.ofNat_eq_natCast]; omega
    have hne : (base + Int.ofNat k * stride == base + Int.ofNat n * stride) = false := by
      simp only [Int.ofNat_eq_natCast] at hlt ⊢; simp; omega
    rw [ArrIt.walk]
    simp only [ArrIt.eq, hne, Bool.false_eq_true, if_false, ArrIt.inc]
    have e1 : base + Int.ofNat k * stride + stride = base + Int.ofNat (k + 1) * stride := by
      simp only [Int.ofNat_eq_natCast, Int.natCast_add, Int.natCast_one, Int.add_mul, Int.one_mul]; omega
    rw [e1, arr_walk base stride hs sub n fuel (k + 1) (by omega), List.range_succ_eq_map]
    simp only [List.map_cons, List.map_map, Int.ofNat_eq_natCast, Int.natCast_zero, Int.add_zero]
    congr 1
    apply List.map_congr_left
    intro j _
    simp only [Function.comp, Nat.succ_eq_add_one, Int.natCast_add, Int.natCast_one]
    congr 2; omega

/-- both `serialize` overloads of a view visit its elements in canonical order -/
theorem serialAddrs_canonical (v : View) (hwf : v.lay.WF) (k : ViewKind) :
    v.serialAddrs k = some (v.lay.canonOffs.map (v.base + ·)) := by
  have hgen := elements_walk v hwf
  unfold View.serialAddrs
  cases hl : v.lay with
  | nil => simp [Layout.canonOffs]
  | cons d sub =>
    cases sub with
    | nil =>
      cases k with
      | elements => simp only; rw [← hl]; exact hgen
      | beginEnd =>
        simp only [View.begin', View.end', hl, ArrIt.diff]
        have hd : d.WF := by rw [hl] at hwf; exact hwf.head
        rcases hd.cases with h0 | ⟨f, n, hn, hs, _, hne, _, hsz⟩
        · simp [h0, ArrIt.walk, Layout.canonOffs, Dim.size_of_nelems_zero h0]
        · have hdiff : (v.base + d.nelems - v.base).tdiv d.stride = n := by
            have : v.base + d.nelems - v.base = n * d.stride := by rw [hne]; omega
            rw [this]; exact Int.mul_tdiv_cancel _ (by omega)
          rw [hdiff]
          have hn' : n = Int.ofNat n.toNat := by simp only [Int.ofNat_eq_natCast]; omega
          have h1 := arr_walk v.base d.stride hs [] n.toNat n.toNat 0 (by omega)
          simp only [Int.ofNat_eq_natCast, Int.natCast_zero, Int.zero_mul, Int.add_zero, Int.zero_add] at h1
          have e2 : v.base + d.nelems = v.base + (n.toNat : Int) * d.stride := by
            have : ((n.toNat : Nat) : Int) = n := by omega
            rw [hne, this]
          rw [e2, h1]
          simp only [Layout.canonOffs, hsz, List.map_flatMap, List.map_cons, List.map_nil, Int.ofNat_eq_natCast, Int.add_zero]
          congr 1
          clear h1 e2 hn' hdiff
          induction (List.range n.toNat) with
          | nil => rfl
          | cons x xs ih => simp [List.flatMap_cons, ih]
    | cons d1 rest => simp only; rw [← hl]; exact hgen

end Multi
