/-
  C02 stated directly about the regenerated iterator code (see CodeRefines.lean)
-/
import MultiProofs.C02
import MultiProofs.GenTieIter

namespace Multi.CodeRefines
open Multi Multi.Gen

/-- **C02 on the regenerated `array_iterator`** (D > 1 operators `I_*`; the D = 1 operators `I1_*` are the same functions by
    `GenTieIter.array_iterator_is_the_code`): the random-access laws, stated about the code as it is today -/
theorem code_arrit_laws (it : ArrIt) (n m : Int) (hs : it.stride ≠ 0) :
    I_dec (I_inc it) = it ∧ I_inc (I_dec it) = it ∧ I_inc it = I_add it 1 ∧ I_dec it = I_sub it 1 ∧
    I_sub (I_add it n) n = it ∧ I_diff (I_add it n) it = n ∧ I_diff (I_add it n) (I_add it m) = n - m ∧
    (I_lt it (I_add it n) = decide (0 < n)) ∧ (I_lt (I_add it n) it = decide (n < 0)) ∧
    I_at it n = I_deref (I_add it n) ∧
    I1_dec (I1_inc it) = it ∧ I1_sub (I1_add it n) n = it ∧ I1_diff (I1_add it n) it = n := by
  have h := C02.arrit_laws it n m hs
  have e1 := GenTieIter.I_inc_tie; have e2 := GenTieIter.I_dec_tie; have e3 := GenTieIter.I_add_tie
  have e4 := GenTieIter.I_sub_tie; have e5 := GenTieIter.I_diff_tie; have e6 := GenTieIter.I_lt_tie
  have e7 := GenTieIter.I_at_tie; have e8 := GenTieIter.I_deref_tie
  simp only [(e1 _).1, (e1 _).2, (e2 _).1, (e2 _).2, (e3 _ _).1, (e3 _ _).2, (e4 _ _).1, (e4 _ _).2, (e5 _ _).1, (e5 _ _).2,
    (e6 _ _).1, (e7 _ _).1, (e8 _).1]
  exact ⟨h.1, h.2.1, h.2.2.1, h.2.2.2.1, h.2.2.2.2.1, h.2.2.2.2.2.1, h.2.2.2.2.2.2.1, h.2.2.2.2.2.2.2.1, h.2.2.2.2.2.2.2.2.1,
    h.2.2.2.2.2.2.2.2.2.1, h.1, h.2.2.2.2.1, h.2.2.2.2.2.1⟩

end Multi.CodeRefines
