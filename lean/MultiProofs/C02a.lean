/-
  MultiProofs.C02a — array_iterator (begin()/end()) laws and the zero-based layout of elements ranges.
-/
import MultiProofs.C01

namespace Multi

/-! ### `array_iterator` -/

theorem ArrIt.ext_eq {a b : ArrIt} (h1 : a.ptr = b.ptr) (h2 : a.stride = b.stride) (h3 : a.sub = b.sub) : a = b := by
  cases a; cases b; simp_all

theorem arrit_inc_dec (it : ArrIt) : it.inc.dec = it ∧ it.dec.inc = it := by
  constructor <;> (apply ArrIt.ext_eq <;> simp [ArrIt.inc, ArrIt.dec]) <;> omega

theorem arrit_add_sub (it : ArrIt) (n : Int) : (it.add n).sub' n = it ∧ (it.sub' n).add n = it := by
  constructor <;> (apply ArrIt.ext_eq <;> simp [ArrIt.add, ArrIt.sub']) <;> omega

theorem arrit_add_add (it : ArrIt) (n m : Int) : (it.add n).add m = it.add (n + m) := by
  apply ArrIt.ext_eq <;> simp [ArrIt.add]
  rw [Int.mul_add]; omega

theorem arrit_diff_add (it : ArrIt) (n : Int) (hs : it.stride ≠ 0) : (it.add n).diff it = n := by
  simp only [ArrIt.diff, ArrIt.add]
  have : it.ptr + it.stride * n - it.ptr = it.stride * n := by omega
  rw [this]; exact Int.mul_tdiv_cancel_left _ hs

theorem arrit_diff_add2 (it : ArrIt) (n m : Int) (hs : it.stride ≠ 0) : (it.add n).diff (it.add m) = n - m := by
  simp only [ArrIt.diff, ArrIt.add]
  have : it.ptr + it.stride * n - (it.ptr + it.stride * m) = it.stride * (n - m) := by rw [Int.mul_sub]; omega
  rw [this]; exact Int.mul_tdiv_cancel_left _ hs

theorem arrit_inc_eq_add (it : ArrIt) : it.inc = it.add 1 ∧ it.dec = it.sub' 1 := by
  constructor <;> (apply ArrIt.ext_eq <;> simp [ArrIt.inc, ArrIt.dec, ArrIt.add, ArrIt.sub'])

/-! ### the zero-based layout copy held by `elements_range_t` -/

def Layout.zeroBased (l : Layout) : Layout := l.map fun d => { d with offset := 0 }

theorem reindex1_cons (d : Dim) (l : Layout) (i : Int) :
    Layout.reindex1 (d :: l) i = { d with offset := i * d.stride } :: l := rfl

theorem reindex_append (l x : Layout) (is : List Int) (h : is.length ≤ l.length) :
    Layout.reindex (l ++ x) is = Layout.reindex l is ++ x := by
  induction is generalizing l x with
  | nil => simp [Layout.reindex]
  | cons i rest ih =>
    cases l with
    | nil => simp at h
    | cons d l =>
      cases rest with
      | nil => simp [Layout.reindex, Layout.reindex1]
      | cons j rest' =>
        have hlen : (j :: rest').length ≤ l.length := by simp at h ⊢; omega
        simp only [Layout.reindex, List.cons_append, reindex1_cons, rotate_cons]
        generalize ({ d with offset := i * d.stride } : Dim) = d'
        have e1 : l ++ x ++ [d'] = l ++ (x ++ [d']) := by simp
        rw [e1, ih l (x ++ [d']) hlen, ih l [d'] hlen]
        have e2 : Layout.reindex l (j :: rest') ++ (x ++ [d']) = (Layout.reindex l (j :: rest') ++ x) ++ [d'] := by simp
        rw [e2, unrotate_snoc, unrotate_snoc]
        simp

theorem reindex_cons (d : Dim) (l : Layout) (i : Int) (rest : List Int) (h : rest.length ≤ l.length) :
    Layout.reindex (d :: l) (i :: rest) = { d with offset := i * d.stride } :: Layout.reindex l rest := by
  cases rest with
  | nil => simp [Layout.reindex, Layout.reindex1]
  | cons j rest' =>
    simp only [Layout.reindex, reindex1_cons, rotate_cons]
    rw [reindex_append l _ _ h, unrotate_snoc]

/-- `lyt.reindex(0, 0, ...)` zeroes every offset and changes nothing else -/
theorem reindex_zeros (l : Layout) : Layout.reindex l (List.replicate l.length 0) = Layout.zeroBased l := by
  induction l with
  | nil => simp [Layout.reindex, Layout.zeroBased]
  | cons d l ih =>
    simp only [List.length_cons, List.replicate_succ]
    rw [reindex_cons d l 0 _ (by simp), ih]
    simp [Layout.zeroBased]

theorem ofView_eq (v : View) : ElemRange.ofView v = ⟨v.base, Layout.zeroBased v.lay⟩ := by
  simp [ElemRange.ofView, reindex_zeros]

end Multi
