/-
  MultiProofs.Radix2 — `next_canonical` / `prev_canonical` step the linear position by one.
-/
import MultiProofs.Radix

namespace Multi

def backsLike (szs : List Int) : List Int := szs.map fun n => n - 1

theorem inPos_zeros {szs : List Int} (hp : AllPos szs) : InPos szs (zerosLike szs) := by
  induction szs with
  | nil => simp [InPos, zerosLike]
  | cons n ns ih => exact ⟨⟨by simp, by simpa using hp.head⟩, ih hp.tail⟩

theorem inPos_backs {szs : List Int} (hp : AllPos szs) : InPos szs (backsLike szs) := by
  induction szs with
  | nil => simp [InPos, backsLike]
  | cons n ns ih => exact ⟨⟨by have := hp.head; simp; omega, by simp; omega⟩, ih hp.tail⟩

theorem toLinear_zeros (szs : List Int) : Exts.toLinear (zexts szs) (zerosLike szs) = 0 := by
  induction szs with
  | nil => rfl
  | cons n ns ih =>
    cases ns with
    | nil => simp [Exts.toLinear, zexts, zerosLike]
    | cons m ms =>
      have : zerosLike (n :: m :: ms) = 0 :: zerosLike (m :: ms) := rfl
      rw [this, toLinear_cons2, ih]; simp

theorem toLinear_backs {szs : List Int} (hne : szs ≠ []) :
    Exts.toLinear (zexts szs) (backsLike szs) = prodSizes szs - 1 := by
  induction szs with
  | nil => exact absurd rfl hne
  | cons n ns ih =>
    cases ns with
    | nil => simp [Exts.toLinear, zexts, backsLike, prodSizes]
    | cons m ms =>
      have : backsLike (n :: m :: ms) = (n - 1) :: backsLike (m :: ms) := rfl
      rw [this, toLinear_cons2, ih (by simp)]
      simp only [prodSizes]
      rw [Int.sub_mul]; omega

/-- `next_canonical` on a position tuple: steps to the next position, or wraps to all-zeros with carry at the last -/
theorem next_spec {szs ps : List Int} (hp : AllPos szs) (hne : szs ≠ []) (h : InPos szs ps) :
    ∃ ps' c, Exts.nextCanonical (zexts szs) ps = (ps', c) ∧
      ((Exts.toLinear (zexts szs) ps + 1 < prodSizes szs ∧ c = false ∧ InPos szs ps' ∧
          Exts.toLinear (zexts szs) ps' = Exts.toLinear (zexts szs) ps + 1) ∨
       (Exts.toLinear (zexts szs) ps + 1 = prodSizes szs ∧ c = true ∧ ps' = zerosLike szs)) := by
  induction szs generalizing ps with
  | nil => exact absurd rfl hne
  | cons n ns ih =>
    cases ps with
    | nil => simp [InPos] at h
    | cons p ps =>
      obtain ⟨⟨h0, h1⟩, h2⟩ := h
      cases ns with
      | nil =>
        cases ps with
        | cons _ _ => simp [InPos] at h2
        | nil =>
          by_cases hl : p = n - 1
          · refine ⟨[0], true, ?_, Or.inr ⟨?_, rfl, rfl⟩⟩
            · simp [Exts.nextCanonical, zexts, Ext.back, hl]
            · simp [Exts.toLinear, zexts, prodSizes]; omega
          · refine ⟨[p + 1], false, ?_, Or.inl ⟨?_, rfl, ?_, ?_⟩⟩
            · simp [Exts.nextCanonical, zexts, Ext.back, hl]
            · simp [Exts.toLinear, zexts, prodSizes]; omega
            · simp [InPos]; omega
            · simp [Exts.toLinear, zexts]
      | cons m ms =>
        have hM := prodSizes_pos hp.tail
        obtain ⟨t0, t1⟩ := toLinear_range hp.tail h2
        obtain ⟨qs, c, e, hcase⟩ := ih hp.tail (by simp) h2
        have hstep : Exts.nextCanonical (zexts (n :: m :: ms)) (p :: ps)
            = (let i' := if c then p + 1 else p
               if i' == n then (0 :: qs, true) else (i' :: qs, false)) := by
          simp only [zexts, List.map_cons, Exts.nextCanonical] at e ⊢
          rw [e]
        rw [toLinear_cons2]
        rcases hcase with ⟨a1, a2, a3, a4⟩ | ⟨a1, a2, a3⟩
        · -- no carry from the inner dimensions
          subst a2
          have hpn : (p == n) = false := by simp; omega
          refine ⟨p :: qs, false, by rw [hstep]; simp [hpn], Or.inl ⟨?_, rfl, ⟨⟨h0, h1⟩, a3⟩, ?_⟩⟩
          · have b1 : p * prodSizes (m :: ms) ≤ (n - 1) * prodSizes (m :: ms) :=
              Int.mul_le_mul_of_nonneg_right (by omega) (Int.le_of_lt hM)
            have b2 : (n - 1) * prodSizes (m :: ms) = n * prodSizes (m :: ms) - prodSizes (m :: ms) := by
              rw [Int.sub_mul]; simp
            simp only [prodSizes] at b1 b2 a1 ⊢; omega
          · rw [toLinear_cons2, a4]; omega
        · subst a2; subst a3
          by_cases hl : p + 1 = n
          · refine ⟨0 :: zerosLike (m :: ms), true, by rw [hstep]; simp [hl], Or.inr ⟨?_, rfl, rfl⟩⟩
            have : (p + 1) * prodSizes (m :: ms) = p * prodSizes (m :: ms) + prodSizes (m :: ms) := by
              rw [Int.add_mul]; simp
            rw [hl] at this
            simp only [prodSizes] at this a1 ⊢; omega
          · have hpn : (p + 1 == n) = false := by simp; omega
            refine ⟨(p + 1) :: zerosLike (m :: ms), false, by rw [hstep]; simp [hpn], Or.inl ⟨?_, rfl, ⟨⟨by omega, by omega⟩, inPos_zeros hp.tail⟩, ?_⟩⟩
            · have b1 : (p + 1) * prodSizes (m :: ms) ≤ (n - 1) * prodSizes (m :: ms) :=
                Int.mul_le_mul_of_nonneg_right (by omega) (Int.le_of_lt hM)
              have b2 : (n - 1) * prodSizes (m :: ms) = n * prodSizes (m :: ms) - prodSizes (m :: ms) := by
                rw [Int.sub_mul]; simp
              have b3 : (p + 1) * prodSizes (m :: ms) = p * prodSizes (m :: ms) + prodSizes (m :: ms) := by
                rw [Int.add_mul]; simp
              simp only [prodSizes] at b1 b2 b3 a1 ⊢; omega
            · rw [toLinear_cons2, toLinear_zeros]
              have b3 : (p + 1) * prodSizes (m :: ms) = p * prodSizes (m :: ms) + prodSizes (m :: ms) := by
                rw [Int.add_mul]; simp
              omega

/-- `prev_canonical` on a position tuple: steps to the previous position, or wraps to the last with carry at 0 -/
theorem prev_spec {szs ps : List Int} (hp : AllPos szs) (hne : szs ≠ []) (h : InPos szs ps) :
    ∃ ps' c, Exts.prevCanonical (zexts szs) ps = (ps', c) ∧
      ((0 < Exts.toLinear (zexts szs) ps ∧ c = false ∧ InPos szs ps' ∧
          Exts.toLinear (zexts szs) ps' = Exts.toLinear (zexts szs) ps - 1) ∨
       (Exts.toLinear (zexts szs) ps = 0 ∧ c = true ∧ ps' = backsLike szs)) := by
  induction szs generalizing ps with
  | nil => exact absurd rfl hne
  | cons n ns ih =>
    cases ps with
    | nil => simp [InPos] at h
    | cons p ps =>
      obtain ⟨⟨h0, h1⟩, h2⟩ := h
      cases ns with
      | nil =>
        cases ps with
        | cons _ _ => simp [InPos] at h2
        | nil =>
          by_cases hl : p = 0
          · refine ⟨[n - 1], true, ?_, Or.inr ⟨?_, rfl, rfl⟩⟩
            · simp [Exts.prevCanonical, zexts, Ext.back, hl]
            · simp [Exts.toLinear, zexts, hl]
          · refine ⟨[p - 1], false, ?_, Or.inl ⟨?_, rfl, ?_, ?_⟩⟩
            · simp [Exts.prevCanonical, zexts, hl]
            · simp [Exts.toLinear, zexts]; omega
            · simp [InPos]; omega
            · simp [Exts.toLinear, zexts]
      | cons m ms =>
        have hM := prodSizes_pos hp.tail
        obtain ⟨t0, t1⟩ := toLinear_range hp.tail h2
        obtain ⟨qs, c, e, hcase⟩ := ih hp.tail (by simp) h2
        have hstep : Exts.prevCanonical (zexts (n :: m :: ms)) (p :: ps)
            = (let i' := if c then p - 1 else p
               if i' < 0 then ((n - 1) :: qs, true) else (i' :: qs, false)) := by
          simp only [zexts, List.map_cons, Exts.prevCanonical, Ext.back] at e ⊢
          rw [e]
        rw [toLinear_cons2]
        have hpM : 0 ≤ p * prodSizes (m :: ms) := Int.mul_nonneg h0 (Int.le_of_lt hM)
        rcases hcase with ⟨a1, a2, a3, a4⟩ | ⟨a1, a2, a3⟩
        · subst a2
          have hp0 : ¬ p < 0 := by omega
          refine ⟨p :: qs, false, by rw [hstep]; simp [hp0], Or.inl ⟨by omega, rfl, ⟨⟨h0, h1⟩, a3⟩, ?_⟩⟩
          rw [toLinear_cons2, a4]; omega
        · subst a2; subst a3
          by_cases hl : p = 0
          · subst hl
            refine ⟨(n - 1) :: backsLike (m :: ms), true, by rw [hstep]; simp, Or.inr ⟨by simp [a1], rfl, rfl⟩⟩
          · have hp0 : ¬ p - 1 < 0 := by omega
            refine ⟨(p - 1) :: backsLike (m :: ms), false, by rw [hstep]; simp [hp0], Or.inl ⟨?_, rfl, ⟨⟨by omega, by omega⟩, inPos_backs hp.tail⟩, ?_⟩⟩
            · have : 1 * prodSizes (m :: ms) ≤ p * prodSizes (m :: ms) :=
                Int.mul_le_mul_of_nonneg_right (by omega) (Int.le_of_lt hM)
              omega
            · rw [toLinear_cons2, toLinear_backs (by simp), a1]
              have b3 : (p - 1) * prodSizes (m :: ms) = p * prodSizes (m :: ms) - prodSizes (m :: ms) := by
                rw [Int.sub_mul]; simp
              omega

end Multi
