/-
  MultiProofs.Perm — rotated, unrotated, transposed, reversed permute the dimensions.
-/
import MultiProofs.Ops

namespace Multi

theorem inBox_length {es : List Ext} {idx : List Int} (h : InBox es idx) : idx.length = es.length := by
  induction es generalizing idx with
  | nil => cases idx <;> simp_all [InBox]
  | cons e es ih =>
    cases idx with
    | nil => simp [InBox] at h
    | cons t r => simp [ih h.2]

theorem off_append (l : Layout) (d : Dim) (r : List Int) (t : Int) (h : r.length = l.length) :
    Layout.off (l ++ [d]) (r ++ [t]) = Layout.off l r + (t * d.stride - d.offset) := by
  induction l generalizing r with
  | nil =>
    cases r with
    | nil => simp [Layout.off]
    | cons _ _ => simp at h
  | cons d0 l ih =>
    cases r with
    | nil => simp at h
    | cons t0 r =>
      simp only [List.cons_append, Layout.off]
      rw [ih r (by simpa using h)]
      omega

theorem inBox_append {es : List Ext} {e : Ext} {r : List Int} {t : Int} :
    InBox (es ++ [e]) (r ++ [t]) ↔ (InBox es r ∧ e.first ≤ t ∧ t < e.last) := by
  induction es generalizing r with
  | nil =>
    cases r with
    | nil => simp [InBox]
    | cons a r => cases r <;> simp [InBox]
  | cons e0 es ih =>
    cases r with
    | nil => cases es <;> simp [InBox]
    | cons a r =>
      simp only [List.cons_append, InBox]
      rw [ih]
      constructor
      · rintro ⟨h1, h2, h3⟩; exact ⟨⟨h1, h2⟩, h3⟩
      · rintro ⟨⟨h1, h2⟩, h3⟩; exact ⟨h1, h2, h3⟩

/-- every index tuple of a box over `es ++ [e]` is `r ++ [t]` -/
theorem inBox_snoc_split {es : List Ext} {e : Ext} {idx : List Int} (h : InBox (es ++ [e]) idx) :
    ∃ r t, idx = r ++ [t] := by
  have hl := inBox_length h
  rcases List.eq_nil_or_concat idx with h0 | ⟨r, t, h1⟩
  · subst h0; simp at hl
  · exact ⟨r, t, by rw [h1, List.concat_eq_append]⟩

theorem wf_append {l : Layout} {d : Dim} (h : Layout.WF (l ++ [d])) : Layout.WF l ∧ d.WF :=
  ⟨fun x hx => h x (List.mem_append_left _ hx), h d (by simp)⟩

theorem wf_of_perm {l l' : Layout} (h : ∀ x, x ∈ l' → x ∈ l) (hwf : Layout.WF l) : Layout.WF l' :=
  fun x hx => hwf x (h x hx)

theorem rotated_refines (v : View) (hwf : v.lay.WF) :
    Refines v v.rotated (Op.rotated.specShape v.exts) (Op.rotated.specMap v.exts) := by
  cases hv : v.lay with
  | nil =>
    refine ⟨by simp [View.rotated, hv, Layout.rotate, Layout.WF], by simp [View.rotated, View.exts, hv, Layout.rotate, Layout.exts, Op.specShape], ?_⟩
    intro idx hidx
    simp [View.exts, hv, Layout.exts, Op.specShape] at hidx
    cases idx with
    | nil => simp [Op.specMap, addr_eq, View.rotated, hv, Layout.rotate, View.exts, Layout.exts, InBox]
    | cons _ _ => simp [InBox] at hidx
  | cons d sub =>
    have hr : v.rotated = ⟨v.base, sub ++ [d]⟩ := by simp [View.rotated, hv, rotate_cons]
    rw [hr, View.exts_cons hv]
    refine ⟨?_, by simp [View.exts, Layout.exts, Op.specShape], ?_⟩
    · rw [hv] at hwf
      intro x hx
      apply hwf x
      simp only [List.mem_append, List.mem_cons, List.not_mem_nil, or_false] at hx ⊢
      rcases hx with h | h
      · exact Or.inr h
      · exact Or.inl h
    · intro idx hidx
      simp only [Op.specShape] at hidx
      have hidx' : InBox (Layout.exts sub ++ [d.ext]) idx := hidx
      obtain ⟨r, t, rfl⟩ := inBox_snoc_split hidx'
      obtain ⟨h1, h2, h3⟩ := inBox_append.mp hidx'
      have hlen : r.length = sub.length := by
        have := inBox_length h1; simpa [Layout.exts] using this
      have hm : Op.rotated.specMap (d.ext :: Layout.exts sub) (r ++ [t]) = t :: r := by
        simp [Op.specMap]
      rw [hm, addr_eq, addr_eq, hv]
      constructor
      · simp only [off_append sub d r t hlen, Layout.off]; omega
      · rw [View.exts_cons hv]; simp only [InBox]; exact ⟨⟨h2, h3⟩, h1⟩

theorem unrotate_eq_snoc (l : Layout) (d : Dim) : Layout.unrotate (l ++ [d]) = d :: l := unrotate_snoc l d

theorem unrotated_refines (v : View) (hwf : v.lay.WF) :
    Refines v v.unrotated (Op.unrotated.specShape v.exts) (Op.unrotated.specMap v.exts) := by
  rcases List.eq_nil_or_concat v.lay with hv | ⟨l, d, hv⟩
  · refine ⟨by simp [View.unrotated, hv, Layout.unrotate, Layout.WF], by simp [View.unrotated, View.exts, hv, Layout.unrotate, Layout.exts, Op.specShape], ?_⟩
    intro idx hidx
    simp [View.exts, hv, Layout.exts, Op.specShape] at hidx
    cases idx with
    | nil => simp [Op.specMap, addr_eq, View.unrotated, hv, Layout.unrotate, View.exts, Layout.exts, InBox]
    | cons _ _ => simp [InBox] at hidx
  · rw [List.concat_eq_append] at hv
    have hr : v.unrotated = ⟨v.base, d :: l⟩ := by simp [View.unrotated, hv, unrotate_snoc]
    have hex : v.exts = Layout.exts l ++ [d.ext] := by simp [View.exts, hv, Layout.exts]
    rw [hr, hex]
    have hshape : Op.unrotated.specShape (Layout.exts l ++ [d.ext]) = d.ext :: Layout.exts l := by
      simp [Op.specShape]
    rw [hshape]
    refine ⟨?_, by simp [View.exts, Layout.exts], ?_⟩
    · rw [hv] at hwf
      intro x hx
      apply hwf x
      simp only [List.mem_append, List.mem_cons, List.not_mem_nil, or_false] at hx ⊢
      rcases hx with h | h
      · exact Or.inr h
      · exact Or.inl h
    · intro idx hidx
      obtain ⟨t, r, rfl, h1, h2, h3⟩ := inBox_cons hidx
      have hlen : r.length = l.length := by
        have := inBox_length h3; simpa [Layout.exts] using this
      have hm : Op.unrotated.specMap (Layout.exts l ++ [d.ext]) (t :: r) = r ++ [t] := by
        simp [Op.specMap]
      rw [hm, addr_eq, addr_eq, hv]
      constructor
      · simp only [off_append l d r t hlen, Layout.off]; omega
      · rw [hex]; exact inBox_append.mpr ⟨h3, h1, h2⟩

theorem transposed_refines (v : View) (hwf : v.lay.WF) (hd : Op.transposed.InDomain v) :
    Refines v v.transposed (Op.transposed.specShape v.exts) (Op.transposed.specMap v.exts) := by
  cases hv : v.lay with
  | nil => simp [Op.InDomain, hv] at hd
  | cons d0 l =>
    cases l with
    | nil => simp [Op.InDomain, hv] at hd
    | cons d1 sub =>
      have hr : v.transposed = ⟨v.base, d1 :: d0 :: sub⟩ := by simp [View.transposed, hv, Layout.transpose]
      have hex : v.exts = d0.ext :: d1.ext :: Layout.exts sub := by simp [View.exts, hv, Layout.exts]
      rw [hr, hex]
      refine ⟨?_, by simp [View.exts, Layout.exts, Op.specShape], ?_⟩
      · rw [hv] at hwf
        intro x hx
        apply hwf x
        simp only [List.mem_cons] at hx ⊢
        rcases hx with h | h | h
        · exact Or.inr (Or.inl h)
        · exact Or.inl h
        · exact Or.inr (Or.inr h)
      · intro idx hidx
        simp only [Op.specShape] at hidx
        obtain ⟨i, r, rfl, h1, h2, h3⟩ := inBox_cons hidx
        obtain ⟨j, r', rfl, h4, h5, h6⟩ := inBox_cons h3
        simp only [Op.specMap]
        rw [addr_eq, addr_eq, hv]
        constructor
        · simp only [Layout.off]; omega
        · rw [hex]; simp only [InBox]; exact ⟨⟨h4, h5⟩, ⟨h1, h2⟩, h6⟩

theorem off_reverse (l : Layout) (idx : List Int) (h : idx.length = l.length) :
    Layout.off (List.reverse l) (List.reverse idx) = Layout.off l idx := by
  induction l generalizing idx with
  | nil => cases idx <;> simp [Layout.off]
  | cons d l ih =>
    cases idx with
    | nil => simp at h
    | cons t r =>
      have hl : r.length = l.length := by simpa using h
      simp only [List.reverse_cons]
      rw [off_append _ _ _ _ (by simpa using hl), ih r hl]
      simp only [Layout.off]; omega

theorem inBox_reverse {es : List Ext} {idx : List Int} (h : InBox es idx) :
    InBox (List.reverse es) (List.reverse idx) := by
  induction es generalizing idx with
  | nil => cases idx <;> simp_all [InBox]
  | cons e es ih =>
    cases idx with
    | nil => simp [InBox] at h
    | cons t r =>
      simp only [List.reverse_cons]
      exact inBox_append.mpr ⟨ih h.2, h.1.1, h.1.2⟩

theorem reversed_refines (v : View) (hwf : v.lay.WF) :
    Refines v v.reversed (Op.reversed.specShape v.exts) (Op.reversed.specMap v.exts) := by
  have hr : v.reversed = ⟨v.base, List.reverse v.lay⟩ := by simp [View.reversed, reverse_eq]
  rw [hr]
  refine ⟨?_, by simp [View.exts, Layout.exts, Op.specShape], ?_⟩
  · exact wf_of_perm (l := v.lay) (by intro x hx; simpa using hx) hwf
  · intro idx hidx
    simp only [Op.specShape] at hidx
    have h2 := inBox_reverse hidx
    simp only [List.reverse_reverse] at h2
    have hlen : (List.reverse idx).length = v.lay.length := by
      have := inBox_length h2; simpa [View.exts, Layout.exts] using this
    simp only [Op.specMap]
    rw [addr_eq, addr_eq]
    constructor
    · have := off_reverse v.lay (List.reverse idx) hlen
      simp only [List.reverse_reverse] at this
      simp only [this]
    · exact h2

end Multi
