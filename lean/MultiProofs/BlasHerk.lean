/-
  MultiProofs.BlasHerk — the certificate `HerkOK` for xHERK (C := alpha·A·Aᴴ + beta·C on one triangle, `HerkSpec` in
  MultiProofs.BlasSyrk) and its soundness.
-/
import MultiModel.Blas
import MultiProofs.BlasLemmas
import MultiProofs.BlasGemm
import MultiProofs.BlasSyrk

namespace Multi.Blas
variable {R : Type} [CRing R] [DecidableEq R]

omit [CRing R] [DecidableEq R] in
def RankKCall.LegalHerk (g : RankKCall R) : Prop :=
  (g.uplo = 'U' ∨ g.uplo = 'L') ∧ (g.t = 'N' ∨ g.t = 'C') ∧ 0 ≤ g.n ∧ 0 ≤ g.k ∧
  1 ≤ g.lda ∧ (if g.t = 'N' then g.n else g.k) ≤ g.lda ∧ 1 ≤ g.ldc ∧ g.n ≤ g.ldc

omit [CRing R] [DecidableEq R] in
theorem herk_illegal_none_iff (g : RankKCall R) : g.illegal true true = none ↔ g.LegalHerk := by
  unfold RankKCall.illegal RankKCall.LegalHerk
  simp only [if_true]
  by_cases h1 : g.uplo = 'U' ∨ g.uplo = 'L'
  · have e1 : (!(decide (g.uplo = 'U') || decide (g.uplo = 'L'))) = false := by
      rcases h1 with h | h <;> simp [h]
    by_cases h2 : (g.t = 'N' ∨ g.t = 'C')
    · have e2 : (!(decide (g.t = 'N') || decide (g.t = 'C'))) = false := by
        rcases h2 with h | h <;> simp [h]
      simp only [e1, e2, Bool.false_eq_true, if_false]
      by_cases h3 : g.n < 0
      · simp only [h3, if_true, reduceCtorEq, false_iff]; omega
      by_cases h4 : g.k < 0
      · simp only [h3, h4, if_true, if_false, reduceCtorEq, false_iff]; omega
      simp only [h3, h4, if_false]
      by_cases h7 : g.lda < maxI 1 (if g.t = 'N' then g.n else g.k)
      · simp only [h7, if_true, reduceCtorEq, false_iff]
        have := maxI_lt.mp h7
        omega
      by_cases h10 : g.ldc < maxI 1 g.n
      · simp only [h7, h10, if_true, if_false, reduceCtorEq, false_iff]
        have := maxI_lt.mp h10
        omega
      simp only [h7, h10, if_false, true_iff]
      have a7 := maxI_le.mp h7
      have a10 := maxI_le.mp h10
      exact ⟨h1, h2, by omega, by omega, a7.1, a7.2, a10.1, a10.2⟩
    · have e2 : (!(decide (g.t = 'N') || decide (g.t = 'C'))) = true := by simp_all
      simp only [e1, e2, Bool.false_eq_true, if_false, if_true, reduceCtorEq, false_iff]
      exact fun h => h2 h.2.1
  · have e1 : (!(decide (g.uplo = 'U') || decide (g.uplo = 'L'))) = true := by simp_all
    simp only [e1, if_true, reduceCtorEq, false_iff]
    exact fun h => h1 h.1

/-- the stored matrix of the call is the UNDERLYING (not conjugated) n×k matrix of `a` -/
def RkIsU (t : Char) (p ld n k : Int) (a : Mat) : Prop :=
  (n ≤ 0 ∨ k ≤ 0 ∨ p = a.base) ∧
  ((t = 'N' ∧ (n ≤ 1 ∨ a.s0 = 1) ∧ (k ≤ 1 ∨ a.s1 = ld)) ∨ (t ≠ 'N' ∧ (k ≤ 1 ∨ a.s1 = 1) ∧ (n ≤ 1 ∨ a.s0 = ld)))

omit [CRing R] [DecidableEq R] in
theorem rkIsU_elem {t : Char} {p ld n k : Int} {a : Mat} (h : RkIsU t p ld n k a) (mem : Mem R)
    {i l : Int} (hi0 : 0 ≤ i) (hi : i < n) (hl0 : 0 ≤ l) (hl : l < k) :
    rkElem t p ld mem i l = mem (a.base + i * a.s0 + l * a.s1) := by
  obtain ⟨hb, hc⟩ := h
  have hbase : p = a.base := by rcases hb with h | h | h <;> first | omega | exact h
  subst hbase
  unfold rkElem
  rcases hc with ⟨ht, h1, h2⟩ | ⟨ht, h1, h2⟩
  · rw [if_pos ht, mul_of_le_one hi0 hi h1, mul_of_le_one' hl0 hl h2]
  · rw [if_neg ht, mul_of_le_one hl0 hl h1, mul_of_le_one' hi0 hi h2]
    congr 1; omega

/-- THE CERTIFICATE for xHERK.  `tr` = the n×n block of the call is Cᵀ (C row-major); the call computes
    E·Eᴴ ('N') or Eᴴ·E ('C') of the UNDERLYING matrix E of A, which is A·Aᴴ read in C exactly when
    (block = C, 'N', A plain), (block = C, 'C', A conjugated), (block = Cᵀ, 'N', A conjugated), (block = Cᵀ, 'C', A plain). -/
def HerkOK (g : RankKCall R) (alpha beta : R) (side : Filling) (a c : Mat) : Prop :=
  g.illegal true true = none ∧ g.alpha = alpha ∧ g.beta = beta ∧ g.n = c.n0 ∧ c.n1 = c.n0 ∧ g.k = a.n1 ∧
  RkIsU g.t g.a g.lda c.n0 a.n1 a ∧
  ( (OutIs g.c g.ldc c.n0 c.n0 c.lmT ∧ g.uplo = side.char ∧ ((g.t = 'N' ∧ a.cj = true) ∨ (g.t = 'C' ∧ a.cj = false)))
  ∨ (OutIs g.c g.ldc c.n0 c.n0 c.lm ∧ g.uplo = side.flip.char ∧ ((g.t = 'N' ∧ a.cj = false) ∨ (g.t = 'C' ∧ a.cj = true))) )

end Multi.Blas

namespace Multi.Blas
variable {R : Type} [CRing R] [DecidableEq R]

/-- the sum an xHERK call forms for the cell (i, j) of its block -/
def herkSum (g : RankKCall R) (mem : Mem R) (i j : Int) : R :=
  if g.t = 'N'
  then sumZ g.k (fun l => rkElem 'N' g.a g.lda mem i l * CRing.conj (rkElem 'N' g.a g.lda mem j l))
  else sumZ g.k (fun l => CRing.conj (rkElem 'C' g.a g.lda mem i l) * rkElem 'C' g.a g.lda mem j l)

theorem herk_exec_hit {g : RankKCall R} (h : g.illegal true true = none)
    (hq : ¬ (g.n = 0 ∨ ((g.alpha = 0 ∨ g.k = 0) ∧ g.beta = 1))) (mem : Mem R) {addr i j : Int}
    (hc : cmIndex g.c g.ldc g.n g.n addr = some (i, j)) (htri : (g.uplo = 'U' ∧ i ≤ j) ∨ (g.uplo = 'L' ∧ j ≤ i)) :
    g.execHerk mem addr = if i = j then CRing.re (g.alpha * herkSum g mem i j + g.beta * CRing.re (mem addr)) else g.alpha * herkSum g mem i j + g.beta * mem addr := by
  unfold RankKCall.execHerk herkSum
  simp only [h, Option.isSome_none, Bool.false_eq_true, if_false, hq, hc, htri, if_true]

theorem herk_exec_quick {g : RankKCall R} (hq : (g.n = 0 ∨ ((g.alpha = 0 ∨ g.k = 0) ∧ g.beta = 1))) (mem : Mem R) (addr : Int) :
    g.execHerk mem addr = mem addr := by
  unfold RankKCall.execHerk
  split
  · rfl
  · simp only [hq, if_true]

theorem herk_exec_same {g : RankKCall R} (mem : Mem R) {addr : Int}
    (hno : ∀ i j, cmIndex g.c g.ldc g.n g.n addr = some (i, j) → ¬ ((g.uplo = 'U' ∧ i ≤ j) ∨ (g.uplo = 'L' ∧ j ≤ i))) :
    g.execHerk mem addr = mem addr := by
  unfold RankKCall.execHerk
  split
  · rfl
  · split
    · rfl
    · cases hc : cmIndex g.c g.ldc g.n g.n addr with
      | none => simp only [hc]
      | some p =>
        obtain ⟨i, j⟩ := p
        simp only [hc, if_neg (hno i j hc)]

/-- soundness of the certificate, for a memory in which the diagonal of C is self-conjugate (a Hermitian C) -/
theorem herkOK_sound {g : RankKCall R} {alpha beta : R} {side : Filling} {a c : Mat} (hcc : c.cj = false)
    (h : HerkOK g alpha beta side a c) (mem : Mem R)
    (hdiag : ∀ i : Int, 0 ≤ i → i < c.n0 → CRing.conj (c.load mem i i) = c.load mem i i) :
    HerkSpec alpha beta side a c mem (g.execHerk mem) := by
  obtain ⟨hleg, hal, hbe, hn, hsq, hk, hA, hor⟩ := h
  obtain ⟨_, _, hn0, hk0, _, _, hld1, hnld⟩ := (herk_illegal_none_iff g).mp hleg
  -- the sum of the call in terms of the underlying matrix U of a
  have hsumN : g.t = 'N' → ∀ i j : Int, 0 ≤ i → i < c.n0 → 0 ≤ j → j < c.n0 →
      herkSum g mem i j = sumZ a.n1 (fun l => mem (a.base + i * a.s0 + l * a.s1) * CRing.conj (mem (a.base + j * a.s0 + l * a.s1))) := by
    intro ht i j hi0 hi hj0 hj
    unfold herkSum
    rw [if_pos ht, hk]
    apply sumZ_congr
    intro l hl0 hl
    have hA' : RkIsU 'N' g.a g.lda c.n0 a.n1 a := by rw [← ht]; exact hA
    rw [rkIsU_elem hA' mem hi0 hi hl0 hl, rkIsU_elem hA' mem hj0 hj hl0 hl]
  have hsumC : g.t = 'C' → ∀ i j : Int, 0 ≤ i → i < c.n0 → 0 ≤ j → j < c.n0 →
      herkSum g mem i j = sumZ a.n1 (fun l => CRing.conj (mem (a.base + i * a.s0 + l * a.s1)) * mem (a.base + j * a.s0 + l * a.s1)) := by
    intro ht i j hi0 hi hj0 hj
    unfold herkSum
    rw [if_neg (by rw [ht]; decide), hk]
    apply sumZ_congr
    intro l hl0 hl
    have hA' : RkIsU 'C' g.a g.lda c.n0 a.n1 a := by rw [← ht]; exact hA
    rw [rkIsU_elem hA' mem hi0 hi hl0 hl, rkIsU_elem hA' mem hj0 hj hl0 hl]
  -- the specification's sum
  let specSum : Int → Int → R := fun i j => sumZ a.n1 (fun l => a.load mem i l * CRing.conj (a.load mem j l))
  -- generic cell lemma: a cell (i', j') of the call's block that holds C(i, j) and whose call-sum is the spec sum gets the specified value
  have cell : ∀ (addr i' j' i j : Int), cmIndex g.c g.ldc g.n g.n addr = some (i', j') → ((g.uplo = 'U' ∧ i' ≤ j') ∨ (g.uplo = 'L' ∧ j' ≤ i')) →
      (i' = j' ↔ i = j) → herkSum g mem i' j' = specSum i j → 0 ≤ i → i < c.n0 → (i = j → CRing.conj (mem addr) = mem addr) →
      g.execHerk mem addr = if i = j then CRing.re (alpha * specSum i j + beta * CRing.re (mem addr)) else alpha * specSum i j + beta * mem addr := by
    intro addr i' j' i j hci htri hij hs hi0 hi hself
    by_cases hq : (g.n = 0 ∨ ((g.alpha = 0 ∨ g.k = 0) ∧ g.beta = 1))
    · rw [herk_exec_quick hq]
      rcases hq with hq | ⟨hq, hb1⟩
      · omega
      · have hzero : alpha * specSum i j = 0 := by
          rcases hq with hq | hq
          · rw [← hal, hq, CRing.zero_mul]
          · have : a.n1 = 0 := by omega
            show alpha * sumZ a.n1 _ = 0
            rw [this]
            show alpha * sumTo 0 _ = 0
            unfold sumTo
            exact mul_zero' alpha
        rw [hzero, ← hbe, hb1, CRing.one_mul, CRing.one_mul, CRing.zero_add, CRing.zero_add]
        by_cases hd : i = j
        · rw [if_pos hd]
          have := hself hd
          rw [CRing.re_self _ this, CRing.re_self _ this]
        · rw [if_neg hd]
    · rw [herk_exec_hit hleg hq mem hci htri, hal, hbe, hs]
      by_cases hd : i = j
      · rw [if_pos hd, if_pos (hij.mpr hd)]
      · rw [if_neg hd, if_neg (fun h => hd (hij.mp h))]
  have loadA : ∀ i l : Int, a.load mem i l = cjIf a.cj (mem (a.base + i * a.s0 + l * a.s1)) := fun _ _ => rfl
  rcases hor with ⟨hout, hup, hcase⟩ | ⟨hout, hup, hcase⟩
  · -- the block is Cᵀ
    have haddr : ∀ i j : Int, 0 ≤ i → i < c.n0 → 0 ≤ j → j < c.n0 → c.base + i * c.s0 + j * c.s1 = g.c + j + i * g.ldc := by
      intro i j hi0 hi hj0 hj
      have := outIs_addr hout (i := j) (j := i) hj0 hj hi0 hi
      simp only [Mat.lmT] at this
      omega
    have hs : ∀ i j : Int, 0 ≤ i → i < c.n0 → 0 ≤ j → j < c.n0 → herkSum g mem j i = specSum i j := by
      intro i j hi0 hi hj0 hj
      rcases hcase with ⟨ht, hcj⟩ | ⟨ht, hcj⟩
      · rw [hsumN ht j i hj0 hj hi0 hi]
        apply sumZ_congr
        intro l _ _
        rw [loadA, loadA, hcj]
        simp only [cjIf, if_true]
        rw [CRing.conj_conj, CRing.mul_comm]
      · rw [hsumC ht j i hj0 hj hi0 hi]
        apply sumZ_congr
        intro l _ _
        rw [loadA, loadA, hcj]
        simp only [cjIf, Bool.false_eq_true, if_false]
        rw [CRing.mul_comm]
    have hci : ∀ i j : Int, 0 ≤ i → i < c.n0 → 0 ≤ j → j < c.n0 → cmIndex g.c g.ldc g.n g.n (g.c + j + i * g.ldc) = some (j, i) :=
      fun i j hi0 hi hj0 hj => cmIndex_hit hj0 (by omega) hi0 (by omega) hnld
    have htr : ∀ i j : Int, inTri side i j → (g.uplo = 'U' ∧ j ≤ i) ∨ (g.uplo = 'L' ∧ i ≤ j) := by
      intro i j htri
      rw [hup]; cases side <;> simp [Filling.char, inTri] at htri ⊢ <;> omega
    constructor
    · intro i j hi0 hi hj0 hj htri hne
      have hj' : j < c.n0 := by omega
      unfold Mat.load
      rw [hcc, cjIf_false, cjIf_false, haddr i j hi0 hi hj0 hj',
        cell _ j i i j (hci i j hi0 hi hj0 hj') (htr i j htri) (by constructor <;> intro h <;> omega) (hs i j hi0 hi hj0 hj') hi0 hi (fun h => absurd h hne), if_neg hne]
      rfl
    · intro i hi0 hi
      have hself : CRing.conj (mem (g.c + i + i * g.ldc)) = mem (g.c + i + i * g.ldc) := by
        have := hdiag i hi0 hi
        unfold Mat.load at this
        rw [hcc, cjIf_false, haddr i i hi0 hi hi0 hi] at this
        exact this
      unfold Mat.load
      rw [hcc, cjIf_false, cjIf_false, haddr i i hi0 hi hi0 hi,
        cell _ i i i i (hci i i hi0 hi hi0 hi) (htr i i (by cases side <;> simp [inTri])) Iff.rfl (hs i i hi0 hi hi0 hi) hi0 hi (fun _ => hself), if_pos rfl]
      rfl
    · intro addr hno
      apply herk_exec_same
      intro i' j' hci' htr'
      obtain ⟨hadr, hi0, hi, hj0, hj⟩ := cmIndex_some hci'
      apply hno
      refine ⟨j', i', hj0, by omega, hi0, by omega, ?_, ?_⟩
      · rw [hup] at htr'; cases side <;> simp [Filling.char, inTri] at htr' ⊢ <;> omega
      · have := haddr j' i' hj0 (by omega) hi0 (by omega)
        unfold Mat.addr
        omega
  · -- the block is C
    have haddr : ∀ i j : Int, 0 ≤ i → i < c.n0 → 0 ≤ j → j < c.n0 → c.base + i * c.s0 + j * c.s1 = g.c + i + j * g.ldc := by
      intro i j hi0 hi hj0 hj
      have := outIs_addr hout (i := i) (j := j) hi0 hi hj0 hj
      simp only [Mat.lm] at this
      omega
    have hs : ∀ i j : Int, 0 ≤ i → i < c.n0 → 0 ≤ j → j < c.n0 → herkSum g mem i j = specSum i j := by
      intro i j hi0 hi hj0 hj
      rcases hcase with ⟨ht, hcj⟩ | ⟨ht, hcj⟩
      · rw [hsumN ht i j hi0 hi hj0 hj]
        apply sumZ_congr
        intro l _ _
        rw [loadA, loadA, hcj]
        simp only [cjIf, Bool.false_eq_true, if_false]
      · rw [hsumC ht i j hi0 hi hj0 hj]
        apply sumZ_congr
        intro l _ _
        rw [loadA, loadA, hcj]
        simp only [cjIf, if_true]
        rw [CRing.conj_conj]
    have hci : ∀ i j : Int, 0 ≤ i → i < c.n0 → 0 ≤ j → j < c.n0 → cmIndex g.c g.ldc g.n g.n (g.c + i + j * g.ldc) = some (i, j) :=
      fun i j hi0 hi hj0 hj => cmIndex_hit hi0 (by omega) hj0 (by omega) hnld
    have htr : ∀ i j : Int, inTri side i j → (g.uplo = 'U' ∧ i ≤ j) ∨ (g.uplo = 'L' ∧ j ≤ i) := by
      intro i j htri
      rw [hup]; cases side <;> simp [Filling.char, Filling.flip, inTri] at htri ⊢ <;> omega
    constructor
    · intro i j hi0 hi hj0 hj htri hne
      have hj' : j < c.n0 := by omega
      unfold Mat.load
      rw [hcc, cjIf_false, cjIf_false, haddr i j hi0 hi hj0 hj',
        cell _ i j i j (hci i j hi0 hi hj0 hj') (htr i j htri) Iff.rfl (hs i j hi0 hi hj0 hj') hi0 hi (fun h => absurd h hne), if_neg hne]
      rfl
    · intro i hi0 hi
      have hself : CRing.conj (mem (g.c + i + i * g.ldc)) = mem (g.c + i + i * g.ldc) := by
        have := hdiag i hi0 hi
        unfold Mat.load at this
        rw [hcc, cjIf_false, haddr i i hi0 hi hi0 hi] at this
        exact this
      unfold Mat.load
      rw [hcc, cjIf_false, cjIf_false, haddr i i hi0 hi hi0 hi,
        cell _ i i i i (hci i i hi0 hi hi0 hi) (htr i i (by cases side <;> simp [inTri])) Iff.rfl (hs i i hi0 hi hi0 hi) hi0 hi (fun _ => hself), if_pos rfl]
      rfl
    · intro addr hno
      apply herk_exec_same
      intro i' j' hci' htr'
      obtain ⟨hadr, hi0, hi, hj0, hj⟩ := cmIndex_some hci'
      apply hno
      refine ⟨i', j', hi0, by omega, hj0, by omega, ?_, ?_⟩
      · rw [hup] at htr'; cases side <;> simp [Filling.char, Filling.flip, inTri] at htr' ⊢ <;> omega
      · have := haddr i' j' hi0 (by omega) hj0 (by omega)
        unfold Mat.addr
        omega

end Multi.Blas
